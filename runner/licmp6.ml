(* Licmp6 runner: ICMPv6 header + NDP messages; mirrors harness/cmd/gpverif/licmp6.go *)
open Util
module M = Licmp6Model

let cls_name (o : 'a Base.outcome) : string =
  match int_of_z (N6Lib.n6_class o) with 0 -> "ok" | 1 -> "err" | 2 -> "panic" | _ -> "stuck"

let split_first c s =
  match String.index_opt s c with
  | None -> (s, "")
  | Some i -> (String.sub s 0 i, String.sub s (i + 1) (String.length s - i - 1))

let args_of op =
  let (name, rest) = split_first ':' op in
  (name, if rest = "" then [] else split_on ',' rest)

let kind_of = function
  | "rs" -> M.KRS | "ra" -> M.KRA | "ns" -> M.KNS | "na" -> M.KNA | "rd" -> M.KRD | "opts" -> M.KOPT
  | k -> failwith ("kind " ^ k)

let zi z = string_of_int (int_of_z z)
let b2i b = if b then "1" else "0"

let opts_str (os : M.opt list) =
  String.concat "|" (Stdlib.List.map (fun (o : M.opt) -> zi o.M.o_type ^ "~" ^ hex_of_bytes o.M.o_data) os)

let hdr_fields (l : M.icmp6) = Printf.sprintf "tc=%s;csum=%s" (zi l.M.i_tc) (zi l.M.i_csum)
let hdr_state (l : M.icmp6) =
  Printf.sprintf "%s;c=%s;p=%s;next=%s" (hdr_fields l) (hex_of_bytes l.M.i_contents) (hex_of_bytes l.M.i_payload)
    (zi (M.icmp6_next l))
let hdr_render (l : M.icmp6) =
  let r = if M.icmp6_render_panics l then "panic" else "ok" in
  Printf.sprintf "render=%s,%s,ok,ok" r r

let ndp_fields k (l : M.ndp) =
  let os = "opts=" ^ opts_str l.M.n_opts in
  match k with
  | "rs" | "opts" -> os
  | "ra" -> Printf.sprintf "hop=%s;flags=%s;life=%s;reach=%s;retrans=%s;%s" (zi l.M.n_hop) (zi l.M.n_flags)
              (zi l.M.n_life) (zi l.M.n_reach) (zi l.M.n_retrans) os
  | "ns" -> Printf.sprintf "tgt=%s;%s" (hex_of_bytes l.M.n_target) os
  | "na" -> Printf.sprintf "flags=%s;tgt=%s;%s" (zi l.M.n_flags) (hex_of_bytes l.M.n_target) os
  | "rd" -> Printf.sprintf "tgt=%s;dst=%s;%s" (hex_of_bytes l.M.n_target) (hex_of_bytes l.M.n_dest) os
  | _ -> failwith "kind"
let ndp_state k (l : M.ndp) =
  if k = "opts" then ndp_fields k l
  else Printf.sprintf "%s;c=%s;p=%s;next=%s" (ndp_fields k l) (hex_of_bytes l.M.n_contents) (hex_of_bytes l.M.n_payload)
         (zi (M.ndp_next (kind_of k) l))
let ndp_render k (l : M.ndp) =
  let r = if k <> "opts" && M.ndp_render_panics l then "panic" else "ok" in
  let os = if Stdlib.List.exists M.opt_string_panics l.M.n_opts then "panic" else "ok" in
  Printf.sprintf "render=%s,%s,ok,%s" r r os

let ph_of s =
  if s = "-" then M.PHnone
  else let (a, b) = split_first '.' s in M.PH6 (bytes_of_hex a, bytes_of_hex b)

(* junk handed to the serializer: zeroes for a fresh or pre-sized buffer (an empty junk list is
   padded with zeroes by the model), 0xAA for the dirty one *)
let junk_of mode need =
  if mode = 1 then Stdlib.List.init need (fun _ -> z_of_int 0xAA) else []

let flags s = (s.[0] = '1', s.[1] = '1', Char.code s.[2] - 48)

let parse_opts s : M.opt list =
  if s = "" then []
  else Stdlib.List.map (fun p -> let (t, d) = split_first '~' p in
      { M.o_type = z_of_int (int_of_string t); M.o_data = bytes_of_hex d }) (split_on '|' s)

let build_ndp fields : M.ndp =
  match split_on '.' fields with
  | [hop; fl; life; reach; retrans; tgt; dst; os] ->
    let z s = z_of_int (int_of_string s) in
    { M.n_hop = z hop; n_flags = z fl; n_life = z life; n_reach = z reach; n_retrans = z retrans;
      n_target = bytes_of_hex tgt; n_dest = bytes_of_hex dst; n_opts = parse_opts os;
      n_contents = []; n_payload = [] }
  | _ -> failwith "ndp fields"

let build_hdr fields : M.icmp6 =
  match split_on '.' fields with
  | [tc; cs] -> { M.i_tc = z_of_int (int_of_string tc); i_csum = z_of_int (int_of_string cs); i_contents = []; i_payload = [] }
  | _ -> failwith "hdr fields"

let junk_need_ndp (l : M.ndp) =
  64 + Stdlib.List.fold_left (fun a (o : M.opt) -> a + 2 + Stdlib.List.length o.M.o_data) 0 l.M.n_opts


(* ---- kind echo *)
let echo_fields (l : M.echo) = Printf.sprintf "id=%s;seq=%s" (zi l.M.ec_id) (zi l.M.ec_seq)
let echo_state (l : M.echo) =
  Printf.sprintf "%s;c=%s;p=%s;next=2" (echo_fields l) (hex_of_bytes l.M.ec_contents) (hex_of_bytes l.M.ec_payload)
let echo_run name (a : string array) emit =
  let arg i = if i < Array.length a then a.(i) else "" in
  let dec old h = M.echo_decode_into old (bytes_of_hex h) in
  let build f = match split_on '.' f with
    | [i; s] -> { M.ec_id = z_of_int (int_of_string i); ec_seq = z_of_int (int_of_string s); ec_contents = []; ec_payload = [] }
    | _ -> failwith "echo fields" in
  match name with
  | "dec" -> let ((l, r), tr) = dec M.echo_fresh (arg 1) in
    emit (Printf.sprintf "cls=%s;trunc=%s;%s;render=ok,ok,ok,ok" (cls_name r) (b2i tr) (echo_state l))
  | "dec2" -> let ((l0, _), _) = dec M.echo_fresh (arg 1) in let ((l, r), tr) = dec l0 (arg 2) in
    emit (Printf.sprintf "cls=%s;trunc=%s;%s;render=ok,ok,ok,ok" (cls_name r) (b2i tr) (echo_state l))
  | "ser" | "nser" ->
    let (l, fcd, payload) = if name = "ser" then (let ((l, _), _) = dec M.echo_fresh (arg 1) in (l, arg 2, arg 3)) else (build (arg 4), arg 1, arg 2) in
    let (fix, csum, mode) = flags fcd in
    let (r, l') = M.echo_serialize l (bytes_of_hex payload) fix csum (junk_of mode 64) in
    emit (Printf.sprintf "cls=%s;out=%s;%s" (cls_name r) (match r with Base.Ok b -> hex_of_bytes b | _ -> "") (echo_fields l'))
  | "rt" | "nrt" ->
    let (l, payload) = if name = "rt" then (let ((l, _), _) = dec M.echo_fresh (arg 1) in (l, arg 2)) else (build (arg 3), arg 1) in
    (match M.echo_serialize l (bytes_of_hex payload) true true [] with
     | (Base.Ok b, _) -> let ((l2, r2), tr2) = M.echo_decode_into M.echo_fresh b in
       emit (Printf.sprintf "scls=ok;cls=%s;trunc=%s;%s;render=ok,ok,ok,ok" (cls_name r2) (b2i tr2) (echo_state l2))
     | (r, _) -> emit (Printf.sprintf "scls=%s;cls=err;trunc=0;%s;render=ok,ok,ok,ok" (cls_name r) (echo_state M.echo_fresh)))
  | _ -> failwith "echo op"

let run (id : string) (ops : string list) (out : out_channel) =
  let step = ref 0 in
  let emit s = Printf.fprintf out "%s\t%d\t%s\n" id !step s; incr step in
  Stdlib.List.iter (fun op ->
    let (name, a) = args_of op in
    let a = Array.of_list a in
    let arg i = if i < Array.length a then a.(i) else "" in
    if Array.length a > 0 && a.(0) = "echo" && name <> "ostr" then echo_run name a emit else
    match name with
    | "dec" ->
      let k = arg 0 and data = bytes_of_hex (arg 1) in
      if k = "hdr" then begin
        let ((l, r), tr) = M.icmp6_decode_into M.icmp6_fresh data in
        emit (Printf.sprintf "cls=%s;trunc=%s;%s;%s" (cls_name r) (b2i tr) (hdr_state l) (hdr_render l))
      end else begin
        let ((l, r), tr) = M.ndp_decode_into (kind_of k) M.ndp_fresh data in
        emit (Printf.sprintf "cls=%s;trunc=%s;%s;%s" (cls_name r) (b2i tr) (ndp_state k l) (ndp_render k l))
      end
    | "dec2" ->
      let k = arg 0 and da = bytes_of_hex (arg 1) and db = bytes_of_hex (arg 2) in
      if k = "hdr" then begin
        let ((l0, _), _) = M.icmp6_decode_into M.icmp6_fresh da in
        let ((l, r), tr) = M.icmp6_decode_into l0 db in
        emit (Printf.sprintf "cls=%s;trunc=%s;%s;%s" (cls_name r) (b2i tr) (hdr_state l) (hdr_render l))
      end else begin
        let ((l0, _), _) = M.ndp_decode_into (kind_of k) M.ndp_fresh da in
        let ((l, r), tr) = M.ndp_decode_into (kind_of k) l0 db in
        emit (Printf.sprintf "cls=%s;trunc=%s;%s;%s" (cls_name r) (b2i tr) (ndp_state k l) (ndp_render k l))
      end
    | "ser" | "nser" ->
      let k = arg 0 in
      let (fcd, payload, ph, hdr, ndp) =
        if name = "ser" then begin
          let data = bytes_of_hex (arg 1) in
          if k = "hdr" then
            let ((l, _), _) = M.icmp6_decode_into M.icmp6_fresh data in (arg 2, arg 3, arg 4, Some l, None)
          else
            let ((l, _), _) = M.ndp_decode_into (kind_of k) M.ndp_fresh data in (arg 2, arg 3, arg 4, None, Some l)
        end else begin
          if k = "hdr" then (arg 1, arg 2, arg 3, Some (build_hdr (arg 4)), None)
          else (arg 1, arg 2, arg 3, None, Some (build_ndp (arg 4)))
        end in
      let (fix, csum, mode) = flags fcd in
      let payload = bytes_of_hex payload in
      (match hdr, ndp with
       | Some l, _ ->
         let (r, l') = M.icmp6_serialize l payload fix csum (ph_of ph) (junk_of mode 64) in
         let o = match r with Base.Ok b -> hex_of_bytes b | _ -> "" in
         emit (Printf.sprintf "cls=%s;out=%s;%s" (cls_name r) o (hdr_fields l'))
       | _, Some l ->
         let (r, l') = M.ndp_serialize (kind_of k) l payload fix csum (junk_of mode (junk_need_ndp l)) in
         let o = match r with Base.Ok b -> hex_of_bytes b | _ -> "" in
         emit (Printf.sprintf "cls=%s;out=%s;%s" (cls_name r) o (ndp_fields k l'))
       | _ -> failwith "ser")
    | "rt" | "nrt" ->
      let k = arg 0 in
      let (payload, ph) = if name = "rt" then (arg 2, arg 3) else (arg 1, arg 2) in
      let payload = bytes_of_hex payload in
      if k = "hdr" then begin
        let l = if name = "rt" then (let ((l, _), _) = M.icmp6_decode_into M.icmp6_fresh (bytes_of_hex (arg 1)) in l)
                else build_hdr (arg 3) in
        let (r, _) = M.icmp6_serialize l payload true true (ph_of ph) [] in
        match r with
        | Base.Ok b ->
          let ((l2, r2), tr2) = M.icmp6_decode_into M.icmp6_fresh b in
          emit (Printf.sprintf "scls=ok;cls=%s;trunc=%s;%s;%s" (cls_name r2) (b2i tr2) (hdr_state l2) (hdr_render l2))
        | _ ->
          emit (Printf.sprintf "scls=%s;cls=err;trunc=0;%s;%s" (cls_name r) (hdr_state M.icmp6_fresh) (hdr_render M.icmp6_fresh))
      end else begin
        let l = if name = "rt" then (let ((l, _), _) = M.ndp_decode_into (kind_of k) M.ndp_fresh (bytes_of_hex (arg 1)) in l)
                else build_ndp (arg 3) in
        let (r, _) = M.ndp_serialize (kind_of k) l payload true true [] in
        match r with
        | Base.Ok b ->
          let ((l2, r2), tr2) = M.ndp_decode_into (kind_of k) M.ndp_fresh b in
          emit (Printf.sprintf "scls=ok;cls=%s;trunc=%s;%s;%s" (cls_name r2) (b2i tr2) (ndp_state k l2) (ndp_render k l2))
        | _ ->
          emit (Printf.sprintf "scls=%s;cls=err;trunc=0;%s;%s" (cls_name r) (ndp_state k M.ndp_fresh) (ndp_render k M.ndp_fresh))
      end
    | "ostr" ->
      let o = { M.o_type = z_of_int (int_of_string (arg 0)); M.o_data = bytes_of_hex (arg 1) } in
      emit ("os=" ^ (if M.opt_string_panics o then "panic" else "ok"))
    | _ -> failwith ("Licmp6 op: " ^ op)) ops

let registered = Registry.register "Licmp6" run

(* ---- extraction cross-check inside Coq (see c18.ml): every model call this glue makes for the ops of a
   sampled case (ICMPv6 header / NDP message decode with what the glue reads from the layer, serialize,
   opt_string_panics), restated as a Gallina term and recomputed by vm_compute, must give the value the
   extracted code computed here. *)
let coq_opt (o : M.opt) = Printf.sprintf "mkOpt %s %s" (coq_z o.M.o_type) (coq_zlist o.M.o_data)
let coq_hdr (l : M.icmp6) = Printf.sprintf "(mkIcmp6 %s %s %s %s)" (coq_z l.M.i_tc) (coq_z l.M.i_csum) (coq_zlist l.M.i_contents) (coq_zlist l.M.i_payload)
let coq_ndp (l : M.ndp) =
  Printf.sprintf "(mkNdp %s %s %s %s %s %s %s %s %s %s)" (coq_z l.M.n_hop) (coq_z l.M.n_flags) (coq_z l.M.n_life) (coq_z l.M.n_reach)
    (coq_z l.M.n_retrans) (coq_zlist l.M.n_target) (coq_zlist l.M.n_dest) (coq_list coq_opt l.M.n_opts) (coq_zlist l.M.n_contents) (coq_zlist l.M.n_payload)
let coq_kind = function "rs" -> "KRS" | "ra" -> "KRA" | "ns" -> "KNS" | "na" -> "KNA" | "rd" -> "KRD" | "opts" -> "KOPT" | k -> failwith k
let coq_ph = function M.PHnone -> "PHnone" | M.PH6 (a, b) -> Printf.sprintf "(PH6 %s %s)" (coq_zlist a) (coq_zlist b)

let to_coq (idx : int) (ops : string list) (out : out_channel) =
  let n = ref 0 in
  let name () = incr n; Printf.sprintf "sample_%d_%d" idx !n in
  let small h = String.length h <= 300 in
  let dec_hdr (olds : string) (old : M.icmp6) d =
    let ((l, r), tr) = M.icmp6_decode_into old d in
    coq_example_named out (name ())
      (Printf.sprintf "(let r := icmp6_decode_into %s %s in (r, icmp6_next (fst (fst r)), icmp6_render_panics (fst (fst r))))" olds (coq_zlist d))
      (Printf.sprintf "(%s, %s, %s, %s, %s)" (coq_hdr l) (coq_outcome coq_unit r) (coq_bool tr) (coq_z (M.icmp6_next l)) (coq_bool (M.icmp6_render_panics l))); l in
  let dec_ndp (k : string) (olds : string) (old : M.ndp) d =
    let ((l, r), tr) = M.ndp_decode_into (kind_of k) old d in
    coq_example_named out (name ())
      (Printf.sprintf "(let r := ndp_decode_into %s %s %s in let l := fst (fst r) in (r, ndp_next %s l, ndp_render_panics l, map opt_string_panics (n_opts l)))"
         (coq_kind k) olds (coq_zlist d) (coq_kind k))
      (Printf.sprintf "(%s, %s, %s, %s, %s, %s)" (coq_ndp l) (coq_outcome coq_unit r) (coq_bool tr) (coq_z (M.ndp_next (kind_of k) l))
         (coq_bool (M.ndp_render_panics l)) (coq_list coq_bool (Stdlib.List.map M.opt_string_panics l.M.n_opts))); l in
  let junk_term mode need = if mode = 1 then Printf.sprintf "(repeat 170%%Z %d%%nat)" need else "[]" in
  let ser_hdr (l : M.icmp6) p fix csum ph mode =
    let r = M.icmp6_serialize l p fix csum ph (junk_of mode 64) in
    coq_example_named out (name ())
      (Printf.sprintf "icmp6_serialize %s %s %s %s %s %s" (coq_hdr l) (coq_zlist p) (coq_bool fix) (coq_bool csum) (coq_ph ph) (junk_term mode 64))
      (coq_pair (coq_outcome coq_zlist) coq_hdr r); r in
  let ser_ndp (k : string) (l : M.ndp) p fix csum mode =
    let need = junk_need_ndp l in
    let r = M.ndp_serialize (kind_of k) l p fix csum (junk_of mode need) in
    coq_example_named out (name ())
      (Printf.sprintf "ndp_serialize %s %s %s %s %s %s" (coq_kind k) (coq_ndp l) (coq_zlist p) (coq_bool fix) (coq_bool csum) (junk_term mode need))
      (coq_pair (coq_outcome coq_zlist) coq_ndp r); r in
  Stdlib.List.iter (fun op ->
    let (nm, a) = args_of op in
    let a = Array.of_list a in
    let arg i = if i < Array.length a then a.(i) else "" in
    let k = arg 0 in
    if !n < 6 then
    match nm with
    | "dec" when small (arg 1) ->
      if k = "hdr" then ignore (dec_hdr "icmp6_fresh" M.icmp6_fresh (bytes_of_hex (arg 1)))
      else ignore (dec_ndp k "ndp_fresh" M.ndp_fresh (bytes_of_hex (arg 1)))
    | "dec2" when small (arg 1) && small (arg 2) ->
      if k = "hdr" then (let l0 = dec_hdr "icmp6_fresh" M.icmp6_fresh (bytes_of_hex (arg 1)) in ignore (dec_hdr (coq_hdr l0) l0 (bytes_of_hex (arg 2))))
      else (let l0 = dec_ndp k "ndp_fresh" M.ndp_fresh (bytes_of_hex (arg 1)) in ignore (dec_ndp k (coq_ndp l0) l0 (bytes_of_hex (arg 2))))
    | "ser" | "nser" ->
      let (src, fcd, payload, ph) = if nm = "ser" then (arg 1, arg 2, arg 3, arg 4) else (arg 4, arg 1, arg 2, arg 3) in
      if small src && small payload then begin
        let (fix, csum, mode) = flags fcd in
        if k = "hdr" then
          let l = if nm = "ser" then (let ((l, _), _) = M.icmp6_decode_into M.icmp6_fresh (bytes_of_hex src) in l) else build_hdr src in
          ignore (ser_hdr l (bytes_of_hex payload) fix csum (ph_of ph) mode)
        else
          let l = if nm = "ser" then (let ((l, _), _) = M.ndp_decode_into (kind_of k) M.ndp_fresh (bytes_of_hex src) in l) else build_ndp src in
          ignore (ser_ndp k l (bytes_of_hex payload) fix csum mode)
      end
    | "rt" | "nrt" ->
      let (src, payload, ph) = if nm = "rt" then (arg 1, arg 2, arg 3) else (arg 3, arg 1, arg 2) in
      if small src && small payload then begin
        if k = "hdr" then
          let l = if nm = "rt" then (let ((l, _), _) = M.icmp6_decode_into M.icmp6_fresh (bytes_of_hex src) in l) else build_hdr src in
          (match ser_hdr l (bytes_of_hex payload) true true (ph_of ph) 0 with
           | (Base.Ok b, _) -> ignore (dec_hdr "icmp6_fresh" M.icmp6_fresh b) | _ -> ())
        else
          let l = if nm = "rt" then (let ((l, _), _) = M.ndp_decode_into (kind_of k) M.ndp_fresh (bytes_of_hex src) in l) else build_ndp src in
          (match ser_ndp k l (bytes_of_hex payload) true true 0 with
           | (Base.Ok b, _) -> ignore (dec_ndp k "ndp_fresh" M.ndp_fresh b) | _ -> ())
      end
    | "ostr" ->
      let o = { M.o_type = z_of_int (int_of_string (arg 0)); M.o_data = bytes_of_hex (arg 1) } in
      coq_example_named out (name ()) ("opt_string_panics (" ^ coq_opt o ^ ")") (coq_bool (M.opt_string_panics o))
    | _ -> ()) ops
let registered_coq = Registry.register_coq "Licmp6" ("From GP Require Import Base N6Lib Licmp6Model.\n", to_coq)
