(* Lip6 runner: IPv6 header, hop-by-hop / destination options; mirrors harness/cmd/gpverif/lip6.go *)
open Util
open N6util
module M = Lip6Model

let tlv_str (ts : M.tlv list) =
  String.concat "|" (Stdlib.List.map (fun (t : M.tlv) ->
    Printf.sprintf "%s~%s~%s~%s~%s~%s" (zi t.M.t_type) (zi t.M.t_olen) (zi t.M.t_alen) (hex_of_bytes t.M.t_data)
      (zi t.M.t_ax) (zi t.M.t_ay)) ts)

let ext_state sep (h : M.ext) =
  Printf.sprintf "next=%s%shlen=%s%salen=%s%sopts=%s%sc=%s%sp=%s" (zi h.M.e_next) sep (zi h.M.e_hlen) sep (zi h.M.e_alen) sep
    (tlv_str h.M.e_opts) sep (big h.M.e_contents) sep (big h.M.e_payload)

let ip6_state (l : M.ip6) =
  let hs = match l.M.p_hbh with None -> "-" | Some h -> ext_state "!" h in
  Printf.sprintf "ver=%s;tc=%s;flow=%s;len=%s;nh=%s;hop=%s;src=%s;dst=%s;hbh=%s;c=%s;p=%s;next=%s"
    (zi l.M.p_version) (zi l.M.p_tclass) (zi l.M.p_flow) (zi l.M.p_length) (zi l.M.p_next) (zi l.M.p_hop)
    (hex_of_bytes l.M.p_src) (hex_of_bytes l.M.p_dst) hs (big l.M.p_contents) (big l.M.p_payload) (zi (M.ip6_next l))

let pn b = if b then "panic" else "ok"
let ext_render (h : M.ext) = let r = pn (M.ext_render_panics h) in Printf.sprintf "render=%s,%s,%s,ok" r r r
let ip6_render (l : M.ip6) =
  let r = pn (M.ip6_render_panics l) in Printf.sprintf "render=%s,%s,%s,%s" r r r (pn (M.ip6_flow_panics l))

let parse_tlvs s : M.tlv list =
  if s = "" then []
  else Stdlib.List.map (fun p ->
    match split_on '~' p with
    | [t; ol; al; d; ax; ay] ->
      { M.t_type = zs t; t_olen = zs ol; t_alen = zs al; t_data = bytes_of_hex d; t_ax = zs ax; t_ay = zs ay }
    | _ -> failwith "tlv") (split_on '|' s)

let build_ext fields : M.ext =
  match split_on '!' fields with
  | [nh; hl; al; os] ->
    { M.e_next = zs nh; e_hlen = zs hl; e_alen = zs al; e_opts = parse_tlvs os; e_contents = []; e_payload = [] }
  | _ -> failwith "ext fields"

let build_ip6 fields : M.ip6 =
  (* ver.tc.flow.len.nh.hop.src.dst.hbh : the last field may not contain '.' *)
  match split_on '.' fields with
  | [ver; tc; flow; len; nh; hop; src; dst; hbh] ->
    { M.p_version = zs ver; p_tclass = zs tc; p_flow = zs flow; p_length = zs len; p_next = zs nh; p_hop = zs hop;
      p_src = bytes_of_hex src; p_dst = bytes_of_hex dst;
      p_hbh = (if hbh = "-" then None else Some (build_ext hbh)); p_contents = []; p_payload = [] }
  | _ -> failwith "ip6 fields"

let junk_need = 4096

let run (id : string) (ops : string list) (out : out_channel) =
  let step = ref 0 in
  let emit s = Printf.fprintf out "%s\t%d\t%s\n" id !step s; incr step in
  Stdlib.List.iter (fun op ->
    let (name, a) = args_of op in
    let arg i = if i < Array.length a then a.(i) else "" in
    let dec k old_ext old_ip data =
      if k = "ip6" then
        let ((l, r), tr) = M.ip6_decode_into old_ip data in
        (cls_name r, tr, `Ip l)
      else
        let ((l, r), tr) = M.ext_decode_into old_ext data in
        (cls_name r, tr, `Ext l) in
    let state = function `Ip l -> ip6_state l | `Ext h -> ext_state ";" h in
    let render = function `Ip l -> ip6_render l | `Ext h -> ext_render h in
    let ser v payload fix csum junk =
      match v with
      | `Ip l -> let (r, l') = M.ip6_serialize l payload fix csum junk in (r, `Ip l')
      | `Ext h -> let (r, h') = M.ext_serialize h payload fix csum junk in (r, `Ext h') in
    let fresh k = if k = "ip6" then `Ip M.ip6_fresh else `Ext M.ext_fresh in
    let build k f = if k = "ip6" then `Ip (build_ip6 f) else `Ext (build_ext f) in
    match name with
    | "nlt" -> emit ("lt=" ^ zi (M.ipproto_layertype (zs (arg 0))))
    | "dec" ->
      let (c, tr, v) = dec (arg 0) M.ext_fresh M.ip6_fresh (bytes_of_hex (arg 1)) in
      emit (Printf.sprintf "cls=%s;trunc=%s;%s;%s" c (b2i tr) (state v) (render v))
    | "dec2" ->
      let k = arg 0 in
      let (_, _, v0) = dec k M.ext_fresh M.ip6_fresh (bytes_of_hex (arg 1)) in
      let (oe, oi) = (match v0 with `Ext h -> (h, M.ip6_fresh) | `Ip l -> (M.ext_fresh, l)) in
      let (c, tr, v) = dec k oe oi (bytes_of_hex (arg 2)) in
      emit (Printf.sprintf "cls=%s;trunc=%s;%s;%s" c (b2i tr) (state v) (render v))
    | "ser" | "nser" ->
      let k = arg 0 in
      let (v, fcd, payload) =
        if name = "ser" then
          let (_, _, v) = dec k M.ext_fresh M.ip6_fresh (bytes_of_hex (arg 1)) in (v, arg 2, arg 3)
        else (build k (arg 3), arg 1, arg 2) in
      let (fix, csum, mode) = flags fcd in
      let (r, v') = ser v (payload_of payload) fix csum (junk_of mode junk_need) in
      let o = match r with Base.Ok b -> big b | _ -> "" in
      emit (Printf.sprintf "cls=%s;out=%s;%s" (cls_name r) o (state v'))
    | "rt" | "nrt" ->
      let k = arg 0 in
      let (v, payload) =
        if name = "rt" then
          let (_, _, v) = dec k M.ext_fresh M.ip6_fresh (bytes_of_hex (arg 1)) in (v, arg 2)
        else (build k (arg 2), arg 1) in
      let (r, _) = ser v (payload_of payload) true true [] in
      (match r with
       | Base.Ok b ->
         let (c, tr, v2) = dec k M.ext_fresh M.ip6_fresh b in
         emit (Printf.sprintf "scls=ok;cls=%s;trunc=%s;%s;%s" c (b2i tr) (state v2) (render v2))
       | _ ->
         emit (Printf.sprintf "scls=%s;cls=err;trunc=0;%s;%s" (cls_name r) (state (fresh k)) (render (fresh k))))
    | _ -> failwith ("Lip6 op: " ^ op)) ops

let registered = Registry.register "Lip6" run
