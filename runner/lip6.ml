(* Lip6 runner: IPv6 header, hop-by-hop / destination options; mirrors harness/cmd/gpverif/lip6.go *)
open Util
open N6util
module M = Lip6Model

let tlv_str (ts : M.tlv list) =
  String.concat "|" (Stdlib.List.map (fun (t : M.tlv) ->
    Printf.sprintf "%s~%s~%s~%s~%s~%s" (zi t.M.t_type) (zi t.M.t_olen) (zi t.M.t_alen) (hex_of_bytes t.M.t_data)
      (zi t.M.t_ax) (zi t.M.t_ay)) ts)

let ext_state sep (h : M.ext) =
  Printf.sprintf "next=%s%shlen=%s%salen=%s%sopts=%s%sc=%s%sp=%s" (zi h.M.e_next) sep (zi h.M.e_hlen) sep (zi h.M.e_alen) sep
    (tlv_str h.M.e_opts) sep (big h.M.e_contents) sep (big h.M.e_payload)

let ip6_state (l : M.ip6) =
  let hs = match l.M.p_hbh with None -> "-" | Some h -> ext_state "!" h in
  Printf.sprintf "ver=%s;tc=%s;flow=%s;len=%s;nh=%s;hop=%s;src=%s;dst=%s;hbh=%s;c=%s;p=%s;next=%s"
    (zi l.M.p_version) (zi l.M.p_tclass) (zi l.M.p_flow) (zi l.M.p_length) (zi l.M.p_next) (zi l.M.p_hop)
    (hex_of_bytes l.M.p_src) (hex_of_bytes l.M.p_dst) hs (big l.M.p_contents) (big l.M.p_payload) (zi (M.ip6_next l))

let pn b = if b then "panic" else "ok"
let ext_render (h : M.ext) = let r = pn (M.ext_render_panics h) in Printf.sprintf "render=%s,%s,%s,ok" r r r
let ip6_render (l : M.ip6) =
  let r = pn (M.ip6_render_panics l) in Printf.sprintf "render=%s,%s,%s,%s" r r r (pn (M.ip6_flow_panics l))

let parse_tlvs s : M.tlv list =
  if s = "" then []
  else Stdlib.List.map (fun p ->
    match split_on '~' p with
    | [t; ol; al; d; ax; ay] ->
      { M.t_type = zs t; t_olen = zs ol; t_alen = zs al; t_data = bytes_of_hex d; t_ax = zs ax; t_ay = zs ay }
    | _ -> failwith "tlv") (split_on '|' s)

let build_ext fields : M.ext =
  match split_on '!' fields with
  | [nh; hl; al; os] ->
    { M.e_next = zs nh; e_hlen = zs hl; e_alen = zs al; e_opts = parse_tlvs os; e_contents = []; e_payload = [] }
  | _ -> failwith "ext fields"

let build_ip6 fields : M.ip6 =
  (* ver.tc.flow.len.nh.hop.src.dst.hbh : the last field may not contain '.' *)
  match split_on '.' fields with
  | [ver; tc; flow; len; nh; hop; src; dst; hbh] ->
    { M.p_version = zs ver; p_tclass = zs tc; p_flow = zs flow; p_length = zs len; p_next = zs nh; p_hop = zs hop;
      p_src = bytes_of_hex src; p_dst = bytes_of_hex dst;
      p_hbh = (if hbh = "-" then None else Some (build_ext hbh)); p_contents = []; p_payload = [] }
  | _ -> failwith "ip6 fields"

let junk_need = 4096

(* ---- kinds frag / rtg (Lip6xModel) *)
module X = Lip6xModel

let frag_zero : X.frag = { X.f_next = z_of_int 0; f_res1 = z_of_int 0; f_offset = z_of_int 0; f_res2 = z_of_int 0; f_more = false;
                           f_ident = z_of_int 0; f_contents = []; f_payload = [] }
let rtg_zero : X.rtg = { X.r_next = z_of_int 0; r_hlen = z_of_int 0; r_alen = z_of_int 0; r_type = z_of_int 0; r_segleft = z_of_int 0;
                         r_reserved = []; r_ips = []; r_contents = []; r_payload = [] }

let frag_state (f : X.frag) =
  Printf.sprintf "next=%s;res1=%s;off=%s;res2=%s;more=%s;id=%s;c=%s;p=%s" (zi f.X.f_next) (zi f.X.f_res1) (zi f.X.f_offset) (zi f.X.f_res2)
    (b2i f.X.f_more) (zi f.X.f_ident) (hex_of_bytes f.X.f_contents) (big f.X.f_payload)
let rtg_state (r : X.rtg) =
  Printf.sprintf "next=%s;hlen=%s;alen=%s;type=%s;segleft=%s;res=%s;ips=%s;c=%s;p=%s" (zi r.X.r_next) (zi r.X.r_hlen) (zi r.X.r_alen)
    (zi r.X.r_type) (zi r.X.r_segleft) (hex_of_bytes r.X.r_reserved) (String.concat "|" (Stdlib.List.map hex_of_bytes r.X.r_ips))
    (hex_of_bytes r.X.r_contents) (big r.X.r_payload)

let x_decode k data =
  if k = "frag" then (match X.frag_decode data with (Base.Ok f, tr) -> ("ok", tr, `F f) | (r, tr) -> (cls_name r, tr, `F frag_zero))
  else (match X.rtg_decode data with (Base.Ok r, tr) -> ("ok", tr, `R r) | (r, tr) -> (cls_name r, tr, `R rtg_zero))
let x_state = function `F f -> frag_state f | `R r -> rtg_state r
let x_ser v payload fix csum junk =
  match v with
  | `F f -> fst (X.frag_serialize f payload fix csum junk)
  | `R r -> fst (X.rtg_serialize r payload fix csum junk)
let x_build k fields =
  let f = Array.of_list (split_on '.' fields) in
  if k = "frag" then
    `F { X.f_next = zs f.(0); f_res1 = zs f.(1); f_offset = zs f.(2); f_res2 = zs f.(3); f_more = (f.(4) = "1"); f_ident = zs f.(5);
         f_contents = []; f_payload = [] }
  else
    let ips = if f.(6) = "" then [] else Stdlib.List.map (fun h -> if h = "-" then [] else bytes_of_hex h) (split_on '|' f.(6)) in
    `R { X.r_next = zs f.(0); r_hlen = zs f.(1); r_alen = zs f.(2); r_type = zs f.(3); r_segleft = zs f.(4);
         r_reserved = bytes_of_hex f.(5); r_ips = ips; r_contents = []; r_payload = [] }

let x_run name (a : string array) emit =
  let arg i = if i < Array.length a then a.(i) else "" in
  let k = arg 0 in
  match name with
  | "dec" ->
    let (c, tr, v) = x_decode k (bytes_of_hex (arg 1)) in
    emit (Printf.sprintf "cls=%s;trunc=%s;%s;render=ok,ok,ok" c (b2i tr) (x_state v))
  | "ser" | "nser" ->
    let (v, fcd, payload) =
      if name = "ser" then (let (_, _, v) = x_decode k (bytes_of_hex (arg 1)) in (v, arg 2, arg 3))
      else (x_build k (arg 3), arg 1, arg 2) in
    let (fix, csum, mode) = flags fcd in
    let r = x_ser v (payload_of payload) fix csum (junk_of mode 4096) in
    emit (Printf.sprintf "cls=%s;out=%s" (cls_name r) (match r with Base.Ok b -> big b | _ -> ""))
  | "rt" | "nrt" ->
    let (v, payload) =
      if name = "rt" then (let (_, _, v) = x_decode k (bytes_of_hex (arg 1)) in (v, arg 2)) else (x_build k (arg 2), arg 1) in
    (match x_ser v (payload_of payload) true true [] with
     | Base.Ok b ->
       let (c, tr, v2) = x_decode k b in
       emit (Printf.sprintf "scls=ok;cls=%s;trunc=%s;%s;render=ok,ok,ok" c (b2i tr) (x_state v2))
     | r -> emit (Printf.sprintf "scls=%s;cls=err;trunc=0;%s;render=ok,ok,ok" (cls_name r)
                    (x_state (if k = "frag" then `F frag_zero else `R rtg_zero))))
  | _ -> failwith ("Lip6 x op: " ^ name)


(* ---- seq: stacks written with SerializeLayers into one reused buffer.  Clear() empties the buffer's
   layer list, so every packet starts from []; within a stack the layers pushed so far are passed to
   IPv6 (2 = Payload, 46 = IPv6HopByHop).  The result does not depend on the junk (C07_ip6_junk_free). *)
let seq_spec (spec : string) : string =
  let kind = spec.[0] and rest = String.sub spec 1 (String.length spec - 1) in
  let show = function
    | Base.Ok b -> "ok:" ^ big b
    | r -> cls_name r ^ ":" in
  let two = z_of_int 2 and hb = z_of_int 46 in
  let with_own_hbh (l : M.ip6) (h : M.ext) payload =
    match M.ext_serialize h payload true true [] with
    | (Base.Ok eb, h') -> show (fst (M.ip6_serialize_in [two; hb] { l with M.p_hbh = Some h' } eb true true []))
    | (r, _) -> show r in
  match kind with
  | 'P' ->
    let ((l, r), _) = M.ip6_decode_into M.ip6_fresh (bytes_of_hex rest) in
    (match r with
     | Base.Ok _ ->
       (match l.M.p_hbh with
        | Some h -> with_own_hbh l h h.M.e_payload
        | None -> show (fst (M.ip6_serialize_in [two] l l.M.p_payload true true [])))
     | _ -> "x")
  | 'L' | 'H' ->
    let (f, pl) = split_first '^' rest in
    let l = build_ip6 f and payload = payload_of pl in
    (match kind, l.M.p_hbh with
     | 'H', Some h -> with_own_hbh l h payload
     | _ -> show (fst (M.ip6_serialize_in [two] l payload true true [])))
  | _ -> failwith "seq spec"

let run (id : string) (ops : string list) (out : out_channel) =
  let step = ref 0 in
  let emit s = Printf.fprintf out "%s\t%d\t%s\n" id !step s; incr step in
  Stdlib.List.iter (fun op ->
    let (name, a) = args_of op in
    let arg i = if i < Array.length a then a.(i) else "" in
    if Array.length a > 0 && (a.(0) = "frag" || a.(0) = "rtg") then x_run name a emit else
    let dec k old_ext old_ip data =
      if k = "ip6" then
        let ((l, r), tr) = M.ip6_decode_into old_ip data in
        (cls_name r, tr, `Ip l)
      else
        let ((l, r), tr) = M.ext_decode_into old_ext data in
        (cls_name r, tr, `Ext l) in
    let state = function `Ip l -> ip6_state l | `Ext h -> ext_state ";" h in
    let render = function `Ip l -> ip6_render l | `Ext h -> ext_render h in
    let ser v payload fix csum junk =
      match v with
      | `Ip l -> let (r, l') = M.ip6_serialize l payload fix csum junk in (r, `Ip l')
      | `Ext h -> let (r, h') = M.ext_serialize h payload fix csum junk in (r, `Ext h') in
    let fresh k = if k = "ip6" then `Ip M.ip6_fresh else `Ext M.ext_fresh in
    let build k f = if k = "ip6" then `Ip (build_ip6 f) else `Ext (build_ext f) in
    match name with
    | "seq" -> emit ("seq=" ^ String.concat "#" (Stdlib.List.map seq_spec (split_on '+' (arg 1))))
    | "nlt" -> emit ("lt=" ^ zi (M.ipproto_layertype (zs (arg 0))))
    | "dec" ->
      let (c, tr, v) = dec (arg 0) M.ext_fresh M.ip6_fresh (bytes_of_hex (arg 1)) in
      emit (Printf.sprintf "cls=%s;trunc=%s;%s;%s" c (b2i tr) (state v) (render v))
    | "dec2" ->
      let k = arg 0 in
      let (_, _, v0) = dec k M.ext_fresh M.ip6_fresh (bytes_of_hex (arg 1)) in
      let (oe, oi) = (match v0 with `Ext h -> (h, M.ip6_fresh) | `Ip l -> (M.ext_fresh, l)) in
      let (c, tr, v) = dec k oe oi (bytes_of_hex (arg 2)) in
      emit (Printf.sprintf "cls=%s;trunc=%s;%s;%s" c (b2i tr) (state v) (render v))
    | "ser" | "nser" ->
      let k = arg 0 in
      let (v, fcd, payload) =
        if name = "ser" then
          let (_, _, v) = dec k M.ext_fresh M.ip6_fresh (bytes_of_hex (arg 1)) in (v, arg 2, arg 3)
        else (build k (arg 3), arg 1, arg 2) in
      let (fix, csum, mode) = flags fcd in
      let (r, v') = ser v (payload_of payload) fix csum (junk_of mode junk_need) in
      let o = match r with Base.Ok b -> big b | _ -> "" in
      emit (Printf.sprintf "cls=%s;out=%s;%s" (cls_name r) o (state v'))
    | "rt" | "nrt" ->
      let k = arg 0 in
      let (v, payload) =
        if name = "rt" then
          let (_, _, v) = dec k M.ext_fresh M.ip6_fresh (bytes_of_hex (arg 1)) in (v, arg 2)
        else (build k (arg 2), arg 1) in
      let (r, _) = ser v (payload_of payload) true true [] in
      (match r with
       | Base.Ok b ->
         let (c, tr, v2) = dec k M.ext_fresh M.ip6_fresh b in
         emit (Printf.sprintf "scls=ok;cls=%s;trunc=%s;%s;%s" c (b2i tr) (state v2) (render v2))
       | _ ->
         emit (Printf.sprintf "scls=%s;cls=err;trunc=0;%s;%s" (cls_name r) (state (fresh k)) (render (fresh k))))
    | _ -> failwith ("Lip6 op: " ^ op)) ops

let registered = Registry.register "Lip6" run

(* ---- extraction cross-check inside Coq (see c18.ml): every model call this glue makes for the ops of a
   sampled case (IPv6 header and extension-header decode with what the glue reads from the layer,
   serialize, ipproto_layertype), restated as a Gallina term and recomputed by vm_compute, must give
   the value the extracted code computed here. *)
let coq_tlv (t : M.tlv) =
  Printf.sprintf "mkTlv %s %s %s %s %s %s" (coq_z t.M.t_type) (coq_z t.M.t_olen) (coq_z t.M.t_alen) (coq_zlist t.M.t_data) (coq_z t.M.t_ax) (coq_z t.M.t_ay)
let coq_ext (h : M.ext) =
  Printf.sprintf "(mkExt %s %s %s %s %s %s)" (coq_z h.M.e_next) (coq_z h.M.e_hlen) (coq_z h.M.e_alen) (coq_list coq_tlv h.M.e_opts)
    (coq_zlist h.M.e_contents) (coq_zlist h.M.e_payload)
let coq_ip6 (l : M.ip6) =
  Printf.sprintf "(mkIp6 %s %s %s %s %s %s %s %s %s %s %s)" (coq_z l.M.p_version) (coq_z l.M.p_tclass) (coq_z l.M.p_flow) (coq_z l.M.p_length)
    (coq_z l.M.p_next) (coq_z l.M.p_hop) (coq_zlist l.M.p_src) (coq_zlist l.M.p_dst) (coq_option coq_ext l.M.p_hbh)
    (coq_zlist l.M.p_contents) (coq_zlist l.M.p_payload)

let to_coq (idx : int) (ops : string list) (out : out_channel) =
  let n = ref 0 in
  let name () = incr n; Printf.sprintf "sample_%d_%d" idx !n in
  let small h = String.length h <= 300 && not (String.length h > 0 && h.[0] = '*') in
  let dec_ip (olds : string) (old : M.ip6) (d : BinNums.coq_Z list) =
    let ((l, r), tr) = M.ip6_decode_into old d in
    coq_example_named out (name ())
      (Printf.sprintf "(let r := ip6_decode_into %s %s in let l := fst (fst r) in (r, ip6_next l, ip6_render_panics l, ip6_flow_panics l))" olds (coq_zlist d))
      (Printf.sprintf "(%s, %s, %s, %s, %s, %s)" (coq_ip6 l) (coq_outcome coq_unit r) (coq_bool tr) (coq_z (M.ip6_next l))
         (coq_bool (M.ip6_render_panics l)) (coq_bool (M.ip6_flow_panics l))); l in
  let dec_ext (olds : string) (old : M.ext) (d : BinNums.coq_Z list) =
    let ((h, r), tr) = M.ext_decode_into old d in
    coq_example_named out (name ())
      (Printf.sprintf "(let r := ext_decode_into %s %s in (r, ext_render_panics (fst (fst r))))" olds (coq_zlist d))
      (Printf.sprintf "(%s, %s, %s, %s)" (coq_ext h) (coq_outcome coq_unit r) (coq_bool tr) (coq_bool (M.ext_render_panics h))); h in
  let junk_term mode = if mode = 1 then "(repeat 170%Z 4096%nat)" else "[]" in
  let ser_ip (l : M.ip6) p fix csum mode =
    let r = M.ip6_serialize l p fix csum (junk_of mode junk_need) in
    coq_example_named out (name ()) (Printf.sprintf "ip6_serialize %s %s %s %s %s" (coq_ip6 l) (coq_zlist p) (coq_bool fix) (coq_bool csum) (junk_term mode))
      (coq_pair (coq_outcome coq_zlist) coq_ip6 r); r in
  let ser_ext (h : M.ext) p fix csum mode =
    let r = M.ext_serialize h p fix csum (junk_of mode junk_need) in
    coq_example_named out (name ()) (Printf.sprintf "ext_serialize %s %s %s %s %s" (coq_ext h) (coq_zlist p) (coq_bool fix) (coq_bool csum) (junk_term mode))
      (coq_pair (coq_outcome coq_zlist) coq_ext r); r in
  Stdlib.List.iter (fun op ->
    let (nm, a) = args_of op in
    let arg i = if i < Array.length a then a.(i) else "" in
    let isip = (arg 0 = "ip6") in
    if !n < 6 then
    match nm with
    | "nlt" -> let x = zs (arg 0) in coq_example_named out (name ()) ("ipproto_layertype " ^ coq_z x) (coq_z (M.ipproto_layertype x))
    | "dec" when small (arg 1) ->
      if isip then ignore (dec_ip "ip6_fresh" M.ip6_fresh (bytes_of_hex (arg 1))) else ignore (dec_ext "ext_fresh" M.ext_fresh (bytes_of_hex (arg 1)))
    | "dec2" when small (arg 1) && small (arg 2) ->
      if isip then (let l = dec_ip "ip6_fresh" M.ip6_fresh (bytes_of_hex (arg 1)) in ignore (dec_ip (coq_ip6 l) l (bytes_of_hex (arg 2))))
      else (let h = dec_ext "ext_fresh" M.ext_fresh (bytes_of_hex (arg 1)) in ignore (dec_ext (coq_ext h) h (bytes_of_hex (arg 2))))
    | "ser" | "nser" ->
      let (src, fcd, payload) = if nm = "ser" then (arg 1, arg 2, arg 3) else (arg 3, arg 1, arg 2) in
      if small payload && small src then begin
        let (fix, csum, mode) = flags fcd in
        if isip then
          let l = if nm = "ser" then (let ((l, _), _) = M.ip6_decode_into M.ip6_fresh (bytes_of_hex src) in l) else build_ip6 src in
          ignore (ser_ip l (payload_of payload) fix csum mode)
        else
          let h = if nm = "ser" then (let ((h, _), _) = M.ext_decode_into M.ext_fresh (bytes_of_hex src) in h) else build_ext src in
          ignore (ser_ext h (payload_of payload) fix csum mode)
      end
    | "rt" | "nrt" ->
      let (src, payload) = if nm = "rt" then (arg 1, arg 2) else (arg 2, arg 1) in
      if small payload && small src then begin
        if isip then
          let l = if nm = "rt" then (let ((l, _), _) = M.ip6_decode_into M.ip6_fresh (bytes_of_hex src) in l) else build_ip6 src in
          (match ser_ip l (payload_of payload) true true 0 with
           | (Base.Ok b, _) -> ignore (dec_ip "ip6_fresh" M.ip6_fresh b) | _ -> ())
        else
          let h = if nm = "rt" then (let ((h, _), _) = M.ext_decode_into M.ext_fresh (bytes_of_hex src) in h) else build_ext src in
          (match ser_ext h (payload_of payload) true true 0 with
           | (Base.Ok b, _) -> ignore (dec_ext "ext_fresh" M.ext_fresh b) | _ -> ())
      end
    | _ -> ()) ops
let registered_coq = Registry.register_coq "Lip6" ("From GP Require Import Base N6Lib Lip6Model.\n", to_coq)
