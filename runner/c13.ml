(* C13 runner: parses fragment/discard ops, runs the extracted defragmenter models *)
open Util

let ints (l : string list) = Stdlib.List.map int_of_string l

let parse_op (s : string) : C13Model.op =
  match split_on ':' s with
  | ["f4"; a] ->
    (match split_on ',' a with
     | [src; dst; id; ihl; len; flags; off; ts; ttl; proto; tos; opt; pl] ->
       let z x = z_of_int (int_of_string x) in
       let f = { C13Model.f_src = z src; f_dst = z dst; f_id = z id; f_ihl = z ihl; f_len = z len; f_flags = z flags;
                 f_off = z off; f_hdr = z ttl :: z proto :: z tos :: bytes_of_hex opt; f_payload = bytes_of_hex pl } in
       C13Model.Op4 (C13Model.OFrag (f, z ts))
     | _ -> failwith ("f4: " ^ s))
  | ["d4"; t] -> C13Model.Op4 (C13Model.ODiscard (z_of_int (int_of_string t)))
  | ["f6"; a] ->
    (match split_on ',' a with
     | [src; dst; id; off; more; nh; tc; flow; hl; pl] ->
       let z x = z_of_int (int_of_string x) in
       C13Model.Op6 (C13Model.O6Frag { C13Model.g_src = z src; g_dst = z dst; g_id = z id; g_off = z off; g_more = (more = "1");
                                       g_nh = z nh; g_hdr = [z tc; z flow; z hl]; g_payload = bytes_of_hex pl })
     | _ -> failwith ("f6: " ^ s))
  | ["d6"; k] -> C13Model.Op6 (C13Model.O6Discard (k = "1"))
  | _ -> failwith ("c13 op: " ^ s)

let show_result (r : C13Model.result) : string =
  match r with
  | C13Model.RNone -> "r=none"
  | C13Model.RErr -> "r=err"
  | C13Model.RPanic -> "r=panic"
  | C13Model.RPass -> "r=pass"
  | C13Model.RDg d ->
    let ttl, proto, tos, opt = (match d.C13Model.f_hdr with a :: b :: c :: o -> (a, b, c, o) | _ -> failwith "hdr") in
    Printf.sprintf "r=dg;len=%d;flags=%d;off=%d;ihl=%d;id=%d;ttl=%d;proto=%d;tos=%d;src=%d;dst=%d;opt=%s;pl=%s"
      (int_of_z d.C13Model.f_len) (int_of_z d.C13Model.f_flags) (int_of_z d.C13Model.f_off) (int_of_z d.C13Model.f_ihl)
      (int_of_z d.C13Model.f_id) (int_of_z ttl) (int_of_z proto) (int_of_z tos) (int_of_z d.C13Model.f_src)
      (int_of_z d.C13Model.f_dst) (hex_of_bytes opt) (hex_of_bytes d.C13Model.f_payload)

let show (o : C13Model.out) : string =
  match o with
  | C13Model.Out4 (C13Model.Res r) -> show_result r
  | C13Model.Out4 (C13Model.Discarded n) -> Printf.sprintf "r=discard;n=%d" (int_of_z n)
  | C13Model.Out6 (C13Model.Res6 C13Model.R6None) -> "r=none"
  | C13Model.Out6 (C13Model.Res6 (C13Model.R6Dg (nh, hd, pl))) ->
    let tc, flow, hl = (match hd.C13Model.g_hdr with [a; b; c] -> (a, b, c) | _ -> failwith "hdr6") in
    Printf.sprintf "r=dg6;nh=%d;tc=%d;flow=%d;hl=%d;src=%d;dst=%d;pl=%s" (int_of_z nh) (int_of_z tc) (int_of_z flow) (int_of_z hl)
      (int_of_z hd.C13Model.g_src) (int_of_z hd.C13Model.g_dst) (hex_of_bytes pl)
  | C13Model.Out6 (C13Model.Discarded6 n) -> Printf.sprintf "r=discard;n=%d" (int_of_z n)

(* C13_VARIANT=orig runs the arithmetic of the unchanged tree (triage only) *)
let variant = match Sys.getenv_opt "C13_VARIANT" with Some "orig" -> C13Model.origv | _ -> C13Model.fixedv

let run (id : string) (ops : string list) (out : out_channel) =
  let t0 = Sys.time () in
  let l = Stdlib.List.map parse_op ops in
  let t1 = Sys.time () in
  let (tr, tg) = C13Model.run_trace variant l in
  let t2 = Sys.time () in
  if Sys.getenv_opt "C13_TIME" <> None then Printf.eprintf "%s parse %.3f run %.3f\n" id (t1 -. t0) (t2 -. t1);
  Stdlib.List.iteri (fun i o -> Printf.fprintf out "%s\t%d\t%s\n" id i (show o)) tr;
  let names = Stdlib.List.filter_map (fun (b, n) -> if b then Some n else None)
    [ (tg.C13Model.t_dup, "duplicate"); (tg.C13Model.t_overlap, "overlap"); (tg.C13Model.t_hole, "hole");
      (tg.C13Model.t_toomany, "too-many"); (tg.C13Model.t_fallthrough, "fallthrough") ] in
  if names <> [] then Printf.fprintf out "%s\ttags\t%s\n" id (String.concat "," names)

let registered = Registry.register "C13" run

(* ---- extraction cross-check inside Coq (see c18.ml): run_trace (same variant) on the case's ops,
   recomputed by vm_compute, must equal the (outs, tags) this extracted runner computed. *)
let coq_frag (f : C13Model.frag) =
  Printf.sprintf "{| f_src := %s; f_dst := %s; f_id := %s; f_ihl := %s; f_len := %s; f_flags := %s; f_off := %s; f_hdr := %s; f_payload := %s |}"
    (coq_z f.C13Model.f_src) (coq_z f.C13Model.f_dst) (coq_z f.C13Model.f_id) (coq_z f.C13Model.f_ihl) (coq_z f.C13Model.f_len)
    (coq_z f.C13Model.f_flags) (coq_z f.C13Model.f_off) (coq_zlist f.C13Model.f_hdr) (coq_zlist f.C13Model.f_payload)
let coq_frag6 (g : C13Model.frag6) =
  Printf.sprintf "{| g_src := %s; g_dst := %s; g_id := %s; g_off := %s; g_more := %s; g_nh := %s; g_hdr := %s; g_payload := %s |}"
    (coq_z g.C13Model.g_src) (coq_z g.C13Model.g_dst) (coq_z g.C13Model.g_id) (coq_z g.C13Model.g_off) (coq_bool g.C13Model.g_more)
    (coq_z g.C13Model.g_nh) (coq_zlist g.C13Model.g_hdr) (coq_zlist g.C13Model.g_payload)
let coq_op (o : C13Model.op) = match o with
  | C13Model.Op4 (C13Model.OFrag (f, t)) -> Printf.sprintf "Op4 (OFrag %s %s)" (coq_frag f) (coq_z t)
  | C13Model.Op4 (C13Model.ODiscard t) -> Printf.sprintf "Op4 (ODiscard %s)" (coq_z t)
  | C13Model.Op6 (C13Model.O6Frag g) -> Printf.sprintf "Op6 (O6Frag %s)" (coq_frag6 g)
  | C13Model.Op6 (C13Model.O6Discard b) -> Printf.sprintf "Op6 (O6Discard %s)" (coq_bool b)
let coq_out (o : C13Model.out) = match o with
  | C13Model.Out4 (C13Model.Res r) ->
    "Out4 (Res " ^ (match r with
      | C13Model.RNone -> "RNone" | C13Model.RErr -> "RErr" | C13Model.RPanic -> "RPanic" | C13Model.RPass -> "RPass"
      | C13Model.RDg d -> "(RDg " ^ coq_frag d ^ ")") ^ ")"
  | C13Model.Out4 (C13Model.Discarded n) -> "Out4 (Discarded " ^ coq_z n ^ ")"
  | C13Model.Out6 (C13Model.Res6 C13Model.R6None) -> "Out6 (Res6 R6None)"
  | C13Model.Out6 (C13Model.Res6 (C13Model.R6Dg (nh, hd, pl))) ->
    Printf.sprintf "Out6 (Res6 (R6Dg %s %s %s))" (coq_z nh) (coq_frag6 hd) (coq_zlist pl)
  | C13Model.Out6 (C13Model.Discarded6 n) -> "Out6 (Discarded6 " ^ coq_z n ^ ")"
let coq_tags (t : C13Model.tags) =
  Printf.sprintf "{| t_dup := %s; t_overlap := %s; t_hole := %s; t_toomany := %s; t_fallthrough := %s |}"
    (coq_bool t.C13Model.t_dup) (coq_bool t.C13Model.t_overlap) (coq_bool t.C13Model.t_hole) (coq_bool t.C13Model.t_toomany)
    (coq_bool t.C13Model.t_fallthrough)
let to_coq (idx : int) (ops : string list) (out : out_channel) =
  let l = Stdlib.List.map parse_op ops in
  let nbytes = Stdlib.List.fold_left (fun a o -> match o with
    | C13Model.Op4 (C13Model.OFrag (f, _)) -> a + Stdlib.List.length f.C13Model.f_payload
    | C13Model.Op6 (C13Model.O6Frag g) -> a + Stdlib.List.length g.C13Model.g_payload | _ -> a) 0 l in
  if nbytes <= 600 then begin
    let (tr, tg) = C13Model.run_trace variant l in
    let vname = match Sys.getenv_opt "C13_VARIANT" with Some "orig" -> "origv" | _ -> "fixedv" in
    coq_example out idx (Printf.sprintf "run_trace %s %s" vname (coq_list coq_op l))
      ("([" ^ String.concat ";\n      " (Stdlib.List.map coq_out tr) ^ "],\n     " ^ coq_tags tg ^ ")")
  end
let registered_coq = Registry.register_coq "C13" ("From GP Require Import Base C13Model.\n", to_coq)
