(* Llldp runner: LLDP codec model (coq/Model/LlldpModel.v) on the ops of harness/cmd/gpverif/llldp.go *)
open Util
open Lmiscutil
open LlldpModel

let hx = hex_of_bytes
let fields (l : lldp) =
  let vs = String.concat "|" (Stdlib.List.map (fun (v : lval) -> Printf.sprintf "%s~%s~%s" (i v.lv_type) (i v.lv_len) (hx v.lv_value)) l.ll_values) in
  let n = l.ll_info in
  let os = String.concat "|" (Stdlib.List.map (fun (o : lorg) -> Printf.sprintf "%s~%s~%s" (i o.lo_oui) (i o.lo_sub) (hx o.lo_info)) n.li_orgs) in
  Printf.sprintf "cs=%s;cid=%s;ps=%s;pid=%s;ttl=%s;vals=%s;pd=%s;sn=%s;sd=%s;scap=%s;ecap=%s;mgmt=%s~%s~%s~%s~%s;orgs=%s;added=%s"
    (i l.ll_csub) (hx l.ll_cid) (i l.ll_psub) (hx l.ll_pid) (i l.ll_ttl) vs (hx n.li_portdesc) (hx n.li_sysname) (hx n.li_sysdesc)
    (i n.li_syscap) (i n.li_encap) (i n.li_msub) (hx n.li_maddr) (i n.li_mifsub) (i n.li_mifnum) (hx n.li_moid) os (i l.ll_added)
let of_spec s = match split_on '.' s with
  | [cs; cid; ps; pid; ttl; vals] ->
    let vs = if vals = "-" then [] else Stdlib.List.map (fun v -> match split_on '~' v with
      | [t; len; h] -> { lv_type = zi t; lv_len = zi len; lv_value = bytes_of_hex h }
      | _ -> failwith "lldp value spec") (split_on '+' vals) in
    { ll_fresh with ll_csub = zi cs; ll_cid = bytes_of_hex cid; ll_psub = zi ps; ll_pid = bytes_of_hex pid; ll_ttl = zi ttl; ll_values = vs }
  | _ -> failwith "lldp spec"
let variant = try Sys.getenv "VERIF_LLLDP_VARIANT" with Not_found -> "fixed"
let desc = { fresh = ll_fresh;
  decode = (if variant = "orig" then ll_decode_into_orig else ll_decode_into);
  serialize = Some (if variant = "orig" then ll_serialize_orig else ll_serialize); fields;
  contents = (fun l -> l.ll_contents); payload = (fun l -> l.ll_payload); next = (fun _ l -> i (ll_next l));
  render_panics = ll_render_panics; of_spec; junk_len = 4000 }
let run id ops out = run_generic desc id ops out
let registered = Registry.register "Llldp" run
let coq_lv (v : lval) = Printf.sprintf "(mkLv %s %s %s)" (coq_z v.lv_type) (coq_z v.lv_len) (coq_zlist v.lv_value)
let coq_org (o : lorg) = Printf.sprintf "(mkOrg %s %s %s)" (coq_z o.lo_oui) (coq_z o.lo_sub) (coq_zlist o.lo_info)
let coq_li (n : linfo) = Printf.sprintf "(mkLi %s %s %s %s %s %s %s %s %s %s %s)" (coq_zlist n.li_portdesc) (coq_zlist n.li_sysname) (coq_zlist n.li_sysdesc)
  (coq_z n.li_syscap) (coq_z n.li_encap) (coq_z n.li_msub) (coq_zlist n.li_maddr) (coq_z n.li_mifsub) (coq_z n.li_mifnum) (coq_zlist n.li_moid) (coq_list coq_org n.li_orgs)
let coq_ll (l : lldp) = Printf.sprintf "(mkLl %s %s %s %s %s %s %s %s %s %s)" (coq_zlist l.ll_contents) (coq_zlist l.ll_payload) (coq_z l.ll_csub) (coq_zlist l.ll_cid)
  (coq_z l.ll_psub) (coq_zlist l.ll_pid) (coq_z l.ll_ttl) (coq_list coq_lv l.ll_values) (coq_li l.ll_info) (coq_z l.ll_added)
let registered_coq = Registry.register_coq "Llldp" ("From GP Require Import Base LlldpModel.\n",
  Lmidutil.to_coq_dec ~fresh_name:"ll_fresh" ~dec_name:(fun _ -> "ll_decode_into") ~pr:coq_ll ~decode:(fun _ -> ll_decode_into) ~fresh:ll_fresh)
