(* C20 runner: delivery history + consumer program -> extracted ReaderStream model.
   ops:  le:0|1   ini:0|1   b:<hex>.<skip>,<hex>.<skip>,...  (b: alone = empty batch)
         r:<n>  d:<n>  c        (Read(n), Read(n) until EOF, Close)
         sched:<k>               (k>0: also run under k pseudo-random schedules and compare) *)
open Util

let parse_entry (s : string) : C20Model.reasm =
  match split_on '.' s with
  | [h; k] -> { C20Model.rbytes = bytes_of_hex h; rskip = z_of_int (int_of_string k) }
  | _ -> failwith ("c20 entry: " ^ s)

let err_s = function C20Model.ENil -> "nil" | C20Model.EEOF -> "eof" | C20Model.ELost -> "lost"
let st_s = function C20Model.SDone -> "done" | C20Model.SStuck -> "stuck" | C20Model.SPanic -> "panic"
let tag_s = function
  | C20Model.TgPartial -> "partial-read" | C20Model.TgEmpty -> "empty-slice" | C20Model.TgSkip -> "skip-batch"
  | C20Model.TgCloseMid -> "close-mid-batch" | C20Model.TgCloseHeld -> "close-between-batches"
  | C20Model.TgCloseFirst -> "close-before-first" | C20Model.TgCloseEOF -> "close-after-eof"
  | C20Model.TgLoss -> "loss-errors" | C20Model.TgZeroRead -> "zero-length-read"
  | C20Model.TgReadClosed -> "read-after-close-or-eof"

let lines_of (r : C20Model.result) : string list =
  let obs = Stdlib.List.map (function
    | C20Model.ORead (n, data, e) -> Printf.sprintf "read=%d;bytes=%s;err=%s" (int_of_nat n) (hex_of_bytes data) (err_s e)
    | C20Model.OClose -> "close=ok") r.C20Model.r_obs in
  obs @ [Printf.sprintf "asm=%s;cons=%s;ret=%d%s" (st_s r.C20Model.r_asm) (st_s r.C20Model.r_cons)
           (int_of_nat r.C20Model.r_ret) (if r.C20Model.r_fuel_ok then "" else ";model-out-of-fuel")]

let parse (ops : string list) : C20Model.config * C20Model.reasm list list * C20Model.cop list * int =
  let le = ref false and ini = ref true and hist = ref [] and prog = ref [] and nsched = ref 0 in
  Stdlib.List.iter (fun s ->
    match split_on ':' s with
    | ["le"; v] -> le := (v = "1")
    | ["ini"; v] -> ini := (v = "1")
    | ["sched"; v] -> nsched := int_of_string v
    | ["b"; ""] -> hist := [] :: !hist
    | ["b"; es] -> hist := Stdlib.List.map parse_entry (split_on ',' es) :: !hist
    | ["r"; n] -> prog := C20Model.CRead (nat_of_int (int_of_string n)) :: !prog
    | ["d"; n] -> let k = int_of_string n in
                  if k < 1 then failwith "c20: d:n needs n>=1";
                  prog := C20Model.CDrain (nat_of_int (k - 1)) :: !prog
    | ["c"] -> prog := C20Model.CClose :: !prog
    | _ -> failwith ("c20 op: " ^ s)) ops;
  let g = { C20Model.close_acks = true; strip_keeps_loss = true; loss_errors = !le; initiated = !ini; ack_nb = false } in
  (g, Stdlib.List.rev !hist, Stdlib.List.rev !prog, !nsched)

let run (id : string) (ops : string list) (out : out_channel) =
  let (g, hist, prog, nsched) = parse ops in
  let r = C20Model.run_case g hist prog in
  let ls = lines_of r in
  (* schedule independence, by execution: the same case under other schedules *)
  let differs = ref false in
  for k = 1 to nsched do
    let sched (i : Datatypes.nat) = let j = int_of_nat i in ((j * 7919 + k * 104729) lxor (j lsr 2) lxor (k * j)) land 1 = 1 in
    let r2 = C20Model.run_case_sched g sched hist prog in
    if lines_of r2 <> ls then differs := true
  done;
  Stdlib.List.iteri (fun i l -> Printf.fprintf out "%s\t%d\t%s%s\n" id i l
     (if !differs && i = Stdlib.List.length ls - 1 then ";model-schedule-dependent" else "")) ls;
  let tags = Stdlib.List.sort_uniq compare (Stdlib.List.map tag_s r.C20Model.r_tags) in
  if tags <> [] then Printf.fprintf out "%s\ttags\t%s\n" id (String.concat "," tags)

let registered = Registry.register "C20" run

(* ---- extraction cross-check inside Coq (see c18.ml): run_case on the case's configuration, history
   and program, recomputed by vm_compute, must equal the result this extracted runner computed
   (the extra schedules of sched:k are OCaml closures and are not restated). *)
let coq_reasm (e : C20Model.reasm) = Printf.sprintf "mkR %s %s" (coq_zlist e.C20Model.rbytes) (coq_z e.C20Model.rskip)
let coq_cop = function
  | C20Model.CRead n -> "CRead " ^ coq_nat n | C20Model.CDrain m -> "CDrain " ^ coq_nat m | C20Model.CClose -> "CClose"
let coq_err = function C20Model.ENil -> "ENil" | C20Model.EEOF -> "EEOF" | C20Model.ELost -> "ELost"
let coq_st = function C20Model.SDone -> "SDone" | C20Model.SStuck -> "SStuck" | C20Model.SPanic -> "SPanic"
let coq_tag = function
  | C20Model.TgPartial -> "TgPartial" | C20Model.TgEmpty -> "TgEmpty" | C20Model.TgSkip -> "TgSkip"
  | C20Model.TgCloseMid -> "TgCloseMid" | C20Model.TgCloseHeld -> "TgCloseHeld" | C20Model.TgCloseFirst -> "TgCloseFirst"
  | C20Model.TgCloseEOF -> "TgCloseEOF" | C20Model.TgLoss -> "TgLoss" | C20Model.TgZeroRead -> "TgZeroRead"
  | C20Model.TgReadClosed -> "TgReadClosed"
let coq_obs = function
  | C20Model.ORead (n, d, e) -> Printf.sprintf "ORead %s %s %s" (coq_nat n) (coq_zlist d) (coq_err e)
  | C20Model.OClose -> "OClose"
let to_coq (idx : int) (ops : string list) (out : out_channel) =
  let (g, hist, prog, _) = parse ops in
  let nbytes = Stdlib.List.fold_left (fun a b -> Stdlib.List.fold_left (fun a e -> a + Stdlib.List.length e.C20Model.rbytes) a b) 0 hist in
  if nbytes <= 400 then begin
    let r = C20Model.run_case g hist prog in
    coq_example out idx
      (Printf.sprintf "run_case (mkCfg %s %s %s %s %s)\n    %s\n    %s" (coq_bool g.C20Model.close_acks) (coq_bool g.C20Model.strip_keeps_loss)
         (coq_bool g.C20Model.loss_errors) (coq_bool g.C20Model.initiated) (coq_bool g.C20Model.ack_nb)
         (coq_list (coq_list coq_reasm) hist) (coq_list coq_cop prog))
      (Printf.sprintf "mkRes %s %s %s %s %s %s" (coq_list coq_obs r.C20Model.r_obs) (coq_st r.C20Model.r_asm) (coq_st r.C20Model.r_cons)
         (coq_nat r.C20Model.r_ret) (coq_list coq_tag r.C20Model.r_tags) (coq_bool r.C20Model.r_fuel_ok))
  end
let registered_coq = Registry.register_coq "C20" ("From GP Require Import Base C20Model.\n", to_coq)
