(* Llcm runner: LCM header decoder model on the ops of harness/cmd/gpverif/lsmall6.go *)
open Util
open Lmiscutil
open LlcmModel
let fields (l : lcm) = Printf.sprintf "magic=%s;seq=%s;ps=%s;fo=%s;fn=%s;tf=%s;name=%s;frag=%s;fp=%s" (i l.lc_magic) (i l.lc_seq) (i l.lc_psize) (i l.lc_foff) (i l.lc_fnum) (i l.lc_tfrag)
  (hex_of_bytes l.lc_name) (b01 l.lc_frag) (hex_of_bytes l.lc_fp)
let desc = { fresh = lc_fresh; decode = lc_decode_into; serialize = None; fields; contents = (fun l -> l.lc_contents); payload = (fun l -> l.lc_payload);
  next = (fun _ l -> i (lc_next l)); render_panics = lc_render_panics; of_spec = (fun _ -> failwith "no spec"); junk_len = 0 }
let run id ops out = run_generic desc id ops out
let registered = Registry.register "Llcm" run
