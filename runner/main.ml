(* model runner: main <cases-file> <out-file>; one case per line: id \t prop \t op op op ...
   The per-property modules (c18.ml, ...) register themselves in Registry; dune links every
   module of the executable, all.ml (generated) references them so none is dropped. *)
let () = All.touch ()

let () =
  let inp = open_in Sys.argv.(1) and out = open_out Sys.argv.(2) in
  (try
    while true do
      let line = input_line inp in
      if String.length line > 0 && line.[0] <> '#' then begin
        match String.split_on_char '\t' line with
        | id :: prop :: rest ->
          let ops = match rest with [] -> [] | s :: _ -> Stdlib.List.filter (fun x -> x <> "") (String.split_on_char ' ' s) in
          (match Hashtbl.find_opt Registry.table prop with
           | Some f -> (try f id ops out with e -> Printf.fprintf out "%s\t-1\trunner-exception=%s\n" id (Printexc.to_string e))
           | None -> Printf.fprintf out "%s\t-1\tno-runner\n" id)
        | _ -> ()
      end
    done
  with End_of_file -> ());
  close_out out
