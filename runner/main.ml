(* model runner: main <cases-file> <out-file>; one case per line: id \t prop \t op op op ...
   The per-property modules (c18.ml, ...) register themselves in Registry; dune links every
   module of the executable, all.ml (generated) references them so none is dropped. *)
let () = All.touch ()

(* the extracted models recurse as deep as their inputs are long (Peano fuel, firstn on a 256 KiB
   packet): run with an unlimited stack (re-exec once through the shell) *)
let () =
  if Sys.getenv_opt "GPVERIF_STACK" = None && Array.length Sys.argv >= 3 then begin
    let args = String.concat " " (Stdlib.List.map Filename.quote (Array.to_list Sys.argv |> Stdlib.List.tl)) in
    let cmd = Printf.sprintf "ulimit -s unlimited 2>/dev/null || ulimit -s 4000000 2>/dev/null; GPVERIF_STACK=1 exec %s %s"
        (Filename.quote Sys.executable_name) args in
    exit (Sys.command cmd)
  end

let coq_mode () =
  (* main.exe --coq <prop> <cases> <out.v> <n> *)
  let prop = Sys.argv.(2) in
  let inp = open_in Sys.argv.(3) and out = open_out Sys.argv.(4) and n = int_of_string Sys.argv.(5) in
  (match Hashtbl.find_opt Registry.coq_table prop with
   | None -> ()
   | Some (header, f) ->
     output_string out header;
     let k = ref 0 in
     (try
       while !k < n do
         let line = input_line inp in
         match String.split_on_char '\t' line with
         | _ :: p :: rest when p = prop ->
           let ops = match rest with [] -> [] | s :: _ -> Stdlib.List.filter (fun x -> x <> "") (String.split_on_char ' ' s) in
           if Stdlib.List.length ops < 40 && String.length line < 4000 then begin f !k ops out; incr k end
         | _ -> ()
       done
     with End_of_file -> ()));
  close_out out

let () =
  if Array.length Sys.argv > 1 && Sys.argv.(1) = "--coq" then (coq_mode (); exit 0);
  let inp = open_in Sys.argv.(1) and out = open_out Sys.argv.(2) in
  (try
    while true do
      let line = input_line inp in
      if String.length line > 0 && line.[0] <> '#' then begin
        match String.split_on_char '\t' line with
        | id :: prop :: rest ->
          let ops = match rest with [] -> [] | s :: _ -> Stdlib.List.filter (fun x -> x <> "") (String.split_on_char ' ' s) in
          (match Hashtbl.find_opt Registry.table prop with
           | Some f -> (try f id ops out with e -> Printf.fprintf out "%s\t-1\trunner-exception=%s\n" id (Printexc.to_string e))
           | None -> Printf.fprintf out "%s\t-1\tno-runner\n" id)
        | _ -> ()
      end
    done
  with End_of_file -> ());
  close_out out
