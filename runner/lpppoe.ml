(* Lpppoe runner: PPPoE codec model (coq/Model/LpppoeModel.v) on the ops of harness/cmd/gpverif/lpppoe.go *)
open Util
open Lmiscutil
open LpppoeModel

let fields (l : pppoe) = Printf.sprintf "v=%s;t=%s;code=%s;sid=%s;len=%s" (i l.o_version) (i l.o_type) (i l.o_code) (i l.o_session) (i l.o_length)
let of_spec s = match split_on '.' s with
  | [v; t; c; sid; len] -> { o_contents = []; o_payload = []; o_version = zi v; o_type = zi t; o_code = zi c; o_session = zi sid; o_length = zi len }
  | _ -> failwith "pppoe spec"
let desc = { fresh = poe_fresh; decode = (fun _ d -> poe_decode d); serialize = Some poe_serialize; fields;
  contents = (fun l -> l.o_contents); payload = (fun l -> l.o_payload);
  next = (fun cls l -> if cls <> "ok" then "none" else i (poe_next l));
  render_panics = poe_render_panics; of_spec; junk_len = 8 }
let run id ops out = run_generic desc id ops out
let registered = Registry.register "Lpppoe" run
