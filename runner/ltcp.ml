(* Ltcp runner: TCP layer sub-check.  Ops: tbl dec dec2 bld ser rt (see harness/cmd/gpverif/ltcp.go).
   LTCP_MODEL=orig selects the model of the unchanged tree (decode_into_orig, render_panics_orig). *)
open Util
open LtcpModel

let orig = (Sys.getenv_opt "LTCP_MODEL" = Some "orig")
let decode old d ex = if orig then decode_into_orig old d ex else decode_into old d ex
let render t = if orig then render_panics_orig t else render_panics t

let zi = int_of_z
let b01 b = if b then "1" else "0"

let show_info (i : mpinfo) : string =
  match i with
  | MPnone -> "-"
  | MPCapable (v, f, sk, rk, dl, cs) ->
    Printf.sprintf "cap:%d:%d:%s:%s:%d:%d" (zi v) (zi f) (hex_of_bytes sk) (hex_of_bytes rk) (zi dl) (zi cs)
  | MPJoin (b, a, rt, sr, hm) ->
    Printf.sprintf "join:%s:%d:%d:%d:%s" (b01 b) (zi a) (zi rt) (zi sr) (hex_of_bytes hm)
  | MPDss (f, ack, dsn, ssn, dl, cs) ->
    Printf.sprintf "dss:%d:%s:%s:%d:%d:%d" (zi f) (hex_of_bytes ack) (hex_of_bytes dsn) (zi ssn) (zi dl) (zi cs)
  | MPAddAddr (v, e, a, addr, port, hm) ->
    Printf.sprintf "add:%d:%s:%d:%s:%d:%s" (zi v) (b01 e) (zi a) (hex_of_bytes addr) (zi port) (hex_of_bytes hm)
  | MPRemAddr ids -> "rem:" ^ hex_of_bytes ids
  | MPPrio (b, a) -> Printf.sprintf "prio:%s:%d" (b01 b) (zi a)
  | MPFail d -> "fail:" ^ hex_of_z d
  | MPFClose k -> "fclose:" ^ hex_of_bytes k
  | MPRst (f, r) -> Printf.sprintf "rst:%d:%d" (zi f) (zi r)

let show_opt (o : tcpopt) : string =
  Printf.sprintf "%d/%d/%s/%d/%s" (zi o.o_type) (zi o.o_len) (hex_of_bytes o.o_data) (zi o.o_mp) (show_info o.o_info)

let fields (t : tcp) : string =
  Printf.sprintf "sp=%d;dp=%d;seq=%d;ack=%d;off=%d;fl=%d;win=%d;sum=%d;urg=%d;mp=%s;opts=%s;pad=%s;c=%s;p=%s;sport=%s;dport=%s"
    (zi t.t_sp) (zi t.t_dp) (zi t.t_seq) (zi t.t_ack) (zi t.t_off) (zi t.t_flags) (zi t.t_win) (zi t.t_sum) (zi t.t_urg)
    (b01 t.t_mp) (String.concat "," (Stdlib.List.map show_opt t.t_opts)) (hex_of_bytes t.t_pad)
    (hex_of_bytes t.t_contents) (hex_of_bytes t.t_payload) (hex_of_bytes t.t_sport) (hex_of_bytes t.t_dport)

let cls (o : 'a Base.outcome) = match o with Base.Ok _ -> "ok" | Base.Err _ -> "err" | Base.Panic _ -> "panic"

let show_render (t : tcp) : string =
  let (ls, os) = render t in
  let p b = if b then "panic" else "ok" in
  Printf.sprintf "render=ls:%s,ld:%s,lg:ok,os:%s,fl:ok" (p ls) (p ls) (p os)

(* dispatch table given by the case *)
let tbl : (int * (int * int) list) option ref = ref None
let show_next (t : tcp) : string =
  match !tbl with
  | None -> "next=-"
  | Some (pid, l) ->
    let f z = z_of_int (try Stdlib.List.assoc (zi z) l with Not_found -> pid) in
    Printf.sprintf "next=%d" (zi (next_layer_type f (z_of_int pid) t))

let show_dec ((t, tr), o) : string =
  match o with
  | Base.Panic _ -> "cls=panic"
  | _ -> Printf.sprintf "cls=%s;tr=%s;%s;%s;%s" (cls o) (b01 tr) (fields t) (show_next t) (show_render t)

let parse_ph (s : string) : BinNums.coq_Z option =
  if s = "-" || s = "" then None
  else
    let body = String.sub s 1 (String.length s - 1) in
    let n = String.length body / 2 in
    let src = bytes_of_hex (String.sub body 0 n) and dst = bytes_of_hex (String.sub body n n) in
    if s.[0] = '4' then Some (ph4 src dst) else Some (ph6 src dst)

let parse_opts (s : string) : tcpopt list =
  if s = "" then [] else
  Stdlib.List.map (fun o ->
    match split_on '.' o with
    | [k; l; d] -> { o_type = z_of_int (int_of_string k); o_len = z_of_int (int_of_string l);
                     o_data = bytes_of_hex d; o_mp = z_of_int 0; o_info = MPnone }
    | _ -> failwith "opt") (split_on '/' s)

let zs s = z_of_int (int_of_string s)

let parse_bld (a : string) : tcp =
  match split_on ',' a with
  | [sp; dp; seq; ack; off; fl; win; sum; urg; pad; opts] ->
    { tcp0 with t_sp = zs sp; t_dp = zs dp; t_seq = zs seq; t_ack = zs ack; t_off = zs off; t_flags = zs fl;
                t_win = zs win; t_sum = zs sum; t_urg = zs urg; t_pad = bytes_of_hex pad; t_opts = parse_opts opts }
  | _ -> failwith "bld"

let rec repeat_z v n = if n <= 0 then [] else v :: repeat_z v (n - 1)

let run (id : string) (ops : string list) (out : out_channel) =
  tbl := None;
  let cur = ref tcp0 in
  let step = ref 0 in
  let emit s = Printf.fprintf out "%s\t%d\t%s\n" id !step s; incr step in
  Stdlib.List.iter (fun op ->
    let (name, arg) = match String.index_opt op ':' with
      | Some i -> (String.sub op 0 i, String.sub op (i + 1) (String.length op - i - 1))
      | None -> (op, "") in
    let args = split_on ',' arg in
    match name, args with
    | "tbl", pid :: rest ->
      tbl := Some (int_of_string pid, Stdlib.List.filter_map (fun e ->
        match split_on '=' e with [p; l] -> Some (int_of_string p, int_of_string l) | _ -> None) rest)
    | "dec", [h] -> emit (show_dec (decode tcp0 (bytes_of_hex h) []))
    | "dec", [h; ex] -> emit (show_dec (decode tcp0 (bytes_of_hex h) (bytes_of_hex ex)))
    | "dec2", [a; b] ->
      let ((t1, _), o1) = decode tcp0 (bytes_of_hex a) [] in
      (match o1 with
       | Base.Panic _ -> emit "cls1=panic"
       | _ -> emit (show_dec (decode t1 (bytes_of_hex b) [])))
    | "bld", _ ->
      let t = parse_bld arg in
      cur := t;
      emit (Printf.sprintf "%s;%s" (fields t) (show_render t))
    | "ser", [h; fcd; pl; ph] ->
      let src = if h = "@" then Some (!cur, "ok")
        else (let ((t, _), o) = decode tcp0 (bytes_of_hex h) [] in
              match o with Base.Panic _ -> None | _ -> Some (t, cls o)) in
      (match src with
       | None -> emit "dcls=panic"
       | Some (t, dc) ->
         let fx = fcd.[0] = '1' and cs = fcd.[1] = '1' and d = fcd.[2] in
         let junk = if d = '1' then repeat_z (z_of_int 0xaa) 4096 else [] in
         let (o, t') = serialize t (bytes_of_hex pl) fx cs (parse_ph ph) junk in
         let outs = match o with Base.Ok b -> hex_of_bytes b | _ -> "" in
         emit (Printf.sprintf "dcls=%s;cls=%s;out=%s;off=%d;pad=%s;sum=%d" dc (cls o) outs
                 (zi t'.t_off) (hex_of_bytes t'.t_pad) (zi t'.t_sum)))
    | "rt", [h; pl; ph] ->
      let ((t, _), o) = decode tcp0 (bytes_of_hex h) [] in
      (match o with
       | Base.Ok _ ->
         let p = parse_ph ph in
         let (so, _) = serialize t (bytes_of_hex pl) true true p [] in
         (match so with
          | Base.Ok bytes ->
            let ((t2, tr2), o2) = decode tcp0 bytes [] in
            (match o2 with
             | Base.Panic _ -> emit "dcls=ok;scls=ok;cls=panic"
             | _ ->
               let v = match p with
                 | Some phs -> let (ok, c) = verify_csum t2 phs in Printf.sprintf "valid=%s;correct=%d" (b01 ok) (zi c)
                 | None -> "valid=-" in
               emit (Printf.sprintf "dcls=ok;scls=ok;cls=%s;tr=%s;%s;%s" (cls o2) (b01 tr2) (fields t2) v))
          | _ -> emit (Printf.sprintf "dcls=ok;scls=%s" (cls so)))
       | _ -> emit (Printf.sprintf "dcls=%s" (cls o)))
    | _ -> failwith ("ltcp op: " ^ op)) ops

let registered = Registry.register "Ltcp" run

(* ---- extraction cross-check inside Coq (see c18.ml): every model call this glue makes for the ops of a
   sampled case (decode with NextLayerType through the case's dispatch table and the renderer tests,
   serialize, verify_csum), restated as a Gallina term with the same model variant (LTCP_MODEL) and
   recomputed by vm_compute, must give the value the extracted code computed here. *)
let coq_info (i : mpinfo) = match i with
  | MPnone -> "MPnone"
  | MPCapable (v, f, sk, rk, dl, cs) -> Printf.sprintf "(MPCapable %s %s %s %s %s %s)" (coq_z v) (coq_z f) (coq_zlist sk) (coq_zlist rk) (coq_z dl) (coq_z cs)
  | MPJoin (b, a, rt, sr, hm) -> Printf.sprintf "(MPJoin %s %s %s %s %s)" (coq_bool b) (coq_z a) (coq_z rt) (coq_z sr) (coq_zlist hm)
  | MPDss (f, ack, dsn, ssn, dl, cs) -> Printf.sprintf "(MPDss %s %s %s %s %s %s)" (coq_z f) (coq_zlist ack) (coq_zlist dsn) (coq_z ssn) (coq_z dl) (coq_z cs)
  | MPAddAddr (v, e, a, addr, port, hm) -> Printf.sprintf "(MPAddAddr %s %s %s %s %s %s)" (coq_z v) (coq_bool e) (coq_z a) (coq_zlist addr) (coq_z port) (coq_zlist hm)
  | MPRemAddr ids -> "(MPRemAddr " ^ coq_zlist ids ^ ")"
  | MPPrio (b, a) -> Printf.sprintf "(MPPrio %s %s)" (coq_bool b) (coq_z a)
  | MPFail d -> "(MPFail " ^ coq_z d ^ ")"
  | MPFClose k -> "(MPFClose " ^ coq_zlist k ^ ")"
  | MPRst (f, r) -> Printf.sprintf "(MPRst %s %s)" (coq_z f) (coq_z r)
let coq_opt (o : tcpopt) =
  Printf.sprintf "Build_tcpopt %s %s %s %s %s" (coq_z o.o_type) (coq_z o.o_len) (coq_zlist o.o_data) (coq_z o.o_mp) (coq_info o.o_info)
let coq_tcp (t : tcp) =
  Printf.sprintf "(Build_tcp %s %s %s %s %s %s %s %s %s %s %s %s %s %s %s %s)" (coq_z t.t_sp) (coq_z t.t_dp) (coq_z t.t_seq) (coq_z t.t_ack)
    (coq_z t.t_off) (coq_z t.t_flags) (coq_z t.t_win) (coq_z t.t_sum) (coq_z t.t_urg) (coq_zlist t.t_sport) (coq_zlist t.t_dport)
    (coq_list coq_opt t.t_opts) (coq_zlist t.t_pad) (coq_bool t.t_mp) (coq_zlist t.t_contents) (coq_zlist t.t_payload)
let dec_name = if orig then "decode_into_orig" else "decode_into"
let render_name = if orig then "render_panics_orig" else "render_panics"

let to_coq (idx : int) (ops : string list) (out : out_channel) =
  let n = ref 0 and tb = ref None and cur = ref tcp0 in
  let name () = incr n; Printf.sprintf "sample_%d_%d" idx !n in
  let small h = String.length h <= 300 in
  let zint k = z_of_int k in
  (* the dispatch table of the case as a Gallina function (first matching entry, else the payload id) *)
  let next_term () = match !tb with
    | None -> None
    | Some (pid, l) ->
      Some (Printf.sprintf "next_layer_type (fun z => match find (fun e => (fst e =? z)%%Z) %s with Some e => snd e | None => %s end) %s"
              (coq_list (fun (p, q) -> Printf.sprintf "(%s, %s)" (coq_z (zint p)) (coq_z (zint q))) l) (coq_z (zint pid)) (coq_z (zint pid)),
            (fun t -> let f z = z_of_int (try Stdlib.List.assoc (zi z) l with Not_found -> pid) in next_layer_type f (z_of_int pid) t)) in
  let ex_dec (olds : string) (old : tcp) (d : BinNums.coq_Z list) (ex : BinNums.coq_Z list) =
    let ((t, tr), o) = decode old d ex in
    let (nl, nr) = match next_term () with
      | Some (term, f) -> (Printf.sprintf ", %s (fst (fst r))" term, ", " ^ coq_z (f t))
      | None -> ("", "") in
    coq_example_named out (name ())
      (Printf.sprintf "(let r := %s %s %s %s in (r, %s (fst (fst r))%s))" dec_name olds (coq_zlist d) (coq_zlist ex) render_name nl)
      (Printf.sprintf "(%s, %s, %s, %s%s)" (coq_tcp t) (coq_bool tr) (coq_outcome coq_unit o) (coq_pair coq_bool coq_bool (render t)) nr);
    ((t, tr), o) in
  let ph_term (s : string) : string =
    if s = "-" || s = "" then "None" else
    let body = String.sub s 1 (String.length s - 1) in
    let k = String.length body / 2 in
    Printf.sprintf "(Some (%s %s %s))" (if s.[0] = '4' then "ph4" else "ph6") (coq_zlist (bytes_of_hex (String.sub body 0 k))) (coq_zlist (bytes_of_hex (String.sub body k k))) in
  let ex_ser (t : tcp) (pl : BinNums.coq_Z list) (fx : bool) (cs : bool) (ph : string) (junk1 : bool) =
    let r = serialize t pl fx cs (parse_ph ph) (if junk1 then repeat_z (z_of_int 0xaa) 4096 else []) in
    coq_example_named out (name ())
      (Printf.sprintf "serialize %s %s %s %s %s %s" (coq_tcp t) (coq_zlist pl) (coq_bool fx) (coq_bool cs) (ph_term ph)
         (if junk1 then "(repeat 170%Z 4096%nat)" else "[]"))
      (coq_pair (coq_outcome coq_zlist) coq_tcp r); r in
  Stdlib.List.iter (fun op ->
    let (nm, arg) = match String.index_opt op ':' with
      | Some i -> (String.sub op 0 i, String.sub op (i + 1) (String.length op - i - 1))
      | None -> (op, "") in
    let args = split_on ',' arg in
    if nm = "tbl" then (match args with
      | pid :: rest -> tb := Some (int_of_string pid, Stdlib.List.filter_map (fun e ->
          match split_on '=' e with [p; l] -> Some (int_of_string p, int_of_string l) | _ -> None) rest)
      | _ -> ())
    else if nm = "bld" then begin
      let t = parse_bld arg in
      cur := t;
      if !n < 6 then coq_example_named out (name ()) (Printf.sprintf "%s %s" render_name (coq_tcp t)) (coq_pair coq_bool coq_bool (render t))
    end
    else if !n < 6 then
    match nm, args with
    | "dec", [h] when small h -> ignore (ex_dec "tcp0" tcp0 (bytes_of_hex h) [])
    | "dec", [h; ex] when small h && small ex -> ignore (ex_dec "tcp0" tcp0 (bytes_of_hex h) (bytes_of_hex ex))
    | "dec2", [a; b] when small a && small b ->
      let ((t1, _), o1) = ex_dec "tcp0" tcp0 (bytes_of_hex a) [] in
      (match o1 with Base.Panic _ -> () | _ -> ignore (ex_dec (coq_tcp t1) t1 (bytes_of_hex b) []))
    | "ser", [h; fcd; pl; ph] when small h && small pl ->
      let src = if h = "@" then Some !cur
        else (let ((t, _), o) = decode tcp0 (bytes_of_hex h) [] in match o with Base.Panic _ -> None | _ -> Some t) in
      (match src with
       | Some t -> ignore (ex_ser t (bytes_of_hex pl) (fcd.[0] = '1') (fcd.[1] = '1') ph (fcd.[2] = '1'))
       | None -> ())
    | "rt", [h; pl; ph] when small h && small pl ->
      let ((t, _), o) = ex_dec "tcp0" tcp0 (bytes_of_hex h) [] in
      (match o with
       | Base.Ok _ ->
         (match ex_ser t (bytes_of_hex pl) true true ph false with
          | (Base.Ok bytes, _) ->
            let ((t2, _), o2) = ex_dec "tcp0" tcp0 bytes [] in
            (match o2, parse_ph ph with
             | Base.Panic _, _ | _, None -> ()
             | _, Some phs ->
               coq_example_named out (name ()) (Printf.sprintf "verify_csum %s %s" (coq_tcp t2) (coq_z phs)) (coq_pair coq_bool coq_z (verify_csum t2 phs)))
          | _ -> ())
       | _ -> ())
    | _ -> ()) ops
let registered_coq = Registry.register_coq "Ltcp" ("From GP Require Import Base LtcpModel.\n", to_coq)
