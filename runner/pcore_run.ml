(* PacketCore runner glue shared by the checks C03 and C01core: parses a case
   (options, data, first decoder id, decoder scripts, accessor program), runs the extracted
   PacketScript.run_case, prints one observation line per step.  Trusted glue.

   ops:  o:LNPSD   option bits Lazy,NoCopy,Pool,SkipDecodeRecovery,DecodeStreamsAsDatagrams
         d:hex     packet data          f:ID  first decoder id
         dec:ID/variant/variant...      variant = layers!acts!term!dsadterm
              layers: type.clen.pmode joined by '+'   pmode: r | e | w | c<hex>
              acts:   a<k> l<k> n<k> t<k> p<k> e<k> x joined by '+'
              term:   r | f | n<id> | z | p            dsadterm: '-' or a term
         L:t  C:t1,t2  lk nw tr ap er ls st du         accessor calls
         real:<first layer name>                        implementation-only case (no model) *)
open Util
open BinNums
open PacketCore
open PacketScript

let fuel = nat_of_int 4000

let zi s = z_of_int (int_of_string s)

let parse_term (s : string) : terminator =
  if s = "r" then Ret else if s = "f" then Fail else if s = "z" then NextNil else if s = "p" then PanicT
  else if String.length s > 1 && s.[0] = 'n' then Next (zi (String.sub s 1 (String.length s - 1)))
  else failwith ("term: " ^ s)

let parse_lspec (s : string) : lspec =
  match split_on '.' s with
  | [t; cl; pm] ->
    let pmode = if pm = "r" then PRest else if pm = "e" then PEmpty else if pm = "w" then PWhole
      else if String.length pm >= 1 && pm.[0] = 'c' then PConst (bytes_of_hex (String.sub pm 1 (String.length pm - 1)))
      else failwith ("pmode: " ^ pm) in
    { ls_type = zi t; ls_clen = nat_of_int (int_of_string cl); ls_pmode = pmode }
  | _ -> failwith ("lspec: " ^ s)

let parse_sact (s : string) : sact =
  if s = "x" then STrunc else
  let k = nat_of_int (int_of_string (String.sub s 1 (String.length s - 1))) in
  match s.[0] with
  | 'a' -> SAdd k | 'l' -> SLink k | 'n' -> SNet k | 't' -> STrans k | 'p' -> SApp k | 'e' -> SErrL k
  | _ -> failwith ("sact: " ^ s)

let nonempty l = Stdlib.List.filter (fun x -> x <> "") l

let parse_variant (s : string) : variant =
  match split_on '!' s with
  | [ls; acts; term; dterm] ->
    { v_layers = Stdlib.List.map parse_lspec (nonempty (split_on '+' ls));
      v_acts = Stdlib.List.map parse_sact (nonempty (split_on '+' acts));
      v_term = parse_term term;
      v_term_dsad = if dterm = "-" then None else Some (parse_term dterm) }
  | _ -> failwith ("variant: " ^ s)

let parse_dec (s : string) : coq_Z * script =
  match split_on '/' s with
  | id :: vs -> (zi id, Stdlib.List.map parse_variant vs)
  | _ -> failwith ("dec: " ^ s)

let tok (l : layer) : string =
  Printf.sprintf "%d/%s/%s/%d" (int_of_z l.l_type) (hex_of_bytes l.l_contents) (hex_of_bytes l.l_payload)
    (if l.l_fail then 1 else 0)
let toks ls = String.concat "," (Stdlib.List.map tok ls)
let stok (l : layer) : string =
  let n = Stdlib.List.length l.l_contents in
  if l.l_fail then Printf.sprintf "%d:F" n
  else Printf.sprintf "%d:%d/%s/%s" n (int_of_z l.l_type) (hex_of_bytes l.l_contents) (hex_of_bytes l.l_payload)
let dtok (l : layer) : string =
  if l.l_fail then Printf.sprintf "F~%s" (hex_of_bytes l.l_contents)
  else Printf.sprintf "%d/%s/%s~%s" (int_of_z l.l_type) (hex_of_bytes l.l_contents) (hex_of_bytes l.l_payload) (hex_of_bytes l.l_contents)
let b01 b = if b then 1 else 0
let otok = function None -> "nil" | Some l -> tok l

let show (r : aresult option) : string =
  match r with
  | None -> "fuel"
  | Some (RLayer None) -> "nil"
  | Some (RLayer (Some l)) -> "layer=" ^ tok l
  | Some (RLayers ls) -> "layers=" ^ toks ls
  | Some (RString (n, tr, ls)) ->
    Printf.sprintf "str=%d|%d|%s" (int_of_nat n) (b01 tr) (String.concat "," (Stdlib.List.map stok ls))
  | Some (RDump (d, ls)) ->
    Printf.sprintf "dump=%s|%s" (hex_of_bytes d) (String.concat "," (Stdlib.List.map dtok ls))
  | Some RPanic -> "panic"

let parse (ops : string list) =
  let o = ref { o_lazy = false; o_nocopy = false; o_pool = false; o_skiprec = false; o_dsad = false } in
  let data = ref [] and first = ref Z0 and tbl = ref [] and prog = ref [] and real = ref false in
  Stdlib.List.iter (fun s ->
    let name, arg = match String.index_opt s ':' with
      | Some i -> String.sub s 0 i, String.sub s (i + 1) (String.length s - i - 1)
      | None -> s, "" in
    match name with
    | "o" -> let b i = arg.[i] = '1' in
      o := { o_lazy = b 0; o_nocopy = b 1; o_pool = b 2; o_skiprec = b 3; o_dsad = b 4 }
    | "d" -> data := bytes_of_hex arg
    | "f" -> first := zi arg
    | "dec" -> tbl := !tbl @ [parse_dec arg]
    | "L" -> prog := ALayer (zi arg) :: !prog
    | "C" -> prog := ALayerClass (Stdlib.List.map zi (nonempty (split_on ',' arg))) :: !prog
    | "lk" -> prog := ALinkLayer :: !prog
    | "nw" -> prog := ANetworkLayer :: !prog
    | "tr" -> prog := ATransportLayer :: !prog
    | "ap" -> prog := AApplicationLayer :: !prog
    | "er" -> prog := AErrorLayer :: !prog
    | "ls" -> prog := ALayers :: !prog
    | "st" -> prog := AString :: !prog
    | "du" -> prog := ADump :: !prog
    | "real" -> real := true
    | _ -> failwith ("pcore op: " ^ s)) ops;
  (!o, !data, !first, !tbl, Stdlib.List.rev !prog, !real)

let run (id : string) (ops : string list) (out : out_channel) =
  let (o, data, first, tbl, prog, real) = parse ops in
  let o = ref o and data = ref data and first = ref first and tbl = ref tbl and prog = ref (Stdlib.List.rev prog) and real = ref real in
  if !real then Printf.fprintf out "%s\ttags\timpl-only\n" id
  else begin
    let r = run_case fuel !tbl !data !first !o (Stdlib.List.rev !prog) in
    (* which hypotheses of the theorems this case's family meets (decidable checks proved
       sufficient in Proofs/PacketScriptProofs.v) *)
    let hyps = Stdlib.List.filter_map (fun x -> x)
      [ (if table_F6b !tbl then Some "hyp-F6" else None);
        (if table_progressb !tbl then Some "hyp-progress" else None);
        (if table_no_seterrb !tbl then Some "hyp-no-seterr" else None);
        (if table_F6b !tbl && !data <> [] && (match r.cr_new with NewOk _ -> true | _ -> false)
         then Some "inside-C03-theorem" else None);
        (if table_progressb !tbl && table_no_seterrb !tbl && not (!o).o_skiprec
         then Some "inside-C01-theorems" else None) ] in
    if hyps <> [] then Printf.fprintf out "%s\ttags\t%s\n" id (String.concat "," hyps);
    (match r.cr_new with
     | NewOk pk ->
       let p = (match pk with PEager p -> p | PLazy lp -> lp.lp_p) in
       Printf.fprintf out "%s\t0\tnew=ok;origin=%s\n" id
         (match p.p_origin with DataPool -> "pool" | _ when !data = [] -> "na"  (* aliasing of an empty slice is not observable *)
                              | DataAlias -> "alias" | DataCopy -> "copy")
     | NewPanic -> Printf.fprintf out "%s\t0\tnew=panic\n" id
     | NewFuel -> Printf.fprintf out "%s\t0\tnew=fuel\n" id);
    let n = ref 1 in
    Stdlib.List.iter (fun s -> Printf.fprintf out "%s\t%d\t%s\n" id !n (show s); incr n) r.cr_steps;
    (match r.cr_final with
     | None -> ()
     | Some (lr, p) ->
       Printf.fprintf out "%s\t%d\tfinal;%s;trunc=%d;link=%s;net=%s;trans=%s;app=%s;err=%s\n" id !n
         (show lr) (b01 p.p_trunc) (otok p.p_link) (otok p.p_network) (otok p.p_transport)
         (otok p.p_application) (otok p.p_failure))
  end

(* ---- extraction cross-check inside Coq (see c18.ml), shared by C03 and C01core: PacketScript.run_case on
   the case's table, data, first decoder, options and program, recomputed by vm_compute, must equal the
   case_result this extracted runner computed (printed in full), and likewise the three hypothesis tests. *)
let coq_term = function
  | Ret -> "Ret" | Fail -> "Fail" | Next t -> "(Next " ^ coq_z t ^ ")" | NextNil -> "NextNil" | PanicT -> "PanicT"
let coq_lspec (l : lspec) =
  Printf.sprintf "mkLspec %s %s %s" (coq_z l.ls_type) (coq_nat l.ls_clen)
    (match l.ls_pmode with PRest -> "PRest" | PEmpty -> "PEmpty" | PWhole -> "PWhole" | PConst b -> "(PConst " ^ coq_zlist b ^ ")")
let coq_sact = function
  | SAdd k -> "SAdd " ^ coq_nat k | SLink k -> "SLink " ^ coq_nat k | SNet k -> "SNet " ^ coq_nat k | STrans k -> "STrans " ^ coq_nat k
  | SApp k -> "SApp " ^ coq_nat k | SErrL k -> "SErrL " ^ coq_nat k | STrunc -> "STrunc"
let coq_variant (v : variant) =
  Printf.sprintf "PacketScript.mkVariant %s %s %s %s" (coq_list coq_lspec v.v_layers) (coq_list coq_sact v.v_acts) (coq_term v.v_term)
    (coq_option coq_term v.v_term_dsad)
let coq_layer (l : layer) =
  Printf.sprintf "(mkLayer %s %s %s %s)" (coq_z l.l_type) (coq_zlist l.l_contents) (coq_zlist l.l_payload) (coq_bool l.l_fail)
let coq_opts (o : dopts) =
  Printf.sprintf "(mkOpts %s %s %s %s %s)" (coq_bool o.o_lazy) (coq_bool o.o_nocopy) (coq_bool o.o_pool) (coq_bool o.o_skiprec) (coq_bool o.o_dsad)
let coq_packet (p : packet) =
  let ol = coq_option coq_layer in
  Printf.sprintf "(mkPacket %s %s %s %s %s %s %s %s %s %s %s)" (coq_zlist p.p_data)
    (match p.p_origin with DataAlias -> "DataAlias" | DataCopy -> "DataCopy" | DataPool -> "DataPool")
    (coq_list coq_layer p.p_layers) (ol p.p_last) (coq_bool p.p_trunc) (coq_opts p.p_opts) (ol p.p_link) (ol p.p_network)
    (ol p.p_transport) (ol p.p_application) (ol p.p_failure)
let coq_accessor = function
  | ALayer t -> "ALayer " ^ coq_z t | ALayerClass c -> "ALayerClass " ^ coq_zlist c
  | ALinkLayer -> "ALinkLayer" | ANetworkLayer -> "ANetworkLayer" | ATransportLayer -> "ATransportLayer"
  | AApplicationLayer -> "AApplicationLayer" | AErrorLayer -> "AErrorLayer" | ALayers -> "ALayers" | AString -> "AString" | ADump -> "ADump"
let coq_aresult = function
  | RLayer l -> "(RLayer " ^ coq_option coq_layer l ^ ")"
  | RLayers ls -> "(RLayers " ^ coq_list coq_layer ls ^ ")"
  | RString (n, tr, ls) -> Printf.sprintf "(RString %s %s %s)" (coq_nat n) (coq_bool tr) (coq_list coq_layer ls)
  | RDump (d, ls) -> Printf.sprintf "(RDump %s %s)" (coq_zlist d) (coq_list coq_layer ls)
  | RPanic -> "RPanic"
let coq_new (r : anypacket nresult) = match r with
  | NewOk (PEager p) -> "(NewOk (PEager " ^ coq_packet p ^ "))"
  | NewOk (PLazy lp) -> Printf.sprintf "(NewOk (PLazy (mkLazy %s %s)))" (coq_packet lp.lp_p) (coq_option coq_z lp.lp_next)
  | NewPanic -> "NewPanic" | NewFuel -> "NewFuel"

let to_coq (idx : int) (ops : string list) (out : out_channel) =
  let (o, data, first, tbl, prog, real) = parse ops in
  if not real && Stdlib.List.length data <= 64 then begin
    let r = run_case fuel tbl data first o prog in
    let tbls = coq_list (coq_pair coq_z (coq_list coq_variant)) tbl in
    coq_example out idx
      (Printf.sprintf "run_case %s\n    %s\n    %s %s %s\n    %s" (coq_nat fuel) tbls (coq_zlist data) (coq_z first) (coq_opts o) (coq_list coq_accessor prog))
      (Printf.sprintf "mkCaseResult\n    %s\n    %s\n    %s" (coq_new r.cr_new) (coq_list (coq_option coq_aresult) r.cr_steps)
         (coq_option (coq_pair (coq_option coq_aresult) coq_packet) r.cr_final));
    coq_example_named out (Printf.sprintf "sample_%d_hyps" idx)
      (Printf.sprintf "(let tbl := %s in (table_F6b tbl, table_progressb tbl, table_no_seterrb tbl))" tbls)
      (Printf.sprintf "(%s, %s, %s)" (coq_bool (table_F6b tbl)) (coq_bool (table_progressb tbl)) (coq_bool (table_no_seterrb tbl)))
  end
let coq_header = "From GP Require Import Base PacketCore PacketScript.\n"
