(* shared by the Ldot11data and Ldot11ctrl runners: the sub-layer model (coq/Model/Ldot11subModel.v) on the ops of
   harness/cmd/gpverif/ldot11sub_common.go.  First op L:<kind>, then dec / dec2, or chain:<hex>. *)
open Util
open Lmiscutil
open Ldot11subModel

let kinds = [
  "ctrl", (KContents, "Payload"); "cts", (KContents, "Payload"); "rts", (KContents, "Payload"); "blockackreq", (KContents, "Payload");
  "blockack", (KContents, "Payload"); "pspoll", (KContents, "Payload"); "ack", (KContents, "Payload"); "cfend", (KContents, "Payload");
  "cfendack", (KContents, "Payload"); "wep", (KContents, "Payload");
  "data", (KPayload, "LLC"); "cfack", (KPayload, "LLC"); "cfpoll", (KPayload, "LLC"); "cfackpoll", (KPayload, "LLC"); "null", (KPayload, "LLC");
  "cfacknodata", (KPayload, "LLC"); "cfpollnodata", (KPayload, "LLC"); "cfackpollnodata", (KPayload, "LLC");
  "qosdata", (KBase, "Dot11Data"); "qosdatacfack", (KBase, "Dot11DataCFAck"); "qosdatacfpoll", (KBase, "Dot11DataCFPoll");
  "qosdatacfackpoll", (KBase, "Dot11DataCFAckPoll"); "qosnull", (KBase, "Dot11DataNull"); "qoscfpollnodata", (KBase, "Dot11DataCFPoll");
  "qoscfackpollnodata", (KBase, "Dot11DataCFAckPoll") ]
let desc (k, nx) = { fresh = sb_fresh; decode = sb_decode_into k; serialize = None; fields = (fun _ -> "f=");
  contents = (fun l -> l.sb_contents); payload = (fun l -> l.sb_payload); next = (fun _ _ -> nx);
  render_panics = sb_render_panics; of_spec = (fun _ -> sb_fresh); junk_len = 0 }
let lname c =
  if c = 0 then "Dot11" else if c = 300 then "Dot11WEP"
  else if c >= 200 then Ldot11.datanext (c - 200) else Ldot11.tyname.(c - 100)
let run id ops out =
  match ops with
  | l :: rest when String.length l > 2 && String.sub l 0 2 = "L:" ->
    let kind = String.sub l 2 (String.length l - 2) in
    let chains = Stdlib.List.filter (fun op -> String.length op >= 6 && String.sub op 0 6 = "chain:") rest in
    if chains = [] then run_generic (desc (Stdlib.List.assoc kind kinds)) id rest out
    else Stdlib.List.iteri (fun k op ->
      let h = String.sub op 6 (String.length op - 6) in
      let (ls, more) = sb_chain (bytes_of_hex h) in
      Printf.fprintf out "%s\t%d\tlayers=%s;more=%s\n" id k
        (String.concat "," (Stdlib.List.map (fun ((c, a), b) -> Printf.sprintf "%s:%s:%s" (lname (int_of_z c)) (i a) (i b)) ls)) (b01 more)) chains
  | _ -> failwith "Ldot11data/ctrl: first op must be L:<kind>"
