(* Lrudp runner: RUDP decoder model on the ops of harness/cmd/gpverif/lsmall2.go *)
open Util
open Lmiscutil
open LrudpModel
let fields (l : rudp) = Printf.sprintf "fl=%s%s%s%s%s;v=%s;hl=%s;sp=%s;dp=%s;dl=%s;seq=%s;ack=%s;cs=%s;vha=%s;syn=%s;eack=%s" (b01 l.ru_syn) (b01 l.ru_ack) (b01 l.ru_eack)
  (b01 l.ru_rst) (b01 l.ru_nul) (i l.ru_version) (i l.ru_hlen) (i l.ru_sport) (i l.ru_dport) (i l.ru_dlen) (i l.ru_seq) (i l.ru_ackn) (i l.ru_csum) (hex_of_bytes l.ru_vha)
  (match l.ru_synhdr with None -> "n" | Some ((a, b), c) -> Printf.sprintf "%s~%s~%s" (i a) (i b) (i c))
  (match l.ru_eackhdr with None -> "n" | Some s -> "[" ^ String.concat "~" (Stdlib.List.map i s) ^ "]")
let desc = { fresh = ru_fresh; decode = (fun _ d -> ru_decode d); serialize = None; fields; contents = (fun l -> l.ru_contents); payload = (fun l -> l.ru_payload);
  next = (fun cls _ -> if cls <> "ok" then "none" else "payload"); render_panics = ru_render_panics; of_spec = (fun _ -> failwith "no spec"); junk_len = 0 }
let run id ops out = run_generic desc id ops out
let registered = Registry.register "Lrudp" run
