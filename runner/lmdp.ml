(* Lmdp runner: MDP codec model (coq/Model/LmdpModel.v) on the ops of harness/cmd/gpverif/lmdp.go.  The three text parsers of the
   model are tables built from the G facts of the case (absent text: the parsers' error results 0 / nil / false). *)
open Util
open Lmiscutil
open LmdpModel
let fields (l : mdp) = Printf.sprintf "pre=%s;di=%s;ni=%s;lon=%s;lat=%s;t6=%s;t7=%s;ip=%s;b13=%s;type=%s;len=%s" (hex_of_bytes l.md_preamble) (hex_of_bytes l.md_devinfo)
  (hex_of_bytes l.md_netinfo) (hex_of_z l.md_lon) (hex_of_z l.md_lat) (hex_of_bytes l.md_t6) (hex_of_bytes l.md_t7)
  (match l.md_ip with [] -> "-" | ip -> hex_of_bytes ip) (b01 l.md_b13) (i l.md_type) (i l.md_length)
let run id ops out =
  let tf = Hashtbl.create 16 and ti = Hashtbl.create 16 and tb = Hashtbl.create 16 in
  Stdlib.List.iter (fun op ->
    if String.length op > 2 && String.sub op 0 2 = "G:" then
      match split_on ',' (String.sub op 2 (String.length op - 2)) with
      | ["f"; s; r] -> Hashtbl.replace tf s (z_of_hex r)
      | ["i"; s; r] -> Hashtbl.replace ti s (if r = "-" then [] else bytes_of_hex r)
      | ["b"; s; r] -> Hashtbl.replace tb s (r = "1")
      | _ -> failwith ("mdp fact: " ^ op)) ops;
  let pf v = try Hashtbl.find tf (hex_of_bytes v) with Not_found -> z_of_int 0 in
  let pip v = try Hashtbl.find ti (hex_of_bytes v) with Not_found -> [] in
  let pb v = try Hashtbl.find tb (hex_of_bytes v) with Not_found -> false in
  let desc = { fresh = md_fresh; decode = md_decode_into pf pip pb; serialize = Some md_serialize; fields; contents = (fun l -> l.md_contents);
    payload = (fun l -> l.md_payload); next = (fun _ l -> "t" ^ i (md_next l)); render_panics = md_render_panics;
    of_spec = (fun _ -> failwith "no spec"); junk_len = 0 } in
  Lsmallutil.run_with_decf desc (md_decode_fn pf pip pb) id ops out
let registered = Registry.register "Lmdp" run
