(* C14ng runner: writer script -> model writer -> file -> model reader (whole, and cut) *)
open Util
open NgModel
open Ngshared

let prepare (ops : string list) =
  let sec = ref { sc_hw = []; sc_os = []; sc_app = []; sc_comment = [] } in
  let i0 = ref None and wops = ref [] and raw = ref None in
  let ro = ref "000" and zc = ref false and reads = ref [] in
  Stdlib.List.iter (fun op ->
    let name, arg = match String.index_opt op ':' with
      | Some i -> String.sub op 0 i, String.sub op (i + 1) (String.length op - i - 1)
      | None -> op, "" in
    let a = Array.of_list (split_on ',' arg) in
    match name with
    | "sec" -> sec := { sc_app = bytes_of_hex a.(0); sc_comment = bytes_of_hex a.(1); sc_hw = bytes_of_hex a.(2); sc_os = bytes_of_hex a.(3) }
    | "if" ->
      let f = { wi_name = bytes_of_hex a.(0); wi_comment = bytes_of_hex a.(1); wi_descr = bytes_of_hex a.(2);
                wi_filter = bytes_of_hex a.(3); wi_os = bytes_of_hex a.(4); wi_link = zint a.(5);
                wi_tsresol = zint a.(6); wi_tsoff = z_of_hex a.(7); wi_snap = zint a.(8) } in
      (match !i0 with None -> i0 := Some f | Some _ -> wops := WAddIf f :: !wops)
    | "pkt" -> wops := WPacket (zint a.(0), z_of_hex a.(1), zint a.(2), zint a.(3), bytes_of_hex a.(4), parse_opts a.(5)) :: !wops
    | "stat" -> wops := WStats (zint a.(0), { ws_last = time_arg a.(1); ws_start = time_arg a.(2); ws_end = time_arg a.(3);
                                              ws_drop = z_of_hex a.(4); ws_recv = z_of_hex a.(5) }) :: !wops
    | "dsb" -> wops := WDSB (zint a.(0), bytes_of_hex a.(1)) :: !wops
    | "raw" -> raw := Some (bytes_of_hex arg)
    | "ro" -> ro := arg
    | "mode" -> zc := (arg = "zc")
    | "full" | "cut" | "cutall" -> reads := op :: !reads
    | _ -> failwith ("c14ng op: " ^ op)) ops;
  (!sec, !i0, Stdlib.List.rev !wops, !raw, parse_ro !ro !zc, Stdlib.List.rev !reads)

let run (id : string) (ops : string list) (out : out_channel) =
  let (sec, i0, wops, raw, ropt, reads) = prepare ops in
  let step = ref 0 in
  let emit s = Printf.fprintf out "%s\t%d\t%s\n" id !step s; incr step in
  let file =
    match raw, i0 with
    | Some f, _ -> Some f
    | None, None -> emit "w=noif"; None
    | None, Some f0 ->
      let blocks = write_blocks sec f0 wops in
      let file = Stdlib.List.concat (Stdlib.List.map fst blocks) in
      emit (Printf.sprintf "w=%s;file=%s" (String.concat "," (Stdlib.List.map (fun (_, ok) -> if ok then "ok" else "err") blocks)) (hex_of_bytes file));
      Some file in
  match file with
  | None -> ()
  | Some file ->
    let n = Stdlib.List.length file in
    let sess d = sres_of (fst (session_flat ropt d false)) in
    Stdlib.List.iter (fun rd ->
      if rd = "full" then Stdlib.List.iter emit (session_lines (sess file))
      else if rd = "cutall" then
        for k = 0 to n do emit (summary_line k (sess (take k file))) done
      else begin
        let k = int_of_string (String.sub rd 4 (String.length rd - 4)) in
        let k = if k > n then n else k in
        emit (summary_line k (sess (take k file)))
      end) reads

let registered = Registry.register "C14ng" run

(* extraction cross-check inside Coq: the written file read whole and cut in the middle *)
let to_coq (idx : int) (ops : string list) (out : out_channel) =
  let (sec, i0, wops, raw, ropt, _) = prepare ops in
  let file = match raw, i0 with
    | Some f, _ -> Some f
    | None, Some f0 -> Some (write_file sec f0 wops)
    | None, None -> None in
  match file with
  | Some f when Stdlib.List.length f <= 600 ->
    ng_coq_flat out (Printf.sprintf "sample_%d" idx) ropt f;
    ng_coq_flat out (Printf.sprintf "sample_%d_cut" idx) ropt (take (Stdlib.List.length f * 2 / 3) f)
  | _ -> ()
let registered_coq = Registry.register_coq "C14ng" (ng_coq_header, to_coq)
