(* Lradiotap runner: RadioTap codec model (coq/Model/LradiotapModel.v) on the ops of harness/cmd/gpverif/lradiotap.go *)
open Util
open Lmiscutil
open LradiotapModel

let join sep f l = if l = [] then "-" else String.concat sep (Stdlib.List.map f l)
let word z = Printf.sprintf "%08x" (int_of_z z)
let ns_str (v : BinNums.coq_Z list list) = hex_of_bytes (Stdlib.List.concat v)
let vn_str (v : vendor) = Printf.sprintf "%s~%s~%s~%s" (hex_of_bytes v.vn_oui) (i v.vn_sub) (i v.vn_skip) (hex_of_bytes v.vn_contents)
let fields (l : radiotap) = Printf.sprintf "ver=%s;len=%s;present=%s;rv=%s;vv=%s" (i l.rt_version) (i l.rt_length)
  (join "_" word l.rt_present) (join "_" ns_str l.rt_values) (join "+" vn_str l.rt_vendor)
let widths = Stdlib.List.map (fun (((_, _), _), u) -> int_of_z u) rt_fields
let ns_of s =
  let b = Array.of_list (bytes_of_hex s) in
  let pos = ref 0 in
  Stdlib.List.map (fun w -> let r = Array.to_list (Array.sub b !pos w) in pos := !pos + w; r) widths
let vn_of s = match split_on '~' s with
  | [o; sub; sk; c] -> { vn_oui = bytes_of_hex o; vn_sub = zi sub; vn_skip = zi sk; vn_contents = bytes_of_hex c }
  | _ -> failwith "radiotap vendor spec"
let lst sep f s = if s = "-" then [] else Stdlib.List.map f (split_on sep s)
let of_spec s = match split_on '.' s with
  | [v; len; ps; rv; vv] ->
    { rt_contents = []; rt_payload = []; rt_version = zi v; rt_length = zi len; rt_present = lst '_' z_of_hex ps;
      rt_values = lst '_' ns_of rv; rt_vendor = lst '+' vn_of vv }
  | _ -> failwith "radiotap spec"
let desc = { fresh = rt_fresh; decode = rt_decode_into; serialize = Some rt_serialize; fields;
  contents = (fun l -> l.rt_contents); payload = (fun l -> l.rt_payload); next = (fun _ _ -> "dot11");
  render_panics = rt_render_panics; of_spec; junk_len = 2000 }
let run id ops out = run_generic desc id ops out
let registered = Registry.register "Lradiotap" run
