(* Lmbap runner: Modbus decoder model (coq/Model/LmbapModel.v) on the ops of harness/cmd/gpverif/lmbap.go *)
open Util
open Lmiscutil
open LmbapModel
let fields (l : mbap) = Printf.sprintf "tid=%s;pid=%s;len=%s;unit=%s;fc=%s;exc=%s;rr=%s;valid=%s;ec=%s" (i l.mq_tid) (i l.mq_pid) (i l.mq_length) (i l.mq_unit)
  (i l.mq_fc) (b01 l.mq_exc) (hex_of_bytes l.mq_reqresp) (i (mq_validate l)) (match mq_exc_code l with Base.Ok v -> i v | _ -> "panic")
let desc = { fresh = mq_fresh; decode = mq_decode_into; serialize = None; fields; contents = (fun l -> l.mq_contents); payload = (fun l -> l.mq_payload);
  next = (fun _ _ -> "zero"); render_panics = mq_render_panics; of_spec = (fun _ -> failwith "no spec"); junk_len = 0 }
let run id ops out =
  if Stdlib.List.exists (fun op -> String.length op >= 5 && String.sub op 0 5 = "decf:") ops then begin
    let step = ref 0 in
    Stdlib.List.iter (fun op ->
      if String.length op >= 5 && String.sub op 0 5 = "decf:" then begin
        let h = String.sub op 5 (String.length op - 5) in
        let ((((l, added), nx), o), tr) = mq_decode_fn (bytes_of_hex h) in
        let l = if added then l else mq_fresh in  (* an object that was not added is unreachable: the harness shows a zero layer *)
        Printf.fprintf out "%s\t%d\tcls=%s;tr=%s;added=%s;%s;c=%s;p=%s;next=%s\n" id !step (cls_of o) (b01 tr) (if added then "1" else "0") (fields l)
          (hex_of_bytes l.mq_contents) (hex_of_bytes l.mq_payload) (match nx with None -> "none" | Some z -> i z);
        incr step
      end) ops
  end else run_generic desc id ops out
let registered = Registry.register "Lmbap" run
let coq_layer (l : mbap) = Printf.sprintf "(mkMbap %s %s %s %s %s %s %s %s %s)" (coq_zlist l.mq_contents) (coq_zlist l.mq_payload) (coq_z l.mq_tid) (coq_z l.mq_pid) (coq_z l.mq_length)
  (coq_z l.mq_unit) (coq_z l.mq_fc) (coq_bool l.mq_exc) (coq_zlist l.mq_reqresp)
let registered_coq = Registry.register_coq "Lmbap" ("From GP Require Import Base LmbapModel.\n",
  Lsmallutil.to_coq_generic { Lsmallutil.cd = desc; coq_layer; g_dec = "mq_decode_into"; g_fresh = "mq_fresh"; g_ser = ""; g_rp = "mq_render_panics" })
