(* Lospf runner: OSPF model (coq/Model/LospfModel.v) on the ops of harness/cmd/gpverif/lospf.go *)
open Util
open Lmiscutil
open LospfModel

let rec cv (c : cval) = match c with
  | CNil -> "nil"
  | CN n -> i n
  | CB b -> "x" ^ hex_of_bytes b
  | CL l -> "[" ^ String.concat "," (Stdlib.List.map cv l) ^ "]"
let fields (l : ospf) = Printf.sprintf "ver=%s;type=%s;plen=%s;rid=%s;aid=%s;csum=%s;au=%s;auth=%s;inst=%s;rsv=%s;content=%s"
  (i l.os_version) (i l.os_type) (i l.os_plen) (i l.os_rid) (i l.os_aid) (i l.os_csum) (i l.os_autype) (hex_of_z l.os_auth)
  (i l.os_inst) (i l.os_rsv) (cv l.os_content)
let variant = try Sys.getenv "VERIF_LOSPF_VARIANT" with Not_found -> "fixed"
let desc v3 = { fresh = os_fresh;
  decode = (match v3, variant = "orig" with
            | false, false -> os2_decode_into | false, true -> os2_decode_into_orig
            | true, false -> os3_decode_into | true, true -> os3_decode_into_orig);
  serialize = None; fields;
  contents = (fun l -> l.os_contents); payload = (fun l -> l.os_payload); next = (fun _ l -> i (os_next l));
  render_panics = os_render_panics; of_spec = (fun _ -> failwith "ospf: no spec"); junk_len = 0 }
let run id ops out = run_generic (desc (Stdlib.List.mem "G:3" ops)) id ops out
let registered = Registry.register "Lospf" run
let rec coq_cv (c : cval) = match c with
  | CNil -> "CNil" | CN n -> "(CN " ^ coq_z n ^ ")" | CB b -> "(CB " ^ coq_zlist b ^ ")" | CL l -> "(CL " ^ coq_list coq_cv l ^ ")"
let coq_os (l : ospf) = Printf.sprintf "(mkOs %s %s %s %s %s %s %s %s %s %s %s %s %s)" (coq_zlist l.os_contents) (coq_zlist l.os_payload) (coq_z l.os_version)
  (coq_z l.os_type) (coq_z l.os_plen) (coq_z l.os_rid) (coq_z l.os_aid) (coq_z l.os_csum) (coq_z l.os_autype) (coq_z l.os_auth) (coq_z l.os_inst) (coq_z l.os_rsv)
  (coq_cv l.os_content)
let registered_coq = Registry.register_coq "Lospf" ("From GP Require Import Base LospfModel.\n",
  Lmidutil.to_coq_dec ~fresh_name:"os_fresh" ~dec_name:(fun ops -> if Stdlib.List.mem "G:3" ops then "os3_decode_into" else "os2_decode_into") ~pr:coq_os
    ~decode:(fun ops -> if Stdlib.List.mem "G:3" ops then os3_decode_into else os2_decode_into) ~fresh:os_fresh)
