(* Generic op interpreter shared by the small layer sub-checks of agent lmisc: the per-layer file
   supplies closures over the extracted model; op syntax and observation lines as in
   harness/cmd/gpverif/lmisc_common.go. *)
open Util

let i z = string_of_int (int_of_z z)
let b01 b = if b then "1" else "0"
let cls_of (o : 'a Base.outcome) = match o with Base.Ok _ -> "ok" | Base.Err _ -> "err" | Base.Panic _ -> "panic"
let rec zrep v n = if n <= 0 then [] else z_of_int v :: zrep v (n - 1)
let junk_of d n = zrep (if d = 1 then 0xAA else 0) n
let zi s = z_of_int (int_of_string s)

type 'l desc = {
  fresh : 'l;
  decode : 'l -> BinNums.coq_Z list -> ('l * unit Base.outcome) * bool;
  serialize : ('l -> BinNums.coq_Z list -> bool -> bool -> BinNums.coq_Z list -> BinNums.coq_Z list Base.outcome * 'l) option;
  fields : 'l -> string;
  contents : 'l -> BinNums.coq_Z list;
  payload : 'l -> BinNums.coq_Z list;
  next : string -> 'l -> string;   (* decode class -> layer -> next id *)
  render_panics : 'l -> bool;
  of_spec : string -> 'l;
  junk_len : int;
}

let obs d cls tr l =
  Printf.sprintf "cls=%s;tr=%s;%s;c=%s;p=%s;next=%s;render=%s" cls (b01 tr) (d.fields l)
    (hex_of_bytes (d.contents l)) (hex_of_bytes (d.payload l)) (d.next cls l) (if d.render_panics l then "panic" else "ok")

let run_generic (d : 'l desc) (id : string) (ops : string list) (out : out_channel) =
  let step = ref 0 in
  let emit s = Printf.fprintf out "%s\t%d\t%s\n" id !step s; incr step in
  let ser () = match d.serialize with Some f -> f | None -> failwith "no serialize" in
  Stdlib.List.iter (fun op ->
    let k = String.index op ':' in
    let name = String.sub op 0 k and args = split_on ',' (String.sub op (k + 1) (String.length op - k - 1)) in
    match name, args with
    | "tag", _ -> ()
    | "G", _ -> ()
    | "dec", [h] -> let ((l, o), tr) = d.decode d.fresh (bytes_of_hex h) in emit (obs d (cls_of o) tr l)
    | "dec2", [a; b] ->
      let ((l1, _), _) = d.decode d.fresh (bytes_of_hex a) in
      let ((l, o), tr) = d.decode l1 (bytes_of_hex b) in emit (obs d (cls_of o) tr l)
    | ("ser" | "new"), [h; fcd; p] ->
      let l0 = if name = "ser" then (let ((l, _), _) = d.decode d.fresh (bytes_of_hex h) in l) else d.of_spec h in
      let dk = Char.code fcd.[2] - 48 in
      let (o, l1) = (ser ()) l0 (bytes_of_hex p) (fcd.[0] = '1') (fcd.[1] = '1') (junk_of dk d.junk_len) in
      let outb = match o with Base.Ok b -> hex_of_bytes b | _ -> "" in
      emit (Printf.sprintf "cls=%s;out=%s;%s" (cls_of o) outb (d.fields l1))
    | ("rt" | "rtn"), [h; p] ->
      let first = if name = "rt" then (let ((l, o), _) = d.decode d.fresh (bytes_of_hex h) in (l, cls_of o)) else (d.of_spec h, "ok") in
      (match first with
       | (l, "ok") ->
         let (so, _) = (ser ()) l (bytes_of_hex p) true true (junk_of 0 d.junk_len) in
         (match so with
          | Base.Ok b -> let ((l2, o2), tr2) = d.decode d.fresh b in emit (obs d (cls_of o2) tr2 l2)
          | _ -> emit ("ser=" ^ cls_of so))
       | (_, c) -> emit ("first=" ^ c))
    | _ -> failwith ("lmisc op: " ^ op)) ops
