(* Lmpls runner: MPLS codec model (coq/Model/LmplsModel.v) on the ops of harness/cmd/gpverif/lmpls.go *)
open Util
open Lmiscutil
open LmplsModel

let fields (l : mpls) = Printf.sprintf "label=%s;tc=%s;s=%s;ttl=%s" (i l.m_label) (i l.m_tc) (b01 l.m_bottom) (i l.m_ttl)
let of_spec s = match split_on '.' s with
  | [lb; tc; b; ttl] -> { m_contents = []; m_payload = []; m_label = zi lb; m_tc = zi tc; m_bottom = (b = "1"); m_ttl = zi ttl }
  | _ -> failwith "mpls spec"
let desc = { fresh = mpls_fresh; decode = (fun _ d -> mpls_decode d); serialize = Some mpls_serialize; fields;
  contents = (fun l -> l.m_contents); payload = (fun l -> l.m_payload);
  next = (fun cls l -> if cls <> "ok" then "none" else if int_of_z (mpls_next l) = 1 then "guess" else "mpls");
  render_panics = mpls_render_panics; of_spec; junk_len = 8 }
let run id ops out = match ops with
  | [op] when String.length op >= 6 && String.sub op 0 6 = "guess:" ->
    let h = String.sub op 6 (String.length op - 6) in
    let r = match mpls_guess (bytes_of_hex h) with Base.Ok _ -> "ip" | Base.Err _ -> "unknown" | Base.Panic _ -> "panic" in
    Printf.fprintf out "%s\t0\tguess=%s\n" id r
  | _ -> run_generic desc id ops out
let registered = Registry.register "Lmpls" run
