(* Licmp6mld runner: MLDv1/MLDv2 message models (coq/Model/LmldModel.v) on the ops of harness/cmd/gpverif/licmp6mld.go *)
open Util
open Lmiscutil
open LmldModel
let hd s = if s = "-" then [] else bytes_of_hex s
let ips sep l = String.concat sep (Stdlib.List.map hex_of_bytes l)
let ips_of sep s = if s = "-" then [] else Stdlib.List.map hd (split_on sep s)
let v1desc kind = { fresh = m1_fresh; decode = m1_decode_gen false (z_of_int kind); serialize = Some m1_serialize;
  fields = (fun l -> Printf.sprintf "delay=%s;addr=%s" (i l.m1_delay) (hex_of_bytes l.m1_addr));
  contents = (fun l -> l.m1_contents); payload = (fun l -> l.m1_payload); next = (fun _ _ -> "zero"); render_panics = (fun _ -> mld_render_panics);
  of_spec = (fun s -> match split_on '.' s with
    | [d; a] -> { m1_contents = []; m1_payload = []; m1_delay = zi d; m1_addr = hd a }
    | _ -> failwith "mld1 spec"); junk_len = 20 }
let qdesc = { fresh = mq_fresh; decode = mq_decode_into; serialize = Some mq_serialize;
  fields = (fun l -> Printf.sprintf "mrc=%s;addr=%s;s=%s;qrv=%s;qqic=%s;n=%s;ns=%d;srcs=%s" (i l.q_mrc) (hex_of_bytes l.q_addr) (b01 l.q_s) (i l.q_qrv) (i l.q_qqic) (i l.q_n)
    (Stdlib.List.length l.q_srcs) (ips "|" l.q_srcs));
  contents = (fun l -> l.q_contents); payload = (fun l -> l.q_payload); next = (fun _ _ -> "zero"); render_panics = (fun _ -> mld_render_panics);
  of_spec = (fun s -> match split_on '.' s with
    | [m; a; sf; qrv; qq; n; srcs] -> { q_contents = []; q_payload = []; q_mrc = zi m; q_addr = hd a; q_s = (sf = "1"); q_qrv = zi qrv; q_qqic = zi qq; q_n = zi n; q_srcs = ips_of '+' srcs }
    | _ -> failwith "mld2q spec"); junk_len = 24 }
let rdesc = { fresh = mr_fresh; decode = mr_decode_into; serialize = Some mr_serialize;
  fields = (fun l -> Printf.sprintf "n=%s;nr=%d;recs=%s" (i l.mr_n) (Stdlib.List.length l.mr_recs)
    (String.concat "|" (Stdlib.List.map (fun r -> Printf.sprintf "%s.%s.%s.%s.%d.%s.%s" (i r.r_type) (i r.r_auxlen) (i r.r_n) (hex_of_bytes r.r_addr) (Stdlib.List.length r.r_srcs)
      (ips "+" r.r_srcs) (hex_of_bytes r.r_aux)) l.mr_recs)));
  contents = (fun l -> l.mr_contents); payload = (fun l -> l.mr_payload); next = (fun _ _ -> "payload"); render_panics = (fun _ -> mld_render_panics);
  of_spec = (fun s -> match split_on '.' s with
    | [n; recs] -> { mr_contents = []; mr_payload = []; mr_n = zi n;
        mr_recs = (if recs = "-" then [] else Stdlib.List.map (fun r -> match split_on '~' r with
          | [t; al; ns; a; srcs; aux] -> { r_type = zi t; r_auxlen = zi al; r_n = zi ns; r_addr = hd a; r_srcs = ips_of '+' srcs; r_aux = hd aux }
          | _ -> failwith "mld2r rec spec") (split_on '/' recs)) }
    | _ -> failwith "mld2r spec"); junk_len = 24 }
let run id ops out = match ops with
  | "L:q1" :: rest -> run_generic (v1desc 0) id rest out
  | "L:r1" :: rest -> run_generic (v1desc 1) id rest out
  | "L:d1" :: rest -> run_generic (v1desc 2) id rest out
  | "L:q2" :: rest -> run_generic qdesc id rest out
  | "L:r2" :: rest -> run_generic rdesc id rest out
  | _ -> failwith "Licmp6mld: first op must be L:q1 L:r1 L:d1 L:q2 L:r2"
let registered = Registry.register "Licmp6mld" run
