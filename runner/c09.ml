(* C09 runner: parses the segment/flush script, runs the extracted half-connection model.
   ops:  cfg:mpc,mt   keep:m,x,m,x,...   seg:seq,flags,ts,hex   fwo:t,tc   fco:t   fall
         s:hex  isn:n  (sender stream / ISN: used by the Go oracle only, ignored here)
   flags: 1 SYN, 2 FIN, 4 RST, 8 Accept forces *start.
   The variant of the code that is modelled (which repairs are in) defaults to the repaired
   one; C09_VARIANT=dfky (four 0/1 digits: Difference, FIN, KeepFrom-skip, late SYN) overrides it. *)
open Util

let variant =
  match Sys.getenv_opt "C09_VARIANT" with
  | Some s when String.length s = 4 -> (s.[0] = '1', s.[1] = '1', s.[2] = '1', s.[3] = '1')
  | _ -> (true, true, true, true)

let zi s = z_of_int (int_of_string s)

let rec pairs = function
  | m :: x :: t -> (zi m, zi x) :: pairs t
  | _ -> []

let parse_op (s : string) : C09Model.op option =
  match split_on ':' s with
  | ["cfg"; a] -> (match split_on ',' a with
      | [p; q] -> Some (C09Model.OCfg (zi p, zi q)) | _ -> failwith "cfg")
  | ["keep"; a] -> Some (C09Model.OKeep (pairs (split_on ',' a)))
  | ["keep"] -> Some (C09Model.OKeep [])
  | ["seg"; a] -> (match split_on ',' a with
      | [sq; fl; ts; h] ->
        let f = int_of_string fl in
        Some (C09Model.OSeg { C09Model.g_seq = zi sq; g_syn = f land 1 <> 0; g_fin = f land 2 <> 0;
                              g_rst = f land 4 <> 0; g_force = f land 8 <> 0; g_ts = zi ts;
                              g_bytes = bytes_of_hex h })
      | _ -> failwith "seg")
  | ["fwo"; a] -> (match split_on ',' a with
      | [t; tc] -> Some (C09Model.OFlush (zi t, zi tc)) | _ -> failwith "fwo")
  | ["fco"; t] -> Some (C09Model.OFlush (zi t, zi t))
  | ["fall"] -> Some C09Model.OFlushAll
  | "s" :: _ | "isn" :: _ -> None
  | _ -> failwith ("c09 op: " ^ s)

let tag_name = function
  | 1 -> "overlap-case-1" | 2 -> "overlap-case-2" | 3 -> "overlap-case-3" | 4 -> "overlap-case-4"
  | 5 -> "overlap-case-5" | 6 -> "overlap-case-6" | 10 -> "out-of-order-queue" | 11 -> "duplicate-drop"
  | 12 -> "limit-flush" | 13 -> "age-flush" | 14 -> "keep-from" | 15 -> "multi-page"
  | 16 -> "saved-dropped" | 17 -> "forced-start" | 18 -> "late-syn" | n -> "tag-" ^ string_of_int n

let b2i b = if b then 1 else 0

let run (id : string) (ops : string list) (out : out_channel) =
  (* ops that the model ignores still count as steps (empty observation), to keep step numbers aligned *)
  let parsed = Stdlib.List.map parse_op ops in
  let (d, f, k, y) = variant in
  let mops = Stdlib.List.filter_map (fun x -> x) parsed in
  let tr = ref (C09Model.run_variant d f k y mops) in
  let tags = Hashtbl.create 8 in
  let stopped = ref false in
  Stdlib.List.iteri (fun i po ->
    if not !stopped then
    match po with
    | None -> Printf.fprintf out "%s\t%d\tev=-;used=-\n" id i
    | Some _ ->
      (match !tr with
       | [] -> stopped := true
       | (evs, used) :: rest ->
         tr := rest;
         let buf = Buffer.create 64 in
         let first = ref true in
         let add s = (if not !first then Buffer.add_char buf '|'); first := false; Buffer.add_string buf s in
         Stdlib.List.iter (fun (e : C09Model.event) ->
           match e with
           | C09Model.ENew sid -> add (Printf.sprintf "new/%d" (int_of_nat sid))
           | C09Model.ESG (sid, bytes, st, en, skip, avail, saved) ->
             add (Printf.sprintf "sg/%d/%s/%d/%d/%d/%d/%d" (int_of_nat sid) (hex_of_bytes bytes)
                    (b2i st) (b2i en) (int_of_z skip) (int_of_z avail) (int_of_z saved))
           | C09Model.EDone sid -> add (Printf.sprintf "done/%d" (int_of_nat sid))
           | C09Model.EPanic _ -> add "panic"; stopped := true
           | C09Model.ETag t -> Hashtbl.replace tags (tag_name (int_of_z t)) ()) evs;
         if !first then Buffer.add_char buf '-';
         if !stopped then Printf.fprintf out "%s\t%d\tev=%s;used=-\n" id i (Buffer.contents buf)
         else Printf.fprintf out "%s\t%d\tev=%s;used=%d\n" id i (Buffer.contents buf) (int_of_z used))) parsed;
  let tl = Hashtbl.fold (fun k () acc -> k :: acc) tags [] in
  if tl <> [] then
    Printf.fprintf out "%s\ttags\t%s\n" id (String.concat "," (Stdlib.List.sort compare tl))

let registered = Registry.register "C09" run
