(* C09 runner: parses the segment/flush script, runs the extracted half-connection model.
   ops:  cfg:mpc,mt   keep:m,x,m,x,...   seg:seq,flags,ts,hex   fwo:t,tc   fco:t   fall
         s:hex  isn:n  (sender stream / ISN: used by the Go oracle only, ignored here)
   flags: 1 SYN, 2 FIN, 4 RST, 8 Accept forces *start.
   The variant of the code that is modelled (which repairs are in) defaults to the repaired
   one; C09_VARIANT=dfky or dfkyab (0/1 digits: Difference, FIN, KeepFrom-skip, late SYN, and the two C11
   page-accounting repairs: saved pages released at close, saved pages counted in half.pages) overrides it. *)
open Util

let variant =
  match Sys.getenv_opt "C09_VARIANT" with
  | Some s when String.length s = 6 -> (s.[0] = '1', s.[1] = '1', s.[2] = '1', s.[3] = '1', s.[4] = '1', s.[5] = '1')
  | Some s when String.length s = 4 -> (s.[0] = '1', s.[1] = '1', s.[2] = '1', s.[3] = '1', false, false)
  | _ -> (true, true, true, true, true, true)   (* the repository as it stands: all six repairs (fullv) *)

let zi s = z_of_int (int_of_string s)

let rec pairs = function
  | m :: x :: t -> (zi m, zi x) :: pairs t
  | _ -> []

let parse_op (s : string) : C09Model.op option =
  match split_on ':' s with
  | ["cfg"; a] -> (match split_on ',' a with
      | [p; q] -> Some (C09Model.OCfg (zi p, zi q)) | _ -> failwith "cfg")
  | ["keep"; a] -> Some (C09Model.OKeep (pairs (split_on ',' a)))
  | ["keep"] -> Some (C09Model.OKeep [])
  | ["seg"; a] -> (match split_on ',' a with
      | [sq; fl; ts; h] ->
        let f = int_of_string fl in
        Some (C09Model.OSeg { C09Model.g_seq = zi sq; g_syn = f land 1 <> 0; g_fin = f land 2 <> 0;
                              g_rst = f land 4 <> 0; g_force = f land 8 <> 0; g_ts = zi ts;
                              g_bytes = bytes_of_hex h })
      | _ -> failwith "seg")
  | ["fwo"; a] -> (match split_on ',' a with
      | [t; tc] -> Some (C09Model.OFlush (zi t, zi tc)) | _ -> failwith "fwo")
  | ["fco"; t] -> Some (C09Model.OFlush (zi t, zi t))
  | ["fall"] -> Some C09Model.OFlushAll
  | "s" :: _ | "isn" :: _ -> None
  | _ -> failwith ("c09 op: " ^ s)

let tag_name = function
  | 1 -> "overlap-case-1" | 2 -> "overlap-case-2" | 3 -> "overlap-case-3" | 4 -> "overlap-case-4"
  | 5 -> "overlap-case-5" | 6 -> "overlap-case-6" | 10 -> "out-of-order-queue" | 11 -> "duplicate-drop"
  | 12 -> "limit-flush" | 13 -> "age-flush" | 14 -> "keep-from" | 15 -> "multi-page"
  | 16 -> "saved-dropped" | 17 -> "forced-start" | 18 -> "late-syn" | n -> "tag-" ^ string_of_int n

let b2i b = if b then 1 else 0

(* the stream statement (Model/C09Spec.v, C09_stream_statement) evaluated on a case: the
   history is rebuilt with ghost offsets from s: and isn:, checked to map back to the very ops,
   and the verdict of hist_okb is returned together with its arguments when it was evaluated *)
let spec_eval (ops : string list) (mops : C09Model.op list) : string * (BinNums.coq_Z list * BinNums.coq_Z * C09Spec.hop list) option =
  let (d, f, k, y, va, vb) = variant in
  let sarg = Stdlib.List.fold_left (fun acc o -> match split_on ':' o with ["s"; h] -> Some h | ["s"] -> Some "" | _ -> acc) None ops in
  let iarg = Stdlib.List.fold_left (fun acc o -> match split_on ':' o with ["isn"; n] -> Some (int_of_string n) | _ -> acc) None ops in
    match sarg, iarg with
    | Some sh, Some isn ->
      let sbytes = bytes_of_hex sh in
      let slen = String.length sh / 2 in
      let hop_of (o : string) : C09Spec.hop option option =   (* None: not expressible; Some None: ignored op *)
        match split_on ':' o with
        | ["cfg"; a] -> (match split_on ',' a with [p; q] -> Some (Some (C09Spec.HCfg (zi p, zi q))) | _ -> None)
        | ["keep"; a] -> Some (Some (C09Spec.HKeep (pairs (split_on ',' a))))
        | ["keep"] -> Some (Some (C09Spec.HKeep []))
        | ["fwo"; a] -> (match split_on ',' a with [t; tc] -> Some (Some (C09Spec.HFlush (zi t, zi tc))) | _ -> None)
        | ["fco"; t] -> Some (Some (C09Spec.HFlush (zi t, zi t)))
        | ["fall"] -> Some (Some C09Spec.HFlushAll)
        | "s" :: _ | "isn" :: _ -> Some None
        | ["seg"; a] -> (match split_on ',' a with
            | [sq; fl; ts; h] ->
              let f = int_of_string fl and n = String.length h / 2 in
              if f land 8 <> 0 then None
              else if f land 1 <> 0 then
                (if f land 6 <> 0 then None else Some (Some (C09Spec.HSyn (z_of_int n, zi ts))))
              else
                let d = (int_of_string sq - isn - 1) land 0xFFFFFFFF in
                let d = if d >= 0x80000000 then d - 0x100000000 else d in
                if d < 0 || d + n > slen then None
                else Some (Some (C09Spec.HData (z_of_int d, z_of_int n, f land 2 <> 0, f land 4 <> 0, zi ts)))
            | _ -> None)
        | _ -> None in
      let hs = Stdlib.List.map hop_of ops in
      if Stdlib.List.exists (fun x -> x = None) hs then ("ok", None)
      else begin
        let hops = Stdlib.List.filter_map (fun x -> match x with Some (Some h) -> Some h | _ -> None) hs in
        let back = Stdlib.List.map (C09Spec.op_of sbytes (z_of_int isn)) hops in
        if back <> mops then ("ok", None)   (* not a consistent history of (S, isn): statement does not apply *)
        else ((if C09Spec.hist_ok_variant d f k y va vb sbytes (z_of_int isn) hops then "ok" else "FAIL"), Some (sbytes, z_of_int isn, hops))
      end
    | _ -> ("ok", None)

let run (id : string) (ops : string list) (out : out_channel) =
  (* ops that the model ignores still count as steps (empty observation), to keep step numbers aligned *)
  let parsed = Stdlib.List.map parse_op ops in
  let (d, f, k, y, va, vb) = variant in
  let mops = Stdlib.List.filter_map (fun x -> x) parsed in
  let tr = ref (C09Model.run_variant d f k y va vb mops) in
  let tags = Hashtbl.create 8 in
  let stopped = ref false in
  let nprinted = ref 0 in
  Stdlib.List.iteri (fun i po ->
    if not !stopped then
    match po with
    | None -> incr nprinted; Printf.fprintf out "%s\t%d\tev=-;used=-\n" id i
    | Some _ ->
      (match !tr with
       | [] -> stopped := true
       | (evs, used) :: rest ->
         tr := rest;
         let buf = Buffer.create 64 in
         let first = ref true in
         let add s = (if not !first then Buffer.add_char buf '|'); first := false; Buffer.add_string buf s in
         Stdlib.List.iter (fun (e : C09Model.event) ->
           match e with
           | C09Model.ENew sid -> add (Printf.sprintf "new/%d" (int_of_nat sid))
           | C09Model.ESG (sid, bytes, st, en, skip, avail, saved) ->
             add (Printf.sprintf "sg/%d/%s/%d/%d/%d/%d/%d" (int_of_nat sid) (hex_of_bytes bytes)
                    (b2i st) (b2i en) (int_of_z skip) (int_of_z avail) (int_of_z saved))
           | C09Model.EDone sid -> add (Printf.sprintf "done/%d" (int_of_nat sid))
           | C09Model.EPanic _ -> add "panic"; stopped := true
           | C09Model.ETag t -> Hashtbl.replace tags (tag_name (int_of_z t)) ()) evs;
         if !first then Buffer.add_char buf '-';
         incr nprinted;
         if !stopped then Printf.fprintf out "%s\t%d\tev=%s;used=-\n" id i (Buffer.contents buf)
         else Printf.fprintf out "%s\t%d\tev=%s;used=%d\n" id i (Buffer.contents buf) (int_of_z used))) parsed;
  (* the verdict of the stream statement is printed as the last observation (the harness prints spec=ok) *)
  let (verdict, _) = spec_eval ops mops in
  Printf.fprintf out "%s\t%d\tspec=%s\n" id !nprinted verdict;
  let tl = Hashtbl.fold (fun k () acc -> k :: acc) tags [] in
  if tl <> [] then
    Printf.fprintf out "%s\ttags\t%s\n" id (String.concat "," (Stdlib.List.sort compare tl))

let registered = Registry.register "C09" run

(* ---- extraction cross-check inside Coq (see c18.ml): run_variant (with the variant this runner
   used) on the case's model ops, and hist_ok_variant when the stream statement was evaluated,
   recomputed by vm_compute and compared with what this extracted runner computed. *)
let coq_seg (g : C09Model.segment) =
  Printf.sprintf "(mkSeg %s %s %s %s %s %s %s)" (coq_z g.C09Model.g_seq) (coq_bool g.C09Model.g_syn) (coq_bool g.C09Model.g_fin)
    (coq_bool g.C09Model.g_rst) (coq_bool g.C09Model.g_force) (coq_z g.C09Model.g_ts) (coq_zlist g.C09Model.g_bytes)
let coq_op (o : C09Model.op) = match o with
  | C09Model.OCfg (a, b) -> Printf.sprintf "OCfg %s %s" (coq_z a) (coq_z b)
  | C09Model.OKeep k -> "OKeep " ^ coq_list (coq_pair coq_z coq_z) k
  | C09Model.OSeg g -> "OSeg " ^ coq_seg g
  | C09Model.OFlush (t, tc) -> Printf.sprintf "OFlush %s %s" (coq_z t) (coq_z tc)
  | C09Model.OFlushAll -> "OFlushAll"
let coq_event (e : C09Model.event) = match e with
  | C09Model.ENew sid -> "ENew " ^ coq_nat sid
  | C09Model.ESG (sid, bytes, st, en, skip, avail, saved) ->
    Printf.sprintf "ESG %s %s %s %s %s %s %s" (coq_nat sid) (coq_zlist bytes) (coq_bool st) (coq_bool en) (coq_z skip) (coq_z avail) (coq_z saved)
  | C09Model.EDone sid -> "EDone " ^ coq_nat sid
  | C09Model.EPanic s -> "EPanic " ^ coq_z s
  | C09Model.ETag t -> "ETag " ^ coq_z t
let coq_hop (h : C09Spec.hop) = match h with
  | C09Spec.HCfg (a, b) -> Printf.sprintf "HCfg %s %s" (coq_z a) (coq_z b)
  | C09Spec.HKeep k -> "HKeep " ^ coq_list (coq_pair coq_z coq_z) k
  | C09Spec.HSyn (n, ts) -> Printf.sprintf "HSyn %s %s" (coq_z n) (coq_z ts)
  | C09Spec.HData (o, n, fin, rst, ts) -> Printf.sprintf "HData %s %s %s %s %s" (coq_z o) (coq_z n) (coq_bool fin) (coq_bool rst) (coq_z ts)
  | C09Spec.HFlush (t, tc) -> Printf.sprintf "HFlush %s %s" (coq_z t) (coq_z tc)
  | C09Spec.HFlushAll -> "HFlushAll"
let to_coq (idx : int) (ops : string list) (out : out_channel) =
  let mops = Stdlib.List.filter_map parse_op ops in
  let (d, f, k, y, va, vb) = variant in
  let vs = String.concat " " (Stdlib.List.map coq_bool [d; f; k; y; va; vb]) in
  let nbytes = Stdlib.List.fold_left (fun a o -> match o with C09Model.OSeg g -> a + Stdlib.List.length g.C09Model.g_bytes | _ -> a) 0 mops in
  if nbytes <= 600 then begin
    let tr = C09Model.run_variant d f k y va vb mops in
    coq_example out idx (Printf.sprintf "run_variant %s %s" vs (coq_list coq_op mops))
      ("[" ^ String.concat ";\n     " (Stdlib.List.map (coq_pair (coq_list coq_event) coq_z) tr) ^ "]");
    match spec_eval ops mops with
    | (verdict, Some (sbytes, isn, hops)) ->
      coq_example_named out (Printf.sprintf "sample_%d_spec" idx)
        (Printf.sprintf "hist_ok_variant %s %s %s %s" vs (coq_zlist sbytes) (coq_z isn) (coq_list coq_hop hops))
        (coq_bool (verdict = "ok"))
    | _ -> ()
  end
let registered_coq = Registry.register_coq "C09" ("From GP Require Import Base C09Model C09Spec.\n", to_coq)
