(* Lraw runner: decodeIPv4or6 model (coq/Model/LrawModel.v) on the ops of harness/cmd/gpverif/lraw.go; the two IP decoders are
   the facts given with each op *)
open Util
open Lmiscutil
open LrawModel
let fact s = match split_on '~' s with
  | [cls; tr; n; first] ->
    let o = (match cls with "ok" -> Base.Ok () | "err" -> Base.Err (z_of_int 50) | _ -> Base.Panic (z_of_int 50)) in
    (((o, tr = "1"), z_of_int (int_of_string n)), first)
  | _ -> failwith ("raw fact: " ^ s)
let run id ops out =
  let step = ref 0 in
  Stdlib.List.iter (fun op ->
    if String.length op >= 5 && String.sub op 0 5 = "decf:" then begin
      match split_on ',' (String.sub op 5 (String.length op - 5)) with
      | [h; f4; f6] ->
        let (r4, first4) = fact f4 and (r6, first6) = fact f6 in
        let (((which, o), tr), n) = raw_decode (fun _ -> r4) (fun _ -> r6) (bytes_of_hex h) in
        let first = (match int_of_z which with 4 -> first4 | 6 -> first6 | _ -> "none") in
        Printf.fprintf out "%s\t%d\tcls=%s;tr=%s;n=%s;first=%s\n" id !step (cls_of o) (b01 tr) (i n) first;
        incr step
      | _ -> failwith ("raw op: " ^ op)
    end) ops
let registered = Registry.register "Lraw" run
