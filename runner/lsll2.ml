(* Lsll2 runner: Linux SLL2 decoder model on the ops of harness/cmd/gpverif/lsll.go *)
open Util
open Lmiscutil
open Lsll2Model
let fields (l : sll2) = Printf.sprintf "pr=%s;if=%s;hrd=%s;pt=%s;al=%s;addr=%s" (i l.s2_proto) (i l.s2_ifindex) (i l.s2_arphrd) (i l.s2_ptype) (i l.s2_alen) (hex_of_bytes l.s2_addr)
let next_str l = match int_of_z (sll2_next l) with 0 -> "zero" | 1 -> "radiotap" | 2 -> "ethernet" | 3 -> "llc" | k -> "e" ^ string_of_int (k - 1000)
let desc = { fresh = sll2_fresh; decode = sll2_decode_into; serialize = None; fields; contents = (fun l -> l.s2_contents); payload = (fun l -> l.s2_payload);
  next = (fun _ l -> next_str l); render_panics = sll2_render_panics; of_spec = (fun _ -> failwith "no spec"); junk_len = 0 }
let run id ops out = run_generic desc id ops out
let registered = Registry.register "Lsll2" run
