(* Lpktap runner: PKTAP v1 header decoder model on the ops of harness/cmd/gpverif/lsmall5.go *)
open Util
open Lmiscutil
open LpktapModel
let fields (l : pktap) = Printf.sprintf "hl=%s;rt=%s;dlt=%s;ifn=%s;fl=%s;pf=%s;llh=%s;llt=%s;pid=%s;cmd=%s;svc=%s;ift=%s;ifu=%s;epid=%s;ecmd=%s" (i l.pk_hl) (i l.pk_rt) (i l.pk_dlt)
  (hex_of_bytes l.pk_ifname) (i l.pk_flags) (i l.pk_pf) (i l.pk_llh) (i l.pk_llt) (i l.pk_pid) (hex_of_bytes l.pk_cmd) (i l.pk_svc) (i l.pk_iftype) (i l.pk_ifunit) (i l.pk_epid) (hex_of_bytes l.pk_ecmd)
let desc = { fresh = pk_fresh; decode = pk_decode_into; serialize = None; fields; contents = (fun l -> l.pk_contents); payload = (fun l -> l.pk_payload);
  next = (fun _ l -> i (pk_next l)); render_panics = pk_render_panics; of_spec = (fun _ -> failwith "no spec"); junk_len = 0 }
let run id ops out = run_generic desc id ops out
let registered = Registry.register "Lpktap" run
