(* Lcdp runner: CiscoDiscovery (header + raw TLVs) decoder model on the ops of harness/cmd/gpverif/lcdp.go *)
open Util
open Lmiscutil
open LcdpModel
let fields (l : cdp) = Printf.sprintf "v=%s;ttl=%s;ck=%s;nv=%d;vals=%s" (i l.cdp_ver) (i l.cdp_ttl) (i l.cdp_cks) (Stdlib.List.length l.cdp_vals)
  (String.concat "|" (Stdlib.List.map (fun v -> Printf.sprintf "%s.%s.%s" (i v.cv_type) (i v.cv_len) (hex_of_bytes v.cv_value)) l.cdp_vals))
let desc = { fresh = cdp_fresh; decode = (fun _ d -> cdp_decode d); serialize = None; fields; contents = (fun l -> l.cdp_contents); payload = (fun l -> l.cdp_payload);
  next = (fun cls _ -> if cls <> "ok" then "none" else "cdpinfo"); render_panics = cdp_render_panics; of_spec = (fun _ -> failwith "no spec"); junk_len = 0 }
let run id ops out = run_generic desc id ops out
let registered = Registry.register "Lcdp" run
