(* Ldot11data runner: see ldot11subutil.ml *)
let run = Ldot11subutil.run
let registered = Registry.register "Ldot11data" run
