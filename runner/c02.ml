(* C02 runner: the model's prediction for each op — the write-set of decoding and of every
   read-only accessor on the caller's / packet's buffer is empty (C02Model.writes_fixed), results
   do not depend on history. *)
open Util

let fault_of (buf : BinNums.coq_Z list) (o : C02Model.rop) : int =
  let s = { C02Model.buf = buf; C02Model.hl = Datatypes.O; C02Model.src = []; C02Model.dst = [] } in
  match C02Model.writes_fixed s o with [] -> 0 | _ -> 1

let rop_of = function
  | "layers" | "lookups" -> C02Model.RLayers | "string" | "gostring" | "layerstring" | "flows" -> C02Model.RString
  | "dump" -> C02Model.RDump | "verify" -> C02Model.RVerify | s -> failwith ("reader " ^ s)

let run (id : string) (ops : string list) (out : out_channel) =
  let bufs = ref [] in
  Stdlib.List.iteri (fun i s ->
    let line = match split_on ':' s with
      | ["pkt"; a] -> (match split_on ',' a with
          | [_; h] -> bufs := !bufs @ [bytes_of_hex h]; "ok"
          | [_] -> bufs := !bufs @ [[]]; "ok"
          | _ -> failwith "pkt")
      | ["dec"; _] -> "fault=0;same=1"   (* C02_input_untouched, C02_history_independent *)
      | ["read"; a] -> (match split_on ',' a with
          | [p; k] -> let b = Stdlib.List.nth !bufs (int_of_string p) in
            Printf.sprintf "fault=%d;same=1" (fault_of b (rop_of k))
          | _ -> failwith "read")
      | ["traffic"; _] -> "ok"
      | ["race"; _] -> "races=0"        (* C02_readers_race_free *)
      | ["conc"; _] -> "agree=1"         (* C02_readers_any_interleaving *)
      | _ -> failwith ("c02 op: " ^ s) in
    Printf.fprintf out "%s\t%d\t%s\n" id i line) ops

let registered = Registry.register "C02" run

(* ---- extraction cross-check inside Coq (see c18.ml): for every read: op, the write-set
   C02Model.writes_fixed predicts for that buffer, recomputed by vm_compute, must equal the one this
   extracted runner computed (the other ops have constant predictions and call no model function). *)
let coq_rop = function
  | C02Model.RLayers -> "RLayers" | C02Model.RString -> "RString" | C02Model.RDump -> "RDump" | C02Model.RVerify -> "RVerify"
let coq_loc = function
  | C02Model.LBuf i -> "LBuf " ^ coq_nat i | C02Model.LSrc -> "LSrc" | C02Model.LDst -> "LDst"
let to_coq (idx : int) (ops : string list) (out : out_channel) =
  let bufs = ref [] and k = ref 0 in
  Stdlib.List.iter (fun s ->
    match split_on ':' s with
    | ["pkt"; a] -> (match split_on ',' a with
        | [_; h] -> bufs := !bufs @ [bytes_of_hex h]
        | _ -> bufs := !bufs @ [[]])
    | ["read"; a] -> (match split_on ',' a with
        | [p; kind] ->
          let b = Stdlib.List.nth !bufs (int_of_string p) and o = rop_of kind in
          if Stdlib.List.length b <= 200 && !k < 3 then begin
            let sh = { C02Model.buf = b; C02Model.hl = Datatypes.O; C02Model.src = []; C02Model.dst = [] } in
            coq_example_named out (Printf.sprintf "sample_%d_%d" idx !k)
              (Printf.sprintf "writes_fixed {| buf := %s; hl := 0%%nat; src := []; dst := [] |} %s" (coq_zlist b) (coq_rop o))
              (coq_list (coq_pair coq_loc coq_z) (C02Model.writes_fixed sh o));
            incr k
          end
        | _ -> ())
    | _ -> ()) ops
let registered_coq = Registry.register_coq "C02" ("From GP Require Import Base C02Model.\n", to_coq)
