(* Lapsp runner: Andromeda PSP header codec model (coq/Model/LapspModel.v) on the ops of harness/cmd/gpverif/lapsp.go *)
open Util
open Lmiscutil
open LapspModel
let base (l : apsp) = Printf.sprintf "nh=%s;hel=%s;co=%s;sdv=%s;spi=%s;iv=%s;tok=%s;vk=%s;src=%s;dst=%s" (i l.ap_nh) (i l.ap_hel) (i l.ap_co) (i l.ap_sdv)
  (i l.ap_spi) (hex_of_z l.ap_iv) (i l.ap_tok) (i l.ap_vk) (hex_of_z l.ap_src) (hex_of_z l.ap_dst)
let fields (l : apsp) = base l ^ ";bc=" ^ hex_of_bytes l.ap_contents
let of_spec s = match split_on '.' s with
  | [nh; hel; co; sdv; spi; iv; tok; vk; src; dst] ->
    { ap_contents = []; ap_payload = []; ap_nh = zi nh; ap_hel = zi hel; ap_co = zi co; ap_sdv = zi sdv; ap_spi = zi spi; ap_iv = z_of_hex iv;
      ap_tok = zi tok; ap_vk = zi vk; ap_src = z_of_hex src; ap_dst = z_of_hex dst }
  | _ -> failwith "apsp spec"
(* LayerContents() re-encodes the fields *)
let desc = { fresh = ap_fresh; decode = ap_decode_into; serialize = Some ap_serialize; fields; contents = ap_hdr; payload = (fun l -> l.ap_payload);
  next = (fun _ _ -> "ip4"); render_panics = ap_render_panics; of_spec; junk_len = 64 }
let run id ops out = Lsmallutil.run_with_decf desc ap_decode_fn id ops out
let registered = Registry.register "Lapsp" run
let coq_layer (l : apsp) = Printf.sprintf "(mkAp %s %s %s %s %s %s %s %s %s %s %s %s)" (coq_zlist l.ap_contents) (coq_zlist l.ap_payload) (coq_z l.ap_nh) (coq_z l.ap_hel)
  (coq_z l.ap_co) (coq_z l.ap_sdv) (coq_z l.ap_spi) (coq_z l.ap_iv) (coq_z l.ap_tok) (coq_z l.ap_vk) (coq_z l.ap_src) (coq_z l.ap_dst)
let registered_coq = Registry.register_coq "Lapsp" ("From GP Require Import Base LapspModel.\n",
  Lsmallutil.to_coq_generic { Lsmallutil.cd = desc; coq_layer; g_dec = "ap_decode_into"; g_fresh = "ap_fresh"; g_ser = "ap_serialize"; g_rp = "ap_render_panics" })
