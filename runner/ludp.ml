(* Ludp runner: UDP codec model (coq/Model/LudpModel.v) on the ops of harness/cmd/gpverif/ludp.go *)
open Util
open LudpModel

let i z = string_of_int (int_of_z z)
let cls_of (o : 'a Base.outcome) = match o with Base.Ok _ -> "ok" | Base.Err _ -> "err" | Base.Panic _ -> "panic"

let fields (l : udp) = Printf.sprintf "sp=%s;dp=%s;len=%s;ck=%s" (i l.u_sport) (i l.u_dport) (i l.u_length) (i l.u_csum)

let obs kp (cls : string) (tr : bool) (l : udp) =
  Printf.sprintf "cls=%s;tr=%s;%s;c=%s;p=%s;flow=%s>%s;next=%s;render=%s" cls (if tr then "1" else "0") (fields l)
    (hex_of_bytes l.u_contents) (hex_of_bytes l.u_payload) (hex_of_bytes l.u_sp) (hex_of_bytes l.u_dp)
    (if int_of_z (udp_next kp l) = 0 then "d" else "s") (if udp_render_panics l then "panic" else "ok")

let rec zrep (v : int) (n : int) = if n <= 0 then [] else z_of_int v :: zrep v (n - 1)
let junk_of d = zrep (if d = 1 then 0xAA else 0) 16

let ph_of (s : string) : pseudo =
  match split_on ':' s with
  | ["4"; a; b] -> PH4 (bytes_of_hex a, bytes_of_hex b)
  | ["6"; a; b] -> PH6 (bytes_of_hex a, bytes_of_hex b)
  | _ -> PHnone

let lcg n seed =
  let x = ref (seed land 0xFFFFFFFF) in
  let rec go k acc = if k = 0 then Stdlib.List.rev acc else begin
    x := (!x * 1103515245 + 12345) land 0xFFFFFFFF;
    go (k - 1) (z_of_int ((!x lsr 16) land 255) :: acc) end in
  go n []

let run (id : string) (ops : string list) (out : out_channel) =
  let step = ref 0 in
  let kp = ref [] in
  let emit s = Printf.fprintf out "%s\t%d\t%s\n" id !step s; incr step in
  Stdlib.List.iter (fun op ->
    let k = String.index op ':' in
    let name = String.sub op 0 k and args = split_on ',' (String.sub op (k + 1) (String.length op - k - 1)) in
    match name, args with
    | "tag", _ -> ()
    | "kp", l -> kp := Stdlib.List.map (fun s -> z_of_int (int_of_string s)) (Stdlib.List.filter (fun s -> s <> "") l)
    | "dec", [h] ->
      let ((l, o), tr) = udp_decode_into udp_fresh (bytes_of_hex h) in emit (obs !kp (cls_of o) tr l)
    | "dec2", [a; b] ->
      let ((l, o), tr) = udp_dec2 (bytes_of_hex a) (bytes_of_hex b) in emit (obs !kp (cls_of o) tr l)
    | ("ser" | "new"), [h; fcd; p; ph] ->
      let l0 = if name = "ser" then (let ((l, _), _) = udp_decode_into udp_fresh (bytes_of_hex h) in l)
        else (match split_on '.' h with
          | [a; b; c; d] -> let z s = z_of_int (int_of_string s) in
            { u_contents = []; u_payload = []; u_sport = z a; u_dport = z b; u_length = z c; u_csum = z d; u_sp = []; u_dp = [] }
          | _ -> failwith "udp spec") in
      let d = Char.code fcd.[2] - 48 in
      let (o, l1) = udp_serialize l0 (bytes_of_hex p) (fcd.[0] = '1') (fcd.[1] = '1') (ph_of ph) (junk_of d) in
      let outb = match o with Base.Ok b -> hex_of_bytes b | _ -> "" in
      emit (Printf.sprintf "cls=%s;out=%s;%s" (cls_of o) outb (fields l1))
    | "bigser", [n; seed; fcd; ph] ->
      let n = int_of_string n in
      let payload = lcg n (int_of_string seed) in
      let l0 = { u_contents = []; u_payload = []; u_sport = z_of_int 0x1234; u_dport = z_of_int 53;
                 u_length = z_of_int ((n + 8) land 0xFFFF); u_csum = z_of_int 0; u_sp = []; u_dp = [] } in
      let d = Char.code fcd.[2] - 48 in
      let (o, l1) = udp_serialize l0 payload (fcd.[0] = '1') (fcd.[1] = '1') (ph_of ph) (junk_of d) in
      let (hdr, outlen) = match o with
        | Base.Ok b -> (hex_of_bytes (Stdlib.List.filteri (fun i _ -> i < 8) b), Stdlib.List.length b)
        | _ -> ("", 0) in
      emit (Printf.sprintf "cls=%s;hdr=%s;outlen=%d;%s" (cls_of o) hdr outlen (fields l1))
    | ("rt" | "big"), [x; y; ph] ->
      let (data, payload) = if name = "rt" then (bytes_of_hex x, bytes_of_hex y)
        else (bytes_of_hex "1234003500080000", lcg (int_of_string x) (int_of_string y)) in
      let ((l, o), _) = udp_decode_into udp_fresh data in
      (match o with
       | Base.Ok _ ->
         let (so, _) = udp_serialize l payload true true (ph_of ph) (junk_of 0) in
         (match so with
          | Base.Ok b ->
            let ((l2, o2), tr2) = udp_decode_into udp_fresh b in
            if name = "rt" then emit (obs !kp (cls_of o2) tr2 l2)
            else emit (Printf.sprintf "cls=%s;tr=%s;%s;plen=%d" (cls_of o2) (if tr2 then "1" else "0") (fields l2)
                         (Stdlib.List.length l2.u_payload))
          | _ -> emit ("ser=" ^ cls_of so))
       | _ -> emit ("first=" ^ cls_of o))
    | _ -> failwith ("ludp op: " ^ op)) ops

let registered = Registry.register "Ludp" run
