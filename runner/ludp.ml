(* Ludp runner: UDP codec model (coq/Model/LudpModel.v) on the ops of harness/cmd/gpverif/ludp.go *)
open Util
open LudpModel

let i z = string_of_int (int_of_z z)
let cls_of (o : 'a Base.outcome) = match o with Base.Ok _ -> "ok" | Base.Err _ -> "err" | Base.Panic _ -> "panic"

let fields (l : udp) = Printf.sprintf "sp=%s;dp=%s;len=%s;ck=%s" (i l.u_sport) (i l.u_dport) (i l.u_length) (i l.u_csum)

let obs kp (cls : string) (tr : bool) (l : udp) =
  Printf.sprintf "cls=%s;tr=%s;%s;c=%s;p=%s;flow=%s>%s;next=%s;render=%s" cls (if tr then "1" else "0") (fields l)
    (hex_of_bytes l.u_contents) (hex_of_bytes l.u_payload) (hex_of_bytes l.u_sp) (hex_of_bytes l.u_dp)
    (if int_of_z (udp_next kp l) = 0 then "d" else "s") (if udp_render_panics l then "panic" else "ok")

let rec zrep (v : int) (n : int) = if n <= 0 then [] else z_of_int v :: zrep v (n - 1)
let junk_of d = zrep (if d = 1 then 0xAA else 0) 16

let ph_of (s : string) : pseudo =
  match split_on ':' s with
  | ["4"; a; b] -> PH4 (bytes_of_hex a, bytes_of_hex b)
  | ["6"; a; b] -> PH6 (bytes_of_hex a, bytes_of_hex b)
  | _ -> PHnone

let lcg n seed =
  let x = ref (seed land 0xFFFFFFFF) in
  let rec go k acc = if k = 0 then Stdlib.List.rev acc else begin
    x := (!x * 1103515245 + 12345) land 0xFFFFFFFF;
    go (k - 1) (z_of_int ((!x lsr 16) land 255) :: acc) end in
  go n []

let run (id : string) (ops : string list) (out : out_channel) =
  let step = ref 0 in
  let kp = ref [] in
  let emit s = Printf.fprintf out "%s\t%d\t%s\n" id !step s; incr step in
  Stdlib.List.iter (fun op ->
    let k = String.index op ':' in
    let name = String.sub op 0 k and args = split_on ',' (String.sub op (k + 1) (String.length op - k - 1)) in
    match name, args with
    | "tag", _ -> ()
    | "kp", l -> kp := Stdlib.List.map (fun s -> z_of_int (int_of_string s)) (Stdlib.List.filter (fun s -> s <> "") l)
    | "dec", [h] ->
      let ((l, o), tr) = udp_decode_into udp_fresh (bytes_of_hex h) in emit (obs !kp (cls_of o) tr l)
    | "dec2", [a; b] ->
      let ((l, o), tr) = udp_dec2 (bytes_of_hex a) (bytes_of_hex b) in emit (obs !kp (cls_of o) tr l)
    | ("ser" | "new"), [h; fcd; p; ph] ->
      let l0 = if name = "ser" then (let ((l, _), _) = udp_decode_into udp_fresh (bytes_of_hex h) in l)
        else (match split_on '.' h with
          | [a; b; c; d] -> let z s = z_of_int (int_of_string s) in
            { u_contents = []; u_payload = []; u_sport = z a; u_dport = z b; u_length = z c; u_csum = z d; u_sp = []; u_dp = [] }
          | _ -> failwith "udp spec") in
      let d = Char.code fcd.[2] - 48 in
      let (o, l1) = udp_serialize l0 (bytes_of_hex p) (fcd.[0] = '1') (fcd.[1] = '1') (ph_of ph) (junk_of d) in
      let outb = match o with Base.Ok b -> hex_of_bytes b | _ -> "" in
      emit (Printf.sprintf "cls=%s;out=%s;%s" (cls_of o) outb (fields l1))
    | "bigser", [n; seed; fcd; ph] ->
      let n = int_of_string n in
      let payload = lcg n (int_of_string seed) in
      let l0 = { u_contents = []; u_payload = []; u_sport = z_of_int 0x1234; u_dport = z_of_int 53;
                 u_length = z_of_int ((n + 8) land 0xFFFF); u_csum = z_of_int 0; u_sp = []; u_dp = [] } in
      let d = Char.code fcd.[2] - 48 in
      let (o, l1) = udp_serialize l0 payload (fcd.[0] = '1') (fcd.[1] = '1') (ph_of ph) (junk_of d) in
      let (hdr, outlen) = match o with
        | Base.Ok b -> (hex_of_bytes (Stdlib.List.filteri (fun i _ -> i < 8) b), Stdlib.List.length b)
        | _ -> ("", 0) in
      emit (Printf.sprintf "cls=%s;hdr=%s;outlen=%d;%s" (cls_of o) hdr outlen (fields l1))
    | ("rt" | "big"), [x; y; ph] ->
      let (data, payload) = if name = "rt" then (bytes_of_hex x, bytes_of_hex y)
        else (bytes_of_hex "1234003500080000", lcg (int_of_string x) (int_of_string y)) in
      let ((l, o), _) = udp_decode_into udp_fresh data in
      (match o with
       | Base.Ok _ ->
         let (so, _) = udp_serialize l payload true true (ph_of ph) (junk_of 0) in
         (match so with
          | Base.Ok b ->
            let ((l2, o2), tr2) = udp_decode_into udp_fresh b in
            if name = "rt" then emit (obs !kp (cls_of o2) tr2 l2)
            else emit (Printf.sprintf "cls=%s;tr=%s;%s;plen=%d" (cls_of o2) (if tr2 then "1" else "0") (fields l2)
                         (Stdlib.List.length l2.u_payload))
          | _ -> emit ("ser=" ^ cls_of so))
       | _ -> emit ("first=" ^ cls_of o))
    | _ -> failwith ("ludp op: " ^ op)) ops

let registered = Registry.register "Ludp" run

(* ---- extraction cross-check inside Coq (see c18.ml): every model call this glue makes for the ops of a
   sampled case (decode with NextLayerType for the current known-port list and the renderer test,
   serialize), restated as a Gallina term and recomputed by vm_compute, must give the value the
   extracted code computed here.  (big: cases, whose payload comes from the glue's generator, are not restated.) *)
let coq_udp (l : udp) =
  Printf.sprintf "(mkUdp %s %s %s %s %s %s %s %s)" (coq_zlist l.u_contents) (coq_zlist l.u_payload) (coq_z l.u_sport) (coq_z l.u_dport)
    (coq_z l.u_length) (coq_z l.u_csum) (coq_zlist l.u_sp) (coq_zlist l.u_dp)
let coq_ph = function
  | PH4 (a, b) -> Printf.sprintf "(PH4 %s %s)" (coq_zlist a) (coq_zlist b)
  | PH6 (a, b) -> Printf.sprintf "(PH6 %s %s)" (coq_zlist a) (coq_zlist b)
  | PHnone -> "PHnone"
let coq_junk d = Printf.sprintf "(repeat %s 16%%nat)" (coq_z (z_of_int (if d = 1 then 0xAA else 0)))

let to_coq (idx : int) (ops : string list) (out : out_channel) =
  let n = ref 0 and kp = ref [] in
  let name () = incr n; Printf.sprintf "sample_%d_%d" idx !n in
  let small h = String.length h <= 300 in
  let ex_dec (call : string) (((l, o), tr) : (udp * unit Base.outcome) * bool) =
    coq_example_named out (name ()) (Printf.sprintf "(let r := %s in (r, udp_next %s (fst (fst r)), udp_render_panics (fst (fst r))))" call (coq_zlist !kp))
      (Printf.sprintf "(%s, %s, %s, %s, %s)" (coq_udp l) (coq_outcome coq_unit o) (coq_bool tr) (coq_z (udp_next !kp l)) (coq_bool (udp_render_panics l))) in
  let ex_ser (l0 : udp) (p : BinNums.coq_Z list) (f : bool) (c : bool) (ph : pseudo) (d : int) =
    let r = udp_serialize l0 p f c ph (junk_of d) in
    coq_example_named out (name ())
      (Printf.sprintf "udp_serialize %s %s %s %s %s %s" (coq_udp l0) (coq_zlist p) (coq_bool f) (coq_bool c) (coq_ph ph) (coq_junk d))
      (coq_pair (coq_outcome coq_zlist) coq_udp r); r in
  Stdlib.List.iter (fun op ->
    let k = String.index op ':' in
    let nm = String.sub op 0 k and args = split_on ',' (String.sub op (k + 1) (String.length op - k - 1)) in
    if nm = "kp" then kp := Stdlib.List.map (fun s -> z_of_int (int_of_string s)) (Stdlib.List.filter (fun s -> s <> "") args)
    else if !n < 6 then
    match nm, args with
    | "dec", [h] when small h ->
      let b = bytes_of_hex h in ex_dec ("udp_decode_into udp_fresh " ^ coq_zlist b) (udp_decode_into udp_fresh b)
    | "dec2", [a; b] when small a && small b ->
      let a = bytes_of_hex a and b = bytes_of_hex b in
      ex_dec (Printf.sprintf "udp_dec2 %s %s" (coq_zlist a) (coq_zlist b)) (udp_dec2 a b)
    | ("ser" | "new"), [h; fcd; p; ph] when small h && small p ->
      let l0 = if nm = "ser" then (let ((l, _), _) = udp_decode_into udp_fresh (bytes_of_hex h) in l)
        else (match split_on '.' h with
          | [a; b; c; d] -> let z s = z_of_int (int_of_string s) in
            { u_contents = []; u_payload = []; u_sport = z a; u_dport = z b; u_length = z c; u_csum = z d; u_sp = []; u_dp = [] }
          | _ -> failwith "udp spec") in
      ignore (ex_ser l0 (bytes_of_hex p) (fcd.[0] = '1') (fcd.[1] = '1') (ph_of ph) (Char.code fcd.[2] - 48))
    | "rt", [x; y; ph] when small x && small y ->
      let b = bytes_of_hex x in
      let ((l, o), _) as r = udp_decode_into udp_fresh b in
      ex_dec ("udp_decode_into udp_fresh " ^ coq_zlist b) r;
      (match o with
       | Base.Ok _ ->
         (match ex_ser l (bytes_of_hex y) true true (ph_of ph) 0 with
          | (Base.Ok b2, _) -> ex_dec ("udp_decode_into udp_fresh " ^ coq_zlist b2) (udp_decode_into udp_fresh b2)
          | _ -> ())
       | _ -> ())
    | _ -> ()) ops
let registered_coq = Registry.register_coq "Ludp" ("From GP Require Import Base LudpModel.\n", to_coq)
