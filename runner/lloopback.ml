(* Lloopback runner: loopback codec model (coq/Model/LloopbackModel.v) on the ops of harness/cmd/gpverif/lloopback.go *)
open Util
open Lmiscutil
open LloopbackModel

let fields (l : loopback) = Printf.sprintf "fam=%s" (i l.lo_family)
let desc = { fresh = lo_fresh; decode = lo_decode_into; serialize = Some lo_serialize; fields;
  contents = (fun l -> l.lo_contents); payload = (fun l -> l.lo_payload); next = (fun _ l -> i (lo_next l));
  render_panics = lo_render_panics; of_spec = (fun s -> { lo_contents = []; lo_payload = []; lo_family = zi s }); junk_len = 8 }
let run id ops out = run_generic desc id ops out
let registered = Registry.register "Lloopback" run
