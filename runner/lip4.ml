(* Lip4 runner: IPv4 codec model (coq/Model/Lip4Model.v) on the ops of harness/cmd/gpverif/lip4.go *)
open Util
open Lip4Model

let i z = string_of_int (int_of_z z)

let cls_of (o : 'a Base.outcome) = match o with Base.Ok _ -> "ok" | Base.Err _ -> "err" | Base.Panic _ -> "panic"

let opts_str (l : ip4) =
  String.concat "/" (Stdlib.List.map (fun o -> Printf.sprintf "%s-%s-%s" (i o.ot) (i o.ol) (hex_of_bytes o.od)) l.i4_opts)

let fields (l : ip4) =
  Printf.sprintf "ver=%s;ihl=%s;tos=%s;len=%s;id=%s;fl=%s;fo=%s;ttl=%s;pr=%s;ck=%s;src=%s;dst=%s;opts=%s;pad=%s"
    (i l.i4_version) (i l.i4_ihl) (i l.i4_tos) (i l.i4_length) (i l.i4_id) (i l.i4_flags) (i l.i4_frag) (i l.i4_ttl)
    (i l.i4_proto) (i l.i4_csum) (hex_of_bytes l.i4_src) (hex_of_bytes l.i4_dst) (opts_str l) (hex_of_bytes l.i4_padding)

let next_str (l : ip4) = let n = int_of_z (ip4_next l) in if n < 0 then "frag" else Printf.sprintf "p%d" n

let obs (cls : string) (tr : bool) (l : ip4) =
  Printf.sprintf "cls=%s;tr=%s;%s;c=%s;p=%s;next=%s;render=%s" cls (if tr then "1" else "0") (fields l)
    (hex_of_bytes l.i4_contents) (hex_of_bytes l.i4_payload) (next_str l) (if ip4_render_panics l then "panic" else "ok")

let rec zrep (v : int) (n : int) = if n <= 0 then [] else z_of_int v :: zrep v (n - 1)

let junk_of d = zrep (if d = 1 then 0xAA else 0) 300

let of_spec (spec : string) : ip4 =
  match split_on '.' spec with
  | [ver; ihl; tos; len; id; fl; fo; ttl; pr; ck; src; dst; pad; opts] ->
    let z s = z_of_int (int_of_string s) in
    let os = if opts = "" then [] else Stdlib.List.map (fun o ->
      match split_on '-' o with
      | [t; l; d] -> { ot = z t; ol = z l; od = bytes_of_hex d }
      | _ -> failwith "opt spec") (split_on '/' opts) in
    { i4_contents = []; i4_payload = []; i4_version = z ver; i4_ihl = z ihl; i4_tos = z tos; i4_length = z len;
      i4_id = z id; i4_flags = z fl; i4_frag = z fo; i4_ttl = z ttl; i4_proto = z pr; i4_csum = z ck;
      i4_src = bytes_of_hex src; i4_dst = bytes_of_hex dst; i4_opts = os; i4_padding = bytes_of_hex pad }
  | _ -> failwith "ip4 spec"

let lcg n seed =
  let x = ref (seed land 0xFFFFFFFF) in
  let rec go k acc = if k = 0 then Stdlib.List.rev acc else begin
    x := (!x * 1103515245 + 12345) land 0xFFFFFFFF;
    go (k - 1) (z_of_int ((!x lsr 16) land 255) :: acc) end in
  go n []

let run (id : string) (ops : string list) (out : out_channel) =
  let step = ref 0 in
  let emit s = Printf.fprintf out "%s\t%d\t%s\n" id !step s; incr step in
  Stdlib.List.iter (fun op ->
    let k = String.index op ':' in
    let name = String.sub op 0 k and args = split_on ',' (String.sub op (k + 1) (String.length op - k - 1)) in
    match name, args with
    | "tag", _ -> ()
    | "dec", [h] ->
      let ((l, o), tr) = ip4_decode_into ip4_fresh (bytes_of_hex h) in emit (obs (cls_of o) tr l)
    | "dec2", [a; b] ->
      let ((l, o), tr) = ip4_dec2 (bytes_of_hex a) (bytes_of_hex b) in emit (obs (cls_of o) tr l)
    | ("ser" | "new"), [h; fcd; p] ->
      let l0 = if name = "ser" then (let ((l, _), _) = ip4_decode_into ip4_fresh (bytes_of_hex h) in l) else of_spec h in
      let d = Char.code fcd.[2] - 48 in
      let (o, l1) = ip4_serialize l0 (bytes_of_hex p) (fcd.[0] = '1') (fcd.[1] = '1') (junk_of d) in
      let outb = match o with Base.Ok b -> hex_of_bytes b | _ -> "" in
      emit (Printf.sprintf "cls=%s;out=%s;%s" (cls_of o) outb (fields l1))
    | ("rt" | "bigrt" | "newrt"), (h :: rest) ->
      let payload = (match name, rest with
        | ("rt" | "newrt"), [p] -> bytes_of_hex p
        | _, [n; seed] -> lcg (int_of_string n) (int_of_string seed)
        | _ -> failwith "rt args") in
      let ((l, o), _) = if name = "newrt" then ((of_spec h, Base.Ok ()), false) else ip4_decode_into ip4_fresh (bytes_of_hex h) in
      (match o with
       | Base.Ok _ ->
         let (so, _) = ip4_serialize l payload true true (junk_of 0) in
         (match so with
          | Base.Ok b -> let ((l2, o2), tr2) = ip4_decode_into ip4_fresh b in
            if name <> "bigrt" then emit (obs (cls_of o2) tr2 l2)
            else emit (Printf.sprintf "cls=%s;tr=%s;%s;clen=%d;plen=%d" (cls_of o2) (if tr2 then "1" else "0") (fields l2)
                         (Stdlib.List.length l2.i4_contents) (Stdlib.List.length l2.i4_payload))
          | _ -> emit ("ser=" ^ cls_of so))
       | _ -> emit ("first=" ^ cls_of o))
    | _ -> failwith ("lip4 op: " ^ op)) ops

let registered = Registry.register "Lip4" run

(* ---- extraction cross-check inside Coq (see c18.ml): every model call this glue makes for the ops of a
   sampled case (decode with NextLayerType and the renderer test, serialize), restated as a Gallina
   term and recomputed by vm_compute, must give the value the extracted code computed here. *)
let coq_ip4 (l : ip4) =
  Printf.sprintf "(mkIp4 %s %s %s %s %s %s %s %s %s %s %s %s %s %s %s %s)" (coq_zlist l.i4_contents) (coq_zlist l.i4_payload)
    (coq_z l.i4_version) (coq_z l.i4_ihl) (coq_z l.i4_tos) (coq_z l.i4_length) (coq_z l.i4_id) (coq_z l.i4_flags) (coq_z l.i4_frag)
    (coq_z l.i4_ttl) (coq_z l.i4_proto) (coq_z l.i4_csum) (coq_zlist l.i4_src) (coq_zlist l.i4_dst)
    (coq_list (fun o -> Printf.sprintf "mkOpt %s %s %s" (coq_z o.ot) (coq_z o.ol) (coq_zlist o.od)) l.i4_opts) (coq_zlist l.i4_padding)
let coq_ounit (o : unit Base.outcome) = coq_outcome coq_unit o
let coq_junk d = Printf.sprintf "(repeat %s 300%%nat)" (coq_z (z_of_int (if d = 1 then 0xAA else 0)))

let to_coq (idx : int) (ops : string list) (out : out_channel) =
  let n = ref 0 in
  let name () = incr n; Printf.sprintf "sample_%d_%d" idx !n in
  let small h = String.length h <= 300 in
  (* a decode call together with what the glue reads from the decoded layer *)
  let ex_dec (call : string) (((l, o), tr) : (ip4 * unit Base.outcome) * bool) =
    coq_example_named out (name ()) (Printf.sprintf "(let r := %s in (r, ip4_next (fst (fst r)), ip4_render_panics (fst (fst r))))" call)
      (Printf.sprintf "(%s, %s, %s, %s, %s)" (coq_ip4 l) (coq_ounit o) (coq_bool tr) (coq_z (ip4_next l)) (coq_bool (ip4_render_panics l))) in
  let ex_ser (l0 : ip4) (p : BinNums.coq_Z list) (f : bool) (c : bool) (d : int) =
    let r = ip4_serialize l0 p f c (junk_of d) in
    coq_example_named out (name ()) (Printf.sprintf "ip4_serialize %s %s %s %s %s" (coq_ip4 l0) (coq_zlist p) (coq_bool f) (coq_bool c) (coq_junk d))
      (coq_pair (coq_outcome coq_zlist) coq_ip4 r); r in
  Stdlib.List.iter (fun op ->
    let k = String.index op ':' in
    let nm = String.sub op 0 k and args = split_on ',' (String.sub op (k + 1) (String.length op - k - 1)) in
    if !n < 6 then
    match nm, args with
    | "dec", [h] when small h ->
      let b = bytes_of_hex h in ex_dec ("ip4_decode_into ip4_fresh " ^ coq_zlist b) (ip4_decode_into ip4_fresh b)
    | "dec2", [a; b] when small a && small b ->
      let a = bytes_of_hex a and b = bytes_of_hex b in
      ex_dec (Printf.sprintf "ip4_dec2 %s %s" (coq_zlist a) (coq_zlist b)) (ip4_dec2 a b)
    | ("ser" | "new"), [h; fcd; p] when small h && small p ->
      let l0 = if nm = "ser" then (let ((l, _), _) = ip4_decode_into ip4_fresh (bytes_of_hex h) in l) else of_spec h in
      ignore (ex_ser l0 (bytes_of_hex p) (fcd.[0] = '1') (fcd.[1] = '1') (Char.code fcd.[2] - 48))
    | "rt", [h; p] when small h && small p ->
      let b = bytes_of_hex h in
      let ((l, o), _) as r = ip4_decode_into ip4_fresh b in
      ex_dec ("ip4_decode_into ip4_fresh " ^ coq_zlist b) r;
      (match o with
       | Base.Ok _ ->
         (match ex_ser l (bytes_of_hex p) true true 0 with
          | (Base.Ok b2, _) -> ex_dec ("ip4_decode_into ip4_fresh " ^ coq_zlist b2) (ip4_decode_into ip4_fresh b2)
          | _ -> ())
       | _ -> ())
    | _ -> ()) ops
let registered_coq = Registry.register_coq "Lip4" ("From GP Require Import Base Lip4Model.\n", to_coq)
