(* Lgre runner: GRE; mirrors harness/cmd/gpverif/lgre.go *)
open Util
open N6util
module M = LgreModel

let routing_str (rs : M.sre list) =
  String.concat "|" (Stdlib.List.map (fun (r : M.sre) ->
    Printf.sprintf "%s~%s~%s~%s" (zi r.M.s_af) (zi r.M.s_off) (zi r.M.s_len) (hex_of_bytes r.M.s_info)) rs)

let fields (g : M.gre) =
  Printf.sprintf "fl=%s%s%s%s%s%s;recur=%s;gflags=%s;ver=%s;proto=%s;offset=%s;key=%s;seq=%s;ack=%s;routing=%s"
    (b2i g.M.g_csump) (b2i g.M.g_routp) (b2i g.M.g_keyp) (b2i g.M.g_seqp) (b2i g.M.g_ssr) (b2i g.M.g_ackp)
    (zi g.M.g_recur) (zi g.M.g_flags) (zi g.M.g_version) (zi g.M.g_proto) (zi g.M.g_offset) (zi g.M.g_key) (zi g.M.g_seq)
    (zi g.M.g_ack) (routing_str g.M.g_routing)

let state (g : M.gre) =
  Printf.sprintf "%s;csum=%s;c=%s;p=%s;next=%s" (fields g) (zi g.M.g_csum) (hex_of_bytes g.M.g_contents) (big g.M.g_payload)
    (zi (M.gre_next g))

let render (g : M.gre) = let r = if M.gre_render_panics g then "panic" else "ok" in Printf.sprintf "render=%s,%s,%s" r r r

let build fields_s : M.gre =
  match split_on '.' fields_s with
  | [fl; recur; gflags; ver; proto; csum; off; key; seq; ack; rt] ->
    let bit i = fl.[i] = '1' in
    let routing = if rt = "" then [] else Stdlib.List.map (fun p ->
        match split_on '~' p with
        | [af; so; sl; info] -> { M.s_af = zs af; s_off = zs so; s_len = zs sl; s_info = bytes_of_hex info }
        | _ -> failwith "sre") (split_on '|' rt) in
    { M.g_csump = bit 0; g_routp = bit 1; g_keyp = bit 2; g_seqp = bit 3; g_ssr = bit 4; g_ackp = bit 5;
      g_recur = zs recur; g_flags = zs gflags; g_version = zs ver; g_proto = zs proto; g_csum = zs csum; g_offset = zs off;
      g_key = zs key; g_seq = zs seq; g_ack = zs ack; g_routing = routing; g_contents = []; g_payload = [] }
  | _ -> failwith "gre fields"

let run (id : string) (ops : string list) (out : out_channel) =
  let step = ref 0 in
  let emit s = Printf.fprintf out "%s\t%d\t%s\n" id !step s; incr step in
  Stdlib.List.iter (fun op ->
    let (name, a) = args_of op in
    let arg i = if i < Array.length a then a.(i) else "" in
    match name with
    | "nlt" -> emit ("lt=" ^ zi (M.ethertype_layertype (zs (arg 0))))
    | "dec" ->
      let ((g, r), tr) = M.gre_decode_into M.gre_fresh (bytes_of_hex (arg 0)) in
      emit (Printf.sprintf "cls=%s;trunc=%s;%s;%s" (cls_name r) (b2i tr) (state g) (render g))
    | "dec2" ->
      let ((g0, _), _) = M.gre_decode_into M.gre_fresh (bytes_of_hex (arg 0)) in
      let ((g, r), tr) = M.gre_decode_into g0 (bytes_of_hex (arg 1)) in
      emit (Printf.sprintf "cls=%s;trunc=%s;%s;%s" (cls_name r) (b2i tr) (state g) (render g))
    | "ser" | "nser" ->
      let (g, fcd, payload) =
        if name = "ser" then (let ((g, _), _) = M.gre_decode_into M.gre_fresh (bytes_of_hex (arg 0)) in (g, arg 1, arg 2))
        else (build (arg 2), arg 0, arg 1) in
      let (fix, csum, mode) = flags fcd in
      let (r, g') = M.gre_serialize g (payload_of payload) fix csum (junk_of mode 8192) in
      let o = match r with Base.Ok b -> big b | _ -> "" in
      emit (Printf.sprintf "cls=%s;out=%s;%s;csum=%s" (cls_name r) o (fields g') (zi g'.M.g_csum))
    | "rt" | "nrt" ->
      let (g, payload) =
        if name = "rt" then (let ((g, _), _) = M.gre_decode_into M.gre_fresh (bytes_of_hex (arg 0)) in (g, arg 1))
        else (build (arg 1), arg 0) in
      let (r, _) = M.gre_serialize g (payload_of payload) true true [] in
      (match r with
       | Base.Ok b ->
         let ((g2, r2), tr2) = M.gre_decode_into M.gre_fresh b in
         emit (Printf.sprintf "scls=ok;cls=%s;trunc=%s;%s;%s" (cls_name r2) (b2i tr2) (state g2) (render g2))
       | _ -> emit (Printf.sprintf "scls=%s;cls=err;trunc=0;%s;%s" (cls_name r) (state M.gre_fresh) (render M.gre_fresh)))
    | _ -> failwith ("Lgre op: " ^ op)) ops

let registered = Registry.register "Lgre" run

(* ---- extraction cross-check inside Coq (see c18.ml): every model call this glue makes for the ops of a
   sampled case, restated as a Gallina term and recomputed by vm_compute, must give the value the
   extracted code computed here. *)
let coq_gre (g : M.gre) =
  Printf.sprintf "(mkGre %s %s %s %s %s %s %s %s %s %s %s %s %s %s %s %s %s %s)" (coq_bool g.M.g_csump) (coq_bool g.M.g_routp)
    (coq_bool g.M.g_keyp) (coq_bool g.M.g_seqp) (coq_bool g.M.g_ssr) (coq_bool g.M.g_ackp) (coq_z g.M.g_recur) (coq_z g.M.g_flags)
    (coq_z g.M.g_version) (coq_z g.M.g_proto) (coq_z g.M.g_csum) (coq_z g.M.g_offset) (coq_z g.M.g_key) (coq_z g.M.g_seq) (coq_z g.M.g_ack)
    (coq_list (fun (r : M.sre) -> Printf.sprintf "mkSre %s %s %s %s" (coq_z r.M.s_af) (coq_z r.M.s_off) (coq_z r.M.s_len) (coq_zlist r.M.s_info)) g.M.g_routing)
    (coq_zlist g.M.g_contents) (coq_zlist g.M.g_payload)
let to_coq (idx : int) (ops : string list) (out : out_channel) =
  let n = ref 0 in
  let name () = incr n; Printf.sprintf "sample_%d_%d" idx !n in
  let small h = String.length h <= 300 && not (String.length h > 0 && h.[0] = '*') in
  let ex_dec (g0s : string) (g0 : M.gre) (b : BinNums.coq_Z list) =
    let ((g, r), tr) = M.gre_decode_into g0 b in
    coq_example_named out (name ())
      (Printf.sprintf "(let r := gre_decode_into %s %s in (r, gre_next (fst (fst r)), gre_render_panics (fst (fst r))))" g0s (coq_zlist b))
      (Printf.sprintf "(%s, %s, %s, %s, %s)" (coq_gre g) (coq_outcome coq_unit r) (coq_bool tr) (coq_z (M.gre_next g)) (coq_bool (M.gre_render_panics g)));
    g in
  let ex_ser (g : M.gre) (p : BinNums.coq_Z list) (fix : bool) (csum : bool) (junk : string) (junkv : BinNums.coq_Z list) =
    let r = M.gre_serialize g p fix csum junkv in
    coq_example_named out (name ()) (Printf.sprintf "gre_serialize %s %s %s %s %s" (coq_gre g) (coq_zlist p) (coq_bool fix) (coq_bool csum) junk)
      (coq_pair (coq_outcome coq_zlist) coq_gre r); r in
  Stdlib.List.iter (fun op ->
    let (nm, a) = args_of op in
    let arg i = if i < Array.length a then a.(i) else "" in
    if !n < 6 then
    match nm with
    | "nlt" -> let x = zs (arg 0) in
      coq_example_named out (name ()) ("ethertype_layertype " ^ coq_z x) (coq_z (M.ethertype_layertype x))
    | "dec" when small (arg 0) -> ignore (ex_dec "gre_fresh" M.gre_fresh (bytes_of_hex (arg 0)))
    | "dec2" when small (arg 0) && small (arg 1) ->
      let g0 = ex_dec "gre_fresh" M.gre_fresh (bytes_of_hex (arg 0)) in
      ignore (ex_dec (coq_gre g0) g0 (bytes_of_hex (arg 1)))
    | "ser" | "nser" ->
      let (g, fcd, payload) =
        if nm = "ser" then (let ((g, _), _) = M.gre_decode_into M.gre_fresh (bytes_of_hex (arg 0)) in (g, arg 1, arg 2))
        else (build (arg 2), arg 0, arg 1) in
      let (fix, csum, mode) = flags fcd in
      if small payload && Stdlib.List.length g.M.g_contents + Stdlib.List.length g.M.g_payload <= 300 then
        ignore (ex_ser g (payload_of payload) fix csum (if mode = 1 then "(repeat 170%Z 8192%nat)" else "[]") (junk_of mode 8192))
    | "rt" | "nrt" ->
      let (g, payload) =
        if nm = "rt" then (let ((g, _), _) = M.gre_decode_into M.gre_fresh (bytes_of_hex (arg 0)) in (g, arg 1))
        else (build (arg 1), arg 0) in
      if small payload && Stdlib.List.length g.M.g_contents + Stdlib.List.length g.M.g_payload <= 300 then
        (match ex_ser g (payload_of payload) true true "[]" [] with
         | (Base.Ok b, _) -> ignore (ex_dec "gre_fresh" M.gre_fresh b)
         | _ -> ())
    | _ -> ()) ops
let registered_coq = Registry.register_coq "Lgre" ("From GP Require Import Base N6Lib LgreModel.\n", to_coq)
