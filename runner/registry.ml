(* property runners register themselves here at module initialisation *)
let table : (string, string -> string list -> out_channel -> unit) Hashtbl.t = Hashtbl.create 32
let register (prop : string) (f : string -> string list -> out_channel -> unit) = Hashtbl.replace table prop f
