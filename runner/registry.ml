(* property runners register themselves here at module initialisation *)
let table : (string, string -> string list -> out_channel -> unit) Hashtbl.t = Hashtbl.create 32
let register (prop : string) (f : string -> string list -> out_channel -> unit) = Hashtbl.replace table prop f

(* optional: printers of a case as a Gallina Example (extraction cross-check inside Coq) *)
let coq_table : (string, string * (int -> string list -> out_channel -> unit)) Hashtbl.t = Hashtbl.create 8
let register_coq (prop : string) (f : string * (int -> string list -> out_channel -> unit)) = Hashtbl.replace coq_table prop f
