(* Lrmcp runner: RMCP header codec model on the ops of harness/cmd/gpverif/lsmall6.go *)
open Util
open Lmiscutil
open LrmcpModel
let fields (l : rmcp) = Printf.sprintf "v=%s;seq=%s;ack=%s;cl=%s" (i l.rm_ver) (i l.rm_seq) (b01 l.rm_ack) (i l.rm_class)
let of_spec s = match split_on '.' s with
  | [v; q; a; c] -> { rm_contents = []; rm_payload = []; rm_ver = zi v; rm_seq = zi q; rm_ack = (a = "1"); rm_class = zi c }
  | _ -> failwith "rmcp spec"
let desc = { fresh = rm_fresh; decode = rm_decode_into; serialize = Some rm_serialize; fields; contents = (fun l -> l.rm_contents); payload = (fun l -> l.rm_payload);
  next = (fun _ l -> i (rm_next l)); render_panics = rm_render_panics; of_spec; junk_len = 4 }
let run id ops out = run_generic desc id ops out
let registered = Registry.register "Lrmcp" run
