(* Lbfd runner: BFD codec model (coq/Model/LbfdModel.v) on the ops of harness/cmd/gpverif/lbfd.go *)
open Util
open Lmiscutil
open LbfdModel

let auth_str = function None -> "n" | Some (a : bauth) -> Printf.sprintf "%s~%s~%s~%s" (i a.ba_type) (i a.ba_keyid) (i a.ba_seq) (hex_of_bytes a.ba_data)
let fields (l : bfd) = Printf.sprintf "v=%s;diag=%s;st=%s;fl=%s%s%s%s%s%s;mult=%s;my=%s;your=%s;tx=%s;rx=%s;echo=%s;auth=%s" (i l.b_version) (i l.b_diag)
  (i l.b_state) (b01 l.b_poll) (b01 l.b_final) (b01 l.b_cpi) (b01 l.b_authp) (b01 l.b_demand) (b01 l.b_mpoint) (i l.b_mult) (i l.b_mydisc) (i l.b_yourdisc)
  (i l.b_mintx) (i l.b_minrx) (i l.b_minecho) (auth_str l.b_auth)
let of_spec s = match split_on '.' s with
  | [v; dg; st; fl; mult; my; your; tx; rx; echo; au] ->
    let f k = fl.[k] = '1' in
    let auth = if au = "n" then None else (match split_on '~' au with
      | [t; kid; sq; d] -> Some { ba_type = zi t; ba_keyid = zi kid; ba_seq = zi sq; ba_data = bytes_of_hex d }
      | _ -> failwith "bfd auth spec") in
    { b_contents = []; b_payload = []; b_version = zi v; b_diag = zi dg; b_state = zi st; b_poll = f 0; b_final = f 1; b_cpi = f 2; b_authp = f 3;
      b_demand = f 4; b_mpoint = f 5; b_mult = zi mult; b_mydisc = zi my; b_yourdisc = zi your; b_mintx = zi tx; b_minrx = zi rx; b_minecho = zi echo; b_auth = auth }
  | _ -> failwith "bfd spec"
let desc = { fresh = bfd_fresh; decode = bfd_decode_into; serialize = Some bfd_serialize; fields;
  contents = (fun l -> l.b_contents); payload = (fun l -> l.b_payload); next = (fun _ _ -> "zero");
  render_panics = bfd_render_panics; of_spec; junk_len = 400 }
let run id ops out = run_generic desc id ops out
let registered = Registry.register "Lbfd" run
