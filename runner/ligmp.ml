(* Ligmp runner: IGMP decoder models (coq/Model/LigmpModel.v) on the ops of harness/cmd/gpverif/ligmp.go *)
open Util
open Lmiscutil
open LigmpModel

let addrs l = String.concat "/" (Stdlib.List.map hex_of_bytes l)
let grec_str (g : grec) = Printf.sprintf "%s~%s~%s~%s~%s" (i g.gr_type) (i g.gr_auxlen) (i g.gr_nsrc) (hex_of_bytes g.gr_mcast) (addrs g.gr_srcs)
let fields (l : igmp) = Printf.sprintf "t=%s;mrt=%s;cs=%s;grp=%s;s=%s;qrv=%s;qqi=%s;srcs=%s;ngr=%s;nsrc=%s;recs=%s;ver=%s" (i l.ig_type) (i l.ig_maxresp)
  (i l.ig_csum) (hex_of_bytes l.ig_group) (b01 l.ig_supress) (i l.ig_robust) (i l.ig_interval) (addrs l.ig_srcs) (i l.ig_ngr) (i l.ig_nsrc)
  (String.concat "+" (Stdlib.List.map grec_str l.ig_grecs)) (i l.ig_version)
let v3 ver = { fresh = { ig_fresh with ig_version = z_of_int ver }; decode = ig_decode_into; serialize = None; fields;
  contents = (fun l -> l.ig_contents); payload = (fun l -> l.ig_payload); next = (fun _ _ -> "zero");
  render_panics = ig_render_panics; of_spec = (fun _ -> failwith "no spec"); junk_len = 0 }
let f12 (l : igmp12) = Printf.sprintf "t=%s;mrt=%s;cs=%s;grp=%s;ver=%s" (i l.i12_type) (i l.i12_maxresp) (i l.i12_csum) (hex_of_bytes l.i12_group) (i l.i12_version)
let v12 ver = { fresh = { i12_fresh with i12_version = z_of_int ver }; decode = i12_decode_into; serialize = None; fields = f12;
  contents = (fun l -> l.i12_contents); payload = (fun l -> l.i12_payload); next = (fun _ _ -> "zero");
  render_panics = i12_render_panics; of_spec = (fun _ -> failwith "no spec"); junk_len = 0 }
let run id ops out = match ops with
  | "L:v3" :: rest -> run_generic (v3 3) id rest out
  | "L:v12" :: rest -> run_generic (v12 2) id rest out
  | [op] when String.length op >= 4 && String.sub op 0 4 = "pkt:" ->
    let data = bytes_of_hex (String.sub op 4 (String.length op - 4)) in
    let (kind, cls) = match ig_dispatch data with
      | Base.Ok k -> (match int_of_z k with
         | 0 -> ("none", "err")
         | 3 -> let ((_, o), _) = ig_decode_into { ig_fresh with ig_version = z_of_int 3 } data in ("v3.3", cls_of o)
         | v -> let ((_, o), _) = i12_decode_into { i12_fresh with i12_version = z_of_int v } data in (Printf.sprintf "v12.%d" v, cls_of o))
      | Base.Err _ -> ("none", "err") | Base.Panic _ -> ("none", "panic") in
    Printf.fprintf out "%s\t0\tkind=%s;cls=%s\n" id (if cls = "ok" then kind else "none") cls
  | _ -> failwith "Ligmp: first op must be L:v3, L:v12 or a single pkt:"
let registered = Registry.register "Ligmp" run
