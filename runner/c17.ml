(* C17 runner: endpoint/flow value ops and per-layer flow constructors on the extracted model *)
open Util

let kind_of = function
  | "eth" -> C17Model.LEthernet | "fddi" -> C17Model.LFDDI | "ip4" -> C17Model.LIPv4
  | "ip6" -> C17Model.LIPv6 | "sll" -> C17Model.LLinuxSLL | "sll2" -> C17Model.LLinuxSLL2
  | "ppp" -> C17Model.LPPP | "rudp" -> C17Model.LRUDP | "sctp" -> C17Model.LSCTP
  | "tcp" -> C17Model.LTCP | "udp" -> C17Model.LUDP | "udplite" -> C17Model.LUDPLite
  | s -> failwith ("c17 kind: " ^ s)

let ni s = nat_of_int (int_of_string s)

let parse_op (s : string) : C17Model.op =
  let name, arg = match String.index_opt s ':' with
    | Some i -> (String.sub s 0 i, String.sub s (i + 1) (String.length s - i - 1))
    | None -> (s, "") in
  let a = split_on ',' arg in
  match name, a with
  | "ep", [t; h] -> C17Model.ONewE (z_of_hex t, bytes_of_hex h)
  | "fl", [t; h1; h2] -> C17Model.ONewF (z_of_hex t, bytes_of_hex h1, bytes_of_hex h2)
  | "ffe", [i; j] -> C17Model.OFromE (ni i, ni j)
  | "eps", [k] -> C17Model.OEndpoints (ni k)
  | "src", [k] -> C17Model.OSrc (ni k)
  | "dst", [k] -> C17Model.ODst (ni k)
  | "rev", [k] -> C17Model.ORev (ni k)
  | "inv", _ -> C17Model.OInvalid
  | "cmpe", [i; j] -> C17Model.OCmpE (ni i, ni j)
  | "cmpf", [k; l] -> C17Model.OCmpF (ni k, ni l)
  | "lf", [k; h] -> C17Model.OLayer (kind_of k, bytes_of_hex h)
  | "pk", [h] -> C17Model.OPacket (bytes_of_hex h)
  | "seq", k :: m :: hs -> C17Model.OSeq (kind_of k, (String.length m > 0 && m.[0] = 'r'), Stdlib.List.map bytes_of_hex hs)
  | _ -> failwith ("c17 op: " ^ s)

let ev (v : C17Model.eview) =
  Printf.sprintf "%s/%s/%s" (hex_of_z v.C17Model.ev_typ) (hex_of_bytes v.C17Model.ev_raw) (hex_of_z v.C17Model.ev_hash)
let fv (v : C17Model.fview) =
  Printf.sprintf "%s/%s/%s/%s" (hex_of_z v.C17Model.fv_typ) (hex_of_bytes v.C17Model.fv_src)
    (hex_of_bytes v.C17Model.fv_dst) (hex_of_z v.C17Model.fv_hash)
let b01 b = if b then 1 else 0

let show (o : C17Model.obs) : string =
  match o with
  | C17Model.BSkip -> "skip"
  | C17Model.BPanic -> "cls=panic"
  | C17Model.BErr c -> (match int_of_z c with 0 -> "cls=none" | 98 -> "cls=unmodelled" | _ -> "cls=err")
  | C17Model.BEnds es -> "cls=ok;e=" ^ String.concat "," (Stdlib.List.map ev es)
  | C17Model.BFlow f -> "cls=ok;f=" ^ fv f
  | C17Model.BBoth (e, f) -> "cls=ok;e=" ^ ev e ^ ";f=" ^ fv f
  | C17Model.BCmpE (eq, lt, gt, look) -> Printf.sprintf "eq=%d;lt=%d;gt=%d;look=%d" (b01 eq) (b01 lt) (b01 gt) (b01 look)
  | C17Model.BSeq fs ->
    "seq=" ^ String.concat "|" (Stdlib.List.map (function
      | Base.Ok f -> "ok:" ^ fv f
      | Base.Err c -> (match int_of_z c with 98 -> "unmodelled" | _ -> "err")
      | Base.Panic _ -> "panic") fs)
  | C17Model.BStack (l, n, t) ->
    let o = function Some f -> fv f | None -> "-" in
    Printf.sprintf "cls=ok;l=%s;n=%s;t=%s" (o l) (o n) (o t)
  | C17Model.BCmpF (eq, look, heq) -> Printf.sprintf "eq=%d;look=%d;heq=%d" (b01 eq) (b01 look) (b01 heq)

let run (id : string) (ops : string list) (out : out_channel) =
  let l = Stdlib.List.map parse_op ops in
  let tr = C17Model.run_trace l in
  Stdlib.List.iteri (fun i o -> Printf.fprintf out "%s\t%d\t%s\n" id i (show o)) tr

let registered = Registry.register "C17" run

(* ---- extraction cross-check inside Coq (see c18.ml): run_trace on the case's ops, recomputed by
   vm_compute, must equal the obs list this extracted runner computed (64-bit hashes as 0x literals). *)
let coq_kind = function
  | C17Model.LEthernet -> "LEthernet" | C17Model.LFDDI -> "LFDDI" | C17Model.LIPv4 -> "LIPv4"
  | C17Model.LIPv6 -> "LIPv6" | C17Model.LLinuxSLL -> "LLinuxSLL" | C17Model.LLinuxSLL2 -> "LLinuxSLL2"
  | C17Model.LPPP -> "LPPP" | C17Model.LRUDP -> "LRUDP" | C17Model.LSCTP -> "LSCTP"
  | C17Model.LTCP -> "LTCP" | C17Model.LUDP -> "LUDP" | C17Model.LUDPLite -> "LUDPLite"
let coq_op (o : C17Model.op) = match o with
  | C17Model.ONewE (t, r) -> Printf.sprintf "ONewE %s %s" (coq_z t) (coq_zlist r)
  | C17Model.ONewF (t, a, b) -> Printf.sprintf "ONewF %s %s %s" (coq_z t) (coq_zlist a) (coq_zlist b)
  | C17Model.OFromE (i, j) -> Printf.sprintf "OFromE %s %s" (coq_nat i) (coq_nat j)
  | C17Model.OEndpoints k -> "OEndpoints " ^ coq_nat k
  | C17Model.OSrc k -> "OSrc " ^ coq_nat k
  | C17Model.ODst k -> "ODst " ^ coq_nat k
  | C17Model.ORev k -> "ORev " ^ coq_nat k
  | C17Model.OInvalid -> "OInvalid"
  | C17Model.OCmpE (i, j) -> Printf.sprintf "OCmpE %s %s" (coq_nat i) (coq_nat j)
  | C17Model.OCmpF (k, l) -> Printf.sprintf "OCmpF %s %s" (coq_nat k) (coq_nat l)
  | C17Model.OLayer (k, d) -> Printf.sprintf "OLayer %s %s" (coq_kind k) (coq_zlist d)
  | C17Model.OPacket d -> "OPacket " ^ coq_zlist d
  | C17Model.OSeq (k, r, ps) -> Printf.sprintf "OSeq %s %s %s" (coq_kind k) (coq_bool r) (coq_list coq_zlist ps)
let coq_ev (v : C17Model.eview) =
  Printf.sprintf "(mkEV %s %s %s)" (coq_z v.C17Model.ev_typ) (coq_zlist v.C17Model.ev_raw) (coq_z v.C17Model.ev_hash)
let coq_fv (v : C17Model.fview) =
  Printf.sprintf "(mkFV %s %s %s %s)" (coq_z v.C17Model.fv_typ) (coq_zlist v.C17Model.fv_src) (coq_zlist v.C17Model.fv_dst) (coq_z v.C17Model.fv_hash)
let coq_obs (o : C17Model.obs) = match o with
  | C17Model.BSkip -> "BSkip"
  | C17Model.BPanic -> "BPanic"
  | C17Model.BErr c -> "BErr " ^ coq_z c
  | C17Model.BEnds es -> "BEnds " ^ coq_list coq_ev es
  | C17Model.BFlow f -> "BFlow " ^ coq_fv f
  | C17Model.BBoth (e, f) -> Printf.sprintf "BBoth %s %s" (coq_ev e) (coq_fv f)
  | C17Model.BCmpE (a, b, c, d) -> Printf.sprintf "BCmpE %s %s %s %s" (coq_bool a) (coq_bool b) (coq_bool c) (coq_bool d)
  | C17Model.BCmpF (a, b, c) -> Printf.sprintf "BCmpF %s %s %s" (coq_bool a) (coq_bool b) (coq_bool c)
  | C17Model.BSeq fs -> "BSeq " ^ coq_list (function
      | Base.Ok f -> "(Ok " ^ coq_fv f ^ ")" | Base.Err c -> "(Err " ^ coq_z c ^ ")" | Base.Panic c -> "(Panic " ^ coq_z c ^ ")") fs
  | C17Model.BStack (l, n, t) -> Printf.sprintf "BStack %s %s %s" (coq_option coq_fv l) (coq_option coq_fv n) (coq_option coq_fv t)
let to_coq (idx : int) (ops : string list) (out : out_channel) =
  let l = Stdlib.List.map parse_op ops in
  let nbytes = Stdlib.List.fold_left (fun a o -> match o with
    | C17Model.OLayer (_, d) | C17Model.OPacket d -> a + Stdlib.List.length d
    | C17Model.OSeq (_, _, ps) -> Stdlib.List.fold_left (fun a d -> a + Stdlib.List.length d) a ps | _ -> a) 0 l in
  if nbytes <= 600 then
    coq_example out idx ("run_trace " ^ coq_list coq_op l)
      ("[" ^ String.concat ";\n     " (Stdlib.List.map coq_obs (C17Model.run_trace l)) ^ "]")
let registered_coq = Registry.register_coq "C17" ("From GP Require Import Base C17Model.\n", to_coq)
