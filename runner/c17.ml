(* C17 runner: endpoint/flow value ops and per-layer flow constructors on the extracted model *)
open Util

let kind_of = function
  | "eth" -> C17Model.LEthernet | "fddi" -> C17Model.LFDDI | "ip4" -> C17Model.LIPv4
  | "ip6" -> C17Model.LIPv6 | "sll" -> C17Model.LLinuxSLL | "sll2" -> C17Model.LLinuxSLL2
  | "ppp" -> C17Model.LPPP | "rudp" -> C17Model.LRUDP | "sctp" -> C17Model.LSCTP
  | "tcp" -> C17Model.LTCP | "udp" -> C17Model.LUDP | "udplite" -> C17Model.LUDPLite
  | s -> failwith ("c17 kind: " ^ s)

let ni s = nat_of_int (int_of_string s)

let parse_op (s : string) : C17Model.op =
  let name, arg = match String.index_opt s ':' with
    | Some i -> (String.sub s 0 i, String.sub s (i + 1) (String.length s - i - 1))
    | None -> (s, "") in
  let a = split_on ',' arg in
  match name, a with
  | "ep", [t; h] -> C17Model.ONewE (z_of_hex t, bytes_of_hex h)
  | "fl", [t; h1; h2] -> C17Model.ONewF (z_of_hex t, bytes_of_hex h1, bytes_of_hex h2)
  | "ffe", [i; j] -> C17Model.OFromE (ni i, ni j)
  | "eps", [k] -> C17Model.OEndpoints (ni k)
  | "src", [k] -> C17Model.OSrc (ni k)
  | "dst", [k] -> C17Model.ODst (ni k)
  | "rev", [k] -> C17Model.ORev (ni k)
  | "inv", _ -> C17Model.OInvalid
  | "cmpe", [i; j] -> C17Model.OCmpE (ni i, ni j)
  | "cmpf", [k; l] -> C17Model.OCmpF (ni k, ni l)
  | "lf", [k; h] -> C17Model.OLayer (kind_of k, bytes_of_hex h)
  | "pk", [h] -> C17Model.OPacket (bytes_of_hex h)
  | _ -> failwith ("c17 op: " ^ s)

let ev (v : C17Model.eview) =
  Printf.sprintf "%s/%s/%s" (hex_of_z v.C17Model.ev_typ) (hex_of_bytes v.C17Model.ev_raw) (hex_of_z v.C17Model.ev_hash)
let fv (v : C17Model.fview) =
  Printf.sprintf "%s/%s/%s/%s" (hex_of_z v.C17Model.fv_typ) (hex_of_bytes v.C17Model.fv_src)
    (hex_of_bytes v.C17Model.fv_dst) (hex_of_z v.C17Model.fv_hash)
let b01 b = if b then 1 else 0

let show (o : C17Model.obs) : string =
  match o with
  | C17Model.BSkip -> "skip"
  | C17Model.BPanic -> "cls=panic"
  | C17Model.BErr c -> (match int_of_z c with 0 -> "cls=none" | 98 -> "cls=unmodelled" | _ -> "cls=err")
  | C17Model.BEnds es -> "cls=ok;e=" ^ String.concat "," (Stdlib.List.map ev es)
  | C17Model.BFlow f -> "cls=ok;f=" ^ fv f
  | C17Model.BBoth (e, f) -> "cls=ok;e=" ^ ev e ^ ";f=" ^ fv f
  | C17Model.BCmpE (eq, lt, gt, look) -> Printf.sprintf "eq=%d;lt=%d;gt=%d;look=%d" (b01 eq) (b01 lt) (b01 gt) (b01 look)
  | C17Model.BStack (l, n, t) ->
    let o = function Some f -> fv f | None -> "-" in
    Printf.sprintf "cls=ok;l=%s;n=%s;t=%s" (o l) (o n) (o t)
  | C17Model.BCmpF (eq, look, heq) -> Printf.sprintf "eq=%d;look=%d;heq=%d" (b01 eq) (b01 look) (b01 heq)

let run (id : string) (ops : string list) (out : out_channel) =
  let l = Stdlib.List.map parse_op ops in
  let tr = C17Model.run_trace l in
  Stdlib.List.iteri (fun i o -> Printf.fprintf out "%s\t%d\t%s\n" id i (show o)) tr

let registered = Registry.register "C17" run
