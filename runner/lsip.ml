(* Lsip runner: SIP model (coq/Model/LsipModel.v) on the ops of harness/cmd/gpverif/lsip.go *)
open Util
open Lmiscutil
open LsipModel

let hx = hex_of_bytes
let fields (l : sip) =
  let hs = Stdlib.List.map (fun (k, vs) -> hx k ^ "=" ^ String.concat "," (Stdlib.List.map hx vs)) l.sp_headers in
  let hs = Stdlib.List.sort compare hs in
  let clen = if int_of_z l.sp_clen = -1 then "0" else i l.sp_clen in
  Printf.sprintf "ver=%s;method=%s;uri=%s;resp=%s;code=%s;status=%s;cseq=%s;clen=%s;hdrs=%s" (i l.sp_version) (i l.sp_method) (hx l.sp_uri)
    (b01 l.sp_isresp) (hex_of_z l.sp_code) (hx l.sp_status) (i l.sp_cseq) clen (String.concat "|" hs)
let variant = try Sys.getenv "VERIF_LSIP_VARIANT" with Not_found -> "fixed"
let desc = { fresh = sp_fresh; decode = (if variant = "orig" then sp_decode_into_orig else sp_decode_into); serialize = None; fields;
  contents = (fun l -> l.sp_contents); payload = (fun l -> l.sp_payload); next = (fun _ l -> i (sp_next l));
  render_panics = sp_render_panics; of_spec = (fun _ -> failwith "sip: no spec"); junk_len = 0 }
let run id ops out = run_generic desc id ops out
let registered = Registry.register "Lsip" run
let coq_sp (l : sip) = Printf.sprintf "(mkSp %s %s %s %s %s %s %s %s %s %s %s %s)" (coq_zlist l.sp_contents) (coq_zlist l.sp_payload) (coq_z l.sp_version)
  (coq_z l.sp_method) (coq_list (coq_pair coq_zlist Lmidutil.coq_zll) l.sp_headers) (coq_zlist l.sp_uri) (coq_bool l.sp_isresp) (coq_z l.sp_code)
  (coq_zlist l.sp_status) (coq_z l.sp_cseq) (coq_z l.sp_clen) (coq_zlist l.sp_last)
let registered_coq = Registry.register_coq "Lsip" ("From GP Require Import Base LsipModel.\n",
  Lmidutil.to_coq_dec ~fresh_name:"sp_fresh" ~dec_name:(fun _ -> "sp_decode_into") ~pr:coq_sp ~decode:(fun _ -> sp_decode_into) ~fresh:sp_fresh)
