(* Lpflog runner: pf log header decoder model on the ops of harness/cmd/gpverif/lsmall5.go *)
open Util
open Lmiscutil
open LpflogModel
let fields (l : pflog) = Printf.sprintf "len=%s;fam=%s;act=%s;rsn=%s;ifn=%s;rs=%s;rn=%s;srn=%s;uid=%s;pid=%s;ruid=%s;rpid=%s;dir=%s" (i l.pf_len) (i l.pf_family) (i l.pf_action) (i l.pf_reason)
  (hex_of_bytes l.pf_ifname) (hex_of_bytes l.pf_ruleset) (i l.pf_rulenum) (i l.pf_subrulenum) (i l.pf_uid) (i l.pf_pid) (i l.pf_ruleuid) (i l.pf_rulepid) (i l.pf_dir)
let desc = { fresh = pf_fresh; decode = pf_decode_into; serialize = None; fields; contents = (fun l -> l.pf_contents); payload = (fun l -> l.pf_payload);
  next = (fun _ l -> i (pf_next l)); render_panics = pf_render_panics; of_spec = (fun _ -> failwith "no spec"); junk_len = 0 }
let run id ops out = run_generic desc id ops out
let registered = Registry.register "Lpflog" run
