(* Lipsec runner: IPSec AH and ESP decoder models (coq/Model/LipsecModel.v) on the ops of harness/cmd/gpverif/lipsec.go *)
open Util
open Lmiscutil
open LipsecModel

let afields (l : ah) = Printf.sprintf "nh=%s;hl=%s;al=%s;rsv=%s;spi=%s;seq=%s;auth=%s" (i l.ah_nh) (i l.ah_hl) (i l.ah_actual) (i l.ah_reserved)
  (i l.ah_spi) (i l.ah_seq) (hex_of_bytes l.ah_auth)
let adesc = { fresh = ah_fresh; decode = ah_decode_into; serialize = None; fields = afields;
  contents = (fun l -> l.ah_contents); payload = (fun l -> l.ah_payload); next = (fun _ l -> i (ah_next l));
  render_panics = ah_render_panics; of_spec = (fun _ -> failwith "no spec"); junk_len = 0 }
let efields (l : esp) = Printf.sprintf "spi=%s;seq=%s;enc=%s" (i l.esp_spi) (i l.esp_seq) (hex_of_bytes l.esp_enc)
let edesc = { fresh = esp_fresh; decode = esp_decode_into; serialize = None; fields = efields;
  contents = (fun l -> l.esp_contents); payload = (fun l -> l.esp_payload); next = (fun _ _ -> "payload");
  render_panics = esp_render_panics; of_spec = (fun _ -> failwith "no spec"); junk_len = 0 }
let run id ops out = match ops with
  | "L:ah" :: rest -> run_generic adesc id rest out
  | "L:esp" :: rest -> run_generic edesc id rest out
  | _ -> failwith "Lipsec: first op must be L:ah or L:esp"
let registered = Registry.register "Lipsec" run
