(* C03 runner: lazy == eager; the shared PacketCore glue does the work *)
let registered = Registry.register "C03" Pcore_run.run
