(* C03 runner: lazy == eager; the shared PacketCore glue does the work *)
let registered = Registry.register "C03" Pcore_run.run
let registered_coq = Registry.register_coq "C03" (Pcore_run.coq_header, Pcore_run.to_coq)
