(* Lstp runner: STP codec model on the ops of harness/cmd/gpverif/lstp.go *)
open Util
open Lmiscutil
open LstpModel
let fields (l : stp) = Printf.sprintf "pid=%s;v=%s;t=%s;tc=%s;tca=%s;r=%s.%s.%s;b=%s.%s.%s;cost=%s;port=%s;age=%s;max=%s;hello=%s;fd=%s" (i l.t_pid) (i l.t_version) (i l.t_type)
  (b01 l.t_tc) (b01 l.t_tca) (i l.t_rprio) (i l.t_rsys) (hex_of_bytes l.t_rhw) (i l.t_bprio) (i l.t_bsys) (hex_of_bytes l.t_bhw) (i l.t_cost) (i l.t_port) (i l.t_msgage)
  (i l.t_maxage) (i l.t_hello) (i l.t_fdelay)
let hd s = if s = "-" then [] else bytes_of_hex s
let of_spec s = match split_on '.' s with
  | [pid; v; t; tc; tca; rp; rs; rh; bp; bs; bh; cost; port; age; mx; he; fd] ->
    { t_contents = []; t_payload = []; t_pid = zi pid; t_version = zi v; t_type = zi t; t_tc = (tc = "1"); t_tca = (tca = "1"); t_rprio = zi rp; t_rsys = zi rs; t_rhw = hd rh;
      t_bprio = zi bp; t_bsys = zi bs; t_bhw = hd bh; t_cost = zi cost; t_port = zi port; t_msgage = zi age; t_maxage = zi mx; t_hello = zi he; t_fdelay = zi fd }
  | _ -> failwith "stp spec"
let desc = { fresh = stp_fresh; decode = stp_decode_into; serialize = Some stp_serialize; fields; contents = (fun l -> l.t_contents); payload = (fun l -> l.t_payload);
  next = (fun _ _ -> "payload"); render_panics = stp_render_panics; of_spec; junk_len = 40 }
let run id ops out = run_generic desc id ops out
let registered = Registry.register "Lstp" run
