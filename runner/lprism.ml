(* Lprism runner: Prism header decoder model on the ops of harness/cmd/gpverif/lsmall5.go *)
open Util
open Lmiscutil
open LprismModel
let vals vs = String.concat "|" (Stdlib.List.map (fun v -> Printf.sprintf "%s.%s.%s.%s" (i v.pv_did) (i v.pv_status) (i v.pv_len) (hex_of_bytes v.pv_data)) vs)
let fields (l : prism) = Printf.sprintf "code=%s;len=%s;dev=%s;nv=%d;vals=%s" (i l.pr_code) (i l.pr_len) (hex_of_bytes l.pr_dev) (Stdlib.List.length l.pr_vals) (vals l.pr_vals)
let desc = { fresh = pr_fresh; decode = pr_decode_into; serialize = None; fields; contents = (fun l -> l.pr_contents); payload = (fun l -> l.pr_payload);
  next = (fun _ _ -> "dot11"); render_panics = pr_render_panics; of_spec = (fun _ -> failwith "no spec"); junk_len = 0 }
let run id ops out = run_generic desc id ops out
let registered = Registry.register "Lprism" run
