(* Lgtp2 runner: GTPv2-C decoder model (coq/Model/Lgtp2Model.v) on the ops of harness/cmd/gpverif/lgtp2.go *)
open Util
open Lmiscutil
open Lgtp2Model
let ie_str (e : g2ie) = Printf.sprintf "%s~%s" (i e.ie_type) (hex_of_bytes e.ie_content)
let fields (l : gtp2) = Printf.sprintf "v=%s;pf=%s;tf=%s;prio=%s;mt=%s;ml=%s;teid=%s;seq=%s;spare=%s;ies=%s" (i l.g2_version) (b01 l.g2_piggy) (b01 l.g2_teidflag)
  (i l.g2_prio) (i l.g2_mtype) (i l.g2_mlen) (i l.g2_teid) (i l.g2_seq) (i l.g2_spare) (String.concat "+" (Stdlib.List.map ie_str l.g2_ies))
let desc = { fresh = g2_fresh; decode = g2_decode_into; serialize = None; fields; contents = (fun l -> l.g2_contents); payload = (fun l -> l.g2_payload);
  next = (fun _ _ -> "payload"); render_panics = g2_render_panics; of_spec = (fun _ -> failwith "no spec"); junk_len = 0 }
let run id ops out = Lsmallutil.run_with_decf desc g2_decode_fn id ops out
let registered = Registry.register "Lgtp2" run
