(* Lgtp2 runner: GTPv2-C decoder model (coq/Model/Lgtp2Model.v) on the ops of harness/cmd/gpverif/lgtp2.go *)
open Util
open Lmiscutil
open Lgtp2Model
let ie_str (e : g2ie) = Printf.sprintf "%s~%s" (i e.ie_type) (hex_of_bytes e.ie_content)
let fields (l : gtp2) = Printf.sprintf "v=%s;pf=%s;tf=%s;prio=%s;mt=%s;ml=%s;teid=%s;seq=%s;spare=%s;ies=%s" (i l.g2_version) (b01 l.g2_piggy) (b01 l.g2_teidflag)
  (i l.g2_prio) (i l.g2_mtype) (i l.g2_mlen) (i l.g2_teid) (i l.g2_seq) (i l.g2_spare) (String.concat "+" (Stdlib.List.map ie_str l.g2_ies))
let desc = { fresh = g2_fresh; decode = g2_decode_into; serialize = None; fields; contents = (fun l -> l.g2_contents); payload = (fun l -> l.g2_payload);
  next = (fun _ _ -> "payload"); render_panics = g2_render_panics; of_spec = (fun _ -> failwith "no spec"); junk_len = 0 }
let run id ops out = Lsmallutil.run_with_decf desc g2_decode_fn id ops out
let registered = Registry.register "Lgtp2" run
let coq_ie (e : g2ie) = Printf.sprintf "(mkIe %s %s)" (coq_z e.ie_type) (coq_zlist e.ie_content)
let coq_layer (l : gtp2) = Printf.sprintf "(mkG2 %s %s %s %s %s %s %s %s %s %s %s %s)" (coq_zlist l.g2_contents) (coq_zlist l.g2_payload) (coq_z l.g2_version) (coq_bool l.g2_piggy)
  (coq_bool l.g2_teidflag) (coq_z l.g2_prio) (coq_z l.g2_mtype) (coq_z l.g2_mlen) (coq_z l.g2_teid) (coq_z l.g2_seq) (coq_z l.g2_spare) (coq_list coq_ie l.g2_ies)
let registered_coq = Registry.register_coq "Lgtp2" ("From GP Require Import Base Lgtp2Model.\n",
  Lsmallutil.to_coq_generic { Lsmallutil.cd = desc; coq_layer; g_dec = "g2_decode_into"; g_fresh = "g2_fresh"; g_ser = ""; g_rp = "g2_render_panics" })
