(* Lsctp runner: SCTP common header + chunk walk.  Ops: tbl dec dec2 ser rt pkt (see
   harness/cmd/gpverif/lsctp.go).  LSCTP_MODEL=orig selects the model of the unchanged tree. *)
open Util
open LsctpModel

let g = not (Sys.getenv_opt "LSCTP_MODEL" = Some "orig")
let zi = int_of_z
let cls (o : 'a Base.outcome) = match o with Base.Ok _ -> "ok" | Base.Err _ -> "err" | Base.Panic _ -> "panic"

let core (s : sctp) = Printf.sprintf "sp=%d;dp=%d;vtag=%d" (zi s.s_sp) (zi s.s_dp) (zi s.s_vtag)
let fields (s : sctp) =
  Printf.sprintf "%s;sum=%d;c=%s;p=%s;sport=%s;dport=%s" (core s) (zi s.s_sum)
    (hex_of_bytes s.s_contents) (hex_of_bytes s.s_payload) (hex_of_bytes s.s_sport) (hex_of_bytes s.s_dport)

let tbl : (int * (int * int) list) option ref = ref None
let show_next (s : sctp) : string =
  match !tbl with
  | None -> "next=-"
  | Some (pid, l) ->
    let f z = try Stdlib.List.assoc (zi z) l with Not_found -> pid in
    let a = f s.s_sp in
    let r = if a <> pid then a else (let b = f s.s_dp in if b <> pid then b else pid) in
    Printf.sprintf "next=%d" r

let show_dec (s, o) =
  Printf.sprintf "cls=%s;%s;%s;render=ok" (cls o) (fields s) (show_next s)

let chdr (c : chdr) =
  Printf.sprintf "%d/%d/%d/%d/%d/%d" (zi c.c_type) (zi c.c_flags) (zi c.c_len) (zi c.c_actual)
    (Stdlib.List.length c.c_contents) (Stdlib.List.length c.c_payload)
let show_params ps =
  String.concat "+" (Stdlib.List.map (fun (p : param) ->
    Printf.sprintf "%d.%d.%d.%s" (zi p.p_type) (zi p.p_len) (zi p.p_actual) (hex_of_bytes p.p_value)) ps)
let ints l = String.concat "." (Stdlib.List.map (fun z -> string_of_int (zi z)) l)
let show_chunk (ch : chunk) =
  match ch with
  | CData (c, ube, tsn, sid, sseq, ppid, pl) ->
    Printf.sprintf "data(%s|%d|%d|%d|%d|%d|%s)" (chdr c) (zi ube) (zi tsn) (zi sid) (zi sseq) (zi ppid) (hex_of_bytes pl)
  | CInit (c, a, b, o, i, t, ps) ->
    Printf.sprintf "init(%s|%d|%d|%d|%d|%d|%s)" (chdr c) (zi a) (zi b) (zi o) (zi i) (zi t) (show_params ps)
  | CSack (c, cum, arw, ng, nd, gs, ds) ->
    Printf.sprintf "sack(%s|%d|%d|%d|%d|%s|%s)" (chdr c) (zi cum) (zi arw) (zi ng) (zi nd) (ints gs) (ints ds)
  | CHeartbeat (c, ps) -> Printf.sprintf "hb(%s|%s)" (chdr c) (show_params ps)
  | CError (c, ps) -> Printf.sprintf "err(%s|%s)" (chdr c) (show_params ps)
  | CShutdown (c, t) -> Printf.sprintf "shut(%s|%d)" (chdr c) (zi t)
  | CShutdownAck c -> Printf.sprintf "shutack(%s)" (chdr c)
  | CCookieEcho (c, k) -> Printf.sprintf "cookie(%s|%s)" (chdr c) (hex_of_bytes k)
  | CEmpty c -> Printf.sprintf "empty(%s)" (chdr c)

let rec repeat_z v n = if n <= 0 then [] else v :: repeat_z v (n - 1)

let run (id : string) (ops : string list) (out : out_channel) =
  tbl := None;
  let step = ref 0 in
  let emit s = Printf.fprintf out "%s\t%d\t%s\n" id !step s; incr step in
  Stdlib.List.iter (fun op ->
    let (name, arg) = match String.index_opt op ':' with
      | Some i -> (String.sub op 0 i, String.sub op (i + 1) (String.length op - i - 1))
      | None -> (op, "") in
    let args = split_on ',' arg in
    match name, args with
    | "tbl", pid :: rest ->
      tbl := Some (int_of_string pid, Stdlib.List.filter_map (fun e ->
        match split_on '=' e with [p; l] -> Some (int_of_string p, int_of_string l) | _ -> None) rest)
    | "dec", [h] -> emit (show_dec (sdecode_into sctp0 (bytes_of_hex h)))
    | "dec2", [a; b] ->
      let (s1, _) = sdecode_into sctp0 (bytes_of_hex a) in
      emit (show_dec (sdecode_into s1 (bytes_of_hex b)))
    | "ser", [h; fcd; pl] ->
      let (s, o) = sdecode_into sctp0 (bytes_of_hex h) in
      let cs = fcd.[1] = '1' and d = fcd.[2] in
      let junk = if d = '1' then repeat_z (z_of_int 0xaa) 64 else [] in
      let so = sserialize g s (bytes_of_hex pl) cs junk in
      emit (Printf.sprintf "dcls=%s;cls=%s;out=%s" (cls o) (cls so) (match so with Base.Ok b -> hex_of_bytes b | _ -> ""))
    | "rt", [h; pl] ->
      let (s, o) = sdecode_into sctp0 (bytes_of_hex h) in
      (match o with
       | Base.Ok _ ->
         (match sserialize g s (bytes_of_hex pl) true [] with
          | Base.Ok bytes ->
            let (s2, o2) = sdecode_into sctp0 bytes in
            emit (Printf.sprintf "dcls=ok;scls=ok;cls=%s;%s" (cls o2) (fields s2))
          | so -> emit (Printf.sprintf "dcls=ok;scls=%s" (cls so)))
       | _ -> emit (Printf.sprintf "dcls=%s" (cls o)))
    | "pkt", (h :: rest) ->
      let extra = match rest with [e] -> bytes_of_hex e | _ -> [] in
      let (((s, chunks), tr), o) = sctp_packet g (bytes_of_hex h) extra in
      (match o with
       | Base.Panic _ -> emit "cls=panic"
       | _ -> emit (Printf.sprintf "cls=%s;tr=%s;%s;chunks=%s;render=ok" (cls o) (if tr then "1" else "0") (core s)
                      (String.concat "," (Stdlib.List.map show_chunk chunks))))
    | _ -> failwith ("lsctp op: " ^ op)) ops

let registered = Registry.register "Lsctp" run
