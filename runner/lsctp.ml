(* Lsctp runner: SCTP common header + chunk walk.  Ops: tbl dec dec2 ser rt pkt (see
   harness/cmd/gpverif/lsctp.go).  LSCTP_MODEL=orig selects the model of the unchanged tree. *)
open Util
open LsctpModel

let g = not (Sys.getenv_opt "LSCTP_MODEL" = Some "orig")
let zi = int_of_z
let cls (o : 'a Base.outcome) = match o with Base.Ok _ -> "ok" | Base.Err _ -> "err" | Base.Panic _ -> "panic"

let core (s : sctp) = Printf.sprintf "sp=%d;dp=%d;vtag=%d" (zi s.s_sp) (zi s.s_dp) (zi s.s_vtag)
let fields (s : sctp) =
  Printf.sprintf "%s;sum=%d;c=%s;p=%s;sport=%s;dport=%s" (core s) (zi s.s_sum)
    (hex_of_bytes s.s_contents) (hex_of_bytes s.s_payload) (hex_of_bytes s.s_sport) (hex_of_bytes s.s_dport)

let tbl : (int * (int * int) list) option ref = ref None
let show_next (s : sctp) : string =
  match !tbl with
  | None -> "next=-"
  | Some (pid, l) ->
    let f z = try Stdlib.List.assoc (zi z) l with Not_found -> pid in
    let a = f s.s_sp in
    let r = if a <> pid then a else (let b = f s.s_dp in if b <> pid then b else pid) in
    Printf.sprintf "next=%d" r

let show_dec (s, o) =
  Printf.sprintf "cls=%s;%s;%s;render=ok" (cls o) (fields s) (show_next s)

let chdr (c : chdr) =
  Printf.sprintf "%d/%d/%d/%d/%d/%d" (zi c.c_type) (zi c.c_flags) (zi c.c_len) (zi c.c_actual)
    (Stdlib.List.length c.c_contents) (Stdlib.List.length c.c_payload)
let show_params ps =
  String.concat "+" (Stdlib.List.map (fun (p : param) ->
    Printf.sprintf "%d.%d.%d.%s" (zi p.p_type) (zi p.p_len) (zi p.p_actual) (hex_of_bytes p.p_value)) ps)
let ints l = String.concat "." (Stdlib.List.map (fun z -> string_of_int (zi z)) l)
let show_chunk (ch : chunk) =
  match ch with
  | CData (c, ube, tsn, sid, sseq, ppid, pl) ->
    Printf.sprintf "data(%s|%d|%d|%d|%d|%d|%s)" (chdr c) (zi ube) (zi tsn) (zi sid) (zi sseq) (zi ppid) (hex_of_bytes pl)
  | CInit (c, a, b, o, i, t, ps) ->
    Printf.sprintf "init(%s|%d|%d|%d|%d|%d|%s)" (chdr c) (zi a) (zi b) (zi o) (zi i) (zi t) (show_params ps)
  | CSack (c, cum, arw, ng, nd, gs, ds) ->
    Printf.sprintf "sack(%s|%d|%d|%d|%d|%s|%s)" (chdr c) (zi cum) (zi arw) (zi ng) (zi nd) (ints gs) (ints ds)
  | CHeartbeat (c, ps) -> Printf.sprintf "hb(%s|%s)" (chdr c) (show_params ps)
  | CError (c, ps) -> Printf.sprintf "err(%s|%s)" (chdr c) (show_params ps)
  | CShutdown (c, t) -> Printf.sprintf "shut(%s|%d)" (chdr c) (zi t)
  | CShutdownAck c -> Printf.sprintf "shutack(%s)" (chdr c)
  | CCookieEcho (c, k) -> Printf.sprintf "cookie(%s|%s)" (chdr c) (hex_of_bytes k)
  | CEmpty c -> Printf.sprintf "empty(%s)" (chdr c)

let rec repeat_z v n = if n <= 0 then [] else v :: repeat_z v (n - 1)

let run (id : string) (ops : string list) (out : out_channel) =
  tbl := None;
  let step = ref 0 in
  let emit s = Printf.fprintf out "%s\t%d\t%s\n" id !step s; incr step in
  Stdlib.List.iter (fun op ->
    let (name, arg) = match String.index_opt op ':' with
      | Some i -> (String.sub op 0 i, String.sub op (i + 1) (String.length op - i - 1))
      | None -> (op, "") in
    let args = split_on ',' arg in
    match name, args with
    | "tbl", pid :: rest ->
      tbl := Some (int_of_string pid, Stdlib.List.filter_map (fun e ->
        match split_on '=' e with [p; l] -> Some (int_of_string p, int_of_string l) | _ -> None) rest)
    | "dec", [h] -> emit (show_dec (sdecode_into sctp0 (bytes_of_hex h)))
    | "dec2", [a; b] ->
      let (s1, _) = sdecode_into sctp0 (bytes_of_hex a) in
      emit (show_dec (sdecode_into s1 (bytes_of_hex b)))
    | "ser", [h; fcd; pl] ->
      let (s, o) = sdecode_into sctp0 (bytes_of_hex h) in
      let cs = fcd.[1] = '1' and d = fcd.[2] in
      let junk = if d = '1' then repeat_z (z_of_int 0xaa) 64 else [] in
      let so = sserialize g s (bytes_of_hex pl) cs junk in
      emit (Printf.sprintf "dcls=%s;cls=%s;out=%s" (cls o) (cls so) (match so with Base.Ok b -> hex_of_bytes b | _ -> ""))
    | "rt", [h; pl] ->
      let (s, o) = sdecode_into sctp0 (bytes_of_hex h) in
      (match o with
       | Base.Ok _ ->
         (match sserialize g s (bytes_of_hex pl) true [] with
          | Base.Ok bytes ->
            let (s2, o2) = sdecode_into sctp0 bytes in
            emit (Printf.sprintf "dcls=ok;scls=ok;cls=%s;%s" (cls o2) (fields s2))
          | so -> emit (Printf.sprintf "dcls=ok;scls=%s" (cls so)))
       | _ -> emit (Printf.sprintf "dcls=%s" (cls o)))
    | "pkt", (h :: rest) ->
      let extra = match rest with [e] -> bytes_of_hex e | _ -> [] in
      let (((s, chunks), tr), o) = sctp_packet g (bytes_of_hex h) extra in
      (match o with
       | Base.Panic _ -> emit "cls=panic"
       | _ -> emit (Printf.sprintf "cls=%s;tr=%s;%s;chunks=%s;render=ok" (cls o) (if tr then "1" else "0") (core s)
                      (String.concat "," (Stdlib.List.map show_chunk chunks))))
    | _ -> failwith ("lsctp op: " ^ op)) ops

let registered = Registry.register "Lsctp" run

(* ---- extraction cross-check inside Coq (see c18.ml): every model call this glue makes for the ops of a
   sampled case (sdecode_into, sserialize, sctp_packet with the same variant flag LSCTP_MODEL), restated
   as a Gallina term and recomputed by vm_compute, must give the value the extracted code computed here. *)
let coq_sctp (s : sctp) =
  Printf.sprintf "(Build_sctp %s %s %s %s %s %s %s %s)" (coq_z s.s_sp) (coq_z s.s_dp) (coq_z s.s_vtag) (coq_z s.s_sum)
    (coq_zlist s.s_sport) (coq_zlist s.s_dport) (coq_zlist s.s_contents) (coq_zlist s.s_payload)
let coq_chdr (c : chdr) =
  Printf.sprintf "(Build_chdr %s %s %s %s %s %s)" (coq_z c.c_type) (coq_z c.c_flags) (coq_z c.c_len) (coq_z c.c_actual)
    (coq_zlist c.c_contents) (coq_zlist c.c_payload)
let coq_params ps = coq_list (fun (p : param) ->
  Printf.sprintf "Build_param %s %s %s %s" (coq_z p.p_type) (coq_z p.p_len) (coq_z p.p_actual) (coq_zlist p.p_value)) ps
let coq_chunk (ch : chunk) = match ch with
  | CData (c, ube, tsn, sid, sseq, ppid, pl) ->
    Printf.sprintf "CData %s %s %s %s %s %s %s" (coq_chdr c) (coq_z ube) (coq_z tsn) (coq_z sid) (coq_z sseq) (coq_z ppid) (coq_zlist pl)
  | CInit (c, a, b, o, i, t, ps) ->
    Printf.sprintf "CInit %s %s %s %s %s %s %s" (coq_chdr c) (coq_z a) (coq_z b) (coq_z o) (coq_z i) (coq_z t) (coq_params ps)
  | CSack (c, cum, arw, ng, nd, gs, ds) ->
    Printf.sprintf "CSack %s %s %s %s %s %s %s" (coq_chdr c) (coq_z cum) (coq_z arw) (coq_z ng) (coq_z nd) (coq_zlist gs) (coq_zlist ds)
  | CHeartbeat (c, ps) -> Printf.sprintf "CHeartbeat %s %s" (coq_chdr c) (coq_params ps)
  | CError (c, ps) -> Printf.sprintf "CError %s %s" (coq_chdr c) (coq_params ps)
  | CShutdown (c, t) -> Printf.sprintf "CShutdown %s %s" (coq_chdr c) (coq_z t)
  | CShutdownAck c -> "CShutdownAck " ^ coq_chdr c
  | CCookieEcho (c, k) -> Printf.sprintf "CCookieEcho %s %s" (coq_chdr c) (coq_zlist k)
  | CEmpty c -> "CEmpty " ^ coq_chdr c

let to_coq (idx : int) (ops : string list) (out : out_channel) =
  let n = ref 0 in
  let name () = incr n; Printf.sprintf "sample_%d_%d" idx !n in
  let small h = String.length h <= 300 in
  let ex_dec (olds : string) (old : sctp) (d : BinNums.coq_Z list) =
    let r = sdecode_into old d in
    coq_example_named out (name ()) (Printf.sprintf "sdecode_into %s %s" olds (coq_zlist d)) (coq_pair coq_sctp (coq_outcome coq_unit) r); r in
  let ex_ser (s : sctp) (pl : BinNums.coq_Z list) (cs : bool) (junk1 : bool) =
    let r = sserialize g s pl cs (if junk1 then repeat_z (z_of_int 0xaa) 64 else []) in
    coq_example_named out (name ())
      (Printf.sprintf "sserialize %s %s %s %s %s" (coq_bool g) (coq_sctp s) (coq_zlist pl) (coq_bool cs) (if junk1 then "(repeat 170%Z 64%nat)" else "[]"))
      (coq_outcome coq_zlist r); r in
  Stdlib.List.iter (fun op ->
    let (nm, arg) = match String.index_opt op ':' with
      | Some i -> (String.sub op 0 i, String.sub op (i + 1) (String.length op - i - 1))
      | None -> (op, "") in
    let args = split_on ',' arg in
    if !n < 6 then
    match nm, args with
    | "dec", [h] when small h -> ignore (ex_dec "sctp0" sctp0 (bytes_of_hex h))
    | "dec2", [a; b] when small a && small b ->
      let (s1, _) = ex_dec "sctp0" sctp0 (bytes_of_hex a) in ignore (ex_dec (coq_sctp s1) s1 (bytes_of_hex b))
    | "ser", [h; fcd; pl] when small h && small pl ->
      let (s, _) = sdecode_into sctp0 (bytes_of_hex h) in
      ignore (ex_ser s (bytes_of_hex pl) (fcd.[1] = '1') (fcd.[2] = '1'))
    | "rt", [h; pl] when small h && small pl ->
      let (s, o) = ex_dec "sctp0" sctp0 (bytes_of_hex h) in
      (match o with
       | Base.Ok _ -> (match ex_ser s (bytes_of_hex pl) true false with
           | Base.Ok bytes -> ignore (ex_dec "sctp0" sctp0 bytes)
           | _ -> ())
       | _ -> ())
    | "pkt", (h :: rest) when small h ->
      let extra = match rest with [e] -> bytes_of_hex e | _ -> [] in
      let d = bytes_of_hex h in
      let (((s, chunks), tr), o) = sctp_packet g d extra in
      coq_example_named out (name ()) (Printf.sprintf "sctp_packet %s %s %s" (coq_bool g) (coq_zlist d) (coq_zlist extra))
        (Printf.sprintf "(%s, %s, %s, %s)" (coq_sctp s) (coq_list coq_chunk chunks) (coq_bool tr) (coq_outcome coq_unit o))
    | _ -> ()) ops
let registered_coq = Registry.register_coq "Lsctp" ("From GP Require Import Base LsctpModel.\n", to_coq)
