(* Ldns runner: DNS layer; mirrors harness/cmd/gpverif/ldns.go *)
open Util
open N6util
module M = LdnsModel

let hx = hex_of_bytes
let cat = String.concat
let lmap = Stdlib.List.map

let cls_of (o : 'a Base.outcome) : string = cls_name o

let q_str (q : M.question) = Printf.sprintf "%s~%s~%s" (hx q.M.q_name) (zi q.M.q_type) (zi q.M.q_class)

let txts_str (t : BinNums.coq_Z list list) =
  Printf.sprintf "%d:%s" (Stdlib.List.length t) (cat "." (lmap hx t))

let r_str (r : M.rr) =
  let s = r.M.r_soa and v = r.M.r_srv and m = r.M.r_mx in
  let soa = Printf.sprintf "%s.%s.%s.%s.%s.%s.%s" (hx s.M.so_mname) (hx s.M.so_rname) (zi s.M.so_serial)
      (zi s.M.so_refresh) (zi s.M.so_retry) (zi s.M.so_expire) (zi s.M.so_minimum) in
  let srv = Printf.sprintf "%s.%s.%s.%s" (zi v.M.sv_prio) (zi v.M.sv_weight) (zi v.M.sv_port) (hx v.M.sv_name) in
  let mx = Printf.sprintf "%s.%s" (zi m.M.mx_pref) (hx m.M.mx_name) in
  let n = r.M.r_naptr in
  let naptr = cat "." [zi n.M.na_order; zi n.M.na_pref; hx n.M.na_flags; hx n.M.na_service; hx n.M.na_regexp; hx n.M.na_repl] in
  let opt = Printf.sprintf "%d:%s" (Stdlib.List.length r.M.r_opt)
      (cat "." (lmap (fun (o : M.dopt) -> zi o.M.op_code ^ "-" ^ hx o.M.op_data) r.M.r_opt)) in
  let g = r.M.r_rrsig in
  let rrsig = cat "." [zi g.M.sg_covered; zi g.M.sg_alg; zi g.M.sg_labels; zi g.M.sg_ottl; zi g.M.sg_exp; zi g.M.sg_inc;
                       zi g.M.sg_tag; hx g.M.sg_signer; hx g.M.sg_sig] in
  let k = r.M.r_dnskey in
  let dnskey = cat "." [zi k.M.dk_flags; zi k.M.dk_proto; zi k.M.dk_alg; hx k.M.dk_key] in
  let b = r.M.r_svcb in
  let svcb = Printf.sprintf "%s.%s.%d:%s" (zi b.M.sb_prio) (hx b.M.sb_target) (Stdlib.List.length b.M.sb_params)
      (cat "_" (lmap (fun (p : M.svcparam) -> zi p.M.sp_key ^ "-" ^ hx p.M.sp_value) b.M.sb_params)) in
  let u = r.M.r_uri in
  let uri = cat "." [zi u.M.u_prio; zi u.M.u_weight; hx u.M.u_target] in
  cat "~" [hx r.M.r_name; zi r.M.r_type; zi r.M.r_class; zi r.M.r_ttl; zi r.M.r_dlen; hx r.M.r_data; hx r.M.r_ip;
           hx r.M.r_ns; hx r.M.r_cname; hx r.M.r_ptr; txts_str r.M.r_txts; hx r.M.r_txt; soa; srv; mx;
           naptr; opt; rrsig; dnskey; svcb; uri]

let rs_str rs = cat "|" (lmap r_str rs)

let hdr_str (d : M.dns) =
  cat "." [zi d.M.d_id; b2i d.M.d_qr; zi d.M.d_opcode; b2i d.M.d_aa; b2i d.M.d_tc; b2i d.M.d_rd; b2i d.M.d_ra;
           zi d.M.d_z; zi d.M.d_rcode; zi d.M.d_qdcount; zi d.M.d_ancount; zi d.M.d_nscount; zi d.M.d_arcount]

let fields (d : M.dns) =
  Printf.sprintf "h=%s;q=%s;an=%s;ns=%s;ar=%s" (hdr_str d) (cat "|" (lmap q_str d.M.d_questions))
    (rs_str d.M.d_answers) (rs_str d.M.d_authorities) (rs_str d.M.d_additionals)

let state (d : M.dns) =
  Printf.sprintf "%s;c=%d;p=%d;next=%s" (fields d) (Stdlib.List.length d.M.d_contents)
    (Stdlib.List.length d.M.d_payload) (zi (M.next_layer_type d))

let render (d : M.dns) = if M.render_panics d then "render=panic" else "render=ok"

let after (d : M.dns) =
  let dl = lmap (fun (r : M.rr) -> zi r.M.r_dlen) (d.M.d_answers @ d.M.d_authorities @ d.M.d_additionals) in
  Printf.sprintf "cnt=%s.%s.%s.%s;dl=%s" (zi d.M.d_qdcount) (zi d.M.d_ancount) (zi d.M.d_nscount) (zi d.M.d_arcount) (cat "." dl)

(* ---- values built from public fields *)
let nth l i = Stdlib.List.nth l i
let bx = bytes_of_hex

let build_r s : M.rr =
  let f = Array.of_list (split_on '~' s) in
  let (cnt, lst) = split_first ':' f.(10) in
  let txts = if int_of_string cnt > 0 then lmap bx (split_on '.' lst) else [] in
  let so = Array.of_list (split_on '.' f.(12)) in
  let sv = Array.of_list (split_on '.' f.(13)) in
  let m = Array.of_list (split_on '.' f.(14)) in
  { M.rr0 with
    M.r_name = bx f.(0); r_type = zs f.(1); r_class = zs f.(2); r_ttl = zs f.(3); r_dlen = zs f.(4); r_data = bx f.(5);
    r_ip = bx f.(6); r_ns = bx f.(7); r_cname = bx f.(8); r_ptr = bx f.(9); r_txts = txts; r_txt = bx f.(11);
    r_soa = { M.so_mname = bx so.(0); so_rname = bx so.(1); so_serial = zs so.(2); so_refresh = zs so.(3);
              so_retry = zs so.(4); so_expire = zs so.(5); so_minimum = zs so.(6) };
    r_srv = { M.sv_prio = zs sv.(0); sv_weight = zs sv.(1); sv_port = zs sv.(2); sv_name = bx sv.(3) };
    r_mx = { M.mx_pref = zs m.(0); mx_name = bx m.(1) };
    r_naptr = (let n = Array.of_list (split_on '.' f.(15)) in
               { M.na_order = zs n.(0); na_pref = zs n.(1); na_flags = bx n.(2); na_service = bx n.(3); na_regexp = bx n.(4); na_repl = bx n.(5) });
    r_opt = (let (c, l) = split_first ':' f.(16) in
             if int_of_string c > 0 then lmap (fun o -> let (k, d) = split_first '-' o in { M.op_code = zs k; op_data = bx d }) (split_on '.' l) else []);
    r_rrsig = (let g = Array.of_list (split_on '.' f.(17)) in
               { M.sg_covered = zs g.(0); sg_alg = zs g.(1); sg_labels = zs g.(2); sg_ottl = zs g.(3); sg_exp = zs g.(4); sg_inc = zs g.(5);
                 sg_tag = zs g.(6); sg_signer = bx g.(7); sg_sig = bx g.(8) });
    r_dnskey = (let k = Array.of_list (split_on '.' f.(18)) in
                { M.dk_flags = zs k.(0); dk_proto = zs k.(1); dk_alg = zs k.(2); dk_key = bx k.(3) });
    r_svcb = (let b = Array.of_list (split_on '.' f.(19)) in
              let (c, l) = split_first ':' b.(2) in
              { M.sb_prio = zs b.(0); sb_target = bx b.(1);
                sb_params = if int_of_string c > 0 then lmap (fun o -> let (k, v) = split_first '-' o in { M.sp_key = zs k; sp_value = bx v }) (split_on '_' l) else [] });
    r_uri = (let u = Array.of_list (split_on '.' f.(20)) in { M.u_prio = zs u.(0); u_weight = zs u.(1); u_target = bx u.(2) }) }

let build_rs s = if s = "" then [] else lmap build_r (split_on '|' s)

let build v : M.dns =
  let parts = Array.of_list (split_on ';' v) in
  let h = Array.of_list (split_on '.' parts.(0)) in
  let qs = if parts.(1) = "" then [] else
      lmap (fun q -> let f = Array.of_list (split_on '~' q) in
             { M.q_name = bx f.(0); q_type = zs f.(1); q_class = zs f.(2); q_meta = None }) (split_on '|' parts.(1)) in
  { M.d_id = zs h.(0); d_qr = (h.(1) = "1"); d_opcode = zs h.(2); d_aa = (h.(3) = "1"); d_tc = (h.(4) = "1");
    d_rd = (h.(5) = "1"); d_ra = (h.(6) = "1"); d_z = zs h.(7); d_rcode = zs h.(8);
    d_qdcount = zs h.(9); d_ancount = zs h.(10); d_nscount = zs h.(11); d_arcount = zs h.(12);
    d_questions = qs; d_answers = build_rs parts.(2); d_authorities = build_rs parts.(3); d_additionals = build_rs parts.(4);
    d_contents = []; d_payload = [] }

let decode_fresh data = M.decode_into M.dns_fresh data

let run (id : string) (ops : string list) (out : out_channel) =
  let step = ref 0 in
  let emit s = Printf.fprintf out "%s\t%d\t%s\n" id !step s; incr step in
  Stdlib.List.iter (fun op ->
    let (name, a) = args_of op in
    let arg i = if i < Array.length a then a.(i) else "" in
    match name with
    | "dec" ->
      let ((d, r), tr) = decode_fresh (bx (arg 0)) in
      emit (Printf.sprintf "cls=%s;trunc=%s;%s;%s" (cls_of r) (b2i tr) (state d) (render d))
    | "dec2" ->
      let ((d0, _), _) = decode_fresh (bx (arg 0)) in
      let ((d, r), tr) = M.decode_into d0 (bx (arg 1)) in
      emit (Printf.sprintf "cls=%s;trunc=%s;%s;%s" (cls_of r) (b2i tr) (state d) (render d))
    | "ser" | "nser" ->
      let (fcd, payload, d) =
        if name = "ser" then (let ((d, _), _) = decode_fresh (bx (arg 0)) in (arg 1, arg 2, d))
        else (arg 0, arg 1, build (arg 2)) in
      let (fix, csum, mode) = flags fcd in
      let payload = payload_of payload in
      let junk =
        if mode = 1 then begin
          match M.serialize d payload fix csum [] with
          | (Base.Ok b, _) -> junk_of 1 (Stdlib.List.length b)
          | _ -> junk_of 1 64
        end else [] in
      let (r, d') = M.serialize d payload fix csum junk in
      let o = match r with Base.Ok b -> hx b | _ -> "" in
      emit (Printf.sprintf "cls=%s;out=%s;%s" (cls_of r) o (after d'))
    | "rt" | "nrt" ->
      let (payload, d) =
        if name = "rt" then (let ((d, _), _) = decode_fresh (bx (arg 0)) in (arg 1, d))
        else (arg 0, build (arg 1)) in
      let payload = payload_of payload in
      let (r, ((d2, r2), tr2)) = M.roundtrip d payload [] in
      (match r with
       | Base.Ok _ ->
         emit (Printf.sprintf "scls=ok;cls=%s;trunc=%s;%s;%s" (cls_of r2) (b2i tr2) (state d2) (render d2))
       | _ ->
         emit (Printf.sprintf "scls=%s;cls=err;trunc=0;%s;%s" (cls_of r) (state M.dns_fresh) (render M.dns_fresh)))
    | _ -> failwith ("Ldns op: " ^ op)) ops

let registered = Registry.register "Ldns" run
