(* Lgeneve runner: Geneve codec model (coq/Model/LgeneveModel.v) on the ops of harness/cmd/gpverif/lgeneve.go *)
open Util
open Lmiscutil
open LgeneveModel

let ofield (o : gopt) = Printf.sprintf "%s~%s~%s~%s~%s" (i o.go_class) (i o.go_type) (i o.go_flags) (i o.go_length) (hex_of_bytes o.go_data)
let fields (l : geneve) = Printf.sprintf "ver=%s;ol=%s;oam=%s;crit=%s;proto=%s;vni=%s;opts=%s" (i l.gn_version) (i l.gn_optlen) (b01 l.gn_oam)
  (b01 l.gn_critical) (i l.gn_protocol) (i l.gn_vni) (String.concat "+" (Stdlib.List.map ofield l.gn_options))
let opt_of s = match split_on '~' s with
  | [c; t; f; len; d] -> { go_class = zi c; go_type = zi t; go_flags = zi f; go_length = zi len; go_data = bytes_of_hex d }
  | _ -> failwith "geneve option spec"
let of_spec s = match split_on '.' s with
  | [v; ol; oam; cr; pr; vni; opts] ->
    { gn_contents = []; gn_payload = []; gn_version = zi v; gn_optlen = zi ol; gn_oam = (oam = "1"); gn_critical = (cr = "1");
      gn_protocol = zi pr; gn_vni = zi vni; gn_options = (if opts = "-" then [] else Stdlib.List.map opt_of (split_on '+' opts)) }
  | _ -> failwith "geneve spec"
let desc = { fresh = gn_fresh; decode = gn_decode_into; serialize = Some gn_serialize; fields;
  contents = (fun l -> l.gn_contents); payload = (fun l -> l.gn_payload); next = (fun _ l -> i (gn_next l));
  render_panics = gn_render_panics; of_spec; junk_len = 1200 }
let run id ops out = run_generic desc id ops out
let registered = Registry.register "Lgeneve" run
