(* Lusb runner: usbmon / USB setup decoder models (coq/Model/LusbModel.v) on the ops of harness/cmd/gpverif/lusb.go; 64-bit values in hex *)
open Util
open Lmiscutil
open LusbModel
let fields (l : usb) = Printf.sprintf "id=%s;ev=%s;tt=%s;in=%s;ep=%s;dev=%s;bus=%s;ts=%s;tu=%s;setup=%s;data=%s;st=%s;ul=%s;udl=%s" (hex_of_z l.u_id) (i l.u_event) (i l.u_ttype)
  (b01 l.u_dirin) (i l.u_endpoint) (i l.u_devaddr) (i l.u_bus) (hex_of_z l.u_tsec) (i l.u_tusec) (b01 l.u_setup) (b01 l.u_data) (i l.u_status) (i l.u_urblen) (i l.u_urbdatalen)
let udesc = { fresh = usb_fresh; decode = usb_decode_into; serialize = None; fields; contents = (fun l -> l.u_contents); payload = (fun l -> l.u_payload);
  next = (fun _ l -> let k = int_of_z (usb_next l) in if k = 1000 then "setup" else string_of_int k); render_panics = usb_render_panics;
  of_spec = (fun _ -> failwith "no spec"); junk_len = 0 }
let sfields (l : usbsetup) = Printf.sprintf "rt=%s;rq=%s;val=%s;idx=%s;len=%s" (i l.us_rtype) (i l.us_request) (i l.us_value) (i l.us_index) (i l.us_length)
let sdesc = { fresh = us_fresh; decode = us_decode_into; serialize = None; fields = sfields; contents = (fun l -> l.us_contents); payload = (fun l -> l.us_payload);
  next = (fun _ _ -> "payload"); render_panics = us_render_panics; of_spec = (fun _ -> failwith "no spec"); junk_len = 0 }
let run id ops out = match ops with
  | "L:usb" :: rest -> run_generic udesc id rest out
  | "L:setup" :: rest -> run_generic sdesc id rest out
  | _ -> failwith "Lusb: first op must be L:usb or L:setup"
let registered = Registry.register "Lusb" run
