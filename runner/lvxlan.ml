(* Lvxlan runner: VXLAN codec model (coq/Model/LvxlanModel.v) on the ops of harness/cmd/gpverif/lvxlan.go *)
open Util
open Lmiscutil
open LvxlanModel

let fields (l : vxlan) = Printf.sprintf "i=%s;vni=%s;g=%s;d=%s;a=%s;pol=%s" (b01 l.v_valid) (i l.v_vni) (b01 l.v_gbp) (b01 l.v_dontlearn) (b01 l.v_applied) (i l.v_policy)
let of_spec s = match split_on '.' s with
  | [iv; vni; g; d; a; pol] -> { v_contents = []; v_payload = []; v_valid = (iv = "1"); v_vni = zi vni; v_gbp = (g = "1");
                                 v_dontlearn = (d = "1"); v_applied = (a = "1"); v_policy = zi pol }
  | _ -> failwith "vxlan spec"
let desc = { fresh = vx_fresh; decode = vx_decode_into; serialize = Some vx_serialize; fields;
  contents = (fun l -> l.v_contents); payload = (fun l -> l.v_payload); next = (fun _ _ -> "ethernet");
  render_panics = vx_render_panics; of_spec; junk_len = 8 }
let run id ops out = run_generic desc id ops out
let registered = Registry.register "Lvxlan" run
