(* Ldot11ctrl runner: see ldot11subutil.ml *)
let run = Ldot11subutil.run
let registered = Registry.register "Ldot11ctrl" run
