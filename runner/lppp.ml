(* Lppp runner: PPP codec model (coq/Model/LpppModel.v) on the ops of harness/cmd/gpverif/lppp.go *)
open Util
open Lmiscutil
open LpppModel

let fields (l : ppp) = Printf.sprintf "ty=%s;pptp=%s" (i l.p_type) (b01 l.p_pptp)
let of_spec s = match split_on '.' s with
  | [t; p] -> { p_contents = []; p_payload = []; p_type = zi t; p_pptp = (p = "1") }
  | _ -> failwith "ppp spec"
let desc = { fresh = ppp_fresh; decode = (fun _ d -> ppp_decode d); serialize = Some ppp_serialize; fields;
  contents = (fun l -> l.p_contents); payload = (fun l -> l.p_payload);
  next = (fun cls l -> if cls <> "ok" then "none" else i (ppp_next l));
  render_panics = ppp_render_panics; of_spec; junk_len = 8 }
let run id ops out = run_generic desc id ops out
let registered = Registry.register "Lppp" run
