(* conversions between OCaml ints/strings and the extracted Coq numbers; trusted glue *)
open BinNums
open Datatypes

let rec pos_of_int (n : int) : positive =
  if n = 1 then Coq_xH
  else if n land 1 = 0 then Coq_xO (pos_of_int (n lsr 1))
  else Coq_xI (pos_of_int (n lsr 1))

let z_of_int (n : int) : coq_Z =
  if n = 0 then Z0 else if n > 0 then Zpos (pos_of_int n) else Zneg (pos_of_int (-n))

let n_of_int (n : int) : coq_N = if n = 0 then N0 else Npos (pos_of_int n)

let rec nat_of_int (n : int) : nat =
  let rec go acc k = if k = 0 then acc else go (S acc) (k - 1) in go O n

let int_of_nat (n : nat) : int =
  let rec go acc = function O -> acc | S m -> go (acc + 1) m in go 0 n

(* decimal string <-> Z, for values beyond OCaml's 63-bit ints *)
let rec pos_succ = function
  | Coq_xH -> Coq_xO Coq_xH | Coq_xO p -> Coq_xI p | Coq_xI p -> Coq_xO (pos_succ p)

let rec int_of_pos = function
  | Coq_xH -> 1 | Coq_xO p -> 2 * int_of_pos p | Coq_xI p -> 2 * int_of_pos p + 1
let int_of_z = function Z0 -> 0 | Zpos p -> int_of_pos p | Zneg p -> - (int_of_pos p)
let int_of_n = function N0 -> 0 | Npos p -> int_of_pos p

(* arbitrary precision decimal conversion using lists of base-10^9 limbs is overkill:
   values that exceed 62 bits are exchanged in hex *)
let hexdig = "0123456789abcdef"

let rec pos_bits (p : positive) : bool list = (* lsb first *)
  match p with Coq_xH -> [true] | Coq_xO q -> false :: pos_bits q | Coq_xI q -> true :: pos_bits q

let hex_of_pos (p : positive) : string =
  let bits = Array.of_list (pos_bits p) in
  let n = Array.length bits in
  let nd = (n + 3) / 4 in
  let b = Bytes.make nd '0' in
  for d = 0 to nd - 1 do
    let v = ref 0 in
    for k = 3 downto 0 do
      let i = d * 4 + k in
      v := !v * 2 + (if i < n && bits.(i) then 1 else 0)
    done;
    Bytes.set b (nd - 1 - d) hexdig.[!v]
  done;
  Bytes.to_string b

let hex_of_z = function Z0 -> "0" | Zpos p -> hex_of_pos p | Zneg p -> "-" ^ hex_of_pos p

let hexval c = match c with
  | '0'..'9' -> Char.code c - 48 | 'a'..'f' -> Char.code c - 87 | 'A'..'F' -> Char.code c - 55
  | _ -> failwith "hexval"

let z_of_hex (s : string) : coq_Z =
  let neg = String.length s > 0 && s.[0] = '-' in
  let s = if neg then String.sub s 1 (String.length s - 1) else s in
  (* build positive from msb to lsb *)
  let acc = ref None in
  String.iter (fun c ->
    let v = hexval c in
    for k = 3 downto 0 do
      let bit = (v lsr k) land 1 = 1 in
      acc := (match !acc with
        | None -> if bit then Some Coq_xH else None
        | Some p -> Some (if bit then Coq_xI p else Coq_xO p))
    done) s;
  match !acc with None -> Z0 | Some p -> if neg then Zneg p else Zpos p

(* byte strings: lower-case hex <-> list of Z *)
let bytes_of_hex (s : string) : coq_Z list =
  let n = String.length s / 2 in
  let rec go i acc = if i < 0 then acc else go (i - 1) (z_of_int (hexval s.[2*i] * 16 + hexval s.[2*i+1]) :: acc) in
  go (n - 1) []

let hex_of_bytes (l : coq_Z list) : string =
  let b = Buffer.create 64 in
  Stdlib.List.iter (fun z -> let v = int_of_z z land 255 in
    Buffer.add_char b hexdig.[v lsr 4]; Buffer.add_char b hexdig.[v land 15]) l;
  Buffer.contents b

let split_on c s = String.split_on_char c s
let ints_csv (l : int list) = String.concat "," (Stdlib.List.map string_of_int l)
