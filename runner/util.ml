(* conversions between OCaml ints/strings and the extracted Coq numbers; trusted glue *)
open BinNums
open Datatypes

let rec pos_of_int (n : int) : positive =
  if n = 1 then Coq_xH
  else if n land 1 = 0 then Coq_xO (pos_of_int (n lsr 1))
  else Coq_xI (pos_of_int (n lsr 1))

let z_of_int (n : int) : coq_Z =
  if n = 0 then Z0 else if n > 0 then Zpos (pos_of_int n) else Zneg (pos_of_int (-n))

let n_of_int (n : int) : coq_N = if n = 0 then N0 else Npos (pos_of_int n)

let rec nat_of_int (n : int) : nat =
  let rec go acc k = if k = 0 then acc else go (S acc) (k - 1) in go O n

let int_of_nat (n : nat) : int =
  let rec go acc = function O -> acc | S m -> go (acc + 1) m in go 0 n

(* decimal string <-> Z, for values beyond OCaml's 63-bit ints *)
let rec pos_succ = function
  | Coq_xH -> Coq_xO Coq_xH | Coq_xO p -> Coq_xI p | Coq_xI p -> Coq_xO (pos_succ p)

let rec int_of_pos = function
  | Coq_xH -> 1 | Coq_xO p -> 2 * int_of_pos p | Coq_xI p -> 2 * int_of_pos p + 1
let int_of_z = function Z0 -> 0 | Zpos p -> int_of_pos p | Zneg p -> - (int_of_pos p)
let int_of_n = function N0 -> 0 | Npos p -> int_of_pos p

(* arbitrary precision decimal conversion using lists of base-10^9 limbs is overkill:
   values that exceed 62 bits are exchanged in hex *)
let hexdig = "0123456789abcdef"

let rec pos_bits (p : positive) : bool list = (* lsb first *)
  match p with Coq_xH -> [true] | Coq_xO q -> false :: pos_bits q | Coq_xI q -> true :: pos_bits q

let hex_of_pos (p : positive) : string =
  let bits = Array.of_list (pos_bits p) in
  let n = Array.length bits in
  let nd = (n + 3) / 4 in
  let b = Bytes.make nd '0' in
  for d = 0 to nd - 1 do
    let v = ref 0 in
    for k = 3 downto 0 do
      let i = d * 4 + k in
      v := !v * 2 + (if i < n && bits.(i) then 1 else 0)
    done;
    Bytes.set b (nd - 1 - d) hexdig.[!v]
  done;
  Bytes.to_string b

let hex_of_z = function Z0 -> "0" | Zpos p -> hex_of_pos p | Zneg p -> "-" ^ hex_of_pos p

let hexval c = match c with
  | '0'..'9' -> Char.code c - 48 | 'a'..'f' -> Char.code c - 87 | 'A'..'F' -> Char.code c - 55
  | _ -> failwith "hexval"

let z_of_hex (s : string) : coq_Z =
  let neg = String.length s > 0 && s.[0] = '-' in
  let s = if neg then String.sub s 1 (String.length s - 1) else s in
  (* build positive from msb to lsb *)
  let acc = ref None in
  String.iter (fun c ->
    let v = hexval c in
    for k = 3 downto 0 do
      let bit = (v lsr k) land 1 = 1 in
      acc := (match !acc with
        | None -> if bit then Some Coq_xH else None
        | Some p -> Some (if bit then Coq_xI p else Coq_xO p))
    done) s;
  match !acc with None -> Z0 | Some p -> if neg then Zneg p else Zpos p

(* byte strings: lower-case hex <-> list of Z *)
let bytes_of_hex (s : string) : coq_Z list =
  let n = String.length s / 2 in
  let rec go i acc = if i < 0 then acc else go (i - 1) (z_of_int (hexval s.[2*i] * 16 + hexval s.[2*i+1]) :: acc) in
  go (n - 1) []

let hex_of_bytes (l : coq_Z list) : string =
  let b = Buffer.create 64 in
  Stdlib.List.iter (fun z -> let v = int_of_z z land 255 in
    Buffer.add_char b hexdig.[v lsr 4]; Buffer.add_char b hexdig.[v land 15]) l;
  Buffer.contents b

let split_on c s = String.split_on_char c s
let ints_csv (l : int list) = String.concat "," (Stdlib.List.map string_of_int l)

(* ---- printers of extracted values as Gallina terms (extraction cross-check inside Coq:
   `Registry.register_coq`, see the end of c18.ml).  Numbers that fit 60 bits are printed in
   decimal, larger ones as hexadecimal literals (Coq >= 8.13 parses 0x.. in Z/N/positive scope). *)
let rec pos_nbits = function Coq_xH -> 1 | Coq_xO p | Coq_xI p -> 1 + pos_nbits p
let coq_pos_lit (p : positive) : string =
  if pos_nbits p <= 60 then string_of_int (int_of_pos p) else "0x" ^ hex_of_pos p
let coq_z (z : coq_Z) : string = match z with
  | Z0 -> "0%Z" | Zpos p -> coq_pos_lit p ^ "%Z" | Zneg p -> "(-" ^ coq_pos_lit p ^ ")%Z"
let coq_n (n : coq_N) : string = match n with N0 -> "0%N" | Npos p -> coq_pos_lit p ^ "%N"
let coq_pos (p : positive) : string = coq_pos_lit p ^ "%positive"
let coq_nat (n : nat) : string = Printf.sprintf "%d%%nat" (int_of_nat n)
let coq_bool (b : bool) : string = if b then "true" else "false"
let coq_list (f : 'a -> string) (l : 'a list) : string = "[" ^ String.concat "; " (Stdlib.List.map f l) ^ "]"
let coq_zlist (l : coq_Z list) : string = coq_list coq_z l
let coq_option (f : 'a -> string) (o : 'a option) : string = match o with None -> "None" | Some x -> "(Some " ^ f x ^ ")"
let coq_pair (f : 'a -> string) (g : 'b -> string) ((a, b) : 'a * 'b) : string = "(" ^ f a ^ ", " ^ g b ^ ")"
let coq_unit () : string = "tt"
(* one Example proved by evaluation inside Coq *)
let coq_example_named (out : out_channel) (name : string) (lhs : string) (rhs : string) : unit =
  Printf.fprintf out "Example %s :\n  %s\n  = %s.\nProof. vm_compute. reflexivity. Qed.\n" name lhs rhs
let coq_example (out : out_channel) (idx : int) (lhs : string) (rhs : string) : unit =
  coq_example_named out (Printf.sprintf "sample_%d" idx) lhs rhs
let coq_outcome (f : 'a -> string) (o : 'a Base.outcome) : string = match o with
  | Base.Ok v -> "(Ok " ^ f v ^ ")" | Base.Err c -> "(Err " ^ coq_z c ^ ")" | Base.Panic s -> "(Panic " ^ coq_z s ^ ")"
