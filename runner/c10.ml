(* C10 runner: tcpassembly half-connection model.
   ops: cfg:maxPer,maxTotal  src:isn,hexS,w (ignored: oracle data)  seg:seq,flags,ts,hex
        fot:t  fall        flags: 1=SYN 2=FIN 4=RST *)
open Util

let tag_name n = match n with
  | 1 -> "out-of-order-queue" | 2 -> "overlap-trim" | 3 -> "duplicate-drop" | 4 -> "wrap-crossed"
  | 5 -> "limit-flush" | 6 -> "age-flush" | 7 -> "late-syn" | 8 -> "multi-page" | _ -> "other"

let chunk (r : C10Model.reassembly) =
  Printf.sprintf "%d/%s/%d/%d" (int_of_z r.C10Model.r_skip) (hex_of_bytes r.C10Model.r_bytes)
    (if r.C10Model.r_start then 1 else 0) (if r.C10Model.r_end then 1 else 0)

let parse (ops : string list) : int * int * C10Model.op list =
  let mp = ref 0 and mt = ref 0 in
  let l = Stdlib.List.filter_map (fun s ->
    match split_on ':' s with
    | ["cfg"; a] -> (match split_on ',' a with
        | [p; t] -> mp := int_of_string p; mt := int_of_string t; None | _ -> failwith "cfg")
    | "src" :: _ -> None
    | ["seg"; a] -> (match split_on ',' a with
        | [sq; fl; ts; h] ->
          let f = int_of_string fl in
          Some (C10Model.Segment (z_of_int (int_of_string sq), f land 1 <> 0, f land 2 <> 0, f land 4 <> 0,
                                  bytes_of_hex h, z_of_int (int_of_string ts), BinNums.Z0))  (* ghost offset: unused at run time *)
        | _ -> failwith "seg")
    | ["fot"; t] -> Some (C10Model.FlushOlderThan (z_of_int (int_of_string t)))
    | ["fall"] -> Some C10Model.FlushAll
    | _ -> failwith ("c10 op: " ^ s)) ops in
  (!mp, !mt, l)

let run (id : string) (ops : string list) (out : out_channel) =
  let (mp, mt, l) = parse ops in
  let tr = C10Model.run (z_of_int mp) (z_of_int mt) l in
  let tags = Hashtbl.create 8 in
  Stdlib.List.iteri (fun i ((o : C10Model.out), tg) ->
    Stdlib.List.iter (fun t -> Hashtbl.replace tags (tag_name (int_of_z t)) ()) tg;
    let calls = String.concat "|" (Stdlib.List.map (fun c -> String.concat "," (Stdlib.List.map chunk c)) o.C10Model.o_calls) in
    Printf.fprintf out "%s\t%d\tnew=%d;calls=%s;done=%d;panic=%d\n" id i
      (if o.C10Model.o_new then 1 else 0) calls
      (if o.C10Model.o_done then 1 else 0) (if o.C10Model.o_panic then 1 else 0)) tr;
  let tl = Stdlib.List.sort compare (Hashtbl.fold (fun k () acc -> k :: acc) tags []) in
  if tl <> [] then Printf.fprintf out "%s\ttags\t%s\n" id (String.concat "," tl)

let registered = Registry.register "C10" run

(* ---- extraction cross-check inside Coq (see c18.ml): C10Model.run on the case's ops evaluated by
   vm_compute must equal the (out, tags) list this extracted runner computed. *)
let coq_op (o : C10Model.op) = match o with
  | C10Model.Segment (sq, syn, fin, rst, pl, ts, goff) ->
    Printf.sprintf "Segment %s %s %s %s %s %s %s" (coq_z sq) (coq_bool syn) (coq_bool fin) (coq_bool rst) (coq_zlist pl) (coq_z ts) (coq_z goff)
  | C10Model.FlushOlderThan t -> "FlushOlderThan " ^ coq_z t
  | C10Model.FlushAll -> "FlushAll"
let coq_reassembly (r : C10Model.reassembly) =
  Printf.sprintf "mkR %s %s %s %s %s %s" (coq_zlist r.C10Model.r_bytes) (coq_z r.C10Model.r_skip) (coq_bool r.C10Model.r_start)
    (coq_bool r.C10Model.r_end) (coq_z r.C10Model.r_seen) (coq_z r.C10Model.r_cut)
let coq_out (o : C10Model.out) =
  Printf.sprintf "mkOut %s %s %s %s" (coq_bool o.C10Model.o_new) (coq_list (coq_list coq_reassembly) o.C10Model.o_calls)
    (coq_bool o.C10Model.o_done) (coq_bool o.C10Model.o_panic)
let to_coq (idx : int) (ops : string list) (out : out_channel) =
  let (mp, mt, l) = parse ops in
  let nbytes = Stdlib.List.fold_left (fun a o -> match o with C10Model.Segment (_, _, _, _, pl, _, _) -> a + Stdlib.List.length pl | _ -> a) 0 l in
  if nbytes <= 600 then begin
    let tr = C10Model.run (z_of_int mp) (z_of_int mt) l in
    coq_example out idx (Printf.sprintf "C10Model.run %s %s %s" (coq_z (z_of_int mp)) (coq_z (z_of_int mt)) (coq_list coq_op l))
      ("[" ^ String.concat ";\n     " (Stdlib.List.map (coq_pair coq_out coq_zlist) tr) ^ "]")
  end
let registered_coq = Registry.register_coq "C10" ("From GP Require Import Base C10Model.\n", to_coq)
