(* Extraction cross-check for the decoder sub-checks of agent lmid: a sampled case is printed as Gallina Examples
   `model function applied to the parsed arguments = the value the extracted OCaml computed`, proved inside Coq by
   vm_compute.  The per-layer file supplies the printer of its record in Gallina syntax. *)
open Util

let coq_zll (l : BinNums.coq_Z list list) = coq_list coq_zlist l

(* dec:/dec2: examples (at most 4 per case, inputs up to 150 octets) *)
let to_coq_dec ~(fresh_name : string) ~(dec_name : string list -> string) ~(pr : 'l -> string)
    ~(decode : string list -> 'l -> BinNums.coq_Z list -> ('l * unit Base.outcome) * bool) ~(fresh : 'l)
    (idx : int) (ops : string list) (out : out_channel) =
  let n = ref 0 in
  let name () = incr n; Printf.sprintf "sample_%d_%d" idx !n in
  let small h = String.length h <= 300 in
  let dn = dec_name ops and dec = decode ops in
  let rhs ((l, o), tr) = Printf.sprintf "(%s, %s, %s)" (pr l) (coq_outcome coq_unit o) (coq_bool tr) in
  Stdlib.List.iter (fun op ->
    match String.index_opt op ':' with
    | None -> ()
    | Some k ->
      let nm = String.sub op 0 k and args = split_on ',' (String.sub op (k + 1) (String.length op - k - 1)) in
      if !n < 4 then
      match nm, args with
      | "dec", [h] when small h ->
        let b = bytes_of_hex h in
        coq_example_named out (name ()) (Printf.sprintf "%s %s %s" dn fresh_name (coq_zlist b)) (rhs (dec fresh b))
      | "dec2", [a; b] when small a && small b ->
        let a = bytes_of_hex a and b = bytes_of_hex b in
        let ((l1, _), _) = dec fresh a in
        coq_example_named out (name ()) (Printf.sprintf "%s (fst (fst (%s %s %s))) %s" dn dn fresh_name (coq_zlist a) (coq_zlist b)) (rhs (dec l1 b))
      | _ -> ()) ops
