(* Lcdpinfo runner: CiscoDiscoveryInfo (typed interpretation of the CDP TLVs) decoder model on the ops of harness/cmd/gpverif/lcdpinfo.go *)
open Util
open Lmiscutil
open LcdpModel
open LcdpinfoModel
let range n = Stdlib.List.init n (fun k -> z_of_int k)
let cat sep f l = String.concat sep (Stdlib.List.map f l)
let fields (l : cdpinfo) =
  let g = l.ci_log in
  Printf.sprintf "s=%s;n=%s;addrs=%s;mgmt=%s;pfx=%s;preq=%s;pav=%s;unk=%s"
    (cat "." (fun k -> hex_of_bytes (ci_str g k)) (range 26))
    (cat "." (fun k -> i (ci_num g k)) (range 27))
    (cat "|" hex_of_bytes (ci_addrs_of g (z_of_int 0))) (cat "|" hex_of_bytes (ci_addrs_of g (z_of_int 1)))
    (cat "|" (fun p -> match Stdlib.List.rev p with m :: r -> Printf.sprintf "%s/%s" (hex_of_bytes (Stdlib.List.rev r)) (i m) | [] -> "") (ci_prefixes g))
    (cat "." i (ci_pow g (z_of_int 0))) (cat "." i (ci_pow g (z_of_int 1)))
    (cat "|" (fun v -> Printf.sprintf "%s.%s.%s" (i v.cv_type) (i v.cv_len) (hex_of_bytes v.cv_value)) (ci_unknown g))
let orig = (try Sys.getenv "VERIF_LCDPINFO_ORIG" = "1" with Not_found -> false)
let desc = { fresh = ci_fresh; decode = (fun _ d -> if orig then ci_decode_orig d else ci_decode d); serialize = None; fields;
  contents = (fun l -> l.ci_contents); payload = (fun _ -> []);
  next = (fun _ _ -> "none"); render_panics = ci_render_panics; of_spec = (fun _ -> failwith "no spec"); junk_len = 0 }
let run id ops out = run_generic desc id ops out
let registered = Registry.register "Lcdpinfo" run
let coq_cv (v : cdpv) = Printf.sprintf "(mkCv %s %s %s)" (coq_z v.cv_type) (coq_z v.cv_len) (coq_zlist v.cv_value)
let coq_upd (u : ci_upd) = match u with
  | UStr (k, s) -> Printf.sprintf "(UStr %s %s)" (coq_z k) (coq_zlist s)
  | UNum (k, n) -> Printf.sprintf "(UNum %s %s)" (coq_z k) (coq_z n)
  | UAddrs (k, a) -> Printf.sprintf "(UAddrs %s %s)" (coq_z k) (coq_list coq_zlist a)
  | UPrefix p -> Printf.sprintf "(UPrefix %s)" (coq_zlist p)
  | UPow (k, n) -> Printf.sprintf "(UPow %s %s)" (coq_z k) (coq_z n)
  | UUnknown v -> Printf.sprintf "(UUnknown %s)" (coq_cv v)
let coq_layer (l : cdpinfo) = Printf.sprintf "(mkCi %s %s)" (coq_zlist l.ci_contents) (coq_list coq_upd l.ci_log)
let registered_coq = Registry.register_coq "Lcdpinfo" ("From GP Require Import Base LcdpModel LcdpinfoModel.\n",
  Lsmallutil.to_coq_generic { Lsmallutil.cd = desc; coq_layer; g_dec = (if orig then "(fun _ : cdpinfo => ci_decode_orig)" else "(fun _ : cdpinfo => ci_decode)"); g_fresh = "ci_fresh"; g_ser = ""; g_rp = "ci_render_panics" })
