(* C11 runner: multi-connection histories for the two lifecycle-level models.
   ops: pkg:t|r  var:l,s,h,m  cfg:maxPer,maxTotal  keep:m.x/m.x|-  decl:0/1|-
        seg:key,dir,seq,flags,len,ts   fl:t,x   fa
   (x: tcpassembly CloseAll 0/1; reassembly TC).  Times: -1 = the zero time.Time. *)
open Util

let zi s = z_of_int (int_of_string s)
let iz = int_of_z
let b01 b = if b then 1 else 0
let time_of s = let n = int_of_string s in if n = -1 then C11Common.coq_ZEROT else z_of_int n
let seen_out z = let n = iz z in if n < -1 then -1 else n

let ev_string (e : C11Common.event) : string =
  match e with
  | C11Common.ENew s -> Printf.sprintf "N%d" (iz s)
  | C11Common.EData (s, n, by, sk, st, en, seen, saved) ->
    Printf.sprintf "D%d:%d:%d:%d:%d:%d:%d:%d" (iz s) (iz n) (iz by) (iz sk) (b01 st) (b01 en) (seen_out seen) (iz saved)
  | C11Common.EDone (s, rm) -> Printf.sprintf "C%d:%d" (iz s) (b01 rm)

let events_string (l : C11Common.event list) : string =
  let l = Stdlib.List.stable_sort (fun a b -> compare (iz (C11Common.ev_sid a)) (iz (C11Common.ev_sid b))) l in
  String.concat "," (Stdlib.List.map ev_string l)

type parsed = { pkg : string; v : C11Common.variant; mp : int; mt : int; keep : (BinNums.coq_Z * BinNums.coq_Z) list;
                decl : bool list; tops : C11TModel.top list; rops : C11RModel.rop list }

let parse (ops : string list) : parsed =
  let pkg = ref "t" and mp = ref 0 and mt = ref 0 in
  let vl = ref true and vs = ref true and vh = ref true and vm = ref true in
  let keep = ref [] and decl = ref [] in
  let tops = ref [] and rops = ref [] in
  Stdlib.List.iter (fun s ->
    match split_on ':' s with
    | ["pkg"; p] -> pkg := p
    | ["var"; a] -> (match split_on ',' a with
        | [l; s; h; m] -> vl := (l = "1"); vs := (s = "1"); vh := (h = "1"); vm := (m = "1") | _ -> failwith "var")
    | ["cfg"; a] -> (match split_on ',' a with [p; q] -> mp := int_of_string p; mt := int_of_string q | _ -> failwith "cfg")
    | ["keep"; a] -> if a <> "-" then
        keep := Stdlib.List.map (fun e -> match split_on '.' e with
          | [m; x] -> (zi m, zi x) | _ -> failwith "keep") (split_on '/' a)
    | ["decl"; a] -> if a <> "-" then decl := Stdlib.List.map (fun e -> e = "1") (split_on '/' a)
    | ["seg"; a] -> (match split_on ',' a with
        | [k; d; seq; fl; len; ts] ->
          let f = int_of_string fl in
          let syn = f land 1 <> 0 and fin = f land 2 <> 0 and rst = f land 4 <> 0 in
          tops := C11TModel.TSeg (z_of_int (2 * int_of_string k + int_of_string d), zi seq, syn, fin, rst, zi len, time_of ts) :: !tops;
          rops := C11RModel.RSeg (zi k, d = "1", zi seq, syn, fin, rst, zi len, time_of ts) :: !rops
        | _ -> failwith "seg")
    | ["fl"; a] -> (match split_on ',' a with
        | [t; x] ->
          tops := C11TModel.TFlush (time_of t, x <> "0") :: !tops;
          rops := C11RModel.RFlush (time_of t, time_of x) :: !rops
        | _ -> failwith "fl")
    | ["fa"] -> tops := C11TModel.TFlushAll :: !tops; rops := C11RModel.RFlushAll :: !rops
    | _ -> failwith ("c11 op: " ^ s)) ops;
  let v = { C11Common.v_lastseen = !vl; C11Common.v_saved = !vs; C11Common.v_hpages = !vh; C11Common.v_limit = !vm } in
  { pkg = !pkg; v = v; mp = !mp; mt = !mt; keep = !keep; decl = !decl; tops = Stdlib.List.rev !tops; rops = Stdlib.List.rev !rops }

let rcfg_of (c : parsed) : C11RModel.rcfg =
  { C11RModel.r_mpc = z_of_int c.mp; C11RModel.r_mt = z_of_int c.mt; C11RModel.r_keep = c.keep; C11RModel.r_decline = c.decl }

let run (id : string) (ops : string list) (out : out_channel) =
  let c = parse ops in
  let v = c.v in
  if c.pkg = "t" then begin
    let tr = C11TModel.trun v (z_of_int c.mp) (z_of_int c.mt) c.tops in
    let stop = ref false in
    Stdlib.List.iteri (fun i (o : C11TModel.tobs) ->
      if not !stop then begin
        let ou = o.C11TModel.ob_out in
        if ou.C11TModel.to_panic then (Printf.fprintf out "%s\t%d\tpanic=1\n" id i; stop := true)
        else begin
          let pg = Stdlib.List.sort compare (Stdlib.List.map (fun ((s, p), q) -> (iz s, iz p, iz q)) o.C11TModel.ob_pages) in
          Printf.fprintf out "%s\t%d\tev=%s;ret=%d,%d;used=%d;live=%d;free=%d;pg=%s;panic=0\n" id i
            (events_string ou.C11TModel.to_ev) (iz ou.C11TModel.to_a) (iz ou.C11TModel.to_b)
            (iz o.C11TModel.ob_used) (iz o.C11TModel.ob_live) (iz o.C11TModel.ob_free)
            (String.concat "," (Stdlib.List.map (fun (s, p, q) -> Printf.sprintf "%d:%d:%d" s p q) pg))
        end
      end) tr
  end else begin
    let tr = C11RModel.rrun v (rcfg_of c) c.rops in
    let stop = ref false in
    Stdlib.List.iteri (fun i (o : C11RModel.robs) ->
      if not !stop then begin
        let ou = o.C11RModel.rb_out in
        if ou.C11RModel.ro_panic then (Printf.fprintf out "%s\t%d\tpanic=1\n" id i; stop := true)
        else begin
          let h ((p, q), s) = Printf.sprintf "%d.%d.%d" (iz p) (iz q) (iz s) in
          let pg = Stdlib.List.sort compare (Stdlib.List.map (fun ((s, a), b) -> (iz s, h a, h b)) o.C11RModel.rb_pages) in
          Printf.fprintf out "%s\t%d\tev=%s;ret=%d,%d;used=%d;live=%d;free=%d;pg=%s;panic=0\n" id i
            (events_string ou.C11RModel.ro_ev) (iz ou.C11RModel.ro_a) (iz ou.C11RModel.ro_b)
            (iz o.C11RModel.rb_used) (iz o.C11RModel.rb_live) (iz o.C11RModel.rb_free)
            (String.concat "," (Stdlib.List.map (fun (s, a, b) -> Printf.sprintf "%d:%s:%s" s a b) pg))
        end
      end) tr
  end

let registered = Registry.register "C11" run

(* ---- extraction cross-check inside Coq (see c18.ml): trun / rrun (same variant, limits, KeepFrom and
   decline scripts) on the case's ops, recomputed by vm_compute, must equal the observation list
   this extracted runner computed (before its sorting/formatting). *)
let coq_variant (v : C11Common.variant) =
  Printf.sprintf "(C11Common.mkVariant %s %s %s %s)" (coq_bool v.C11Common.v_lastseen) (coq_bool v.C11Common.v_saved)
    (coq_bool v.C11Common.v_hpages) (coq_bool v.C11Common.v_limit)
let coq_event (e : C11Common.event) = match e with
  | C11Common.ENew s -> "ENew " ^ coq_z s
  | C11Common.EData (s, n, by, sk, st, en, seen, saved) ->
    Printf.sprintf "EData %s %s %s %s %s %s %s %s" (coq_z s) (coq_z n) (coq_z by) (coq_z sk) (coq_bool st) (coq_bool en) (coq_z seen) (coq_z saved)
  | C11Common.EDone (s, rm) -> Printf.sprintf "EDone %s %s" (coq_z s) (coq_bool rm)
let coq_top = function
  | C11TModel.TSeg (k, seq, syn, fin, rst, len, ts) ->
    Printf.sprintf "TSeg %s %s %s %s %s %s %s" (coq_z k) (coq_z seq) (coq_bool syn) (coq_bool fin) (coq_bool rst) (coq_z len) (coq_z ts)
  | C11TModel.TFlush (t, ca) -> Printf.sprintf "TFlush %s %s" (coq_z t) (coq_bool ca)
  | C11TModel.TFlushAll -> "TFlushAll"
let coq_rop = function
  | C11RModel.RSeg (k, d, seq, syn, fin, rst, len, ts) ->
    Printf.sprintf "RSeg %s %s %s %s %s %s %s %s" (coq_z k) (coq_bool d) (coq_z seq) (coq_bool syn) (coq_bool fin) (coq_bool rst) (coq_z len) (coq_z ts)
  | C11RModel.RFlush (t, tc) -> Printf.sprintf "RFlush %s %s" (coq_z t) (coq_z tc)
  | C11RModel.RFlushAll -> "RFlushAll"
let coq_z3 ((a, b), c) = Printf.sprintf "(%s, %s, %s)" (coq_z a) (coq_z b) (coq_z c)
let to_coq (idx : int) (ops : string list) (out : out_channel) =
  let c = parse ops in
  if c.pkg = "t" then begin
    let tr = C11TModel.trun c.v (z_of_int c.mp) (z_of_int c.mt) c.tops in
    let ob (o : C11TModel.tobs) =
      let ou = o.C11TModel.ob_out in
      Printf.sprintf "mkTObs (mkTO %s %s %s %s) %s %s %s %s" (coq_list coq_event ou.C11TModel.to_ev) (coq_z ou.C11TModel.to_a)
        (coq_z ou.C11TModel.to_b) (coq_bool ou.C11TModel.to_panic) (coq_z o.C11TModel.ob_used) (coq_z o.C11TModel.ob_live)
        (coq_z o.C11TModel.ob_free) (coq_list coq_z3 o.C11TModel.ob_pages) in
    coq_example out idx (Printf.sprintf "trun %s %s %s %s" (coq_variant c.v) (coq_z (z_of_int c.mp)) (coq_z (z_of_int c.mt)) (coq_list coq_top c.tops))
      ("[" ^ String.concat ";\n     " (Stdlib.List.map ob tr) ^ "]")
  end else begin
    let cfg = rcfg_of c in
    let tr = C11RModel.rrun c.v cfg c.rops in
    let ob (o : C11RModel.robs) =
      let ou = o.C11RModel.rb_out in
      Printf.sprintf "mkRObs (mkRO %s %s %s %s) %s %s %s %s" (coq_list coq_event ou.C11RModel.ro_ev) (coq_z ou.C11RModel.ro_a)
        (coq_z ou.C11RModel.ro_b) (coq_bool ou.C11RModel.ro_panic) (coq_z o.C11RModel.rb_used) (coq_z o.C11RModel.rb_live)
        (coq_z o.C11RModel.rb_free)
        (coq_list (fun ((s, a), b) -> Printf.sprintf "(%s, %s, %s)" (coq_z s) (coq_z3 a) (coq_z3 b)) o.C11RModel.rb_pages) in
    coq_example out idx
      (Printf.sprintf "rrun %s (C11RModel.mkCfg %s %s %s %s) %s" (coq_variant c.v) (coq_z cfg.C11RModel.r_mpc) (coq_z cfg.C11RModel.r_mt)
         (coq_list (coq_pair coq_z coq_z) cfg.C11RModel.r_keep) (coq_list coq_bool cfg.C11RModel.r_decline) (coq_list coq_rop c.rops))
      ("[" ^ String.concat ";\n     " (Stdlib.List.map ob tr) ^ "]")
  end
let registered_coq = Registry.register_coq "C11" ("From GP Require Import Base C11Common C11TModel C11RModel.\n", to_coq)
