(* C11 runner: multi-connection histories for the two lifecycle-level models.
   ops: pkg:t|r  var:l,s,h,m  cfg:maxPer,maxTotal  keep:m.x/m.x|-  decl:0/1|-
        seg:key,dir,seq,flags,len,ts   fl:t,x   fa
   (x: tcpassembly CloseAll 0/1; reassembly TC).  Times: -1 = the zero time.Time. *)
open Util

let zi s = z_of_int (int_of_string s)
let iz = int_of_z
let b01 b = if b then 1 else 0
let time_of s = let n = int_of_string s in if n = -1 then C11Common.coq_ZEROT else z_of_int n
let seen_out z = let n = iz z in if n < -1 then -1 else n

let ev_string (e : C11Common.event) : string =
  match e with
  | C11Common.ENew s -> Printf.sprintf "N%d" (iz s)
  | C11Common.EData (s, n, by, sk, st, en, seen, saved) ->
    Printf.sprintf "D%d:%d:%d:%d:%d:%d:%d:%d" (iz s) (iz n) (iz by) (iz sk) (b01 st) (b01 en) (seen_out seen) (iz saved)
  | C11Common.EDone (s, rm) -> Printf.sprintf "C%d:%d" (iz s) (b01 rm)

let events_string (l : C11Common.event list) : string =
  let l = Stdlib.List.stable_sort (fun a b -> compare (iz (C11Common.ev_sid a)) (iz (C11Common.ev_sid b))) l in
  String.concat "," (Stdlib.List.map ev_string l)

let run (id : string) (ops : string list) (out : out_channel) =
  let pkg = ref "t" and mp = ref 0 and mt = ref 0 in
  let vl = ref true and vs = ref true and vh = ref true and vm = ref true in
  let keep = ref [] and decl = ref [] in
  let tops = ref [] and rops = ref [] in
  Stdlib.List.iter (fun s ->
    match split_on ':' s with
    | ["pkg"; p] -> pkg := p
    | ["var"; a] -> (match split_on ',' a with
        | [l; s; h; m] -> vl := (l = "1"); vs := (s = "1"); vh := (h = "1"); vm := (m = "1") | _ -> failwith "var")
    | ["cfg"; a] -> (match split_on ',' a with [p; q] -> mp := int_of_string p; mt := int_of_string q | _ -> failwith "cfg")
    | ["keep"; a] -> if a <> "-" then
        keep := Stdlib.List.map (fun e -> match split_on '.' e with
          | [m; x] -> (zi m, zi x) | _ -> failwith "keep") (split_on '/' a)
    | ["decl"; a] -> if a <> "-" then decl := Stdlib.List.map (fun e -> e = "1") (split_on '/' a)
    | ["seg"; a] -> (match split_on ',' a with
        | [k; d; seq; fl; len; ts] ->
          let f = int_of_string fl in
          let syn = f land 1 <> 0 and fin = f land 2 <> 0 and rst = f land 4 <> 0 in
          tops := C11TModel.TSeg (z_of_int (2 * int_of_string k + int_of_string d), zi seq, syn, fin, rst, zi len, time_of ts) :: !tops;
          rops := C11RModel.RSeg (zi k, d = "1", zi seq, syn, fin, rst, zi len, time_of ts) :: !rops
        | _ -> failwith "seg")
    | ["fl"; a] -> (match split_on ',' a with
        | [t; x] ->
          tops := C11TModel.TFlush (time_of t, x <> "0") :: !tops;
          rops := C11RModel.RFlush (time_of t, time_of x) :: !rops
        | _ -> failwith "fl")
    | ["fa"] -> tops := C11TModel.TFlushAll :: !tops; rops := C11RModel.RFlushAll :: !rops
    | _ -> failwith ("c11 op: " ^ s)) ops;
  let v = { C11Common.v_lastseen = !vl; C11Common.v_saved = !vs; C11Common.v_hpages = !vh; C11Common.v_limit = !vm } in
  if !pkg = "t" then begin
    let tr = C11TModel.trun v (z_of_int !mp) (z_of_int !mt) (Stdlib.List.rev !tops) in
    let stop = ref false in
    Stdlib.List.iteri (fun i (o : C11TModel.tobs) ->
      if not !stop then begin
        let ou = o.C11TModel.ob_out in
        if ou.C11TModel.to_panic then (Printf.fprintf out "%s\t%d\tpanic=1\n" id i; stop := true)
        else begin
          let pg = Stdlib.List.sort compare (Stdlib.List.map (fun ((s, p), q) -> (iz s, iz p, iz q)) o.C11TModel.ob_pages) in
          Printf.fprintf out "%s\t%d\tev=%s;ret=%d,%d;used=%d;live=%d;free=%d;pg=%s;panic=0\n" id i
            (events_string ou.C11TModel.to_ev) (iz ou.C11TModel.to_a) (iz ou.C11TModel.to_b)
            (iz o.C11TModel.ob_used) (iz o.C11TModel.ob_live) (iz o.C11TModel.ob_free)
            (String.concat "," (Stdlib.List.map (fun (s, p, q) -> Printf.sprintf "%d:%d:%d" s p q) pg))
        end
      end) tr
  end else begin
    let cfg = { C11RModel.r_mpc = z_of_int !mp; C11RModel.r_mt = z_of_int !mt;
                C11RModel.r_keep = !keep; C11RModel.r_decline = !decl } in
    let tr = C11RModel.rrun v cfg (Stdlib.List.rev !rops) in
    let stop = ref false in
    Stdlib.List.iteri (fun i (o : C11RModel.robs) ->
      if not !stop then begin
        let ou = o.C11RModel.rb_out in
        if ou.C11RModel.ro_panic then (Printf.fprintf out "%s\t%d\tpanic=1\n" id i; stop := true)
        else begin
          let h ((p, q), s) = Printf.sprintf "%d.%d.%d" (iz p) (iz q) (iz s) in
          let pg = Stdlib.List.sort compare (Stdlib.List.map (fun ((s, a), b) -> (iz s, h a, h b)) o.C11RModel.rb_pages) in
          Printf.fprintf out "%s\t%d\tev=%s;ret=%d,%d;used=%d;live=%d;free=%d;pg=%s;panic=0\n" id i
            (events_string ou.C11RModel.ro_ev) (iz ou.C11RModel.ro_a) (iz ou.C11RModel.ro_b)
            (iz o.C11RModel.rb_used) (iz o.C11RModel.rb_live) (iz o.C11RModel.rb_free)
            (String.concat "," (Stdlib.List.map (fun (s, a, b) -> Printf.sprintf "%d:%s:%s" s a b) pg))
        end
      end) tr
  end

let registered = Registry.register "C11" run
