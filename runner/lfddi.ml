(* Lfddi runner: FDDI decoder model on the ops of harness/cmd/gpverif/lfddi.go *)
open Util
open Lmiscutil
open LfddiModel
let fields (l : fddi) = Printf.sprintf "fc=%s;prio=%s;src=%s;dst=%s" (i l.fd_fc) (i l.fd_prio) (hex_of_bytes l.fd_src) (hex_of_bytes l.fd_dst)
let desc = { fresh = fd_fresh; decode = (fun _ d -> fd_decode d); serialize = None; fields; contents = (fun l -> l.fd_contents); payload = (fun l -> l.fd_payload);
  next = (fun cls l -> if cls <> "ok" then "none" else i (fd_next l)); render_panics = fd_render_panics; of_spec = (fun _ -> failwith "no spec"); junk_len = 0 }
let run id ops out = run_generic desc id ops out
let registered = Registry.register "Lfddi" run
