(* Lntp runner: NTP codec model (coq/Model/LntpModel.v) on the ops of harness/cmd/gpverif/lntp.go; 64-bit values in hex *)
open Util
open Lmiscutil
open LntpModel

let fields (l : ntp) = Printf.sprintf "li=%s;v=%s;m=%s;st=%s;poll=%s;prec=%s;rd=%s;rdisp=%s;ref=%s;t=%s.%s.%s.%s;ext=%s" (i l.n_li) (i l.n_version)
  (i l.n_mode) (i l.n_stratum) (i l.n_poll) (i l.n_precision) (i l.n_rootdelay) (i l.n_rootdisp) (i l.n_refid)
  (hex_of_z l.n_reft) (hex_of_z l.n_origt) (hex_of_z l.n_recvt) (hex_of_z l.n_xmitt) (hex_of_bytes l.n_ext)
let of_spec s = match split_on '.' s with
  | [li; v; m; st; po; pr; rd; rdisp; rf; t1; t2; t3; t4; ext] ->
    { n_contents = []; n_payload = []; n_li = zi li; n_version = zi v; n_mode = zi m; n_stratum = zi st; n_poll = zi po; n_precision = zi pr;
      n_rootdelay = zi rd; n_rootdisp = zi rdisp; n_refid = zi rf; n_reft = z_of_hex t1; n_origt = z_of_hex t2; n_recvt = z_of_hex t3;
      n_xmitt = z_of_hex t4; n_ext = (if ext = "-" then [] else bytes_of_hex ext) }
  | _ -> failwith "ntp spec"
let desc = { fresh = ntp_fresh; decode = ntp_decode_into; serialize = Some ntp_serialize; fields;
  contents = (fun l -> l.n_contents); payload = (fun l -> l.n_payload); next = (fun _ _ -> "zero");
  render_panics = ntp_render_panics; of_spec; junk_len = 300 }
let run id ops out = run_generic desc id ops out
let registered = Registry.register "Lntp" run
