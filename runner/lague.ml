(* Lague runner: AGUEVar0 codec model (coq/Model/LagueModel.v) on the ops of harness/cmd/gpverif/lague.go *)
open Util
open Lmiscutil
open LagueModel
let fields (l : ague) = Printf.sprintf "v=%s;cf=%s;proto=%s;flags=%s;ext=%s" (i l.ag_version) (b01 l.ag_c) (i l.ag_proto) (i l.ag_flags) (hex_of_bytes l.ag_ext)
let of_spec s = match split_on '.' s with
  | [v; c; p; f; e] -> { ag_version = zi v; ag_c = (c = "1"); ag_proto = zi p; ag_flags = zi f; ag_ext = (if e = "-" then [] else bytes_of_hex e); ag_data = [] }
  | _ -> failwith "ague spec"
(* LayerContents() re-encodes the fields; LayerPayload() is Data *)
let desc = { fresh = ag_fresh; decode = ag_decode_into; serialize = Some ag_serialize; fields; contents = ag_hdr; payload = (fun l -> l.ag_data);
  next = (fun _ l -> "t" ^ i (ag_next l)); render_panics = ag_render_panics; of_spec; junk_len = 400 }
let run id ops out = run_generic desc id ops out
let registered = Registry.register "Lague" run
let coq_layer (l : ague) = Printf.sprintf "(mkAg %s %s %s %s %s %s)" (coq_z l.ag_version) (coq_bool l.ag_c) (coq_z l.ag_proto) (coq_z l.ag_flags) (coq_zlist l.ag_ext) (coq_zlist l.ag_data)
let registered_coq = Registry.register_coq "Lague" ("From GP Require Import Base LagueModel.\n",
  Lsmallutil.to_coq_generic { Lsmallutil.cd = desc; coq_layer; g_dec = "ag_decode_into"; g_fresh = "ag_fresh"; g_ser = "ag_serialize"; g_rp = "ag_render_panics" })
