(* C08 runner: checksum helpers, emitters, verifiers and single-bit corruptions on the extracted model *)
open Util

let layer_of = function
  | "ip4" -> C08Model.LIp4 | "tcp" -> C08Model.LTcp | "udp" -> C08Model.LUdp
  | "icmp4" -> C08Model.LIcmp4 | "icmp6" -> C08Model.LIcmp6 | "gre" -> C08Model.LGre
  | s -> failwith ("c08 layer: " ^ s)

let pseudo_of k src dst = match k with
  | "n" -> C08Model.PNone
  | "4" -> C08Model.P4 (bytes_of_hex src, bytes_of_hex dst)
  | "6" -> C08Model.P6 (bytes_of_hex src, bytes_of_hex dst)
  | s -> failwith ("c08 pseudo: " ^ s)

let cls_of_err c = if int_of_z c = 99 then "unmodelled" else "err"

let vres_short (r : C08Model.vres Base.outcome) : string =
  match r with
  | Base.Ok v -> Printf.sprintf "%d,%d,%d" (if v.C08Model.v_valid then 1 else 0)
                   (int_of_z v.C08Model.v_correct) (int_of_z v.C08Model.v_actual)
  | Base.Err c -> if int_of_z c = 99 then "u" else "e"
  | Base.Panic _ -> "p"

let vres_obs (r : C08Model.vres Base.outcome) : string =
  match r with
  | Base.Ok v -> Printf.sprintf "cls=ok;valid=%d;correct=%d;actual=%d" (if v.C08Model.v_valid then 1 else 0)
                   (int_of_z v.C08Model.v_correct) (int_of_z v.C08Model.v_actual)
  | Base.Err c -> "cls=" ^ cls_of_err c
  | Base.Panic _ -> "cls=panic"

let run_op (s : string) : string =
  match split_on ':' s with
  | "conc" :: _ -> "conc=ok"  (* verification and emission are functions of the packet bytes (C02: no shared state): all accepted *)
  | "buf" :: _ -> "buf=1"   (* buffer handling of the harness: the model's emitters are functions of the bytes *)
  | ["fold"; a] -> Printf.sprintf "fold=%d" (int_of_z (C08Model.coq_FoldChecksum (z_of_hex a)))
  | ["cc"; a] -> (match split_on ',' a with
      | [acc; h] ->
        let c = C08Model.coq_ComputeChecksum (bytes_of_hex h) (z_of_hex acc) in
        Printf.sprintf "cc=%s;fold=%d" (hex_of_z c) (int_of_z (C08Model.coq_FoldChecksum c))
      | _ -> failwith "cc")
  | ["ccr"; a] -> (match split_on ',' a with
      | [acc; b; n; tl] ->
        let data = C08Model.rep_bytes (z_of_int (int_of_string b)) (z_of_int (int_of_string n)) (bytes_of_hex tl) in
        let c = C08Model.coq_ComputeChecksum data (z_of_hex acc) in
        Printf.sprintf "cc=%s;fold=%d" (hex_of_z c) (int_of_z (C08Model.coq_FoldChecksum c))
      | _ -> failwith "ccr")
  | ["emit"; a] | ["oemit"; a] -> (match split_on ',' a with
      | [l; p; src; dst; h] ->
        let bs = bytes_of_hex h in
        (match C08Model.emit (layer_of l) (pseudo_of p src dst) bs with
         | Base.Ok (Some c, _) -> Printf.sprintf "cls=ok;csum=%d;same=1" (int_of_z c)
         | Base.Ok (None, _) -> "cls=ok;csum=none;same=1"
         | Base.Err c -> "cls=" ^ cls_of_err c
         | Base.Panic _ -> "cls=panic")
      | _ -> failwith "emit")
  | ["ver"; a] | ["over"; a] -> (match split_on ',' a with
      | [l; p; src; dst; h] -> vres_obs (C08Model.verify (layer_of l) (pseudo_of p src dst) (bytes_of_hex h))
      | _ -> failwith "ver")
  | ["flip"; a] -> (match split_on ',' a with
      | [l; p; src; dst; h; i] ->
        vres_obs (C08Model.verify_flipped (layer_of l) (pseudo_of p src dst) (bytes_of_hex h) (nat_of_int (int_of_string i)))
      | _ -> failwith "flip")
  | ["flips"; a] -> (match split_on ',' a with
      | [l; p; src; dst; h; bits] ->
        let data = bytes_of_hex h and ly = layer_of l and ps = pseudo_of p src dst in
        let rs = Stdlib.List.map (fun b -> C08Model.verify_flipped ly ps data (nat_of_int (int_of_string b))) (split_on '/' bits) in
        "r=" ^ String.concat "|" (Stdlib.List.map vres_short rs)
      | _ -> failwith "flips")
  | ["flipall"; a] -> (match split_on ',' a with
      | [l; p; src; dst; h] ->
        let rs = C08Model.verify_all_flips (layer_of l) (pseudo_of p src dst) (bytes_of_hex h) in
        Printf.sprintf "n=%d;r=%s" (Stdlib.List.length rs) (String.concat "|" (Stdlib.List.map vres_short rs))
      | _ -> failwith "flipall")
  | _ -> failwith ("c08 op: " ^ s)

let run (id : string) (ops : string list) (out : out_channel) =
  Stdlib.List.iteri (fun i s -> Printf.fprintf out "%s\t%d\t%s\n" id i (run_op s)) ops

let registered = Registry.register "C08" run

(* ---- extraction cross-check inside Coq (see c18.ml): every op of a sampled case calls one model
   function; the call (as a Gallina term) must evaluate by vm_compute to the value this extracted
   runner computed.  Large inputs (ccr: with long repeats, flipall on long packets) are not restated. *)
let coq_layer = function
  | C08Model.LIp4 -> "LIp4" | C08Model.LTcp -> "LTcp" | C08Model.LUdp -> "LUdp"
  | C08Model.LIcmp4 -> "LIcmp4" | C08Model.LIcmp6 -> "LIcmp6" | C08Model.LGre -> "LGre"
let coq_pseudo = function
  | C08Model.PNone -> "PNone"
  | C08Model.P4 (a, b) -> Printf.sprintf "(P4 %s %s)" (coq_zlist a) (coq_zlist b)
  | C08Model.P6 (a, b) -> Printf.sprintf "(P6 %s %s)" (coq_zlist a) (coq_zlist b)
let coq_vres (v : C08Model.vres) =
  Printf.sprintf "{| v_valid := %s; v_correct := %s; v_actual := %s |}" (coq_bool v.C08Model.v_valid) (coq_z v.C08Model.v_correct) (coq_z v.C08Model.v_actual)
let coq_vout (r : C08Model.vres Base.outcome) = coq_outcome coq_vres r

let to_coq_op (name : string) (s : string) (out : out_channel) : unit =
  let ex lhs rhs = coq_example_named out name lhs rhs in
  match split_on ':' s with
  | ["fold"; a] -> let x = z_of_hex a in ex ("FoldChecksum " ^ coq_z x) (coq_z (C08Model.coq_FoldChecksum x))
  | ["cc"; a] -> (match split_on ',' a with
      | [acc; h] ->
        let d = bytes_of_hex h and a0 = z_of_hex acc in
        let c = C08Model.coq_ComputeChecksum d a0 in
        if Stdlib.List.length d <= 300 then
          ex (Printf.sprintf "(let c := ComputeChecksum %s %s in (c, FoldChecksum c))" (coq_zlist d) (coq_z a0))
            (coq_pair coq_z coq_z (c, C08Model.coq_FoldChecksum c))
      | _ -> ())
  | ["ccr"; a] -> (match split_on ',' a with
      | [acc; b; n; tl] when int_of_string n <= 3000 ->
        let bz = z_of_int (int_of_string b) and nz = z_of_int (int_of_string n) and t = bytes_of_hex tl and a0 = z_of_hex acc in
        let c = C08Model.coq_ComputeChecksum (C08Model.rep_bytes bz nz t) a0 in
        ex (Printf.sprintf "(let c := ComputeChecksum (rep_bytes %s %s %s) %s in (c, FoldChecksum c))" (coq_z bz) (coq_z nz) (coq_zlist t) (coq_z a0))
          (coq_pair coq_z coq_z (c, C08Model.coq_FoldChecksum c))
      | _ -> ())
  | ["emit"; a] | ["oemit"; a] -> (match split_on ',' a with
      | [l; p; src; dst; h] when String.length h <= 400 ->
        let ly = layer_of l and ps = pseudo_of p src dst and bs = bytes_of_hex h in
        ex (Printf.sprintf "emit %s %s %s" (coq_layer ly) (coq_pseudo ps) (coq_zlist bs))
          (coq_outcome (coq_pair (coq_option coq_z) coq_zlist) (C08Model.emit ly ps bs))
      | _ -> ())
  | ["ver"; a] | ["over"; a] -> (match split_on ',' a with
      | [l; p; src; dst; h] when String.length h <= 400 ->
        let ly = layer_of l and ps = pseudo_of p src dst and bs = bytes_of_hex h in
        ex (Printf.sprintf "verify %s %s %s" (coq_layer ly) (coq_pseudo ps) (coq_zlist bs)) (coq_vout (C08Model.verify ly ps bs))
      | _ -> ())
  | ["flip"; a] -> (match split_on ',' a with
      | [l; p; src; dst; h; i] when String.length h <= 400 ->
        let ly = layer_of l and ps = pseudo_of p src dst and bs = bytes_of_hex h and k = nat_of_int (int_of_string i) in
        ex (Printf.sprintf "verify_flipped %s %s %s %s" (coq_layer ly) (coq_pseudo ps) (coq_zlist bs) (coq_nat k))
          (coq_vout (C08Model.verify_flipped ly ps bs k))
      | _ -> ())
  | ["flips"; a] -> (match split_on ',' a with
      | [l; p; src; dst; h; bits] when String.length h <= 400 ->
        let ly = layer_of l and ps = pseudo_of p src dst and bs = bytes_of_hex h in
        let ks = Stdlib.List.map (fun b -> nat_of_int (int_of_string b)) (split_on '/' bits) in
        if Stdlib.List.length ks <= 16 then
          ex (Printf.sprintf "map (verify_flipped %s %s %s) %s" (coq_layer ly) (coq_pseudo ps) (coq_zlist bs) (coq_list coq_nat ks))
            (coq_list coq_vout (Stdlib.List.map (fun k -> C08Model.verify_flipped ly ps bs k) ks))
      | _ -> ())
  | ["flipall"; a] -> (match split_on ',' a with
      | [l; p; src; dst; h] when String.length h <= 40 ->
        let ly = layer_of l and ps = pseudo_of p src dst and bs = bytes_of_hex h in
        ex (Printf.sprintf "verify_all_flips %s %s %s" (coq_layer ly) (coq_pseudo ps) (coq_zlist bs))
          (coq_list coq_vout (C08Model.verify_all_flips ly ps bs))
      | _ -> ())
  | _ -> ()

let to_coq (idx : int) (ops : string list) (out : out_channel) =
  Stdlib.List.iteri (fun i s -> if i < 4 then to_coq_op (Printf.sprintf "sample_%d_%d" idx i) s out) ops
let registered_coq = Registry.register_coq "C08" ("From GP Require Import Base C08Model.\n", to_coq)
