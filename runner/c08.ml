(* C08 runner: checksum helpers, emitters, verifiers and single-bit corruptions on the extracted model *)
open Util

let layer_of = function
  | "ip4" -> C08Model.LIp4 | "tcp" -> C08Model.LTcp | "udp" -> C08Model.LUdp
  | "icmp4" -> C08Model.LIcmp4 | "icmp6" -> C08Model.LIcmp6 | "gre" -> C08Model.LGre
  | s -> failwith ("c08 layer: " ^ s)

let pseudo_of k src dst = match k with
  | "n" -> C08Model.PNone
  | "4" -> C08Model.P4 (bytes_of_hex src, bytes_of_hex dst)
  | "6" -> C08Model.P6 (bytes_of_hex src, bytes_of_hex dst)
  | s -> failwith ("c08 pseudo: " ^ s)

let cls_of_err c = if int_of_z c = 99 then "unmodelled" else "err"

let vres_short (r : C08Model.vres Base.outcome) : string =
  match r with
  | Base.Ok v -> Printf.sprintf "%d,%d,%d" (if v.C08Model.v_valid then 1 else 0)
                   (int_of_z v.C08Model.v_correct) (int_of_z v.C08Model.v_actual)
  | Base.Err c -> if int_of_z c = 99 then "u" else "e"
  | Base.Panic _ -> "p"

let vres_obs (r : C08Model.vres Base.outcome) : string =
  match r with
  | Base.Ok v -> Printf.sprintf "cls=ok;valid=%d;correct=%d;actual=%d" (if v.C08Model.v_valid then 1 else 0)
                   (int_of_z v.C08Model.v_correct) (int_of_z v.C08Model.v_actual)
  | Base.Err c -> "cls=" ^ cls_of_err c
  | Base.Panic _ -> "cls=panic"

let run_op (s : string) : string =
  match split_on ':' s with
  | "buf" :: _ -> "buf=1"   (* buffer handling of the harness: the model's emitters are functions of the bytes *)
  | ["fold"; a] -> Printf.sprintf "fold=%d" (int_of_z (C08Model.coq_FoldChecksum (z_of_hex a)))
  | ["cc"; a] -> (match split_on ',' a with
      | [acc; h] ->
        let c = C08Model.coq_ComputeChecksum (bytes_of_hex h) (z_of_hex acc) in
        Printf.sprintf "cc=%s;fold=%d" (hex_of_z c) (int_of_z (C08Model.coq_FoldChecksum c))
      | _ -> failwith "cc")
  | ["ccr"; a] -> (match split_on ',' a with
      | [acc; b; n; tl] ->
        let data = C08Model.rep_bytes (z_of_int (int_of_string b)) (z_of_int (int_of_string n)) (bytes_of_hex tl) in
        let c = C08Model.coq_ComputeChecksum data (z_of_hex acc) in
        Printf.sprintf "cc=%s;fold=%d" (hex_of_z c) (int_of_z (C08Model.coq_FoldChecksum c))
      | _ -> failwith "ccr")
  | ["emit"; a] -> (match split_on ',' a with
      | [l; p; src; dst; h] ->
        let bs = bytes_of_hex h in
        (match C08Model.emit (layer_of l) (pseudo_of p src dst) bs with
         | Base.Ok (Some c, _) -> Printf.sprintf "cls=ok;csum=%d;same=1" (int_of_z c)
         | Base.Ok (None, _) -> "cls=ok;csum=none;same=1"
         | Base.Err c -> "cls=" ^ cls_of_err c
         | Base.Panic _ -> "cls=panic")
      | _ -> failwith "emit")
  | ["ver"; a] -> (match split_on ',' a with
      | [l; p; src; dst; h] -> vres_obs (C08Model.verify (layer_of l) (pseudo_of p src dst) (bytes_of_hex h))
      | _ -> failwith "ver")
  | ["flip"; a] -> (match split_on ',' a with
      | [l; p; src; dst; h; i] ->
        vres_obs (C08Model.verify_flipped (layer_of l) (pseudo_of p src dst) (bytes_of_hex h) (nat_of_int (int_of_string i)))
      | _ -> failwith "flip")
  | ["flips"; a] -> (match split_on ',' a with
      | [l; p; src; dst; h; bits] ->
        let data = bytes_of_hex h and ly = layer_of l and ps = pseudo_of p src dst in
        let rs = Stdlib.List.map (fun b -> C08Model.verify_flipped ly ps data (nat_of_int (int_of_string b))) (split_on '/' bits) in
        "r=" ^ String.concat "|" (Stdlib.List.map vres_short rs)
      | _ -> failwith "flips")
  | ["flipall"; a] -> (match split_on ',' a with
      | [l; p; src; dst; h] ->
        let rs = C08Model.verify_all_flips (layer_of l) (pseudo_of p src dst) (bytes_of_hex h) in
        Printf.sprintf "n=%d;r=%s" (Stdlib.List.length rs) (String.concat "|" (Stdlib.List.map vres_short rs))
      | _ -> failwith "flipall")
  | _ -> failwith ("c08 op: " ^ s)

let run (id : string) (ops : string list) (out : out_channel) =
  Stdlib.List.iteri (fun i s -> Printf.fprintf out "%s\t%d\t%s\n" id i (run_op s)) ops

let registered = Registry.register "C08" run
