(* Lradius runner: RADIUS codec model (coq/Model/LradiusModel.v) on the ops of harness/cmd/gpverif/lradius.go *)
open Util
open Lmiscutil
open LradiusModel

let attr_str (a : rattr) = Printf.sprintf "%s~%s~%s" (i a.ra_type) (i a.ra_len) (hex_of_bytes a.ra_value)
let fields (l : radius) = Printf.sprintf "code=%s;id=%s;len=%s;auth=%s;attrs=%s" (i l.r_code) (i l.r_ident) (i l.r_length) (hex_of_bytes l.r_auth)
  (String.concat "+" (Stdlib.List.map attr_str l.r_attrs))
let of_spec s = match split_on '.' s with
  | [c; id; len; au; attrs] ->
    { r_contents = []; r_payload = []; r_code = zi c; r_ident = zi id; r_length = zi len; r_auth = bytes_of_hex au;
      r_attrs = (if attrs = "-" then [] else Stdlib.List.map (fun a -> match split_on '~' a with
        | [t; al; v] -> { ra_type = zi t; ra_len = zi al; ra_value = bytes_of_hex v } | _ -> failwith "radius attr spec") (split_on '+' attrs)) }
  | _ -> failwith "radius spec"
let desc = { fresh = rad_fresh; decode = rad_decode_into; serialize = Some rad_serialize; fields;
  contents = (fun l -> l.r_contents); payload = (fun l -> l.r_payload); next = (fun _ l -> if int_of_z (rad_next l) = 1 then "eap" else "zero");
  render_panics = rad_render_panics; of_spec; junk_len = 4200 }
let run id ops out = run_generic desc id ops out
let registered = Registry.register "Lradius" run
