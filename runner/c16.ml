(* C16 runner: data-source history + harness script -> extracted PacketSource model.
   cfg:<plain|zc|concat>,<nocopy>[,<lazy>,<pool>] (Lazy/Pool: the model's observables do not depend on them)  p:<hex>,<ts>,<caplen>,<len>,<ifidx>  e:<kind>  s: (next sub-source)
   script: next start restart grant:n grantall recv:n cancel fin fcan:n setopt:nocopy=0|1 ; orig: runs the unrepaired constructor *)
open Util
module M = C16Model

let kinds = [ "to", M.KTo; "toeof", M.KToEof; "eagain", M.KEagain; "nettemp", M.KNetTemp; "eintr", M.KEintr;
  "tmp", M.KTmp; "oclosed", M.KOsClosed; "eof", M.KEof; "weof", M.KWEof; "ueof", M.KUeof; "noprog", M.KNoProg;
  "cpipe", M.KCPipe; "sbuf", M.KSBuf; "ebadf", M.KEbadf; "pebadf", M.KPEbadf; "cfile", M.KCFile ]
let kind_of_name s = try Stdlib.List.assoc s kinds with Not_found -> failwith ("c16 kind " ^ s)
let name_of_kind k = fst (Stdlib.List.find (fun (_, k') -> k' = k) kinds)

(* the harness decoder marks a packet truncated when its first byte has the top bit set *)
let dec (d : BinNums.coq_Z list) : bool = match d with b :: _ -> int_of_z b >= 128 | [] -> false

let channel_capacity = 1000   (* packet.go:1029 defaultPacketChannelSize *)

let pobs (o : M.pobs) =
  let c = o.M.po_ci in
  Printf.sprintf "%s/%d/%d/%d/%d/%d" (hex_of_bytes o.M.po_data) (int_of_z c.M.ci_ts) (int_of_z c.M.ci_cap)
    (int_of_z c.M.ci_len) (int_of_z c.M.ci_if) (if o.M.po_trunc then 1 else 0)
let b2i b = if b then 1 else 0
let hexd l = match l with [] -> "-" | _ -> hex_of_bytes l

let show (o : M.obs) : string =
  match o with
  | M.ONextOk p -> "next=ok;pk=" ^ pobs p
  | M.ONextErr k -> "next=err;e=" ^ name_of_kind k
  | M.ONextSkip -> "next=skip"
  | M.OStart ok -> if ok then "start=ok" else "start=panic"
  | M.ORestart ok -> if ok then "restart=ok" else "restart=panic"
  | M.ONoStart -> "nostart"
  | M.OSync (r, l) -> Printf.sprintf "reads=%d;len=%d" (int_of_nat r) (int_of_nat l)
  | M.ORecv (ps, cl, r, l) ->
    Printf.sprintf "recv=%d;pk=%s;closed=%d;reads=%d;len=%d" (Stdlib.List.length ps)
      (String.concat "," (Stdlib.List.map pobs ps)) (b2i cl) (int_of_nat r) (int_of_nat l)
  | M.OFin (ps, cl, r, g, fin) ->
    Printf.sprintf "fin=%d;pk=%s;closed=%d;reads=%d;gor=%d;final=%s" (Stdlib.List.length ps)
      (String.concat "," (Stdlib.List.map pobs ps)) (b2i cl) (int_of_nat r) (int_of_nat g)
      (String.concat "," (Stdlib.List.map hexd fin))
  | M.OFcan (cl, g) -> Printf.sprintf "fcan;closed=%d;gor=%d" (b2i cl) (int_of_nat g)
  | M.OSetOpt -> "setopt"
  | M.OOutOfFuel -> "model-out-of-fuel"

let parse (ops : string list) : bool * M.skind * bool * M.item list list * M.sop list =
  let kind = ref M.SPlain and nocopy = ref false and orig = ref false in
  let hs = ref [] and cur = ref [] and script = ref [] in
  let ios = int_of_string in
  Stdlib.List.iter (fun s ->
    match split_on ':' s with
    | ["cfg"; a] -> (match split_on ',' a with
        | k :: n :: _ -> kind := (match k with "plain" -> M.SPlain | "zc" -> M.SZero | "concat" -> M.SConcat | _ -> failwith "c16 cfg kind");
                    nocopy := (n = "1")
        | _ -> failwith "c16 cfg")
    | ["orig"] -> orig := true
    | ["p"; a] -> (match split_on ',' a with
        | [h; ts; cp; ln; ifx] ->
          let ci = { M.ci_ts = z_of_int (ios ts); M.ci_cap = z_of_int (ios cp); M.ci_len = z_of_int (ios ln); M.ci_if = z_of_int (ios ifx) } in
          cur := M.IPkt (bytes_of_hex h, ci) :: !cur
        | _ -> failwith "c16 p")
    | ["e"; k] -> cur := M.IErr (kind_of_name k) :: !cur
    | ["s"; ""] | ["s"] -> hs := Stdlib.List.rev !cur :: !hs; cur := []
    | ["next"] -> script := M.SNext :: !script
    | ["start"] -> script := M.SStart :: !script
    | ["restart"] -> script := M.SRestart :: !script
    | ["grant"; n] -> script := M.SGrant (nat_of_int (ios n)) :: !script
    | ["grantall"] -> script := M.SGrantAll :: !script
    | ["recv"; n] -> script := M.SRecv (nat_of_int (ios n)) :: !script
    | ["cancel"] -> script := M.SCancel :: !script
    | ["fin"] -> script := M.SFin :: !script
    | ["fcan"; n] -> script := M.SFcan (nat_of_int (ios n)) :: !script
    | ["setopt"; "nocopy=1"] -> script := M.SSetOpt true :: !script
    | ["setopt"; "nocopy=0"] -> script := M.SSetOpt false :: !script
    | _ -> failwith ("c16 op: " ^ s)) ops;
  let hs = Stdlib.List.rev (Stdlib.List.rev !cur :: !hs) in
  (!orig, !kind, !nocopy, hs, Stdlib.List.rev !script)

let run (id : string) (ops : string list) (out : out_channel) =
  let (orig, kind, nocopy, hs, script) = parse ops in
  let f = if orig then M.run_script_orig else M.run_script in
  let obs = f dec (nat_of_int channel_capacity) kind nocopy hs script in
  Stdlib.List.iteri (fun i o -> Printf.fprintf out "%s\t%d\t%s\n" id i (show o)) obs

let registered = Registry.register "C16" run

(* ---- extraction cross-check inside Coq (see c18.ml): run_script / run_script_orig with the same
   decoder predicate (restated in Gallina: first byte >= 128), capacity, source kind, option,
   histories and script, recomputed by vm_compute, must equal the obs list this runner computed. *)
let coq_dec = "(fun d : list Z => match d with b :: _ => (128 <=? b)%Z | [] => false end)"
let coq_kindname k = match name_of_kind k with
  | "to" -> "KTo" | "toeof" -> "KToEof" | "eagain" -> "KEagain" | "nettemp" -> "KNetTemp" | "eintr" -> "KEintr"
  | "tmp" -> "KTmp" | "oclosed" -> "KOsClosed" | "eof" -> "KEof" | "weof" -> "KWEof" | "ueof" -> "KUeof"
  | "noprog" -> "KNoProg" | "cpipe" -> "KCPipe" | "sbuf" -> "KSBuf" | "ebadf" -> "KEbadf" | "pebadf" -> "KPEbadf"
  | "cfile" -> "KCFile" | s -> failwith s
let coq_ci (c : M.cinfo) = Printf.sprintf "(mkci %s %s %s %s)" (coq_z c.M.ci_ts) (coq_z c.M.ci_cap) (coq_z c.M.ci_len) (coq_z c.M.ci_if)
let coq_item = function
  | M.IPkt (d, c) -> Printf.sprintf "IPkt %s %s" (coq_zlist d) (coq_ci c)
  | M.IErr k -> "IErr " ^ coq_kindname k
let coq_sop = function
  | M.SNext -> "SNext" | M.SStart -> "SStart" | M.SRestart -> "SRestart" | M.SGrant n -> "SGrant " ^ coq_nat n
  | M.SGrantAll -> "SGrantAll" | M.SRecv n -> "SRecv " ^ coq_nat n | M.SCancel -> "SCancel" | M.SFin -> "SFin"
  | M.SFcan n -> "SFcan " ^ coq_nat n | M.SSetOpt b -> "SSetOpt " ^ coq_bool b
let coq_pobs (o : M.pobs) = Printf.sprintf "(mkpobs %s %s %s)" (coq_zlist o.M.po_data) (coq_ci o.M.po_ci) (coq_bool o.M.po_trunc)
let coq_obs = function
  | M.ONextOk p -> "ONextOk " ^ coq_pobs p
  | M.ONextErr k -> "ONextErr " ^ coq_kindname k
  | M.ONextSkip -> "ONextSkip"
  | M.OStart ok -> "OStart " ^ coq_bool ok
  | M.ORestart ok -> "ORestart " ^ coq_bool ok
  | M.ONoStart -> "ONoStart"
  | M.OSync (r, l) -> Printf.sprintf "OSync %s %s" (coq_nat r) (coq_nat l)
  | M.ORecv (ps, cl, r, l) -> Printf.sprintf "ORecv %s %s %s %s" (coq_list coq_pobs ps) (coq_bool cl) (coq_nat r) (coq_nat l)
  | M.OFin (ps, cl, r, g, fin) ->
    Printf.sprintf "OFin %s %s %s %s %s" (coq_list coq_pobs ps) (coq_bool cl) (coq_nat r) (coq_nat g) (coq_list coq_zlist fin)
  | M.OFcan (cl, g) -> Printf.sprintf "OFcan %s %s" (coq_bool cl) (coq_nat g)
  | M.OSetOpt -> "OSetOpt"
  | M.OOutOfFuel -> "OOutOfFuel"
let to_coq (idx : int) (ops : string list) (out : out_channel) =
  let (orig, kind, nocopy, hs, script) = parse ops in
  let nbytes = Stdlib.List.fold_left (fun a h -> Stdlib.List.fold_left (fun a it -> match it with M.IPkt (d, _) -> a + Stdlib.List.length d | _ -> a) a h) 0 hs in
  if nbytes <= 400 then begin
    let f = if orig then M.run_script_orig else M.run_script in
    let obs = f dec (nat_of_int channel_capacity) kind nocopy hs script in
    coq_example out idx
      (Printf.sprintf "%s %s %s %s %s\n    %s\n    %s" (if orig then "run_script_orig" else "run_script") coq_dec
         (coq_nat (nat_of_int channel_capacity)) (match kind with M.SPlain -> "SPlain" | M.SZero -> "SZero" | M.SConcat -> "SConcat")
         (coq_bool nocopy) (coq_list (coq_list coq_item) hs) (coq_list coq_sop script))
      ("[" ^ String.concat ";\n     " (Stdlib.List.map coq_obs obs) ^ "]")
  end
let registered_coq = Registry.register_coq "C16" ("From GP Require Import Base C16Model.\n", to_coq)
