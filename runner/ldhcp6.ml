(* Ldhcp6 runner: DHCPv6 codec model on the ops of harness/cmd/gpverif/ldhcp6.go *)
open Util
open Lmiscutil
open Ldhcp6Model
let opts os = String.concat "|" (Stdlib.List.map (fun o -> Printf.sprintf "%s.%s.%s" (i o.o6_code) (i o.o6_len) (hex_of_bytes o.o6_data)) os)
let fields (l : dhcp6) = Printf.sprintf "mt=%s;hop=%s;link=%s;peer=%s;xid=%s;no=%d;opts=%s" (i l.d6_mt) (i l.d6_hop) (hex_of_bytes l.d6_link) (hex_of_bytes l.d6_peer) (hex_of_bytes l.d6_xid)
  (Stdlib.List.length l.d6_opts) (opts l.d6_opts)
let hd s = if s = "-" then [] else bytes_of_hex s
let of_spec s = match split_on '.' s with
  | [mt; hop; lk; pr; xid; os] ->
    { d6_contents = []; d6_payload = []; d6_mt = zi mt; d6_hop = zi hop; d6_link = hd lk; d6_peer = hd pr; d6_xid = hd xid;
      d6_opts = (if os = "-" then [] else Stdlib.List.map (fun o -> match split_on '~' o with
        | [c; n; d] -> { o6_code = zi c; o6_len = zi n; o6_data = hd d }
        | _ -> failwith "dhcp6 opt spec") (split_on '/' os)) }
  | _ -> failwith "dhcp6 spec"
let desc = { fresh = d6_fresh; decode = d6_decode_into; serialize = Some d6_serialize; fields; contents = (fun l -> l.d6_contents); payload = (fun l -> l.d6_payload);
  next = (fun _ _ -> "payload"); render_panics = d6_render_panics; of_spec; junk_len = 600 }
let run id ops out = run_generic desc id ops out
let registered = Registry.register "Ldhcp6" run
