(* Leap runner: EAP codec model on the ops of harness/cmd/gpverif/leap.go *)
open Util
open Lmiscutil
open LeapModel
let fields (l : eap) = Printf.sprintf "code=%s;id=%s;len=%s;ty=%s;td=%s" (i l.e_code) (i l.e_id) (i l.e_length) (i l.e_type) (hex_of_bytes l.e_tdata)
let of_spec s = match split_on '.' s with
  | [c; id; len; ty; td] -> { e_contents = []; e_payload = []; e_code = zi c; e_id = zi id; e_length = zi len; e_type = zi ty; e_tdata = (if td = "-" then [] else bytes_of_hex td) }
  | _ -> failwith "eap spec"
let desc = { fresh = eap_fresh; decode = eap_decode_into; serialize = Some eap_serialize; fields; contents = (fun l -> l.e_contents); payload = (fun l -> l.e_payload);
  next = (fun _ _ -> "zero"); render_panics = eap_render_panics; of_spec; junk_len = 300 }
let run id ops out = run_generic desc id ops out
let registered = Registry.register "Leap" run
