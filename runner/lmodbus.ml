(* Lmodbus runner: Modbus/TCP decoder model on the ops of harness/cmd/gpverif/lsmall2.go *)
open Util
open Lmiscutil
open LmodbusModel
let fields (l : modbus) = Printf.sprintf "tid=%s;pid=%s;len=%s;unit=%s" (i l.mb_tid) (i l.mb_pid) (i l.mb_length) (i l.mb_unit)
let desc = { fresh = mb_fresh; decode = mb_decode_into; serialize = None; fields; contents = (fun l -> l.mb_contents); payload = (fun l -> l.mb_payload);
  next = (fun _ _ -> "payload"); render_panics = mb_render_panics; of_spec = (fun _ -> failwith "no spec"); junk_len = 0 }
let run id ops out = run_generic desc id ops out
let registered = Registry.register "Lmodbus" run
