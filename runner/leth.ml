(* Leth runner: Ethernet codec model (coq/Model/LethModel.v) on the ops of harness/cmd/gpverif/leth.go *)
open Util
open LethModel

let i z = string_of_int (int_of_z z)
let cls_of (o : 'a Base.outcome) = match o with Base.Ok _ -> "ok" | Base.Err _ -> "err" | Base.Panic _ -> "panic"

let fields (l : eth) = Printf.sprintf "dst=%s;src=%s;ty=%s;len=%s" (hex_of_bytes l.e_dst) (hex_of_bytes l.e_src) (i l.e_type) (i l.e_length)

let obs (cls : string) (tr : bool) (l : eth) =
  Printf.sprintf "cls=%s;tr=%s;%s;c=%s;p=%s;next=%s;render=%s" cls (if tr then "1" else "0") (fields l)
    (hex_of_bytes l.e_contents) (hex_of_bytes l.e_payload) (i (eth_next l)) (if eth_render_panics l then "panic" else "ok")

let rec zrep (v : int) (n : int) = if n <= 0 then [] else z_of_int v :: zrep v (n - 1)
let junk_of d = zrep (if d = 1 then 0xAA else 0) 64

let of_spec (s : string) : eth =
  match split_on '.' s with
  | [d; sr; t; l] -> { e_contents = []; e_payload = []; e_src = bytes_of_hex sr; e_dst = bytes_of_hex d;
                       e_type = z_of_int (int_of_string t); e_length = z_of_int (int_of_string l) }
  | _ -> failwith "eth spec"

let run (id : string) (ops : string list) (out : out_channel) =
  let step = ref 0 in
  let emit s = Printf.fprintf out "%s\t%d\t%s\n" id !step s; incr step in
  Stdlib.List.iter (fun op ->
    let k = String.index op ':' in
    let name = String.sub op 0 k and args = split_on ',' (String.sub op (k + 1) (String.length op - k - 1)) in
    match name, args with
    | "tag", _ -> ()
    | "dec", [h] ->
      let ((l, o), tr) = eth_decode_into eth_fresh (bytes_of_hex h) in emit (obs (cls_of o) tr l)
    | "dec2", [a; b] ->
      let ((l, o), tr) = eth_dec2 (bytes_of_hex a) (bytes_of_hex b) in emit (obs (cls_of o) tr l)
    | ("ser" | "new"), [h; fcd; p] ->
      let l0 = if name = "ser" then (let ((l, _), _) = eth_decode_into eth_fresh (bytes_of_hex h) in l) else of_spec h in
      let d = Char.code fcd.[2] - 48 in
      let (o, l1) = eth_serialize l0 (bytes_of_hex p) (fcd.[0] = '1') (fcd.[1] = '1') (junk_of d) in
      let outb = match o with Base.Ok b -> hex_of_bytes b | _ -> "" in
      emit (Printf.sprintf "cls=%s;out=%s;%s" (cls_of o) outb (fields l1))
    | ("rt" | "rtn"), [h; p] ->
      let first = if name = "rt" then (let ((l, o), _) = eth_decode_into eth_fresh (bytes_of_hex h) in (l, cls_of o)) else (of_spec h, "ok") in
      (match first with
       | (l, "ok") ->
         let (so, _) = eth_serialize l (bytes_of_hex p) true true (junk_of 0) in
         (match so with
          | Base.Ok b -> let ((l2, o2), tr2) = eth_decode_into eth_fresh b in emit (obs (cls_of o2) tr2 l2)
          | _ -> emit ("ser=" ^ cls_of so))
       | (_, c) -> emit ("first=" ^ c))
    | _ -> failwith ("leth op: " ^ op)) ops

let registered = Registry.register "Leth" run
