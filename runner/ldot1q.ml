(* Ldot1q runner: 802.1Q codec model (coq/Model/Ldot1qModel.v) on the ops of harness/cmd/gpverif/ldot1q.go *)
open Util
open Ldot1qModel

let i z = string_of_int (int_of_z z)
let cls_of (o : 'a Base.outcome) = match o with Base.Ok _ -> "ok" | Base.Err _ -> "err" | Base.Panic _ -> "panic"
let fields (l : dot1q) = Printf.sprintf "prio=%s;dei=%s;vid=%s;ty=%s" (i l.q_prio) (if l.q_dei then "1" else "0") (i l.q_vid) (i l.q_type)
let obs cls tr (l : dot1q) =
  Printf.sprintf "cls=%s;tr=%s;%s;c=%s;p=%s;next=%s;render=%s" cls (if tr then "1" else "0") (fields l)
    (hex_of_bytes l.q_contents) (hex_of_bytes l.q_payload) (i (q_next l)) (if q_render_panics l then "panic" else "ok")
let rec zrep v n = if n <= 0 then [] else z_of_int v :: zrep v (n - 1)
let junk_of d = zrep (if d = 1 then 0xAA else 0) 8
let of_spec s = match split_on '.' s with
  | [p; d; v; t] -> { q_contents = []; q_payload = []; q_prio = z_of_int (int_of_string p); q_dei = (d = "1");
                      q_vid = z_of_int (int_of_string v); q_type = z_of_int (int_of_string t) }
  | _ -> failwith "dot1q spec"

let run (id : string) (ops : string list) (out : out_channel) =
  let step = ref 0 in
  let emit s = Printf.fprintf out "%s\t%d\t%s\n" id !step s; incr step in
  Stdlib.List.iter (fun op ->
    let k = String.index op ':' in
    let name = String.sub op 0 k and args = split_on ',' (String.sub op (k + 1) (String.length op - k - 1)) in
    match name, args with
    | "tag", _ -> ()
    | "dec", [h] -> let ((l, o), tr) = q_decode_into q_fresh (bytes_of_hex h) in emit (obs (cls_of o) tr l)
    | "dec2", [a; b] -> let ((l, o), tr) = q_dec2 (bytes_of_hex a) (bytes_of_hex b) in emit (obs (cls_of o) tr l)
    | ("ser" | "new"), [h; fcd; p] ->
      let l0 = if name = "ser" then (let ((l, _), _) = q_decode_into q_fresh (bytes_of_hex h) in l) else of_spec h in
      let d = Char.code fcd.[2] - 48 in
      let (o, l1) = q_serialize l0 (bytes_of_hex p) (fcd.[0] = '1') (fcd.[1] = '1') (junk_of d) in
      let outb = match o with Base.Ok b -> hex_of_bytes b | _ -> "" in
      emit (Printf.sprintf "cls=%s;out=%s;%s" (cls_of o) outb (fields l1))
    | ("rt" | "rtn"), [h; p] ->
      let first = if name = "rt" then (let ((l, o), _) = q_decode_into q_fresh (bytes_of_hex h) in (l, cls_of o)) else (of_spec h, "ok") in
      (match first with
       | (l, "ok") ->
         let (so, _) = q_serialize l (bytes_of_hex p) true true (junk_of 0) in
         (match so with
          | Base.Ok b -> let ((l2, o2), tr2) = q_decode_into q_fresh b in emit (obs (cls_of o2) tr2 l2)
          | _ -> emit ("ser=" ^ cls_of so))
       | (_, c) -> emit ("first=" ^ c))
    | _ -> failwith ("ldot1q op: " ^ op)) ops

let registered = Registry.register "Ldot1q" run

(* ---- extraction cross-check inside Coq (see c18.ml): every model call this glue makes for the ops of a
   sampled case (decode with what the glue reads from the layer, serialize), restated as a Gallina term
   and recomputed by vm_compute, must give the value the extracted code computed here. *)
let coq_layer (l : dot1q) = Printf.sprintf "(mkQ %s %s %s %s %s %s)" (coq_zlist l.q_contents) (coq_zlist l.q_payload) (coq_z l.q_prio) (coq_bool l.q_dei) (coq_z l.q_vid) (coq_z l.q_type)
let coq_junk d = Printf.sprintf "(repeat %s 8%%nat)" (coq_z (z_of_int (if d = 1 then 0xAA else 0)))

let to_coq (idx : int) (ops : string list) (out : out_channel) =
  let n = ref 0 in
  let name () = incr n; Printf.sprintf "sample_%d_%d" idx !n in
  let small h = String.length h <= 300 in
  let ex_dec (call : string) (((l, o), tr) : (dot1q * unit Base.outcome) * bool) =
    coq_example_named out (name ()) (Printf.sprintf "(let r := %s in (r, q_next (fst (fst r)), q_render_panics (fst (fst r))))" call)
      (Printf.sprintf "(%s, %s, %s, %s, %s)" (coq_layer l) (coq_outcome coq_unit o) (coq_bool tr) (coq_z (q_next l)) (coq_bool (q_render_panics l))) in
  let ex_ser (l0 : dot1q) (p : BinNums.coq_Z list) (f : bool) (c : bool) (d : int) =
    let r = q_serialize l0 p f c (junk_of d) in
    coq_example_named out (name ()) (Printf.sprintf "q_serialize %s %s %s %s %s" (coq_layer l0) (coq_zlist p) (coq_bool f) (coq_bool c) (coq_junk d))
      (coq_pair (coq_outcome coq_zlist) coq_layer r); r in
  let dec_fresh b = ex_dec ("q_decode_into q_fresh " ^ coq_zlist b) (q_decode_into q_fresh b) in
  Stdlib.List.iter (fun op ->
    let k = String.index op ':' in
    let nm = String.sub op 0 k and args = split_on ',' (String.sub op (k + 1) (String.length op - k - 1)) in
    if !n < 6 then
    match nm, args with
    | "dec", [h] when small h -> dec_fresh (bytes_of_hex h)
    | "dec2", [a; b] when small a && small b ->
      let a = bytes_of_hex a and b = bytes_of_hex b in
      ex_dec (Printf.sprintf "q_dec2 %s %s" (coq_zlist a) (coq_zlist b)) (q_dec2 a b)
    | ("ser" | "new"), [h; fcd; p] when small h && small p ->
      let l0 = if nm = "ser" then (let ((l, _), _) = q_decode_into q_fresh (bytes_of_hex h) in l) else of_spec h in
      ignore (ex_ser l0 (bytes_of_hex p) (fcd.[0] = '1') (fcd.[1] = '1') (Char.code fcd.[2] - 48))
    | ("rt" | "rtn"), [h; p] when small h && small p ->
      let first = if nm = "rt" then begin
          let b = bytes_of_hex h in
          let ((l, o), _) = q_decode_into q_fresh b in
          dec_fresh b; (match o with Base.Ok _ -> Some l | _ -> None) end
        else Some (of_spec h) in
      (match first with
       | Some l ->
         (match ex_ser l (bytes_of_hex p) true true 0 with
          | (Base.Ok b2, _) -> dec_fresh b2
          | _ -> ())
       | None -> ())
    | _ -> ()) ops
let registered_coq = Registry.register_coq "Ldot1q" ("From GP Require Import Base Ldot1qModel.\n", to_coq)
