(* Ldiameter runner: Diameter codec model (coq/Model/LdiameterModel.v) on the ops of harness/cmd/gpverif/ldiameter.go *)
open Util
open Lmiscutil
open LdiameterModel

let rec avp_str (a : davp) = match a with
  | Coq_mkAvp (code, fv, fm, fp, len, vendor, data, sub) ->
    let fb = (if fv then 4 else 0) + (if fm then 2 else 0) + (if fp then 1 else 0) in
    let s = match sub with None -> "n" | Some l -> "[" ^ String.concat "|" (Stdlib.List.map avp_str l) ^ "]" in
    Printf.sprintf "%s~%d~%s~%s~%s~%s" (i code) fb (i len) (i vendor) (hex_of_bytes data) s
let fields (l : diameter) = Printf.sprintf "ver=%s;ml=%s;fl=%s%s%s%s;cmd=%s;app=%s;hbh=%s;e2e=%s;avps=%s" (i l.dm_version) (i l.dm_mlen)
  (b01 l.dm_req) (b01 l.dm_prox) (b01 l.dm_err) (b01 l.dm_retr) (i l.dm_cmd) (i l.dm_app) (i l.dm_hbh) (i l.dm_e2e)
  (String.concat "+" (Stdlib.List.map avp_str l.dm_avps))
let avp_of s = match split_on '~' s with
  | [c; fb; len; v; d] -> let f = int_of_string fb in
    Coq_mkAvp (zi c, f land 4 <> 0, f land 2 <> 0, f land 1 <> 0, zi len, zi v, bytes_of_hex d, None)
  | _ -> failwith "diameter avp spec"
let of_spec s = match split_on '.' s with
  | [v; ml; fl; cmd; app; hbh; e2e; avps] -> let f = int_of_string fl in
    { dm_contents = []; dm_payload = []; dm_version = zi v; dm_mlen = zi ml; dm_req = f land 8 <> 0; dm_prox = f land 4 <> 0;
      dm_err = f land 2 <> 0; dm_retr = f land 1 <> 0; dm_cmd = zi cmd; dm_app = zi app; dm_hbh = zi hbh; dm_e2e = zi e2e;
      dm_avps = (if avps = "-" then [] else Stdlib.List.map avp_of (split_on '+' avps)) }
  | _ -> failwith "diameter spec"

let run id ops out =
  (* the G op lists the (code, vendor) keys that the AVP type table maps to Grouped *)
  let keys = Stdlib.List.concat_map (fun op ->
    if String.length op > 2 && String.sub op 0 2 = "G:" && op <> "G:-" then
      Stdlib.List.map (fun kv -> match split_on '.' kv with [c; v] -> (int_of_string c, int_of_string v) | _ -> failwith "G")
        (split_on '+' (String.sub op 2 (String.length op - 2)))
    else []) ops in
  let isg c v = Stdlib.List.mem (int_of_z c, int_of_z v) keys in
  let desc = { fresh = dm_fresh; decode = dm_decode_into isg; serialize = Some dm_serialize; fields;
    contents = (fun l -> l.dm_contents); payload = (fun l -> l.dm_payload); next = (fun _ _ -> "payload");
    render_panics = dm_render_panics; of_spec; junk_len = 4000 } in
  run_generic desc id ops out
let registered = Registry.register "Ldiameter" run
