(* Lnortel runner: Nortel Discovery decoder model on the ops of harness/cmd/gpverif/lnortel.go *)
open Util
open Lmiscutil
open LnortelModel
let fields (l : nortel) = Printf.sprintf "ip=%s;seg=%s;ch=%s;bp=%s;st=%s;nl=%s" (hex_of_bytes l.nt_ip) (hex_of_bytes l.nt_seg) (i l.nt_chassis) (i l.nt_backplane) (i l.nt_state) (i l.nt_links)
let desc = { fresh = nt_fresh; decode = (fun _ d -> nt_decode d); serialize = None; fields; contents = (fun l -> l.nt_contents); payload = (fun l -> l.nt_payload);
  next = (fun _ _ -> "none"); render_panics = nt_render_panics; of_spec = (fun _ -> failwith "no spec"); junk_len = 0 }
let run id ops out = run_generic desc id ops out
let registered = Registry.register "Lnortel" run
