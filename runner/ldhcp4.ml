(* Ldhcp4 runner: DHCPv4 codec model (coq/Model/Ldhcp4Model.v) on the ops of harness/cmd/gpverif/ldhcp4.go *)
open Util
open Lmiscutil
open Ldhcp4Model

let opt_str (o : dopt) = Printf.sprintf "%s~%s~%s" (i o.do_type) (i o.do_len) (hex_of_bytes o.do_data)
let fields (l : dhcp) = Printf.sprintf "op=%s;ht=%s;hl=%s;hops=%s;xid=%s;secs=%s;fl=%s;ci=%s;yi=%s;si=%s;gi=%s;ch=%s;sn=%s;file=%s;opts=%s" (i l.h_op) (i l.h_htype)
  (i l.h_hlen) (i l.h_hops) (i l.h_xid) (i l.h_secs) (i l.h_flags) (hex_of_bytes l.h_ciaddr) (hex_of_bytes l.h_yiaddr) (hex_of_bytes l.h_siaddr)
  (hex_of_bytes l.h_giaddr) (hex_of_bytes l.h_chaddr) (hex_of_bytes l.h_sname) (hex_of_bytes l.h_file) (String.concat "+" (Stdlib.List.map opt_str l.h_options))
let hd s = if s = "-" then [] else bytes_of_hex s
let of_spec s = match split_on '.' s with
  | [op; ht; hl; hops; xid; secs; fl; ci; yi; si; gi; ch; sn; fi; opts] ->
    { h_contents = []; h_payload = []; h_op = zi op; h_htype = zi ht; h_hlen = zi hl; h_hops = zi hops; h_xid = zi xid; h_secs = zi secs; h_flags = zi fl;
      h_ciaddr = hd ci; h_yiaddr = hd yi; h_siaddr = hd si; h_giaddr = hd gi; h_chaddr = hd ch; h_sname = hd sn; h_file = hd fi;
      h_options = (if opts = "-" then [] else Stdlib.List.map (fun o -> match split_on '~' o with
        | [t; len; d] -> { do_type = zi t; do_len = zi len; do_data = hd d } | _ -> failwith "dhcp opt spec") (split_on '+' opts)) }
  | _ -> failwith "dhcp spec"
let desc = { fresh = dh_fresh; decode = dh_decode_into; serialize = Some dh_serialize; fields;
  contents = (fun l -> l.h_contents); payload = (fun l -> l.h_payload); next = (fun _ _ -> "payload");
  render_panics = dh_render_panics; of_spec; junk_len = 0 }
let run id ops out = run_generic desc id ops out
let registered = Registry.register "Ldhcp4" run
