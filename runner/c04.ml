(* C04 runner *)
open Util

let parse_op (s : string) : C04Model.op option =
  match split_on ':' s with
  | ["buf"; h] -> Some (C04Model.OBuf (bytes_of_hex h))
  | ["buf"] -> Some (C04Model.OBuf [])
  | ["new"; a] -> (match split_on ',' a with
      | [b; n; nc; pl; ch] ->
        let ch = int_of_string ch in
        Some (C04Model.ONew (nat_of_int (int_of_string b), nat_of_int (int_of_string n), nc = "1", pl = "1",
                             (if ch < 0 then None else Some (nat_of_int ch))))
      | _ -> failwith "new")
  | ["disp"; p] -> Some (C04Model.ODispose (nat_of_int (int_of_string p)))
  | ["mut"; a] -> (match split_on ',' a with
      | [b; i; v] -> Some (C04Model.OMut (nat_of_int (int_of_string b), nat_of_int (int_of_string i), z_of_int (int_of_string v)))
      | _ -> failwith "mut")
  | ["drop"; k] -> Some (C04Model.ODrop (nat_of_int (int_of_string k)))
  | ["conc"; _] -> None
  | ["skip"; _] -> None
  | _ -> failwith ("c04 op: " ^ s)

let show (obs, bad) =
  let ps = Stdlib.List.map (fun (o : C04Model.pobs) ->
    if o.C04Model.ob_disposed then Printf.sprintf "%d:x:x:1" (int_of_nat o.C04Model.ob_len) else
    Printf.sprintf "%d:%d:%s:%d" (int_of_nat o.C04Model.ob_len) (int_of_z o.C04Model.ob_digest)
      (hex_of_bytes o.C04Model.ob_head) 0) obs in
  Printf.sprintf "pkts=%s;bad=%d" (String.concat "|" ps) (if bad then 1 else 0)

let run (id : string) (ops : string list) (out : out_channel) =
  (* conc ops are no-ops for the model: the previous observation is repeated *)
  let st = ref C04Model.st0 in
  Stdlib.List.iteri (fun i s ->
    (match parse_op s with
     | Some o -> st := C04Model.step !st o
     | None -> ());
    Printf.fprintf out "%s\t%d\t%s\n" id i (show (C04Model.observe !st, !st.C04Model.bad))) ops

let registered = Registry.register "C04" run
