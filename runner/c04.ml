(* C04 runner *)
open Util

let parse_op (s : string) : C04Model.op option =
  match split_on ':' s with
  | ["buf"; h] -> Some (C04Model.OBuf (bytes_of_hex h))
  | ["buf"] -> Some (C04Model.OBuf [])
  | ["new"; a] -> (match split_on ',' a with
      | [b; n; nc; pl; ch] ->
        let ch = int_of_string ch in
        Some (C04Model.ONew (nat_of_int (int_of_string b), nat_of_int (int_of_string n), nc = "1", pl = "1",
                             (if ch < 0 then None else Some (nat_of_int ch))))
      | _ -> failwith "new")
  | ["disp"; p] -> Some (C04Model.ODispose (nat_of_int (int_of_string p)))
  | ["mut"; a] -> (match split_on ',' a with
      | [b; i; v] -> Some (C04Model.OMut (nat_of_int (int_of_string b), nat_of_int (int_of_string i), z_of_int (int_of_string v)))
      | _ -> failwith "mut")
  | ["drop"; k] -> Some (C04Model.ODrop (nat_of_int (int_of_string k)))
  | ["conc"; _] -> None
  | ["skip"; _] -> None
  | _ -> failwith ("c04 op: " ^ s)

let show (obs, bad) =
  let ps = Stdlib.List.map (fun (o : C04Model.pobs) ->
    if o.C04Model.ob_disposed then Printf.sprintf "%d:x:x:1" (int_of_nat o.C04Model.ob_len) else
    Printf.sprintf "%d:%d:%s:%d" (int_of_nat o.C04Model.ob_len) (int_of_z o.C04Model.ob_digest)
      (hex_of_bytes o.C04Model.ob_head) 0) obs in
  Printf.sprintf "pkts=%s;bad=%d" (String.concat "|" ps) (if bad then 1 else 0)

let run (id : string) (ops : string list) (out : out_channel) =
  (* conc ops are no-ops for the model: the previous observation is repeated *)
  let st = ref C04Model.st0 in
  Stdlib.List.iteri (fun i s ->
    (match parse_op s with
     | Some o -> st := C04Model.step !st o
     | None -> ());
    Printf.fprintf out "%s\t%d\t%s\n" id i (show (C04Model.observe !st, !st.C04Model.bad))) ops

let registered = Registry.register "C04" run

(* ---- extraction cross-check inside Coq (see c18.ml): the model ops of the case (conc/skip ops
   are not model ops) and, after each of them, (observe, bad) as THIS runner computed them with the
   extracted step/observe, stated as C04Model.run_trace ops = [...] and proved by vm_compute. *)
let coq_op (o : C04Model.op) = match o with
  | C04Model.OBuf d -> "OBuf " ^ coq_zlist d
  | C04Model.ONew (b, n, nc, pl, ch) ->
    Printf.sprintf "ONew %s %s %s %s %s" (coq_nat b) (coq_nat n) (coq_bool nc) (coq_bool pl) (coq_option coq_nat ch)
  | C04Model.ODispose p -> "ODispose " ^ coq_nat p
  | C04Model.OMut (b, i, v) -> Printf.sprintf "OMut %s %s %s" (coq_nat b) (coq_nat i) (coq_z v)
  | C04Model.ODrop k -> "ODrop " ^ coq_nat k

let coq_pobs (o : C04Model.pobs) =
  Printf.sprintf "{| ob_len := %s; ob_digest := %s; ob_head := %s; ob_disposed := %s |}"
    (coq_nat o.C04Model.ob_len) (coq_z o.C04Model.ob_digest) (coq_zlist o.C04Model.ob_head) (coq_bool o.C04Model.ob_disposed)

let to_coq (idx : int) (ops : string list) (out : out_channel) =
  let l = Stdlib.List.filter_map parse_op ops in
  let nbytes = Stdlib.List.fold_left (fun a o -> match o with C04Model.OBuf d -> a + Stdlib.List.length d | _ -> a) 0 l in
  if nbytes <= 400 && l <> [] then begin
    let st = ref C04Model.st0 in
    let tr = Stdlib.List.map (fun o ->
      st := C04Model.step !st o;
      coq_pair (coq_list coq_pobs) coq_bool (C04Model.observe !st, !st.C04Model.bad)) l in
    coq_example out idx ("run_trace " ^ coq_list coq_op l) ("[" ^ String.concat ";\n     " tr ^ "]")
  end

let registered_coq = Registry.register_coq "C04" ("From GP Require Import Base C04Model.\n", to_coq)
