(* Lcip runner: CIP model (coq/Model/LenipModel.v) on the ops of harness/cmd/gpverif/lenip.go *)
open Util
open Lmiscutil
open LenipModel

let fields (l : cip) = Printf.sprintf "resp=%s;svc=%s;class=%s;inst=%s;st=%s;adds=%s;data=%s" (b01 l.ci_resp) (i l.ci_service) (i l.ci_class)
  (i l.ci_inst) (i l.ci_status) (String.concat "|" (Stdlib.List.map i l.ci_addst)) (hex_of_bytes l.ci_data)
let variant = try Sys.getenv "VERIF_LCIP_VARIANT" with Not_found -> "fixed"
let desc = { fresh = ci_fresh; decode = (if variant = "orig" then ci_decode_into_orig else ci_decode_into); serialize = None; fields;
  contents = (fun l -> l.ci_contents); payload = (fun l -> l.ci_payload); next = (fun _ l -> i (ci_next l));
  render_panics = ci_render_panics; of_spec = (fun _ -> failwith "cip: no spec"); junk_len = 0 }
let run id ops out = run_generic desc id ops out
let registered = Registry.register "Lcip" run
let coq_ci (l : cip) = Printf.sprintf "(mkCi %s %s %s %s %s %s %s %s %s)" (coq_zlist l.ci_contents) (coq_zlist l.ci_payload) (coq_bool l.ci_resp)
  (coq_z l.ci_service) (coq_z l.ci_class) (coq_z l.ci_inst) (coq_z l.ci_status) (coq_zlist l.ci_addst) (coq_zlist l.ci_data)
let registered_coq = Registry.register_coq "Lcip" ("From GP Require Import Base LenipModel.\n",
  Lmidutil.to_coq_dec ~fresh_name:"ci_fresh" ~dec_name:(fun _ -> "ci_decode_into") ~pr:coq_ci ~decode:(fun _ -> ci_decode_into) ~fresh:ci_fresh)
