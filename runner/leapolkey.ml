(* Leapolkey runner: EAPOL-Key codec model (coq/Model/LeapolkeyModel.v) on the ops of harness/cmd/gpverif/leapolkey.go *)
open Util
open Lmiscutil
open LeapolkeyModel
let h = hex_of_bytes
let fields (l : ekey) = Printf.sprintf "kdt=%s;ver=%s;kt=%s;ki=%s;fl=%s%s%s%s%s%s%s%s;klen=%s;rc=%s;nonce=%s;iv=%s;rsc=%s;id=%s;mic=%s;kdl=%s;ekd=%s" (i l.ek_kdt) (i l.ek_ver) (i l.ek_kt) (i l.ek_ki)
  (b01 l.ek_install) (b01 l.ek_ack) (b01 l.ek_micf) (b01 l.ek_secure) (b01 l.ek_micerr) (b01 l.ek_req) (b01 l.ek_enc) (b01 l.ek_smk)
  (i l.ek_klen) (hex_of_z l.ek_rc) (h l.ek_nonce) (h l.ek_iv) (hex_of_z l.ek_rsc) (hex_of_z l.ek_id) (h l.ek_mic) (i l.ek_kdl) (h l.ek_ekd)
let hd s = if s = "-" then [] else bytes_of_hex s
let of_spec s = match split_on '.' s with
  | [kdt; ver; kt; ki; fl; klen; rc; nonce; iv; rsc; id; mic; kdl; ekd] ->
    let f k = fl.[k] = '1' in
    { ek_contents = []; ek_payload = []; ek_kdt = zi kdt; ek_ver = zi ver; ek_kt = zi kt; ek_ki = zi ki; ek_install = f 0; ek_ack = f 1; ek_micf = f 2; ek_secure = f 3;
      ek_micerr = f 4; ek_req = f 5; ek_enc = f 6; ek_smk = f 7; ek_klen = zi klen; ek_rc = z_of_hex rc; ek_nonce = hd nonce; ek_iv = hd iv; ek_rsc = z_of_hex rsc;
      ek_id = z_of_hex id; ek_mic = hd mic; ek_kdl = zi kdl; ek_ekd = hd ekd }
  | _ -> failwith "eapolkey spec"
let desc = { fresh = ek_fresh; decode = ek_decode_into; serialize = Some ek_serialize; fields; contents = (fun l -> l.ek_contents); payload = (fun l -> l.ek_payload);
  next = (fun _ l -> if int_of_z (ek_next l) = 1 then "dot11ie" else "payload"); render_panics = ek_render_panics; of_spec; junk_len = 200 }
let run id ops out = run_generic desc id ops out
let registered = Registry.register "Leapolkey" run
let coq_layer (l : ekey) = Printf.sprintf "(mkEk %s %s %s %s %s %s %s %s %s %s %s %s %s %s %s %s %s %s %s %s %s %s %s)" (coq_zlist l.ek_contents) (coq_zlist l.ek_payload)
  (coq_z l.ek_kdt) (coq_z l.ek_ver) (coq_z l.ek_kt) (coq_z l.ek_ki) (coq_bool l.ek_install) (coq_bool l.ek_ack) (coq_bool l.ek_micf) (coq_bool l.ek_secure) (coq_bool l.ek_micerr)
  (coq_bool l.ek_req) (coq_bool l.ek_enc) (coq_bool l.ek_smk) (coq_z l.ek_klen) (coq_z l.ek_rc) (coq_zlist l.ek_nonce) (coq_zlist l.ek_iv) (coq_z l.ek_rsc) (coq_z l.ek_id)
  (coq_zlist l.ek_mic) (coq_z l.ek_kdl) (coq_zlist l.ek_ekd)
let registered_coq = Registry.register_coq "Leapolkey" ("From GP Require Import Base LeapolkeyModel.\n",
  Lsmallutil.to_coq_generic { Lsmallutil.cd = desc; coq_layer; g_dec = "ek_decode_into"; g_fresh = "ek_fresh"; g_ser = "ek_serialize"; g_rp = "ek_render_panics" })
