(* Lgtp runner: GTPv1-U codec model (coq/Model/LgtpModel.v) on the ops of harness/cmd/gpverif/lgtp.go *)
open Util
open Lmiscutil
open LgtpModel
let ext_str (e : gext) = Printf.sprintf "%s~%s" (i e.gx_type) (hex_of_bytes e.gx_content)
let fields (l : gtp) = Printf.sprintf "v=%s;pt=%s;r=%s;fl=%s%s%s;mt=%s;ml=%s;teid=%s;seq=%s;npdu=%s;exts=%s" (i l.g_version) (i l.g_ptype) (i l.g_reserved)
  (b01 l.g_eflag) (b01 l.g_sflag) (b01 l.g_nflag) (i l.g_mtype) (i l.g_mlen) (i l.g_teid) (i l.g_seq) (i l.g_npdu) (String.concat "+" (Stdlib.List.map ext_str l.g_exts))
let of_spec s = match split_on '.' s with
  | [v; pt; r; fl; mt; ml; teid; sq; np; exts] ->
    { g_contents = []; g_payload = []; g_version = zi v; g_ptype = zi pt; g_reserved = zi r; g_eflag = fl.[0] = '1'; g_sflag = fl.[1] = '1'; g_nflag = fl.[2] = '1';
      g_mtype = zi mt; g_mlen = zi ml; g_teid = zi teid; g_seq = zi sq; g_npdu = zi np;
      g_exts = (if exts = "-" then [] else Stdlib.List.map (fun e -> match split_on '~' e with
        | [t; c] -> { gx_type = zi t; gx_content = bytes_of_hex c } | _ -> failwith "gtp ext spec") (split_on '+' exts)) }
  | _ -> failwith "gtp spec"
let next_str l = match int_of_z (gtp_next l) with 0 -> "zero" | 1 -> "payload" | 4 -> "ip4" | 6 -> "ip6" | _ -> "ppp"
let desc = { fresh = gtp_fresh; decode = gtp_decode_into; serialize = Some gtp_serialize; fields; contents = (fun l -> l.g_contents); payload = (fun l -> l.g_payload);
  next = (fun _ l -> next_str l); render_panics = gtp_render_panics; of_spec; junk_len = 1100 }
let run id ops out = run_generic desc id ops out
let registered = Registry.register "Lgtp" run
