(* helpers shared by the lnet6 runners (licmp6.ml uses its own copies of the first few) *)
open Util

let split_first c s =
  match String.index_opt s c with
  | None -> (s, "")
  | Some i -> (String.sub s 0 i, String.sub s (i + 1) (String.length s - i - 1))

let args_of op =
  let (name, rest) = split_first ':' op in
  (name, Array.of_list (split_on ',' rest))

let cls_name (o : 'a Base.outcome) : string =
  match int_of_z (N6Lib.n6_class o) with 0 -> "ok" | 1 -> "err" | 2 -> "panic" | _ -> "stuck"

let zi z = string_of_int (int_of_z z)
let zs s = z_of_int (int_of_string s)
let b2i b = if b then "1" else "0"

(* payload argument: hex, or *<n>x<hexbyte> *)
let payload_of s =
  if String.length s > 0 && s.[0] = '*' then begin
    let (n, b) = split_first 'x' (String.sub s 1 (String.length s - 1)) in
    let v = Stdlib.List.hd (bytes_of_hex b) in
    Stdlib.List.init (int_of_string n) (fun _ -> v)
  end else bytes_of_hex s

(* hex, or md5:<len>:<digest> beyond 2048 bytes *)
let big (l : BinNums.coq_Z list) =
  let n = Stdlib.List.length l in
  if n <= 2048 then hex_of_bytes l
  else begin
    let b = Bytes.create n in
    Stdlib.List.iteri (fun i z -> Bytes.set b i (Char.chr (int_of_z z land 255))) l;
    Printf.sprintf "md5:%d:%s" n (Digest.to_hex (Digest.bytes b))
  end

let junk_of mode need = if mode = 1 then Stdlib.List.init need (fun _ -> z_of_int 0xAA) else []
let flags s = (s.[0] = '1', s.[1] = '1', Char.code s.[2] - 48)
