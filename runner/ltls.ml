(* Ltls runner: TLS codec model (coq/Model/LtlsModel.v) on the ops of harness/cmd/gpverif/ltls.go *)
open Util
open Lmiscutil
open LtlsModel

let hdr (h : thdr) = Printf.sprintf "%s~%s~%s" (i h.th_ct) (i h.th_ver) (i h.th_len)
let hx = hex_of_bytes
let rec_str (r : trec) = match r with
  | RCcs (h, m) -> Printf.sprintf "%s~%s" (hdr h) (i m)
  | RHs (h, c) -> Printf.sprintf "%s~%s~%s~%s~%s~%s~%s~%s~%s~%s~%s~%s~%s~%s" (hdr h) (i c.ch_type) (i c.ch_len) (i c.ch_pver) (hx c.ch_random)
      (i c.ch_sidlen) (hx c.ch_sid) (i c.ch_cslen) (hx c.ch_cs) (i c.ch_cmlen) (hx c.ch_cm) (i c.ch_extlen) (hx c.ch_ext) (hx c.ch_sni)
  | RApp (h, p) -> Printf.sprintf "%s~%s" (hdr h) (hx p)
  | RAlert (h, l, d, e) -> Printf.sprintf "%s~%s~%s~%s" (hdr h) (i l) (i d) (hx e)
let lst l = String.concat "|" (Stdlib.List.map rec_str l)
let fields (l : tls) = Printf.sprintf "ccs=%s;hs=%s;app=%s;alert=%s" (lst l.tl_ccs) (lst l.tl_hs) (lst l.tl_app) (lst l.tl_alert)
let of_spec s =
  let recs = if s = "-" then [] else Stdlib.List.map (fun rs ->
    match split_on '~' rs with
    | k :: ct :: v :: len :: rest ->
      let h = { th_ct = zi ct; th_ver = zi v; th_len = zi len } in
      (match k, rest with
       | "c", [m] -> RCcs (h, zi m)
       | "h", [] -> RHs (h, ch_zero)
       | "a", [p] -> RApp (h, bytes_of_hex p)
       | "l", [lv; d; e] -> RAlert (h, zi lv, zi d, bytes_of_hex e)
       | _ -> failwith "tls record spec")
    | _ -> failwith "tls record spec") (split_on '+' s) in
  let pick f = Stdlib.List.filter f recs in
  { tl_contents = []; tl_payload = [];
    tl_ccs = pick (function RCcs _ -> true | _ -> false); tl_hs = pick (function RHs _ -> true | _ -> false);
    tl_app = pick (function RApp _ -> true | _ -> false); tl_alert = pick (function RAlert _ -> true | _ -> false) }
let variant = try Sys.getenv "VERIF_LTLS_VARIANT" with Not_found -> "fixed"
let desc = { fresh = tls_fresh;
  decode = (if variant = "orig" then tls_decode_into_orig else tls_decode_into);
  serialize = Some (if variant = "orig" then tls_serialize_orig else tls_serialize); fields;
  contents = (fun l -> l.tl_contents); payload = (fun l -> l.tl_payload); next = (fun _ l -> i (tls_next l));
  render_panics = tls_render_panics; of_spec; junk_len = 4000 }
let run id ops out = run_generic desc id ops out
let registered = Registry.register "Ltls" run
