(* Ltls runner: TLS codec model (coq/Model/LtlsModel.v) on the ops of harness/cmd/gpverif/ltls.go *)
open Util
open Lmiscutil
open LtlsModel

let hdr (h : thdr) = Printf.sprintf "%s~%s~%s" (i h.th_ct) (i h.th_ver) (i h.th_len)
let hx = hex_of_bytes
let rec_str (r : trec) = match r with
  | RCcs (h, m) -> Printf.sprintf "%s~%s" (hdr h) (i m)
  | RHs (h, c) -> Printf.sprintf "%s~%s~%s~%s~%s~%s~%s~%s~%s~%s~%s~%s~%s~%s" (hdr h) (i c.ch_type) (i c.ch_len) (i c.ch_pver) (hx c.ch_random)
      (i c.ch_sidlen) (hx c.ch_sid) (i c.ch_cslen) (hx c.ch_cs) (i c.ch_cmlen) (hx c.ch_cm) (i c.ch_extlen) (hx c.ch_ext) (hx c.ch_sni)
  | RApp (h, p) -> Printf.sprintf "%s~%s" (hdr h) (hx p)
  | RAlert (h, l, d, e) -> Printf.sprintf "%s~%s~%s~%s" (hdr h) (i l) (i d) (hx e)
let lst l = String.concat "|" (Stdlib.List.map rec_str l)
let fields (l : tls) = Printf.sprintf "ccs=%s;hs=%s;app=%s;alert=%s" (lst l.tl_ccs) (lst l.tl_hs) (lst l.tl_app) (lst l.tl_alert)
let of_spec s =
  let recs = if s = "-" then [] else Stdlib.List.map (fun rs ->
    match split_on '~' rs with
    | k :: ct :: v :: len :: rest ->
      let h = { th_ct = zi ct; th_ver = zi v; th_len = zi len } in
      (match k, rest with
       | "c", [m] -> RCcs (h, zi m)
       | "h", [] -> RHs (h, ch_zero)
       | "a", [p] -> RApp (h, bytes_of_hex p)
       | "l", [lv; d; e] -> RAlert (h, zi lv, zi d, bytes_of_hex e)
       | _ -> failwith "tls record spec")
    | _ -> failwith "tls record spec") (split_on '+' s) in
  let pick f = Stdlib.List.filter f recs in
  { tl_contents = []; tl_payload = [];
    tl_ccs = pick (function RCcs _ -> true | _ -> false); tl_hs = pick (function RHs _ -> true | _ -> false);
    tl_app = pick (function RApp _ -> true | _ -> false); tl_alert = pick (function RAlert _ -> true | _ -> false) }
let variant = try Sys.getenv "VERIF_LTLS_VARIANT" with Not_found -> "fixed"
let desc = { fresh = tls_fresh;
  decode = (if variant = "orig" then tls_decode_into_orig else tls_decode_into);
  serialize = Some (if variant = "orig" then tls_serialize_orig else tls_serialize); fields;
  contents = (fun l -> l.tl_contents); payload = (fun l -> l.tl_payload); next = (fun _ l -> i (tls_next l));
  render_panics = tls_render_panics; of_spec; junk_len = 4000 }
let run id ops out = run_generic desc id ops out
let registered = Registry.register "Ltls" run
let coq_th (h : thdr) = Printf.sprintf "(mkTh %s %s %s)" (coq_z h.th_ct) (coq_z h.th_ver) (coq_z h.th_len)
let coq_ch (c : tch) = Printf.sprintf "(mkCh %s %s %s %s %s %s %s %s %s %s %s %s %s)" (coq_z c.ch_type) (coq_z c.ch_len) (coq_z c.ch_pver) (coq_zlist c.ch_random)
  (coq_z c.ch_sidlen) (coq_zlist c.ch_sid) (coq_z c.ch_cslen) (coq_zlist c.ch_cs) (coq_z c.ch_cmlen) (coq_zlist c.ch_cm) (coq_z c.ch_extlen) (coq_zlist c.ch_ext) (coq_zlist c.ch_sni)
let coq_rec (r : trec) = match r with
  | RCcs (h, m) -> Printf.sprintf "(RCcs %s %s)" (coq_th h) (coq_z m)
  | RHs (h, c) -> Printf.sprintf "(RHs %s %s)" (coq_th h) (coq_ch c)
  | RApp (h, p) -> Printf.sprintf "(RApp %s %s)" (coq_th h) (coq_zlist p)
  | RAlert (h, l, d, e) -> Printf.sprintf "(RAlert %s %s %s %s)" (coq_th h) (coq_z l) (coq_z d) (coq_zlist e)
let coq_tls (l : tls) = Printf.sprintf "(mkTls %s %s %s %s %s %s)" (coq_zlist l.tl_contents) (coq_zlist l.tl_payload) (coq_list coq_rec l.tl_ccs)
  (coq_list coq_rec l.tl_hs) (coq_list coq_rec l.tl_app) (coq_list coq_rec l.tl_alert)
let registered_coq = Registry.register_coq "Ltls" ("From GP Require Import Base LtlsModel.\n",
  Lmidutil.to_coq_dec ~fresh_name:"tls_fresh" ~dec_name:(fun _ -> "tls_decode_into") ~pr:coq_tls ~decode:(fun _ -> tls_decode_into) ~fresh:tls_fresh)
