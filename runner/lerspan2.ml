(* Lerspan2 runner: ERSPAN II codec model on the ops of harness/cmd/gpverif/lerspan2.go *)
open Util
open Lmiscutil
open Lerspan2Model
let fields (l : erspan) = Printf.sprintf "t=%s;v=%s;cos=%s;en=%s;vlan=%s;sid=%s;rsv=%s;idx=%s" (b01 l.er_trunc) (i l.er_version) (i l.er_cos) (i l.er_encap)
  (i l.er_vlan) (i l.er_session) (i l.er_reserved) (i l.er_index)
let of_spec s = match split_on '.' s with
  | [t; v; c; e; vl; sid; r; ix] -> { er_contents = []; er_payload = []; er_trunc = (t = "1"); er_version = zi v; er_cos = zi c; er_encap = zi e;
      er_vlan = zi vl; er_session = zi sid; er_reserved = zi r; er_index = zi ix }
  | _ -> failwith "erspan spec"
let desc = { fresh = er_fresh; decode = er_decode_into; serialize = Some er_serialize; fields; contents = (fun l -> l.er_contents); payload = (fun l -> l.er_payload);
  next = (fun _ _ -> "ethernet"); render_panics = er_render_panics; of_spec; junk_len = 8 }
let run id ops out = run_generic desc id ops out
let registered = Registry.register "Lerspan2" run
