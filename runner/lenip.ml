(* Lenip runner: ENIP model (coq/Model/LenipModel.v) on the ops of harness/cmd/gpverif/lenip.go *)
open Util
open Lmiscutil
open LenipModel

let fields (l : enip) = Printf.sprintf "cmd=%s;len=%s;sess=%s;st=%s;sctx=%s;opts=%s;cscmd=%s;csdata=%s" (i l.en_cmd) (i l.en_len) (i l.en_sess)
  (i l.en_status) (hex_of_bytes l.en_sctx) (i l.en_opts) (i l.en_cs_cmd) (hex_of_bytes l.en_cs_data)
let desc = { fresh = en_fresh; decode = en_decode_into; serialize = None; fields;
  contents = (fun l -> l.en_contents); payload = (fun l -> l.en_payload); next = (fun _ l -> i (en_next l));
  render_panics = en_render_panics; of_spec = (fun _ -> failwith "enip: no spec"); junk_len = 0 }
let run id ops out = run_generic desc id ops out
let registered = Registry.register "Lenip" run
let coq_en (l : enip) = Printf.sprintf "(mkEn %s %s %s %s %s %s %s %s %s %s)" (coq_zlist l.en_contents) (coq_zlist l.en_payload) (coq_z l.en_cmd)
  (coq_z l.en_len) (coq_z l.en_sess) (coq_z l.en_status) (coq_zlist l.en_sctx) (coq_z l.en_opts) (coq_z l.en_cs_cmd) (coq_zlist l.en_cs_data)
let registered_coq = Registry.register_coq "Lenip" ("From GP Require Import Base LenipModel.\n",
  Lmidutil.to_coq_dec ~fresh_name:"en_fresh" ~dec_name:(fun _ -> "en_decode_into") ~pr:coq_en ~decode:(fun _ -> en_decode_into) ~fresh:en_fresh)
