(* Licmp4 runner: ICMPv4 codec model (coq/Model/Licmp4Model.v) on the ops of harness/cmd/gpverif/licmp4.go *)
open Util
open Licmp4Model

let i z = string_of_int (int_of_z z)
let cls_of (o : 'a Base.outcome) = match o with Base.Ok _ -> "ok" | Base.Err _ -> "err" | Base.Panic _ -> "panic"
let fields (l : icmp4) = Printf.sprintf "tc=%s;ck=%s;id=%s;seq=%s" (i l.ic_typecode) (i l.ic_csum) (i l.ic_id) (i l.ic_seq)
let obs cls tr (l : icmp4) =
  Printf.sprintf "cls=%s;tr=%s;%s;c=%s;p=%s;next=payload;render=%s" cls (if tr then "1" else "0") (fields l)
    (hex_of_bytes l.ic_contents) (hex_of_bytes l.ic_payload) (if icmp4_render_panics l then "panic" else "ok")
let rec zrep v n = if n <= 0 then [] else z_of_int v :: zrep v (n - 1)
let junk_of d = zrep (if d = 1 then 0xAA else 0) 8

let run (id : string) (ops : string list) (out : out_channel) =
  let step = ref 0 in
  let emit s = Printf.fprintf out "%s\t%d\t%s\n" id !step s; incr step in
  Stdlib.List.iter (fun op ->
    let k = String.index op ':' in
    let name = String.sub op 0 k and args = split_on ',' (String.sub op (k + 1) (String.length op - k - 1)) in
    match name, args with
    | "tag", _ -> ()
    | "dec", [h] -> let ((l, o), tr) = icmp4_decode_into icmp4_fresh (bytes_of_hex h) in emit (obs (cls_of o) tr l)
    | "dec2", [a; b] -> let ((l, o), tr) = icmp4_dec2 (bytes_of_hex a) (bytes_of_hex b) in emit (obs (cls_of o) tr l)
    | ("ser" | "new"), [h; fcd; p] ->
      let l0 = if name = "ser" then (let ((l, _), _) = icmp4_decode_into icmp4_fresh (bytes_of_hex h) in l)
        else (match split_on '.' h with
          | [a; b; c; d] -> let z s = z_of_int (int_of_string s) in
            { ic_contents = []; ic_payload = []; ic_typecode = z a; ic_csum = z b; ic_id = z c; ic_seq = z d }
          | _ -> failwith "icmp4 spec") in
      let d = Char.code fcd.[2] - 48 in
      let (o, l1) = icmp4_serialize l0 (bytes_of_hex p) (fcd.[0] = '1') (fcd.[1] = '1') (junk_of d) in
      let outb = match o with Base.Ok b -> hex_of_bytes b | _ -> "" in
      emit (Printf.sprintf "cls=%s;out=%s;%s" (cls_of o) outb (fields l1))
    | "rt", [h; p] ->
      let ((l, o), _) = icmp4_decode_into icmp4_fresh (bytes_of_hex h) in
      (match o with
       | Base.Ok _ ->
         let (so, _) = icmp4_serialize l (bytes_of_hex p) true true (junk_of 0) in
         (match so with
          | Base.Ok b -> let ((l2, o2), tr2) = icmp4_decode_into icmp4_fresh b in emit (obs (cls_of o2) tr2 l2)
          | _ -> emit ("ser=" ^ cls_of so))
       | _ -> emit ("first=" ^ cls_of o))
    | _ -> failwith ("licmp4 op: " ^ op)) ops

let registered = Registry.register "Licmp4" run
