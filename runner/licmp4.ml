(* Licmp4 runner: ICMPv4 codec model (coq/Model/Licmp4Model.v) on the ops of harness/cmd/gpverif/licmp4.go *)
open Util
open Licmp4Model

let i z = string_of_int (int_of_z z)
let cls_of (o : 'a Base.outcome) = match o with Base.Ok _ -> "ok" | Base.Err _ -> "err" | Base.Panic _ -> "panic"
let fields (l : icmp4) = Printf.sprintf "tc=%s;ck=%s;id=%s;seq=%s" (i l.ic_typecode) (i l.ic_csum) (i l.ic_id) (i l.ic_seq)
let obs cls tr (l : icmp4) =
  Printf.sprintf "cls=%s;tr=%s;%s;c=%s;p=%s;next=payload;render=%s" cls (if tr then "1" else "0") (fields l)
    (hex_of_bytes l.ic_contents) (hex_of_bytes l.ic_payload) (if icmp4_render_panics l then "panic" else "ok")
let rec zrep v n = if n <= 0 then [] else z_of_int v :: zrep v (n - 1)
let junk_of d = zrep (if d = 1 then 0xAA else 0) 8

let run (id : string) (ops : string list) (out : out_channel) =
  let step = ref 0 in
  let emit s = Printf.fprintf out "%s\t%d\t%s\n" id !step s; incr step in
  Stdlib.List.iter (fun op ->
    let k = String.index op ':' in
    let name = String.sub op 0 k and args = split_on ',' (String.sub op (k + 1) (String.length op - k - 1)) in
    match name, args with
    | "tag", _ -> ()
    | "dec", [h] -> let ((l, o), tr) = icmp4_decode_into icmp4_fresh (bytes_of_hex h) in emit (obs (cls_of o) tr l)
    | "dec2", [a; b] -> let ((l, o), tr) = icmp4_dec2 (bytes_of_hex a) (bytes_of_hex b) in emit (obs (cls_of o) tr l)
    | ("ser" | "new"), [h; fcd; p] ->
      let l0 = if name = "ser" then (let ((l, _), _) = icmp4_decode_into icmp4_fresh (bytes_of_hex h) in l)
        else (match split_on '.' h with
          | [a; b; c; d] -> let z s = z_of_int (int_of_string s) in
            { ic_contents = []; ic_payload = []; ic_typecode = z a; ic_csum = z b; ic_id = z c; ic_seq = z d }
          | _ -> failwith "icmp4 spec") in
      let d = Char.code fcd.[2] - 48 in
      let (o, l1) = icmp4_serialize l0 (bytes_of_hex p) (fcd.[0] = '1') (fcd.[1] = '1') (junk_of d) in
      let outb = match o with Base.Ok b -> hex_of_bytes b | _ -> "" in
      emit (Printf.sprintf "cls=%s;out=%s;%s" (cls_of o) outb (fields l1))
    | "rt", [h; p] ->
      let ((l, o), _) = icmp4_decode_into icmp4_fresh (bytes_of_hex h) in
      (match o with
       | Base.Ok _ ->
         let (so, _) = icmp4_serialize l (bytes_of_hex p) true true (junk_of 0) in
         (match so with
          | Base.Ok b -> let ((l2, o2), tr2) = icmp4_decode_into icmp4_fresh b in emit (obs (cls_of o2) tr2 l2)
          | _ -> emit ("ser=" ^ cls_of so))
       | _ -> emit ("first=" ^ cls_of o))
    | _ -> failwith ("licmp4 op: " ^ op)) ops

let registered = Registry.register "Licmp4" run

(* ---- extraction cross-check inside Coq (see c18.ml): every model call this glue makes for the ops of a
   sampled case (decode with what the glue reads from the layer, serialize), restated as a Gallina term
   and recomputed by vm_compute, must give the value the extracted code computed here. *)
let coq_layer (l : icmp4) = Printf.sprintf "(mkIcmp4 %s %s %s %s %s %s)" (coq_zlist l.ic_contents) (coq_zlist l.ic_payload) (coq_z l.ic_typecode) (coq_z l.ic_csum) (coq_z l.ic_id) (coq_z l.ic_seq)
let coq_junk d = Printf.sprintf "(repeat %s 8%%nat)" (coq_z (z_of_int (if d = 1 then 0xAA else 0)))
let of_spec4 (h : string) : icmp4 = match split_on '.' h with
  | [a; b; c; d] -> let z s = z_of_int (int_of_string s) in
    { ic_contents = []; ic_payload = []; ic_typecode = z a; ic_csum = z b; ic_id = z c; ic_seq = z d }
  | _ -> failwith "icmp4 spec"
let to_coq (idx : int) (ops : string list) (out : out_channel) =
  let n = ref 0 in
  let name () = incr n; Printf.sprintf "sample_%d_%d" idx !n in
  let small h = String.length h <= 300 in
  let ex_dec (call : string) (((l, o), tr) : (icmp4 * unit Base.outcome) * bool) =
    coq_example_named out (name ()) (Printf.sprintf "(let r := %s in (r, icmp4_render_panics (fst (fst r))))" call)
      (Printf.sprintf "(%s, %s, %s, %s)" (coq_layer l) (coq_outcome coq_unit o) (coq_bool tr) (coq_bool (icmp4_render_panics l))) in
  let ex_ser (l0 : icmp4) (p : BinNums.coq_Z list) (f : bool) (c : bool) (d : int) =
    let r = icmp4_serialize l0 p f c (junk_of d) in
    coq_example_named out (name ()) (Printf.sprintf "icmp4_serialize %s %s %s %s %s" (coq_layer l0) (coq_zlist p) (coq_bool f) (coq_bool c) (coq_junk d))
      (coq_pair (coq_outcome coq_zlist) coq_layer r); r in
  let dec_fresh b = ex_dec ("icmp4_decode_into icmp4_fresh " ^ coq_zlist b) (icmp4_decode_into icmp4_fresh b) in
  Stdlib.List.iter (fun op ->
    let k = String.index op ':' in
    let nm = String.sub op 0 k and args = split_on ',' (String.sub op (k + 1) (String.length op - k - 1)) in
    if !n < 6 then
    match nm, args with
    | "dec", [h] when small h -> dec_fresh (bytes_of_hex h)
    | "dec2", [a; b] when small a && small b ->
      let a = bytes_of_hex a and b = bytes_of_hex b in
      ex_dec (Printf.sprintf "icmp4_dec2 %s %s" (coq_zlist a) (coq_zlist b)) (icmp4_dec2 a b)
    | ("ser" | "new"), [h; fcd; p] when small h && small p ->
      let l0 = if nm = "ser" then (let ((l, _), _) = icmp4_decode_into icmp4_fresh (bytes_of_hex h) in l) else of_spec4 h in
      ignore (ex_ser l0 (bytes_of_hex p) (fcd.[0] = '1') (fcd.[1] = '1') (Char.code fcd.[2] - 48))
    | ("rt" | "rtn"), [h; p] when small h && small p ->
      let first = if nm = "rt" then begin
          let b = bytes_of_hex h in
          let ((l, o), _) = icmp4_decode_into icmp4_fresh b in
          dec_fresh b; (match o with Base.Ok _ -> Some l | _ -> None) end
        else Some (of_spec4 h) in
      (match first with
       | Some l ->
         (match ex_ser l (bytes_of_hex p) true true 0 with
          | (Base.Ok b2, _) -> dec_fresh b2
          | _ -> ())
       | None -> ())
    | _ -> ()) ops
let registered_coq = Registry.register_coq "Licmp4" ("From GP Require Import Base Licmp4Model.\n", to_coq)
