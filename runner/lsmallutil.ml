(* helpers of agent lsmall: the op decf:<hex> (registered decoder on a recording builder), see harness/cmd/gpverif/lsmall_common.go *)
open Util
open Lmiscutil
let is_decf op = String.length op >= 5 && String.sub op 0 5 = "decf:"
(* decode_fn data = ((((layer, added), next), outcome), truncated); a layer that was not added is unreachable: zero layer shown *)
let run_with_decf (d : 'l desc) (decode_fn : BinNums.coq_Z list -> ((('l * bool) * BinNums.coq_Z option) * unit Base.outcome) * bool)
    (id : string) (ops : string list) (out : out_channel) =
  if Stdlib.List.exists is_decf ops then begin
    let step = ref 0 in
    Stdlib.List.iter (fun op ->
      if is_decf op then begin
        let h = Stdlib.List.hd (split_on ',' (String.sub op 5 (String.length op - 5))) in
        let ((((l, added), nx), o), tr) = decode_fn (bytes_of_hex h) in
        let l = if added then l else d.fresh in
        Printf.fprintf out "%s\t%d\tcls=%s;tr=%s;added=%s;%s;c=%s;p=%s;next=%s\n" id !step (cls_of o) (b01 tr) (if added then "1" else "0") (d.fields l)
          (hex_of_bytes (d.contents l)) (hex_of_bytes (d.payload l)) (match nx with None -> "none" | Some z -> "t" ^ i z);
        incr step
      end) ops
  end else run_generic d id ops out
