(* helpers of agent lsmall: the op decf:<hex> (registered decoder on a recording builder), see harness/cmd/gpverif/lsmall_common.go *)
open Util
open Lmiscutil
let is_decf op = String.length op >= 5 && String.sub op 0 5 = "decf:"
(* decode_fn data = ((((layer, added), next), outcome), truncated); a layer that was not added is unreachable: zero layer shown *)
let run_with_decf (d : 'l desc) (decode_fn : BinNums.coq_Z list -> ((('l * bool) * BinNums.coq_Z option) * unit Base.outcome) * bool)
    (id : string) (ops : string list) (out : out_channel) =
  if Stdlib.List.exists is_decf ops then begin
    let step = ref 0 in
    Stdlib.List.iter (fun op ->
      if is_decf op then begin
        let h = Stdlib.List.hd (split_on ',' (String.sub op 5 (String.length op - 5))) in
        let ((((l, added), nx), o), tr) = decode_fn (bytes_of_hex h) in
        let l = if added then l else d.fresh in
        Printf.fprintf out "%s\t%d\tcls=%s;tr=%s;added=%s;%s;c=%s;p=%s;next=%s\n" id !step (cls_of o) (b01 tr) (if added then "1" else "0") (d.fields l)
          (hex_of_bytes (d.contents l)) (hex_of_bytes (d.payload l)) (match nx with None -> "none" | Some z -> "t" ^ i z);
        incr step
      end) ops
  end else run_generic d id ops out

(* ---- extraction cross-check inside Coq (see c18.ml / ldot1q.ml): every model call the generic glue makes for the ops of a
   sampled case, restated as a Gallina term and recomputed by vm_compute, must give the value the extracted code computed. *)
type 'l coqdesc = {
  cd : 'l desc;
  coq_layer : 'l -> string;        (* the layer value as a Gallina term *)
  g_dec : string;                  (* Gallina name of desc.decode, e.g. "ap_decode_into" *)
  g_fresh : string;
  g_ser : string;                  (* Gallina name of the serializer ("" = none) *)
  g_rp : string;                   (* Gallina name of render_panics *)
}
let coq_junk (n : int) (d : int) = Printf.sprintf "(repeat %s %d%%nat)" (coq_z (z_of_int (if d = 1 then 0xAA else 0))) n

let to_coq_generic (c : 'l coqdesc) (idx : int) (ops : string list) (out : out_channel) =
  let d = c.cd in
  let n = ref 0 in
  let name () = incr n; Printf.sprintf "sample_%d_%d" idx !n in
  let small h = String.length h <= 240 in
  let coq_res ((l, o), tr) = Printf.sprintf "(%s, %s, %s)" (c.coq_layer l) (coq_outcome coq_unit o) (coq_bool tr) in
  let ex_dec (call : string) (((l, _), _) as r) =
    coq_example_named out (name ()) (Printf.sprintf "(let r := %s in (r, %s (fst (fst r))))" call c.g_rp)
      (Printf.sprintf "(%s, %s)" (coq_res r) (coq_bool (d.render_panics l))) in
  let ser () = match d.serialize with Some f -> f | None -> failwith "no serialize" in
  let ex_ser l0 p f cs dk =
    let r = (ser ()) l0 p f cs (junk_of dk d.junk_len) in
    coq_example_named out (name ()) (Printf.sprintf "%s %s %s %s %s %s" c.g_ser (c.coq_layer l0) (coq_zlist p) (coq_bool f) (coq_bool cs) (coq_junk d.junk_len dk))
      (coq_pair (coq_outcome coq_zlist) c.coq_layer r); r in
  let dec_fresh b = ex_dec (Printf.sprintf "%s %s %s" c.g_dec c.g_fresh (coq_zlist b)) (d.decode d.fresh b) in
  Stdlib.List.iter (fun op ->
    let k = String.index op ':' in
    let nm = String.sub op 0 k and args = split_on ',' (String.sub op (k + 1) (String.length op - k - 1)) in
    if !n < 6 then
    match nm, args with
    | "dec", [h] when small h -> dec_fresh (bytes_of_hex h)
    | "dec2", [a; b] when small a && small b ->
      let a = bytes_of_hex a and b = bytes_of_hex b in
      let ((l1, _), _) = d.decode d.fresh a in
      ex_dec (Printf.sprintf "%s (fst (fst (%s %s %s))) %s" c.g_dec c.g_dec c.g_fresh (coq_zlist a) (coq_zlist b)) (d.decode l1 b)
    | ("ser" | "new"), [h; fcd; p] when small h && small p && c.g_ser <> "" ->
      let l0 = if nm = "ser" then (let ((l, _), _) = d.decode d.fresh (bytes_of_hex h) in l) else d.of_spec h in
      ignore (ex_ser l0 (bytes_of_hex p) (fcd.[0] = '1') (fcd.[1] = '1') (Char.code fcd.[2] - 48))
    | ("rt" | "rtn"), [h; p] when small h && small p && c.g_ser <> "" ->
      let first = if nm = "rt" then begin
          let b = bytes_of_hex h in
          let ((l, o), _) = d.decode d.fresh b in
          dec_fresh b; (match o with Base.Ok _ -> Some l | _ -> None) end
        else Some (d.of_spec h) in
      (match first with
       | Some l -> (match ex_ser l (bytes_of_hex p) true true 0 with (Base.Ok b2, _) -> dec_fresh b2 | _ -> ())
       | None -> ())
    | _ -> ()) ops
