(* C05parser runner: scripted families of synthetic decoding layers through the extracted
   parser model.  Real-layer cases (rset:/rpkt:) have no model output (model is parametric). *)
open Util

let zi s = z_of_int (int_of_string s)

let parse_row (s : string) : C05ParserModel.srow =
  match split_on ',' s with
  | [mode; clen; next; out; trunc; sticky; can] ->
    let cans = if can = "-" || can = "" then [] else Stdlib.List.map zi (split_on '/' can) in
    { C05ParserModel.w_can = cans; w_mode = zi mode; w_clen = zi clen; w_next = zi next; w_out = zi out;
      w_trunc = (trunc = "1"); w_sticky = (sticky = "1") }
  | _ -> failwith ("c05 row: " ^ s)

let parse_idx (s : string) =
  if s = "-" || s = "" then [] else Stdlib.List.map (fun x -> nat_of_int (int_of_string x)) (split_on '/' s)

let parse_op (s : string) : C05ParserModel.op =
  match split_on ':' s with
  | ["new"; a] -> (match split_on ',' a with
      | [kind; first; ip; iu; sub] ->
        let k = int_of_string kind in
        let k = if k = 4 then 0 else k in
        C05ParserModel.ONew (z_of_int k, zi first, ip = "1", iu = "1", parse_idx sub)
      | _ -> failwith "new")
  | ["add"; a] -> C05ParserModel.OAdd (nat_of_int (int_of_string a))
  | ["pkt"; h] -> C05ParserModel.OPkt (bytes_of_hex h)
  | ["pkt"] -> C05ParserModel.OPkt []
  | _ -> failwith ("c05 op: " ^ s)

let err_string (e : C05ParserModel.perr) = match e with
  | C05ParserModel.ENil -> "nil"
  | C05ParserModel.EUnsup t -> "unsup:" ^ string_of_int (int_of_z t)
  | C05ParserModel.ELayer -> "layer"
  | C05ParserModel.ERecovered -> "recovered"
  | C05ParserModel.EPanic -> "panic"

let fixed = match Sys.getenv_opt "C05_ORIG" with Some "1" -> false | _ -> true

let run (id : string) (ops : string list) (out : out_channel) =
  match ops with
  | f :: rest when String.length f >= 4 && String.sub f 0 4 = "fam:" ->
    let body = String.sub f 4 (String.length f - 4) in
    let rows = if body = "" then [] else Stdlib.List.map parse_row (split_on '|' body) in
    let l = Stdlib.List.map parse_op rest in
    let tr = C05ParserModel.run_case fixed rows l in
    Printf.fprintf out "%s\t0\tfam=%d\n" id (Stdlib.List.length rows);
    Stdlib.List.iteri (fun i (o : C05ParserModel.obs) ->
      let txt =
        if int_of_z o.C05ParserModel.o_kind = 0 then (if o.C05ParserModel.o_panic then "new=panic" else "new=ok")
        else match o.C05ParserModel.o_res with
          | None -> "noparser"
          | Some r ->
            let objs = Stdlib.List.mapi (fun k (s : C05ParserModel.sstate) ->
              Printf.sprintf "%d:%d:%d:%d:%d:%d" k
                (Stdlib.List.length s.C05ParserModel.s_contents) (Stdlib.List.length s.C05ParserModel.s_payload)
                (int_of_z s.C05ParserModel.s_next) (int_of_z s.C05ParserModel.s_opt) (int_of_z s.C05ParserModel.s_count))
              r.C05ParserModel.r_store in
            Printf.sprintf "dec=%s;err=%s;trunc=%d;objs=%s"
              (ints_csv (Stdlib.List.map int_of_z r.C05ParserModel.r_decoded))
              (err_string r.C05ParserModel.r_err)
              (if r.C05ParserModel.r_trunc then 1 else 0)
              (String.concat "/" objs) in
      Printf.fprintf out "%s\t%d\t%s\n" id (i + 1) txt) tr
  | _ -> ()   (* real-layer cases: implementation-side oracle only *)

let registered = Registry.register "C05parser" run

(* ---- extraction cross-check inside Coq (see c18.ml): run_case (same fixed/orig flag) on the case's
   family rows and ops, recomputed by vm_compute, must equal the obs list this extracted runner computed. *)
module P = C05ParserModel
let coq_row (r : P.srow) =
  Printf.sprintf "mkRow %s %s %s %s %s %s %s" (coq_zlist r.P.w_can) (coq_z r.P.w_mode) (coq_z r.P.w_clen) (coq_z r.P.w_next)
    (coq_z r.P.w_out) (coq_bool r.P.w_trunc) (coq_bool r.P.w_sticky)
let coq_op = function
  | P.ONew (k, f, ip, iu, sub) -> Printf.sprintf "ONew %s %s %s %s %s" (coq_z k) (coq_z f) (coq_bool ip) (coq_bool iu) (coq_list coq_nat sub)
  | P.OAdd o -> "OAdd " ^ coq_nat o
  | P.OPkt d -> "OPkt " ^ coq_zlist d
let coq_perr = function
  | P.ENil -> "ENil" | P.EUnsup t -> "(EUnsup " ^ coq_z t ^ ")" | P.ELayer -> "ELayer" | P.ERecovered -> "ERecovered" | P.EPanic -> "EPanic"
let coq_sstate (x : P.sstate) =
  Printf.sprintf "mkS %s %s %s %s %s" (coq_zlist x.P.s_contents) (coq_zlist x.P.s_payload) (coq_z x.P.s_next) (coq_z x.P.s_opt) (coq_z x.P.s_count)
let coq_pres (r : P.sstate P.presult) =
  Printf.sprintf "(mkR %s %s %s %s)" (coq_list coq_sstate r.P.r_store) (coq_zlist r.P.r_decoded) (coq_bool r.P.r_trunc) (coq_perr r.P.r_err)
let coq_obs (o : P.obs) = Printf.sprintf "mkO %s %s %s" (coq_z o.P.o_kind) (coq_bool o.P.o_panic) (coq_option coq_pres o.P.o_res)
let to_coq (idx : int) (ops : string list) (out : out_channel) =
  match ops with
  | f :: rest when String.length f >= 4 && String.sub f 0 4 = "fam:" ->
    let body = String.sub f 4 (String.length f - 4) in
    let rows = if body = "" then [] else Stdlib.List.map parse_row (split_on '|' body) in
    let l = Stdlib.List.map parse_op rest in
    let nbytes = Stdlib.List.fold_left (fun a o -> match o with P.OPkt d -> a + Stdlib.List.length d | _ -> a) 0 l in
    if nbytes <= 200 then
      coq_example out idx (Printf.sprintf "run_case %s\n    %s\n    %s" (coq_bool fixed) (coq_list coq_row rows) (coq_list coq_op l))
        ("[" ^ String.concat ";\n     " (Stdlib.List.map coq_obs (P.run_case fixed rows l)) ^ "]")
  | _ -> ()
let registered_coq = Registry.register_coq "C05parser" ("From GP Require Import Base C05ParserModel.\n", to_coq)
