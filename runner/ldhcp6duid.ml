(* Ldhcp6duid runner: DHCPv6 DUID codec model on the ops of harness/cmd/gpverif/ldhcp6duid.go *)
open Util
open Lmiscutil
open Ldhcp6duidModel
let fields (l : duid) = Printf.sprintf "ty=%s;hw=%s;en=%s;time=%s;lla=%s;id=%s" (i l.du_type) (hex_of_bytes l.du_hw) (hex_of_bytes l.du_en) (hex_of_bytes l.du_time)
  (hex_of_bytes l.du_lla) (hex_of_bytes l.du_id)
let hx s = if s = "-" then [] else bytes_of_hex s
let of_spec s = match split_on '.' s with
  | [t; h; e; tm; a; id] -> { du_type = zi t; du_hw = hx h; du_en = hx e; du_time = hx tm; du_lla = hx a; du_id = hx id }
  | _ -> failwith "duid spec"
let orig = (try Sys.getenv "VERIF_LDHCP6DUID_ORIG" = "1" with Not_found -> false)
let desc = { fresh = du_fresh; decode = (if orig then du_decode_orig else du_decode_into); serialize = Some du_serialize; fields; contents = (fun _ -> []); payload = (fun _ -> []);
  next = (fun _ _ -> "none"); render_panics = du_render_panics; of_spec; junk_len = 0 }
let run id ops out = run_generic desc id ops out
let registered = Registry.register "Ldhcp6duid" run
let coq_layer (l : duid) = Printf.sprintf "(mkDu %s %s %s %s %s %s)" (coq_z l.du_type) (coq_zlist l.du_hw) (coq_zlist l.du_en) (coq_zlist l.du_time) (coq_zlist l.du_lla) (coq_zlist l.du_id)
let registered_coq = Registry.register_coq "Ldhcp6duid" ("From GP Require Import Base Ldhcp6duidModel.\n",
  Lsmallutil.to_coq_generic { Lsmallutil.cd = desc; coq_layer; g_dec = (if orig then "du_decode_orig" else "du_decode_into"); g_fresh = "du_fresh"; g_ser = "du_serialize"; g_rp = "du_render_panics" })
