(* Larp runner: ARP codec model (coq/Model/LarpModel.v) on the ops of harness/cmd/gpverif/larp.go *)
open Util
open Lmiscutil
open LarpModel

let fields (l : arp) = Printf.sprintf "at=%s;pr=%s;hs=%s;ps=%s;op=%s;shw=%s;sp=%s;dhw=%s;dp=%s" (i l.a_addrtype) (i l.a_proto)
  (i l.a_hwsize) (i l.a_protsize) (i l.a_op) (hex_of_bytes l.a_shw) (hex_of_bytes l.a_sprot) (hex_of_bytes l.a_dhw) (hex_of_bytes l.a_dprot)
let hd s = if s = "-" then [] else bytes_of_hex s
let of_spec s = match split_on '.' s with
  | [at; pr; hs; ps; op; shw; sp; dhw; dp] ->
    { a_contents = []; a_payload = []; a_addrtype = zi at; a_proto = zi pr; a_hwsize = zi hs; a_protsize = zi ps; a_op = zi op;
      a_shw = hd shw; a_sprot = hd sp; a_dhw = hd dhw; a_dprot = hd dp }
  | _ -> failwith "arp spec"

let desc = { fresh = arp_fresh; decode = arp_decode_into; serialize = Some arp_serialize; fields;
  contents = (fun l -> l.a_contents); payload = (fun l -> l.a_payload); next = (fun _ _ -> "payload");
  render_panics = arp_render_panics; of_spec; junk_len = 1200 }
let run id ops out = run_generic desc id ops out
let registered = Registry.register "Larp" run
