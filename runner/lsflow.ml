(* Lsflow runner: sFlow datagram decoder model (coq/Model/LsflowModel.v) on the ops of harness/cmd/gpverif/lsflow.go.
   Numbers are printed in hex (64-bit counters stay Z), byte strings as x<hex>, lists as [a,b,...]. *)
open Util
open Lmiscutil
open LsflowModel

let rec sv_str (v : sv) = match v with
  | SU z -> hex_of_z z
  | SB b -> "x" ^ hex_of_bytes b
  | SL l -> "[" ^ String.concat "," (Stdlib.List.map sv_str l) ^ "]"
let fields (l : sflow) = Printf.sprintf "ver=%s;agent=%s;sub=%s;seq=%s;up=%s;n=%s;fs=%s;cs=%s"
  (hex_of_z l.sf_ver) (hex_of_bytes l.sf_agent) (hex_of_z l.sf_sub) (hex_of_z l.sf_seq) (hex_of_z l.sf_up) (hex_of_z l.sf_cnt)
  (sv_str (SL l.sf_fs)) (sv_str (SL l.sf_cs))

let run id ops out =
  let desc = { fresh = sf_fresh; decode = sf_decode_into; serialize = None; fields;
    contents = (fun _ -> []); payload = (fun _ -> []); next = (fun _ _ -> "payload");
    render_panics = sf_render_panics; of_spec = (fun _ -> failwith "no spec"); junk_len = 0 } in
  run_generic desc id ops out
let registered = Registry.register "Lsflow" run

(* extraction cross-check: the model function applied to the parsed ops, as a Gallina term, equals what the
   extracted OCaml computed; coqc proves each Example by vm_compute *)
let rec coq_sv (v : sv) = match v with
  | SU z -> "(SU " ^ coq_z z ^ ")"
  | SB b -> "(SB " ^ coq_zlist b ^ ")"
  | SL l -> "(SL " ^ coq_list coq_sv l ^ ")"
let coq_layer (l : sflow) = Printf.sprintf "(mkSf %s %s %s %s %s %s %s %s)" (coq_z l.sf_ver) (coq_zlist l.sf_agent) (coq_z l.sf_sub)
  (coq_z l.sf_seq) (coq_z l.sf_up) (coq_z l.sf_cnt) (coq_list coq_sv l.sf_fs) (coq_list coq_sv l.sf_cs)
let to_coq (idx : int) (ops : string list) (out : out_channel) =
  let n = ref 0 in
  let name () = incr n; Printf.sprintf "sample_%d_%d" idx !n in
  let small h = String.length h <= 400 in
  let res (((l, o), tr) : (sflow * unit Base.outcome) * bool) =
    Printf.sprintf "(%s, %s, %s)" (coq_layer l) (coq_outcome coq_unit o) (coq_bool tr) in
  Stdlib.List.iter (fun op ->
    let k = String.index op ':' in
    let nm = String.sub op 0 k and args = split_on ',' (String.sub op (k + 1) (String.length op - k - 1)) in
    if !n < 4 then
    match nm, args with
    | "dec", [h] when small h ->
      let b = bytes_of_hex h in
      coq_example_named out (name ()) ("sf_decode_into sf_fresh " ^ coq_zlist b) (res (sf_decode_into sf_fresh b))
    | "dec2", [a; b] when small a && small b ->
      let a = bytes_of_hex a and b = bytes_of_hex b in
      let ((l1, _), _) = sf_decode_into sf_fresh a in
      coq_example_named out (name ()) (Printf.sprintf "sf_decode_into (fst (fst (sf_decode_into sf_fresh %s))) %s" (coq_zlist a) (coq_zlist b))
        (res (sf_decode_into l1 b))
    | _ -> ()) ops
let registered_coq = Registry.register_coq "Lsflow" ("From GP Require Import Base LsflowModel.\n", to_coq)
