(* Lsflow runner: sFlow datagram decoder model (coq/Model/LsflowModel.v) on the ops of harness/cmd/gpverif/lsflow.go.
   Numbers are printed in hex (64-bit counters stay Z), byte strings as x<hex>, lists as [a,b,...]. *)
open Util
open Lmiscutil
open LsflowModel

let rec sv_str (v : sv) = match v with
  | SU z -> hex_of_z z
  | SB b -> "x" ^ hex_of_bytes b
  | SL l -> "[" ^ String.concat "," (Stdlib.List.map sv_str l) ^ "]"
let fields (l : sflow) = Printf.sprintf "ver=%s;agent=%s;sub=%s;seq=%s;up=%s;n=%s;fs=%s;cs=%s"
  (hex_of_z l.sf_ver) (hex_of_bytes l.sf_agent) (hex_of_z l.sf_sub) (hex_of_z l.sf_seq) (hex_of_z l.sf_up) (hex_of_z l.sf_cnt)
  (sv_str (SL l.sf_fs)) (sv_str (SL l.sf_cs))

let run id ops out =
  let desc = { fresh = sf_fresh; decode = sf_decode_into; serialize = None; fields;
    contents = (fun _ -> []); payload = (fun _ -> []); next = (fun _ _ -> "payload");
    render_panics = sf_render_panics; of_spec = (fun _ -> failwith "no spec"); junk_len = 0 } in
  run_generic desc id ops out
let registered = Registry.register "Lsflow" run
