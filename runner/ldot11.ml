(* Ldot11 runner: 802.11 MAC header model (coq/Model/Ldot11Model.v) on the ops of harness/cmd/gpverif/ldot11.go *)
open Util
open Lmiscutil
open Ldot11Model

let qos_str = function None -> "n" | Some q -> Printf.sprintf "%s~%s~%s~%s" (i q.q_tid) (b01 q.q_eosp) (i q.q_ack) (i q.q_txop)
let htc_str = function None -> "n" | Some l -> String.concat "," (Stdlib.List.map i l)
let fields (l : dot11) = Printf.sprintf "type=%s;proto=%s;flags=%s;dur=%s;a1=%s;a2=%s;a3=%s;a4=%s;seq=%s;frag=%s;csum=%s;qos=%s;htc=%s;dl=%s"
  (i l.d_type) (i l.d_proto) (i l.d_flags) (i l.d_dur) (hex_of_bytes l.d_a1) (hex_of_bytes l.d_a2) (hex_of_bytes l.d_a3) (hex_of_bytes l.d_a4)
  (i l.d_seq) (i l.d_frag) (i l.d_csum) (qos_str l.d_qos) (htc_str l.d_htc) (b01 l.d_data)
(* Dot11Type.LayerType() names (layers/enums.go Dot11TypeMetadata) and the data layers' NextLayerType, by type value *)
let tyname = [| "Dot11MgmtAssociationReq"; "Dot11Ctrl"; "Dot11Data"; "Unknown"; "Dot11MgmtAssociationResp"; "Unknown"; "Dot11DataCFAck"; "Unknown";
  "Dot11MgmtReassociationReq"; "Unknown"; "Dot11DataCFPoll"; "Unknown"; "Dot11MgmtReassociationResp"; "Unknown"; "Dot11DataCFAckPoll"; "Unknown";
  "Dot11MgmtProbeReq"; "Unknown"; "Dot11DataNull"; "Unknown"; "Dot11MgmtProbeResp"; "Unknown"; "Dot11DataCFAck"; "Unknown";
  "Dot11MgmtMeasurementPilot"; "Unknown"; "Dot11DataCFPoll"; "Unknown"; "Unknown"; "Dot11Ctrl"; "Dot11DataCFAckPoll"; "Unknown";
  "Dot11MgmtBeacon"; "Dot11CtrlBlockAckReq"; "Dot11DataQOSData"; "Unknown"; "Dot11MgmtATIM"; "Dot11CtrlBlockAck"; "Dot11DataQOSDataCFAck"; "Unknown";
  "Dot11MgmtDisassociation"; "Dot11CtrlPowersavePoll"; "Dot11DataQOSDataCFPoll"; "Unknown"; "Dot11MgmtAuthentication"; "Dot11CtrlRTS"; "Dot11DataQOSDataCFAckPoll"; "Unknown";
  "Dot11MgmtDeauthentication"; "Dot11CtrlCTS"; "Dot11DataQOSNull"; "Unknown"; "Dot11MgmtAction"; "Dot11CtrlAck"; "Unknown"; "Unknown";
  "Dot11MgmtActionNoAck"; "Dot11CtrlCFEnd"; "Dot11DataQOSCFPoll"; "Unknown"; "Unknown"; "Dot11CtrlCFEndAck"; "Dot11DataQOSCFAckPoll"; "Unknown" |]
let datanext t = match t with
  | 2 | 6 | 10 | 14 | 18 | 22 | 26 | 30 -> "LLC"
  | 34 -> "Dot11Data" | 38 -> "Dot11DataCFAck" | 42 -> "Dot11DataCFPoll" | 46 -> "Dot11DataCFAckPoll" | 50 -> "Dot11DataNull"
  | 58 -> "Dot11DataCFPoll" | 62 -> "Dot11DataCFAckPoll" | _ -> "?"
let next _ (l : dot11) =
  let c = int_of_z (d11_next l) in
  if c = -1 then "Dot11WEP" else if c >= 1000 then datanext (c - 1000) else if c < 64 then tyname.(c) else "Unknown"
let addr s = if s = "-" then [] else bytes_of_hex s
let of_spec s = match split_on '.' s with
  | [t; p; f; d; a1; a2; a3; a4; sq; fr] ->
    { d_contents = []; d_payload = []; d_type = zi t; d_proto = zi p; d_flags = zi f; d_dur = zi d; d_a1 = addr a1; d_a2 = addr a2;
      d_a3 = addr a3; d_a4 = addr a4; d_seq = zi sq; d_frag = zi fr; d_csum = z_of_int 0; d_qos = None; d_htc = None; d_data = false }
  | _ -> failwith "dot11 spec"
let desc = { fresh = d11_fresh; decode = d11_decode_into; serialize = Some d11_serialize; fields;
  contents = (fun l -> l.d_contents); payload = (fun l -> l.d_payload); next;
  render_panics = d11_render_panics; of_spec; junk_len = 64 }
let run id ops out = run_generic desc id ops out
let registered = Registry.register "Ldot11" run
