(* C15pcap runner: pcap and snoop readers of the extracted model over a chunked stream *)
open Util
open Pcapcommon

(* SetSnaplen schedule (op ss:<call>.<value>,...) as one optional value per read call *)
let snaps : (int * int) list ref = ref []
let sched_of (l : (int * int) list) : BinNums.coq_Z option list =
  if l = [] then [] else
    let m = Stdlib.List.fold_left (fun a (k, _) -> max a k) 0 l in
    Stdlib.List.init (m + 1) (fun k -> match Stdlib.List.assoc_opt k l with Some v -> Some (z_of_int v) | None -> None)

let parse (ops : string list) : string * bool * bool * int * PcapModel.chunk list =
  let fmt = ref "pcap" and zc = ref false and gz = ref false and n = ref 0 in
  snaps := [];
  let chunks = ref [] in
  Stdlib.List.iter (fun op ->
    let name, arg = match String.index_opt op ':' with
      | Some i -> String.sub op 0 i, String.sub op (i + 1) (String.length op - i - 1)
      | None -> op, "" in
    match name with
    | "fmt" -> fmt := arg
    | "zc" -> zc := (arg = "1")
    | "gz" -> gz := (arg = "1")
    | "de" | "tag" -> ()
    | "n" -> n := int_of_string arg
    | "c" -> chunks := PcapModel.Chunk (bytes_of_hex arg) :: !chunks
    | "fail" -> chunks := PcapModel.Fail :: !chunks
    | "ss" -> snaps := Stdlib.List.map (fun it -> match split_on '.' it with
        | [k; v] -> (int_of_string k, int_of_string v) | _ -> failwith ("c15pcap ss: " ^ it)) (split_on ',' arg)
    | _ -> failwith ("c15pcap op: " ^ op)) ops;
  (!fmt, !zc, !gz, !n, Stdlib.List.rev !chunks)

let run (id : string) (ops : string list) (out : out_channel) =
  let (fmt, zc, gz, n, s) = parse ops in
  let fmt = ref fmt and zc = ref zc and gz = ref gz and n = ref n in
  let step = ref 0 in
  let emit x = Printf.fprintf out "%s\t%d\t%s\n" id !step x; incr step in
  if !gz then emit "gzip"
  else begin
    let fuel = nat_of_int !n in
    let results =
      if !fmt = "snoop" then begin
        let (((h, _), rs), _) = PcapModel.snoop_run !zc fuel s in
        emit (snoop_hdr_str h); rs
      end else begin
        let (((h, _), rs), _) =
          if !snaps = [] then PcapModel.pcap_run !zc fuel s else PcapModel.pcap_run_sn !zc fuel (sched_of !snaps) s in
        emit (pcap_hdr_str h); rs
      end in
    Stdlib.List.iter (fun (r, _) -> emit (res_str r)) results
  end

let registered = Registry.register "C15pcap" run

(* ---- extraction cross-check inside Coq (see c18.ml): pcap_run / snoop_run on the case's chunked stream,
   recomputed by vm_compute, must equal the 4-tuple this extracted runner computed (and snoop_linktype). *)
let to_coq (idx : int) (ops : string list) (out : out_channel) =
  let (fmt, zc, gz, n, s) = parse ops in
  let nbytes = Stdlib.List.fold_left (fun a c -> match c with PcapModel.Chunk b -> a + Stdlib.List.length b | _ -> a) 0 s in
  if not gz && nbytes <= 400 && n <= 2000 then begin
    let fuel = nat_of_int n in
    let args = Printf.sprintf "%s %s %s" (coq_bool zc) (coq_nat fuel) (coq_list coq_chunk s) in
    if fmt = "snoop" then begin
      let r = PcapModel.snoop_run zc fuel s in
      coq_example out idx ("snoop_run " ^ args) (coq_run_result coq_sstate r);
      (match r with
       | (((Base.Ok st, _), _), _) ->
         coq_example_named out (Printf.sprintf "sample_%d_lt" idx) ("snoop_linktype " ^ coq_sstate st) (coq_option coq_z (PcapModel.snoop_linktype st))
       | _ -> ())
    end else if !snaps <> [] then begin
      let sc = sched_of !snaps in
      let args = Printf.sprintf "%s %s %s %s" (coq_bool zc) (coq_nat fuel) (coq_list (coq_option coq_z) sc) (coq_list coq_chunk s) in
      coq_example out idx ("pcap_run_sn " ^ args) (coq_run_result coq_rstate (PcapModel.pcap_run_sn zc fuel sc s))
    end else
      coq_example out idx ("pcap_run " ^ args) (coq_run_result coq_rstate (PcapModel.pcap_run zc fuel s))
  end
let registered_coq = Registry.register_coq "C15pcap" (pcap_coq_header, to_coq)
