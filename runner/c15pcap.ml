(* C15pcap runner: pcap and snoop readers of the extracted model over a chunked stream *)
open Util
open Pcapcommon

let run (id : string) (ops : string list) (out : out_channel) =
  let fmt = ref "pcap" and zc = ref false and gz = ref false and n = ref 0 in
  let chunks = ref [] in
  Stdlib.List.iter (fun op ->
    let name, arg = match String.index_opt op ':' with
      | Some i -> String.sub op 0 i, String.sub op (i + 1) (String.length op - i - 1)
      | None -> op, "" in
    match name with
    | "fmt" -> fmt := arg
    | "zc" -> zc := (arg = "1")
    | "gz" -> gz := (arg = "1")
    | "de" | "tag" -> ()
    | "n" -> n := int_of_string arg
    | "c" -> chunks := PcapModel.Chunk (bytes_of_hex arg) :: !chunks
    | "fail" -> chunks := PcapModel.Fail :: !chunks
    | _ -> failwith ("c15pcap op: " ^ op)) ops;
  let s = Stdlib.List.rev !chunks in
  let step = ref 0 in
  let emit x = Printf.fprintf out "%s\t%d\t%s\n" id !step x; incr step in
  if !gz then emit "gzip"
  else begin
    let fuel = nat_of_int !n in
    let results =
      if !fmt = "snoop" then begin
        let (((h, _), rs), _) = PcapModel.snoop_run !zc fuel s in
        emit (snoop_hdr_str h); rs
      end else begin
        let (((h, _), rs), _) = PcapModel.pcap_run !zc fuel s in
        emit (pcap_hdr_str h); rs
      end in
    Stdlib.List.iter (fun (r, _) -> emit (res_str r)) results
  end

let registered = Registry.register "C15pcap" run
