(* Lvrrp runner: VRRPv2 decoder model (coq/Model/LvrrpModel.v) on the ops of harness/cmd/gpverif/lvrrp.go *)
open Util
open Lmiscutil
open LvrrpModel

let fields (l : vrrp) = Printf.sprintf "v=%s;t=%s;vrid=%s;prio=%s;cnt=%s;auth=%s;adv=%s;cs=%s;ips=%s" (i l.vr_version) (i l.vr_type) (i l.vr_vrid)
  (i l.vr_prio) (i l.vr_count) (i l.vr_authtype) (i l.vr_adver) (i l.vr_csum) (String.concat "." (Stdlib.List.map hex_of_bytes l.vr_ips))
let desc = { fresh = vr_fresh; decode = vr_decode_into; serialize = None; fields;
  contents = (fun l -> l.vr_contents); payload = (fun l -> l.vr_payload); next = (fun _ _ -> "zero");
  render_panics = vr_render_panics; of_spec = (fun _ -> failwith "no spec"); junk_len = 0 }
let run id ops out = run_generic desc id ops out
let registered = Registry.register "Lvrrp" run
