(* Letherip runner: EtherIP decoder model on the ops of harness/cmd/gpverif/letherip.go *)
open Util
open Lmiscutil
open LetheripModel
let fields (l : etherip) = Printf.sprintf "v=%s;rsv=%s" (i l.ei_version) (i l.ei_reserved)
let desc = { fresh = ei_fresh; decode = ei_decode_into; serialize = None; fields; contents = (fun l -> l.ei_contents); payload = (fun l -> l.ei_payload);
  next = (fun _ _ -> "ethernet"); render_panics = ei_render_panics; of_spec = (fun _ -> failwith "no spec"); junk_len = 0 }
let run id ops out = run_generic desc id ops out
let registered = Registry.register "Letherip" run
