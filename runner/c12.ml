(* C12 runner: thread programs + schedule -> extracted interleaving model of the shared pool.
   ops:  pkg:t | pkg:r                 tcpassembly / reassembly (repaired tree; env C12_RSM_ORIG=1: with the FIXME panic)
         th:<tid>:<op>,<op>,...        program of thread tid (tids 0..n-1, in order);
                                       op = fl | <flow letter><dir 0|1><flags S,F,SF,->.<seq>.<hex>
         sched:<tid>,<tid>,...         the schedule (entries naming a thread that cannot step are skipped)
         explore:<maxstates>           (manual use) DFS over all schedules, report the first schedule
                                       violating each executable property statement *)
open Util
open C12Model

let key_s (k : key) = Printf.sprintf "%c%d" (Char.chr (97 + int_of_nat k.k_flow)) (if k.k_dir then 1 else 0)

let parse_pkt (s : string) : packet =
  match split_on '.' s with
  | [hd; sq; hx] when String.length hd >= 3 ->
    let flow = Char.code hd.[0] - 97 and dir = hd.[1] = '1' in
    let fl = String.sub hd 2 (String.length hd - 2) in
    { p_key = { k_flow = nat_of_int flow; k_dir = dir };
      p_syn = String.contains fl 'S'; p_fin = String.contains fl 'F';
      p_seq = z_of_int (int_of_string sq); p_bytes = bytes_of_hex hx }
  | _ -> failwith ("c12 packet: " ^ s)

let parse_op (s : string) : op = if s = "fl" then OFlush else OPkt (parse_pkt s)

let chunk_s (c : chunk) =
  Printf.sprintf "%d/%s/%s" (int_of_z c.ch_skip) (hex_of_bytes c.ch_bytes)
    (match c.ch_start, c.ch_end with true, true -> "SE" | true, false -> "S" | false, true -> "E" | _ -> "-")

let event_s (e : event) : string option =
  match e with
  | ENew (t, k, sid) -> Some (Printf.sprintf "new;t=%d;k=%s;s=%d" (int_of_nat t) (key_s k) (int_of_nat sid))
  | ECall (t, sid, c, CReasm (dir, chs)) ->
    Some (Printf.sprintf "reasm;t=%d;s=%d;c=%d;d=%d;ch=%s" (int_of_nat t) (int_of_nat sid) (int_of_nat c)
            (if dir then 1 else 0) (String.concat "," (Stdlib.List.map chunk_s chs)))
  | ECall (t, sid, c, CComplete) ->
    Some (Printf.sprintf "complete;t=%d;s=%d;c=%d" (int_of_nat t) (int_of_nat sid) (int_of_nat c))
  | EPanic t -> Some (Printf.sprintf "panic;t=%d" (int_of_nat t))
  | EProc _ -> None

let tag_s = function
  | TgRaceLost -> "lookup-race-lost" | TgBothDir -> "both-directions-race"
  | TgCloseLL -> "close-between-lookup-and-lock" | TgRecycle -> "recycle"
  | TgStale -> "stale-pointer-processed" | TgRetry -> "retry" | TgFlushStale -> "flush-stale"

type 'a inst = { cinit : 'a; cclosed : 'a -> bool;
                 proc : 'a -> bool -> packet -> ('a * cevent list) * bool;
                 fl : 'a -> ('a * cevent list) * bool;
                 unsup : 'a -> bool }

let final_line (i : 'a inst) (s : 'a state) : string =
  let objs = Array.of_list s.s_objs in
  let conns = Stdlib.List.sort compare
      (Stdlib.List.map (fun (k, c) ->
           let ci = int_of_nat c in
           let sid = if ci < Array.length objs then int_of_nat objs.(ci).c_stream else -1 in
           Printf.sprintf "%s:%d:%d" (key_s k) ci sid) s.s_conns) in
  let fin = if all_done s then "done" else if any_enabled i.cinit s then "fuel" else "stuck" in
  let unsup = Stdlib.List.exists (fun o -> i.unsup o.c_st) s.s_objs in
  Printf.sprintf "final=%s;conns=%s;free=%s%s" fin (String.concat "," conns)
    (String.concat "," (Stdlib.List.map (fun c -> string_of_int (int_of_nat c)) s.s_free))
    (if unsup then ";model-unsupported-overlap" else "")

(* verdicts of the executable property statements on a final state (informational tags) *)
let verdicts (i : 'a inst) (g : config) (s : 'a state) (raced : bool) : string list =
  (if raced then ["m-race"] else []) @
  (if chk_one_entry i.cinit g s then [] else ["m-one-entry"]) @
  (if chk_no_panic s then [] else ["m-panic"]) @
  (if chk_progress i.cinit s then [] else ["m-stuck"]) @
  (if chk_right_stream g s then [] else ["m-wrong-stream"]) @
  (if chk_complete_most_once s then [] else ["m-complete-twice"]) @
  (if (not (all_done s)) || chk_complete_once_final s then [] else ["m-not-completed"])

(* exhaustive DFS over schedules (every enabled thread at every state), for testing the
   property statements against the model before proving / refuting them *)
let explore (i : 'a inst) (g : config) (progs : op list list) (maxstates : int) (out : out_channel) (id : string) =
  let found : (string, int list) Hashtbl.t = Hashtbl.create 8 in
  let states = ref 0 and finals = ref 0 in
  let n = Stdlib.List.length progs in
  let report clause sched = if not (Hashtbl.mem found clause) then Hashtbl.replace found clause (Stdlib.List.rev sched) in
  let rec go (s : 'a state) (sched : int list) (epi : bool) =
    if !states < maxstates then begin
      incr states;
      if has_race i.cinit g s then report "race" sched;
      if not (chk_one_entry i.cinit g s) then report "one-entry" sched;
      if not (chk_no_panic s) then report "panic" sched;
      if not (chk_progress i.cinit s) then report "stuck" sched;
      if not (chk_right_stream g s) then report "wrong-stream" sched;
      if not (chk_complete_most_once s) then report "complete-twice" sched;
      let nt = Stdlib.List.length s.s_thr in
      let any = ref false in
      for t = 0 to nt - 1 do
        match exec i.cinit i.cclosed i.proc i.fl g s (nat_of_int t) with
        | Some s' -> any := true; go s' (t :: sched) epi
        | None -> ()
      done;
      if not !any then begin
        if all_done s && not epi then go (add_thread s [OFlush]) sched true
        else begin
          incr finals;
          if all_done s && not (chk_complete_once_final s) then report "not-completed" sched
        end
      end
    end in
  go (init progs) [] false;
  ignore n;
  let k = ref 0 in
  Printf.fprintf out "%s\t%d\texplore;states=%d;finals=%d;truncated=%b\n" id !k !states !finals (!states >= maxstates); incr k;
  Hashtbl.iter (fun clause sched ->
      Printf.fprintf out "%s\t%d\texplore;clause=%s;sched=%s\n" id !k clause (ints_csv sched); incr k) found

let run_inst (i : 'a inst) (g : config) (progs : op list list) (sched : int list) (expl : int)
    (id : string) (out : out_channel) =
  if expl > 0 then explore i g progs expl out id
  else begin
    let (s, raced) = run_case i.cinit i.cclosed i.proc i.fl g (nat_of_int 3000) progs (Stdlib.List.map nat_of_int sched) in
    let evs = Stdlib.List.filter_map event_s (Stdlib.List.rev s.s_log) in
    let lines = evs @ [final_line i s] in
    Stdlib.List.iteri (fun k l -> Printf.fprintf out "%s\t%d\t%s\n" id k l) lines;
    let tags = Stdlib.List.sort_uniq compare (Stdlib.List.map tag_s s.s_tags @ verdicts i g s raced) in
    if tags <> [] then Printf.fprintf out "%s\ttags\t%s\n" id (String.concat "," tags)
  end

let is_race_case (ops : string list) = Stdlib.List.exists (fun s -> String.length s > 5 && String.sub s 0 5 = "race:") ops

let parse (ops : string list) : string * op list list * int list * int =
  let pkg = ref "t" and progs = ref [] and sched = ref [] and expl = ref 0 in
  Stdlib.List.iter (fun s ->
      match split_on ':' s with
      | ["pkg"; v] -> pkg := v
      | ["th"; _; body] ->
        progs := (if body = "" then [] else Stdlib.List.map parse_op (split_on ',' body)) :: !progs
      | ["sched"; ""] -> ()
      | ["sched"; v] -> sched := Stdlib.List.map int_of_string (split_on ',' v)
      | ["explore"; v] -> expl := int_of_string v
      | _ -> failwith ("c12 op: " ^ s)) ops;
  (!pkg, Stdlib.List.rev !progs, !sched, !expl)

let tcp_inst = { cinit = tc_init; cclosed = tc_closed; proc = tcp_process; fl = tcp_flush; unsup = (fun _ -> false) }
let rsm_inst = { cinit = rc_init; cclosed = rc_closed; proc = rsm_process; fl = rsm_flush; unsup = (fun st -> st.r_unsup) }
let rsm_cfg (pkg : string) =
  let orig = (try Sys.getenv "C12_RSM_ORIG" = "1" with Not_found -> false) in
  if orig || pkg = "ro" then cfg_rsm_orig else cfg_rsm

let run (id : string) (ops : string list) (out : out_channel) =
  if is_race_case ops then () else
  let (pkg, progs, sched, expl) = parse ops in
  match pkg with
  | "t" -> run_inst tcp_inst cfg_tcp progs sched expl id out
  | "r" | "ro" -> run_inst rsm_inst (rsm_cfg pkg) progs sched expl id out
  | v -> failwith ("c12 pkg: " ^ v)

let registered = Registry.register "C12" run

(* ---- extraction cross-check inside Coq (see c18.ml).  The final state is large and polymorphic in the
   connection state, so the Example states what this glue READS from it: with
     let '(s, raced) := run_tcp|run_rsm cfg 3000 progs sched
   the tuple (rev (s_log s), s_tags s, raced, s_conns s, s_free s, map c_stream (s_objs s),
   (all_done, any_enabled, unsupported), the six chk_* verdicts), computed here with the extracted code,
   must equal the same projections evaluated by vm_compute. *)
let coq_key (k : key) = Printf.sprintf "(mkKey %s %s)" (coq_nat k.k_flow) (coq_bool k.k_dir)
let coq_pkt (p : packet) =
  Printf.sprintf "(mkPkt %s %s %s %s %s)" (coq_key p.p_key) (coq_bool p.p_syn) (coq_bool p.p_fin) (coq_z p.p_seq) (coq_zlist p.p_bytes)
let coq_op = function OPkt p -> "OPkt " ^ coq_pkt p | OFlush -> "OFlush"
let coq_chunk (c : chunk) =
  Printf.sprintf "mkChunk %s %s %s %s" (coq_zlist c.ch_bytes) (coq_z c.ch_skip) (coq_bool c.ch_start) (coq_bool c.ch_end)
let coq_cevent = function
  | CReasm (d, chs) -> Printf.sprintf "(CReasm %s %s)" (coq_bool d) (coq_list coq_chunk chs)
  | CComplete -> "CComplete"
let coq_event (e : event) = match e with
  | ENew (t, k, sid) -> Printf.sprintf "ENew %s %s %s" (coq_nat t) (coq_key k) (coq_nat sid)
  | ECall (t, sid, c, ce) -> Printf.sprintf "ECall %s %s %s %s" (coq_nat t) (coq_nat sid) (coq_nat c) (coq_cevent ce)
  | EProc (t, p, c, ck, sid) -> Printf.sprintf "EProc %s %s %s %s %s" (coq_nat t) (coq_pkt p) (coq_nat c) (coq_key ck) (coq_nat sid)
  | EPanic t -> "EPanic " ^ coq_nat t
let coq_tag = function
  | TgRaceLost -> "TgRaceLost" | TgBothDir -> "TgBothDir" | TgCloseLL -> "TgCloseLL" | TgRecycle -> "TgRecycle"
  | TgStale -> "TgStale" | TgRetry -> "TgRetry" | TgFlushStale -> "TgFlushStale"
let coq_cfg (g : config) =
  Printf.sprintf "(mkCfg %s %s %s)" (match g.g_pkg with Tcp -> "Tcp" | Rsm -> "Rsm") (coq_bool g.g_fixme) (coq_bool g.g_recycle)

let to_coq_inst (i : 'a inst) (runname : string) (cinitname : string) (unsupterm : string) (g : config)
    (progs : op list list) (sched : int list) (idx : int) (out : out_channel) =
  let fuel = nat_of_int 3000 in
  let (s, raced) = run_case i.cinit i.cclosed i.proc i.fl g fuel progs (Stdlib.List.map nat_of_int sched) in
  let gs = coq_cfg g in
  let lhs = Printf.sprintf
    "(let '(s, raced) := %s %s %s\n      %s\n      %s in\n   (rev (s_log s), s_tags s, raced, s_conns s, s_free s, map (fun o => c_stream o) (s_objs s),\n    (all_done s, any_enabled _ %s s, %s),\n    (chk_one_entry _ %s %s s, chk_no_panic s, chk_progress _ %s s, chk_right_stream %s s, chk_complete_most_once s, chk_complete_once_final s)))"
    runname gs (coq_nat fuel) (coq_list (coq_list coq_op) progs) (coq_list coq_nat (Stdlib.List.map nat_of_int sched))
    cinitname unsupterm cinitname gs cinitname gs in
  let rhs = Printf.sprintf "(%s,\n     %s, %s, %s, %s, %s,\n     (%s, %s, %s),\n     (%s, %s, %s, %s, %s, %s))"
    (coq_list coq_event (Stdlib.List.rev s.s_log)) (coq_list coq_tag s.s_tags) (coq_bool raced)
    (coq_list (coq_pair coq_key coq_nat) s.s_conns) (coq_list coq_nat s.s_free)
    (coq_list (fun o -> coq_nat o.c_stream) s.s_objs)
    (coq_bool (all_done s)) (coq_bool (any_enabled i.cinit s)) (coq_bool (Stdlib.List.exists (fun o -> i.unsup o.c_st) s.s_objs))
    (coq_bool (chk_one_entry i.cinit g s)) (coq_bool (chk_no_panic s)) (coq_bool (chk_progress i.cinit s))
    (coq_bool (chk_right_stream g s)) (coq_bool (chk_complete_most_once s)) (coq_bool (chk_complete_once_final s)) in
  coq_example out idx lhs rhs

let to_coq (idx : int) (ops : string list) (out : out_channel) =
  if is_race_case ops then () else
  let (pkg, progs, sched, expl) = parse ops in
  let nbytes = Stdlib.List.fold_left (fun a pr -> Stdlib.List.fold_left (fun a o -> match o with OPkt p -> a + Stdlib.List.length p.p_bytes | _ -> a) a pr) 0 progs in
  if expl = 0 && nbytes <= 400 then
    match pkg with
    | "t" -> to_coq_inst tcp_inst "run_tcp" "tc_init" "false" cfg_tcp progs sched idx out
    | "r" | "ro" -> to_coq_inst rsm_inst "run_rsm" "rc_init" "existsb (fun o => r_unsup (c_st o)) (s_objs s)" (rsm_cfg pkg) progs sched idx out
    | _ -> ()
let registered_coq = Registry.register_coq "C12" ("From GP Require Import Base C12Model.\n", to_coq)
