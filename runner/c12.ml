(* C12 runner: thread programs + schedule -> extracted interleaving model of the shared pool.
   ops:  pkg:t | pkg:r                 tcpassembly / reassembly (repaired tree; env C12_RSM_ORIG=1: with the FIXME panic)
         th:<tid>:<op>,<op>,...        program of thread tid (tids 0..n-1, in order);
                                       op = fl | <flow letter><dir 0|1><flags S,F,SF,->.<seq>.<hex>
         sched:<tid>,<tid>,...         the schedule (entries naming a thread that cannot step are skipped)
         explore:<maxstates>           (manual use) DFS over all schedules, report the first schedule
                                       violating each executable property statement *)
open Util
open C12Model

let key_s (k : key) = Printf.sprintf "%c%d" (Char.chr (97 + int_of_nat k.k_flow)) (if k.k_dir then 1 else 0)

let parse_pkt (s : string) : packet =
  let parts = split_on '.' s in
  let parts, ts = (match parts with [a; b; c; d] -> [a; b; c], int_of_string d | _ -> parts, 0) in
  match parts with
  | [hd; sq; hx] when String.length hd >= 3 ->
    let flow = Char.code hd.[0] - 97 and dir = hd.[1] = '1' in
    let fl = String.sub hd 2 (String.length hd - 2) in
    { p_key = { k_flow = nat_of_int flow; k_dir = dir };
      p_syn = String.contains fl 'S'; p_fin = String.contains fl 'F';
      p_seq = z_of_int (int_of_string sq); p_bytes = bytes_of_hex hx; p_ts = z_of_int ts }
  | _ -> failwith ("c12 packet: " ^ s)

let parse_op (s : string) : op =
  if s = "fl" then OFlush None
  else if String.length s > 2 && String.sub s 0 2 = "fo" then
    OFlush (Some (z_of_int (int_of_string (String.sub s 2 (String.length s - 2)))))
  else OPkt (parse_pkt s)

let chunk_s (c : chunk) =
  Printf.sprintf "%d/%s/%s" (int_of_z c.ch_skip) (hex_of_bytes c.ch_bytes)
    (match c.ch_start, c.ch_end with true, true -> "SE" | true, false -> "S" | false, true -> "E" | _ -> "-")

let event_s (e : event) : string option =
  match e with
  | ENew (t, k, sid) -> Some (Printf.sprintf "new;t=%d;k=%s;s=%d" (int_of_nat t) (key_s k) (int_of_nat sid))
  | ECall (t, sid, c, CReasm (dir, chs)) ->
    Some (Printf.sprintf "reasm;t=%d;s=%d;c=%d;d=%d;ch=%s" (int_of_nat t) (int_of_nat sid) (int_of_nat c)
            (if dir then 1 else 0) (String.concat "," (Stdlib.List.map chunk_s chs)))
  | ECall (t, sid, c, CComplete) ->
    Some (Printf.sprintf "complete;t=%d;s=%d;c=%d" (int_of_nat t) (int_of_nat sid) (int_of_nat c))
  | EPanic t -> Some (Printf.sprintf "panic;t=%d" (int_of_nat t))
  | EProc _ -> None

let tag_s = function
  | TgRaceLost -> "lookup-race-lost" | TgBothDir -> "both-directions-race"
  | TgCloseLL -> "close-between-lookup-and-lock" | TgRecycle -> "recycle"
  | TgStale -> "stale-pointer-processed" | TgRetry -> "retry" | TgFlushStale -> "flush-stale"
  | TgTrail -> "trailing-remove" | TgAgeFlush -> "age-flush"

type 'a inst = { cinit : 'a; cclosed : 'a -> bool; creset : packet -> 'a;
                 proc : 'a -> bool -> packet -> ('a * cevent list) * bool;
                 fl : BinNums.coq_Z option -> 'a -> ('a * cevent list) * bool;
                 trail : BinNums.coq_Z option -> 'a -> bool;
                 unsup : 'a -> bool }

let final_line (i : 'a inst) (s : 'a state) : string =
  let objs = Array.of_list s.s_objs in
  let conns = Stdlib.List.sort compare
      (Stdlib.List.map (fun (k, c) ->
           let ci = int_of_nat c in
           let sid = if ci < Array.length objs then int_of_nat objs.(ci).c_stream else -1 in
           Printf.sprintf "%s:%d:%d" (key_s k) ci sid) s.s_conns) in
  let fin = if all_done s then "done" else if any_enabled i.cinit s then "fuel" else "stuck" in
  let unsup = Stdlib.List.exists (fun o -> i.unsup o.c_st) s.s_objs in
  Printf.sprintf "final=%s;conns=%s;free=%s%s" fin (String.concat "," conns)
    (String.concat "," (Stdlib.List.map (fun c -> string_of_int (int_of_nat c)) s.s_free))
    (if unsup then ";model-unsupported-overlap" else "")

(* verdicts of the executable property statements on a final state (informational tags) *)
let verdicts (i : 'a inst) (g : config) (s : 'a state) (raced : bool) : string list =
  (if raced then ["m-race"] else []) @
  (if chk_one_entry i.cinit g s then [] else ["m-one-entry"]) @
  (if chk_no_panic s then [] else ["m-panic"]) @
  (if chk_progress i.cinit s then [] else ["m-stuck"]) @
  (if chk_right_stream g s then [] else ["m-wrong-stream"]) @
  (if chk_complete_most_once s then [] else ["m-complete-twice"]) @
  (if (not (all_done s)) || chk_complete_once_final s then [] else ["m-not-completed"])

(* exhaustive DFS over schedules (every enabled thread at every state), for testing the
   property statements against the model before proving / refuting them *)
let explore (i : 'a inst) (g : config) (progs : op list list) (maxstates : int) (out : out_channel) (id : string) =
  let found : (string, int list) Hashtbl.t = Hashtbl.create 8 in
  let states = ref 0 and finals = ref 0 in
  let n = Stdlib.List.length progs in
  let report clause sched = if not (Hashtbl.mem found clause) then Hashtbl.replace found clause (Stdlib.List.rev sched) in
  let rec go (s : 'a state) (sched : int list) (epi : bool) =
    if !states < maxstates then begin
      incr states;
      if has_race i.cinit g s then report "race" sched;
      if not (chk_one_entry i.cinit g s) then report "one-entry" sched;
      if not (chk_no_panic s) then report "panic" sched;
      if not (chk_progress i.cinit s) then report "stuck" sched;
      if not (chk_right_stream g s) then report "wrong-stream" sched;
      if not (chk_complete_most_once s) then report "complete-twice" sched;
      let nt = Stdlib.List.length s.s_thr in
      let any = ref false in
      for t = 0 to nt - 1 do
        match exec i.cinit i.cclosed i.creset i.proc i.fl i.trail g s (nat_of_int t) with
        | Some s' -> any := true; go s' (t :: sched) epi
        | None -> ()
      done;
      if not !any then begin
        if all_done s && not epi then go (add_thread s [OFlush None]) sched true
        else begin
          incr finals;
          if all_done s && not (chk_complete_once_final s) then report "not-completed" sched
        end
      end
    end in
  go (init progs) [] false;
  ignore n;
  let k = ref 0 in
  Printf.fprintf out "%s\t%d\texplore;states=%d;finals=%d;truncated=%b\n" id !k !states !finals (!states >= maxstates); incr k;
  Hashtbl.iter (fun clause sched ->
      Printf.fprintf out "%s\t%d\texplore;clause=%s;sched=%s\n" id !k clause (ints_csv sched); incr k) found

let run_inst (i : 'a inst) (g : config) (progs : op list list) (sched : int list) (expl : int)
    (id : string) (out : out_channel) =
  if expl > 0 then explore i g progs expl out id
  else begin
    let (s, raced) = run_case i.cinit i.cclosed i.creset i.proc i.fl i.trail g (nat_of_int 3000) progs (Stdlib.List.map nat_of_int sched) in
    let evs = Stdlib.List.filter_map event_s (Stdlib.List.rev s.s_log) in
    let lines = evs @ [final_line i s] in
    Stdlib.List.iteri (fun k l -> Printf.fprintf out "%s\t%d\t%s\n" id k l) lines;
    let tags = Stdlib.List.sort_uniq compare (Stdlib.List.map tag_s s.s_tags @ verdicts i g s raced) in
    if tags <> [] then Printf.fprintf out "%s\ttags\t%s\n" id (String.concat "," tags)
  end

let run (id : string) (ops : string list) (out : out_channel) =
  if Stdlib.List.exists (fun s -> String.length s > 5 && String.sub s 0 5 = "race:") ops then () else
  let pkg = ref "t" and progs = ref [] and sched = ref [] and expl = ref 0 in
  Stdlib.List.iter (fun s ->
      match split_on ':' s with
      | ["pkg"; v] -> pkg := v
      | ["th"; _; body] ->
        progs := (if body = "" then [] else Stdlib.List.map parse_op (split_on ',' body)) :: !progs
      | ["sched"; ""] -> ()
      | ["sched"; v] -> sched := Stdlib.List.map int_of_string (split_on ',' v)
      | ["explore"; v] -> expl := int_of_string v
      | _ -> failwith ("c12 op: " ^ s)) ops;
  let progs = Stdlib.List.rev !progs in
  let orig = (try Sys.getenv "C12_RSM_ORIG" = "1" with Not_found -> false) in
  match !pkg with
  | "t" ->
    run_inst { cinit = tc_init; cclosed = tc_closed; creset = tcp_reset; proc = tcp_process; fl = tcp_flush; trail = tcp_trail; unsup = (fun _ -> false) }
      cfg_tcp progs !sched !expl id out
  | "r" | "ro" ->
    run_inst { cinit = rc_init; cclosed = rc_closed; creset = rsm_reset; proc = rsm_process; fl = rsm_flush; trail = rsm_trail; unsup = (fun st -> st.r_unsup) }
      (if orig || !pkg = "ro" then cfg_rsm_orig else cfg_rsm) progs !sched !expl id out
  | v -> failwith ("c12 pkg: " ^ v)

let registered = Registry.register "C12" run

(* ---- extraction cross-check: the case as a Gallina Example.  The thread programs, the schedule
   and a total digest (C12Digest) of the final state and log computed by the extracted runner are
   printed as a term; coqc re-evaluates the same expression with vm_compute. *)
let coq_z (z : BinNums.coq_Z) = let n = int_of_z z in if n < 0 then Printf.sprintf "(%d)" n else string_of_int n
let coq_zl l = "[" ^ String.concat "; " (Stdlib.List.map coq_z l) ^ "]"
let coq_b b = if b then "true" else "false"
let coq_pkt (p : packet) =
  Printf.sprintf "(mkPkt (mkKey %d%%nat %s) %s %s %s %s %s)" (int_of_nat p.p_key.k_flow) (coq_b p.p_key.k_dir)
    (coq_b p.p_syn) (coq_b p.p_fin) (coq_z p.p_seq) (coq_zl p.p_bytes) (coq_z p.p_ts)
let coq_op = function
  | OPkt p -> "OPkt " ^ coq_pkt p
  | OFlush None -> "OFlush None"
  | OFlush (Some t) -> Printf.sprintf "OFlush (Some %s)" (coq_z t)

let to_coq (idx : int) (ops : string list) (out : out_channel) =
  if Stdlib.List.exists (fun s -> (String.length s > 5 && String.sub s 0 5 = "race:") ||
                                  (String.length s > 8 && String.sub s 0 8 = "explore:")) ops then () else begin
    let pkg = ref "t" and progs = ref [] and sched = ref [] in
    Stdlib.List.iter (fun s ->
        match split_on ':' s with
        | ["pkg"; v] -> pkg := v
        | ["th"; _; body] -> progs := (if body = "" then [] else Stdlib.List.map parse_op (split_on ',' body)) :: !progs
        | ["sched"; ""] -> ()
        | ["sched"; v] -> sched := Stdlib.List.map int_of_string (split_on ',' v)
        | _ -> ()) ops;
    let progs = Stdlib.List.rev !progs in
    let fuel = 3000 in
    let nsched = Stdlib.List.map nat_of_int !sched in
    let (fn, cfg, d) =
      if !pkg = "t" then ("c12_digest_tcp", "cfg_tcp", C12Digest.c12_digest_tcp cfg_tcp (nat_of_int fuel) progs nsched)
      else ("c12_digest_rsm", "cfg_rsm", C12Digest.c12_digest_rsm cfg_rsm (nat_of_int fuel) progs nsched) in
    let progs_s = "[" ^ String.concat ";\n   " (Stdlib.List.map (fun pr -> "[" ^ String.concat "; " (Stdlib.List.map coq_op pr) ^ "]") progs) ^ "]" in
    let sched_s = "[" ^ String.concat "; " (Stdlib.List.map (fun t -> Printf.sprintf "%d%%nat" t) !sched) ^ "]" in
    Printf.fprintf out "Example sample_%d : %s %s %d%%nat\n  %s\n  %s =\n  %s.\nProof. vm_compute. reflexivity. Qed.\n"
      idx fn cfg fuel progs_s sched_s (coq_zl d)
  end

let registered_coq = Registry.register_coq "C12" ("From GP Require Import Base C12Model C12Digest.\nOpen Scope Z_scope.\n", to_coq)

