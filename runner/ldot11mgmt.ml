(* Ldot11mgmt runner: management bodies and information elements (coq/Model/Ldot11mgmtModel.v) on the ops of
   harness/cmd/gpverif/ldot11mgmt.go.  The first op selects the layer: L:ie or L:<body kind>. *)
open Util
open Lmiscutil
open Ldot11mgmtModel

let ie_fields (l : ie) = Printf.sprintf "id=%s;len=%s;oui=%s;info=%s;ext=%s" (i l.ie_id) (i l.ie_len) (hex_of_bytes l.ie_oui) (hex_of_bytes l.ie_info) (i l.ie_ext)
let ie_of_spec s = match split_on '.' s with
  | [id; len; oui; info; ext] -> { ie_contents = []; ie_payload = []; ie_id = zi id; ie_len = zi len;
      ie_oui = (if oui = "-" then [] else bytes_of_hex oui); ie_info = (if info = "-" then [] else bytes_of_hex info); ie_ext = zi ext }
  | _ -> failwith "ie spec"
let iedesc = { fresh = ie_fresh; decode = ie_decode_into; serialize = Some ie_serialize; fields = ie_fields;
  contents = (fun l -> l.ie_contents); payload = (fun l -> l.ie_payload); next = (fun _ _ -> "Dot11InformationElement");
  render_panics = ie_render_panics; of_spec = ie_of_spec; junk_len = 300 }

let kinds = [ "assocreq", ([2; 2], true); "assocresp", ([2; 2; 2], true); "reassocreq", ([2; 2; 6], true); "proberesp", ([8; 2; 2], true);
  "beacon", ([8; 2; 2], true); "disassoc", ([2], false); "auth", ([2; 2; 2], true); "deauth", ([2], false) ]
let mg_fields_str (l : mgmt) = "f=" ^ String.concat "." (Stdlib.List.map hex_of_bytes l.mg_fields)
let mgdesc (ws, setsp) =
  let w = Stdlib.List.map z_of_int ws in
  { fresh = mg_fresh w; decode = mg_decode_into w setsp; serialize = Some (mg_serialize w); fields = mg_fields_str;
    contents = (fun l -> l.mg_contents); payload = (fun l -> l.mg_payload);
    next = (fun _ _ -> if setsp then "Dot11InformationElement" else "Payload");
    render_panics = mg_render_panics;
    of_spec = (fun s -> { mg_contents = []; mg_payload = []; mg_fields = Stdlib.List.map (fun h -> if h = "-" then [] else bytes_of_hex h) (split_on '.' s) });
    junk_len = 64 }

let ie_str (e : ie) = Printf.sprintf "%s~%s~%s~%s~%s" (i e.ie_id) (i e.ie_len) (hex_of_bytes e.ie_oui) (hex_of_bytes e.ie_info) (i e.ie_ext)
let run id ops out =
  match ops with
  | "L:ie" :: rest -> run_generic iedesc id rest out
  | l :: rest when String.length l > 2 && String.sub l 0 2 = "L:" ->
    let kind = String.sub l 2 (String.length l - 2) in
    let (ws, setsp) = Stdlib.List.assoc kind kinds in
    let walks = Stdlib.List.filter (fun op -> String.length op >= 5 && String.sub op 0 5 = "walk:") rest in
    if walks = [] then run_generic (mgdesc (ws, setsp)) id rest out
    else
      Stdlib.List.iteri (fun k op ->
        let h = String.sub op 5 (String.length op - 5) in
        let (((b, es), o), tr) = mg_walk (Stdlib.List.map z_of_int ws) (bytes_of_hex h) in
        Printf.fprintf out "%s\t%d\tcls=%s;tr=%s;%s;ies=%s\n" id k (cls_of o) (b01 tr) (mg_fields_str b)
          (if es = [] then "-" else String.concat "+" (Stdlib.List.map ie_str es))) walks
  | _ -> failwith "Ldot11mgmt: first op must be L:<layer>"
let registered = Registry.register "Ldot11mgmt" run
