(* Lusbsub runner: USBControl / USBInterrupt / USBBulk model (coq/Model/LusbsubModel.v) on the ops of harness/cmd/gpverif/lusbsub.go *)
open Util
open Lmiscutil
open LusbsubModel
let desc kind name = { fresh = ub_fresh; decode = ub_decode_into (z_of_int kind); serialize = None; fields = (fun _ -> "k=" ^ name);
  contents = (fun l -> l.ub_contents); payload = (fun l -> l.ub_payload); next = (fun _ _ -> "payload"); render_panics = ub_render_panics;
  of_spec = (fun _ -> failwith "no spec"); junk_len = 0 }
let go kind name id rest out = Lsmallutil.run_with_decf (desc kind name) (ub_decode_fn (z_of_int kind)) id rest out
let run id ops out = match ops with
  | "L:control" :: rest -> go 0 "USBControl" id rest out
  | "L:interrupt" :: rest -> go 1 "USBInterrupt" id rest out
  | "L:bulk" :: rest -> go 2 "USBBulk" id rest out
  | _ -> failwith "Lusbsub: first op must be L:control, L:interrupt or L:bulk"
let registered = Registry.register "Lusbsub" run
let coq_layer (l : usbsub) = Printf.sprintf "(mkUb %s %s)" (coq_zlist l.ub_contents) (coq_zlist l.ub_payload)
let registered_coq = Registry.register_coq "Lusbsub" ("From GP Require Import Base LusbsubModel.\n",
  (fun idx ops out ->
    let kind, name = match ops with "L:interrupt" :: _ -> 1, "USBInterrupt" | "L:bulk" :: _ -> 2, "USBBulk" | _ -> 0, "USBControl" in
    Lsmallutil.to_coq_generic { Lsmallutil.cd = desc kind name; coq_layer; g_dec = Printf.sprintf "(ub_decode_into %d)" kind; g_fresh = "ub_fresh"; g_ser = ""; g_rp = "ub_render_panics" }
      idx (match ops with _ :: rest -> rest | [] -> []) out))
