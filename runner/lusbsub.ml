(* Lusbsub runner: USBControl / USBInterrupt / USBBulk model (coq/Model/LusbsubModel.v) on the ops of harness/cmd/gpverif/lusbsub.go *)
open Util
open Lmiscutil
open LusbsubModel
let desc kind name = { fresh = ub_fresh; decode = ub_decode_into (z_of_int kind); serialize = None; fields = (fun _ -> "k=" ^ name);
  contents = (fun l -> l.ub_contents); payload = (fun l -> l.ub_payload); next = (fun _ _ -> "payload"); render_panics = ub_render_panics;
  of_spec = (fun _ -> failwith "no spec"); junk_len = 0 }
let go kind name id rest out = Lsmallutil.run_with_decf (desc kind name) (ub_decode_fn (z_of_int kind)) id rest out
let run id ops out = match ops with
  | "L:control" :: rest -> go 0 "USBControl" id rest out
  | "L:interrupt" :: rest -> go 1 "USBInterrupt" id rest out
  | "L:bulk" :: rest -> go 2 "USBBulk" id rest out
  | _ -> failwith "Lusbsub: first op must be L:control, L:interrupt or L:bulk"
let registered = Registry.register "Lusbsub" run
