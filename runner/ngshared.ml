(* shared glue of the C14ng / C15ng runners: parsing of the op syntax into the model's types and
   rendering of the model's results as observation lines (same text as harness/.../ngshared.go) *)
open Util
open NgModel

let cls_name (c : int) : string =
  if c >= 1000 then "panic" else
  match c with 0 -> "ok" | 1 -> "eof" | 2 -> "ueof" | 3 -> "err" | 7 -> "gzip" | 9 -> "stuck" | _ -> "err"

let dec z = string_of_int (int_of_z z)
let time_str ((s, n) : BinNums.coq_Z * BinNums.coq_Z) = hex_of_z s ^ "." ^ dec n
let hb = hex_of_bytes

let opts_str (o : popts) : string =
  let it =
    Stdlib.List.map (fun c -> "c." ^ hb c) o.po_comments
    @ (match o.po_flags with
       | Some (((d, r), fc), ll) -> [Printf.sprintf "f.%s.%s.%s.%s" (dec d) (dec r) (dec fc) (dec ll)]
       | None -> [])
    @ Stdlib.List.map (fun (a, h) -> Printf.sprintf "h.%s.%s" (dec a) (hb h)) o.po_hashes
    @ (match o.po_drop with Some v -> ["d." ^ hex_of_z v] | None -> [])
    @ (match o.po_pid with Some v -> ["p." ^ hex_of_z v] | None -> [])
    @ (match o.po_queue with Some v -> ["q." ^ dec v] | None -> [])
    @ Stdlib.List.map (fun (a, h) -> Printf.sprintf "v.%s.%s" (dec a) (hb h)) o.po_verdicts in
  if it = [] then "-" else String.concat "/" it

let pkt_line (p : pkt) : string =
  let c = p.p_ci in
  Printf.sprintf "pkt=ok;if=%s;ts=%s;cap=%s;len=%s;anc=%s;dlen=%d;data=%s;opts=%s"
    (dec c.ci_if) (time_str c.ci_ts) (dec c.ci_cap) (dec c.ci_len) (dec p.p_anc)
    (Stdlib.List.length p.p_data) (hb p.p_data) (opts_str p.p_opts)

let state_lines (s : rst) : string list =
  let sec = s.r_sect in
  let names = Stdlib.List.map (fun (n : namerec) ->
    Printf.sprintf "%s:%s" (dec n.nr_alen) (String.concat "|" (Stdlib.List.map hb n.nr_names))) s.r_names in
  let first = Printf.sprintf "state;link=%s;nif=%d;sec=%s,%s,%s,%s;names=%s" (dec s.r_link)
      (Stdlib.List.length s.r_ifaces) (hb sec.sc_hw) (hb sec.sc_os) (hb sec.sc_app) (hb sec.sc_comment)
      (String.concat "," names) in
  first :: Stdlib.List.mapi (fun i (f : iface) ->
    let st = f.if_stats in
    Printf.sprintf "iface=%d;name=%s;comment=%s;descr=%s;filter=%s;os=%s;link=%s;tsres=%s;tsoff=%s;snap=%s;last=%s;start=%s;end=%s;scomment=%s;recv=%s;drop=%s"
      i (hb f.if_name) (hb f.if_comment) (hb f.if_descr) (hb f.if_filter) (hb f.if_os) (dec f.if_link)
      (dec f.if_tsresol) (hex_of_z f.if_tsoff) (dec f.if_snap) (time_str st.st_last) (time_str st.st_start)
      (time_str st.st_end) (hb st.st_comment) (hex_of_z st.st_recv) (hex_of_z st.st_drop)) s.r_ifaces

(* result of a session: (((class of new, packets), class of end), state) *)
type sres = { s_new : int; s_pkts : string list; s_end : int; s_state : rst }

let sres_of ((((n, ps), e), st) : ((BinNums.coq_Z * pkt list) * BinNums.coq_Z) * rst) : sres =
  { s_new = int_of_z n; s_pkts = Stdlib.List.map pkt_line ps; s_end = int_of_z e; s_state = st }

let session_lines (r : sres) : string list =
  if r.s_new <> 0 then ["new=" ^ cls_name r.s_new]
  else
    ["new=ok"] @ r.s_pkts @ ["end=" ^ cls_name r.s_end]
    @ (if r.s_end >= 1000 || r.s_end = 9 then [] else state_lines r.s_state)

let summary_line (k : int) (r : sres) : string =
  let e = if r.s_new <> 0 then r.s_new else r.s_end in
  Printf.sprintf "cut=%d;new=%s;n=%d;end=%s;h=%s" k (cls_name r.s_new) (Stdlib.List.length r.s_pkts)
    (cls_name e) (Digest.to_hex (Digest.string (String.concat "\n" r.s_pkts)))

let parse_ro (s : string) (zc : bool) : ropts =
  let b i = String.length s > i && s.[i] = '1' in
  { ro_mixed = b 0; ro_errmis = b 1; ro_skipver = b 2; ro_zc = zc }

let zint s = z_of_int (int_of_string s)

let parse_opts (s : string) : popts =
  let o = ref { po_comments = []; po_flags = None; po_hashes = []; po_drop = None; po_pid = None;
                po_queue = None; po_verdicts = [] } in
  if s <> "-" && s <> "" then
    Stdlib.List.iter (fun it ->
      match split_on '.' it with
      | ["c"; h] -> o := { !o with po_comments = !o.po_comments @ [bytes_of_hex h] }
      | ["f"; d; r; fc; ll] -> o := { !o with po_flags = Some (((zint d, zint r), zint fc), zint ll) }
      | ["h"; a; h] -> o := { !o with po_hashes = !o.po_hashes @ [(zint a, bytes_of_hex h)] }
      | ["d"; v] -> o := { !o with po_drop = Some (z_of_hex v) }
      | ["p"; v] -> o := { !o with po_pid = Some (z_of_hex v) }
      | ["q"; v] -> o := { !o with po_queue = Some (zint v) }
      | ["v"; a; h] -> o := { !o with po_verdicts = !o.po_verdicts @ [(zint a, bytes_of_hex h)] }
      | _ -> failwith ("ng opts item: " ^ it)) (split_on '/' s);
  !o

let time_arg s = if s = "z" then None else Some (z_of_hex s)

let rec take k l = if k <= 0 then [] else match l with [] -> [] | x :: t -> x :: take (k - 1) t

(* tail-recursive take for long inputs *)
let take k l =
  let rec go k l acc = if k <= 0 then Stdlib.List.rev acc else match l with [] -> Stdlib.List.rev acc | x :: t -> go (k - 1) t (x :: acc) in
  go k l []


(* ---- extraction cross-check inside Coq (see c18.ml): the digest (NgDigest.v) of the session result
   computed by this extracted runner must equal the one Coq computes by vm_compute *)
let ng_coq_header = "From GP Require Import Base NgModel NgDigest.\n"
let coq_ropts (r : ropts) : string =
  Printf.sprintf "(mkRo %s %s %s %s)" (coq_bool r.ro_mixed) (coq_bool r.ro_errmis) (coq_bool r.ro_skipver) (coq_bool r.ro_zc)
let coq_event (e : event) : string = match e with Chunk l -> "(Chunk " ^ coq_zlist l ^ ")" | Fail -> "Fail"
let ng_coq_flat (out : out_channel) (name : string) (ro : ropts) (d : BinNums.coq_Z list) : unit =
  coq_example_named out name (Printf.sprintf "ng_digest_flat %s %s" (coq_ropts ro) (coq_zlist d))
    (coq_zlist (NgDigest.ng_digest_flat ro d))
let ng_coq_chunked (out : out_channel) (name : string) (ro : ropts) (ev : event list) : unit =
  coq_example_named out name (Printf.sprintf "ng_digest_chunked %s %s" (coq_ropts ro) (coq_list coq_event ev))
    (coq_zlist (NgDigest.ng_digest_chunked ro ev))
