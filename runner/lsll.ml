(* Lsll runner: Linux SLL decoder model on the ops of harness/cmd/gpverif/lsll.go *)
open Util
open Lmiscutil
open LsllModel
let fields (l : sll) = Printf.sprintf "pt=%s;at=%s;al=%s;addr=%s;et=%s" (i l.sl_ptype) (i l.sl_atype) (i l.sl_alen) (hex_of_bytes l.sl_addr) (i l.sl_etype)
let desc = { fresh = sll_fresh; decode = sll_decode_into; serialize = None; fields; contents = (fun l -> l.sl_contents); payload = (fun l -> l.sl_payload);
  next = (fun _ l -> i (sll_next l)); render_panics = sll_render_panics; of_spec = (fun _ -> failwith "no spec"); junk_len = 0 }
let run id ops out = run_generic desc id ops out
let registered = Registry.register "Lsll" run
