(* Ludplite runner: UDP-Lite decoder model on the ops of harness/cmd/gpverif/ludplite.go *)
open Util
open Lmiscutil
open LudpliteModel
let fields (l : udplite) = Printf.sprintf "sp=%s;dp=%s;cov=%s;cs=%s" (i l.ul_sport) (i l.ul_dport) (i l.ul_cov) (i l.ul_csum)
let desc = { fresh = ul_fresh; decode = (fun _ d -> ul_decode d); serialize = None; fields; contents = (fun l -> l.ul_contents); payload = (fun l -> l.ul_payload);
  next = (fun cls _ -> if cls <> "ok" then "none" else "payload"); render_panics = ul_render_panics; of_spec = (fun _ -> failwith "no spec"); junk_len = 0 }
let run id ops out = run_generic desc id ops out
let registered = Registry.register "Ludplite" run
