(* C01core runner: error-layer discipline / totality of the packet builder *)
let registered = Registry.register "C01core" Pcore_run.run
