(* C01core runner: error-layer discipline / totality of the packet builder *)
let registered = Registry.register "C01core" Pcore_run.run
let registered_coq = Registry.register_coq "C01core" (Pcore_run.coq_header, Pcore_run.to_coq)
