(* shared glue of the C14pcap / C15pcap runners: observation formatting *)
open Util

let cls_str (c : BinNums.coq_Z) : string =
  match int_of_z c with
  | 1 -> "eof" | 2 -> "ueof" | 3 -> "ioerr" | 4 -> "err" | 5 -> "gzip" | n -> "err" ^ string_of_int n

let res_str (r : PcapModel.rpkt Base.outcome) : string =
  match r with
  | Base.Ok k ->
    Printf.sprintf "ok;ts=%d.%d;cap=%d;len=%d;data=%s"
      (int_of_z k.PcapModel.k_sec) (int_of_z k.PcapModel.k_nsec)
      (int_of_z k.PcapModel.k_caplen) (int_of_z k.PcapModel.k_len) (hex_of_bytes k.PcapModel.k_data)
  | Base.Err c -> cls_str c
  | Base.Panic _ -> "panic"

let hdr_cls (r : 'a Base.outcome) : string =
  match r with Base.Ok _ -> "ok" | Base.Err c -> cls_str c | Base.Panic _ -> "panic"

let pcap_hdr_str (r : PcapModel.rstate Base.outcome) : string =
  match r with
  | Base.Ok rd ->
    Printf.sprintf "hdr=ok;ns=%d;snap=%d;lt=%d"
      (if int_of_z rd.PcapModel.r_factor = 1 then 1 else 0)
      (int_of_z rd.PcapModel.r_snaplen) (int_of_z rd.PcapModel.r_lt)
  | _ -> "hdr=" ^ hdr_cls r

let snoop_hdr_str (r : PcapModel.sstate Base.outcome) : string =
  match r with
  | Base.Ok st ->
    Printf.sprintf "hdr=ok;lt=%d" (match PcapModel.snoop_linktype st with Some l -> int_of_z l | None -> -1)
  | _ -> "hdr=" ^ hdr_cls r

let parse_pkt (arg : string) : PcapModel.pkt =
  match split_on ',' arg with
  | [a; b; c; d; h] ->
    { PcapModel.p_sec = z_of_int (int_of_string a); p_nsec = z_of_int (int_of_string b);
      p_caplen = z_of_int (int_of_string c); p_len = z_of_int (int_of_string d); p_data = bytes_of_hex h }
  | [a; b; c; d] ->
    { PcapModel.p_sec = z_of_int (int_of_string a); p_nsec = z_of_int (int_of_string b);
      p_caplen = z_of_int (int_of_string c); p_len = z_of_int (int_of_string d); p_data = [] }
  | _ -> failwith ("pkt: " ^ arg)

let rec firstn_ml n l = if n <= 0 then [] else match l with [] -> [] | x :: t -> x :: firstn_ml (n - 1) t

(* ---- Gallina printers for the extraction cross-check inside Coq (see c18.ml), shared by C14pcap / C15pcap *)
let coq_pkt (p : PcapModel.pkt) =
  Printf.sprintf "{| p_sec := %s; p_nsec := %s; p_caplen := %s; p_len := %s; p_data := %s |}" (coq_z p.PcapModel.p_sec)
    (coq_z p.PcapModel.p_nsec) (coq_z p.PcapModel.p_caplen) (coq_z p.PcapModel.p_len) (coq_zlist p.PcapModel.p_data)
let coq_rpkt (k : PcapModel.rpkt) =
  Printf.sprintf "{| k_sec := %s; k_nsec := %s; k_caplen := %s; k_len := %s; k_data := %s |}" (coq_z k.PcapModel.k_sec)
    (coq_z k.PcapModel.k_nsec) (coq_z k.PcapModel.k_caplen) (coq_z k.PcapModel.k_len) (coq_zlist k.PcapModel.k_data)
let coq_rstate (r : PcapModel.rstate) =
  Printf.sprintf "{| r_be := %s; r_factor := %s; r_snaplen := %s; r_lt := %s; r_pcap := %s |}" (coq_bool r.PcapModel.r_be)
    (coq_z r.PcapModel.r_factor) (coq_z r.PcapModel.r_snaplen) (coq_z r.PcapModel.r_lt) (coq_z r.PcapModel.r_pcap)
let coq_sstate (r : PcapModel.sstate) =
  Printf.sprintf "{| s_lt := %s; s_pcap := %s |}" (coq_z r.PcapModel.s_lt) (coq_z r.PcapModel.s_pcap)
let coq_chunk = function PcapModel.Chunk b -> "Chunk " ^ coq_zlist b | PcapModel.Fail -> "Fail"
(* the 4-tuple returned by pcap_run / snoop_run *)
let coq_run_result (fh : 'a -> string) ((((h, al), rs), fin) : (('a Base.outcome * BinNums.coq_Z list) * (PcapModel.rpkt Base.outcome * BinNums.coq_Z list) list) * bool) =
  Printf.sprintf "(%s, %s,\n     %s, %s)" (coq_outcome fh h) (coq_zlist al)
    ("[" ^ String.concat ";\n      " (Stdlib.List.map (coq_pair (coq_outcome coq_rpkt) coq_zlist) rs) ^ "]") (coq_bool fin)
let pcap_coq_header = "From GP Require Import Base PcapModel.\n"
