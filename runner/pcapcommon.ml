(* shared glue of the C14pcap / C15pcap runners: observation formatting *)
open Util

let cls_str (c : BinNums.coq_Z) : string =
  match int_of_z c with
  | 1 -> "eof" | 2 -> "ueof" | 3 -> "ioerr" | 4 -> "err" | 5 -> "gzip" | n -> "err" ^ string_of_int n

let res_str (r : PcapModel.rpkt Base.outcome) : string =
  match r with
  | Base.Ok k ->
    Printf.sprintf "ok;ts=%d.%d;cap=%d;len=%d;data=%s"
      (int_of_z k.PcapModel.k_sec) (int_of_z k.PcapModel.k_nsec)
      (int_of_z k.PcapModel.k_caplen) (int_of_z k.PcapModel.k_len) (hex_of_bytes k.PcapModel.k_data)
  | Base.Err c -> cls_str c
  | Base.Panic _ -> "panic"

let hdr_cls (r : 'a Base.outcome) : string =
  match r with Base.Ok _ -> "ok" | Base.Err c -> cls_str c | Base.Panic _ -> "panic"

let pcap_hdr_str (r : PcapModel.rstate Base.outcome) : string =
  match r with
  | Base.Ok rd ->
    Printf.sprintf "hdr=ok;ns=%d;snap=%d;lt=%d"
      (if int_of_z rd.PcapModel.r_factor = 1 then 1 else 0)
      (int_of_z rd.PcapModel.r_snaplen) (int_of_z rd.PcapModel.r_lt)
  | _ -> "hdr=" ^ hdr_cls r

let snoop_hdr_str (r : PcapModel.sstate Base.outcome) : string =
  match r with
  | Base.Ok st ->
    Printf.sprintf "hdr=ok;lt=%d" (match PcapModel.snoop_linktype st with Some l -> int_of_z l | None -> -1)
  | _ -> "hdr=" ^ hdr_cls r

let parse_pkt (arg : string) : PcapModel.pkt =
  match split_on ',' arg with
  | [a; b; c; d; h] ->
    { PcapModel.p_sec = z_of_int (int_of_string a); p_nsec = z_of_int (int_of_string b);
      p_caplen = z_of_int (int_of_string c); p_len = z_of_int (int_of_string d); p_data = bytes_of_hex h }
  | [a; b; c; d] ->
    { PcapModel.p_sec = z_of_int (int_of_string a); p_nsec = z_of_int (int_of_string b);
      p_caplen = z_of_int (int_of_string c); p_len = z_of_int (int_of_string d); p_data = [] }
  | _ -> failwith ("pkt: " ^ arg)

let rec firstn_ml n l = if n <= 0 then [] else match l with [] -> [] | x :: t -> x :: firstn_ml (n - 1) t
