(* C14pcap runner: pcap writer/reader round trip and truncation offsets on the extracted model *)
open Util
open Pcapcommon

let run (id : string) (ops : string list) (out : out_channel) =
  let writer = ref false and be = ref false and nano = ref false and zc = ref false in
  let snap = ref 0 and lt = ref 0 in
  let pkts = ref [] and cuts_all = ref false and cuts = ref [] in
  Stdlib.List.iter (fun op ->
    let name, arg = match String.index_opt op ':' with
      | Some i -> String.sub op 0 i, String.sub op (i + 1) (String.length op - i - 1)
      | None -> op, "" in
    match name with
    | "w" -> (match split_on ',' arg with
        | [n; s; l] -> writer := true; nano := (n = "1"); snap := int_of_string s; lt := int_of_string l
        | _ -> failwith "w")
    | "h" -> (match split_on ',' arg with
        | [b; n; s; l] -> be := (b = "1"); nano := (n = "1"); snap := int_of_string s; lt := int_of_string l
        | _ -> failwith "h")
    | "p" -> pkts := parse_pkt arg :: !pkts
    | "zc" -> zc := (arg = "1")
    | "cuts" -> if arg = "all" then cuts_all := true
      else if arg <> "" then cuts := Stdlib.List.map int_of_string (split_on ',' arg)
    | _ -> failwith ("c14pcap op: " ^ op)) ops;
  let pkts = Stdlib.List.rev !pkts in
  let file, werr =
    if !writer then
      let (f, es) = PcapModel.write_file !nano (z_of_int !snap) (z_of_int !lt) pkts in
      (f, Stdlib.List.map (fun e -> string_of_int (int_of_z e)) es)
    else (PcapModel.enc_file !be !nano (z_of_int !snap) (z_of_int !lt) pkts, []) in
  let step = ref 0 in
  let emit s = Printf.fprintf out "%s\t%d\t%s\n" id !step s; incr step in
  emit ("file=" ^ hex_of_bytes file ^ ";werr=" ^ String.concat "," werr);
  let flen = Stdlib.List.length file in
  let fuel = nat_of_int (flen / 16 + 2) in
  let read bytes = PcapModel.pcap_run !zc fuel [PcapModel.Chunk bytes] in
  let (((hdr, _), results), _) = read file in
  emit (pcap_hdr_str hdr);
  let full = Stdlib.List.map fst results in
  Stdlib.List.iter (fun r -> emit (res_str r)) full;
  let full_arr = Array.of_list full in
  let cuts = if !cuts_all then Stdlib.List.init (flen + 1) (fun k -> k) else !cuts in
  Stdlib.List.iter (fun k ->
    if k >= 0 && k <= flen then begin
      let (((h, _), rs), _) = read (firstn_ml k file) in
      let line = Printf.sprintf "cut=%d;hdr=%s" k (hdr_cls h) in
      match h with
      | Base.Ok _ ->
        let rs = Stdlib.List.map fst rs in
        let rec lead i = function
          | (Base.Ok _ as r) :: t ->
            let same = i < Array.length full_arr && full_arr.(i) = r in
            let (n, e, p) = lead (i + 1) t in (n + 1, e, p && same)
          | r :: _ -> (0, res_str r, true)
          | [] -> (0, "nofuel", true) in
        let (n, e, p) = lead 0 rs in
        emit (Printf.sprintf "%s;n=%d;end=%s;pfx=%d" line n e (if p then 1 else 0))
      | _ -> emit line
    end) cuts

let registered = Registry.register "C14pcap" run
