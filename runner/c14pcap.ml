(* C14pcap runner: pcap writer/reader round trip and truncation offsets on the extracted model *)
open Util
open Pcapcommon

type parsed = { writer : bool; be : bool; nano : bool; zc : bool; snap : int; lt : int; pkts : PcapModel.pkt list;
                cuts_all : bool; cuts : int list }
let parse (ops : string list) : parsed =
  let writer = ref false and be = ref false and nano = ref false and zc = ref false in
  let snap = ref 0 and lt = ref 0 in
  let pkts = ref [] and cuts_all = ref false and cuts = ref [] in
  Stdlib.List.iter (fun op ->
    let name, arg = match String.index_opt op ':' with
      | Some i -> String.sub op 0 i, String.sub op (i + 1) (String.length op - i - 1)
      | None -> op, "" in
    match name with
    | "w" -> (match split_on ',' arg with
        | [n; s; l] -> writer := true; nano := (n = "1"); snap := int_of_string s; lt := int_of_string l
        | _ -> failwith "w")
    | "h" -> (match split_on ',' arg with
        | [b; n; s; l] -> be := (b = "1"); nano := (n = "1"); snap := int_of_string s; lt := int_of_string l
        | _ -> failwith "h")
    | "p" -> pkts := parse_pkt arg :: !pkts
    | "zc" -> zc := (arg = "1")
    | "cuts" -> if arg = "all" then cuts_all := true
      else if arg <> "" then cuts := Stdlib.List.map int_of_string (split_on ',' arg)
    | _ -> failwith ("c14pcap op: " ^ op)) ops;
  { writer = !writer; be = !be; nano = !nano; zc = !zc; snap = !snap; lt = !lt; pkts = Stdlib.List.rev !pkts;
    cuts_all = !cuts_all; cuts = !cuts }

let make_file (c : parsed) : BinNums.coq_Z list * BinNums.coq_Z list =
  if c.writer then PcapModel.write_file c.nano (z_of_int c.snap) (z_of_int c.lt) c.pkts
  else (PcapModel.enc_file c.be c.nano (z_of_int c.snap) (z_of_int c.lt) c.pkts, [])

let run (id : string) (ops : string list) (out : out_channel) =
  let c = parse ops in
  let zc = ref c.zc and cuts_all = ref c.cuts_all and cuts = ref c.cuts in
  let (file, es) = make_file c in
  let werr = Stdlib.List.map (fun e -> string_of_int (int_of_z e)) es in
  let step = ref 0 in
  let emit s = Printf.fprintf out "%s\t%d\t%s\n" id !step s; incr step in
  emit ("file=" ^ hex_of_bytes file ^ ";werr=" ^ String.concat "," werr);
  let flen = Stdlib.List.length file in
  let fuel = nat_of_int (flen / 16 + 2) in
  let read bytes = PcapModel.pcap_run !zc fuel [PcapModel.Chunk bytes] in
  let (((hdr, _), results), _) = read file in
  emit (pcap_hdr_str hdr);
  let full = Stdlib.List.map fst results in
  Stdlib.List.iter (fun r -> emit (res_str r)) full;
  let full_arr = Array.of_list full in
  let cuts = if !cuts_all then Stdlib.List.init (flen + 1) (fun k -> k) else !cuts in
  Stdlib.List.iter (fun k ->
    if k >= 0 && k <= flen then begin
      let (((h, _), rs), _) = read (firstn_ml k file) in
      let line = Printf.sprintf "cut=%d;hdr=%s" k (hdr_cls h) in
      match h with
      | Base.Ok _ ->
        let rs = Stdlib.List.map fst rs in
        let rec lead i = function
          | (Base.Ok _ as r) :: t ->
            let same = i < Array.length full_arr && full_arr.(i) = r in
            let (n, e, p) = lead (i + 1) t in (n + 1, e, p && same)
          | r :: _ -> (0, res_str r, true)
          | [] -> (0, "nofuel", true) in
        let (n, e, p) = lead 0 rs in
        emit (Printf.sprintf "%s;n=%d;end=%s;pfx=%d" line n e (if p then 1 else 0))
      | _ -> emit line
    end) cuts

let registered = Registry.register "C14pcap" run

(* ---- extraction cross-check inside Coq (see c18.ml): the file the writer model produced, the reader run
   on it and on (at most three of) its truncations, recomputed by vm_compute, must equal what this
   extracted runner computed. *)
let to_coq (idx : int) (ops : string list) (out : out_channel) =
  let c = parse ops in
  let (file, es) = make_file c in
  let flen = Stdlib.List.length file in
  if flen <= 300 then begin
    let pk = coq_list coq_pkt c.pkts in
    coq_example_named out (Printf.sprintf "sample_%d_file" idx)
      (if c.writer then Printf.sprintf "write_file %s %s %s %s" (coq_bool c.nano) (coq_z (z_of_int c.snap)) (coq_z (z_of_int c.lt)) pk
       else Printf.sprintf "(enc_file %s %s %s %s %s, @nil Z)" (coq_bool c.be) (coq_bool c.nano) (coq_z (z_of_int c.snap)) (coq_z (z_of_int c.lt)) pk)
      (coq_pair coq_zlist coq_zlist (file, es));
    let fuel = nat_of_int (flen / 16 + 2) in
    let read name bytes =
      coq_example_named out name (Printf.sprintf "pcap_run %s %s [Chunk %s]" (coq_bool c.zc) (coq_nat fuel) (coq_zlist bytes))
        (coq_run_result coq_rstate (PcapModel.pcap_run c.zc fuel [PcapModel.Chunk bytes])) in
    read (Printf.sprintf "sample_%d_read" idx) file;
    let cuts = if c.cuts_all then [flen / 3; flen - 1] else c.cuts in
    Stdlib.List.iteri (fun i k -> if i < 3 && k >= 0 && k <= flen then read (Printf.sprintf "sample_%d_cut%d_%d" idx i k) (firstn_ml k file)) cuts
  end
let registered_coq = Registry.register_coq "C14pcap" (pcap_coq_header, to_coq)
