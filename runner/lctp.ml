(* Lctp runner: EthernetCTP decoder chain model (coq/Model/LctpModel.v) on the ops of harness/cmd/gpverif/lctp.go *)
open Util
open Lmiscutil
open LctpModel
let h = hex_of_bytes
let lstr = function
  | CtpTop (skip, c, p) -> Printf.sprintf "T(skip=%s,c=%s,p=%s)" (i skip) (h c) (h p)
  | CtpFwd (fn, addr, c, p) -> Printf.sprintf "F(fn=%s,addr=%s,c=%s,p=%s)" (i fn) (h addr) (h c) (h p)
  | CtpReply (fn, rn, d, c) -> Printf.sprintf "R(fn=%s,rn=%s,data=%s,c=%s,p=)" (i fn) (i rn) (h d) (h c)
let fields (l : ctpl list) = "n=" ^ string_of_int (Stdlib.List.length l) ^ ";ls=" ^ String.concat "|" (Stdlib.List.map lstr l)
let desc = { fresh = ctp_fresh; decode = ctp_decode_into; serialize = None; fields; contents = (fun _ -> []); payload = (fun _ -> []);
  next = (fun _ _ -> "none"); render_panics = ctp_render_panics; of_spec = (fun _ -> failwith "no spec"); junk_len = 0 }
let run id ops out = run_generic desc id ops out
let registered = Registry.register "Lctp" run
let coq_ctpl = function
  | CtpTop (skip, c, p) -> Printf.sprintf "(CtpTop %s %s %s)" (coq_z skip) (coq_zlist c) (coq_zlist p)
  | CtpFwd (fn, addr, c, p) -> Printf.sprintf "(CtpFwd %s %s %s %s)" (coq_z fn) (coq_zlist addr) (coq_zlist c) (coq_zlist p)
  | CtpReply (fn, rn, dd, c) -> Printf.sprintf "(CtpReply %s %s %s %s)" (coq_z fn) (coq_z rn) (coq_zlist dd) (coq_zlist c)
let registered_coq = Registry.register_coq "Lctp" ("From GP Require Import Base LctpModel.\n",
  Lsmallutil.to_coq_generic { Lsmallutil.cd = desc; coq_layer = coq_list coq_ctpl; g_dec = "ctp_decode_into"; g_fresh = "ctp_fresh"; g_ser = ""; g_rp = "ctp_render_panics" })
