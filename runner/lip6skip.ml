(* Lip6skip runner: IPv6ExtensionSkipper model (coq/Model/Lip6skipModel.v) on the ops of harness/cmd/gpverif/lip6skip.go *)
open Util
open Lmiscutil
open Lip6skipModel
let fields (l : skipper) = "nh=" ^ i l.sk_nh
let desc = { fresh = sk_fresh; decode = sk_decode_into; serialize = None; fields; contents = (fun l -> l.sk_contents); payload = (fun l -> l.sk_payload);
  next = (fun _ l -> "t" ^ i (sk_next l)); render_panics = sk_render_panics; of_spec = (fun _ -> failwith "no spec"); junk_len = 0 }
let run id ops out = run_generic desc id ops out
let registered = Registry.register "Lip6skip" run
let coq_layer (l : skipper) = Printf.sprintf "(mkSk %s %s %s)" (coq_zlist l.sk_contents) (coq_zlist l.sk_payload) (coq_z l.sk_nh)
let registered_coq = Registry.register_coq "Lip6skip" ("From GP Require Import Base Lip6skipModel.\n",
  Lsmallutil.to_coq_generic { Lsmallutil.cd = desc; coq_layer; g_dec = "sk_decode_into"; g_fresh = "sk_fresh"; g_ser = ""; g_rp = "sk_render_panics" })
