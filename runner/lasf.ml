(* Lasf runner: ASF data header codec model on the ops of harness/cmd/gpverif/lsmall6.go *)
open Util
open Lmiscutil
open LasfModel
let fields (l : asf) = Printf.sprintf "ent=%s;ty=%s;tag=%s;len=%s" (i l.as_ent) (i l.as_type) (i l.as_tag) (i l.as_len)
let of_spec s = match split_on '.' s with
  | [e; t; g; n] -> { as_contents = []; as_payload = []; as_ent = zi e; as_type = zi t; as_tag = zi g; as_len = zi n }
  | _ -> failwith "asf spec"
let desc = { fresh = as_fresh; decode = as_decode_into; serialize = Some as_serialize; fields; contents = (fun l -> l.as_contents); payload = (fun l -> l.as_payload);
  next = (fun _ l -> i (as_next l)); render_panics = as_render_panics; of_spec; junk_len = 8 }
let run id ops out = run_generic desc id ops out
let registered = Registry.register "Lasf" run
