(* Lasfpong runner: ASF presence pong codec model on the ops of harness/cmd/gpverif/lasfpong.go *)
open Util
open Lmiscutil
open Lsmallutil
open LasfpongModel
let fields (l : pong) = Printf.sprintf "ent=%s;oem=%s;ipmi=%s;asf1=%s;sec=%s;dash=%s;dcmi=%s" (i l.pg_ent) (hex_of_bytes [l.pg_o0; l.pg_o1; l.pg_o2; l.pg_o3])
  (b01 l.pg_ipmi) (b01 l.pg_asf1) (b01 l.pg_sec) (b01 l.pg_dash) (b01 (pg_dcmi l))
let of_spec s = match split_on '.' s with
  | [e; a; b; c; d; f1; f2; f3; f4] -> { pg_contents = []; pg_payload = []; pg_ent = zi e; pg_o0 = zi a; pg_o1 = zi b; pg_o2 = zi c; pg_o3 = zi d;
      pg_ipmi = (f1 = "1"); pg_asf1 = (f2 = "1"); pg_sec = (f3 = "1"); pg_dash = (f4 = "1") }
  | _ -> failwith "asfpong spec"
let desc = { fresh = pg_fresh; decode = pg_decode_into; serialize = Some pg_serialize; fields; contents = (fun l -> l.pg_contents); payload = (fun l -> l.pg_payload);
  next = (fun _ l -> i (pg_next l)); render_panics = pg_render_panics; of_spec; junk_len = 16 }
let run id ops out = run_generic desc id ops out
let registered = Registry.register "Lasfpong" run
let coq_layer (l : pong) = Printf.sprintf "(mkPg %s %s %s %s %s %s %s %s %s %s %s)" (coq_zlist l.pg_contents) (coq_zlist l.pg_payload) (coq_z l.pg_ent)
  (coq_z l.pg_o0) (coq_z l.pg_o1) (coq_z l.pg_o2) (coq_z l.pg_o3) (coq_bool l.pg_ipmi) (coq_bool l.pg_asf1) (coq_bool l.pg_sec) (coq_bool l.pg_dash)
let registered_coq = Registry.register_coq "Lasfpong" ("From GP Require Import Base LasfpongModel.\n",
  Lsmallutil.to_coq_generic { Lsmallutil.cd = desc; coq_layer; g_dec = "pg_decode_into"; g_fresh = "pg_fresh"; g_ser = "pg_serialize"; g_rp = "pg_render_panics" })
