(* Leapol runner: EAPOL header codec model (coq/Model/LeapolModel.v) on the ops of harness/cmd/gpverif/leapol.go *)
open Util
open Lmiscutil
open LeapolModel

let fields (l : eapol) = Printf.sprintf "v=%s;t=%s;len=%s" (i l.ea_version) (i l.ea_type) (i l.ea_length)
let of_spec s = match split_on '.' s with
  | [v; t; len] -> { ea_contents = []; ea_payload = []; ea_version = zi v; ea_type = zi t; ea_length = zi len }
  | _ -> failwith "eapol spec"
let desc = { fresh = ea_fresh; decode = ea_decode_into; serialize = Some ea_serialize; fields;
  contents = (fun l -> l.ea_contents); payload = (fun l -> l.ea_payload); next = (fun _ l -> i (ea_next l));
  render_panics = ea_render_panics; of_spec; junk_len = 8 }
let run id ops out = run_generic desc id ops out
let registered = Registry.register "Leapol" run
