(* C15ng runner: the model reader over a (chunked, possibly failing) stream *)
open Util
open NgModel
open Ngshared

let run (id : string) (ops : string list) (out : out_channel) =
  let raw = ref [] and rawhex = ref "" and ro = ref "000" and zc = ref false in
  let sizes = ref [] and fail = ref (-1) and gz = ref false and gzcut = ref false and nomodel = ref false in
  Stdlib.List.iter (fun op ->
    let name, arg = match String.index_opt op ':' with
      | Some i -> String.sub op 0 i, String.sub op (i + 1) (String.length op - i - 1)
      | None -> op, "" in
    match name with
    | "raw" -> rawhex := arg
    | "ro" -> ro := arg
    | "mode" -> zc := (arg = "zc")
    | "chunk" -> sizes := [int_of_string arg]
    | "chunks" -> sizes := Stdlib.List.map int_of_string (split_on '.' arg)
    | "fail" -> fail := int_of_string arg
    | "dataerr" -> ()
    | "gz" -> gz := true
    | "gzcut" -> gzcut := true
    | "nomodel" -> nomodel := true
    | "cmpmodes" -> ()
    | "tag" -> ()
    | _ -> failwith ("c15ng op: " ^ op)) ops;
  let step = ref 0 in
  let emit s = Printf.fprintf out "%s\t%d\t%s\n" id !step s; incr step in
  if not (!nomodel || !gzcut) then raw := bytes_of_hex !rawhex;
  if !nomodel then emit "nomodel"
  else if !gzcut then emit "gzcut"
  else begin
    let ropt = parse_ro !ro !zc in
    let n = Stdlib.List.length !raw in
    let res =
      if !gz || (!sizes = [] && !fail < 0) then sres_of (fst (session_flat ropt !raw false))
      else begin
        (* the events the underlying reader produces *)
        let limit = if !fail >= 0 && !fail < n then !fail else n in
        let data = take limit !raw in
        let szs = if !sizes = [] then [max limit 1] else Stdlib.List.map (fun s -> max s 1) !sizes in
        let arr = Array.of_list szs in
        let rec chunks d k acc =
          if d = [] then Stdlib.List.rev acc
          else begin
            let s = arr.(k mod Array.length arr) in
            let c = take s d in
            let rec drop j l = if j <= 0 then l else match l with [] -> [] | _ :: t -> drop (j - 1) t in
            chunks (drop s d) (k + 1) (Chunk c :: acc)
          end in
        let ev = chunks data 0 [] @ (if !fail >= 0 then [Fail] else []) in
        sres_of (fst (session_chunked ropt ev))
      end in
    Stdlib.List.iter emit (session_lines res)
  end

let registered = Registry.register "C15ng" run
