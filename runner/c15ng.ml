(* C15ng runner: the model reader over a (chunked, possibly failing) stream *)
open Util
open NgModel
open Ngshared

type c15case = { raw : BinNums.coq_Z list; ro : string; zc : bool; sizes : int list; fail : int;
                 gz : bool; gzcut : bool; nomodel : bool }

let parse (ops : string list) : c15case =
  let rawhex = ref "" and ro = ref "000" and zc = ref false in
  let sizes = ref [] and fail = ref (-1) and gz = ref false and gzcut = ref false and nomodel = ref false in
  Stdlib.List.iter (fun op ->
    let name, arg = match String.index_opt op ':' with
      | Some i -> String.sub op 0 i, String.sub op (i + 1) (String.length op - i - 1)
      | None -> op, "" in
    match name with
    | "raw" -> rawhex := arg
    | "ro" -> ro := arg
    | "mode" -> zc := (arg = "zc")
    | "chunk" -> sizes := [int_of_string arg]
    | "chunks" -> sizes := Stdlib.List.map int_of_string (split_on '.' arg)
    | "fail" -> fail := int_of_string arg
    | "dataerr" -> ()
    | "gz" -> gz := true
    | "gzcut" -> gzcut := true
    | "nomodel" -> nomodel := true
    | "cmpmodes" -> ()
    | "tag" -> ()
    | _ -> failwith ("c15ng op: " ^ op)) ops;
  { raw = (if !nomodel || !gzcut then [] else bytes_of_hex !rawhex); ro = !ro; zc = !zc; sizes = !sizes; fail = !fail;
    gz = !gz; gzcut = !gzcut; nomodel = !nomodel }

(* the events the underlying reader produces; None = read the flat byte string *)
let events (c : c15case) : event list option =
  if c.gz || (c.sizes = [] && c.fail < 0) then None
  else begin
    let n = Stdlib.List.length c.raw in
    let limit = if c.fail >= 0 && c.fail < n then c.fail else n in
    let data = take limit c.raw in
    let szs = if c.sizes = [] then [max limit 1] else Stdlib.List.map (fun s -> max s 1) c.sizes in
    let arr = Array.of_list szs in
    let rec chunks d k acc =
      if d = [] then Stdlib.List.rev acc
      else begin
        let s = arr.(k mod Array.length arr) in
        let ch = take s d in
        let rec drop j l = if j <= 0 then l else match l with [] -> [] | _ :: t -> drop (j - 1) t in
        chunks (drop s d) (k + 1) (Chunk ch :: acc)
      end in
    Some (chunks data 0 [] @ (if c.fail >= 0 then [Fail] else []))
  end

let run (id : string) (ops : string list) (out : out_channel) =
  let c = parse ops in
  let step = ref 0 in
  let emit s = Printf.fprintf out "%s\t%d\t%s\n" id !step s; incr step in
  if c.nomodel then emit "nomodel"
  else if c.gzcut then emit "gzcut"
  else begin
    let ropt = parse_ro c.ro c.zc in
    let res = match events c with
      | None -> sres_of (fst (session_flat ropt c.raw false))
      | Some ev -> sres_of (fst (session_chunked ropt ev)) in
    Stdlib.List.iter emit (session_lines res)
  end

let registered = Registry.register "C15ng" run

let to_coq (idx : int) (ops : string list) (out : out_channel) =
  let c = parse ops in
  if not (c.nomodel || c.gzcut) && Stdlib.List.length c.raw <= 600 then begin
    let ropt = parse_ro c.ro c.zc in
    match events c with
    | None -> ng_coq_flat out (Printf.sprintf "sample_%d" idx) ropt c.raw
    | Some ev -> ng_coq_chunked out (Printf.sprintf "sample_%d" idx) ropt ev
  end
let registered_coq = Registry.register_coq "C15ng" (ng_coq_header, to_coq)
