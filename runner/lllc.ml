(* Lllc runner: LLC and SNAP codec models (coq/Model/LllcModel.v) on the ops of harness/cmd/gpverif/lllc.go *)
open Util
open Lmiscutil
open LllcModel

let lfields (l : llc) = Printf.sprintf "dsap=%s;ig=%s;ssap=%s;cr=%s;ctl=%s" (i l.c_dsap) (b01 l.c_ig) (i l.c_ssap) (b01 l.c_cr) (i l.c_control)
let l_of_spec s = match split_on '.' s with
  | [d; ig; ss; cr; c] -> { c_contents = []; c_payload = []; c_dsap = zi d; c_ig = (ig = "1"); c_ssap = zi ss; c_cr = (cr = "1"); c_control = zi c }
  | _ -> failwith "llc spec"
let ldesc = { fresh = llc_fresh; decode = llc_decode_into; serialize = Some llc_serialize; fields = lfields;
  contents = (fun l -> l.c_contents); payload = (fun l -> l.c_payload); next = (fun _ l -> i (llc_next l));
  render_panics = llc_render_panics; of_spec = l_of_spec; junk_len = 8 }

let sfields (l : snap) = Printf.sprintf "oui=%s;ty=%s" (hex_of_bytes l.s_oui) (i l.s_type)
let s_of_spec s = match split_on '.' s with
  | [o; t] -> { s_contents = []; s_payload = []; s_oui = (if o = "-" then [] else bytes_of_hex o); s_type = zi t }
  | _ -> failwith "snap spec"
let sdesc = { fresh = snap_fresh; decode = snap_decode_into; serialize = Some snap_serialize; fields = sfields;
  contents = (fun l -> l.s_contents); payload = (fun l -> l.s_payload); next = (fun _ l -> i (snap_next l));
  render_panics = snap_render_panics; of_spec = s_of_spec; junk_len = 8 }

let run id ops out = match ops with
  | "L:llc" :: rest -> run_generic ldesc id rest out
  | "L:snap" :: rest -> run_generic sdesc id rest out
  | _ -> failwith "Lllc: first op must be L:llc or L:snap"
let registered = Registry.register "Lllc" run
