(* Lague1 runner: AGUEVar1 / decodeAGUE model (coq/Model/Lague1Model.v) on the ops of harness/cmd/gpverif/lague1.go *)
open Util
open Lmiscutil
open LagueModel
open Lague1Model
let fields (l : ague1) = "proto=" ^ i l.a1_proto
let fields0 (l : ague) = Printf.sprintf "v=%s;cf=%s;proto=%s;flags=%s;ext=%s" (i l.ag_version) (b01 l.ag_c) (i l.ag_proto) (i l.ag_flags) (hex_of_bytes l.ag_ext)
let of_spec s = { a1_proto = zi s; a1_data = [] }
let desc = { fresh = a1_fresh; decode = a1_decode_into; serialize = Some a1_serialize; fields; contents = (fun _ -> []); payload = (fun l -> l.a1_data);
  next = (fun _ l -> "t" ^ i (a1_next l)); render_panics = a1_render_panics; of_spec; junk_len = 0 }
let is_decf op = String.length op >= 5 && String.sub op 0 5 = "decf:"
let run id ops out =
  if Stdlib.List.exists is_decf ops then begin
    let step = ref 0 in
    Stdlib.List.iter (fun op ->
      if is_decf op then begin
        let h = Stdlib.List.hd (split_on ',' (String.sub op 5 (String.length op - 5))) in
        let (((((variant, l0), l1), nx), o), tr) = ag_decode_fn (bytes_of_hex h) in
        let v = int_of_z variant in
        (* objects that were not added are unreachable: the harness shows zero values *)
        let l0 = if v = 1 then l0 else ag_fresh and l1 = if v = 2 then l1 else a1_fresh in
        let c = if v = 1 then hex_of_bytes (ag_hdr l0) else "" in
        let p = if v = 1 then hex_of_bytes l0.ag_data else if v = 2 then hex_of_bytes l1.a1_data else "" in
        Printf.fprintf out "%s\t%d\tcls=%s;tr=%s;variant=%d;%s;proto1=%s;c=%s;p=%s;next=%s\n" id !step (cls_of o) (b01 tr) v (fields0 l0) (i l1.a1_proto) c p
          (match nx with None -> "none" | Some z -> "t" ^ i z);
        incr step
      end) ops
  end else run_generic desc id ops out
let registered = Registry.register "Lague1" run
let coq_layer (l : ague1) = Printf.sprintf "(mkA1 %s %s)" (coq_z l.a1_proto) (coq_zlist l.a1_data)
let registered_coq = Registry.register_coq "Lague1" ("From GP Require Import Base LagueModel Lague1Model.\n",
  Lsmallutil.to_coq_generic { Lsmallutil.cd = desc; coq_layer; g_dec = "a1_decode_into"; g_fresh = "a1_fresh"; g_ser = "a1_serialize"; g_rp = "a1_render_panics" })
