(* C18 runner: parses op sequences, runs the extracted buffer model *)
open Util

let parse_op (s : string) : C18Model.op option * (int * int) option =
  match split_on ':' s with
  | ["new"; a] -> (match split_on ',' a with [p; q] -> (None, Some (int_of_string p, int_of_string q)) | _ -> failwith "new")
  | ["pre"; a] -> (match split_on ',' a with
      | [n; h] -> (Some (C18Model.OPrepend (nat_of_int (int_of_string n), bytes_of_hex h)), None) | _ -> failwith "pre")
  | ["app"; a] -> (match split_on ',' a with
      | [n; h] -> (Some (C18Model.OAppend (nat_of_int (int_of_string n), bytes_of_hex h)), None) | _ -> failwith "app")
  | ["clr"] -> (Some C18Model.OClear, None)
  | ["push"; t] -> (Some (C18Model.OPush (z_of_int (int_of_string t))), None)
  | ["wr"; a] -> (match split_on ',' a with
      | [k; i; v] -> (Some (C18Model.OWrite (nat_of_int (int_of_string k), nat_of_int (int_of_string i), z_of_int (int_of_string v))), None)
      | _ -> failwith "wr")
  | ["oth"; _] -> (* activity on another buffer: no effect on this one; modelled as a write through a window that does not exist *)
      (Some (C18Model.OWrite (nat_of_int 5000, nat_of_int 0, z_of_int 0)), None)
  | ["ser"] | ["ser"; ""] -> (Some (C18Model.OSer []), None)
  | ["ser"; a] ->
      let ls = Stdlib.List.map (fun l -> match split_on '.' l with
        | [t; h] -> (z_of_int (int_of_string t), bytes_of_hex h)
        | [t] -> (z_of_int (int_of_string t), [])
        | _ -> failwith "ser") (split_on '|' a) in
      (Some (C18Model.OSer ls), None)
  | _ -> failwith ("c18 op: " ^ s)

let run (id : string) (ops : string list) (out : out_channel) =
  let p = ref 0 and a = ref 0 in
  let l = Stdlib.List.filter_map (fun s ->
    match parse_op s with
    | (Some o, _) -> Some o
    | (None, Some (x, y)) -> p := x; a := y; None
    | _ -> None) ops in
  let tr = C18Model.run_trace (nat_of_int !p) (nat_of_int !a) l in
  Stdlib.List.iteri (fun i (o : C18Model.obs) ->
    Printf.fprintf out "%s\t%d\tbytes=%s;win=%d;layers=%s;panic=%d\n" id i
      (hex_of_bytes o.C18Model.o_bytes) (int_of_nat o.C18Model.o_winlen)
      (ints_csv (Stdlib.List.map int_of_z o.C18Model.o_layers))
      (if o.C18Model.o_panic then 1 else 0)) tr

let registered = Registry.register "C18" run

(* ---- cross-check of the extraction: the same cases evaluated inside Coq ----
   `main.exe --coq C18 cases out.v n` writes, for the first n cases, an Example stating that
   C18Model.run_trace on the case's ops (as a Gallina term) equals the observation list THIS
   extracted runner computed (as a Gallina term), proved by vm_compute; reflexivity. *)
let coq_z z = Printf.sprintf "(%d)%%Z" (int_of_z z)
let coq_zlist l = "[" ^ String.concat "; " (Stdlib.List.map coq_z l) ^ "]"
let coq_nat n = Printf.sprintf "%d%%nat" (int_of_nat n)
let coq_op (o : C18Model.op) = match o with
  | C18Model.OPrepend (n, f) -> Printf.sprintf "OPrepend %s %s" (coq_nat n) (coq_zlist f)
  | C18Model.OAppend (n, f) -> Printf.sprintf "OAppend %s %s" (coq_nat n) (coq_zlist f)
  | C18Model.OClear -> "OClear"
  | C18Model.OPush t -> Printf.sprintf "OPush %s" (coq_z t)
  | C18Model.OWrite (k, i, v) -> Printf.sprintf "OWrite %s %s %s" (coq_nat k) (coq_nat i) (coq_z v)
  | C18Model.OSer ls -> "OSer [" ^ String.concat "; " (Stdlib.List.map (fun (t, h) -> Printf.sprintf "(%s, %s)" (coq_z t) (coq_zlist h)) ls) ^ "]"

let to_coq (idx : int) (ops : string list) (out : out_channel) =
  let p = ref 0 and a = ref 0 in
  let l = Stdlib.List.filter_map (fun s ->
    match parse_op s with
    | (Some o, _) -> Some o
    | (None, Some (x, y)) -> p := x; a := y; None
    | _ -> None) ops in
  let tr = C18Model.run_trace (nat_of_int !p) (nat_of_int !a) l in
  let obs = Stdlib.List.map (fun (o : C18Model.obs) ->
    Printf.sprintf "{| o_bytes := %s; o_winlen := %s; o_layers := %s; o_panic := %s |}"
      (coq_zlist o.C18Model.o_bytes) (coq_nat o.C18Model.o_winlen) (coq_zlist o.C18Model.o_layers)
      (if o.C18Model.o_panic then "true" else "false")) tr in
  Printf.fprintf out "Example sample_%d : run_trace %s %s [%s] = [%s].\nProof. vm_compute. reflexivity. Qed.\n" idx
    (Printf.sprintf "%d%%nat" !p) (Printf.sprintf "%d%%nat" !a) (String.concat "; " (Stdlib.List.map coq_op l)) (String.concat ";\n  " obs)

let registered_coq = Registry.register_coq "C18" ("From GP Require Import Base C18Model.\nOpen Scope nat_scope.\n", to_coq)
