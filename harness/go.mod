module gpverif

go 1.25.0

require github.com/gopacket/gopacket v0.0.0

replace github.com/gopacket/gopacket => /repo
