// gpfacts: source-fact extractor for the PacketCore theorems (DESIGN.md section 4.3).
// Re-derives, from the repository under test, the syntactic facts the C03 / C01 framework
// theorems take as hypotheses about ALL decoders in layers/.  go/parser + go/ast only.
//
//	gpfacts <repo>      prints one JSON object
//
// F1   every call of <builder>.NextDecoder(...) in layers/*.go (non-test) is the operand of a
//      return statement: `return p.NextDecoder(...)`.  Listed: the call sites that are not.
// F1b  inside functions that have a gopacket.PacketBuilder parameter, every call that passes
//      that parameter on to another function (delegation: decodeX(data, p), x.Decode(data, p),
//      decodingLayerDecoder(l, data, p)) is likewise the operand of a return statement, so a
//      delegated NextDecoder is still in tail position (calls of DecodeFromBytes, whose
//      parameter type DecodeFeedback has no NextDecoder, are not delegations).  Listed: the
//      sites that are not.
// F2   call sites of <builder>.SetErrorLayer outside packet.go (file:function), and which of
//      those functions are referenced anywhere in layers/ (non-test) besides their own
//      declaration: today the single site, decodeSCTPChunkTypeUnknown, is never referenced
//      (dead code: SCTPChunkType.Decode falls through to the error decoder for unknown types).
// F3   calls of recover() in layers/*.go (non-test).
// F6   approximated syntactically: in every function (declaration or literal) of layers/ that
//      contains a NextDecoder call, an AddLayer call on the same receiver identifier occurs
//      textually earlier in that function body.  Listed: the functions for which it does not
//      (these delegate or continue on behalf of a caller that added the layer; they are
//      compared with the expected list, any change is a broken tie).
// F7   fields read through <builder>.DecodeOptions() in layers/ (the options decoders see).
// F8   composite literals or conversions constructing gopacket.DecodeFailure in layers/.
package main

import (
	"encoding/json"
	"fmt"
	"go/ast"
	"go/parser"
	"go/token"
	"os"
	"path/filepath"
	"sort"
	"strings"
)

type facts struct {
	F1Calls     int      `json:"F1_nextdecoder_calls"`
	F1NonTail   []string `json:"F1_nextdecoder_not_in_return"`
	F1bNonTail  []string `json:"F1b_builder_passed_not_in_return"`
	F2Sites     []string `json:"F2_seterrorlayer_sites"`
	F2Reachable []string `json:"F2_seterrorlayer_sites_referenced"`
	F3Recover   []string `json:"F3_recover_sites"`
	F6NoAdd     []string `json:"F6_nextdecoder_without_earlier_addlayer"`
	F6Functions int      `json:"F6_functions_with_nextdecoder"`
	F7Fields    []string `json:"F7_decodeoptions_fields_read"`
	F8Failure   []string `json:"F8_decodefailure_constructed"`
	Files       int      `json:"files"`
}

func sel(e ast.Expr) (recv, name string, ok bool) {
	s, ok := e.(*ast.SelectorExpr)
	if !ok {
		return "", "", false
	}
	if id, ok := s.X.(*ast.Ident); ok {
		return id.Name, s.Sel.Name, true
	}
	return "", s.Sel.Name, true
}

func isBuilderType(e ast.Expr) bool {
	if s, ok := e.(*ast.SelectorExpr); ok {
		if id, ok := s.X.(*ast.Ident); ok && id.Name == "gopacket" && s.Sel.Name == "PacketBuilder" {
			return true
		}
	}
	return false
}

func main() {
	if len(os.Args) < 2 {
		fmt.Fprintln(os.Stderr, "usage: gpfacts <repo>")
		os.Exit(2)
	}
	repo := os.Args[1]
	fset := token.NewFileSet()
	var f facts
	add := func(dst *[]string, s string) { *dst = append(*dst, s) }
	fields := map[string]bool{}

	scanDir := func(dir string, pkgIsLayers bool) {
		files, _ := filepath.Glob(filepath.Join(dir, "*.go"))
		sort.Strings(files)
		for _, fn := range files {
			base := filepath.Base(fn)
			if strings.HasSuffix(base, "_test.go") {
				continue
			}
			af, err := parser.ParseFile(fset, fn, nil, 0)
			if err != nil {
				fmt.Fprintln(os.Stderr, "parse error:", err)
				os.Exit(1)
			}
			if pkgIsLayers {
				f.Files++
			}
			// calls that are the direct operand of a return statement
			inReturn := map[*ast.CallExpr]bool{}
			ast.Inspect(af, func(n ast.Node) bool {
				if r, ok := n.(*ast.ReturnStmt); ok {
					for _, e := range r.Results {
						if c, ok := e.(*ast.CallExpr); ok {
							inReturn[c] = true
						}
					}
				}
				return true
			})
			// per function analysis
			var visitFunc func(name string, ftype *ast.FuncType, body *ast.BlockStmt)
			visitFunc = func(name string, ftype *ast.FuncType, body *ast.BlockStmt) {
				if body == nil {
					return
				}
				builders := map[*ast.Object]bool{} // resolved objects, so a shadowing `p` is not confused
				if ftype.Params != nil {
					for _, p := range ftype.Params.List {
						if isBuilderType(p.Type) {
							for _, n := range p.Names {
								if n.Obj != nil {
									builders[n.Obj] = true
								}
							}
						}
					}
				}
				type callInfo struct {
					pos  token.Pos
					recv string
				}
				var nexts, adds []callInfo
				ast.Inspect(body, func(n ast.Node) bool {
					switch x := n.(type) {
					case *ast.FuncLit:
						visitFunc(name+".func", x.Type, x.Body)
						return false
					case *ast.CallExpr:
						recv, meth, ok := sel(x.Fun)
						where := fmt.Sprintf("%s:%s:%d", base, name, fset.Position(x.Pos()).Line)
						if ok && meth == "NextDecoder" && pkgIsLayers {
							f.F1Calls++
							nexts = append(nexts, callInfo{x.Pos(), recv})
							if !inReturn[x] {
								add(&f.F1NonTail, where)
							}
						}
						if ok && meth == "AddLayer" {
							adds = append(adds, callInfo{x.Pos(), recv})
						}
						if ok && meth == "SetErrorLayer" && !(base == "packet.go" && !pkgIsLayers) {
							add(&f.F2Sites, fmt.Sprintf("%s:%s", base, name))
						}
						if id, ok := x.Fun.(*ast.Ident); ok && id.Name == "recover" && pkgIsLayers {
							add(&f.F3Recover, where)
						}
						if pkgIsLayers {
							// F1b: builder identifier passed on as an argument
							// (DecodeFromBytes takes a gopacket.DecodeFeedback, which has no NextDecoder)
							for _, a := range x.Args {
								if id, ok := a.(*ast.Ident); ok && id.Obj != nil && builders[id.Obj] && !inReturn[x] && meth != "DecodeFromBytes" {
									add(&f.F1bNonTail, where)
								}
							}
						}
					case *ast.SelectorExpr:
						// F7: <x>.DecodeOptions().Field
						if c, ok := x.X.(*ast.CallExpr); ok && pkgIsLayers {
							if _, m, ok := sel(c.Fun); ok && m == "DecodeOptions" {
								fields[x.Sel.Name] = true
							}
						}
					case *ast.CompositeLit:
						if _, m, ok := sel(x.Type); ok && m == "DecodeFailure" && pkgIsLayers {
							add(&f.F8Failure, fmt.Sprintf("%s:%s:%d", base, name, fset.Position(x.Pos()).Line))
						}
					}
					return true
				})
				if pkgIsLayers && len(nexts) > 0 {
					f.F6Functions++
					for _, nx := range nexts {
						okAdd := false
						for _, ad := range adds {
							if ad.pos < nx.pos && ad.recv == nx.recv {
								okAdd = true
							}
						}
						if !okAdd {
							add(&f.F6NoAdd, fmt.Sprintf("%s:%s", base, name))
							break
						}
					}
				}
			}
			for _, d := range af.Decls {
				if fd, ok := d.(*ast.FuncDecl); ok {
					visitFunc(fd.Name.Name, fd.Type, fd.Body)
				}
			}
			// a bare use of DecodeOptions() whose result escapes (not a field read) is recorded as "*"
			ast.Inspect(af, func(n ast.Node) bool {
				if !pkgIsLayers {
					return false
				}
				return true
			})
		}
	}
	scanDir(filepath.Join(repo, "layers"), true)
	scanDir(repo, false)
	// which F2 functions are referenced (any identifier use that is not the declaration itself)
	{
		uses := map[string]int{}
		files, _ := filepath.Glob(filepath.Join(repo, "layers", "*.go"))
		for _, fn := range files {
			if strings.HasSuffix(fn, "_test.go") {
				continue
			}
			af, err := parser.ParseFile(fset, fn, nil, 0)
			if err != nil {
				continue
			}
			decl := map[*ast.Ident]bool{}
			for _, d := range af.Decls {
				if fd, ok := d.(*ast.FuncDecl); ok {
					decl[fd.Name] = true
				}
			}
			ast.Inspect(af, func(n ast.Node) bool {
				if id, ok := n.(*ast.Ident); ok && !decl[id] {
					uses[id.Name]++
				}
				return true
			})
		}
		for _, site := range f.F2Sites {
			parts := strings.SplitN(site, ":", 2)
			if len(parts) == 2 && parts[0] != "decode.go" && uses[strings.TrimSuffix(parts[1], ".func")] > 0 {
				f.F2Reachable = append(f.F2Reachable, site)
			}
		}
	}
	for k := range fields {
		f.F7Fields = append(f.F7Fields, k)
	}
	for _, l := range []*[]string{&f.F1NonTail, &f.F1bNonTail, &f.F2Sites, &f.F2Reachable, &f.F3Recover, &f.F6NoAdd, &f.F7Fields, &f.F8Failure} {
		sort.Strings(*l)
		if *l == nil {
			*l = []string{}
		}
	}
	out, _ := json.MarshalIndent(f, "", " ")
	fmt.Println(string(out))
}
