// racecheck: support run for C02 (testing, not proof).  Built with -race.  Decodes one packet
// eagerly, then lets g goroutines use every read-only accessor (including VerifyChecksums and
// the renderers) on the SAME packet while g more goroutines decode the same bytes.  The race
// detector's report (exit code 66) is what the caller looks at.
package main

import (
	"encoding/hex"
	"fmt"
	"os"
	"strconv"
	"sync"

	"github.com/gopacket/gopacket"
	"github.com/gopacket/gopacket/layers"
)

var firsts = map[string]gopacket.Decoder{
	"eth": layers.LayerTypeEthernet, "ip4": layers.LayerTypeIPv4, "ip6": layers.LayerTypeIPv6,
	"tcp": layers.LayerTypeTCP, "udp": layers.LayerTypeUDP, "dns": layers.LayerTypeDNS,
	"icmp4": layers.LayerTypeICMPv4, "gre": layers.LayerTypeGRE, "sctp": layers.LayerTypeSCTP,
}

func readAll(p gopacket.Packet) {
	defer func() { recover() }()
	_ = p.Layers()
	_ = p.String()
	_ = p.Dump()
	p.VerifyChecksums()
	if l := p.LinkLayer(); l != nil {
		_ = l.LinkFlow()
	}
	if l := p.NetworkLayer(); l != nil {
		_ = l.NetworkFlow()
	}
	if l := p.TransportLayer(); l != nil {
		_ = l.TransportFlow()
	}
	for _, l := range p.Layers() {
		if _, isFail := l.(*gopacket.DecodeFailure); !isFail {
			_ = gopacket.LayerString(l)
			_ = gopacket.LayerDump(l)
		}
	}
	_ = p.ErrorLayer()
	_ = p.ApplicationLayer()
}

func main() {
	first := os.Args[1]
	data, _ := hex.DecodeString(os.Args[2])
	g, _ := strconv.Atoi(os.Args[3])
	p := gopacket.NewPacket(data, firsts[first], gopacket.Default)
	if nl := p.NetworkLayer(); nl != nil {
		for _, m := range p.Layers() {
			if s, ok := m.(interface {
				SetNetworkLayerForChecksum(gopacket.NetworkLayer) error
			}); ok {
				s.SetNetworkLayerForChecksum(nl)
			}
		}
	}
	var wg sync.WaitGroup
	for w := 0; w < g; w++ {
		wg.Add(2)
		go func() {
			defer wg.Done()
			for i := 0; i < 5; i++ {
				readAll(p)
			}
		}()
		go func() {
			defer wg.Done()
			for i := 0; i < 5; i++ {
				q := gopacket.NewPacket(data, firsts[first], gopacket.Default)
				_ = q.String()
			}
		}()
	}
	wg.Wait()
	fmt.Println("done")
}
