// c12race: support run for C12 (testing, not proof).  The workloads of the schedule-replay
// harness run freely (no controller) on real goroutines; built with -race, every report of the
// race detector is printed on stderr.  usage: c12race <rounds>
package main

import (
	"fmt"
	"net"
	"os"
	"strconv"
	"sync"
	"time"

	"github.com/gopacket/gopacket"
	"github.com/gopacket/gopacket/layers"
	"github.com/gopacket/gopacket/reassembly"
	"github.com/gopacket/gopacket/tcpassembly"
)

type pkt struct {
	flow, dir int
	syn, fin  bool
	seq       uint32
	data      []byte
}

func flows(flow, dir int) (gopacket.Flow, *layers.TCP) {
	a := net.IPv4(10, 0, 0, byte(1+flow)).To4()
	b := net.IPv4(10, 0, 1, byte(1+flow)).To4()
	t := &layers.TCP{SrcPort: 1000, DstPort: 2000}
	if dir == 1 {
		a, b = b, a
		t.SrcPort, t.DstPort = 2000, 1000
	}
	return gopacket.NewFlow(layers.EndpointIPv4, a, b), t
}

type tstream struct{ n int }

func (s *tstream) Reassembled(rs []tcpassembly.Reassembly) { s.n += len(rs) }
func (s *tstream) ReassemblyComplete()                     { s.n++ }

type tfactory struct{}

func (tfactory) New(a, b gopacket.Flow) tcpassembly.Stream { return &tstream{} }

type rstream struct{ n int }

func (s *rstream) Accept(*layers.TCP, gopacket.CaptureInfo, reassembly.TCPFlowDirection, reassembly.Sequence, *bool, reassembly.AssemblerContext) bool {
	return true
}
func (s *rstream) ReassembledSG(sg reassembly.ScatterGather, ac reassembly.AssemblerContext) { s.n++ }
func (s *rstream) ReassemblyComplete(ac reassembly.AssemblerContext) bool                    { s.n++; return true }

type rfactory struct{}

func (rfactory) New(a, b gopacket.Flow, t *layers.TCP, ac reassembly.AssemblerContext) reassembly.Stream {
	return &rstream{}
}

type ctx struct{ ci gopacket.CaptureInfo }

func (c *ctx) GetCaptureInfo() gopacket.CaptureInfo { return c.ci }

var panics int
var pmu sync.Mutex

func run(pkg string, progs [][]pkt) {
	var wg sync.WaitGroup
	ts := time.Unix(1700000000, 0)
	start := make(chan struct{})
	if pkg == "t" {
		pool := tcpassembly.NewStreamPool(tfactory{})
		for _, prog := range progs {
			asm := tcpassembly.NewAssembler(pool)
			wg.Add(1)
			go func(prog []pkt) {
				defer wg.Done()
				defer func() {
					if r := recover(); r != nil {
						pmu.Lock()
						panics++
						pmu.Unlock()
					}
				}()
				<-start
				for _, p := range prog {
					nf, t := flows(p.flow, p.dir)
					t.Seq, t.SYN, t.FIN = p.seq, p.syn, p.fin
					t.Payload = p.data
					asm.AssembleWithTimestamp(nf, t, ts)
				}
			}(prog)
		}
		close(start)
		wg.Wait()
		tcpassembly.NewAssembler(pool).FlushAll()
		return
	}
	pool := reassembly.NewStreamPool(rfactory{})
	for _, prog := range progs {
		asm := reassembly.NewAssembler(pool)
		wg.Add(1)
		go func(prog []pkt) {
			defer wg.Done()
			defer func() {
				if r := recover(); r != nil {
					pmu.Lock()
					panics++
					pmu.Unlock()
				}
			}()
			<-start
			for _, p := range prog {
				nf, t := flows(p.flow, p.dir)
				t.Seq, t.SYN, t.FIN = p.seq, p.syn, p.fin
				t.Payload = p.data
				asm.AssembleWithContext(nf, t, &ctx{gopacket.CaptureInfo{Timestamp: ts}})
			}
		}(prog)
	}
	close(start)
	wg.Wait()
	reassembly.NewAssembler(pool).FlushAll()
}

func main() {
	rounds := 1000
	if len(os.Args) > 1 {
		rounds, _ = strconv.Atoi(os.Args[1])
	}
	S := func(f, d int) pkt { return pkt{flow: f, dir: d, syn: true, seq: 1000} }
	D := func(f, d int) pkt {
		return pkt{flow: f, dir: d, seq: 1001, data: []byte{byte((f+1)<<4 | d<<3), byte((f+1)<<4 | d<<3 | 1)}}
	}
	F := func(f, d int, seq uint32) pkt { return pkt{flow: f, dir: d, fin: true, seq: seq} }
	work := [][][]pkt{
		{{S(0, 0), D(0, 0)}, {S(0, 1), D(0, 1)}},                                  // first packets of both directions
		{{S(0, 0), F(0, 0, 1001), S(1, 0), D(1, 0)}, {D(0, 0), D(0, 0), D(0, 0)}}, // close, recycle, stale pointer
		{{S(0, 0), F(0, 0, 1001), S(0, 1), F(0, 1, 1001), S(1, 0)}, {D(0, 0), D(0, 1), D(0, 0)}},
		{{S(0, 0), D(0, 0)}, {D(0, 0), F(0, 0, 1003)}, {S(1, 0), F(1, 0, 1001), S(2, 0)}},
	}
	for r := 0; r < rounds; r++ {
		for _, w := range work {
			run("t", w)
			run("r", w)
		}
	}
	fmt.Fprintf(os.Stderr, "c12race: rounds=%d panics=%d\n", rounds, panics)
}
