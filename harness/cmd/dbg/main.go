package main

import (
	"encoding/hex"
	"fmt"

	"github.com/gopacket/gopacket"
	"github.com/gopacket/gopacket/layers"
)

func main() {
	d, _ := hex.DecodeString("000000000000000000000000000000000000000000000000000000000503")
	for _, o := range []gopacket.DecodeOptions{{}, {Pool: true, DecodeStreamsAsDatagrams: true}, {SkipDecodeRecovery: true}} {
		func() {
			defer func() {
				if r := recover(); r != nil {
					fmt.Println("panic", r)
				}
			}()
			p := gopacket.NewPacket(d, layers.LayerTypeMDP, o)
			fmt.Println(o, len(p.Layers()), p.ErrorLayer(), p)
		}()
	}
}
