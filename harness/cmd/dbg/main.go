package main

import (
	"fmt"
	"time"

	"github.com/gopacket/gopacket"
	"github.com/gopacket/gopacket/layers"
)

func main() {
	d := make([]byte, 65535)
	t := time.Now()
	p := gopacket.NewPacket(d, layers.LayerTypeDot11MgmtAssociationResp, gopacket.Default)
	fmt.Println("decode", time.Since(t), len(p.Layers()))
	t = time.Now()
	s := p.String()
	fmt.Println("String", time.Since(t), len(s))
	t = time.Now()
	s = p.Dump()
	fmt.Println("Dump", time.Since(t), len(s))
}
