package main

import (
	"encoding/hex"
	"fmt"
	"os"

	"github.com/gopacket/gopacket"
	"github.com/gopacket/gopacket/layers"
)

type dl interface {
	gopacket.DecodingLayer
	gopacket.SerializableLayer
}

func rt(name string, mk func() dl, in string) {
	d, _ := hex.DecodeString(in)
	cur := d
	fmt.Println("==", name, in)
	for i := 0; i < 3; i++ {
		l := mk()
		if err := l.DecodeFromBytes(cur, gopacket.NilDecodeFeedback); err != nil {
			fmt.Println("  decode err:", err)
			return
		}
		fmt.Printf("  l%d = %s\n", i, gopacket.LayerString(l.(gopacket.Layer)))
		buf := gopacket.NewSerializeBuffer()
		pl := l.LayerPayload()
		b, _ := buf.AppendBytes(len(pl))
		copy(b, pl)
		if err := l.SerializeTo(buf, gopacket.SerializeOptions{FixLengths: true, ComputeChecksums: true}); err != nil {
			fmt.Println("  ser err:", err)
			return
		}
		cur = append([]byte(nil), buf.Bytes()...)
		fmt.Printf("  b%d = %x\n", i+1, cur)
	}
}

func main() {
	which := os.Args[1]
	switch which {
	case "geneve":
		rt("geneve", func() dl { return &layers.Geneve{} }, os.Args[2])
	case "eap":
		rt("eap", func() dl { return &layers.EAP{} }, os.Args[2])
	case "radius":
		rt("radius", func() dl { return &layers.RADIUS{} }, os.Args[2])
	case "tls":
		rt("tls", func() dl { return &layers.TLS{} }, os.Args[2])
	case "llc":
		rt("llc", func() dl { return &layers.LLC{} }, os.Args[2])
	case "dns":
		rt("dns", func() dl { return &layers.DNS{} }, os.Args[2])
	}
}
