package main

// Leth: layers/ethernet.go codec sub-check (C19, C05, C06, C07, C01 for Ethernet).
// Ops:  dec:<hex>  dec2:<hexA>,<hexB>  ser:<hex>,<fcd>,<payloadhex>  rt:<hex>,<payloadhex>
//       new:<dsthex>.<srchex>.<type>.<len>,<fcd>,<payloadhex>     rtn:<dsthex>.<srchex>.<type>.<len>,<payloadhex>

import (
	"bytes"
	"fmt"
	"math/rand"
	"net"
	"strings"

	"github.com/gopacket/gopacket"
	"github.com/gopacket/gopacket/layers"
)

type leth struct{}

func init() { register("Leth", leth{}) }

func ethNext(e *layers.Ethernet) (s string) {
	defer func() {
		if recover() != nil {
			s = "panic"
		}
	}()
	if e.NextLayerType() == e.EthernetType.LayerType() {
		return fmt.Sprint(uint16(e.EthernetType))
	}
	return fmt.Sprintf("other%d", e.NextLayerType())
}

func ethFields(e *layers.Ethernet) string {
	return fmt.Sprintf("dst=%s;src=%s;ty=%d;len=%d", lnHex(e.DstMAC), lnHex(e.SrcMAC), uint16(e.EthernetType), e.Length)
}

func ethObs(cls string, tr bool, e *layers.Ethernet) string {
	render := lnRender(e, func() { _ = e.LinkFlow() })
	return fmt.Sprintf("cls=%s;tr=%s;%s;c=%s;p=%s;next=%s;render=%s", cls, lnB(tr), ethFields(e),
		lnHex(e.Contents), lnHex(e.Payload), ethNext(e), render)
}

func ethDecode(e *layers.Ethernet, data []byte) (string, bool) {
	fb := &lnFeedback{}
	cls := lnClass(func() error { return e.DecodeFromBytes(lnCopy(data), fb) })
	return cls, fb.tr
}

func ethFromSpec(spec string) *layers.Ethernet {
	f := strings.Split(spec, ".")
	e := &layers.Ethernet{EthernetType: layers.EthernetType(lnAtoi(f[2])), Length: uint16(lnAtoi(f[3]))}
	if f[0] != "" {
		e.DstMAC = net.HardwareAddr(lnUnhex(f[0]))
	}
	if f[1] != "" {
		e.SrcMAC = net.HardwareAddr(lnUnhex(f[1]))
	}
	return e
}

func (leth) Run(c Case) (res Result) {
	for _, op := range c.Ops {
		name, a := lnOp(op)
		switch name {
		case "tag":
			res.Tags = append(res.Tags, a[0])
		case "dec":
			e := &layers.Ethernet{}
			cls, tr := ethDecode(e, lnUnhex(a[0]))
			obs := ethObs(cls, tr, e)
			res.Obs = append(res.Obs, obs)
			if cls == "panic" {
				res.Oracle = append(res.Oracle, "C19:panic\tEthernet.DecodeFromBytes panicked")
			}
			if strings.HasSuffix(obs, "render=panic") {
				res.Oracle = append(res.Oracle, "C01:render-panic\trenderer or LinkFlow panicked after decode class "+cls)
			}
			if cls == "ok" && e.EthernetType == layers.EthernetTypeLLC {
				res.Tags = append(res.Tags, "length-field")
				if len(e.Payload)+14 < len(lnUnhex(a[0])) {
					res.Tags = append(res.Tags, "trailer-stripped")
				}
			}
		case "dec2":
			e := &layers.Ethernet{}
			ethDecode(e, lnUnhex(a[0]))
			if e.Length != 0 {
				res.Tags = append(res.Tags, "residue-length")
			}
			cls, tr := ethDecode(e, lnUnhex(a[1]))
			obs := ethObs(cls, tr, e)
			res.Obs = append(res.Obs, obs)
			fr := &layers.Ethernet{}
			fcls, ftr := ethDecode(fr, lnUnhex(a[1]))
			fobs := ethObs(fcls, ftr, fr)
			if cls == "panic" {
				res.Oracle = append(res.Oracle, "C19:panic\tEthernet.DecodeFromBytes panicked on a reused object")
			} else if cls != fcls || tr != ftr || (cls == "ok" && obs != fobs) {
				res.Oracle = append(res.Oracle, fmt.Sprintf("C05:stale\treused: %s fresh: %s", obs, fobs))
			}
		case "ser", "new":
			var mk func() *layers.Ethernet
			if name == "ser" {
				data := lnUnhex(a[0])
				mk = func() *layers.Ethernet { e := &layers.Ethernet{}; ethDecode(e, data); return e }
			} else {
				mk = func() *layers.Ethernet { return ethFromSpec(a[0]) }
			}
			fix, csum, d := lnParseFCD(a[1])
			payload := lnUnhex(a[2])
			e := mk()
			cls, out := lnSerialize(e, d, payload, fix, csum)
			res.Obs = append(res.Obs, fmt.Sprintf("cls=%s;out=%s;%s", cls, lnHex(out), ethFields(e)))
			if d == 1 {
				res.Tags = append(res.Tags, "dirty-buffer")
			}
			if !fix {
				res.Tags = append(res.Tags, "no-fixlengths")
			}
			if len(payload) < 46 && cls == "ok" {
				res.Tags = append(res.Tags, "min-frame-padding")
			}
			res.Oracle = append(res.Oracle, lnJunkOracle(func() gopacket.SerializableLayer { return mk() }, payload, fix, csum)...)
		case "rt", "rtn":
			payload := lnUnhex(a[1])
			var e *layers.Ethernet
			if name == "rt" {
				e = &layers.Ethernet{}
				cls, _ := ethDecode(e, lnUnhex(a[0]))
				if cls != "ok" {
					res.Obs = append(res.Obs, "first="+cls)
					break
				}
			} else {
				e = ethFromSpec(a[0])
			}
			scls, out := lnSerialize(e, 0, payload, true, true)
			if scls != "ok" {
				res.Obs = append(res.Obs, "ser="+scls)
				if scls == "panic" {
					res.Oracle = append(res.Oracle, "C07:panic\tSerializeTo panicked")
				}
				break
			}
			if len(payload) < 46 {
				res.Tags = append(res.Tags, "min-frame-padding")
			}
			if e.EthernetType == layers.EthernetTypeLLC {
				res.Tags = append(res.Tags, "length-field")
			}
			if len(payload) >= 1500 {
				res.Tags = append(res.Tags, "length-boundary")
			}
			e2 := &layers.Ethernet{}
			cls2, tr2 := ethDecode(e2, out)
			res.Obs = append(res.Obs, ethObs(cls2, tr2, e2))
			wf := e.EthernetType == layers.EthernetTypeLLC || (e.EthernetType >= 0x600 && e.Length == 0)
			if !wf || len(payload) > 65535 {
				break
			}
			switch {
			case cls2 != "ok":
				res.Oracle = append(res.Oracle, "C06:roundtrip\tsecond decode: "+cls2)
			case tr2:
				res.Oracle = append(res.Oracle, "C06:roundtrip\tsecond decode sets truncated")
			default:
				if f1, f2 := ethFields(e), ethFields(e2); f1 != f2 {
					res.Oracle = append(res.Oracle, fmt.Sprintf("C06:roundtrip\tfields differ: written %s read %s", f1, f2))
				}
				want := payload
				if e.EthernetType != layers.EthernetTypeLLC && len(payload) < 46 {
					// our reading of the protocol: below the 60 byte minimum the layer itself pads with zeros
					want = append(lnCopy(payload), make([]byte, 46-len(payload))...)
				}
				if !bytes.Equal(e2.Payload, want) {
					res.Oracle = append(res.Oracle, "C06:roundtrip\tpayload differs")
				}
				c3, out3 := lnSerialize(e2, 1, e2.Payload, true, true)
				if c3 != "ok" || !bytes.Equal(out3, out) {
					res.Oracle = append(res.Oracle, "C06:fixpoint\tre-serialized bytes differ")
				}
			}
		default:
			panic("Leth: unknown op " + op)
		}
	}
	return
}

func (leth) Gen(rng *rand.Rand, tier string) []Case {
	var out []Case
	add := func(ops ...string) { out = append(out, Case{Prop: "Leth", Ops: ops}) }
	scale := 1
	if tier == "thorough" {
		scale = 8
	}
	hx := lnHex
	psizes := []int{0, 1, 2, 45, 46, 47, 59, 60, 100}
	payloads := func() []byte { return lnRandBytes(rng, psizes[rng.Intn(len(psizes))]) }
	etype := func() int { return lnPick(rng, 0x0800, 0x86dd, 0x8100, 0x0806, 0x0600, 0x0601, 0xffff, 0x600+rng.Intn(0xfa00)) }
	frame := func(tl int, pl []byte) []byte {
		h := append(lnRandBytes(rng, 12), byte(tl>>8), byte(tl))
		return append(h, pl...)
	}
	for i := 0; i < 60*scale; i++ {
		pl := payloads()
		var p []byte
		if i%3 == 0 {
			p = frame(len(pl), pl) // 802.3 length
		} else {
			p = frame(etype(), pl)
		}
		add("dec:" + hx(p))
		add("rt:" + hx(p) + "," + hx(payloads()))
		spl := payloads()
		for _, fcd := range lnFCD[:6] {
			add("ser:" + hx(p) + "," + fcd + "," + hx(spl))
		}
		add("ser:" + hx(p) + "," + lnFCD[6+rng.Intn(6)] + "," + hx(payloads()))
	}
	// truncations, and the type/length field around every bound
	for i := 0; i < 12*scale; i++ {
		pl := lnRandBytes(rng, lnPick(rng, 0, 1, 5, 46, 64))
		p := frame(etype(), pl)
		for k := 0; k <= 15 && k <= len(p); k++ {
			add("tag:truncated-prefix-of-valid", "dec:"+hx(p[:k]))
		}
		for _, L := range []int{0, 1, 3, len(pl) - 1, len(pl), len(pl) + 1, 1500, 1501, 0x5ff, 0x600, 0x601} {
			if L < 0 {
				continue
			}
			q := lnCopy(p)
			q[12], q[13] = byte(L>>8), byte(L)
			add("tag:length-extreme", "dec:"+hx(q))
			p2 := frame(etype(), payloads())
			add("tag:length-extreme", "dec2:"+hx(q)+","+hx(p2))
			add("tag:length-extreme", "dec2:"+hx(p2)+","+hx(q))
			add("tag:length-extreme", "ser:"+hx(q)+","+lnFCD[rng.Intn(len(lnFCD))]+","+hx(payloads()))
			add("tag:length-extreme", "rt:"+hx(q)+","+hx(payloads()))
		}
	}
	// field-built layers
	mac := func(extreme bool) string {
		if extreme {
			return hx(lnRandBytes(rng, lnPick(rng, 0, 1, 5, 6, 6, 7, 8, 17, 20)))
		}
		return hx(lnRandBytes(rng, 6))
	}
	for i := 0; i < 150*scale; i++ {
		ex := i%3 == 0
		ty, ln := etype(), 0
		switch rng.Intn(4) {
		case 0:
			ty = 0
		case 1:
			ty, ln = 0, lnPick(rng, 1, 46, 1500, 0x5ff, 0x600, 0x601, 65535)
		case 2:
			if ex {
				ln = lnPick(rng, 1, 46, 0x600)
			}
		case 3:
			if ex {
				ty = lnPick(rng, 1, 5, 0x5ff)
			}
		}
		spec := fmt.Sprintf("%s.%s.%d.%d", mac(ex), mac(ex), ty, ln)
		add("new:" + spec + "," + lnFCD[rng.Intn(len(lnFCD))] + "," + hx(payloads()))
		if !ex {
			add("rtn:" + spec + "," + hx(payloads()))
		}
	}
	// MAC lengths 5, 6, 7 on either side (exactly 6 required); frame size 59, 60, 61 (padding below 60)
	for _, n := range []int{5, 6, 7} {
		for _, side := range []int{0, 1} {
			d, sr := hx(lnRandBytes(rng, 6)), hx(lnRandBytes(rng, 6))
			if side == 0 {
				d = hx(lnRandBytes(rng, n))
			} else {
				sr = hx(lnRandBytes(rng, n))
			}
			add("tag:field-extreme", fmt.Sprintf("new:%s.%s.2048.0,11%d,%s", d, sr, rng.Intn(3), hx(payloads())))
			add("tag:field-extreme", fmt.Sprintf("new:%s.%s.0.0,10%d,%s", d, sr, rng.Intn(3), hx(payloads())))
		}
	}
	for _, n := range []int{44, 45, 46, 47, 48} {
		for _, ty := range []int{2048, 0} {
			spec := fmt.Sprintf("%s.%s.%d.0", hx(lnRandBytes(rng, 6)), hx(lnRandBytes(rng, 6)), ty)
			add("tag:min-frame-boundary", "rtn:"+spec+","+hx(lnRandBytes(rng, n)))
			add("tag:min-frame-boundary", "new:"+spec+",111,"+hx(lnRandBytes(rng, n)))
		}
	}
	// 802.3 length boundary: payloads of 1499..1537 bytes under a length field
	for _, n := range []int{1498, 1499, 1500, 1501, 1502, 1533, 1534, 1535, 1536, 1537, 1538} {
		spec := fmt.Sprintf("%s.%s.0.0", mac(false), mac(false))
		add("tag:length-boundary", "rtn:"+spec+","+hx(lnRandBytes(rng, n)))
		add("tag:length-boundary", "new:"+spec+",111,"+hx(lnRandBytes(rng, n)))
		// FixLengths off: the Length field as given (equal to, one below and one above the payload length)
		for _, L := range []int{n - 1, n, n + 1} {
			specL := fmt.Sprintf("%s.%s.0.%d", mac(false), mac(false), L)
			add("tag:length-boundary", "new:"+specL+",0"+fmt.Sprint(rng.Intn(2))+fmt.Sprint(rng.Intn(3))+","+hx(lnRandBytes(rng, n)))
		}
		// decode side: a frame whose type/length field is n over exactly n, n-1 and n+1 payload bytes
		for _, m := range []int{n - 1, n, n + 1} {
			add("tag:length-boundary", "dec:"+hx(frame(n, lnRandBytes(rng, m))))
		}
		spec2 := fmt.Sprintf("%s.%s.2048.0", mac(false), mac(false))
		add("tag:length-boundary", "rtn:"+spec2+","+hx(lnRandBytes(rng, n)))
	}
	// seeds: the packet literals of layers/*_test.go are mostly Ethernet frames
	seeds := lnSeeds()
	for i, s := range seeds {
		if tier != "thorough" && i >= 60 {
			break
		}
		if len(s) > 400 {
			s = s[:400]
		}
		add("dec:" + hx(s))
		add("rt:" + hx(s) + "," + hx(s[14:]))
		add("ser:" + hx(s) + "," + lnFCD[rng.Intn(len(lnFCD))] + "," + hx(payloads()))
		if i+1 < len(seeds) && len(seeds[i+1]) <= 400 {
			add("dec2:" + hx(s) + "," + hx(seeds[i+1]))
		}
		for k := 0; k < 16 && k < len(s); k += 1 + rng.Intn(3) {
			add("tag:truncated-prefix-of-valid", "dec:"+hx(s[:k]))
		}
	}
	// malformed stream
	for i := 0; i < 100*scale; i++ {
		q := lnRandBytes(rng, lnPick(rng, 0, 1, 13, 14, 15, 20, rng.Intn(70)))
		if len(q) >= 14 && rng.Intn(2) == 0 {
			q[12] = byte(rng.Intn(7))
		}
		add("dec:" + hx(q))
		if i%3 == 0 {
			add("dec2:" + hx(q) + "," + hx(frame(etype(), payloads())))
			add("ser:" + hx(q) + "," + lnFCD[rng.Intn(len(lnFCD))] + "," + hx(payloads()))
		}
	}
	return out
}
