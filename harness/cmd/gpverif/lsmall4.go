package main

// Letherip, Lfddi, Ludplite, Lerspan2: four small layer sub-checks (layers/etherip.go, fddi.go, udplite.go, erspan2.go), one check id per file.
// Ops: dec (all), dec2 (EtherIP, ERSPANII), ser rt new rtn (ERSPANII: new:<trunc>.<ver>.<cos>.<encap>.<vlan>.<session>.<reserved>.<index>,<fcd>,<payloadhex>).
// FDDI and UDPLite have only a decoder function: decoding runs the registered decoder on a recording PacketBuilder.

import (
	"fmt"
	"math/rand"
	"strings"

	"github.com/gopacket/gopacket"
	"github.com/gopacket/gopacket/layers"
)

type letherip struct{}
type lfddi struct{}
type ludplite struct{}
type lerspan2 struct{}

func init() {
	register("Letherip", letherip{})
	register("Lfddi", lfddi{})
	register("Ludplite", ludplite{})
	register("Lerspan2", lerspan2{})
}

func lmNextConst(want gopacket.LayerType, name string, get func(l gopacket.Layer) gopacket.LayerType) func(gopacket.Layer, *lmBuilder) string {
	return func(l gopacket.Layer, _ *lmBuilder) string {
		if t := get(l); t != want {
			return fmt.Sprintf("other%d", t)
		}
		return name
	}
}

var letheripDesc = &lmDesc{
	id: "Letherip", name: "EtherIP",
	fresh: func() gopacket.Layer { return &layers.EtherIP{} },
	decode: func(l gopacket.Layer, data []byte, fb gopacket.DecodeFeedback) error {
		return l.(*layers.EtherIP).DecodeFromBytes(data, fb)
	},
	fields: func(l gopacket.Layer) string { e := l.(*layers.EtherIP); return fmt.Sprintf("v=%d;rsv=%d", e.Version, e.Reserved) },
	next:   lmNextConst(layers.LayerTypeEthernet, "ethernet", func(l gopacket.Layer) gopacket.LayerType { return l.(*layers.EtherIP).NextLayerType() }),
}

var lfddiDesc = &lmDesc{
	id: "Lfddi", name: "FDDI",
	fresh:    func() gopacket.Layer { return &layers.FDDI{} },
	decodeFn: func(data []byte, b *lmBuilder) error { return layers.LayerTypeFDDI.Decode(data, b) },
	fields: func(l gopacket.Layer) string {
		f := l.(*layers.FDDI)
		return fmt.Sprintf("fc=%d;prio=%d;src=%s;dst=%s", uint8(f.FrameControl), f.Priority, lnHex(f.SrcMAC), lnHex(f.DstMAC))
	},
	next: func(l gopacket.Layer, b *lmBuilder) string {
		if b == nil || !b.nextSet {
			return "none"
		}
		if c, ok := b.next.(layers.FDDIFrameControl); ok {
			if b.link != l {
				return "link-layer-not-set"
			}
			return fmt.Sprint(uint8(c))
		}
		return fmt.Sprintf("other%T", b.next)
	},
	extra: func(l gopacket.Layer) []func() {
		f := l.(*layers.FDDI)
		return []func(){func() { fl := f.LinkFlow(); _ = fl.String(); _, _ = fl.Endpoints() }}
	},
}

var ludpliteDesc = &lmDesc{
	id: "Ludplite", name: "UDPLite",
	fresh:    func() gopacket.Layer { return &layers.UDPLite{} },
	decodeFn: func(data []byte, b *lmBuilder) error { return layers.LayerTypeUDPLite.Decode(data, b) },
	fields: func(l gopacket.Layer) string {
		u := l.(*layers.UDPLite)
		return fmt.Sprintf("sp=%d;dp=%d;cov=%d;cs=%d", uint16(u.SrcPort), uint16(u.DstPort), u.ChecksumCoverage, u.Checksum)
	},
	next: func(l gopacket.Layer, b *lmBuilder) string {
		if b == nil || !b.nextSet {
			return "none"
		}
		if b.next == gopacket.Decoder(gopacket.LayerTypePayload) {
			return "payload"
		}
		return fmt.Sprintf("other%v", b.next)
	},
	extra: func(l gopacket.Layer) []func() {
		u := l.(*layers.UDPLite)
		return []func(){func() {
			fl := u.TransportFlow()
			s, d := fl.Endpoints()
			_ = fl.String()
			if len(u.Contents) == 8 && (lnHex(s.Raw()) != lnHex(u.Contents[0:2]) || lnHex(d.Raw()) != lnHex(u.Contents[2:4])) {
				panic("UDPLite flow endpoints differ from the port octets")
			}
		}}
	},
}

var lerspan2Desc = &lmDesc{
	id: "Lerspan2", name: "ERSPANII", ser: true,
	fresh: func() gopacket.Layer { return &layers.ERSPANII{} },
	decode: func(l gopacket.Layer, data []byte, fb gopacket.DecodeFeedback) error {
		return l.(*layers.ERSPANII).DecodeFromBytes(data, fb)
	},
	fields: func(l gopacket.Layer) string {
		e := l.(*layers.ERSPANII)
		return fmt.Sprintf("t=%s;v=%d;cos=%d;en=%d;vlan=%d;sid=%d;rsv=%d;idx=%d", lnB(e.IsTruncated), e.Version, e.CoS, e.TrunkEncap, e.VLANIdentifier, e.SessionID, e.Reserved, e.Index)
	},
	next: lmNextConst(layers.LayerTypeEthernet, "ethernet", func(l gopacket.Layer) gopacket.LayerType { return l.(*layers.ERSPANII).NextLayerType() }),
	fromSpec: func(spec string) gopacket.Layer {
		f := strings.Split(spec, ".")
		return &layers.ERSPANII{IsTruncated: f[0] == "1", Version: uint8(lnAtoi(f[1])), CoS: uint8(lnAtoi(f[2])), TrunkEncap: uint8(lnAtoi(f[3])), VLANIdentifier: uint16(lnAtoi(f[4])),
			SessionID: uint16(lnAtoi(f[5])), Reserved: uint16(lnAtoi(f[6])), Index: uint32(lnAtoi(f[7]))}
	},
	inDomain: func(l gopacket.Layer, _ []byte) bool {
		e := l.(*layers.ERSPANII)
		return e.Version < 16 && e.CoS < 8 && e.TrunkEncap < 4 && e.VLANIdentifier < 4096 && e.SessionID < 1024 && e.Reserved < 4096 && e.Index < 1<<20
	},
}

func (letherip) Run(c Case) Result { return lmRun(letheripDesc, c) }
func (lfddi) Run(c Case) Result    { return lmRun(lfddiDesc, c) }
func (ludplite) Run(c Case) Result { return lmRun(ludpliteDesc, c) }
func (lerspan2) Run(c Case) Result { return lmRun(lerspan2Desc, c) }

// every value of octet k of an n-octet header, the others random
func lmEveryOctet(d *lmDesc, n int, octets []int, rt bool) func(rng *rand.Rand, add func(ops ...string)) {
	return func(rng *rand.Rand, add func(ops ...string)) {
		for _, k := range octets {
			for v := 0; v < 256; v++ {
				p := lnRandBytes(rng, n+lnPick(rng, 0, 1, 5))
				p[k] = byte(v)
				add("tag:octet-every-value", "dec:"+lnHex(p))
				if rt && v%4 == 0 {
					add("tag:octet-every-value", "rt:"+lnHex(p)+","+lnHex(lnRandBytes(rng, 3)))
				}
				if d.decode != nil && v%16 == 0 {
					add("tag:octet-every-value", "dec2:"+lnHex(lnRandBytes(rng, n+2))+","+lnHex(p))
				}
			}
		}
	}
}

func lmHdrGen(n int) func(rng *rand.Rand) []byte {
	return func(rng *rand.Rand) []byte {
		h := lnRandBytes(rng, n)
		if rng.Intn(4) == 0 {
			for i := range h {
				h[i] = byte(lnPick(rng, 0, 0xff))
			}
		}
		return append(h, lnRandBytes(rng, lnPick(rng, 0, 1, 14, 33))...)
	}
}

func (letherip) Gen(rng *rand.Rand, tier string) []Case {
	return lmGen(letheripDesc, lmGenCfg{valid: lmHdrGen(2), hdrLen: func([]byte) int { return 2 }, seeds: lmIPSeeds(97),
		extra: lmEveryOctet(letheripDesc, 2, []int{0, 1}, false)}, rng, tier)
}
func (lfddi) Gen(rng *rand.Rand, tier string) []Case {
	return lmGen(lfddiDesc, lmGenCfg{valid: lmHdrGen(13), hdrLen: func([]byte) int { return 13 }, extra: lmEveryOctet(lfddiDesc, 13, []int{0}, false)}, rng, tier)
}
func (ludplite) Gen(rng *rand.Rand, tier string) []Case {
	return lmGen(ludpliteDesc, lmGenCfg{valid: lmHdrGen(8), hdrLen: func([]byte) int { return 8 }, seeds: lmIPSeeds(136),
		extra: lmEveryOctet(ludpliteDesc, 8, []int{0, 4}, false)}, rng, tier)
}
func (lerspan2) Gen(rng *rand.Rand, tier string) []Case {
	return lmGen(lerspan2Desc, lmGenCfg{valid: lmHdrGen(8), hdrLen: func([]byte) int { return 8 },
		spec: func(rng *rand.Rand) string {
			return fmt.Sprintf("%d.%d.%d.%d.%d.%d.%d.%d", rng.Intn(2), lnPick(rng, 1, 0, 15, 16, 255), lnPick(rng, 0, 7, 8, 255), lnPick(rng, 0, 3, 4, 255), lnPick(rng, 0, 1, 4095, 4096, 65535),
				lnPick(rng, 0, 1, 1023, 1024, 65535), lnPick(rng, 0, 4095, 4096, 65535), lnPick(rng, 0, 1, 1<<20-1, 1<<20, 1<<32-1))
		},
		extra: lmEveryOctet(lerspan2Desc, 8, []int{0, 2, 4, 5}, true)}, rng, tier)
}
