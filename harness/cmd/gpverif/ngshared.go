package main

// Shared by the sub-checks C14ng and C15ng: an independent pcapng builder that records where every
// field lies (for systematic mutation), the session runner that drives the real NgReader, and the
// renderers of the observation lines.

import (
	"bytes"
	"encoding/binary"
	"encoding/hex"
	"errors"
	"fmt"
	"io"
	"os"
	"path/filepath"
	"runtime"
	"sort"
	"strconv"
	"strings"
	"time"

	"github.com/gopacket/gopacket"
	"github.com/gopacket/gopacket/layers"
	"github.com/gopacket/gopacket/pcapgo"
)

func ngRepoDir() string {
	if d := os.Getenv("VERIF_REPO"); d != "" {
		return d
	}
	return "/repo"
}

// ---------------------------------------------------------------- builder with field map

type ngField struct {
	Off, Size int
	Class     string // blocklen, blocktype, optcode, optlen, tsresol, tsoff, caplen, origlen, ifid, ts, snaplen, linktype, bom, version, reclen, rectype, secretslen, optval
}

type ngBuilder struct {
	buf    []byte
	fields []ngField
	bo     binary.ByteOrder
}

func newNgBuilder(big bool) *ngBuilder {
	if big {
		return &ngBuilder{bo: binary.BigEndian}
	}
	return &ngBuilder{bo: binary.LittleEndian}
}

func (b *ngBuilder) u16(v uint16, class string) {
	b.fields = append(b.fields, ngField{len(b.buf), 2, class})
	var t [2]byte
	b.bo.PutUint16(t[:], v)
	b.buf = append(b.buf, t[:]...)
}
func (b *ngBuilder) u32(v uint32, class string) {
	b.fields = append(b.fields, ngField{len(b.buf), 4, class})
	var t [4]byte
	b.bo.PutUint32(t[:], v)
	b.buf = append(b.buf, t[:]...)
}
func (b *ngBuilder) raw(v []byte, class string) {
	if class != "" && len(v) > 0 {
		b.fields = append(b.fields, ngField{len(b.buf), len(v), class})
	}
	b.buf = append(b.buf, v...)
}
func (b *ngBuilder) pad() {
	for len(b.buf)%4 != 0 {
		b.buf = append(b.buf, 0)
	}
}

type ngOpt struct {
	Code uint16
	Val  []byte
}

func (b *ngBuilder) opts(os []ngOpt, eoo bool) {
	for _, o := range os {
		b.u16(o.Code, "optcode")
		b.u16(uint16(len(o.Val)), "optlen")
		cl := "optval"
		if o.Code == 9 && len(o.Val) == 1 {
			cl = "tsresol"
		}
		if o.Code == 14 {
			cl = "tsoff"
		}
		b.raw(o.Val, cl)
		b.pad()
	}
	if eoo {
		b.u16(0, "optcode")
		b.u16(0, "optlen")
	}
}

// block wraps body(): type, total length, body, total length
func (b *ngBuilder) block(typ uint32, body func()) {
	start := len(b.buf)
	b.u32(typ, "blocktype")
	lenOff := len(b.buf)
	b.u32(0, "blocklen")
	body()
	b.pad()
	total := uint32(len(b.buf) - start + 4)
	b.bo.PutUint32(b.buf[lenOff:], total)
	b.u32(total, "blocklen2")
}

func (b *ngBuilder) shb(os []ngOpt) {
	b.block(0x0A0D0D0A, func() {
		b.u32(0x1A2B3C4D, "bom")
		b.u16(1, "version")
		b.u16(0, "version")
		b.raw([]byte{0xff, 0xff, 0xff, 0xff, 0xff, 0xff, 0xff, 0xff}, "")
		b.opts(os, len(os) > 0)
	})
}
func (b *ngBuilder) idb(link uint16, snap uint32, os []ngOpt) {
	b.block(1, func() {
		b.u16(link, "linktype")
		b.u16(0, "")
		b.u32(snap, "snaplen")
		b.opts(os, len(os) > 0)
	})
}
func (b *ngBuilder) epb(ifid uint32, ts uint64, caplen, origlen uint32, data []byte, os []ngOpt, eoo bool) {
	b.block(6, func() {
		b.u32(ifid, "ifid")
		b.u32(uint32(ts>>32), "ts")
		b.u32(uint32(ts), "ts")
		b.u32(caplen, "caplen")
		b.u32(origlen, "origlen")
		b.raw(data, "")
		b.pad()
		b.opts(os, eoo)
	})
}
func (b *ngBuilder) pb(ifid uint16, ts uint64, caplen, origlen uint32, data []byte) {
	b.block(2, func() {
		b.u16(ifid, "ifid")
		b.u16(0, "")
		b.u32(uint32(ts>>32), "ts")
		b.u32(uint32(ts), "ts")
		b.u32(caplen, "caplen")
		b.u32(origlen, "origlen")
		b.raw(data, "")
	})
}
func (b *ngBuilder) spb(origlen uint32, data []byte) {
	b.block(3, func() {
		b.u32(origlen, "origlen")
		b.raw(data, "")
	})
}
func (b *ngBuilder) isb(ifid uint32, ts uint64, os []ngOpt) {
	b.block(5, func() {
		b.u32(ifid, "ifid")
		b.u32(uint32(ts>>32), "ts")
		b.u32(uint32(ts), "ts")
		b.opts(os, len(os) > 0)
	})
}

type ngNameRec struct {
	Type uint16
	Val  []byte
}

func (b *ngBuilder) nrb(recs []ngNameRec, end bool) {
	b.block(4, func() {
		for _, r := range recs {
			b.u16(r.Type, "rectype")
			b.u16(uint16(len(r.Val)), "reclen")
			b.raw(r.Val, "")
			b.pad()
		}
		if end {
			b.u16(0, "rectype")
			b.u16(0, "reclen")
		}
	})
}
func (b *ngBuilder) dsb(typ uint32, payload []byte) {
	b.block(10, func() {
		b.u32(typ, "")
		b.u32(uint32(len(payload)), "secretslen")
		b.raw(payload, "")
	})
}
func (b *ngBuilder) other(typ uint32, body []byte) {
	b.block(typ, func() { b.raw(body, "") })
}

// ngWalkBlocks returns the end offsets of the well-formed blocks of a file (independent of the reader)
// and, per block, its type.  It stops at the first block that does not fit.
func ngWalkBlocks(f []byte) (ends []int, types []uint32) {
	var bo binary.ByteOrder = binary.LittleEndian
	off := 0
	for off+12 <= len(f) {
		t := bo.Uint32(f[off:])
		if t == 0x0A0D0D0A {
			if off+12 > len(f) {
				return
			}
			if binary.BigEndian.Uint32(f[off+8:]) == 0x1A2B3C4D {
				bo = binary.BigEndian
			} else if binary.LittleEndian.Uint32(f[off+8:]) == 0x1A2B3C4D {
				bo = binary.LittleEndian
			} else {
				return
			}
		}
		t = bo.Uint32(f[off:])
		l := int(bo.Uint32(f[off+4:]))
		if l < 12 || l%4 != 0 || off+l > len(f) {
			return
		}
		off += l
		ends = append(ends, off)
		types = append(types, t)
	}
	return
}

// ---------------------------------------------------------------- golden files (read from the repository at run time)

type ngGolden struct {
	Name string
	Data []byte
	Big  bool
}

func ngGoldenFiles() []ngGolden {
	var out []ngGolden
	for _, sub := range []string{"le", "be"} {
		m, _ := filepath.Glob(filepath.Join(ngRepoDir(), "pcapgo", "tests", sub, "*.pcapng"))
		sort.Strings(m)
		for _, p := range m {
			d, err := os.ReadFile(p)
			if err == nil {
				out = append(out, ngGolden{sub + "/" + filepath.Base(p), d, sub == "be"})
			}
		}
	}
	return out
}

// ---------------------------------------------------------------- rendering

func hx(b []byte) string { return hex.EncodeToString(b) }

func ngClass(err error) string {
	switch {
	case err == nil:
		return "ok"
	case err == io.EOF:
		return "eof"
	case errors.Is(err, io.ErrUnexpectedEOF):
		return "ueof"
	default:
		return "err"
	}
}

func ngTime(t time.Time) string {
	return strconv.FormatInt(t.Unix(), 16) + "." + strconv.Itoa(t.Nanosecond())
}

func ngOptsString(o pcapgo.NgPacketOptions) string {
	var it []string
	for _, c := range o.Comments {
		it = append(it, "c."+hx([]byte(c)))
	}
	if o.Flags != nil {
		it = append(it, fmt.Sprintf("f.%d.%d.%d.%d", uint32(o.Flags.Direction), uint32(o.Flags.Reception), uint32(o.Flags.FCSLen), uint32(o.Flags.LinkLayerErr)))
	}
	for _, h := range o.Hashes {
		it = append(it, fmt.Sprintf("h.%d.%s", uint8(h.Algorithm), hx(h.Hash)))
	}
	if o.DropCount != nil {
		it = append(it, "d."+strconv.FormatUint(*o.DropCount, 16))
	}
	if o.PacketID != nil {
		it = append(it, "p."+strconv.FormatUint(*o.PacketID, 16))
	}
	if o.Queue != nil {
		it = append(it, "q."+strconv.FormatUint(uint64(*o.Queue), 10))
	}
	for _, v := range o.Verdicts {
		it = append(it, fmt.Sprintf("v.%d.%s", uint8(v.Type), hx(v.Data)))
	}
	if len(it) == 0 {
		return "-"
	}
	return strings.Join(it, "/")
}

func ngPktLine(data []byte, ci gopacket.CaptureInfo, o pcapgo.NgPacketOptions) string {
	anc := -1
	if len(ci.AncillaryData) > 0 {
		anc = ngAncil(ci.AncillaryData[0])
	}
	return fmt.Sprintf("pkt=ok;if=%d;ts=%s;cap=%d;len=%d;anc=%d;dlen=%d;data=%s;opts=%s",
		ci.InterfaceIndex, ngTime(ci.Timestamp), ci.CaptureLength, ci.Length, anc, len(data), hx(data), ngOptsString(o))
}

func ngStateLines(r *pcapgo.NgReader) []string {
	si := r.SectionInfo()
	var names []string
	for i := 0; i < r.NNames(); i++ {
		n, _ := r.Name(i)
		var ns []string
		for _, s := range n.Names {
			ns = append(ns, hx([]byte(s)))
		}
		al := -1
		if n.Addr != nil {
			al = n.Addr.Len()
		}
		names = append(names, fmt.Sprintf("%d:%s", al, strings.Join(ns, "|")))
	}
	out := []string{fmt.Sprintf("state;link=%d;nif=%d;sec=%s,%s,%s,%s;names=%s", int(r.LinkType()), r.NInterfaces(),
		hx([]byte(si.Hardware)), hx([]byte(si.OS)), hx([]byte(si.Application)), hx([]byte(si.Comment)), strings.Join(names, ","))}
	for i := 0; i < r.NInterfaces(); i++ {
		f, _ := r.Interface(i)
		st := f.Statistics
		out = append(out, fmt.Sprintf("iface=%d;name=%s;comment=%s;descr=%s;filter=%s;os=%s;link=%d;tsres=%d;tsoff=%s;snap=%d;last=%s;start=%s;end=%s;scomment=%s;recv=%s;drop=%s",
			i, hx([]byte(f.Name)), hx([]byte(f.Comment)), hx([]byte(f.Description)), hx([]byte(f.Filter)), hx([]byte(f.OS)),
			int(f.LinkType), uint8(f.TimestampResolution), strconv.FormatUint(f.TimestampOffset, 16), f.SnapLength,
			ngTime(st.LastUpdate), ngTime(st.StartTime), ngTime(st.EndTime), hx([]byte(st.Comment)),
			strconv.FormatUint(st.PacketsReceived, 16), strconv.FormatUint(st.PacketsDropped, 16)))
	}
	return out
}

// ---------------------------------------------------------------- session

type ngReadOpts struct {
	Mixed, ErrMis, SkipVer, ZeroCopy bool
}

func parseRo(s string) (o ngReadOpts) {
	if len(s) >= 3 {
		o.Mixed, o.ErrMis, o.SkipVer = s[0] == '1', s[1] == '1', s[2] == '1'
	}
	return
}

type ngPacket struct {
	Data []byte
	CI   gopacket.CaptureInfo
	Opts pcapgo.NgPacketOptions
	Line string
}

type ngSessionResult struct {
	New     string // class of NewNgReader
	NewLine string
	Pkts    []ngPacket
	End     string
	State   []string
	Shape   []string // C15:shape failures
	Allocs  []string // C15:alloc failures
	Later   []string // C14:later-read-alters-earlier failures
	Reader  *pcapgo.NgReader
}

func (r *ngSessionResult) Lines() []string {
	out := []string{r.NewLine}
	if r.New != "ok" {
		return out
	}
	for _, p := range r.Pkts {
		out = append(out, p.Line)
	}
	out = append(out, "end="+r.End)
	return append(out, r.State...)
}

// ngSession drives NewNgReader and the read call until the first non-ok result.  allocBound < 0
// disables the allocation measurement; otherwise a call allocating more than
// allocBound + (largest declared snap length) is reported.
func ngSession(rd io.Reader, ro ngReadOpts, allocBound int64) (res *ngSessionResult) {
	res = &ngSessionResult{}
	var m0, m1 runtime.MemStats
	measure := func(call string, f func()) {
		if allocBound < 0 {
			f()
			return
		}
		runtime.ReadMemStats(&m0)
		f()
		runtime.ReadMemStats(&m1)
		snap := int64(0)
		if res.Reader != nil {
			for i := 0; i < res.Reader.NInterfaces(); i++ {
				if f, err := res.Reader.Interface(i); err == nil && int64(f.SnapLength) > snap {
					snap = int64(f.SnapLength)
				}
			}
		}
		if d := int64(m1.TotalAlloc - m0.TotalAlloc); d > allocBound+snap {
			res.Allocs = append(res.Allocs, fmt.Sprintf("%s allocated=%d bound=%d", call, d, allocBound+snap))
		}
	}
	var r *pcapgo.NgReader
	var err error
	panicked := false
	measure("NewNgReader", func() {
		defer func() {
			if x := recover(); x != nil {
				panicked = true
			}
		}()
		r, err = pcapgo.NewNgReader(rd, pcapgo.NgReaderOptions{WantMixedLinkType: ro.Mixed, ErrorOnMismatchingLinkType: ro.ErrMis, SkipUnknownVersion: ro.SkipVer})
	})
	if panicked {
		res.New, res.NewLine = "panic", "new=panic"
		return
	}
	res.New = ngClass(err)
	res.NewLine = "new=" + res.New
	if err != nil {
		return
	}
	res.Reader = r
	for i := 0; ; i++ {
		var data []byte
		var ci gopacket.CaptureInfo
		var o pcapgo.NgPacketOptions
		measure(fmt.Sprintf("read#%d", i), func() {
			defer func() {
				if x := recover(); x != nil {
					panicked = true
				}
			}()
			if ro.ZeroCopy {
				data, ci, o, err = r.ZeroCopyReadPacketDataWithOptions()
			} else {
				data, ci, o, err = r.ReadPacketDataWithOptions()
			}
		})
		if panicked {
			res.End = "panic"
			return
		}
		if err != nil {
			res.End = ngClass(err)
			break
		}
		if len(data) != ci.CaptureLength || ci.CaptureLength > ci.Length {
			res.Shape = append(res.Shape, fmt.Sprintf("read#%d len(data)=%d caplen=%d len=%d", i, len(data), ci.CaptureLength, ci.Length))
		}
		line := ngPktLine(data, ci, o)
		if ro.ZeroCopy {
			// the zero-copy call reuses its buffers: what it returned is only valid until the next call
			ci.AncillaryData = append([]interface{}(nil), ci.AncillaryData...)
			data = append([]byte(nil), data...)
		}
		// a copying call hands out values: they are KEPT as returned (no deep copy) and looked at
		// again after the last read
		res.Pkts = append(res.Pkts, ngPacket{data, ci, o, line})
	}
	if !ro.ZeroCopy {
		for i := range res.Pkts {
			p := &res.Pkts[i]
			if now := ngPktLine(p.Data, p.CI, p.Opts); now != p.Line {
				res.Later = append(res.Later, fmt.Sprintf("packet %d kept from its copying read changed after later reads: was %.120s now %.120s", i, p.Line, now))
			}
		}
	}
	func() {
		defer func() {
			if x := recover(); x != nil {
				res.State = []string{"state=panic"}
			}
		}()
		res.State = ngStateLines(r)
	}()
	return
}

func ngAncil(v interface{}) int {
	if lt, ok := v.(layers.LinkType); ok {
		return int(lt)
	}
	return -2
}

// ---------------------------------------------------------------- adversarial readers

type ngInjected struct{}

func (ngInjected) Error() string { return "injected I/O error" }

// ngChunkReader delivers data in chunks of the given sizes (cycled), and after failAt bytes (if >= 0)
// returns an injected error; with dataErr the error accompanies the last bytes.
type ngChunkReader struct {
	data    []byte
	pos     int
	sizes   []int
	k       int
	failAt  int
	dataErr bool
}

func (c *ngChunkReader) Read(p []byte) (int, error) {
	limit := len(c.data)
	if c.failAt >= 0 && c.failAt < limit {
		limit = c.failAt
	}
	if c.pos >= limit {
		if c.failAt >= 0 {
			return 0, ngInjected{}
		}
		return 0, io.EOF
	}
	n := len(p)
	if len(c.sizes) > 0 {
		if s := c.sizes[c.k%len(c.sizes)]; s < n {
			n = s
		}
		c.k++
	}
	if n > limit-c.pos {
		n = limit - c.pos
	}
	copy(p, c.data[c.pos:c.pos+n])
	c.pos += n
	if c.dataErr && c.pos >= limit {
		if c.failAt >= 0 {
			return n, ngInjected{}
		}
		return n, io.EOF
	}
	return n, nil
}

var _ = bytes.NewReader
