package main

// Lip6, kinds frag and rtg: IPv6Fragment and IPv6Routing (decode functions + SerializeTo).
// They are decoded through gopacket.NewPacket (lazy, no copy, recovery off) with the layer type as
// first decoder; only the first layer is looked at.
//   fields: frag  next.res1.off.res2.more.id ;  rtg  next.hlen.alen.type.segleft.reshex.ip|ip|...

import (
	"fmt"
	"math/rand"
	"net"
	"strings"

	"github.com/gopacket/gopacket"
	"github.com/gopacket/gopacket/layers"
)

func lip6xDecode(k string, data []byte) (cls string, trunc bool, l gopacket.Layer) {
	lt := layers.LayerTypeIPv6Fragment
	if k == "rtg" {
		lt = layers.LayerTypeIPv6Routing
	}
	cls = n6decode(func() error {
		p := gopacket.NewPacket(data, lt, gopacket.DecodeOptions{Lazy: true, NoCopy: true, SkipDecodeRecovery: true})
		l = p.Layer(lt)
		trunc = p.Metadata().Truncated
		if l == nil {
			return fmt.Errorf("not decoded")
		}
		return nil
	})
	return
}

func lip6xState(k string, l gopacket.Layer) string {
	if k == "frag" {
		f, _ := l.(*layers.IPv6Fragment)
		if f == nil {
			f = &layers.IPv6Fragment{}
		}
		return fmt.Sprintf("next=%d;res1=%d;off=%d;res2=%d;more=%d;id=%d;c=%s;p=%s", uint8(f.NextHeader), f.Reserved1, f.FragmentOffset,
			f.Reserved2, n6b2i(f.MoreFragments), f.Identification, n6hex(f.Contents), n6big(f.Payload))
	}
	r, _ := l.(*layers.IPv6Routing)
	if r == nil {
		r = &layers.IPv6Routing{}
	}
	var ips []string
	for _, ip := range r.SourceRoutingIPs {
		ips = append(ips, n6hex(ip))
	}
	return fmt.Sprintf("next=%d;hlen=%d;alen=%d;type=%d;segleft=%d;res=%s;ips=%s;c=%s;p=%s", uint8(r.NextHeader), r.HeaderLength, r.ActualLength,
		r.RoutingType, r.SegmentsLeft, n6hex(r.Reserved), strings.Join(ips, "|"), n6hex(r.Contents), n6big(r.Payload))
}

// the fields the wire format carries
func lip6xC06(k string, l gopacket.Layer) string {
	s := lip6xState(k, l)
	s = s[:strings.Index(s, ";c=")]
	if k == "rtg" { // HeaderLength/ActualLength are recomputed by the serializer, not fields of the value
		parts := strings.Split(s, ";")
		s = strings.Join(append(parts[:1], parts[3:]...), ";")
	}
	return s
}

func lip6xBuild(k, fields string) gopacket.SerializableLayer {
	f := strings.Split(fields, ".")
	if k == "frag" {
		return &layers.IPv6Fragment{NextHeader: layers.IPProtocol(n6atoi(f[0])), Reserved1: uint8(n6atoi(f[1])), FragmentOffset: uint16(n6atoi(f[2])),
			Reserved2: uint8(n6atoi(f[3])), MoreFragments: f[4] == "1", Identification: uint32(n6atoi(f[5]))}
	}
	r := &layers.IPv6Routing{RoutingType: uint8(n6atoi(f[3])), SegmentsLeft: uint8(n6atoi(f[4]))}
	r.NextHeader = layers.IPProtocol(n6atoi(f[0]))
	r.HeaderLength = uint8(n6atoi(f[1]))
	r.ActualLength = n6atoi(f[2])
	if f[5] != "" {
		r.Reserved = n6unhex(f[5])
	}
	if f[6] != "" {
		for _, h := range strings.Split(f[6], "|") {
			var ip net.IP
			if h != "-" {
				ip = net.IP(n6unhex(h))
			}
			r.SourceRoutingIPs = append(r.SourceRoutingIPs, ip)
		}
	}
	return r
}

// lip6xRun handles one op of kind frag/rtg; returns false for other kinds.
func lip6xRun(name string, a []string, op string, res *Result, tags map[string]bool) bool {
	if len(a) == 0 || (a[0] != "frag" && a[0] != "rtg") {
		return false
	}
	k := a[0]
	render := func(l gopacket.Layer) string {
		if l == nil {
			return "render=ok,ok,ok"
		}
		return "render=" + strings.Join(n6layerRender(l), ",")
	}
	switch name {
	case "dec":
		cls, tr, l := lip6xDecode(k, n6unhex(a[1]))
		rend := render(l)
		res.Obs = append(res.Obs, fmt.Sprintf("cls=%s;trunc=%d;%s;%s", cls, n6b2i(tr), lip6xState(k, l), rend))
		if cls == "panic" || cls == "stuck" {
			res.Oracle = append(res.Oracle, n6oracle("C19:"+cls, "%s decode: %s on %s", k, cls, a[1]))
		}
		if strings.Contains(rend, "panic") {
			res.Oracle = append(res.Oracle, n6oracle("C01:render", "%s renderer panics after decoding %s", k, a[1]))
		}
		if cls == "err" && tr {
			tags["truncated-prefix-of-valid"] = true
		}
		tags["ext-"+k] = true
	case "ser", "nser":
		var fcd string
		var payload []byte
		var mk func() gopacket.SerializableLayer
		if name == "ser" {
			fcd, payload = a[2], n6payload(a[3])
			data := n6unhex(a[1])
			mk = func() gopacket.SerializableLayer {
				_, _, l := lip6xDecode(k, n6clip(data))
				if sl, ok := l.(gopacket.SerializableLayer); ok && l != nil {
					return sl
				}
				if k == "frag" {
					return &layers.IPv6Fragment{}
				}
				return &layers.IPv6Routing{}
			}
		} else {
			fcd, payload = a[1], n6payload(a[2])
			mk = func() gopacket.SerializableLayer { return lip6xBuild(k, a[3]) }
		}
		fix, csum, mode := n6flags(fcd)
		o := mk()
		cls, out := n6serialize(o, payload, fix, csum, mode)
		res.Obs = append(res.Obs, fmt.Sprintf("cls=%s;out=%s", cls, n6big(out)))
		if cls == "panic" {
			res.Oracle = append(res.Oracle, n6oracle("C07:panic", "%s SerializeTo panics: %s", k, op[:min(len(op), 300)]))
		}
		for m := 0; m < 3; m++ {
			o2 := mk()
			cls2, out2 := n6serialize(o2, payload, fix, csum, m)
			if cls2 != cls || string(out2) != string(out) {
				res.Oracle = append(res.Oracle, n6oracle("C07:junk-dependence", "%s buffer mode %d gives %s %s, mode %d gives %s %s", k, mode, cls, n6big(out), m, cls2, n6big(out2)))
				break
			}
			cls3, out3 := n6serialize(o2, payload, fix, csum, m)
			if cls3 != cls2 || string(out3) != string(out2) {
				res.Oracle = append(res.Oracle, n6oracle("C07:repeat", "%s second SerializeTo differs", k))
				break
			}
		}
		if mode == 1 {
			tags["dirty-buffer"] = true
		}
		tags["ext-"+k] = true
	case "rt", "nrt":
		var payload []byte
		var o gopacket.SerializableLayer
		var ol gopacket.Layer
		first := "ok"
		if name == "rt" {
			payload = n6payload(a[2])
			var l gopacket.Layer
			first, _, l = lip6xDecode(k, n6unhex(a[1]))
			if l != nil {
				o, ol = l.(gopacket.SerializableLayer), l
			} else if k == "frag" {
				f := &layers.IPv6Fragment{}
				o, ol = f, f
			} else {
				r := &layers.IPv6Routing{}
				o, ol = r, r
			}
		} else {
			payload = n6payload(a[1])
			o = lip6xBuild(k, a[2])
			ol = o.(gopacket.Layer)
		}
		scls, out := n6serialize(o, payload, true, true, 0)
		cls2, tr2 := "err", false
		var l2 gopacket.Layer
		if scls == "ok" {
			cls2, tr2, l2 = lip6xDecode(k, n6clip(out))
		}
		res.Obs = append(res.Obs, fmt.Sprintf("scls=%s;cls=%s;trunc=%d;%s;%s", scls, cls2, n6b2i(tr2), lip6xState(k, l2), render(l2)))
		if scls == "panic" {
			res.Oracle = append(res.Oracle, n6oracle("C07:panic", "%s SerializeTo panics: %s", k, op[:min(len(op), 300)]))
		}
		if first == "ok" && scls == "err" {
			res.Oracle = append(res.Oracle, n6oracle("C06:serialize-error", "%s SerializeTo fails on a decoded / in-range value", k))
		}
		if first == "ok" && scls == "ok" {
			var p2 []byte
			if l2 != nil {
				p2 = l2.LayerPayload()
			}
			if cls2 != "ok" || tr2 || lip6xC06(k, l2) != lip6xC06(k, ol) || string(p2) != string(payload) {
				res.Oracle = append(res.Oracle, n6oracle("C06:roundtrip", "%s wrote %s; got %s trunc=%d %s payload %s; want %s payload %s", k, n6big(out), cls2, n6b2i(tr2),
					lip6xC06(k, l2), n6big(p2), lip6xC06(k, ol), n6big(payload)))
			} else if cls3, out3 := n6serialize(l2.(gopacket.SerializableLayer), payload, true, true, 0); cls3 != "ok" || string(out3) != string(out) {
				res.Oracle = append(res.Oracle, n6oracle("C06:fixpoint", "%s re-serializing the decoded layer gives %s %s, first %s", k, cls3, n6big(out3), n6big(out)))
			}
		}
		tags["ext-"+k] = true
	default:
		return false
	}
	return true
}

func lip6xGen(rng *rand.Rand, scale int, add func(ops ...string)) {
	// fragments
	for rep := 0; rep < 12*scale; rep++ {
		b := n6randBytes(rng, 8)
		pl := n6randBytes(rng, n6pick(rng, 0, 1, 8, 33))
		full := append(append([]byte(nil), b...), pl...)
		add("dec:frag," + n6hex(full))
		add(fmt.Sprintf("rt:frag,%s,%s", n6hex(full), lip6Payload(rng)))
		add(fmt.Sprintf("ser:frag,%s,%d%d%d,%s", n6hex(full), rng.Intn(2), rng.Intn(2), rng.Intn(3), lip6Payload(rng)))
		if rep < 2 {
			for cut := 1; cut < 8; cut++ { // NewPacket does not call a decoder on empty data
				add("dec:frag," + n6hex(b[:cut]))
				add(fmt.Sprintf("ser:frag,%s,001,", n6hex(b[:cut])))
			}
		}
		inr := rng.Intn(2) == 0
		off, r2 := rng.Intn(8192), rng.Intn(4)
		if !inr {
			off, r2 = n6pick(rng, 8191, 8192, 65535), n6pick(rng, 3, 4, 255)
		}
		f := fmt.Sprintf("%d.%d.%d.%d.%d.%d", rng.Intn(256), rng.Intn(256), off, r2, rng.Intn(2), rng.Uint32())
		if inr {
			add(fmt.Sprintf("nrt:frag,%s,%s", lip6Payload(rng), f))
		}
		add(fmt.Sprintf("nser:frag,%d%d%d,%s,%s", rng.Intn(2), rng.Intn(2), rng.Intn(3), lip6Payload(rng), f))
	}
	for _, s := range n6seedLayers(layers.LayerTypeIPv6Fragment) {
		add("dec:frag," + n6hex(s))
		add(fmt.Sprintf("rt:frag,%s,%s", n6hex(s), n6hex(s[min(8, len(s)):])))
	}
	// routing headers
	mkRtg := func(n int, typ byte) []byte {
		b := []byte{byte(n6pick(rng, 6, 17, 58, 59, 43)), byte(2 * n), typ, byte(rng.Intn(256))}
		b = append(b, n6randBytes(rng, 4+16*n)...)
		return b
	}
	for rep := 0; rep < 10*scale; rep++ {
		n := rng.Intn(4)
		b := mkRtg(n, 0)
		pl := n6randBytes(rng, n6pick(rng, 0, 1, 9))
		full := append(append([]byte(nil), b...), pl...)
		add("dec:rtg," + n6hex(full))
		add(fmt.Sprintf("rt:rtg,%s,%s", n6hex(full), lip6Payload(rng)))
		add(fmt.Sprintf("ser:rtg,%s,%d%d%d,%s", n6hex(full), rng.Intn(2), rng.Intn(2), rng.Intn(3), lip6Payload(rng)))
		if rep < 3 {
			for cut := 1; cut < len(b); cut++ {
				add("dec:rtg," + n6hex(b[:cut]))
			}
		}
		for _, v := range []int{0, 1, 255, int(b[1]) + 1, int(b[1]) - 1} { // header length
			m := append([]byte(nil), full...)
			m[1] = byte(v)
			add("dec:rtg," + n6hex(m))
		}
		for _, v := range []byte{1, 2, 4, 255} { // routing type
			m := append([]byte(nil), full...)
			m[2] = v
			add("dec:rtg," + n6hex(m))
			add(fmt.Sprintf("ser:rtg,%s,001,", n6hex(m)))
		}
		// built values: reserved and addresses of every length
		var ips []string
		inr := rng.Intn(2) == 0
		for i, c := 0, rng.Intn(4); i < c; i++ {
			l := 16
			if !inr {
				l = n6pick(rng, 0, 3, 4, 4, 15, 16, 17)
			}
			if l == 0 {
				ips = append(ips, "-")
			} else {
				ips = append(ips, n6hex(n6randBytes(rng, l)))
			}
		}
		rl := 4
		if !inr {
			rl = n6pick(rng, 0, 2, 4, 6)
		}
		f := fmt.Sprintf("%d.%d.%d.%d.%d.%s.%s", rng.Intn(256), rng.Intn(8), rng.Intn(64), 0, rng.Intn(256), n6hex(n6randBytes(rng, rl)), strings.Join(ips, "|"))
		if inr {
			add(fmt.Sprintf("nrt:rtg,%s,%s", lip6Payload(rng), f))
		}
		add(fmt.Sprintf("nser:rtg,%d%d%d,%s,%s", rng.Intn(2), rng.Intn(2), rng.Intn(3), lip6Payload(rng), f))
		add(fmt.Sprintf("nser:rtg,001,,%s", f))
	}
	for _, s := range n6seedLayers(layers.LayerTypeIPv6Routing) {
		add("dec:rtg," + n6hex(s))
		add(fmt.Sprintf("rt:rtg,%s,", n6hex(s)))
	}
	add("dec:rtg," + n6hex(mkRtg(127, 0)))
	add(fmt.Sprintf("rt:rtg,%s,0102", n6hex(mkRtg(127, 0))))
}
