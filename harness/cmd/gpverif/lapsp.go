package main

// Lapsp: layers/apsp.go codec sub-check (C19, C05, C06, C07, C01 for APSP).
// Ops: dec dec2 ser rt (lmisc_common.go) plus new:/rtn: with <spec> = nh.hel.co.sdv.spi.iv.tok.vk.src.dst (64-bit fields in hex).
// APSP.LayerContents() re-encodes the fields; BaseLayer.Contents (the decoded octets) is observed as bc=.

import (
	"fmt"
	"math/rand"
	"strconv"
	"strings"

	"github.com/gopacket/gopacket"
	"github.com/gopacket/gopacket/layers"
)

type lapsp struct{}

func init() { register("Lapsp", lapsp{}) }

func apU64(s string) uint64 {
	v, err := strconv.ParseUint(s, 16, 64)
	if err != nil {
		panic("bad hex uint64 in case: " + s)
	}
	return v
}

var lapspDesc = &lmDesc{
	id: "Lapsp", name: "APSP", ser: true,
	fresh: func() gopacket.Layer { return &layers.APSP{} },
	decode: func(l gopacket.Layer, data []byte, fb gopacket.DecodeFeedback) error {
		return l.(*layers.APSP).DecodeFromBytes(data, fb)
	},
	fields: func(l gopacket.Layer) string {
		a := l.(*layers.APSP)
		return fmt.Sprintf("nh=%d;hel=%d;co=%d;sdv=%d;spi=%d;iv=%x;tok=%d;vk=%d;src=%x;dst=%x;bc=%s", a.NextHeader, a.HdrExtLen, a.CryptOffset, a.SDVersVirt,
			a.SecParamIdx, a.InitVector, a.SecTokenV2, a.VirtKey, a.SrcEndpointID, a.DstEndpointID, lnHex(a.BaseLayer.Contents))
	},
	rtFields: func(l gopacket.Layer) string {
		a := l.(*layers.APSP)
		return fmt.Sprintf("nh=%d;hel=%d;co=%d;sdv=%d;spi=%d;iv=%x;tok=%d;vk=%d;src=%x;dst=%x", a.NextHeader, a.HdrExtLen, a.CryptOffset, a.SDVersVirt,
			a.SecParamIdx, a.InitVector, a.SecTokenV2, a.VirtKey, a.SrcEndpointID, a.DstEndpointID)
	},
	next: lmNextConst(layers.LayerTypeIPv4, "ip4", func(l gopacket.Layer) gopacket.LayerType { return l.(*layers.APSP).NextLayerType() }),
	fromSpec: func(spec string) gopacket.Layer {
		f := strings.Split(spec, ".")
		return &layers.APSP{NextHeader: uint8(lnAtoi(f[0])), HdrExtLen: uint8(lnAtoi(f[1])), CryptOffset: uint8(lnAtoi(f[2])), SDVersVirt: uint8(lnAtoi(f[3])),
			SecParamIdx: uint32(lnAtoi(f[4])), InitVector: apU64(f[5]), SecTokenV2: uint32(lnAtoi(f[6])), VirtKey: uint32(lnAtoi(f[7])),
			SrcEndpointID: apU64(f[8]), DstEndpointID: apU64(f[9])}
	},
	extra: func(l gopacket.Layer) []func() {
		a := l.(*layers.APSP)
		return []func(){func() { v := *a; _ = gopacket.LayerString(v); _ = gopacket.LayerDump(v); _ = gopacket.LayerGoString(v); _ = v.LayerContents(); _ = v.LayerPayload(); _ = v.CanDecode() }}
	},
	tags: func(l gopacket.Layer, cls string, data []byte) []string {
		if cls == "ok" && len(data) == 40 {
			return []string{"empty-payload"}
		}
		return nil
	},
}

var lapspDecf = lsDecfCfg{d: lapspDesc, lt: layers.LayerTypeAPSP,
	conv: func(l gopacket.Layer) gopacket.Layer { // decodeAPSP adds the layer as a value
		if v, ok := l.(layers.APSP); ok {
			return &v
		}
		return l
	},
	next: func(l gopacket.Layer, b *lmBuilder) string {
		if b.next == gopacket.Decoder(layers.LayerTypeIPv4) {
			return "t4"
		}
		return fmt.Sprintf("other%v", b.next)
	}}

func (lapsp) Run(c Case) Result {
	if lsHasDecf(c) {
		return lsRunDecf(lapspDecf, c)
	}
	return lmRun(lapspDesc, c)
}

func apExt(rng *rand.Rand, n int) []byte {
	b := lnRandBytes(rng, n)
	switch rng.Intn(4) {
	case 0:
		for i := range b {
			b[i] = 0xff
		}
	case 1:
		for i := range b {
			b[i] = 0
		}
	}
	return b
}

func (lapsp) Gen(rng *rand.Rand, tier string) []Case {
	valid := func(rng *rand.Rand) []byte {
		h := []byte{byte(lnPick(rng, 4, 41, 0, 255)), byte(lnPick(rng, 1, 0, 255)), byte(rng.Intn(256)), byte(rng.Intn(256))}
		for _, n := range []int{4, 8, 4, 4, 8, 8} {
			h = append(h, apExt(rng, n)...)
		}
		return append(h, lnRandBytes(rng, lnPick(rng, 0, 1, 20, 33))...)
	}
	u64 := func() string {
		return fmt.Sprintf("%x", []uint64{0, 1, 1 << 32, 1<<32 - 1, 1<<63 - 1, 1 << 63, 1<<64 - 1, rng.Uint64()}[rng.Intn(8)])
	}
	u32 := func() int64 { return []int64{0, 1, 65535, 65536, 1<<31 - 1, 1 << 31, 1<<32 - 1, rng.Int63n(1 << 32)}[rng.Intn(8)] }
	g := lmGenCfg{
		valid:  valid,
		hdrLen: func(p []byte) int { if len(p) > 41 { return 41 }; return len(p) },
		spec: func(rng *rand.Rand) string {
			return fmt.Sprintf("%d.%d.%d.%d.%d.%s.%d.%d.%s.%s", lnPick(rng, 4, 41, 0, 255), lnPick(rng, 0, 1, 255), lnPick(rng, 0, 63, 64, 255), rng.Intn(256),
				u32(), u64(), u32(), u32(), u64(), u64())
		},
		seeds: lsUDPPayloads(1000),
		extra: func(rng *rand.Rand, add func(ops ...string)) {
			// each octet of the header set to 0x00, 0x80, 0xff in turn (every field's extreme values and byte order)
			base := valid(rng)
			for i := 0; i < 40; i++ {
				for _, v := range []byte{0x00, 0x80, 0xff} {
					p := lnCopy(base)
					p[i] = v
					add("tag:field-byte-extreme", "dec:"+lnHex(p))
					if v == 0xff {
						add("tag:field-byte-extreme", "rt:"+lnHex(p)+",4500")
						add("tag:field-byte-extreme", "dec2:"+lnHex(valid(rng))+","+lnHex(p))
					}
				}
			}
			// the registered decoder decodeAPSP (NilDecodeFeedback: the truncated flag does not reach the builder)
			for _, k := range []int{0, 1, 39, 40, 41, 60} {
				add("tag:length-extreme", "decf:"+lnHex(lnRandBytes(rng, k)))
			}
			for i := 0; i < 30; i++ {
				add("decf:" + lnHex(valid(rng)))
			}
			// lengths around the 40-octet bound
			for k := 36; k <= 44; k++ {
				add("tag:length-extreme", "dec:"+lnHex(lnRandBytes(rng, k)))
				add("tag:length-extreme", "dec2:"+lnHex(valid(rng))+","+lnHex(lnRandBytes(rng, k)))
				add("tag:length-extreme", "ser:"+lnHex(lnRandBytes(rng, k))+",111,45")
			}
		},
	}
	return lmGen(lapspDesc, g, rng, tier)
}
