package main

// Ldot11ctrl: the 802.11 control sub-layers (Dot11Ctrl and the nine control types) and Dot11WEP, and the layer chain of
// control, management and reserved-type frames up to the first layer of another family; see ldot11sub_common.go.

import "math/rand"

type ldot11ctrl struct{}

func init() { register("Ldot11ctrl", ldot11ctrl{}) }

func (ldot11ctrl) Run(c Case) Result { return sbRun("Ldot11ctrl", sbCtrlKinds, c) }
func (ldot11ctrl) Gen(rng *rand.Rand, tier string) []Case {
	return sbGen("Ldot11ctrl", sbCtrlKinds, func(ty int) bool { return ty&3 != 2 }, rng, tier)
}
