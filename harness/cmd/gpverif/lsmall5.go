package main

// Lpflog, Lprism, Lpktap: layers/pflog.go, layers/prism.go, layers/pktap.go decoder sub-checks (C19, C05, C01; none has a
// SerializeTo).  Ops: dec dec2.

import (
	"fmt"
	"math/rand"
	"strings"

	"github.com/gopacket/gopacket"
	"github.com/gopacket/gopacket/layers"
)

type lpflog struct{}
type lprism struct{}
type lpktap struct{}

func init() {
	register("Lpflog", lpflog{})
	register("Lprism", lprism{})
	register("Lpktap", lpktap{})
}

var lpflogDesc = &lmDesc{
	id: "Lpflog", name: "PFLog",
	fresh: func() gopacket.Layer { return &layers.PFLog{} },
	decode: func(l gopacket.Layer, data []byte, fb gopacket.DecodeFeedback) error {
		return l.(*layers.PFLog).DecodeFromBytes(data, fb)
	},
	fields: func(l gopacket.Layer) string {
		p := l.(*layers.PFLog)
		return fmt.Sprintf("len=%d;fam=%d;act=%d;rsn=%d;ifn=%s;rs=%s;rn=%d;srn=%d;uid=%d;pid=%d;ruid=%d;rpid=%d;dir=%d", p.Length, uint8(p.Family), p.Action, p.Reason,
			lnHex(p.IFName), lnHex(p.Ruleset), p.RuleNum, p.SubruleNum, p.UID, uint32(p.PID), p.RuleUID, uint32(p.RulePID), uint8(p.Direction))
	},
	next: func(l gopacket.Layer, _ *lmBuilder) string {
		switch t := l.(*layers.PFLog).NextLayerType(); t {
		case gopacket.LayerTypeZero:
			return "0"
		case layers.LayerTypeIPv4:
			return "4"
		case layers.LayerTypeIPv6:
			return "6"
		default:
			return fmt.Sprintf("other%d", t)
		}
	},
	extra: func(l gopacket.Layer) []func() {
		p := l.(*layers.PFLog)
		return []func(){func() { _ = p.Family.String() }}
	},
	tags: func(l gopacket.Layer, cls string, data []byte) []string {
		p := l.(*layers.PFLog)
		var t []string
		if cls == "ok" && p.Length < 61 {
			t = append(t, "length-below-header")
		}
		if cls == "ok" && p.Length%4 == 1 {
			t = append(t, "length-padded")
		}
		if cls == "err" && len(data) >= 61 {
			t = append(t, "error-after-fields-set")
		}
		return t
	},
}

func lprismVals(vs []layers.PrismValue) string {
	var sb strings.Builder
	for i, v := range vs {
		if i > 0 {
			sb.WriteByte('|')
		}
		fmt.Fprintf(&sb, "%d.%d.%d.%s", uint32(v.DID), v.Status, v.Length, lnHex(v.Data))
	}
	return sb.String()
}

var lprismDesc = &lmDesc{
	id: "Lprism", name: "PrismHeader",
	fresh: func() gopacket.Layer { return &layers.PrismHeader{} },
	decode: func(l gopacket.Layer, data []byte, fb gopacket.DecodeFeedback) error {
		return l.(*layers.PrismHeader).DecodeFromBytes(data, fb)
	},
	fields: func(l gopacket.Layer) string {
		p := l.(*layers.PrismHeader)
		return fmt.Sprintf("code=%d;len=%d;dev=%s;nv=%d;vals=%s", p.Code, p.Length, lnHex([]byte(p.DeviceName)), len(p.Values), lprismVals(p.Values))
	},
	next: lmNextConst(layers.LayerTypeDot11, "dot11", func(l gopacket.Layer) gopacket.LayerType { return l.(*layers.PrismHeader).NextLayerType() }),
	extra: func(l gopacket.Layer) []func() {
		p := l.(*layers.PrismHeader)
		return []func(){func() {
			for i := range p.Values {
				_, _ = p.Values[i].DID.String(), p.Values[i].IsSupplied()
			}
		}}
	},
	tags: func(l gopacket.Layer, cls string, data []byte) []string {
		p := l.(*layers.PrismHeader)
		var t []string
		if cls == "ok" && len(p.Values) > 0 {
			t = append(t, "values-present")
		}
		if cls == "err" && len(data) >= 24 {
			t = append(t, "error-after-fields-set")
		}
		if cls == "err" && len(p.Values) > 0 && p.Values[len(p.Values)-1].DID == 0 {
			t = append(t, "values-half-filled")
		}
		return t
	},
}

var lpktapDesc = &lmDesc{
	id: "Lpktap", name: "PktapV1",
	fresh: func() gopacket.Layer { return &layers.PktapV1{} },
	decode: func(l gopacket.Layer, data []byte, fb gopacket.DecodeFeedback) error {
		return l.(*layers.PktapV1).DecodeFromBytes(data, fb)
	},
	fields: func(l gopacket.Layer) string {
		p := l.(*layers.PktapV1)
		return fmt.Sprintf("hl=%d;rt=%d;dlt=%d;ifn=%s;fl=%d;pf=%d;llh=%d;llt=%d;pid=%d;cmd=%s;svc=%d;ift=%d;ifu=%d;epid=%d;ecmd=%s", p.HeaderLength, p.RecordType, p.DLT,
			lnHex([]byte(p.InterfaceName)), p.Flags, p.ProtocolFamily, p.LinkLayerHeaderLength, p.LinkLayerTrailerLength, p.PID, lnHex([]byte(p.CommandName)),
			uint32(p.ServiceClass), p.InterfaceType, p.InterfaceUnit, p.EffectivePID, lnHex([]byte(p.EffectiveCommandName)))
	},
	next: func(l gopacket.Layer, _ *lmBuilder) string {
		p := l.(*layers.PktapV1)
		if t := p.NextLayerType(); t != layers.LinkType(uint16(p.DLT)).LayerType() {
			return fmt.Sprintf("other%d", t)
		}
		return fmt.Sprint(uint16(p.DLT))
	},
	extra: func(l gopacket.Layer) []func() {
		p := l.(*layers.PktapV1)
		return []func(){func() { _, _, _ = p.String(), p.Direction().String(), p.ServiceClass.String() }}
	},
	tags: func(l gopacket.Layer, cls string, data []byte) []string {
		p := l.(*layers.PktapV1)
		var t []string
		if cls == "ok" && p.HeaderLength > 156 {
			t = append(t, "header-longer-than-fields")
		}
		if cls == "ok" && p.DLT > 65535 {
			t = append(t, "dlt-over-16-bits")
		}
		if cls == "err" && len(data) >= 156 {
			t = append(t, "error-after-fields-set")
		}
		return t
	},
}

func (lpflog) Run(c Case) Result { return lmRun(lpflogDesc, c) }
func (lprism) Run(c Case) Result { return lmRun(lprismDesc, c) }
func (lpktap) Run(c Case) Result { return lmRun(lpktapDesc, c) }

func lmPut16le(b []byte, v int) { b[0], b[1] = byte(v), byte(v>>8) }
func lmPut32le(b []byte, v int) { b[0], b[1], b[2], b[3] = byte(v), byte(v>>8), byte(v>>16), byte(v>>24) }

func (lpflog) Gen(rng *rand.Rand, tier string) []Case {
	build := func(rng *rand.Rand, ln int, extra int) []byte {
		h := lnRandBytes(rng, 61)
		h[0] = byte(ln)
		h[1] = byte(lnPick(rng, 2, 2, 24, 28, 30, 10, 0, 1, 255))
		h[60] = byte(lnPick(rng, 0, 1, 2, 3, 255))
		return append(h, lnRandBytes(rng, extra)...)
	}
	return lmGen(lpflogDesc, lmGenCfg{
		valid:   func(rng *rand.Rand) []byte { return build(rng, lnPick(rng, 61, 61, 61, 64, 0, 60), lnPick(rng, 3, 4, 20, 33)) },
		hdrLen:  func([]byte) int { return 64 },
		residue: func(rng *rand.Rand) []byte { return build(rng, 61, 8) },
		extra: func(rng *rand.Rand, add func(ops ...string)) {
			for _, extra := range []int{0, 1, 2, 3, 4, 10, 200} { // every length octet residue mod 4 around the end of the data
				for _, ln := range []int{0, 1, 2, 3, 4, 5, 57, 58, 60, 61, 62, 63, 64, 65, 61 + extra - 4, 61 + extra - 3, 61 + extra - 2, 61 + extra - 1, 61 + extra, 61 + extra + 1, 252, 253, 254, 255} {
					if ln < 0 || ln > 255 {
						continue
					}
					p := build(rng, ln, extra)
					add("tag:length-octet-extreme", "dec:"+lnHex(p))
					add("tag:length-octet-extreme", "dec2:"+lnHex(build(rng, 61, 8))+","+lnHex(p))
				}
			}
			for fam := 0; fam < 256; fam++ { // NextLayerType over every family octet
				p := build(rng, 61, 3)
				p[1] = byte(fam)
				add("tag:every-family", "dec:"+lnHex(p))
			}
		},
	}, rng, tier)
}

func (lprism) Gen(rng *rand.Rand, tier string) []Case {
	val := func(rng *rand.Rand, ln int) []byte {
		v := lnRandBytes(rng, 12)
		lmPut32le(v[0:], lnPick(rng, 0x10044, 0x01041, 0x20044, 0xA0044, 0, 0xffffffff))
		lmPut16le(v[4:], lnPick(rng, 0, 1, 1, 2))
		lmPut16le(v[6:], ln)
		return v
	}
	build := func(rng *rand.Rand, code int, ln int, lens []int, extra int) []byte {
		h := lnRandBytes(rng, 24)
		lmPut16le(h[0:], code)
		lmPut16le(h[4:], ln)
		for _, l := range lens {
			h = append(h, val(rng, l)...)
		}
		return append(h, lnRandBytes(rng, extra)...)
	}
	valid := func(rng *rand.Rand) []byte {
		k := lnPick(rng, 0, 1, 2, 10, 10)
		lens := make([]int, k)
		for i := range lens {
			lens[i] = lnPick(rng, 4, 4, 0, 1, 3)
		}
		return build(rng, lnPick(rng, 0x44, 0x41), 24+12*k, lens, lnPick(rng, 0, 1, 24, 33))
	}
	return lmGen(lprismDesc, lmGenCfg{
		valid:  valid,
		hdrLen: func(p []byte) int { return int(p[4]) | int(p[5])<<8 },
		extra: func(rng *rand.Rand, add func(ops ...string)) {
			two := func(p []byte) {
				add("tag:length-extreme", "dec:"+lnHex(p))
				add("tag:length-extreme", "dec2:"+lnHex(valid(rng))+","+lnHex(p))
			}
			for _, code := range []int{0x44, 0x41, 0, 0x45, 0x4400, 0xffff} {
				two(build(rng, code, 48, []int{4, 4}, 3))
			}
			for k := 0; k <= 3; k++ { // header length: below 24, every residue mod 12, one value less / more than present, beyond the data
				for d := -13; d <= 13; d++ {
					for _, extra := range []int{0, 5, 30} {
						lens := make([]int, k)
						for i := range lens {
							lens[i] = 4
						}
						if ln := 24 + 12*k + d; ln >= 0 {
							two(build(rng, 0x44, ln, lens, extra))
						}
					}
				}
			}
			for _, ln := range []int{0, 1, 23, 65535, 65532, 32768} {
				two(build(rng, 0x41, ln, []int{4}, 4))
			}
			for _, vl := range []int{0, 1, 3, 4, 5, 8, 12, 255, 256, 65535} { // value length against the 4 data octets of a value, at each position
				for pos := 0; pos < 3; pos++ {
					lens := []int{4, 4, 4}
					lens[pos] = vl
					two(build(rng, 0x44, 60, lens, 2))
				}
			}
			big := make([]int, 5459) // the largest header: 24 + 12*5459 = 65532
			if tier == "thorough" {
				two(build(rng, 0x44, 65532, big, 7))
				two(build(rng, 0x44, 65535, big, 7))
			}
			two(build(rng, 0x44, 24+12*300, big[:300], 7))
		},
	}, rng, tier)
}

func (lpktap) Gen(rng *rand.Rand, tier string) []Case {
	str := func(rng *rand.Rand, n int) []byte { // a name of 0..n octets, NUL padded or not terminated, sometimes with octets behind the NUL
		b := make([]byte, n)
		k := lnPick(rng, 0, 1, 3, 5, n-1, n)
		for i := 0; i < k; i++ {
			b[i] = byte(1 + rng.Intn(255))
		}
		if k+2 < n && rng.Intn(3) == 0 {
			b[k+1] = 'x'
		}
		return b
	}
	build := func(rng *rand.Rand, hl int, rt int, dlt int, extra int) []byte {
		h := lnRandBytes(rng, 156)
		lmPut32le(h[0:], hl)
		lmPut32le(h[4:], rt)
		lmPut32le(h[8:], dlt)
		copy(h[12:], str(rng, 24))
		copy(h[56:], str(rng, 20))
		copy(h[88:], str(rng, 20))
		lmPut32le(h[36:], lnPick(rng, 0, 1, 2, 3, 0xffffffff))
		lmPut32le(h[76:], lnPick(rng, 0, 1, 5, 9, 10, 0xffffffff))
		return append(h, lnRandBytes(rng, extra)...)
	}
	dlts := []int{1, 1, 0, 12, 105, 127, 149, 276, 277, 255, 256, 65535, 65536, 65537, 0xffffffff}
	valid := func(rng *rand.Rand) []byte {
		extra := lnPick(rng, 0, 1, 20, 33)
		return build(rng, 156+lnPick(rng, 0, 0, 0, 1, extra), 1, lnPick(rng, dlts...), extra)
	}
	return lmGen(lpktapDesc, lmGenCfg{
		valid:  valid,
		hdrLen: func(p []byte) int { return 156 },
		extra: func(rng *rand.Rand, add func(ops ...string)) {
			two := func(tag string, p []byte) {
				add("tag:"+tag, "dec:"+lnHex(p))
				add("tag:"+tag, "dec2:"+lnHex(valid(rng))+","+lnHex(p))
			}
			for _, extra := range []int{0, 1, 10, 100} { // header length against the data
				for _, hl := range []int{0, 1, 155, 156, 157, 156 + extra - 1, 156 + extra, 156 + extra + 1, 156 + extra + 2, 255, 256, 65535, 65536, 65536 + 156, 0x7fffffff, 0x80000000, 0xffffffff} {
					two("header-length-extreme", build(rng, hl, 1, 1, extra))
				}
			}
			for _, rt := range []int{0, 1, 2, 256, 257, 0x01000000, 0xffffffff} {
				two("record-type", build(rng, 156, rt, 1, 4))
			}
			for _, dlt := range dlts {
				two("dlt", build(rng, 156, 1, dlt, 4))
			}
		},
	}, rng, tier)
}
