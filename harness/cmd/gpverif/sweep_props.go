// Sweep, part 2: the executable statements of C01 (read-only calls, error discipline), C07 and C06.
package main

import (
	"bytes"
	"fmt"
	"math"
	"reflect"
	"strings"

	"github.com/gopacket/gopacket"
	"github.com/gopacket/gopacket/layers"
)

// readOnly makes every read-only call of C01 on the packet, each under recover.
func (r *sweepRun) readOnly(pk gopacket.Packet, lt gopacket.LayerType, ltName string, combo int, lazy bool) []gopacket.Layer {
	call := func(name string, f func()) {
		r.setPhase(fmt.Sprintf("C01:%s:%d", name, combo))
		if p := sweepCatch(f); p != nil {
			r.fail("C01:panic", p.site, p.kind, fmt.Sprintf("call=%s;lt=%s;opts=%d;msg=%s", name, ltName, combo, p.msg))
		}
	}
	var ls []gopacket.Layer
	if lazy {
		// a lazy packet decodes on demand: exercise the partial accessors before Layers()
		call("ErrorLayer", func() { _ = pk.ErrorLayer() })
		call("TransportLayer", func() { _ = pk.TransportLayer() })
		call("Layer", func() { _ = pk.Layer(lt) })
		call("String", func() { _ = pk.String() })
	}
	call("Layers", func() { ls = pk.Layers() })
	call("Layer", func() {
		_ = pk.Layer(lt)
		_ = pk.Layer(gopacket.LayerTypePayload)
		_ = pk.Layer(gopacket.LayerTypeDecodeFailure)
		_ = pk.Layer(gopacket.LayerType(-7))
		for _, l := range ls {
			_ = pk.Layer(l.LayerType())
		}
	})
	call("LayerClass", func() {
		_ = pk.LayerClass(layers.LayerClassIPNetwork)
		_ = pk.LayerClass(layers.LayerClassIPTransport)
		_ = pk.LayerClass(layers.LayerClassIPv6Extension)
		_ = pk.LayerClass(lt)
	})
	call("LinkLayer", func() {
		if l := pk.LinkLayer(); l != nil {
			_ = l.LinkFlow().String()
		}
	})
	call("NetworkLayer", func() {
		if l := pk.NetworkLayer(); l != nil {
			_ = l.NetworkFlow().String()
		}
	})
	call("TransportLayer", func() {
		if l := pk.TransportLayer(); l != nil {
			_ = l.TransportFlow().String()
		}
	})
	call("ApplicationLayer", func() {
		if l := pk.ApplicationLayer(); l != nil {
			_ = l.Payload()
		}
	})
	call("ErrorLayer", func() {
		if l := pk.ErrorLayer(); l != nil {
			_ = l.Error()
		}
	})
	call("Data", func() { _ = pk.Data(); _ = pk.Metadata() })
	call("String", func() { _ = pk.String() })
	call("Dump", func() { _ = pk.Dump() })
	for i, l := range ls {
		if i >= 24 {
			break
		}
		l := l
		tn := sweepGoType(l)
		call("LayerString/"+tn, func() { _ = gopacket.LayerString(l) })
		call("LayerDump/"+tn, func() { _ = gopacket.LayerDump(l) })
		call("LayerGoString/"+tn, func() { _ = gopacket.LayerGoString(l) })
		call("layer.String/"+tn, func() {
			if s, ok := l.(fmt.Stringer); ok {
				_ = s.String()
			}
			if s, ok := l.(fmt.GoStringer); ok {
				_ = s.GoString()
			}
		})
		call("layer.accessors/"+tn, func() { _ = l.LayerType(); _ = l.LayerContents(); _ = l.LayerPayload() })
		call("layer.flow/"+tn, func() {
			if x, ok := l.(gopacket.LinkLayer); ok {
				_ = x.LinkFlow().String()
			}
			if x, ok := l.(gopacket.NetworkLayer); ok {
				_ = x.NetworkFlow().String()
			}
			if x, ok := l.(gopacket.TransportLayer); ok {
				_ = x.TransportFlow().String()
			}
			if x, ok := l.(gopacket.ApplicationLayer); ok {
				_ = x.Payload()
			}
		})
	}
	call("VerifyChecksums", func() { _, _ = pk.VerifyChecksums() })
	call("VerifyChecksums+net", func() {
		nl := pk.NetworkLayer()
		if nl == nil {
			return
		}
		n := 0
		for _, l := range ls {
			if ns, ok := l.(netSetter); ok {
				_ = ns.SetNetworkLayerForChecksum(nl)
				n++
			}
		}
		if n > 0 {
			_, _ = pk.VerifyChecksums()
		}
	})
	return ls
}

// discipline is the second sentence of C01, checked after Layers():
//
//	(a) no layer other than the last is a *gopacket.DecodeFailure;
//	(b) ErrorLayer() != nil  =>  it is the last element of Layers();
//	(c) ErrorLayer() == nil  =>  the last layer is not a DecodeFailure (and there is no failure layer at all);
//	(d) "whenever some part of the input could not be decoded the packet says so": if the decoder panics with
//	    recovery off, or DecodeFromBytes on a fresh object of the first layer's own Go type returns an error,
//	    then ErrorLayer() must be non-nil.
func (r *sweepRun) discipline(pk gopacket.Packet, ls []gopacket.Layer, lt gopacket.LayerType, ltName string, combo int, directs []sweepDirect, skipPanic bool) {
	r.setPhase(fmt.Sprintf("C01:discipline:%d", combo))
	var el gopacket.ErrorLayer
	if p := sweepCatch(func() { el = pk.ErrorLayer() }); p != nil {
		return
	}
	prev := func(i int) string {
		if i <= 0 {
			return "first:" + ltName
		}
		return sweepGoType(ls[i-1])
	}
	n := len(ls)
	for i, l := range ls {
		if _, ok := l.(*gopacket.DecodeFailure); ok && i != n-1 {
			r.fail("C01:error-discipline", "failure-not-last/after:"+prev(i), "discipline", fmt.Sprintf("lt=%s;opts=%d;index=%d;layers=%d", ltName, combo, i, n))
		}
	}
	if el != nil {
		if n == 0 || !sameLayer(ls[n-1], el) {
			idx := -1
			for i, l := range ls {
				if sameLayer(l, el) {
					idx = i
				}
			}
			r.fail("C01:error-discipline", "error-layer-not-last/"+sweepGoType(el)+"/after:"+prev(idx), "discipline", fmt.Sprintf("lt=%s;opts=%d;index=%d;layers=%d", ltName, combo, idx, n))
		}
	} else {
		if n > 0 {
			if _, ok := ls[n-1].(*gopacket.DecodeFailure); ok {
				r.fail("C01:error-discipline", "failure-without-errorlayer/after:"+prev(n-1), "discipline", fmt.Sprintf("lt=%s;opts=%d;layers=%d", ltName, combo, n))
			}
		}
		if skipPanic {
			r.fail("C01:error-discipline", "panic-swallowed/first:"+ltName, "discipline", fmt.Sprintf("lt=%s;opts=%d;layers=%d", ltName, combo, n))
		}
		if n > 0 {
			ft := sweepGoType(ls[0])
			for _, d := range directs {
				if d.err != nil && d.st.key == ft {
					r.fail("C01:error-discipline", "error-swallowed/"+ft, "discipline", fmt.Sprintf("lt=%s;opts=%d;direct-error=%s", ltName, combo, sweepClean(d.err.Error())))
				}
			}
		}
	}
}

func sameLayer(a gopacket.Layer, b gopacket.ErrorLayer) (same bool) {
	defer func() {
		if recover() != nil {
			same = false
		}
	}()
	return interface{}(a) == interface{}(b)
}

func (r *sweepRun) packetTags(pk gopacket.Packet, ls []gopacket.Layer, skipPanic bool) {
	n := len(ls)
	if n == 0 {
		return
	}
	_, lastFail := ls[n-1].(*gopacket.DecodeFailure)
	if n >= 1 && !(n == 1 && lastFail) {
		r.nontriv = true
		r.tags["past-header"] = true
	}
	if lastFail && n >= 2 {
		if skipPanic {
			r.tags["panic-after-add"] = true
		} else {
			r.tags["error-after-add"] = true
		}
	}
	nets := 0
	seen := map[gopacket.LayerType]int{}
	for _, l := range ls {
		if _, ok := l.(gopacket.NetworkLayer); ok {
			nets++
		}
		seen[l.LayerType()]++
	}
	if nets >= 2 || seen[layers.LayerTypeGRE] > 0 && n >= 3 || seen[layers.LayerTypeEthernet] >= 2 || seen[layers.LayerTypeVXLAN] > 0 || seen[layers.LayerTypeGeneve] > 0 || seen[layers.LayerTypeDot1Q] >= 2 || seen[layers.LayerTypeMPLS] >= 2 {
		r.tags["nested-tunnel"] = true
	}
}

// ---------------------------------------------------------------- C07

type serOut struct {
	out []byte
	err bool
	pan *sweepPanic
}

func sweepSer(l gopacket.SerializableLayer, payload []byte, opts gopacket.SerializeOptions, buf gopacket.SerializeBuffer) (o serOut) {
	o.pan = sweepCatch(func() {
		if len(payload) > 0 {
			b, err := buf.AppendBytes(len(payload))
			if err != nil {
				o.err = true
				return
			}
			copy(b, payload)
		}
		if err := l.SerializeTo(buf, opts); err != nil {
			o.err = true
			return
		}
		o.out = sweepExact(buf.Bytes())
	})
	return
}

// dirtyBuffer returns the run's reusable buffer after filling `n` bytes on each side with 0xAA and clearing it:
// the next PrependBytes/AppendBytes hand out 0xAA-filled memory (a buffer "that previously held other data").
func (r *sweepRun) dirtyBuffer(extra int) gopacket.SerializeBuffer {
	if r.dirty == nil {
		r.dirty = gopacket.NewSerializeBuffer()
	}
	buf := r.dirty
	buf.Clear()
	n := 1536 + extra
	if b, err := buf.PrependBytes(n); err == nil {
		for i := range b {
			b[i] = 0xAA
		}
	}
	if b, err := buf.AppendBytes(n); err == nil {
		for i := range b {
			b[i] = 0xAA
		}
	}
	buf.Clear()
	return buf
}

var sweepHints = [4][2]int{{0, 0}, {1, 1}, {64, 7}, {512, 512}}

// serialize is C07 on one layer value: for the four option sets, in this order on the same object:
// fresh buffer, dirty (0xAA-prefilled, cleared) buffer, pre-sized buffer, fresh buffer again.
// C07:panic when any call panics; C07:junk-dependence when the four results (error class + bytes)
// are not all equal.
func (r *sweepRun) serialize(l gopacket.SerializableLayer, payload []byte, src string) {
	tn := sweepGoType(l)
	payload = append([]byte(nil), payload...)
	for oi := 0; oi < 4; oi++ {
		opts := gopacket.SerializeOptions{FixLengths: oi&2 != 0, ComputeChecksums: oi&1 != 0}
		on := fmt.Sprintf("fix=%v,csum=%v", opts.FixLengths, opts.ComputeChecksums)
		r.setPhase("C07:" + tn + ":" + on)
		var outs [4]serOut
		names := [4]string{"fresh", "dirty", "presized", "again"}
		for k := 0; k < 4; k++ {
			var buf gopacket.SerializeBuffer
			switch k {
			case 0, 3:
				buf = gopacket.NewSerializeBuffer()
			case 1:
				buf = r.dirtyBuffer(len(payload))
			case 2:
				buf = gopacket.NewSerializeBufferExpectedSize(sweepHints[oi][0], sweepHints[oi][1])
			}
			outs[k] = sweepSer(l, payload, opts, buf)
			if p := outs[k].pan; p != nil {
				r.fail("C07:panic", p.site, p.kind, fmt.Sprintf("src=%s;type=%s;opts=%s;buffer=%s;msg=%s", src, tn, on, names[k], p.msg))
			}
		}
		if outs[0].pan != nil {
			continue
		}
		if !outs[0].err {
			if !opts.FixLengths {
				r.tags["no-fixlengths"] = true
			}
			if outs[1].pan == nil && !outs[1].err && len(outs[1].out) > len(payload) {
				r.tags["dirty-buffer"] = true
			}
		}
		for k := 1; k < 4; k++ {
			if outs[k].pan != nil {
				continue
			}
			if outs[k].err != outs[0].err || !bytes.Equal(outs[k].out, outs[0].out) {
				at := -1
				for i := 0; i < len(outs[0].out) && i < len(outs[k].out); i++ {
					if outs[0].out[i] != outs[k].out[i] {
						at = i
						break
					}
				}
				r.fail("C07:junk-dependence", tn, names[k], fmt.Sprintf("src=%s;opts=%s;fresh-err=%v;%s-err=%v;len=%d/%d;first-diff=%d", src, on, outs[0].err, names[k], outs[k].err, len(outs[0].out), len(outs[k].out), at))
				break
			}
		}
	}
}

// ---------------------------------------------------------------- C06

// roundTrip is C06 for one decoded layer whose Go type T is both a DecodingLayer and a SerializableLayer.
// With dec = DecodeFromBytes on a fresh T and ser(l) = SerializeTo(FixLengths, ComputeChecksums) over l's payload:
//
//	x  = contents ++ payload of the decoded layer;  l0 = dec x  (outside the domain when it fails)
//	b1 = ser l0                                      (a refusal is tagged c06-ser-reject, not a failure:
//	                                                  decoders accept what serializers refuse)
//	l1 = dec b1                                      must succeed         else C06:roundtrip kind=redecode
//	b2 = ser l1                                      must succeed         else C06:roundtrip kind=reserialize
//	l2 = dec b2                                      must succeed, without truncation flag, and equal l1 on all exported
//	                                                 fields (recursively; nil==empty; BaseLayer: Payload bytes only)
//	                                                 and payload bytes    else C06:roundtrip kind=fields:<paths>
//	b2 == b1  and  ser l2 == b2                                           else C06:fixpoint
//
// i.e. the round trip is demanded of l1 = dec(ser(dec x)), the first re-decode, so that a decoder that
// merely normalises a non-canonical x is not reported (l1 != l0 is tagged c06-normalised).
func (r *sweepRun) roundTrip(l gopacket.Layer, nl gopacket.NetworkLayer) {
	st := r.dom.byRT[reflect.TypeOf(l)]
	if st == nil || !st.dec || !st.ser {
		return
	}
	tn := st.key
	r.setPhase("C06:" + tn)
	x := sweepExact(append(append([]byte(nil), l.LayerContents()...), l.LayerPayload()...))
	opts := gopacket.SerializeOptions{FixLengths: true, ComputeChecksums: true}
	dec := func(b []byte) (sweepBytesDecoder, error, bool, *sweepPanic) {
		v := st.ctor().(sweepBytesDecoder)
		fb := &sweepFB{}
		var err error
		p := sweepCatch(func() { err = v.DecodeFromBytes(b, fb) })
		if ns, ok := v.(netSetter); ok && nl != nil && p == nil && err == nil {
			sweepCatch(func() { ns.SetNetworkLayerForChecksum(nl) })
		}
		return v, err, fb.trunc, p
	}
	ser := func(v sweepBytesDecoder) serOut {
		var pl []byte
		sweepCatch(func() {
			if x, ok := v.(sweepPayloader); ok {
				pl = x.LayerPayload()
			}
		})
		return sweepSer(v.(gopacket.SerializableLayer), append([]byte(nil), pl...), opts, gopacket.NewSerializeBuffer())
	}
	l0, err, _, p := dec(x)
	if p != nil || err != nil {
		return
	}
	b1 := ser(l0)
	if b1.pan != nil {
		return // reported by C07
	}
	if b1.err {
		r.tags["c06-ser-reject"] = true
		return
	}
	l1, err, _, p := dec(b1.out)
	if p != nil {
		r.fail("C06:roundtrip", tn, "redecode", "panic site="+p.site)
		return
	}
	if err != nil {
		r.fail("C06:roundtrip", tn, "redecode", "error="+sweepClean(err.Error()))
		return
	}
	if d := sweepDiff(l0, l1); len(d) > 0 {
		r.tags["c06-normalised"] = true
	}
	b2 := ser(l1)
	if b2.pan != nil {
		return
	}
	if b2.err {
		r.fail("C06:roundtrip", tn, "reserialize", "serializer refuses its own re-decoded output")
		return
	}
	l2, err, trunc, p := dec(b2.out)
	if p != nil {
		r.fail("C06:roundtrip", tn, "redecode2", "panic site="+p.site)
		return
	}
	if err != nil {
		r.fail("C06:roundtrip", tn, "redecode2", "error="+sweepClean(err.Error()))
		return
	}
	r.tags["c06-roundtrip-run"] = true
	if trunc {
		r.fail("C06:roundtrip", tn, "truncated", "truncation flag set on re-decode")
	}
	if d := sweepDiff(l1, l2); len(d) > 0 {
		if len(d) > 4 {
			d = d[:4]
		}
		r.fail("C06:roundtrip", tn, "fields", "differ="+sweepClean(strings.Join(d, ",")))
	}
	if !bytes.Equal(b1.out, b2.out) {
		r.fail("C06:fixpoint", tn, "b2!=b1", fmt.Sprintf("len=%d/%d;first-diff=%d", len(b1.out), len(b2.out), firstDiff(b1.out, b2.out)))
		return
	}
	b3 := ser(l2)
	if b3.pan == nil && (b3.err || !bytes.Equal(b3.out, b2.out)) {
		r.fail("C06:fixpoint", tn, "b3!=b2", fmt.Sprintf("err=%v;len=%d/%d;first-diff=%d", b3.err, len(b2.out), len(b3.out), firstDiff(b2.out, b3.out)))
	}
}

func firstDiff(a, b []byte) int {
	for i := 0; i < len(a) && i < len(b); i++ {
		if a[i] != b[i] {
			return i
		}
	}
	if len(a) != len(b) {
		if len(a) < len(b) {
			return len(a)
		}
		return len(b)
	}
	return -1
}

// sweepDiff lists the paths of exported fields on which two layer values differ.
func sweepDiff(a, b interface{}) (out []string) {
	defer func() {
		if r := recover(); r != nil {
			out = append(out, "diff-panic")
		}
	}()
	sweepDiffV(reflect.ValueOf(a), reflect.ValueOf(b), "", 0, &out)
	return
}

func sweepDiffV(a, b reflect.Value, path string, depth int, out *[]string) {
	if len(*out) > 8 || depth > 12 {
		return
	}
	if a.IsValid() != b.IsValid() {
		*out = append(*out, path+"(validity)")
		return
	}
	if !a.IsValid() {
		return
	}
	if a.Type() != b.Type() {
		*out = append(*out, path+"(type)")
		return
	}
	switch a.Kind() {
	case reflect.Ptr, reflect.Interface:
		if a.IsNil() != b.IsNil() {
			*out = append(*out, path+"(nil)")
			return
		}
		if a.IsNil() {
			return
		}
		sweepDiffV(a.Elem(), b.Elem(), path, depth+1, out)
	case reflect.Struct:
		t := a.Type()
		if t.Name() == "BaseLayer" {
			pa, pb := a.FieldByName("Payload"), b.FieldByName("Payload")
			if pa.IsValid() && pa.Kind() == reflect.Slice && !bytes.Equal(pa.Bytes(), pb.Bytes()) {
				*out = append(*out, path+".Payload")
			}
			return
		}
		for i := 0; i < t.NumField(); i++ {
			f := t.Field(i)
			if f.PkgPath != "" {
				continue
			}
			sweepDiffV(a.Field(i), b.Field(i), path+"."+f.Name, depth+1, out)
		}
	case reflect.Slice:
		if a.Len() != b.Len() {
			*out = append(*out, fmt.Sprintf("%s(len %d/%d)", path, a.Len(), b.Len()))
			return
		}
		if a.Type().Elem().Kind() == reflect.Uint8 {
			if !bytes.Equal(a.Bytes(), b.Bytes()) {
				*out = append(*out, path)
			}
			return
		}
		for i := 0; i < a.Len(); i++ {
			sweepDiffV(a.Index(i), b.Index(i), fmt.Sprintf("%s[%d]", path, i), depth+1, out)
		}
	case reflect.Array:
		for i := 0; i < a.Len(); i++ {
			n := len(*out)
			sweepDiffV(a.Index(i), b.Index(i), fmt.Sprintf("%s[%d]", path, i), depth+1, out)
			if len(*out) > n {
				return
			}
		}
	case reflect.Map:
		if a.Len() != b.Len() {
			*out = append(*out, path+"(maplen)")
			return
		}
		for _, k := range a.MapKeys() {
			bv := b.MapIndex(k)
			if !bv.IsValid() {
				*out = append(*out, path+"(mapkey)")
				return
			}
			sweepDiffV(a.MapIndex(k), bv, path+"[k]", depth+1, out)
		}
	case reflect.Bool:
		if a.Bool() != b.Bool() {
			*out = append(*out, path)
		}
	case reflect.Int, reflect.Int8, reflect.Int16, reflect.Int32, reflect.Int64:
		if a.Int() != b.Int() {
			*out = append(*out, path)
		}
	case reflect.Uint, reflect.Uint8, reflect.Uint16, reflect.Uint32, reflect.Uint64, reflect.Uintptr:
		if a.Uint() != b.Uint() {
			*out = append(*out, path)
		}
	case reflect.Float32, reflect.Float64:
		if math.Float64bits(a.Float()) != math.Float64bits(b.Float()) {
			*out = append(*out, path)
		}
	case reflect.Complex64, reflect.Complex128:
		if a.Complex() != b.Complex() {
			*out = append(*out, path)
		}
	case reflect.String:
		if a.String() != b.String() {
			*out = append(*out, path)
		}
	}
}
