package main

// C01core — the framework half of C01: the packet builder is total and keeps the
// error-layer discipline for every decoder family.  Scripted families on the real builder
// vs the Coq model, all 16 combinations of Lazy/NoCopy/Pool/DecodeStreamsAsDatagrams with
// recovery on; oracle C01:error-discipline / C01:total on scripted families (where "some
// decoder failed" is known from instrumentation) and on real protocol stacks.

import (
	"math/rand"
	"strconv"
)

type c01core struct{}

func init() { register("C01core", c01core{}) }

func (c01core) Gen(rng *rand.Rand, tier string) []Case {
	g := pcGen{rng: rng}
	var out []Case
	n := 1000
	if tier == "thorough" {
		n = 15000
	}
	progs := [][]string{{"er"}, {"er", "ls"}, {"ls", "er"}, {}, {"lk", "er"}, {"L:1", "er"}, {"st"}, {"du", "er"}}
	for i := 0; i < n; i++ {
		f := g.genFamily(rng.Intn(8) == 0, rng.Intn(8) == 0)
		data := g.genData(true)
		prog := progs[rng.Intn(len(progs))]
		if rng.Intn(4) == 0 {
			prog = g.genProgram(f, 6)
		}
		// every option combination on the same family and input
		if i%8 == 0 {
			for _, o := range pcOptCombos {
				out = append(out, pcMakeCase("C01core", o, data, f.ids[0], f, prog))
			}
		} else {
			out = append(out, pcMakeCase("C01core", pcOptCombos[rng.Intn(16)], data, f.ids[0], f, prog))
		}
	}
	out = append(out, g.genReal("C01core", tier, false)...)
	return out
}

func (c01core) Run(c Case) Result {
	return pcGuard("C01:total", func() Result { return c01coreRun(c) })
}

func c01coreRun(c Case) Result {
	var res Result
	pc, err := pcParseCase(c)
	if err != nil {
		res.Obs = []string{"bad-case=" + strconv.Quote(err.Error())}
		res.Oracle = []string{"harness-bad-case\t" + err.Error()}
		return res
	}
	if pc.real != "" {
		return pcRunReal("C01core", pc)
	}
	ex := pcExecute(pc, pc.opts)
	res.Obs = ex.observations()
	res.Tags = pcTags(pc, ex)
	if !pc.opts.SkipDecodeRecovery {
		anySet := false
		for _, s := range ex.run.steps {
			if s.seter {
				anySet = true
			}
		}
		for i, cl := range ex.calls {
			if cl.panics {
				res.Oracle = append(res.Oracle, "C01:total\taccessor "+pc.prog[i]+" panicked with recovery on")
			}
		}
		if anySet {
			// hypothesis F2 of the discipline theorem does not hold for this family: only the
			// unconditional half is checked
			if !ex.newPanic && ex.run.failed {
				ls := ex.layers
				if len(ls) == 0 || !pcIsFail(ls[len(ls)-1]) {
					res.Oracle = append(res.Oracle, "C01:error-discipline\ta decoder failed but the last layer is not a DecodeFailure")
				}
				if ex.pkt.ErrorLayer() == nil {
					res.Oracle = append(res.Oracle, "C01:error-discipline\ta decoder failed but ErrorLayer() is nil")
				}
			}
		} else {
			res.Oracle = append(res.Oracle, pcOracleDiscipline(ex, true, ex.run.failed, anySet)...)
		}
	}
	ex.dispose()
	return res
}
