package main

// PacketCore harness (shared by the checks C03 and C01core): scripted decoder families are
// registered through the public gopacket.RegisterLayerType so that the REAL packet.go
// builder (eager and lazy) runs the same family as the Coq model (coq/Model/PacketScript.v).
//
// ops (see runner/pcore_run.ml for the same grammar):
//   o:LNPSD  d:hex  f:ID  dec:ID/variant/...  L:t C:t1,t2 lk nw tr ap er ls st du   real:<layer name>
//   variant = layers!acts!term!dsadterm ; layers type.clen.pmode '+'-joined (pmode r|e|w|c<hex>)
//   acts a<k> l<k> n<k> t<k> p<k> e<k> x '+'-joined ; term r|f|n<id>|z|p ; dsadterm '-'|term

import (
	"encoding/hex"
	"errors"
	"fmt"
	"math/rand"
	"regexp"
	"runtime/debug"
	"strconv"
	"strings"
	"time"
	"unsafe"

	"github.com/gopacket/gopacket"
)

// ---------------------------------------------------------------- scripts
type pcLspec struct {
	typ   int
	clen  int
	pmode byte // r e w c
	cst   []byte
}
type pcAct struct {
	kind byte // a l n t p e x
	k    int
}
type pcTerm struct {
	kind byte // r f n z p
	next int
}
type pcVariant struct {
	layers []pcLspec
	acts   []pcAct
	term   pcTerm
	dsad   *pcTerm
}
type pcScript []pcVariant

func (t pcTerm) String() string {
	if t.kind == 'n' {
		return "n" + strconv.Itoa(t.next)
	}
	return string(t.kind)
}

func (v pcVariant) String() string {
	var ls, as []string
	for _, l := range v.layers {
		pm := string(l.pmode)
		if l.pmode == 'c' {
			pm += hex.EncodeToString(l.cst)
		}
		ls = append(ls, fmt.Sprintf("%d.%d.%s", l.typ, l.clen, pm))
	}
	for _, a := range v.acts {
		if a.kind == 'x' {
			as = append(as, "x")
		} else {
			as = append(as, fmt.Sprintf("%c%d", a.kind, a.k))
		}
	}
	d := "-"
	if v.dsad != nil {
		d = v.dsad.String()
	}
	return strings.Join(ls, "+") + "!" + strings.Join(as, "+") + "!" + v.term.String() + "!" + d
}

func pcDecOp(id int, sc pcScript) string {
	parts := []string{strconv.Itoa(id)}
	for _, v := range sc {
		parts = append(parts, v.String())
	}
	return "dec:" + strings.Join(parts, "/")
}

func pcParseTerm(s string) (pcTerm, error) {
	switch {
	case s == "r" || s == "f" || s == "z" || s == "p":
		return pcTerm{kind: s[0]}, nil
	case len(s) > 1 && s[0] == 'n':
		n, err := strconv.Atoi(s[1:])
		return pcTerm{kind: 'n', next: n}, err
	}
	return pcTerm{}, fmt.Errorf("term %q", s)
}

func pcParseDec(arg string) (int, pcScript, error) {
	parts := strings.Split(arg, "/")
	id, err := strconv.Atoi(parts[0])
	if err != nil {
		return 0, nil, err
	}
	var sc pcScript
	for _, vs := range parts[1:] {
		f := strings.Split(vs, "!")
		if len(f) != 4 {
			return 0, nil, fmt.Errorf("variant %q", vs)
		}
		var v pcVariant
		for _, ls := range strings.Split(f[0], "+") {
			if ls == "" {
				continue
			}
			g := strings.SplitN(ls, ".", 3)
			if len(g) != 3 || g[2] == "" {
				return 0, nil, fmt.Errorf("lspec %q", ls)
			}
			t, e1 := strconv.Atoi(g[0])
			cl, e2 := strconv.Atoi(g[1])
			if e1 != nil || e2 != nil {
				return 0, nil, fmt.Errorf("lspec %q", ls)
			}
			l := pcLspec{typ: t, clen: cl, pmode: g[2][0]}
			if l.pmode == 'c' {
				l.cst, _ = hex.DecodeString(g[2][1:])
			}
			v.layers = append(v.layers, l)
		}
		for _, as := range strings.Split(f[1], "+") {
			if as == "" {
				continue
			}
			if as == "x" {
				v.acts = append(v.acts, pcAct{kind: 'x'})
				continue
			}
			k, e := strconv.Atoi(as[1:])
			if e != nil {
				return 0, nil, fmt.Errorf("act %q", as)
			}
			v.acts = append(v.acts, pcAct{kind: as[0], k: k})
		}
		if v.term, err = pcParseTerm(f[2]); err != nil {
			return 0, nil, err
		}
		if f[3] != "-" {
			t, e := pcParseTerm(f[3])
			if e != nil {
				return 0, nil, e
			}
			v.dsad = &t
		}
		sc = append(sc, v)
	}
	return id, sc, nil
}

// ---------------------------------------------------------------- synthetic layers and decoders
// synLayer implements Layer and all five "kind" interfaces.
type synLayer struct {
	T gopacket.LayerType
	C []byte
	P []byte
}

func (l *synLayer) LayerType() gopacket.LayerType { return l.T }
func (l *synLayer) LayerContents() []byte         { return l.C }
func (l *synLayer) LayerPayload() []byte          { return l.P }
func (l *synLayer) String() string {
	return fmt.Sprintf("%d/%s/%s", int(l.T), hex.EncodeToString(l.C), hex.EncodeToString(l.P))
}
func (l *synLayer) LinkFlow() gopacket.Flow      { return gopacket.Flow{} }
func (l *synLayer) NetworkFlow() gopacket.Flow   { return gopacket.Flow{} }
func (l *synLayer) TransportFlow() gopacket.Flow { return gopacket.Flow{} }
func (l *synLayer) Payload() []byte              { return l.P }
func (l *synLayer) Error() error                 { return errors.New("syn error layer") }

// decoder ids the harness registers (array path 0..1999, map path >= 2000 and negative);
// 1950 is never registered, 1951 is registered without a decoder.
var pcRegistered = []int{1900, 1901, 1902, 1903, 1904, 1905, 1906, 1907, 2100, 2101, -7}

const pcUnregistered = 1950
const pcNoDecoder = 1951

type pcStep struct {
	id    int
	adds  int
	term  byte
	acts  int
	seter bool
}

// pcRun is the state shared between a case and the synthetic decoders it triggers.
type pcRun struct {
	table  map[int]pcScript
	steps  []pcStep
	failed bool // some decoder call returned an error or panicked
	// length of the payload of the last added layer (-1: no layer yet); lets the harness know
	// that a continuation into a type without decoder will fail although that failure happens
	// inside gopacket (LayerType.Decode), outside every instrumented decoder
	lastPayload int
}

var pcCur *pcRun

// pcHung is set once a case did not come back: a decoding or accessor loop that never ends
// (the goroutine cannot be killed); later cases are skipped so that the failure is reported
// instead of a check that hangs.
var pcHung bool

const pcCaseTimeout = 30 * time.Second

// pcGuard runs one case under a watchdog.
func pcGuard(clause string, f func() Result) Result {
	if pcHung {
		return Result{Tags: []string{"skipped-after-timeout"}}
	}
	ch := make(chan Result, 1)
	go func() {
		defer func() {
			if r := recover(); r != nil {
				ch <- Result{Obs: []string{fmt.Sprintf("harness-panic=%q", fmt.Sprint(r))}, Oracle: []string{fmt.Sprintf("harness-panic\t%v", r)}}
			}
		}()
		ch <- f()
	}()
	if r, ok := recvBusyAware(ch, pcCaseTimeout); ok {
		return r
	} else {
		pcHung = true
		return Result{Obs: []string{"timeout"}, Oracle: []string{clause + "\tcase did not terminate within 30s (decoding or an accessor loop does not end)"}}
	}
}

func init() {
	// a runaway recursion of the code under test should die quickly, not after filling 1 GB
	debug.SetMaxStack(256 << 20)
	for _, id := range pcRegistered {
		id := id
		gopacket.RegisterLayerType(id, gopacket.LayerTypeMetadata{
			Name:    "Syn" + strconv.Itoa(id),
			Decoder: gopacket.DecodeFunc(func(data []byte, p gopacket.PacketBuilder) error { return pcDecode(id, data, p) }),
		})
	}
	gopacket.RegisterLayerType(pcNoDecoder, gopacket.LayerTypeMetadata{Name: "SynNoDecoder"})
}

func pcHasDecoder(id int) bool {
	for _, r := range pcRegistered {
		if r == id {
			return true
		}
	}
	return false
}

func pcMin(a, b int) int {
	if a < b {
		return a
	}
	return b
}

func pcDecode(id int, data []byte, p gopacket.PacketBuilder) (err error) {
	run := pcCur
	if run == nil {
		return errors.New("no case running")
	}
	if len(run.steps) > 5000 {
		panic("harness: step limit") // a generator bug; keeps a runaway recursion visible instead of fatal
	}
	idx := len(run.steps)
	run.steps = append(run.steps, pcStep{id: id, term: '?'})
	defer func() {
		if r := recover(); r != nil {
			run.failed = true
			panic(r)
		}
		if err != nil {
			run.failed = true
		}
	}()
	sc, ok := run.table[id]
	if !ok || len(sc) == 0 {
		run.steps[idx].term = 'f'
		return errors.New("no script for this id")
	}
	vi := 0
	if len(data) > 0 {
		vi = int(data[0]) % len(sc)
	}
	v := sc[vi]
	ls := make([]*synLayer, len(v.layers))
	for i, s := range v.layers {
		n := pcMin(s.clen, len(data))
		l := &synLayer{T: gopacket.LayerType(s.typ), C: data[:n]}
		switch s.pmode {
		case 'r':
			l.P = data[n:]
		case 'e':
			l.P = nil
		case 'w':
			l.P = data
		case 'c':
			l.P = s.cst
		}
		ls[i] = l
	}
	for _, a := range v.acts {
		if a.kind == 'x' {
			p.SetTruncated()
			run.steps[idx].acts++
			continue
		}
		if a.k >= len(ls) {
			continue
		}
		l := ls[a.k]
		run.steps[idx].acts++
		switch a.kind {
		case 'a':
			p.AddLayer(l)
			run.steps[idx].adds++
			run.lastPayload = len(l.P)
		case 'l':
			p.SetLinkLayer(l)
		case 'n':
			p.SetNetworkLayer(l)
		case 't':
			p.SetTransportLayer(l)
		case 'p':
			p.SetApplicationLayer(l)
		case 'e':
			p.SetErrorLayer(l)
			run.steps[idx].seter = true
		}
	}
	term := v.term
	if v.dsad != nil && p.DecodeOptions().DecodeStreamsAsDatagrams {
		term = *v.dsad
	}
	run.steps[idx].term = term.kind
	switch term.kind {
	case 'r':
		return nil
	case 'f':
		return errors.New("syn decode error")
	case 'p':
		panic("synpanic")
	case 'z':
		return p.NextDecoder(nil)
	case 'n':
		if !pcHasDecoder(term.next) && run.lastPayload != 0 {
			run.failed = true // the continuation will be invoked (now or lazily) and has no decoder
		}
		return p.NextDecoder(gopacket.LayerType(term.next))
	}
	return errors.New("bad terminator")
}

// ---------------------------------------------------------------- a parsed case
type pcCase struct {
	opts  gopacket.DecodeOptions
	data  []byte
	first int
	table map[int]pcScript
	prog  []string // accessor ops
	real  string
}

func pcParseCase(c Case) (pcCase, error) {
	pc := pcCase{table: map[int]pcScript{}}
	for _, op := range c.Ops {
		name, arg, _ := strings.Cut(op, ":")
		switch name {
		case "o":
			if len(arg) != 5 {
				return pc, fmt.Errorf("opts %q", arg)
			}
			pc.opts = gopacket.DecodeOptions{Lazy: arg[0] == '1', NoCopy: arg[1] == '1', Pool: arg[2] == '1',
				SkipDecodeRecovery: arg[3] == '1', DecodeStreamsAsDatagrams: arg[4] == '1'}
		case "d":
			b, err := hex.DecodeString(arg)
			if err != nil {
				return pc, err
			}
			pc.data = b
		case "f":
			n, err := strconv.Atoi(arg)
			if err != nil {
				return pc, err
			}
			pc.first = n
		case "dec":
			id, sc, err := pcParseDec(arg)
			if err != nil {
				return pc, err
			}
			pc.table[id] = sc
		case "real":
			pc.real = arg
		case "L", "C", "lk", "nw", "tr", "ap", "er", "ls", "st", "du":
			pc.prog = append(pc.prog, op)
		default:
			return pc, fmt.Errorf("unknown op %q", op)
		}
	}
	return pc, nil
}

func pcOptString(o gopacket.DecodeOptions) string {
	b := func(x bool) byte {
		if x {
			return '1'
		}
		return '0'
	}
	return "o:" + string([]byte{b(o.Lazy), b(o.NoCopy), b(o.Pool), b(o.SkipDecodeRecovery), b(o.DecodeStreamsAsDatagrams)})
}

// ---------------------------------------------------------------- observations
func pcIsFail(l gopacket.Layer) bool {
	_, ok := l.(*gopacket.DecodeFailure)
	return ok
}

func pcNil(l gopacket.Layer) bool {
	if l == nil {
		return true
	}
	switch x := l.(type) {
	case *synLayer:
		return x == nil
	case *gopacket.DecodeFailure:
		return x == nil
	}
	return false
}

func pcTok(l gopacket.Layer) string {
	f := 0
	if pcIsFail(l) {
		f = 1
	}
	return fmt.Sprintf("%d/%s/%s/%d", int(l.LayerType()), hex.EncodeToString(l.LayerContents()), hex.EncodeToString(l.LayerPayload()), f)
}

func pcToks(ls []gopacket.Layer) string {
	s := make([]string, len(ls))
	for i, l := range ls {
		s[i] = pcTok(l)
	}
	return strings.Join(s, ",")
}

func pcOTok(l gopacket.Layer) string {
	if pcNil(l) {
		return "nil"
	}
	return pcTok(l)
}

var pcLayerLine = regexp.MustCompile(`^- Layer (\d+) \((\d+) bytes\) = ([^\t]*)\t(.*)$`)
var pcHeadLine = regexp.MustCompile(`^PACKET: (\d+) bytes(, truncated)?$`)
var pcHexLine = regexp.MustCompile(`^[0-9a-f]{8}  [0-9a-f]{2}`)
var pcLayerHead = regexp.MustCompile(`^--- Layer (\d+) ---$`)
var pcDumpHead = regexp.MustCompile(`^-- FULL PACKET DATA \((\d+) bytes\) -+$`)

const pcFailPrefix = "Packet decoding error: "

// pcParseString turns the text of Packet.String() back into its inputs.
func pcParseString(s string) string {
	lines := strings.Split(s, "\n")
	if len(lines) == 0 {
		return "str=unparsed"
	}
	m := pcHeadLine.FindStringSubmatch(lines[0])
	if m == nil {
		return "str=unparsed-head:" + strconv.Quote(lines[0])
	}
	tr := 0
	if m[2] != "" {
		tr = 1
	}
	var toks []string
	for i, ln := range lines[1:] {
		if ln == "" && i == len(lines)-2 {
			break
		}
		lm := pcLayerLine.FindStringSubmatch(ln)
		if lm == nil || lm[1] != strconv.Itoa(i+1) {
			return "str=unparsed-line:" + strconv.Quote(ln)
		}
		n, _ := strconv.Atoi(lm[2])
		if strings.HasPrefix(lm[4], pcFailPrefix) {
			toks = append(toks, fmt.Sprintf("%d:F", n))
		} else {
			toks = append(toks, fmt.Sprintf("%d:%s", n, lm[4]))
		}
	}
	return fmt.Sprintf("str=%s|%d|%s", m[1], tr, strings.Join(toks, ","))
}

func pcHexdumpBytes(lines []string) string {
	var sb strings.Builder
	for _, ln := range lines {
		if !pcHexLine.MatchString(ln) {
			continue
		}
		area := ln[10:]
		if len(area) > 49 {
			area = area[:49]
		}
		for _, f := range strings.Fields(area) {
			if len(f) == 2 {
				sb.WriteString(f)
			}
		}
	}
	return sb.String()
}

// pcParseDump turns the text of Packet.Dump() back into its inputs (the recovered panic's
// stack text, which DecodeFailure.Dump inserts, is skipped).
func pcParseDump(s string) string {
	lines := strings.Split(s, "\n")
	if len(lines) == 0 || !pcDumpHead.MatchString(lines[0]) {
		return "dump=unparsed-head"
	}
	// section boundaries
	var starts []int
	for i, ln := range lines {
		if pcLayerHead.MatchString(ln) {
			starts = append(starts, i)
		}
	}
	end0 := len(lines)
	if len(starts) > 0 {
		end0 = starts[0]
	}
	data := pcHexdumpBytes(lines[1:end0])
	var toks []string
	for si, st := range starts {
		en := len(lines)
		if si+1 < len(starts) {
			en = starts[si+1]
		}
		if st+1 >= en {
			return "dump=unparsed-section"
		}
		head := lines[st+1]
		_, after, ok := strings.Cut(head, "\t")
		if !ok {
			return "dump=unparsed-layerstring:" + strconv.Quote(head)
		}
		ch := pcHexdumpBytes(lines[st+2 : en])
		if strings.HasPrefix(after, pcFailPrefix) {
			toks = append(toks, "F~"+ch)
		} else {
			toks = append(toks, after+"~"+ch)
		}
	}
	return "dump=" + data + "|" + strings.Join(toks, ",")
}

// pcCallResult is one accessor call on the implementation.
type pcCallResult struct {
	obs    string
	layer  gopacket.Layer // for single-layer results (nil when none)
	raw    string         // String()/Dump() text
	panics bool
}

func pcClass(types []int) gopacket.LayerClass {
	lts := make([]gopacket.LayerType, len(types))
	useMap := false
	for i, t := range types {
		lts[i] = gopacket.LayerType(t)
		if t < 0 {
			useMap = true // LayerClassSlice cannot hold (or be asked about) a negative type
		}
	}
	if useMap {
		return gopacket.NewLayerClassMap(lts)
	}
	return gopacket.NewLayerClass(lts)
}

func pcAccess(pkt gopacket.Packet, op string, negTypes bool) (res pcCallResult) {
	defer func() {
		if r := recover(); r != nil {
			res = pcCallResult{obs: "panic", panics: true}
		}
	}()
	name, arg, _ := strings.Cut(op, ":")
	one := func(l gopacket.Layer) pcCallResult {
		if pcNil(l) {
			return pcCallResult{obs: "nil"}
		}
		return pcCallResult{obs: "layer=" + pcTok(l), layer: l}
	}
	switch name {
	case "L":
		t, _ := strconv.Atoi(arg)
		return one(pkt.Layer(gopacket.LayerType(t)))
	case "C":
		var ts []int
		for _, f := range strings.Split(arg, ",") {
			if f != "" {
				t, _ := strconv.Atoi(f)
				ts = append(ts, t)
			}
		}
		var lc gopacket.LayerClass
		if negTypes {
			lts := make([]gopacket.LayerType, len(ts))
			for i, t := range ts {
				lts[i] = gopacket.LayerType(t)
			}
			lc = gopacket.NewLayerClassMap(lts)
		} else {
			lc = pcClass(ts)
		}
		return one(pkt.LayerClass(lc))
	case "lk":
		if l := pkt.LinkLayer(); l != nil {
			return one(l)
		}
		return one(nil)
	case "nw":
		if l := pkt.NetworkLayer(); l != nil {
			return one(l)
		}
		return one(nil)
	case "tr":
		if l := pkt.TransportLayer(); l != nil {
			return one(l)
		}
		return one(nil)
	case "ap":
		if l := pkt.ApplicationLayer(); l != nil {
			return one(l)
		}
		return one(nil)
	case "er":
		if l := pkt.ErrorLayer(); l != nil {
			return one(l)
		}
		return one(nil)
	case "ls":
		return pcCallResult{obs: "layers=" + pcToks(pkt.Layers())}
	case "st":
		s := pkt.String()
		return pcCallResult{obs: pcParseString(s), raw: s}
	case "du":
		s := pkt.Dump()
		return pcCallResult{obs: pcParseDump(s), raw: s}
	}
	return pcCallResult{obs: "bad-op"}
}

func pcOrigin(pkt gopacket.Packet, input []byte) string {
	if _, ok := pkt.(gopacket.PooledPacket); ok {
		return "pool"
	}
	if len(input) == 0 {
		return "na"
	}
	if unsafe.SliceData(pkt.Data()) == unsafe.SliceData(input) {
		return "alias"
	}
	return "copy"
}

// pcExec runs one scripted case on the implementation with the given options.
type pcExec struct {
	newPanic bool
	pkt      gopacket.Packet
	origin   string
	calls    []pcCallResult
	stepsAt  []int  // decoder steps executed after each call (index 0: after NewPacket)
	failedAt []bool // run.failed before each call
	final    pcCallResult
	finalObs string
	layers   []gopacket.Layer
	run      *pcRun
	input    []byte
}

func pcHasNeg(pc pcCase) bool {
	if pc.first < 0 {
		return true
	}
	for id, sc := range pc.table {
		if id < 0 {
			return true
		}
		for _, v := range sc {
			for _, l := range v.layers {
				if l.typ < 0 {
					return true
				}
			}
		}
	}
	return false
}

func pcExecute(pc pcCase, opts gopacket.DecodeOptions) *pcExec {
	ex := &pcExec{run: &pcRun{table: pc.table, lastPayload: -1}}
	pcCur = ex.run
	defer func() { pcCur = nil }()
	ex.input = make([]byte, len(pc.data))
	copy(ex.input, pc.data)
	func() {
		defer func() {
			if r := recover(); r != nil {
				ex.newPanic = true
			}
		}()
		ex.pkt = gopacket.NewPacket(ex.input, gopacket.LayerType(pc.first), opts)
	}()
	if ex.newPanic {
		return ex
	}
	neg := pcHasNeg(pc)
	ex.origin = pcOrigin(ex.pkt, ex.input)
	ex.stepsAt = append(ex.stepsAt, len(ex.run.steps))
	for _, op := range pc.prog {
		ex.failedAt = append(ex.failedAt, ex.run.failed)
		ex.calls = append(ex.calls, pcAccess(ex.pkt, op, neg))
		ex.stepsAt = append(ex.stepsAt, len(ex.run.steps))
	}
	ex.final = pcAccess(ex.pkt, "ls", neg)
	func() {
		defer func() {
			if r := recover(); r != nil {
				ex.finalObs = "final;panic"
			}
		}()
		if !ex.final.panics {
			ex.layers = ex.pkt.Layers()
		}
		tr := 0
		if ex.pkt.Metadata().Truncated {
			tr = 1
		}
		var lk, nw, tp, ap, er gopacket.Layer
		if l := ex.pkt.LinkLayer(); l != nil {
			lk = l
		}
		if l := ex.pkt.NetworkLayer(); l != nil {
			nw = l
		}
		if l := ex.pkt.TransportLayer(); l != nil {
			tp = l
		}
		if l := ex.pkt.ApplicationLayer(); l != nil {
			ap = l
		}
		if l := ex.pkt.ErrorLayer(); l != nil {
			er = l
		}
		ex.finalObs = fmt.Sprintf("final;%s;trunc=%d;link=%s;net=%s;trans=%s;app=%s;err=%s", ex.final.obs, tr,
			pcOTok(lk), pcOTok(nw), pcOTok(tp), pcOTok(ap), pcOTok(er))
	}()
	return ex
}

func (ex *pcExec) dispose() { pcDisposeScrubbed(ex.pkt) }

// pcDisposeScrubbed returns a pooled packet's block to the pool with all 1500 bytes zeroed.
// NewPacket(Pool) slices the block to len(data) but keeps its capacity, so a decoder that
// slices past len (a missing length check) reads whatever an earlier packet left in the block
// instead of panicking (reported by the all-layers sweep; a C04/C19 matter).  Scrubbing keeps
// that hidden input constant (zero) for both packets of a lazy/eager pair, so this check
// stays deterministic and about the framework.
func pcDisposeScrubbed(pkt gopacket.Packet) {
	pp, ok := pkt.(gopacket.PooledPacket)
	if !ok {
		return
	}
	d := pkt.Data()
	d = d[:cap(d)]
	for i := range d {
		d[i] = 0
	}
	pp.Dispose()
}

// position (by pointer identity) of a returned layer in the final Layers(); -1 when absent
func (ex *pcExec) pos(l gopacket.Layer) int {
	if pcNil(l) {
		return -2
	}
	for i, x := range ex.layers {
		if x == l {
			return i
		}
	}
	return -1
}

func (ex *pcExec) observations() []string {
	if ex.newPanic {
		return []string{"new=panic"}
	}
	out := []string{"new=ok;origin=" + ex.origin}
	for _, c := range ex.calls {
		out = append(out, c.obs)
	}
	return append(out, ex.finalObs)
}

// ---------------------------------------------------------------- tags
func pcTags(pc pcCase, ex *pcExec) []string {
	var tags []string
	add := func(t string) { tags = append(tags, t) }
	for _, s := range ex.run.steps {
		if s.adds >= 2 {
			add("multi-layer-decoder")
		}
		if s.adds >= 1 && (s.term == 'f' || s.term == 'z') {
			add("error-after-add")
		}
		if s.adds >= 1 && s.term == 'p' {
			add("panic-after-add")
		}
		if s.seter {
			add("set-error-layer")
		}
	}
	if len(ex.run.steps) >= 3 {
		add("nested")
	}
	if ex.run.failed {
		add("decode-failed")
	}
	if ex.newPanic {
		add("new-panic")
		return tags
	}
	total := len(ex.run.steps)
	for i, c := range ex.calls {
		if pc.opts.Lazy && ex.stepsAt[i+1] < total {
			add("accessor-stops-early")
		}
		if ex.failedAt[i] {
			add("accessor-after-error")
		}
		if strings.HasPrefix(pc.prog[i], "C:") && strings.Contains(pc.prog[i], ",") && c.layer != nil {
			add("class-lookup")
		}
		if c.panics {
			add("accessor-panic")
		}
	}
	if ex.origin == "pool" {
		add("pooled")
	}
	return tags
}

// F6 side condition of C03 on this case: the decoder that runs on an empty packet (no layer
// added yet) must not continue without adding a layer.
func pcViolatesF6(ex *pcExec) bool {
	addsSoFar := 0
	for _, s := range ex.run.steps {
		if s.term == 'n' && addsSoFar+s.adds == 0 {
			return true
		}
		addsSoFar += s.adds
	}
	return false
}

// ---------------------------------------------------------------- oracles (implementation only)

// C03: the same accessor program on a lazy and an eager packet of the same bytes.
func pcOracleLazyEager(pc pcCase) (fails []string, skipped string) {
	if len(pc.data) == 0 {
		return nil, "empty-input"
	}
	oe, ol := pc.opts, pc.opts
	oe.Lazy, ol.Lazy = false, true
	ee := pcExecute(pc, oe)
	defer ee.dispose()
	if ee.newPanic {
		return nil, "eager-new-panics" // SkipDecodeRecovery with a panicking decoder: no eager packet exists
	}
	if pcViolatesF6(ee) {
		return nil, "f6"
	}
	le := pcExecute(pc, ol)
	defer le.dispose()
	if le.newPanic {
		return []string{"C03:lazy-vs-eager\tlazy NewPacket panicked"}, ""
	}
	for i := range pc.prog {
		a, b := ee.calls[i], le.calls[i]
		if a.obs != b.obs {
			fails = append(fails, fmt.Sprintf("C03:lazy-vs-eager\tcall %d (%s): eager %s lazy %s", i, pc.prog[i], pcShort(a.obs), pcShort(b.obs)))
			return fails, ""
		}
		if ee.pos(a.layer) != le.pos(b.layer) {
			fails = append(fails, fmt.Sprintf("C03:lazy-vs-eager\tcall %d (%s): returned layer is #%d of the eager packet but #%d of the lazy one", i, pc.prog[i], ee.pos(a.layer), le.pos(b.layer)))
			return fails, ""
		}
		if a.raw != b.raw && pcStripStack(a.raw) != pcStripStack(b.raw) {
			fails = append(fails, fmt.Sprintf("C03:lazy-vs-eager\tcall %d (%s): rendered text differs", i, pc.prog[i]))
			return fails, ""
		}
	}
	if ee.finalObs != le.finalObs {
		fails = append(fails, fmt.Sprintf("C03:lazy-vs-eager\tafter Layers(): eager %s lazy %s", pcShort(ee.finalObs), pcShort(le.finalObs)))
	}
	return fails, ""
}

func pcShort(s string) string {
	if len(s) > 160 {
		return s[:160] + "..."
	}
	return s
}

var pcStackRe = regexp.MustCompile(`(?s)goroutine \d+ \[running\]:\n.*?\n(0{8}  |--- Layer |$)`)

// pcStripStack removes recovered-panic stack text from a Dump (it differs between eager and
// lazy by construction: different call stacks).
func pcStripStack(s string) string {
	lines := strings.Split(s, "\n")
	var out []string
	skip := false
	for _, ln := range lines {
		if strings.HasPrefix(ln, "goroutine ") && strings.HasSuffix(ln, ":") {
			skip = true
			continue
		}
		if skip {
			if pcHexLine.MatchString(ln) || pcLayerHead.MatchString(ln) {
				skip = false
			} else {
				continue
			}
		}
		out = append(out, ln)
	}
	return strings.Join(out, "\n")
}

// C01: error-layer discipline on the packet as built (after Layers()).
func pcOracleDiscipline(ex *pcExec, knowFailed bool, failed bool, anySetError bool) []string {
	var fails []string
	if ex.newPanic {
		return []string{"C01:total\tNewPacket panicked with recovery on"}
	}
	if ex.final.panics || strings.HasPrefix(ex.finalObs, "final;panic") {
		return []string{"C01:total\taccessor panicked with recovery on"}
	}
	var er gopacket.Layer
	if l := ex.pkt.ErrorLayer(); l != nil {
		er = l
	}
	ls := ex.layers
	nfail := 0
	for _, l := range ls {
		if pcIsFail(l) {
			nfail++
		}
	}
	if knowFailed && !anySetError {
		if failed && pcNil(er) {
			fails = append(fails, "C01:error-discipline\ta decoder failed but ErrorLayer() is nil")
		}
		if !failed && !pcNil(er) {
			fails = append(fails, "C01:error-discipline\tnothing failed but ErrorLayer() is non-nil")
		}
	}
	if knowFailed && failed && (len(ls) == 0 || !pcIsFail(ls[len(ls)-1])) {
		fails = append(fails, "C01:error-discipline\ta decoder failed but the last layer is not a DecodeFailure")
	}
	if !pcNil(er) {
		if !pcIsFail(er) {
			fails = append(fails, fmt.Sprintf("C01:error-discipline\terror layer is not a DecodeFailure type=%v", er.LayerType()))
		}
		if len(ls) == 0 || ls[len(ls)-1] != er {
			fails = append(fails, fmt.Sprintf("C01:error-discipline\terror layer is not last type=%v pos=%d of %d", er.LayerType(), ex.pos(er), len(ls)))
		}
	}
	for i, l := range ls {
		if pcIsFail(l) && l != er {
			fails = append(fails, fmt.Sprintf("C01:error-discipline\tlayer %d is a DecodeFailure but not the error layer", i))
			break
		}
	}
	if pcNil(er) && nfail > 0 {
		fails = append(fails, "C01:error-discipline\tDecodeFailure layer present but ErrorLayer() is nil")
	}
	return fails
}

// ---------------------------------------------------------------- generators
type pcGen struct {
	rng *rand.Rand
}

var pcOptCombos = func() []gopacket.DecodeOptions {
	var out []gopacket.DecodeOptions
	for i := 0; i < 16; i++ {
		out = append(out, gopacket.DecodeOptions{Lazy: i&1 != 0, NoCopy: i&2 != 0, Pool: i&4 != 0, DecodeStreamsAsDatagrams: i&8 != 0})
	}
	return out
}()

type pcFamily struct {
	ids   []int
	table map[int]pcScript
	types []int // layer types that occur
}

func (f pcFamily) ops() []string {
	var out []string
	for _, id := range f.ids {
		if sc, ok := f.table[id]; ok {
			out = append(out, pcDecOp(id, sc))
		}
	}
	return out
}

// genFamily builds a terminating scripted family.  Termination: `next` edges go forward in
// f.ids, except in "shrinking" families (payload modes r/e only) where a variant whose last
// added layer consumes >= 1 byte may also point backwards or at itself.
func (g pcGen) genFamily(allowSetError bool, allowNoAdd bool) pcFamily {
	rng := g.rng
	n := 1 + rng.Intn(7)
	perm := rng.Perm(len(pcRegistered))
	f := pcFamily{table: map[int]pcScript{}}
	for i := 0; i < n; i++ {
		f.ids = append(f.ids, pcRegistered[perm[i]])
	}
	shrinking := rng.Intn(3) == 0
	typePool := append([]int{}, f.ids...)
	typePool = append(typePool, 1, 1990) // 1 = the number of LayerTypeDecodeFailure, claimed by an ordinary layer
	seen := map[int]bool{}
	for i, id := range f.ids {
		nv := 1
		if rng.Intn(3) == 0 {
			nv = 2 + rng.Intn(2)
		}
		var sc pcScript
		for vi := 0; vi < nv; vi++ {
			var v pcVariant
			nl := []int{1, 1, 1, 2, 2, 3, 0}[rng.Intn(7)]
			if nl == 0 && !allowNoAdd {
				nl = 1
			}
			for k := 0; k < nl; k++ {
				t := id
				if rng.Intn(4) == 0 {
					t = typePool[rng.Intn(len(typePool))]
				}
				l := pcLspec{typ: t, clen: []int{0, 1, 1, 1, 2, 2, 2, 3, 3, 5, 99999}[rng.Intn(11)], pmode: 'r'}
				if !shrinking {
					switch rng.Intn(10) {
					case 0:
						l.pmode = 'e'
					case 1:
						l.pmode = 'w'
					case 2:
						l.pmode = 'c'
						l.cst = make([]byte, rng.Intn(4))
						rng.Read(l.cst)
					}
				} else if rng.Intn(10) == 0 {
					l.pmode = 'e'
				}
				v.layers = append(v.layers, l)
				seen[t] = true
			}
			// actions: adds in order, kind setters sprinkled around
			lastAdd := -1
			for k := 0; k < nl; k++ {
				if rng.Intn(12) == 0 {
					continue // a layer that is created but never added
				}
				if rng.Intn(6) == 0 {
					v.acts = append(v.acts, pcAct{kind: "lntp"[rng.Intn(4)], k: k}) // set before add
				}
				v.acts = append(v.acts, pcAct{kind: 'a', k: k})
				lastAdd = k
				for rng.Intn(3) == 0 {
					v.acts = append(v.acts, pcAct{kind: "lntp"[rng.Intn(4)], k: rng.Intn(nl)})
				}
				if allowSetError && rng.Intn(8) == 0 {
					v.acts = append(v.acts, pcAct{kind: 'e', k: k})
				}
				if rng.Intn(10) == 0 {
					v.acts = append(v.acts, pcAct{kind: 'x'})
				}
			}
			if nl == 0 && rng.Intn(3) == 0 {
				v.acts = append(v.acts, pcAct{kind: 'x'})
			}
			pickTerm := func() pcTerm {
				r := rng.Intn(20)
				switch {
				case r < 11:
					// next
					var cands []int
					for j := i + 1; j < len(f.ids); j++ {
						cands = append(cands, f.ids[j])
					}
					if i+1 < len(f.ids) && rng.Intn(10) < 6 {
						return pcTerm{kind: 'n', next: f.ids[i+1]} // long chains: the lazy machine stops in the middle
					}
					if rng.Intn(8) == 0 {
						cands = append(cands, pcUnregistered, pcNoDecoder, 0)
					}
					if shrinking && lastAdd >= 0 && v.layers[lastAdd].clen >= 1 {
						for j := 0; j <= i; j++ {
							cands = append(cands, f.ids[j], f.ids[j])
						}
					}
					if len(cands) == 0 {
						return pcTerm{kind: 'r'}
					}
					return pcTerm{kind: 'n', next: cands[rng.Intn(len(cands))]}
				case r < 14:
					return pcTerm{kind: 'r'}
				case r < 16:
					return pcTerm{kind: 'f'}
				case r < 18:
					return pcTerm{kind: 'p'}
				case r < 19:
					return pcTerm{kind: 'z'}
				}
				return pcTerm{kind: 'r'}
			}
			v.term = pickTerm()
			if rng.Intn(4) == 0 {
				t := pickTerm()
				v.dsad = &t
			}
			sc = append(sc, v)
		}
		f.table[id] = sc
	}
	for t := range seen {
		f.types = append(f.types, t)
	}
	// deterministic order
	for i := 1; i < len(f.types); i++ {
		for j := i; j > 0 && f.types[j] < f.types[j-1]; j-- {
			f.types[j], f.types[j-1] = f.types[j-1], f.types[j]
		}
	}
	return f
}

func (g pcGen) genData(allowEmpty bool) []byte {
	rng := g.rng
	var n int
	switch r := rng.Intn(40); {
	case r == 0 && allowEmpty:
		n = 0
	case r == 1 || r == 2:
		n = []int{1499, 1500, 1500, 1501}[rng.Intn(4)]
	case r < 7:
		n = 1
	default:
		n = 1 + rng.Intn(24)
	}
	b := make([]byte, n)
	rng.Read(b)
	return b
}

func (g pcGen) genAccessor(f pcFamily) string {
	rng := g.rng
	pickType := func() int {
		if len(f.ids) > 0 && rng.Intn(2) == 0 {
			return f.ids[rng.Intn(pcMin(len(f.ids), 3))] // an early layer: the lazy packet stops there
		}
		switch r := rng.Intn(10); {
		case r < 7 && len(f.types) > 0:
			return f.types[rng.Intn(len(f.types))]
		case r < 9:
			return 1
		}
		return 1991
	}
	switch r := rng.Intn(100); {
	case r < 25:
		return "L:" + strconv.Itoa(pickType())
	case r < 40:
		k := 1 + rng.Intn(3)
		var ts []string
		for i := 0; i < k; i++ {
			ts = append(ts, strconv.Itoa(pickType()))
		}
		return "C:" + strings.Join(ts, ",")
	case r < 48:
		return "lk"
	case r < 56:
		return "nw"
	case r < 64:
		return "tr"
	case r < 72:
		return "ap"
	case r < 82:
		return "er"
	case r < 88:
		return "ls"
	case r < 94:
		return "st"
	}
	return "du"
}

func (g pcGen) genProgram(f pcFamily, maxLen int) []string {
	n := g.rng.Intn(maxLen + 1)
	var out []string
	for i := 0; i < n; i++ {
		out = append(out, g.genAccessor(f))
	}
	return out
}

func pcMakeCase(prop string, o gopacket.DecodeOptions, data []byte, first int, f pcFamily, prog []string) Case {
	ops := []string{pcOptString(o), "d:" + hex.EncodeToString(data), "f:" + strconv.Itoa(first)}
	ops = append(ops, f.ops()...)
	ops = append(ops, prog...)
	return Case{Prop: prop, Ops: ops}
}

var pcAllAccessorKinds = []string{"L", "C", "lk", "nw", "tr", "ap", "er", "ls", "st", "du"}
