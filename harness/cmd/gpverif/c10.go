package main

import (
	"bytes"
	"encoding/hex"
	"fmt"
	"math/rand"
	"sort"
	"strconv"
	"strings"
	"time"

	"github.com/gopacket/gopacket"
	"github.com/gopacket/gopacket/layers"
	"github.com/gopacket/gopacket/tcpassembly"
)

// C10: tcpassembly delivers the bytes of one direction in order, exactly once, gaps announced.
//
// Ops:  cfg:maxPerConn,maxTotal   src:isn,hexS,w   seg:seq,flags,ts,hex   fot:t   fall
//   flags: 1=SYN 2=FIN 4=RST.  src carries the sender's stream for the oracle (w=1: the
//   history is consistent with (isn,S) and inside the window hypothesis, oracle on; w=0:
//   arbitrary segments, correspondence only).  One observation per seg/fot/fall op:
//   new=<StreamFactory.New calls>;calls=<call>|<call>;done=<ReassemblyComplete calls>;panic=<0|1>
//   call = chunk,chunk   chunk = skip/hexbytes/start/end
type c10 struct{}

func init() { register("C10", c10{}) }

const (
	c10SYN = 1
	c10FIN = 2
	c10RST = 4
)

// ---------------------------------------------------------------- generator

type c10seg struct {
	off   int // offset in S (SYN: 0)
	n     int
	flags int
	key   float64 // arrival sort key
}

var c10Bases = []uint64{0, 1 << 30, 1 << 31, 3 << 30, 1 << 32}

func c10ISN(rng *rand.Rand, slen int) uint32 {
	if rng.Intn(2) == 0 {
		return rng.Uint32()
	}
	base := c10Bases[rng.Intn(len(c10Bases))]
	k := uint64(rng.Intn(slen + 12))
	switch rng.Intn(4) {
	case 0:
		k = uint64(rng.Intn(4))
	case 1:
		k = uint64(rng.Intn(2000))
	}
	if rng.Intn(3) == 0 {
		return uint32(base + k)
	}
	return uint32(base - k)
}

func c10SegLen(rng *rand.Rand, mode int) int {
	switch mode {
	case 0:
		return 1 + rng.Intn(20)
	case 1:
		return 100 + rng.Intn(1361)
	case 2:
		return 1901 + rng.Intn(2600)
	case 3:
		return []int{1899, 1900, 1901, 3799, 3800, 3801, 1, 2}[rng.Intn(8)]
	default:
		return c10SegLen(rng, rng.Intn(4))
	}
}

func c10SLen(rng *rand.Rand) int {
	switch rng.Intn(10) {
	case 0:
		return rng.Intn(3)
	case 1, 2:
		return 2 + rng.Intn(100)
	case 3, 4, 5, 6:
		return 100 + rng.Intn(2900)
	default:
		return 3000 + rng.Intn(3001)
	}
}

func c10Limits(rng *rand.Rand) (int, int) {
	lim := []int{0, 1, 2, 5}
	switch rng.Intn(4) {
	case 0, 1:
		return 0, 0
	case 2:
		if rng.Intn(2) == 0 {
			return lim[1+rng.Intn(3)], 0
		}
		return 0, lim[1+rng.Intn(3)]
	default:
		return lim[rng.Intn(4)], lim[rng.Intn(4)]
	}
}

func c10SegOp(isn uint32, S []byte, sg c10seg, ts int) string {
	seq := isn + 1 + uint32(sg.off)
	if sg.flags&c10SYN != 0 {
		seq = isn
	}
	return fmt.Sprintf("seg:%d,%d,%d,%s", seq, sg.flags, ts, hex.EncodeToString(S[sg.off:sg.off+sg.n]))
}

// a history consistent with one sender stream (inside the window hypothesis)
func c10GenConsistent(rng *rand.Rand, slen int, small bool) Case {
	S := make([]byte, slen)
	rng.Read(S)
	isn := c10ISN(rng, slen)
	mode := rng.Intn(6)
	if small {
		mode = 0
	}
	var segs []c10seg
	for off := 0; off < slen; {
		n := c10SegLen(rng, mode)
		if off+n > slen {
			n = slen - off
		}
		segs = append(segs, c10seg{off: off, n: n})
		off += n
	}
	nbase := len(segs)
	if rng.Intn(3) == 0 && nbase > 0 {
		// put a segment boundary exactly at (or one off) the wrap / a quarter boundary
		c := segs[rng.Intn(nbase)].off
		base := c10Bases[rng.Intn(len(c10Bases))]
		isn = uint32(base - 1 - uint64(c) + uint64(rng.Intn(3)) - 1)
	}
	// arrival keys: bounded displacement
	disp := []int{0, 1, 2, 4, 8, 1000}[rng.Intn(6)]
	for i := range segs {
		segs[i].key = float64(i) + rng.Float64()*float64(disp)
	}
	// losses
	if rng.Intn(3) == 0 && len(segs) > 1 {
		nl := 1 + rng.Intn(2)
		for j := 0; j < nl && len(segs) > 1; j++ {
			k := rng.Intn(len(segs))
			segs = append(segs[:k], segs[k+1:]...)
		}
	}
	// overlapping retransmissions and duplicates
	if slen > 0 {
		nr := []int{0, 0, 1, 2, 4, 8}[rng.Intn(6)]
		for j := 0; j < nr; j++ {
			if rng.Intn(3) == 0 && len(segs) > 0 {
				d := segs[rng.Intn(len(segs))]
				d.key = d.key + rng.Float64()*float64(disp+2) - 1
				segs = append(segs, d)
				continue
			}
			off := rng.Intn(slen)
			n := c10SegLen(rng, mode)
			if rng.Intn(4) == 0 {
				n = 1 + rng.Intn(3)
			}
			if off+n > slen {
				n = slen - off
			}
			pos := float64(off) / float64(slen+1) * float64(nbase)
			segs = append(segs, c10seg{off: off, n: n, key: pos + rng.Float64()*float64(disp+3) - 1})
		}
	}
	// FIN / RST
	endFlag := 0
	switch rng.Intn(8) {
	case 0, 1:
	case 2:
		endFlag = c10RST
	default:
		endFlag = c10FIN
	}
	if endFlag != 0 {
		for i := range segs {
			if segs[i].off+segs[i].n == slen && rng.Intn(5) != 0 {
				segs[i].flags |= endFlag
			}
		}
		if rng.Intn(2) == 0 || slen == 0 {
			nf := 1 + rng.Intn(2)
			for j := 0; j < nf; j++ {
				segs = append(segs, c10seg{off: slen, n: 0, flags: endFlag, key: float64(nbase) + rng.Float64()*float64(disp+1) - float64(rng.Intn(2)*disp)})
			}
		}
	}
	sort.SliceStable(segs, func(a, b int) bool { return segs[a].key < segs[b].key })
	// SYN
	synN := 0
	if slen > 0 && rng.Intn(6) == 0 {
		synN = 1 + rng.Intn(30)
		if synN > slen {
			synN = slen
		}
	}
	syn := c10seg{off: 0, n: synN, flags: c10SYN}
	if slen == 0 && endFlag == c10FIN && rng.Intn(4) == 0 {
		syn.flags |= c10FIN
	}
	insertAt := func(k int, s c10seg) {
		segs = append(segs, c10seg{})
		copy(segs[k+1:], segs[k:])
		segs[k] = s
	}
	switch r := rng.Intn(20); {
	case r < 12:
		insertAt(0, syn)
	case r < 17:
		insertAt(rng.Intn(len(segs)+1), syn)
	}
	if rng.Intn(8) == 0 {
		insertAt(rng.Intn(len(segs)+1), syn) // duplicate / second SYN
	}
	// ops with timestamps and flushes
	mp, mt := c10Limits(rng)
	ops := []string{fmt.Sprintf("cfg:%d,%d", mp, mt), fmt.Sprintf("src:%d,%s,1", isn, hex.EncodeToString(S))}
	dt := []int{0, 1, 1, 10}[rng.Intn(4)]
	ts := 1000
	pflush := []int{0, 0, 3, 10, 25}[rng.Intn(5)]
	for _, sg := range segs {
		ts += dt
		t := ts
		if rng.Intn(8) == 0 {
			t -= rng.Intn(3 * (dt + 1))
		}
		ops = append(ops, c10SegOp(isn, S, sg, t))
		if rng.Intn(100) < pflush {
			if rng.Intn(6) == 0 {
				ops = append(ops, "fall")
			} else {
				d := []int{-25, -5, -1, 0, 1, 2, 5, 1000}[rng.Intn(8)]
				ops = append(ops, fmt.Sprintf("fot:%d", ts+d))
			}
		}
	}
	switch rng.Intn(10) {
	case 0:
	case 1:
		ops = append(ops, fmt.Sprintf("fot:%d", ts+1), fmt.Sprintf("fot:%d", ts+2))
	default:
		ops = append(ops, "fall")
	}
	return Case{Prop: "C10", Ops: ops}
}

// arbitrary segments: no sender, sequence numbers clustered around a few points of the
// 32-bit space (possibly more than 2^30 apart): correspondence only
func c10GenWild(rng *rand.Rand) Case {
	mp, mt := c10Limits(rng)
	ops := []string{fmt.Sprintf("cfg:%d,%d", mp, mt), "src:0,,0"}
	nb := 1 + rng.Intn(3)
	bases := make([]uint32, nb)
	for i := range bases {
		if rng.Intn(2) == 0 {
			bases[i] = rng.Uint32()
		} else {
			bases[i] = uint32(c10Bases[rng.Intn(len(c10Bases))]) + uint32(rng.Intn(5)) - 2
		}
	}
	n := 1 + rng.Intn(25)
	ts := 500
	for i := 0; i < n; i++ {
		ts += rng.Intn(3)
		switch r := rng.Intn(20); {
		case r == 0:
			ops = append(ops, "fall")
		case r < 3:
			ops = append(ops, fmt.Sprintf("fot:%d", ts+rng.Intn(7)-3))
		default:
			seq := bases[rng.Intn(nb)] + uint32(rng.Intn(6000)) - 1000
			ln := 0
			switch rng.Intn(5) {
			case 0:
			case 1:
				ln = 1 + rng.Intn(4)
			case 2:
				ln = 1900 + rng.Intn(3) - 1
			case 3:
				ln = 1 + rng.Intn(4500)
			default:
				ln = 1 + rng.Intn(300)
			}
			b := make([]byte, ln)
			rng.Read(b)
			fl := 0
			if rng.Intn(6) == 0 {
				fl |= c10SYN
			}
			if rng.Intn(10) == 0 {
				fl |= c10FIN
			}
			if rng.Intn(25) == 0 {
				fl |= c10RST
			}
			ops = append(ops, fmt.Sprintf("seg:%d,%d,%d,%s", seq, fl, ts, hex.EncodeToString(b)))
		}
	}
	if rng.Intn(2) == 0 {
		ops = append(ops, "fall")
	}
	return Case{Prop: "C10", Ops: ops}
}

// exhaustive arrival orders of the segments of a small stream
func c10GenPermutations(out *[]Case, S []byte, isn uint32, cuts []int, withSyn bool, mp, mt int, maxPerms int, rng *rand.Rand) {
	var segs []c10seg
	prev := 0
	for _, c := range append(append([]int(nil), cuts...), len(S)) {
		segs = append(segs, c10seg{off: prev, n: c - prev})
		prev = c
	}
	segs[len(segs)-1].flags |= c10FIN
	if withSyn {
		segs = append([]c10seg{{off: 0, n: 0, flags: c10SYN}}, segs...)
	}
	idx := make([]int, len(segs))
	for i := range idx {
		idx[i] = i
	}
	count := 0
	var rec func(k int)
	rec = func(k int) {
		if maxPerms > 0 && count >= maxPerms {
			return
		}
		if k == len(idx) {
			count++
			ops := []string{fmt.Sprintf("cfg:%d,%d", mp, mt), fmt.Sprintf("src:%d,%s,1", isn, hex.EncodeToString(S))}
			for j, i := range idx {
				ops = append(ops, c10SegOp(isn, S, segs[i], 100+j))
			}
			ops = append(ops, "fall")
			*out = append(*out, Case{Prop: "C10", Ops: ops})
			return
		}
		for i := k; i < len(idx); i++ {
			idx[k], idx[i] = idx[i], idx[k]
			rec(k + 1)
			idx[k], idx[i] = idx[i], idx[k]
		}
	}
	rec(0)
}

func (c10) Gen(rng *rand.Rand, tier string) []Case {
	var out []Case
	nCons, nWild, nSmall := 900, 250, 300
	if tier == "thorough" {
		nCons, nWild, nSmall = 6000, 2000, 3000
	}
	// exhaustive permutations of small segmentations at the boundary ISNs
	S := make([]byte, 12)
	rng.Read(S)
	isns := []uint32{0xfffffff8, 0x3ffffffa, 0x7ffffffb, 0xbffffffc, 0, 12345678}
	cutsets := [][]int{{3, 6, 9}, {1, 2, 11}, {4, 8}}
	if tier == "thorough" {
		cutsets = [][]int{{2, 4, 6, 8, 10}, {1, 2, 3, 11}, {3, 6, 9}}
	}
	for ii, isn := range isns {
		for ci, cuts := range cutsets {
			for _, lim := range [][2]int{{0, 0}, {2, 0}, {0, 1}} {
				if tier != "thorough" && lim[0]+lim[1] > 0 && ci > 0 {
					continue
				}
				if tier == "thorough" && lim[0]+lim[1] > 0 && ci == 0 && ii > 0 {
					continue // the 5040-permutation set with limits only at the wrap ISN
				}
				c10GenPermutations(&out, S, isn, cuts, true, lim[0], lim[1], 0, rng)
			}
		}
	}
	// a one-byte segment ending exactly at the wrap / each quarter boundary, all arrival orders
	for _, base := range []uint64{1 << 32, 1 << 30, 1 << 31, 3 << 30} {
		for _, d := range []uint64{0, 1} {
			c10GenPermutations(&out, S, uint32(base-1-1-5+d), []int{5, 6, 9}, true, 0, 0, 0, rng)
		}
	}
	for i := 0; i < nSmall; i++ {
		out = append(out, c10GenConsistent(rng, 1+rng.Intn(60), true))
	}
	for i := 0; i < nCons; i++ {
		out = append(out, c10GenConsistent(rng, c10SLen(rng), false))
	}
	for i := 0; i < nWild; i++ {
		out = append(out, c10GenWild(rng))
	}
	return out
}

// ---------------------------------------------------------------- recording stream + oracle

type c10chunk struct {
	skip       int
	b          []byte
	start, end bool
}

type c10arr struct{ off, n int }

type c10stream struct {
	f        *c10rec
	id       int
	done     int
	nchunks  int
	posKnown bool
	pos      int
	firstPos int
	synFed   bool
	arrived  []c10arr
}

type c10rec struct {
	streams []*c10stream
	// per op
	news  int
	calls [][]c10chunk
	dones int
	// oracle
	on      bool
	S       []byte
	cur     *c10arr // segment being processed (nil for flushes)
	curSyn  bool
	inSeg   bool
	limits  bool
	fails   []string
	failed  map[string]bool
	opIndex int
}

func (f *c10rec) fail(clause, detail string) {
	if !f.on || f.failed[clause] {
		return
	}
	f.failed[clause] = true
	f.fails = append(f.fails, fmt.Sprintf("C10:%s\top %d: %s", clause, f.opIndex, detail))
}

func (f *c10rec) New(netFlow, tcpFlow gopacket.Flow) tcpassembly.Stream {
	s := &c10stream{f: f, id: len(f.streams)}
	f.streams = append(f.streams, s)
	f.news++
	return s
}

func (s *c10stream) ReassemblyComplete() {
	s.f.dones++
	s.done++
	if s.done > 1 {
		s.f.fail("complete-twice", fmt.Sprintf("stream %d", s.id))
	}
}

// pages a segment is cut into when buffered (pageBytes = 1900)
func c10pagesOf(a c10arr) []c10arr {
	if a.n == 0 {
		return []c10arr{a}
	}
	var out []c10arr
	for o := 0; o < a.n; o += 1900 {
		n := a.n - o
		if n > 1900 {
			n = 1900
		}
		out = append(out, c10arr{a.off + o, n})
	}
	return out
}

func (s *c10stream) Reassembled(rs []tcpassembly.Reassembly) {
	f := s.f
	call := make([]c10chunk, 0, len(rs))
	for _, r := range rs {
		call = append(call, c10chunk{r.Skip, append([]byte(nil), r.Bytes...), r.Start, r.End})
	}
	f.calls = append(f.calls, call)
	if !f.on {
		return
	}
	// ---- the property, stated on what the stream receives
	if s.done > 0 {
		f.fail("after-complete", fmt.Sprintf("stream %d got data after ReassemblyComplete", s.id))
	}
	if len(call) == 0 {
		f.fail("empty-call", "Reassembled with no element")
	}
	all := s.arrived
	if f.cur != nil {
		all = append(append([]c10arr(nil), s.arrived...), *f.cur)
	}
	synFed := s.synFed || (f.cur != nil && f.curSyn)
	for ci, ch := range call {
		first := s.nchunks == 0
		s.nchunks++
		if ch.start {
			if !first || ch.skip != 0 {
				f.fail("start", fmt.Sprintf("Start on element %d of the stream with skip %d", s.nchunks-1, ch.skip))
			}
			if !synFed {
				f.fail("start", "Start without a SYN")
			}
			s.posKnown, s.pos, s.firstPos = true, 0, 0
		}
		switch {
		case ch.skip == -1:
			if synFed {
				f.fail("skip-unknown", "Skip=-1 although the SYN of this stream had been seen")
			}
			if s.posKnown {
				f.fail("skip-unknown", "Skip=-1 after the position was known")
			}
			// locate: must be one page of a segment that arrived on this stream
			found := false
			for _, a := range all {
				for _, pg := range c10pagesOf(a) {
					if pg.n == len(ch.b) && pg.off+pg.n <= len(f.S) && bytes.Equal(f.S[pg.off:pg.off+pg.n], ch.b) {
						if !found || pg.off < s.pos {
							s.pos = pg.off
						}
						found = true
					}
				}
			}
			if !found {
				f.fail("bytes", fmt.Sprintf("element with Skip=-1 (%d bytes) is not a buffered page of any segment received", len(ch.b)))
				return
			}
			s.posKnown, s.firstPos = true, s.pos
		case ch.skip < -1:
			f.fail("skip-negative", fmt.Sprintf("Skip=%d", ch.skip))
		case ch.skip > 0:
			if !s.posKnown {
				f.fail("skip-count", "positive Skip before any position")
				return
			}
			if ci != 0 && !(f.inSeg && f.limits) {
				// a flush pops one page and then only contiguous ones; only the limit loop of
				// insertIntoConn may pop several pages with a gap in front of each
				f.fail("skip-not-first", fmt.Sprintf("Skip=%d on element %d of one call", ch.skip, ci))
			}
			if f.inSeg && !f.limits {
				f.fail("skip-unforced", fmt.Sprintf("Assemble with no page limit delivered Skip=%d", ch.skip))
			}
			// the skipped bytes must really be missing: never received on this stream
			for _, a := range all {
				lo, hi := a.off, a.off+a.n
				if lo < s.pos {
					lo = s.pos
				}
				if hi > s.pos+ch.skip {
					hi = s.pos + ch.skip
				}
				if lo < hi {
					f.fail("skip-had-data", fmt.Sprintf("Skip=%d at offset %d covers received bytes [%d,%d)", ch.skip, s.pos, lo, hi))
					break
				}
			}
			s.pos += ch.skip
		default: // skip == 0
			if !s.posKnown {
				if first {
					// a stream may legitimately begin with Skip=0 only through its SYN
					f.fail("start", "first element has Skip=0 and no Start")
				}
				return
			}
		}
		// bytes at absolute offset pos are S[pos..pos+len)
		if s.pos+len(ch.b) > len(f.S) {
			f.fail("bytes", fmt.Sprintf("%d bytes at offset %d run past the sender's stream (%d)", len(ch.b), s.pos, len(f.S)))
			return
		}
		if !bytes.Equal(f.S[s.pos:s.pos+len(ch.b)], ch.b) {
			k := 0
			for ch.b[k] == f.S[s.pos+k] {
				k++
			}
			f.fail("bytes", fmt.Sprintf("byte at offset %d is %02x, sender's is %02x (element of %d bytes at %d, skip %d)", s.pos+k, ch.b[k], f.S[s.pos+k], len(ch.b), s.pos, ch.skip))
			return
		}
		s.pos += len(ch.b)
		if ch.end && s.pos != len(f.S) {
			f.fail("end", fmt.Sprintf("End delivered at offset %d, the stream has %d bytes", s.pos, len(f.S)))
		}
	}
}

// ---------------------------------------------------------------- run

func c10chunkStr(c c10chunk) string {
	b2i := func(b bool) int {
		if b {
			return 1
		}
		return 0
	}
	return fmt.Sprintf("%d/%s/%d/%d", c.skip, hex.EncodeToString(c.b), b2i(c.start), b2i(c.end))
}

func (c10) Run(c Case) Result {
	var res Result
	rec := &c10rec{failed: map[string]bool{}}
	pool := tcpassembly.NewStreamPool(rec)
	asm := tcpassembly.NewAssembler(pool)
	netFlow := gopacket.NewFlow(layers.EndpointIPv4, []byte{10, 0, 0, 1}, []byte{10, 0, 0, 2})
	var isn uint32
	dead := false
	tags := map[string]bool{}
	for i, op := range c.Ops {
		name, arg, _ := strings.Cut(op, ":")
		args := strings.Split(arg, ",")
		switch name {
		case "cfg":
			mp, _ := strconv.Atoi(args[0])
			mt, _ := strconv.Atoi(args[1])
			asm.MaxBufferedPagesPerConnection = mp
			asm.MaxBufferedPagesTotal = mt
			rec.limits = mp > 0 || mt > 0
			continue
		case "src":
			v, _ := strconv.ParseUint(args[0], 10, 32)
			isn = uint32(v)
			rec.S, _ = hex.DecodeString(args[1])
			rec.on = len(args) > 2 && args[2] == "1"
			continue
		}
		rec.news, rec.calls, rec.dones = 0, nil, 0
		rec.opIndex = i
		rec.cur, rec.curSyn, rec.inSeg = nil, false, false
		panicked := false
		if dead {
			res.Obs = append(res.Obs, "new=0;calls=;done=0;panic=1")
			continue
		}
		var live *c10stream
		if n := len(rec.streams); n > 0 && rec.streams[n-1].done == 0 {
			live = rec.streams[n-1]
		}
		func() {
			defer func() {
				if r := recover(); r != nil {
					panicked = true
				}
			}()
			switch name {
			case "seg":
				seq, _ := strconv.ParseUint(args[0], 10, 32)
				fl, _ := strconv.Atoi(args[1])
				ts, _ := strconv.ParseInt(args[2], 10, 64)
				payload, _ := hex.DecodeString(args[3])
				tcp := &layers.TCP{SrcPort: 1000, DstPort: 80, Seq: uint32(seq),
					SYN: fl&c10SYN != 0, FIN: fl&c10FIN != 0, RST: fl&c10RST != 0}
				tcp.Payload = payload
				off := int(uint32(seq) - isn - 1)
				if fl&c10SYN != 0 {
					off = 0
				}
				rec.cur = &c10arr{off, len(payload)}
				rec.curSyn = fl&c10SYN != 0
				rec.inSeg = true
				asm.AssembleWithTimestamp(netFlow, tcp, time.Unix(ts, 0))
				// attribute the segment to the stream that was live while it was processed
				st := live
				if rec.news > 0 {
					st = rec.streams[len(rec.streams)-1]
				}
				if st != nil {
					st.arrived = append(st.arrived, *rec.cur)
					if rec.curSyn {
						st.synFed = true
					}
				}
			case "fot":
				t, _ := strconv.ParseInt(args[0], 10, 64)
				asm.FlushOlderThan(time.Unix(t, 0))
			case "fall":
				asm.FlushAll()
			}
		}()
		var cs []string
		if !panicked {
			for _, call := range rec.calls {
				var ch []string
				for _, x := range call {
					ch = append(ch, c10chunkStr(x))
				}
				cs = append(cs, strings.Join(ch, ","))
			}
		}
		pn := 0
		if panicked {
			pn = 1
			dead = true // the connection mutex is still locked
			rec.fail("panic", "panic in "+name)
			res.Obs = append(res.Obs, fmt.Sprintf("new=%d;calls=;done=0;panic=1", rec.news))
			continue
		}
		res.Obs = append(res.Obs, fmt.Sprintf("new=%d;calls=%s;done=%d;panic=%d", rec.news, strings.Join(cs, "|"), rec.dones, pn))
		if rec.on {
			if rec.news > 1 {
				rec.fail("one-stream-per-call", fmt.Sprintf("%d streams created by one call", rec.news))
			}
			if name == "seg" && len(rec.calls) > 1 {
				rec.fail("one-call-per-assemble", fmt.Sprintf("%d Reassembled calls from one Assemble", len(rec.calls)))
			}
			// a completed stream has delivered or announced everything it received
			for _, s := range rec.streams {
				if s.done > 0 && s.posKnown {
					for _, a := range s.arrived {
						if a.n > 0 && a.off+a.n > s.pos {
							rec.fail("lost", fmt.Sprintf("stream %d completed at offset %d but had received [%d,%d)", s.id, s.pos, a.off, a.off+a.n))
						}
					}
					s.arrived = nil
				}
				if s.done > 0 && !s.posKnown {
					for _, a := range s.arrived {
						if a.n > 0 {
							rec.fail("lost", fmt.Sprintf("stream %d completed without delivering anything but had received [%d,%d)", s.id, a.off, a.off+a.n))
						}
					}
					s.arrived = nil
				}
			}
			if name == "fall" {
				for _, s := range rec.streams {
					if s.done != 1 {
						rec.fail("flushall-completes", fmt.Sprintf("stream %d has %d completions after FlushAll", s.id, s.done))
					}
				}
			}
		}
	}
	res.Oracle = rec.fails
	for t := range tags {
		res.Tags = append(res.Tags, t)
	}
	return res
}
