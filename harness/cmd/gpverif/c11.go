package main

import (
	"fmt"
	"math/rand"
	"net"
	"sort"
	"strconv"
	"strings"
	"time"

	"github.com/gopacket/gopacket"
	"github.com/gopacket/gopacket/layers"
	"github.com/gopacket/gopacket/reassembly"
	"github.com/gopacket/gopacket/tcpassembly"
)

// C11: stream lifecycle, buffering bounds and leak-freedom of the two assemblers over a
// POOL of connections.
//
// Ops:  pkg:t|r   cfg:maxPerConn,maxTotal   keep:m.x/m.x|-   decl:0/1|-
//       seg:key,dir,seq,flags,len,ts   fl:t,x   fa
//   flags: 1=SYN 2=FIN 4=RST.  x: tcpassembly CloseAll 0/1; reassembly TC.  A time of -1
//   is the zero time.Time.  keep: KeepFrom script of the streams (entry (sid+n) mod length for
//   the n-th ReassembledSG call of stream sid: 0 none, 1 KeepFrom(x), 2 KeepFrom(saved+x), 3 KeepFrom(avail+x));
//   decl: stream number sid declines removal iff entry sid mod length is 1.
// One observation per seg/fl/fa op:
//   ev=<callbacks, stable-sorted by stream>;ret=a,b;used=<pages in use>;live=<connections in
//   the pool>;free=<free list length>;pg=<per connection counters, sorted by stream>;panic=0
//   N<sid> New; D<sid>:chunks:bytes:skip:start:end:seen:saved one Reassembled(SG) call;
//   C<sid>:removed ReassemblyComplete.
type c11 struct{}

func init() { register("C11", c11{}) }

const (
	c11SYN = 1
	c11FIN = 2
	c11RST = 4
)

// ---------------------------------------------------------------- generator

type c11sender struct {
	key, dir int
	isn      uint32
	segs     []c11seg // in arrival order
	next     int
	open     bool
}

type c11seg struct {
	off, n, flags int
}

func c11SegLen(rng *rand.Rand, mode int) int {
	switch mode {
	case 0:
		return 1 + rng.Intn(30)
	case 1:
		return 500 + rng.Intn(1400)
	case 2:
		return 1901 + rng.Intn(4000)
	case 3:
		return []int{1899, 1900, 1901, 3799, 3800, 3801, 5700, 5701, 1, 2}[rng.Intn(10)]
	default:
		if rng.Intn(4) == 0 {
			return c11SegLen(rng, 2+rng.Intn(2))
		}
		return c11SegLen(rng, rng.Intn(2))
	}
}

func c11ISN(rng *rand.Rand) uint32 {
	switch rng.Intn(6) {
	case 0:
		return uint32(0xFFFFFFFF - rng.Intn(3000))
	case 1:
		return uint32(rng.Intn(2000))
	case 2:
		return uint32(1<<30 - rng.Intn(3000))
	default:
		return rng.Uint32()
	}
}

// a sender: its stream cut into segments, put into an arrival order
func c11NewSender(rng *rand.Rand, key, dir int, mode int, disorder int) *c11sender {
	s := &c11sender{key: key, dir: dir, isn: c11ISN(rng), open: true}
	nseg := 1 + rng.Intn(7)
	var base []c11seg
	if rng.Intn(8) != 0 {
		n := 0
		if rng.Intn(6) == 0 {
			n = 1 + rng.Intn(20) // SYN with data
		}
		base = append(base, c11seg{off: 0, n: n, flags: c11SYN})
	}
	off := 0
	if len(base) > 0 {
		off = base[0].n
	}
	for i := 0; i < nseg; i++ {
		n := c11SegLen(rng, mode)
		base = append(base, c11seg{off: off, n: n})
		off += n
	}
	switch rng.Intn(6) {
	case 0, 1, 2:
		n := 0
		if rng.Intn(3) == 0 {
			n = c11SegLen(rng, 0)
		}
		base = append(base, c11seg{off: off, n: n, flags: c11FIN})
	case 3:
		base = append(base, c11seg{off: off, n: 0, flags: c11RST})
	}
	// extras: duplicates, overlapping retransmissions, a hole (one segment dropped)
	if len(base) > 2 && rng.Intn(3) == 0 {
		i := 1 + rng.Intn(len(base)-1)
		if base[i].flags == 0 {
			base = append(base[:i], base[i+1:]...) // lost segment: a gap stays
		}
	}
	if rng.Intn(3) == 0 {
		d := base[rng.Intn(len(base))]
		base = append(base, d)
	}
	if rng.Intn(3) == 0 && off > 2 {
		o := rng.Intn(off)
		base = append(base, c11seg{off: o, n: 1 + rng.Intn(off-o)})
	}
	// arrival order: bounded displacement
	type kk struct {
		s c11seg
		k float64
	}
	ks := make([]kk, len(base))
	for i, b := range base {
		ks[i] = kk{b, float64(i) + rng.Float64()*float64(disorder)}
	}
	sort.SliceStable(ks, func(i, j int) bool { return ks[i].k < ks[j].k })
	for _, k := range ks {
		s.segs = append(s.segs, k.s)
	}
	return s
}

func (s *c11sender) op(g c11seg, ts int) string {
	seq := s.isn + 1 + uint32(g.off)
	if g.flags&c11SYN != 0 {
		seq = s.isn
	}
	return fmt.Sprintf("seg:%d,%d,%d,%d,%d,%d", s.key, s.dir, seq, g.flags, g.n, ts)
}

func c11Limits(rng *rand.Rand) (int, int) {
	per := []int{1, 2, 3, 5}
	tot := []int{1, 2, 4, 8}
	switch rng.Intn(5) {
	case 0, 1:
		return 0, 0
	case 2:
		return per[rng.Intn(4)], 0
	case 3:
		return 0, tot[rng.Intn(4)]
	default:
		return per[rng.Intn(4)], tot[rng.Intn(4)]
	}
}

func c11Keep(rng *rand.Rand) string {
	switch rng.Intn(8) {
	case 0, 1, 2:
		return "-"
	case 3:
		return "1.0"
	case 4:
		return fmt.Sprintf("3.-%d", 1+rng.Intn(40))
	case 5:
		return fmt.Sprintf("2.%d", rng.Intn(3))
	default:
		n := 1 + rng.Intn(4)
		var es []string
		for i := 0; i < n; i++ {
			switch rng.Intn(5) {
			case 0:
				es = append(es, "0.0")
			case 1:
				es = append(es, fmt.Sprintf("1.%d", rng.Intn(2500)))
			case 2:
				es = append(es, fmt.Sprintf("2.%d", rng.Intn(10)-3))
			case 3:
				es = append(es, fmt.Sprintf("3.%d", rng.Intn(2200)-2195))
			default:
				es = append(es, "1.0")
			}
		}
		return strings.Join(es, "/")
	}
}

func c11Decl(rng *rand.Rand) string {
	switch rng.Intn(5) {
	case 0, 1, 2:
		return "-"
	case 3:
		return "1"
	default:
		n := 2 + rng.Intn(3)
		var es []string
		for i := 0; i < n; i++ {
			es = append(es, strconv.Itoa(rng.Intn(2)))
		}
		return strings.Join(es, "/")
	}
}

func c11GenCase(rng *rand.Rand, pkg string, depth int) Case {
	per, tot := c11Limits(rng)
	ops := []string{"pkg:" + pkg, fmt.Sprintf("cfg:%d,%d", per, tot)}
	if pkg == "r" {
		ops = append(ops, "keep:"+c11Keep(rng), "decl:"+c11Decl(rng))
	}
	nkeys := 1 + rng.Intn(4)
	mode := rng.Intn(6)
	disorder := []int{0, 2, 4, 8}[rng.Intn(4)]
	senders := map[[2]int]*c11sender{}
	clock := 100 + rng.Intn(50)
	backwards := rng.Intn(4) == 0
	nops := 3 + rng.Intn(depth)
	for i := 0; i < nops; i++ {
		// time
		switch rng.Intn(6) {
		case 0:
		case 1, 2, 3:
			clock += 1
		case 4:
			clock += rng.Intn(10)
		default:
			if backwards {
				clock -= rng.Intn(8)
				if clock < 1 {
					clock = 1
				}
			}
		}
		r := rng.Intn(20)
		switch {
		case r < 16:
			kd := [2]int{rng.Intn(nkeys), rng.Intn(2)}
			s := senders[kd]
			if s == nil || s.next >= len(s.segs) {
				if s != nil && rng.Intn(3) == 0 {
					// stray retransmission from the finished stream
					g := s.segs[rng.Intn(len(s.segs))]
					ops = append(ops, s.op(g, clock))
					continue
				}
				s = c11NewSender(rng, kd[0], kd[1], mode, disorder)
				senders[kd] = s
			}
			ts := clock
			if backwards && rng.Intn(4) == 0 {
				ts = clock - rng.Intn(20)
				if ts < 0 {
					ts = 0
				}
			}
			ops = append(ops, s.op(s.segs[s.next], ts))
			s.next++
		case r < 19:
			t := clock - rng.Intn(12) + 2
			if t < 0 {
				t = 0
			}
			x := 1
			if pkg == "r" {
				switch rng.Intn(4) {
				case 0:
					x = -1
				case 1:
					x = t - rng.Intn(6)
					if x < 0 {
						x = 0
					}
				default:
					x = t
				}
			} else if rng.Intn(4) == 0 {
				x = 0
			}
			ops = append(ops, fmt.Sprintf("fl:%d,%d", t, x))
		default:
			ops = append(ops, "fa")
		}
	}
	if rng.Intn(5) != 0 {
		ops = append(ops, "fa")
	}
	return Case{Prop: "C11", Ops: ops}
}

func (c11) Gen(rng *rand.Rand, tier string) []Case {
	var out []Case
	n, depth := 900, 40
	if tier == "thorough" {
		n, depth = 9000, 90
	}
	for i := 0; i < n; i++ {
		pkg := "t"
		if i%2 == 1 {
			pkg = "r"
		}
		d := depth
		if i%10 == 0 {
			d = 8
		}
		out = append(out, c11GenCase(rng, pkg, d))
	}
	return out
}

// ---------------------------------------------------------------- running the implementation

type c11ev struct {
	kind  byte // 'N','D','C'
	sid   int
	s     string
	seen  int
	saved int
	skip  int
	rm    bool
}

type c11run struct {
	pkg      string
	per, tot int
	keep     [][2]int
	decl     []bool
	evs      []c11ev // callbacks of the current call
	nstreams int
	curKD    [2]int
	kdSid    map[[2]int]int // stream of the latest connection opened for a key
	seenKD   map[[2]int]bool
	reopen   bool
}

type c11tStream struct {
	r   *c11run
	sid int
}

func c11b(b bool) int {
	if b {
		return 1
	}
	return 0
}

func (s *c11tStream) Reassembled(rs []tcpassembly.Reassembly) {
	n, by := len(rs), 0
	for _, r := range rs {
		by += len(r.Bytes)
	}
	skip, start, end, seen := 0, false, false, -1
	if n > 0 {
		skip, start, end = rs[0].Skip, rs[0].Start, rs[n-1].End
		seen = int(rs[0].Seen.Unix())
	}
	s.r.evs = append(s.r.evs, c11ev{kind: 'D', sid: s.sid, seen: seen, skip: skip,
		s: fmt.Sprintf("D%d:%d:%d:%d:%d:%d:%d:0", s.sid, n, by, skip, c11b(start), c11b(end), seen)})
}
func (s *c11tStream) ReassemblyComplete() {
	s.r.evs = append(s.r.evs, c11ev{kind: 'C', sid: s.sid, rm: true, s: fmt.Sprintf("C%d:1", s.sid)})
}

type c11tFactory struct{ r *c11run }

func (f *c11tFactory) New(a, b gopacket.Flow) tcpassembly.Stream {
	return &c11tStream{f.r, f.r.newStream()}
}

func (r *c11run) newStream() int {
	r.nstreams++
	if r.seenKD[r.curKD] {
		r.reopen = true
	}
	r.seenKD[r.curKD] = true
	r.kdSid[r.curKD] = r.nstreams
	r.evs = append(r.evs, c11ev{kind: 'N', sid: r.nstreams, s: fmt.Sprintf("N%d", r.nstreams)})
	return r.nstreams
}

type c11ctx struct{ ci gopacket.CaptureInfo }

func (c *c11ctx) GetCaptureInfo() gopacket.CaptureInfo { return c.ci }

type c11rStream struct {
	r      *c11run
	sid    int
	ncalls int
}

func (s *c11rStream) Accept(tcp *layers.TCP, ci gopacket.CaptureInfo, dir reassembly.TCPFlowDirection, nextSeq reassembly.Sequence, start *bool, ac reassembly.AssemblerContext) bool {
	return true
}

func (s *c11rStream) ReassembledSG(sg reassembly.ScatterGather, ac reassembly.AssemblerContext) {
	avail, saved := sg.Lengths()
	_, start, end, skip := sg.Info()
	n := sg.Stats().Chunks
	seen := -1
	if c, ok := ac.(*c11ctx); ok && c != nil {
		seen = int(c.ci.Timestamp.Unix())
	}
	r := s.r
	if len(r.keep) > 0 {
		e := r.keep[(s.sid+s.ncalls)%len(r.keep)]
		switch e[0] {
		case 1:
			sg.KeepFrom(e[1])
		case 2:
			sg.KeepFrom(saved + e[1])
		case 3:
			sg.KeepFrom(avail + e[1])
		}
	}
	s.ncalls++
	r.evs = append(r.evs, c11ev{kind: 'D', sid: s.sid, seen: seen, saved: saved, skip: skip,
		s: fmt.Sprintf("D%d:%d:%d:%d:%d:%d:%d:%d", s.sid, n, avail, skip, c11b(start), c11b(end), seen, saved)})
}

func (s *c11rStream) ReassemblyComplete(ac reassembly.AssemblerContext) bool {
	acc := true
	if len(s.r.decl) > 0 && s.r.decl[s.sid%len(s.r.decl)] {
		acc = false
	}
	s.r.evs = append(s.r.evs, c11ev{kind: 'C', sid: s.sid, rm: acc, s: fmt.Sprintf("C%d:%d", s.sid, c11b(acc))})
	return acc
}

type c11rFactory struct{ r *c11run }

func (f *c11rFactory) New(a, b gopacket.Flow, tcp *layers.TCP, ac reassembly.AssemblerContext) reassembly.Stream {
	return &c11rStream{r: f.r, sid: f.r.newStream()}
}

func c11Time(v int) time.Time {
	if v == -1 {
		return time.Time{}
	}
	return time.Unix(int64(v), 0)
}

func c11Flows(key, dir int) (gopacket.Flow, *layers.TCP) {
	a := layers.NewIPEndpoint(net.IP{10, 0, byte(key >> 8), byte(key)})
	b := layers.NewIPEndpoint(net.IP{10, 1, byte(key >> 8), byte(key)})
	t := &layers.TCP{SrcPort: layers.TCPPort(1000 + key), DstPort: 80}
	if dir == 1 {
		a, b = b, a
		t.SrcPort, t.DstPort = t.DstPort, t.SrcPort
	}
	t.SetInternalPortsForTesting()
	return gopacket.NewFlow(layers.EndpointIPv4, a.Raw(), b.Raw()), t
}

func c11NPages(n int) int {
	if n <= 1900 {
		return 1
	}
	return (n + 1899) / 1900
}

// per-connection view shared by the two packages
type c11conn struct {
	sid          int
	queued       int  // pages holding out-of-order data
	listed       int  // queued + saved
	counterOK    bool // the connection's own counters agree with the lists
	allClosed    bool // every half closed
	open         []c11half
	connLastSeen int
}

type c11half struct {
	hasHead  bool
	headSeen int
	queued   int
}

func (c11) Run(c Case) Result {
	var res Result
	r := &c11run{pkg: "t", seenKD: map[[2]int]bool{}, kdSid: map[[2]int]int{}}
	ownLast := map[int]int{} // sid -> newest timestamp among the packets given to its connection
	var ta *tcpassembly.Assembler
	var tp *tcpassembly.StreamPool
	var ra *reassembly.Assembler
	var rp *reassembly.StreamPool
	tags := map[string]bool{}
	// oracle state
	status := map[int]int{} // sid -> 0 unknown, 1 open, 2 done
	declined := map[int]bool{}
	multipage := false
	setup := func() {
		if ta != nil || ra != nil {
			return
		}
		if r.pkg == "t" {
			tp = tcpassembly.NewStreamPool(&c11tFactory{r})
			ta = tcpassembly.NewAssembler(tp)
			ta.MaxBufferedPagesPerConnection, ta.MaxBufferedPagesTotal = r.per, r.tot
		} else {
			rp = reassembly.NewStreamPool(&c11rFactory{r})
			ra = reassembly.NewAssembler(rp)
			ra.MaxBufferedPagesPerConnection, ra.MaxBufferedPagesTotal = r.per, r.tot
		}
	}
	conns := func() (used, live, free int, cs []c11conn) {
		if r.pkg == "t" {
			used, live, free = ta.VerifPagesUsed(), tp.VerifLiveConnections(), tp.VerifFreeConnections()
			for _, v := range tp.VerifConns() {
				cc := c11conn{sid: v.Stream.(*c11tStream).sid, queued: v.Listed, listed: v.Listed,
					counterOK: v.Pages == v.Listed, allClosed: v.Closed, connLastSeen: int(v.LastSeen.Unix())}
				if !v.Closed {
					cc.open = append(cc.open, c11half{v.HasHead, int(v.HeadSeen.Unix()), v.Listed})
				}
				cs = append(cs, cc)
			}
		} else {
			used, live, free = ra.VerifPagesUsed(), rp.VerifLiveConnections(), rp.VerifFreeConnections()
			for _, v := range rp.VerifConns() {
				cc := c11conn{sid: v.Stream.(*c11rStream).sid}
				cc.queued = v.C2S.Queued + v.S2C.Queued
				cc.listed = cc.queued + v.C2S.Saved + v.S2C.Saved
				cc.counterOK = v.C2S.Pages == v.C2S.Queued+v.C2S.Saved && v.S2C.Pages == v.S2C.Queued+v.S2C.Saved
				cc.allClosed = v.C2S.Closed && v.S2C.Closed
				ls := v.C2S.LastSeen
				if ls.Before(v.S2C.LastSeen) {
					ls = v.S2C.LastSeen
				}
				cc.connLastSeen = int(ls.Unix())
				for _, h := range []reassembly.VerifHalf{v.C2S, v.S2C} {
					if !h.Closed {
						cc.open = append(cc.open, c11half{h.HasHead, int(h.HeadSeen.Unix()), h.Queued})
					}
				}
				cs = append(cs, cc)
			}
		}
		sort.Slice(cs, func(i, j int) bool { return cs[i].sid < cs[j].sid })
		return
	}
	pgString := func() string {
		var ps []string
		if r.pkg == "t" {
			vs := tp.VerifConns()
			sort.Slice(vs, func(i, j int) bool { return vs[i].Stream.(*c11tStream).sid < vs[j].Stream.(*c11tStream).sid })
			for _, v := range vs {
				ps = append(ps, fmt.Sprintf("%d:%d:%d", v.Stream.(*c11tStream).sid, v.Pages, v.Listed))
			}
		} else {
			vs := rp.VerifConns()
			sort.Slice(vs, func(i, j int) bool { return vs[i].Stream.(*c11rStream).sid < vs[j].Stream.(*c11rStream).sid })
			for _, v := range vs {
				ps = append(ps, fmt.Sprintf("%d:%d.%d.%d:%d.%d.%d", v.Stream.(*c11rStream).sid,
					v.C2S.Pages, v.C2S.Queued, v.C2S.Saved, v.S2C.Pages, v.S2C.Queued, v.S2C.Saved))
			}
		}
		return strings.Join(ps, ",")
	}
	fail := func(clause, detail string) {
		if len(res.Oracle) < 8 {
			res.Oracle = append(res.Oracle, clause+"\t"+detail)
		}
	}
	for _, op := range c.Ops {
		name, arg, _ := strings.Cut(op, ":")
		args := strings.Split(arg, ",")
		ai := func(i int) int { v, _ := strconv.Atoi(args[i]); return v }
		switch name {
		case "pkg":
			r.pkg = arg
			continue
		case "var":
			continue
		case "cfg":
			r.per, r.tot = ai(0), ai(1)
			continue
		case "keep":
			if arg != "-" {
				for _, e := range strings.Split(arg, "/") {
					m, x, _ := strings.Cut(e, ".")
					mi, _ := strconv.Atoi(m)
					xi, _ := strconv.Atoi(x)
					r.keep = append(r.keep, [2]int{mi, xi})
				}
			}
			continue
		case "decl":
			if arg != "-" {
				for _, e := range strings.Split(arg, "/") {
					r.decl = append(r.decl, e == "1")
				}
			}
			continue
		}
		setup()
		r.evs = nil
		usedBefore := 0
		if r.pkg == "t" {
			usedBefore = ta.VerifPagesUsed()
		} else {
			usedBefore = ra.VerifPagesUsed()
		}
		retA, retB := 0, 0
		panicked := false
		segLen, flT, flX := 0, 0, 0
		func() {
			defer func() {
				if e := recover(); e != nil {
					panicked = true
				}
			}()
			switch name {
			case "seg":
				key, dir, seq, flags, n, ts := ai(0), ai(1), ai(2), ai(3), ai(4), ai(5)
				segLen = n
				r.curKD = [2]int{key, dir}
				if r.pkg == "r" {
					r.curKD = [2]int{key, 0}
				}
				nf, t := c11Flows(key, dir)
				t.Seq = uint32(seq)
				t.SYN, t.FIN, t.RST = flags&c11SYN != 0, flags&c11FIN != 0, flags&c11RST != 0
				t.Payload = make([]byte, n)
				if r.pkg == "t" {
					ta.AssembleWithTimestamp(nf, t, c11Time(ts))
				} else {
					ra.AssembleWithContext(nf, t, &c11ctx{gopacket.CaptureInfo{Timestamp: c11Time(ts)}})
				}
			case "fl":
				flT, flX = ai(0), ai(1)
				if r.pkg == "t" {
					retA, retB = ta.FlushWithOptions(tcpassembly.FlushOptions{T: c11Time(flT), CloseAll: flX != 0})
				} else {
					retA, retB = ra.FlushWithOptions(reassembly.FlushOptions{T: c11Time(flT), TC: c11Time(flX)})
				}
			case "fa":
				if r.pkg == "t" {
					retA = ta.FlushAll()
				} else {
					retA = ra.FlushAll()
				}
			}
		}()
		if panicked {
			res.Obs = append(res.Obs, "panic=1")
			break
		}
		if name == "seg" && !(r.pkg == "t" && ai(3) == 0 && ai(4) == 0) {
			if sid, ok := r.kdSid[r.curKD]; ok {
				if v, ok := ownLast[sid]; !ok || v < ai(5) {
					ownLast[sid] = ai(5)
				}
			}
		}
		evs := append([]c11ev(nil), r.evs...)
		sorted := append([]c11ev(nil), evs...)
		sort.SliceStable(sorted, func(i, j int) bool { return sorted[i].sid < sorted[j].sid })
		var es []string
		for _, e := range sorted {
			es = append(es, e.s)
		}
		used, live, free, cs := conns()
		res.Obs = append(res.Obs, fmt.Sprintf("ev=%s;ret=%d,%d;used=%d;live=%d;free=%d;pg=%s;panic=0",
			strings.Join(es, ","), retA, retB, used, live, free, pgString()))

		// ---- tags
		if name == "seg" && segLen > 1900 && used-usedBefore >= 2 {
			tags["multi-page-packet"] = true
		}
		if r.reopen {
			tags["reopen-same-tuple"] = true
		}
		for _, e := range evs {
			if e.kind == 'D' && name == "seg" && e.skip != 0 && (r.per > 0 || r.tot > 0) {
				tags["limit-hit"] = true
			}
			if e.kind == 'C' && !e.rm {
				tags["decline-removal"] = true
			}
			if e.kind == 'D' && e.saved > 0 {
				tags["keep-from"] = true
			}
		}
		if name == "fl" && retA > 0 && live > 0 {
			tags["flush-by-age-partial"] = true
		}

		// ---- oracle: the five clauses, on the implementation
		// once: lifecycle of every stream
		for _, e := range evs {
			switch e.kind {
			case 'N':
				if status[e.sid] != 0 {
					fail("C11:once", fmt.Sprintf("stream %d created twice", e.sid))
				}
				status[e.sid] = 1
			case 'D':
				if status[e.sid] != 1 {
					fail("C11:once", fmt.Sprintf("stream %d got data in state %d (2=completed) at %s", e.sid, status[e.sid], op))
				}
			case 'C':
				if status[e.sid] != 1 {
					fail("C11:once", fmt.Sprintf("stream %d completed in state %d at %s", e.sid, status[e.sid], op))
				}
				status[e.sid] = 2
				if !e.rm {
					declined[e.sid] = true
				}
			}
		}
		// pages: used = pages on the lists of the connections in the pool; own counters agree
		sum := 0
		for _, cc := range cs {
			sum += cc.listed
			if !cc.counterOK {
				fail("C11:pages", fmt.Sprintf("page counter of stream %d disagrees with its lists after %s: %s", cc.sid, op, pgString()))
			}
		}
		if used != sum {
			fail("C11:pages", fmt.Sprintf("used=%d but %d pages are listed in live connections after %s", used, sum, op))
		}
		// a connection in the pool has a stream that is not completed, or one that declined removal
		for _, cc := range cs {
			if status[cc.sid] == 2 && !declined[cc.sid] {
				fail("C11:once", fmt.Sprintf("connection of completed stream %d still in the pool after %s", cc.sid, op))
			}
			if status[cc.sid] == 1 && cc.allClosed {
				fail("C11:once", fmt.Sprintf("connection of stream %d fully closed without completion after %s", cc.sid, op))
			}
		}
		// flushall
		if name == "fa" {
			for sid, st := range status {
				if st != 2 {
					fail("C11:once", fmt.Sprintf("stream %d not completed after FlushAll", sid))
				}
			}
			if used != 0 {
				fail("C11:flushall", fmt.Sprintf("used=%d after FlushAll", used))
			}
			for _, cc := range cs {
				if !declined[cc.sid] {
					fail("C11:flushall", fmt.Sprintf("connection of stream %d (accepted removal) remains after FlushAll", cc.sid))
				}
			}
		}
		// limit
		if name == "seg" {
			if segLen > 1900 {
				multipage = true
			}
			inhand := c11NPages(segLen)
			if r.per > 0 {
				for _, cc := range cs {
					for _, h := range cc.open {
						if r.pkg == "t" && h.queued >= r.per {
							// repaired tcpassembly: after the call fewer than the limit (C11_t_limit)
							fail("C11:limit", fmt.Sprintf("tcpassembly per-connection: %d pages queued after the call, limit %d", h.queued, r.per))
						} else if h.queued > r.per+inhand {
							fail("C11:limit", fmt.Sprintf("per-connection: %d pages queued, limit %d, packet in hand %d pages, multipage=%d", h.queued, r.per, inhand, c11b(multipage)))
						}
					}
				}
			}
			if r.tot > 0 {
				q := 0
				for _, cc := range cs {
					q += cc.queued
				}
				if r.pkg == "t" && used >= r.tot {
					fail("C11:limit", fmt.Sprintf("tcpassembly total: %d pages in use after the call, limit %d", used, r.tot))
				} else if q > r.tot+inhand {
					fail("C11:limit", fmt.Sprintf("total: %d pages queued, limit %d, packet in hand %d pages, multipage=%d", q, r.tot, inhand, c11b(multipage)))
				}
			}
		}
		// age
		if name == "fl" {
			for _, cc := range cs {
				for _, h := range cc.open {
					if h.hasHead && flT != -1 && h.headSeen < flT {
						fail("C11:age", fmt.Sprintf("stream %d still waits in front of data seen at %d after flush older than %d", cc.sid, h.headSeen, flT))
					}
					closeCut, closing := flT, flX != 0
					if r.pkg == "r" {
						closeCut, closing = flX, flX != -1
					}
					if own, ok := ownLast[cc.sid]; ok && closing && !h.hasHead && own < closeCut {
						fail("C11:age", fmt.Sprintf("idle: stream %d idle since %d with nothing queued not closed by flush/close older than %d (lastSeen=%d)", cc.sid, own, closeCut, cc.connLastSeen))
					}
				}
			}
			for _, e := range evs {
				if e.kind == 'D' && e.seen != -1 && (flT == -1 || e.seen >= flT) {
					fail("C11:age", fmt.Sprintf("released: flush older than %d released data of stream %d seen at %d", flT, e.sid, e.seen))
				}
			}
		}
	}
	for t := range tags {
		res.Tags = append(res.Tags, t)
	}
	return res
}
