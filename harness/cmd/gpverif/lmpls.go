package main

// Lmpls: layers/mpls.go codec sub-check (C19, C06, C07, C01 for MPLS; no DecodeFromBytes, so no C05 ops).
// Ops: dec ser rt (lmisc_common.go; decoding runs the registered decoder of LayerTypeMPLS on a recording
// PacketBuilder), new:<label>.<tc>.<bottom>.<ttl>,<fcd>,<payloadhex>, rtn: likewise, and
//   guess:<hex>   ProtocolGuessingDecoder.Decode on a recording builder: guess=ip|unknown|panic

import (
	"fmt"
	"math/rand"
	"strings"

	"github.com/gopacket/gopacket"
	"github.com/gopacket/gopacket/layers"
)

type lmpls struct{}

func init() { register("Lmpls", lmpls{}) }

var lmplsDesc = &lmDesc{
	id: "Lmpls", name: "MPLS", ser: true,
	fresh:    func() gopacket.Layer { return &layers.MPLS{} },
	decodeFn: func(data []byte, b *lmBuilder) error { return layers.LayerTypeMPLS.Decode(data, b) },
	fields: func(l gopacket.Layer) string {
		m := l.(*layers.MPLS)
		return fmt.Sprintf("label=%d;tc=%d;s=%s;ttl=%d", m.Label, m.TrafficClass, lnB(m.StackBottom), m.TTL)
	},
	next: func(l gopacket.Layer, b *lmBuilder) string {
		if b == nil || !b.nextSet {
			return "none"
		}
		switch b.next.(type) {
		case layers.ProtocolGuessingDecoder:
			return "guess"
		case gopacket.DecodeFunc:
			return "mpls"
		}
		return fmt.Sprintf("other%T", b.next)
	},
	fromSpec: func(spec string) gopacket.Layer {
		f := strings.Split(spec, ".")
		return &layers.MPLS{Label: uint32(lnAtoi(f[0])), TrafficClass: uint8(lnAtoi(f[1])), StackBottom: f[2] == "1", TTL: uint8(lnAtoi(f[3]))}
	},
	inDomain: func(l gopacket.Layer, _ []byte) bool {
		m := l.(*layers.MPLS)
		return m.Label < 1<<20 && m.TrafficClass < 8
	},
	tags: func(l gopacket.Layer, cls string, data []byte) []string {
		if cls == "ok" && l.(*layers.MPLS).StackBottom {
			return []string{"bottom-of-stack"}
		}
		return nil
	},
}

func (lmpls) Run(c Case) (res Result) {
	if len(c.Ops) == 1 && strings.HasPrefix(c.Ops[0], "guess:") {
		data := lnUnhex(c.Ops[0][6:])
		b := &lmBuilder{}
		var err error
		cls := lnClass(func() error { err = layers.MPLSPayloadDecoder.Decode(lnCopy(data), b); return err })
		r := "ip"
		if cls == "panic" {
			r = "panic"
			res.Oracle = append(res.Oracle, "C19:panic\tProtocolGuessingDecoder.Decode panicked")
		} else if err != nil && strings.HasPrefix(err.Error(), "Unable to guess protocol") {
			r = "unknown"
		}
		res.Obs = append(res.Obs, "guess="+r)
		res.Tags = append(res.Tags, "guess-"+r)
		if len(data) == 0 {
			res.Tags = append(res.Tags, "guess-empty")
		}
		return
	}
	return lmRun(lmplsDesc, c)
}

func (lmpls) Gen(rng *rand.Rand, tier string) []Case {
	valid := func(rng *rand.Rand) []byte {
		h := make([]byte, 4)
		lmPut32(h, uint32(lnPick(rng, 0, 1, 16, 0xfffff, rng.Intn(1<<20)))<<12|uint32(rng.Intn(8))<<9|uint32(rng.Intn(2))<<8|uint32(lnPick(rng, 0, 1, 64, 255, rng.Intn(256))))
		return append(h, lnRandBytes(rng, lnPick(rng, 0, 1, 3, 4, 20, 33))...)
	}
	var seeds [][]byte
	seeds = append(seeds, lnEthSeeds(0x8847)...)
	seeds = append(seeds, lnEthSeeds(0x8848)...)
	g := lmGenCfg{
		valid:  valid,
		hdrLen: func(p []byte) int { return 4 },
		spec: func(rng *rand.Rand) string {
			return fmt.Sprintf("%d.%d.%d.%d", lnPick(rng, 0, 1, 0xfffff, 0x100000, 0x100001, 0xffffffff, rng.Intn(1<<20)), lnPick(rng, 0, 1, 7, 8, 255, rng.Intn(8)), rng.Intn(2), lnPick(rng, 0, 1, 255, rng.Intn(256)))
		},
		seeds: seeds,
		extra: func(rng *rand.Rand, add func(ops ...string)) {
			for b := 0; b < 256; b++ {
				add("guess:" + lnHex([]byte{byte(b), 0, 0, 20}))
				add("guess:" + lnHex(append([]byte{byte(b)}, lnRandBytes(rng, 39)...)))
				// every value of the byte holding the low label bits, class and bottom-of-stack
				add("tag:bits-every-value", "dec:"+lnHex([]byte{0x12, 0x34, byte(b), 0x40, 0x45}))
				if b%3 == 0 {
					add("tag:bits-every-value", "rt:"+lnHex([]byte{0xff, 0xff, byte(b), 0xff})+",45")
				}
			}
			add("guess:")
		},
	}
	return lmGen(lmplsDesc, g, rng, tier)
}
