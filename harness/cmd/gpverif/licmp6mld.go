package main

// Licmp6mld: the MLD message layers behind ICMPv6 (layers/mldv1.go, layers/mldv2.go).  The first op selects the message:
// L:q1 L:r1 L:d1 (MLDv1 query/report/done), L:q2 (MLDv2 query), L:r2 (MLDv2 report); then dec dec2 ser new rt rtn.
// specs: v1 delayns.addr   q2 mrc.addr.s.qrv.qqic.n.srcs   r2 n.recs  (recs = type~auxlen~n~addr~srcs~aux/..., srcs = hex+hex..., "-" = empty)

import (
	"fmt"
	"math/rand"
	"net"
	"strings"
	"time"

	"github.com/gopacket/gopacket"
	"github.com/gopacket/gopacket/layers"
)

type licmp6mld struct{}

func init() { register("Licmp6mld", licmp6mld{}) }

func mldV1(l gopacket.Layer) *layers.MLDv1Message {
	switch m := l.(type) {
	case *layers.MLDv1MulticastListenerQueryMessage:
		return &m.MLDv1Message
	case *layers.MLDv1MulticastListenerReportMessage:
		return &m.MLDv1Message
	case *layers.MLDv1MulticastListenerDoneMessage:
		return &m.MLDv1Message
	}
	panic("not an MLDv1 message")
}

func mldIPs(ips []net.IP, sep string) string {
	var s []string
	for _, ip := range ips {
		s = append(s, lnHex(ip))
	}
	return strings.Join(s, sep)
}

func mldIPsOf(spec, sep string) []net.IP {
	if spec == "-" {
		return nil
	}
	var out []net.IP
	for _, h := range strings.Split(spec, sep) {
		out = append(out, net.IP(lmHexOrDash(h)))
	}
	return out
}

func mldV1Desc(kind string, fresh func() gopacket.Layer) *lmDesc {
	return &lmDesc{
		id: "Licmp6mld", name: "MLDv1" + kind, ser: true, fresh: fresh,
		decode: func(l gopacket.Layer, data []byte, fb gopacket.DecodeFeedback) error {
			return l.(gopacket.DecodingLayer).DecodeFromBytes(data, fb)
		},
		fields: func(l gopacket.Layer) string {
			m := mldV1(l)
			return fmt.Sprintf("delay=%d;addr=%s", int64(m.MaximumResponseDelay), lnHex(m.MulticastAddress))
		},
		next: lmNextConst(gopacket.LayerTypeZero, "zero", func(l gopacket.Layer) gopacket.LayerType { return l.(gopacket.DecodingLayer).NextLayerType() }),
		fromSpec: func(spec string) gopacket.Layer {
			f := strings.Split(spec, ".")
			l := fresh()
			m := mldV1(l)
			m.MaximumResponseDelay, m.MulticastAddress = time.Duration(int64(lnAtoi(f[0]))), net.IP(lmHexOrDash(f[1]))
			return l
		},
		inDomain: func(l gopacket.Layer, _ []byte) bool {
			m := mldV1(l)
			return m.MaximumResponseDelay >= 0 && m.MaximumResponseDelay%time.Millisecond == 0 && m.MaximumResponseDelay/time.Millisecond <= 65535 && len(m.MulticastAddress) == 16
		},
		extra: func(l gopacket.Layer) []func() {
			return []func(){func() {
				_ = mldV1(l).String()
				if q, ok := l.(*layers.MLDv1MulticastListenerQueryMessage); ok {
					_, _ = q.IsGeneralQuery(), q.IsSpecificQuery()
				}
			}}
		},
	}
}

var mldDescs = map[string]*lmDesc{
	"L:q1": mldV1Desc("Query", func() gopacket.Layer { return &layers.MLDv1MulticastListenerQueryMessage{} }),
	"L:r1": mldV1Desc("Report", func() gopacket.Layer { return &layers.MLDv1MulticastListenerReportMessage{} }),
	"L:d1": mldV1Desc("Done", func() gopacket.Layer { return &layers.MLDv1MulticastListenerDoneMessage{} }),
	"L:q2": {
		id: "Licmp6mld", name: "MLDv2Query", ser: true,
		fresh: func() gopacket.Layer { return &layers.MLDv2MulticastListenerQueryMessage{} },
		decode: func(l gopacket.Layer, data []byte, fb gopacket.DecodeFeedback) error {
			return l.(*layers.MLDv2MulticastListenerQueryMessage).DecodeFromBytes(data, fb)
		},
		fields: func(l gopacket.Layer) string {
			m := l.(*layers.MLDv2MulticastListenerQueryMessage)
			return fmt.Sprintf("mrc=%d;addr=%s;s=%s;qrv=%d;qqic=%d;n=%d;ns=%d;srcs=%s", m.MaximumResponseCode, lnHex(m.MulticastAddress), lnB(m.SuppressRoutersideProcessing),
				m.QueriersRobustnessVariable, m.QueriersQueryIntervalCode, m.NumberOfSources, len(m.SourceAddresses), mldIPs(m.SourceAddresses, "|"))
		},
		next: lmNextConst(gopacket.LayerTypeZero, "zero", func(l gopacket.Layer) gopacket.LayerType { return l.(gopacket.DecodingLayer).NextLayerType() }),
		fromSpec: func(spec string) gopacket.Layer {
			f := strings.Split(spec, ".")
			return &layers.MLDv2MulticastListenerQueryMessage{MaximumResponseCode: uint16(lnAtoi(f[0])), MulticastAddress: net.IP(lmHexOrDash(f[1])), SuppressRoutersideProcessing: f[2] == "1",
				QueriersRobustnessVariable: uint8(lnAtoi(f[3])), QueriersQueryIntervalCode: uint8(lnAtoi(f[4])), NumberOfSources: uint16(lnAtoi(f[5])), SourceAddresses: mldIPsOf(f[6], "+")}
		},
		inDomain: func(l gopacket.Layer, _ []byte) bool {
			m := l.(*layers.MLDv2MulticastListenerQueryMessage)
			for _, a := range m.SourceAddresses {
				if len(a) != 16 {
					return false
				}
			}
			return len(m.MulticastAddress) == 16 && m.QueriersRobustnessVariable < 8
		},
		extra: func(l gopacket.Layer) []func() {
			m := l.(*layers.MLDv2MulticastListenerQueryMessage)
			return []func(){func() { _, _, _ = m.String(), m.QQI(), m.MaximumResponseDelay() }}
		},
		tags: func(l gopacket.Layer, cls string, data []byte) []string {
			if m := l.(*layers.MLDv2MulticastListenerQueryMessage); cls == "err" && len(m.SourceAddresses) > 0 {
				return []string{"error-after-items-appended"}
			}
			return nil
		},
	},
	"L:r2": {
		id: "Licmp6mld", name: "MLDv2Report", ser: true,
		fresh: func() gopacket.Layer { return &layers.MLDv2MulticastListenerReportMessage{} },
		decode: func(l gopacket.Layer, data []byte, fb gopacket.DecodeFeedback) error {
			return l.(*layers.MLDv2MulticastListenerReportMessage).DecodeFromBytes(data, fb)
		},
		fields: func(l gopacket.Layer) string {
			m := l.(*layers.MLDv2MulticastListenerReportMessage)
			var rs []string
			for _, r := range m.MulticastAddressRecords {
				rs = append(rs, fmt.Sprintf("%d.%d.%d.%s.%d.%s.%s", uint8(r.RecordType), r.AuxDataLen, r.N, lnHex(r.MulticastAddress), len(r.SourceAddresses), mldIPs(r.SourceAddresses, "+"), lnHex(r.AuxiliaryData)))
			}
			return fmt.Sprintf("n=%d;nr=%d;recs=%s", m.NumberOfMulticastAddressRecords, len(m.MulticastAddressRecords), strings.Join(rs, "|"))
		},
		next: lmNextConst(gopacket.LayerTypePayload, "payload", func(l gopacket.Layer) gopacket.LayerType { return l.(gopacket.DecodingLayer).NextLayerType() }),
		fromSpec: func(spec string) gopacket.Layer {
			f := strings.Split(spec, ".")
			m := &layers.MLDv2MulticastListenerReportMessage{NumberOfMulticastAddressRecords: uint16(lnAtoi(f[0]))}
			if f[1] != "-" {
				for _, r := range strings.Split(f[1], "/") {
					g := strings.Split(r, "~")
					m.MulticastAddressRecords = append(m.MulticastAddressRecords, layers.MLDv2MulticastAddressRecord{RecordType: layers.MLDv2MulticastAddressRecordType(lnAtoi(g[0])), AuxDataLen: uint8(lnAtoi(g[1])),
						N: uint16(lnAtoi(g[2])), MulticastAddress: net.IP(lmHexOrDash(g[3])), SourceAddresses: mldIPsOf(g[4], "+"), AuxiliaryData: lmHexOrDash(g[5])})
				}
			}
			return m
		},
		inDomain: func(l gopacket.Layer, _ []byte) bool {
			m := l.(*layers.MLDv2MulticastListenerReportMessage)
			for _, r := range m.MulticastAddressRecords {
				if len(r.MulticastAddress) != 16 || len(r.AuxiliaryData) > 1020 {
					return false
				}
				for _, a := range r.SourceAddresses {
					if len(a) != 16 {
						return false
					}
				}
			}
			return true
		},
		extra: func(l gopacket.Layer) []func() {
			m := l.(*layers.MLDv2MulticastListenerReportMessage)
			return []func(){func() {
				_ = m.String()
				for i := range m.MulticastAddressRecords {
					_, _ = m.MulticastAddressRecords[i].String(), m.MulticastAddressRecords[i].RecordType.String()
				}
			}}
		},
		tags: func(l gopacket.Layer, cls string, data []byte) []string {
			m := l.(*layers.MLDv2MulticastListenerReportMessage)
			var t []string
			if cls == "err" && len(m.MulticastAddressRecords) > 0 {
				t = append(t, "error-after-items-appended")
			}
			for _, r := range m.MulticastAddressRecords {
				if len(r.AuxiliaryData) > 0 {
					t = append(t, "auxiliary-data")
					break
				}
			}
			return t
		},
	},
}

func (licmp6mld) Run(c Case) Result {
	d := mldDescs[c.Ops[0]]
	if d == nil {
		panic("Licmp6mld: first op must be L:q1 L:r1 L:d1 L:q2 L:r2")
	}
	r := lmRun(d, Case{Prop: c.Prop, Ops: c.Ops[1:]})
	r.Tags = append(r.Tags, "message-"+c.Ops[0][2:])
	return r
}

func (licmp6mld) Gen(rng *rand.Rand, tier string) []Case {
	hd := func(b []byte) string {
		if len(b) == 0 {
			return "-"
		}
		return lnHex(b)
	}
	addr := func(rng *rand.Rand) []byte {
		if rng.Intn(4) == 0 {
			return make([]byte, 16)
		}
		return lnRandBytes(rng, 16)
	}
	badAddr := func(rng *rand.Rand) []byte { return lnRandBytes(rng, lnPick(rng, 16, 16, 16, 16, 4, 0, 15, 17)) }
	addrs := func(rng *rand.Rand, f func(*rand.Rand) []byte, k int) string {
		if k == 0 {
			return "-"
		}
		var s []string
		for ; k > 0; k-- {
			s = append(s, hd(f(rng)))
		}
		return strings.Join(s, "+")
	}
	var out []Case
	emit := func(sel string, d *lmDesc, g lmGenCfg) {
		for _, c := range lmGen(d, g, rng, tier) {
			out = append(out, Case{Prop: "Licmp6mld", Ops: append([]string{sel}, c.Ops...)})
		}
	}
	// MLDv1
	v1 := func(rng *rand.Rand) []byte {
		p := lnRandBytes(rng, 20)
		copy(p[4:], addr(rng))
		return append(p, lnRandBytes(rng, lnPick(rng, 0, 0, 1, 4, 20))...)
	}
	for _, sel := range []string{"L:q1", "L:r1", "L:d1"} {
		d := mldDescs[sel]
		emit(sel, d, lmGenCfg{valid: v1, hdrLen: func([]byte) int { return 20 }, n: 25,
			residue: func(rng *rand.Rand) []byte { return append(v1(rng)[:20], 9, 9, 9) },
			spec: func(rng *rand.Rand) string {
				return fmt.Sprintf("%d.%s", lnPick(rng, 0, 1000000, 1500000, 999999, 65535000000, 65536000000, -1, -1000000, 1<<61), hd(badAddr(rng)))
			},
			extra: func(rng *rand.Rand, add func(ops ...string)) {
				for _, n := range []int{20, 21, 24} { // exactly the message / octets behind it, after a message with octets behind it
					p := v1(rng)[:20]
					p = append(p, lnRandBytes(rng, n-20)...)
					add("tag:payload-boundary", "dec:"+lnHex(p))
					add("tag:payload-boundary", "dec2:"+lnHex(append(v1(rng)[:20], 7, 7))+","+lnHex(p))
				}
			}})
	}
	// MLDv2 query
	q2 := func(rng *rand.Rand, n, present, extra int) []byte {
		p := lnRandBytes(rng, 24)
		copy(p[4:], addr(rng))
		lmPut16(p[22:], n)
		for i := 0; i < present; i++ {
			p = append(p, addr(rng)...)
		}
		return append(p, lnRandBytes(rng, extra)...)
	}
	q2valid := func(rng *rand.Rand) []byte { n := lnPick(rng, 0, 1, 2, 5); return q2(rng, n, n, lnPick(rng, 0, 0, 1, 16, 20)) }
	emit("L:q2", mldDescs["L:q2"], lmGenCfg{valid: q2valid, hdrLen: func(p []byte) int { return 24 + 16*(int(p[22])<<8|int(p[23])) },
		residue: func(rng *rand.Rand) []byte { return q2(rng, 2, 2, 3) },
		spec: func(rng *rand.Rand) string {
			k := lnPick(rng, 0, 1, 2, 3)
			return fmt.Sprintf("%d.%s.%d.%d.%d.%d.%s", lnPick(rng, 0, 1000, 0x7fff, 0x8000, 0xffff), hd(badAddr(rng)), rng.Intn(2), lnPick(rng, 0, 2, 7, 8, 255), lnPick(rng, 0, 125, 127, 128, 255),
				lnPick(rng, k, k, 0, k+1, 65535), addrs(rng, badAddr, k))
		},
		extra: func(rng *rand.Rand, add func(ops ...string)) {
			for _, present := range []int{0, 1, 3} { // number of sources against the addresses present, with 0..15 more octets
				for _, n := range []int{0, 1, present - 1, present, present + 1, 255, 256, 65535} {
					for _, extra := range []int{0, 1, 15} {
						if n < 0 {
							continue
						}
						p := q2(rng, n, present, extra)
						add("tag:count-extreme", "dec:"+lnHex(p))
						add("tag:count-extreme", "dec2:"+lnHex(q2(rng, 2, 2, 3))+","+lnHex(p))
					}
				}
			}
			for v := 0; v < 256; v += 1 { // every S/QRV octet
				p := q2(rng, 1, 1, 0)
				p[20] = byte(v)
				add("tag:octet-every-value", "dec:"+lnHex(p))
				if v%8 == 0 {
					add("tag:octet-every-value", "rt:"+lnHex(p)+","+lnHex(lnRandBytes(rng, 3)))
				}
			}
		}})
	// MLDv2 report
	rec := func(rng *rand.Rand, n, present, auxlen, auxPresent int) []byte {
		p := lnRandBytes(rng, 20)
		p[0], p[1] = byte(lnPick(rng, 1, 2, 3, 4, 5, 6, 0, 255)), byte(auxlen)
		lmPut16(p[2:], n)
		for i := 0; i < present; i++ {
			p = append(p, addr(rng)...)
		}
		return append(p, lnRandBytes(rng, auxPresent)...)
	}
	r2 := func(rng *rand.Rand, n int, recs ...[]byte) []byte {
		p := lnRandBytes(rng, 4)
		lmPut16(p[2:], n)
		for _, r := range recs {
			p = append(p, r...)
		}
		return p
	}
	goodRec := func(rng *rand.Rand) []byte {
		n, a := lnPick(rng, 0, 0, 1, 3), lnPick(rng, 0, 0, 1, 2)
		return rec(rng, n, n, a, 4*a)
	}
	r2valid := func(rng *rand.Rand) []byte {
		k := lnPick(rng, 0, 1, 2, 4)
		var rs [][]byte
		for i := 0; i < k; i++ {
			rs = append(rs, goodRec(rng))
		}
		return append(r2(rng, k, rs...), lnRandBytes(rng, lnPick(rng, 0, 0, 1, 19, 20))...)
	}
	emit("L:r2", mldDescs["L:r2"], lmGenCfg{valid: r2valid, hdrLen: func(p []byte) int { return len(p) },
		residue: func(rng *rand.Rand) []byte { return r2(rng, 2, goodRec(rng), goodRec(rng)) },
		spec: func(rng *rand.Rand) string {
			var rs []string
			for k := lnPick(rng, 0, 1, 2, 3); k > 0; k-- {
				ns, al := lnPick(rng, 0, 1, 2), lnPick(rng, 0, 0, 1, 2, 3, 4, 5, 8)
				rs = append(rs, fmt.Sprintf("%d~%d~%d~%s~%s~%s", lnPick(rng, 1, 4, 6, 0, 255), lnPick(rng, 0, 1, 255), lnPick(rng, ns, 0, 7), hd(badAddr(rng)), addrs(rng, badAddr, ns), hd(lnRandBytes(rng, al))))
			}
			o := "-"
			if len(rs) > 0 {
				o = strings.Join(rs, "/")
			}
			return fmt.Sprintf("%d.%s", lnPick(rng, len(rs), 0, 9, 65535), o)
		},
		extra: func(rng *rand.Rand, add func(ops ...string)) {
			two := func(tag string, p []byte) {
				add("tag:"+tag, "dec:"+lnHex(p))
				add("tag:"+tag, "dec2:"+lnHex(r2(rng, 2, goodRec(rng), goodRec(rng)))+","+lnHex(p))
			}
			for _, k := range []int{0, 1, 2, 3, 255, 65535} { // record count against two records present
				two("count-extreme", r2(rng, k, goodRec(rng), goodRec(rng)))
			}
			for _, present := range []int{0, 1, 2} { // source count and auxiliary length of the last record against what is present
				for _, n := range []int{0, 1, present - 1, present, present + 1, 65535} {
					for _, aux := range []struct{ al, have int }{{0, 0}, {1, 4}, {1, 3}, {1, 0}, {2, 7}, {255, 1020}, {255, 1019}, {0, 3}} {
						if n < 0 {
							continue
						}
						two("record-length-extreme", r2(rng, 2, goodRec(rng), rec(rng, n, present, aux.al, aux.have)))
					}
				}
			}
			for k := 0; k <= 21; k++ { // second record cut after k octets
				two("record-header-cut", r2(rng, 2, goodRec(rng), rec(rng, 0, 0, 0, 0)[:min(k, 20)]))
			}
			for _, al := range []int{0, 1, 2, 3, 4, 5, 6, 7, 8, 1017, 1020, 1021} { // auxiliary data of every length residue under FixLengths
				s := fmt.Sprintf("0.4~0~0~%s~-~%s/2~0~0~%s~%s~-", lnHex(addr(rng)), hd(lnRandBytes(rng, al)), lnHex(addr(rng)), lnHex(addr(rng)))
				add("tag:auxiliary-padding", "rtn:"+s+","+lnHex(lnRandBytes(rng, 2)))
				add("tag:auxiliary-padding", "new:"+s+",100,")
				add("tag:auxiliary-padding", "new:"+s+",001,")
			}
		}})
	return out
}
