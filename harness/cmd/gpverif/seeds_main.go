package main

import (
	"go/ast"
	"go/parser"
	"go/token"
	"os"
	"path/filepath"
	"sort"
	"strconv"
	"strings"
)

// repoDir is the repository under test (the harness binary is built against it).
func repoDir() string {
	if r := os.Getenv("VERIF_REPO"); r != "" {
		return r
	}
	return "/repo"
}

// testPacketLiterals returns the package-level `var testPacketXxx = []byte{...}` literals of
// layers/*_test.go, parsed with go/ast at run time (not imported), sorted by name.
func testPacketLiterals() map[string][]byte {
	out := map[string][]byte{}
	files, _ := filepath.Glob(filepath.Join(repoDir(), "layers", "*_test.go"))
	sort.Strings(files)
	fset := token.NewFileSet()
	for _, f := range files {
		af, err := parser.ParseFile(fset, f, nil, 0)
		if err != nil {
			continue
		}
		for _, d := range af.Decls {
			gd, ok := d.(*ast.GenDecl)
			if !ok || gd.Tok != token.VAR {
				continue
			}
			for _, sp := range gd.Specs {
				vs := sp.(*ast.ValueSpec)
				for i, v := range vs.Values {
					cl, ok := v.(*ast.CompositeLit)
					if !ok || i >= len(vs.Names) {
						continue
					}
					at, ok := cl.Type.(*ast.ArrayType)
					if !ok || at.Len != nil {
						continue
					}
					if id, ok := at.Elt.(*ast.Ident); !ok || id.Name != "byte" {
						continue
					}
					var bs []byte
					good := true
					for _, e := range cl.Elts {
						bl, ok := e.(*ast.BasicLit)
						if !ok {
							good = false
							break
						}
						n, err := strconv.ParseUint(strings.ReplaceAll(bl.Value, "_", ""), 0, 8)
						if err != nil {
							good = false
							break
						}
						bs = append(bs, byte(n))
					}
					if good && len(bs) > 0 {
						out[vs.Names[i].Name] = bs
					}
				}
			}
		}
	}
	return out
}
