package main

// Lsip: layers/sip.go decoder sub-check (C19, C05, C01; SIP has no SerializeTo, so C06 and C07 do not apply and there are no
// ser/rt ops).  Ops: dec dec2 (lmisc_common.go).  All generated input is ASCII (the model is byte-wise; strings.ToUpper/ToLower and
// bytes.TrimSpace decode UTF-8).

import (
	"fmt"
	"math/rand"
	"sort"
	"strings"

	"github.com/gopacket/gopacket"
	"github.com/gopacket/gopacket/layers"
)

type lsip struct{}

func init() { register("Lsip", lsip{}) }

func spHexInt(v int) string {
	if v < 0 {
		return fmt.Sprintf("-%x", uint64(-int64(v)))
	}
	return fmt.Sprintf("%x", v)
}

var lsipDesc = &lmDesc{
	id: "Lsip", name: "SIP",
	fresh: func() gopacket.Layer { return &layers.SIP{} },
	decode: func(l gopacket.Layer, data []byte, fb gopacket.DecodeFeedback) error {
		return l.(*layers.SIP).DecodeFromBytes(data, fb)
	},
	fields: func(l gopacket.Layer) string {
		s := l.(*layers.SIP)
		var hs []string
		for k, vs := range s.Headers {
			x := make([]string, len(vs))
			for i, v := range vs {
				x[i] = lnHex([]byte(v))
			}
			hs = append(hs, lnHex([]byte(k))+"="+strings.Join(x, ","))
		}
		sort.Strings(hs)
		return fmt.Sprintf("ver=%d;method=%d;uri=%s;resp=%s;code=%s;status=%s;cseq=%d;clen=%d;hdrs=%s", uint8(s.Version), uint16(s.Method), lnHex([]byte(s.RequestURI)),
			lnB(s.IsResponse), spHexInt(s.ResponseCode), lnHex([]byte(s.ResponseStatus)), s.GetCSeq(), s.GetContentLength(), strings.Join(hs, "|"))
	},
	next: func(l gopacket.Layer, _ *lmBuilder) string {
		if t := l.(*layers.SIP).NextLayerType(); t != gopacket.LayerTypePayload {
			return fmt.Sprintf("other%d", t)
		}
		return "0"
	},
	extra: func(l gopacket.Layer) []func() {
		s := l.(*layers.SIP)
		return []func(){func() {
			_, _, _ = s.Version.String(), s.Method.String(), s.Payload()
			_, _, _, _, _, _ = s.GetAuthorization(), s.GetFrom(), s.GetTo(), s.GetContact(), s.GetCallID(), s.GetUserAgent()
			_, _, _ = s.GetAllHeaders(), s.GetHeader("Via"), s.GetFirstHeader("x")
		}}
	},
	tags: func(l gopacket.Layer, cls string, data []byte) []string {
		s := l.(*layers.SIP)
		var t []string
		if cls == "ok" {
			if s.IsResponse {
				t = append(t, "response")
			} else {
				t = append(t, "request")
			}
			if len(s.Headers["content-length"]) > 0 {
				t = append(t, "content-length")
			}
			if len(s.Headers["cseq"]) > 0 {
				t = append(t, "cseq")
			}
			for _, vs := range s.Headers {
				if len(vs) > 1 {
					t = append(t, "repeated-header")
				}
			}
		} else if cls == "err" && len(s.Headers) > 0 {
			t = append(t, "error-after-fields-set")
		}
		return t
	},
}

func (lsip) Run(c Case) Result { return lmRun(lsipDesc, c) }

func (lsip) Gen(rng *rand.Rand, tier string) []Case {
	var out []Case
	hx := func(s string) string { return lnHex([]byte(s)) }
	add := func(tag string, ops ...string) {
		all := []string{}
		if tag != "" {
			all = append(all, "tag:"+tag)
		}
		out = append(out, Case{Prop: "Lsip", Ops: append(all, ops...)})
	}
	scale := 1
	if tier == "thorough" {
		scale = 6
	}
	pick := func(xs ...string) string { return xs[rng.Intn(len(xs))] }
	methods := []string{"INVITE", "ACK", "BYE", "CANCEL", "OPTIONS", "REGISTER", "PRACK", "SUBSCRIBE", "NOTIFY", "PUBLISH", "INFO", "REFER", "MESSAGE", "UPDATE", "PING"}
	eol := func() string { return pick("\r\n", "\r\n", "\r\n", "\n") }
	body := func() string { return pick("", "", "v=0\r\no=- 1 1 IN IP4 10.0.0.1\r\n", "x", "0123456789") }
	hdrs := func(b string, e string) string {
		h := "Via: SIP/2.0/UDP 10.0.0.1:5060;branch=z9hG4bK" + fmt.Sprint(rng.Intn(1000)) + e
		h += pick("From", "f", "FROM") + ": <sip:alice@example.com>;tag=1" + e
		h += pick("To: <sip:bob@example.com>", "t:<sip:bob@example.com>", "To :  bob ") + e
		if rng.Intn(3) > 0 {
			h += pick("CSeq", "cseq", "CSEQ") + ": " + fmt.Sprint(rng.Intn(100000)) + " " + methods[rng.Intn(len(methods))] + e
		}
		if rng.Intn(3) == 0 {
			h += "Via: SIP/2.0/UDP 10.0.0.2" + e + pick(" ", "\t") + ";received=10.0.0.9" + e // second Via with a continuation line
		}
		if rng.Intn(3) > 0 {
			h += pick("Content-Length", "content-length", "Content-length") + ": " + fmt.Sprint(len(b)) + e
		}
		return h
	}
	request := func() string {
		e, b := eol(), body()
		return methods[rng.Intn(len(methods))] + " sip:bob@example.com " + pick("SIP/2.0", "SIP/2.0", "SIP/1.0", "sip/2.0") + e + hdrs(b, e) + e + b
	}
	response := func() string {
		e, b := eol(), body()
		return pick("SIP/2.0", "SIP/2.0", "SIP/1.0") + " " + pick("200 OK", "100 Trying", "404 Not Found", "180 Ringing  twice") + e + hdrs(b, e) + e + b
	}
	valid := func() string {
		if rng.Intn(2) == 0 {
			return request()
		}
		return response()
	}
	residue := func() string { // leaves IsResponse, ResponseCode/Status, Method, CSeq, Content-Length and many headers behind
		return "SIP/2.0 486 Busy Here\r\nVia: a\r\nVia: b\r\nFrom: c\r\nX-Left: over\r\nCSeq: 77 BYE\r\nContent-Length: 3\r\n\r\nabcdef"
	}
	full := func(tag, p string) {
		add(tag, "dec:"+hx(p))
		add(tag, "dec2:"+hx(residue())+","+hx(p))
		add(tag, "dec2:"+hx(p)+","+hx(valid()))
	}
	for i := 0; i < 80*scale; i++ {
		full("", valid())
	}
	for i := 0; i < 3*scale; i++ { // every truncation
		p := valid()
		for k := 0; k <= len(p); k++ {
			if k > 40 && k < len(p)-30 && k%4 != 0 {
				continue
			}
			add("truncated-prefix-of-valid", "dec:"+hx(p[:k]))
			if k%5 == 0 {
				add("truncated-prefix-of-valid", "dec2:"+hx(residue())+","+hx(p[:k]))
			}
		}
	}
	// first line shapes
	rest := "\r\nVia: x\r\n\r\n"
	for _, fl := range []string{"", " ", "  ", "INVITE", "INVITE sip:a", "INVITE sip:a SIP/2.0", "invite sip:a sip/2.0", "INVITE  SIP/2.0", "INVITE sip:a SIP/2.0 extra", "INVITE sip:a SIP/3.0",
		"FOO sip:a SIP/2.0", " INVITE sip:a SIP/2.0", "INVITE sip:a  SIP/2.0", "SIP/2.0 200 OK", "SIP/2.0 200 ", "SIP/2.0 200", "SIP/2.0  OK", "SIP/2.0 abc OK", "SIP/2.0 -5 OK", "SIP/2.0 +7 OK",
		"SIP/2.0 - OK", "SIP/2.0 + OK", "SIP/2.0 007 OK", "SIP/2.0 9223372036854775807 OK", "SIP/2.0 9223372036854775808 OK", "SIP/2.0 -9223372036854775808 OK", "SIP/2.0 -9223372036854775809 OK",
		"SIP/2.0 99999999999999999999999999 OK", "SIP/2.0 12_3 OK", "SIP/2.0 0x10 OK", "SIP/3.0 200 OK", "SIP 200 OK", "SIPX 200 OK", "sip/2.0 200 OK", "SIP/2.0\t200 OK", "\rINVITE sip:a SIP/2.0",
		"INVITE sip:a SIP/2.0\r", ":", "a:b"} {
		full("first-line", fl+rest)
		add("first-line", "dec:"+hx(fl))
		add("first-line", "dec:"+hx(fl+"\n"))
	}
	// header shapes: colon placement, spaces, continuation lines with and without a preceding header, repeated and case-variant names
	first := []string{"INVITE sip:a SIP/2.0\r\n", "SIP/2.0 200 OK\r\n"}
	for _, f := range first {
		for _, h := range []string{"NoColon", ":", ":v", "k:", " k: v", "\tk: v", "k : v ", "k:v:w", "K: v\r\nk: w\r\nK: x", "k: v\r\n more\r\n\tand more", " cont without header", "k: v\r\n \r\nx: y",
			"k: v\r\n  \t  ", "a: 1\r\nb: 2\r\n c", ": empty name\r\n cont", "k:\r\n cont", "\rk: v", "k: v\r", "k: v\r\r", " : ", "k:  spaced   value  "} {
			full("header-shape", f+h+"\r\n\r\n")
			add("header-shape", "dec:"+hx(f+h)) // no end of headers: the last line is dropped
		}
		// CSeq and Content-Length values
		for _, v := range []string{"1 INVITE", "1 invite", "1 FOO", "1", "x INVITE", " 1 INVITE", "1  INVITE", "1 INVITE extra", "4294967295 ACK", "4294967296 ACK", "-1 ACK", "+1 ACK", "", " ", "00012 BYE",
			"99999999999999999999 BYE", "1\tINVITE"} {
			full("cseq-value", f+"CSeq: "+v+"\r\n\r\n")
			full("cseq-value", f+"Content-Length: 2\r\ncseq:"+v+"\r\nX: y\r\n\r\nabc")
		}
		for _, v := range []string{"0", "1", "2", "3", "4", "5", "100", "-1", "-0", "+3", "2147483647", "2147483648", "-2147483648", "-2147483649", "abc", "", " ", "3 ", "3x", "0x3", "1_0", "99999999999999999999"} {
			for _, b := range []string{"", "abc", "abcd"} {
				full("content-length-value", f+"Content-Length: "+v+"\r\n\r\n"+b)
			}
			add("content-length-value", "dec:"+hx(f+"Content-Length: 5\r\nContent-Length:"+v+"\r\n\r\nabcdefgh"))
			add("content-length-value", "dec:"+hx(f+"l: "+v+"\r\n\r\nabc")) // the compact form is not interpreted
		}
		// consistent-length cuts: Content-Length equal to, one below and one above the body octets present, for every cut of the body
		b := "0123456789"
		for k := 0; k <= len(b); k++ {
			for _, d := range []int{-1, 0, 1} {
				if k+d >= 0 {
					full("consistent-length-cut", f+fmt.Sprintf("Content-Length: %d\r\n\r\n", k+d)+b[:k])
				}
			}
		}
	}
	// line endings
	for _, e := range []string{"\n", "\r\n", "\r\r\n", "\n\r", "\r"} {
		p := "OPTIONS sip:a SIP/2.0" + e + "Via: x" + e + "CSeq: 5 OPTIONS" + e + e + "body"
		full("line-ending", p)
		full("line-ending", e+p)
	}
	ns := 0
	for _, s := range lnSeeds() {
		for _, off := range []int{0, 14 + 20 + 8, 14 + 20 + 20} {
			if len(s) > off+20 && (strings.Contains(string(s[off:off+min(len(s)-off, 40)]), "SIP/2.0")) {
				ascii := true
				for _, c := range s[off:] {
					if c >= 128 {
						ascii = false
					}
				}
				if ns++; ascii && ns <= 30*scale {
					full("seed", string(s[off:]))
				}
			}
		}
	}
	alpha := []byte("  \t\r\n\n::SIP/2.0 INVITE 0123456789abcXYZ-+")
	for i := 0; i < 150*scale; i++ {
		n := lnPick(rng, 0, 1, 2, 5, 20, rng.Intn(120))
		q := make([]byte, n)
		for j := range q {
			q[j] = alpha[rng.Intn(len(alpha))]
		}
		p := string(q)
		if rng.Intn(2) == 0 {
			p = first[rng.Intn(2)] + p
		}
		full("malformed", p)
	}
	return out
}
