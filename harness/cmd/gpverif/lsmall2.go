package main

// Lmodbus, Lrudp: layers/modbustcp.go and layers/rudp.go decoder sub-checks (no SerializeTo).  Ops: dec (both), dec2 (ModbusTCP).
// RUDP has only a decoder function: decoding runs the registered decoder on a recording PacketBuilder.

import (
	"fmt"
	"math/rand"
	"strings"

	"github.com/gopacket/gopacket"
	"github.com/gopacket/gopacket/layers"
)

type lmodbus struct{}
type lrudp struct{}

func init() {
	register("Lmodbus", lmodbus{})
	register("Lrudp", lrudp{})
}

var lmodbusDesc = &lmDesc{
	id: "Lmodbus", name: "ModbusTCP",
	fresh: func() gopacket.Layer { return &layers.ModbusTCP{} },
	decode: func(l gopacket.Layer, data []byte, fb gopacket.DecodeFeedback) error {
		return l.(*layers.ModbusTCP).DecodeFromBytes(data, fb)
	},
	fields: func(l gopacket.Layer) string {
		m := l.(*layers.ModbusTCP)
		return fmt.Sprintf("tid=%d;pid=%d;len=%d;unit=%d", m.TransactionIdentifier, uint16(m.ProtocolIdentifier), m.Length, m.UnitIdentifier)
	},
	next:  lmNextConst(gopacket.LayerTypePayload, "payload", func(l gopacket.Layer) gopacket.LayerType { return l.(*layers.ModbusTCP).NextLayerType() }),
	extra: func(l gopacket.Layer) []func() { m := l.(*layers.ModbusTCP); return []func(){func() { _ = m.Payload(); _ = m.ProtocolIdentifier.String() }} },
	tags: func(l gopacket.Layer, cls string, data []byte) []string {
		if cls == "err" && len(data) >= 9 && len(data) <= 260 {
			return []string{"error-after-fields-set"}
		}
		return nil
	},
}

var lrudpDesc = &lmDesc{
	id: "Lrudp", name: "RUDP",
	fresh:    func() gopacket.Layer { return &layers.RUDP{} },
	decodeFn: func(data []byte, b *lmBuilder) error { return layers.LayerTypeRUDP.Decode(data, b) },
	fields: func(l gopacket.Layer) string {
		r := l.(*layers.RUDP)
		syn, eack := "n", "n"
		if r.RUDPHeaderSYN != nil {
			syn = fmt.Sprintf("%d~%d~%d", r.MaxOutstandingSegments, r.MaxSegmentSize, r.OptionFlags)
		}
		if r.RUDPHeaderEACK != nil {
			s := make([]string, len(r.SeqsReceivedOK))
			for i, v := range r.SeqsReceivedOK {
				s[i] = fmt.Sprint(v)
			}
			eack = "[" + strings.Join(s, "~") + "]"
		}
		return fmt.Sprintf("fl=%s%s%s%s%s;v=%d;hl=%d;sp=%d;dp=%d;dl=%d;seq=%d;ack=%d;cs=%d;vha=%s;syn=%s;eack=%s", lnB(r.SYN), lnB(r.ACK), lnB(r.EACK), lnB(r.RST), lnB(r.NUL),
			r.Version, r.HeaderLength, uint8(r.SrcPort), uint8(r.DstPort), r.DataLength, r.Seq, r.Ack, r.Checksum, lnHex(r.VariableHeaderArea), syn, eack)
	},
	next: func(l gopacket.Layer, b *lmBuilder) string {
		if b == nil || !b.nextSet {
			return "none"
		}
		if b.next == gopacket.Decoder(gopacket.LayerTypePayload) {
			return "payload"
		}
		return fmt.Sprintf("other%v", b.next)
	},
	extra: func(l gopacket.Layer) []func() {
		r := l.(*layers.RUDP)
		return []func(){func() { f := r.TransportFlow(); _ = f.String(); _, _ = f.Endpoints() }}
	},
	tags: func(l gopacket.Layer, cls string, data []byte) []string {
		r := l.(*layers.RUDP)
		var t []string
		if cls == "ok" && r.RUDPHeaderSYN != nil {
			t = append(t, "syn-header")
		}
		if cls == "ok" && r.RUDPHeaderEACK != nil {
			t = append(t, "eack-header")
		}
		if cls == "ok" && len(data) > len(r.Contents)+len(r.Payload) {
			t = append(t, "trailing-bytes-dropped")
		}
		return t
	},
}

func (lmodbus) Run(c Case) Result { return lmRun(lmodbusDesc, c) }
func (lrudp) Run(c Case) Result   { return lmRun(lrudpDesc, c) }

func mbBuild(rng *rand.Rand, pdu int, delta int) []byte {
	h := make([]byte, 7)
	lmPut16(h[0:], rng.Intn(65536))
	lmPut16(h[2:], lnPick(rng, 0, 0, 1, 65535))
	lmPut16(h[4:], pdu+1+delta)
	h[6] = byte(rng.Intn(256))
	return append(h, lnRandBytes(rng, pdu)...)
}

func (lmodbus) Gen(rng *rand.Rand, tier string) []Case {
	return lmGen(lmodbusDesc, lmGenCfg{
		valid:  func(rng *rand.Rand) []byte { return mbBuild(rng, lnPick(rng, 2, 2, 5, 6, 253, 100), lnPick(rng, 0, 0, 0, 0, 1, -1)) },
		hdrLen: func(p []byte) int { if len(p) > 12 { return 12 }; return len(p) },
		seeds:  nil,
		extra: func(rng *rand.Rand, add func(ops ...string)) {
			for _, n := range []int{0, 1, 2, 3, 252, 253, 254, 255, 300} { // PDU sizes around the 2..253 bounds
				for _, d := range []int{0, 1, -1, 256, -256} {
					p := mbBuild(rng, n, d)
					add("tag:length-extreme", "dec:"+lnHex(p))
					add("tag:length-extreme", "dec2:"+lnHex(mbBuild(rng, 5, 0))+","+lnHex(p))
				}
			}
		},
	}, rng, tier)
}

// ruBuild: flags octet, header length octet (in 16-bit words), variable header area, data length field, payload, trailing bytes
func ruBuild(rng *rand.Rand, fl byte, hl int, vha int, dl int, present int) []byte {
	h := make([]byte, 18)
	h[0], h[1], h[2], h[3] = fl, byte(hl), byte(rng.Intn(256)), byte(rng.Intn(256))
	lmPut16(h[4:], dl)
	copy(h[6:], lnRandBytes(rng, 12))
	h = append(h, lnRandBytes(rng, vha)...)
	return append(h, lnRandBytes(rng, present)...)
}

func (lrudp) Gen(rng *rand.Rand, tier string) []Case {
	return lmGen(lrudpDesc, lmGenCfg{
		valid: func(rng *rand.Rand) []byte {
			pl := lnPick(rng, 0, 1, 10, 33)
			switch rng.Intn(4) {
			case 0:
				return ruBuild(rng, 0x80|byte(rng.Intn(4)), 12, 6, pl, pl+lnPick(rng, 0, 0, 3)) // SYN
			case 1:
				k := lnPick(rng, 0, 1, 2, 5)
				return ruBuild(rng, 0x60, 9+2*k, 4*k, pl, pl) // EACK
			case 2:
				return ruBuild(rng, byte(lnPick(rng, 0x40, 0x10, 0x08, 0x00, 0x1f)), 9, 0, pl, pl+lnPick(rng, 0, 0, 2))
			}
			v := lnPick(rng, 0, 2, 4, 6, 7)
			return ruBuild(rng, byte(rng.Intn(256)), lnPick(rng, 9+v/2, 9+v/2, 8, 0, 255), v, pl+lnPick(rng, 0, 0, 1, 1000), pl)
		},
		hdrLen: func(p []byte) int { if len(p) > 26 { return 26 }; return len(p) },
		extra: func(rng *rand.Rand, add func(ops ...string)) {
			for b := 0; b < 256; b++ { // every flags octet with a 6-octet and a 4-octet variable header area
				add("tag:flags-every-value", "dec:"+lnHex(ruBuild(rng, byte(b), 12, 6, 2, 2)))
				add("tag:flags-every-value", "dec:"+lnHex(ruBuild(rng, byte(b), 11, 4, 0, 0)))
			}
			for _, hl := range []int{0, 8, 9, 10, 11, 12, 13, 127, 128, 255} { // header length against the octets present
				for _, d := range []int{-1, 0, 1} {
					v := 2*hl - 18 + d
					if v < 0 {
						v = 0
					}
					for _, fl := range []byte{0x80, 0x20, 0x00} {
						add("tag:length-extreme", "dec:"+lnHex(ruBuild(rng, fl, hl, v, 0, 0)))
						add("tag:length-extreme", "dec:"+lnHex(ruBuild(rng, fl, hl, v, 3, 2)))
					}
				}
			}
		},
	}, rng, tier)
}
