package main

// C15pcap: the classic pcap reader and the snoop reader on hostile input.
//
// ops:  fmt:pcap|snoop   zc:0|1   n:<max read calls>   gz:0|1 (stream is gzip-wrapped by the harness)
//       de:0|1 (the final error/EOF is delivered together with the last bytes)
//       c:<hex> (one chunk = one Read of the underlying stream; may be empty)   fail (injected read error)
//       tag:<t> (generator annotation, echoed as a tag)
// observations: step 0 header (hdr=ok;... | hdr=<class>), then one line per read call until an
// I/O-class error (eof, ueof, ioerr), a panic, or n calls.  gzip input is not modelled: for gz:1
// (and for plain input that happens to start with 1f 8b) both sides print a fixed line and the
// case counts on the oracle side only.

import (
	"sort"
	"bytes"
	"compress/gzip"
	"encoding/binary"
	"encoding/hex"
	"fmt"
	"math/rand"
	"strconv"
	"strings"
)

type c15pcap struct{}

func init() { register("C15pcap", c15pcap{}) }

// ---------------------------------------------------------------- file builders with field maps

type c15Field struct {
	class string // tag suffix: magic, version, snaplen, linktype, ts, caplen, len, reclen, ...
	off   int
	size  int
	rec   int // record index, -1 for the file header
}

type c15File struct {
	format  string
	be      bool
	data    []byte
	fields  []c15Field
	snap    uint64
	caplens []int
}

func c15GenPcap(rng *rand.Rand, maxBytes int) c15File {
	f := c15File{format: "pcap"}
	f.be = rng.Intn(2) == 0
	nano := rng.Intn(2) == 0
	npk := rng.Intn(5)
	var pkts []pcPkt
	total := 24
	for i := 0; i < npk; i++ {
		p := c14RandPkt(rng, 64)
		if p.len > 1<<31 && rng.Intn(2) == 0 {
			p.len = p.caplen + 3
		}
		if total+16+len(p.data) > maxBytes {
			break
		}
		total += 16 + len(p.data)
		pkts = append(pkts, p)
	}
	maxcap := 0
	for _, p := range pkts {
		if len(p.data) > maxcap {
			maxcap = len(p.data)
		}
	}
	switch rng.Intn(3) {
	case 0:
		f.snap = uint64(maxcap)
	case 1:
		f.snap = 65535
	default:
		f.snap = uint64(maxcap + rng.Intn(10))
	}
	f.data = pcEncHeader(f.be, nano, f.snap, c14LTs[rng.Intn(len(c14LTs))])
	f.fields = []c15Field{{"magic", 0, 4, -1}, {"version", 4, 2, -1}, {"version", 6, 2, -1}, {"tz", 8, 4, -1},
		{"tz", 12, 4, -1}, {"snaplen", 16, 4, -1}, {"linktype", 20, 4, -1}}
	for i, p := range pkts {
		o := len(f.data)
		f.fields = append(f.fields, c15Field{"ts", o, 4, i}, c15Field{"ts", o + 4, 4, i}, c15Field{"caplen", o + 8, 4, i}, c15Field{"len", o + 12, 4, i})
		f.data = append(f.data, pcEncRecord(f.be, nano, p)...)
		f.caplens = append(f.caplens, len(p.data))
	}
	return f
}

func c15GenSnoop(rng *rand.Rand, maxBytes int) c15File {
	f := c15File{format: "snoop", be: true, snap: 4096}
	f.data = append(f.data, 0x73, 0x6e, 0x6f, 0x6f, 0x70, 0, 0, 0)
	f.data = append(f.data, put32(true, 2)...)
	lts := []uint32{0, 1, 2, 3, 4, 5, 8, 9, 10}
	f.data = append(f.data, put32(true, lts[rng.Intn(len(lts))])...)
	f.fields = []c15Field{{"magic", 0, 4, -1}, {"magic", 4, 4, -1}, {"version", 8, 4, -1}, {"linktype", 12, 4, -1}}
	npk := rng.Intn(5)
	for i := 0; i < npk; i++ {
		n := c14DataLens[rng.Intn(len(c14DataLens))]
		if n > 64 {
			n = 64
		}
		if rng.Intn(12) == 0 {
			n = 4096 // the largest capture length the reader accepts
		}
		orig := n
		switch rng.Intn(3) {
		case 0:
			orig = n + rng.Intn(100) // truncated capture
		case 1:
			orig = n + 1
		}
		pad := 0
		switch rng.Intn(4) {
		case 0:
			pad = (4 - n%4) % 4
		case 1:
			pad = (8 - n%8) % 8
		case 2:
			pad = rng.Intn(9)
		}
		if len(f.data)+24+n+pad > maxBytes && n > 64 {
			n, orig, pad = 3, 3, 1
		}
		if len(f.data)+24+n+pad > maxBytes {
			break
		}
		o := len(f.data)
		f.fields = append(f.fields, c15Field{"len", o, 4, i}, c15Field{"caplen", o + 4, 4, i}, c15Field{"reclen", o + 8, 4, i},
			c15Field{"drops", o + 12, 4, i}, c15Field{"ts", o + 16, 4, i}, c15Field{"ts", o + 20, 4, i})
		f.data = append(f.data, put32(true, uint32(orig))...)
		f.data = append(f.data, put32(true, uint32(n))...)
		f.data = append(f.data, put32(true, uint32(24+n+pad))...)
		f.data = append(f.data, put32(true, uint32(rng.Intn(3)))...)
		f.data = append(f.data, put32(true, uint32(c14Secs[rng.Intn(len(c14Secs))]))...)
		usec := []uint32{0, 1, 999999, 1000000, 4294967, 4294968, 4294967295, uint32(rng.Intn(1000000))}
		f.data = append(f.data, put32(true, usec[rng.Intn(len(usec))])...)
		f.data = append(f.data, c14RandData(rng, n+pad)...)
		f.caplens = append(f.caplens, n)
	}
	return f
}

func (f c15File) get(fl c15Field) uint64 {
	b := f.data[fl.off : fl.off+fl.size]
	if fl.size == 2 {
		if f.be {
			return uint64(binary.BigEndian.Uint16(b))
		}
		return uint64(binary.LittleEndian.Uint16(b))
	}
	if f.be {
		return uint64(binary.BigEndian.Uint32(b))
	}
	return uint64(binary.LittleEndian.Uint32(b))
}

func (f c15File) set(fl c15Field, v uint64) c15File {
	d := append([]byte(nil), f.data...)
	if fl.size == 2 {
		copy(d[fl.off:], put16(f.be, uint16(v)))
	} else {
		copy(d[fl.off:], put32(f.be, uint32(v)))
	}
	g := f
	g.data = d
	return g
}

// boundary values for a field: 0, 1, max, sign boundaries, and +-1 around every bound the
// readers compare it with
func (f c15File) boundaryValues(fl c15Field) []uint64 {
	vals := []uint64{0, 1, 2, 0x7fffffff, 0x80000000, 0xfffffffe, 0xffffffff}
	if fl.size == 2 {
		vals = []uint64{0, 1, 2, 3, 4, 5, 0x0200, 0x0400, 0x7fff, 0x8000, 0xffff}
	}
	add := func(x int64) {
		for _, d := range []int64{-1, 0, 1} {
			if x+d >= 0 && x+d <= 0xffffffff {
				vals = append(vals, uint64(x+d))
			}
		}
	}
	cur := int64(f.get(fl))
	add(cur)
	add(int64(f.snap))
	add(4096)
	add(65536)
	add(1 << 24)
	if fl.rec >= 0 && fl.rec < len(f.caplens) {
		c := int64(f.caplens[fl.rec])
		add(c)
		add(24 + c)
		add(16 + c)
		rest := int64(len(f.data) - fl.off)
		add(rest)
	}
	if fl.class == "magic" {
		vals = append(vals, 0xA1B2C3D4, 0xD4C3B2A1, 0xA1B23C4D, 0x4D3CB2A1, 0x0A0D0D0A, 0x1f8b0800, 0x00088b1f, 0x736e6f6f, 0x70000000)
	}
	if fl.class == "linktype" {
		vals = append(vals, 9, 10, 11, 255, 256, 65535, 65536)
	}
	if fl.class == "ts" {
		vals = append(vals, 999999, 1000000, 4294967, 4294968, 999999999, 1000000000)
	}
	seen := map[uint64]bool{}
	var out []uint64
	for _, v := range vals {
		if !seen[v] {
			seen[v] = true
			out = append(out, v)
		}
	}
	return out
}

// ---------------------------------------------------------------- case construction

type c15Spec struct {
	format string
	zc     bool
	gz     bool
	de     bool
	fail   bool
	chunks [][]byte
	tags   []string
	nCalls int
	snaps  map[int]uint32 // classic pcap: call index -> Reader.SetSnaplen value set just before that call
}

func c15Calls(format string, nbytes int) int {
	if format == "snoop" {
		return nbytes/24 + 2
	}
	return nbytes/16 + 2
}

func (s c15Spec) toCase() Case {
	b2i := func(b bool) int {
		if b {
			return 1
		}
		return 0
	}
	ops := []string{"fmt:" + s.format, fmt.Sprintf("zc:%d", b2i(s.zc)), fmt.Sprintf("n:%d", s.nCalls),
		fmt.Sprintf("gz:%d", b2i(s.gz)), fmt.Sprintf("de:%d", b2i(s.de))}
	for _, t := range s.tags {
		ops = append(ops, "tag:"+t)
	}
	for _, c := range s.chunks {
		ops = append(ops, "c:"+hex.EncodeToString(c))
	}
	if s.fail {
		ops = append(ops, "fail")
	}
	if len(s.snaps) > 0 {
		var ks []int
		for k := range s.snaps {
			ks = append(ks, k)
		}
		sort.Ints(ks)
		var it []string
		for _, k := range ks {
			it = append(it, fmt.Sprintf("%d.%d", k, s.snaps[k]))
		}
		ops = append(ops, "ss:"+strings.Join(it, ","))
	}
	return Case{Prop: "C15pcap", Ops: ops}
}

func c15RandSplit(rng *rand.Rand, data []byte, withEmpty bool) [][]byte {
	var out [][]byte
	for len(data) > 0 {
		n := 1 + rng.Intn(len(data))
		switch rng.Intn(4) {
		case 0:
			n = 1
		case 1:
			if n > 4 {
				n = 1 + rng.Intn(4)
			}
		}
		out = append(out, data[:n])
		data = data[n:]
		if withEmpty && rng.Intn(4) == 0 {
			for k := rng.Intn(3); k >= 0; k-- {
				out = append(out, []byte{})
			}
		}
	}
	return out
}

func c15OneByte(data []byte) [][]byte {
	out := make([][]byte, len(data))
	for i := range data {
		out[i] = data[i : i+1]
	}
	return out
}

// keeps hostile cases cheap to run: a zero-copy pcap read allocates the declared snap length,
// a copying read the declared capture length (both within the property's bound); cap what the
// generator asks the process to allocate at 16 MiB per call
func c15Affordable(f c15File, zc bool) bool {
	if f.format != "pcap" || len(f.data) < 24 {
		return true
	}
	var bo binary.ByteOrder = binary.LittleEndian
	m := binary.LittleEndian.Uint32(f.data[0:4])
	if m == 0xD4C3B2A1 || m == 0x4D3CB2A1 {
		bo = binary.BigEndian
	}
	snap := bo.Uint32(f.data[16:20])
	return snap <= 1<<24
}

func (c15pcap) Gen(rng *rand.Rand, tier string) []Case {
	var out []Case
	mult := 1
	if tier == "thorough" {
		mult = 8
	}
	gen := func(format string, max int) c15File {
		if format == "snoop" {
			return c15GenSnoop(rng, max)
		}
		return c15GenPcap(rng, max)
	}
	emit := func(f c15File, s c15Spec) {
		s.format = f.format
		if s.nCalls == 0 {
			total := 0
			for _, c := range s.chunks {
				total += len(c)
			}
			s.nCalls = c15Calls(f.format, total)
		}
		out = append(out, s.toCase())
	}
	for _, format := range []string{"pcap", "snoop"} {
		// 1. valid files, whole / chunked / one byte at a time / gzip
		for i := 0; i < 30*mult; i++ {
			f := gen(format, 400)
			zc := i%2 == 0
			emit(f, c15Spec{zc: zc, chunks: [][]byte{f.data}, tags: []string{"valid"}})
			emit(f, c15Spec{zc: zc, chunks: c15RandSplit(rng, f.data, i%3 == 0), de: i%4 == 1, tags: []string{"short-read-chunking"}})
			if i%5 == 0 {
				emit(f, c15Spec{zc: zc, chunks: c15OneByte(f.data), de: i%2 == 1, tags: []string{"short-read-chunking"}})
			}
			if format == "pcap" && i%3 == 0 {
				emit(f, c15Spec{zc: zc, gz: true, chunks: c15RandSplit(rng, f.data, false), tags: []string{"gzip"}})
			}
		}
		// 1b. classic pcap: the consumer changes the snap length between reads (raise after the first read so
		// that a later, larger record needs a larger zero-copy buffer; lower it; 0; maximum)
		if format == "pcap" {
			for i := 0; i < 24*mult; i++ {
				f := c15GenPcap(rng, 300)
				sn := map[int]uint32{}
				for k, n := 0, 1+rng.Intn(3); k < n; k++ {
					var v uint32
					switch rng.Intn(6) {
					case 0:
						v = 0
					case 1:
						v = 1 << 20 // large, but the zero-copy reader allocates a buffer of this size
					case 2:
						v = uint32(rng.Intn(16))
					default:
						v = uint32(rng.Intn(400))
					}
					sn[rng.Intn(6)] = v
				}
				spec := c15Spec{zc: i%3 != 0, chunks: [][]byte{f.data}, snaps: sn, tags: []string{"setsnaplen"}}
				if i%4 == 0 {
					spec.chunks = c15RandSplit(rng, f.data, false)
				}
				emit(f, spec)
			}
			// small header snap length, records growing beyond it, limit raised after k reads
			for k := 0; k <= 3; k++ {
				for _, zc := range []bool{true, false} {
					hdr := []byte{0xd4, 0xc3, 0xb2, 0xa1, 2, 0, 4, 0, 0, 0, 0, 0, 0, 0, 0, 0, 8, 0, 0, 0, 1, 0, 0, 0}
					data := append([]byte(nil), hdr...)
					for j, l := range []int{4, 8, 64, 9, 300, 2} {
						rec := make([]byte, 16+l)
						binary.LittleEndian.PutUint32(rec[0:], uint32(1600000000+j))
						binary.LittleEndian.PutUint32(rec[8:], uint32(l))
						binary.LittleEndian.PutUint32(rec[12:], uint32(l))
						for x := 0; x < l; x++ {
							rec[16+x] = byte(x + j)
						}
						data = append(data, rec...)
					}
					emit(c15File{format: "pcap", data: data}, c15Spec{zc: zc, chunks: [][]byte{data}, snaps: map[int]uint32{k: 1500}, tags: []string{"setsnaplen"}})
				}
			}
		}
		// 2. every field of header and records forced to boundary values
		for i := 0; i < 3*mult; i++ {
			f := gen(format, 300)
			for _, fl := range f.fields {
				for _, v := range f.boundaryValues(fl) {
					if v == f.get(fl) {
						continue
					}
					g := f.set(fl, v)
					zc := rng.Intn(2) == 0
					if !c15Affordable(g, zc) {
						// a huge declared snap length: only with the records left valid (copying
						// reads then allocate the small capture lengths, or what the swapped byte
						// order makes of them)
						if fl.class != "snaplen" && fl.class != "magic" {
							continue
						}
						zc = false
					}
					tag := "mut-" + fl.class
					if fl.class == "reclen" {
						tag = "mut-reclen,mut-pad"
					}
					s := c15Spec{zc: zc, chunks: [][]byte{g.data}, tags: strings.Split(tag, ",")}
					switch rng.Intn(6) {
					case 0:
						s.chunks = c15RandSplit(rng, g.data, false)
						s.tags = append(s.tags, "short-read-chunking")
					case 1:
						s.fail = true
						s.tags = append(s.tags, "injected-error")
					}
					emit(g, s)
				}
			}
		}
		// 2b. two fields at once (caplen together with len / snaplen / reclen)
		for i := 0; i < 100*mult; i++ {
			f := gen(format, 300)
			if len(f.fields) < 6 {
				continue
			}
			g := f
			var tags []string
			for k := 0; k < 2+rng.Intn(2); k++ {
				fl := f.fields[rng.Intn(len(f.fields))]
				if fl.class == "snaplen" {
					continue // keeps the declared bound small while capture lengths go wild
				}
				vs := g.boundaryValues(fl)
				g = g.set(fl, vs[rng.Intn(len(vs))])
				tags = append(tags, "mut-"+fl.class)
			}
			if len(tags) == 0 {
				continue
			}
			emit(g, c15Spec{zc: rng.Intn(2) == 0, chunks: c15RandSplit(rng, g.data, false), tags: tags})
		}
		// 3. garbage: random bytes; a valid header followed by random bytes; byte flips; truncation + extension
		for i := 0; i < 120*mult; i++ {
			f := gen(format, 300)
			g := f
			var tag string
			switch i % 4 {
			case 0:
				g.data = make([]byte, rng.Intn(200))
				rng.Read(g.data)
				tag = "garbage"
			case 1:
				hl := 24
				if format == "snoop" {
					hl = 16
				}
				tail := make([]byte, rng.Intn(300))
				rng.Read(tail)
				if rng.Intn(2) == 0 { // mostly-zero noise keeps lengths small, so records chain
					for j := range tail {
						if rng.Intn(4) != 0 {
							tail[j] = 0
						}
					}
				}
				g.data = append(append([]byte(nil), f.data[:hl]...), tail...)
				tag = "garbage-records"
			case 2:
				g.data = append([]byte(nil), f.data...)
				for k := 0; k < 1+rng.Intn(4) && len(g.data) > 0; k++ {
					g.data[rng.Intn(len(g.data))] ^= byte(1 << uint(rng.Intn(8)))
				}
				tag = "bitflip"
			case 3:
				k := rng.Intn(len(f.data) + 1)
				g.data = append(append([]byte(nil), f.data[:k]...), f.data[:rng.Intn(len(f.data)+1)]...)
				tag = "splice"
			}
			zc := rng.Intn(2) == 0
			if !c15Affordable(g, zc) {
				continue
			}
			s := c15Spec{zc: zc, chunks: c15RandSplit(rng, g.data, i%5 == 0), de: i%3 == 0, tags: []string{tag, "short-read-chunking"}}
			if i%6 == 0 {
				s.fail = true
				s.tags = append(s.tags, "injected-error")
			}
			emit(g, s)
		}
		// 4. every single split point and an injected error at every position of small files
		for i := 0; i < 2*mult; i++ {
			f := gen(format, 160)
			for try := 0; try < 200; try++ { // at least two records that carry data
				n := 0
				for _, c := range f.caplens {
					if c > 0 {
						n++
					}
				}
				if n >= 2 {
					break
				}
				f = gen(format, 160)
			}
			if i%2 == 1 && len(f.fields) > 7 { // a corrupted file too
				f = f.set(f.fields[len(f.fields)-2], 0xffffffff)
			}
			for k := 0; k <= len(f.data); k++ {
				zc := k%2 == 0
				emit(f, c15Spec{zc: zc, chunks: [][]byte{f.data[:k], f.data[k:]}, de: k%3 == 0, tags: []string{"short-read-chunking"}, nCalls: c15Calls(format, len(f.data))})
				s := c15Spec{zc: zc, chunks: [][]byte{f.data[:k]}, fail: true, de: k%2 == 1, tags: []string{"injected-error"}, nCalls: c15Calls(format, len(f.data))}
				if k%4 == 0 {
					s.chunks = c15RandSplit(rng, f.data[:k], k%8 == 0)
					s.tags = append(s.tags, "short-read-chunking")
				}
				emit(f, s)
				// the stream simply ends at k (truncated file), whole and one byte at a time
				emit(f, c15Spec{zc: zc, chunks: [][]byte{f.data[:k]}, tags: []string{"truncated"}, nCalls: c15Calls(format, len(f.data))})
				emit(f, c15Spec{zc: !zc, chunks: [][]byte{f.data[:k]}, tags: []string{"truncated"}, nCalls: c15Calls(format, len(f.data))})
				if k%5 == 0 {
					emit(f, c15Spec{zc: zc, chunks: c15OneByte(f.data[:k]), de: true, tags: []string{"truncated", "short-read-chunking"}, nCalls: c15Calls(format, len(f.data))})
				}
			}
		}
		// 4b. all chunkings into <= 3 pieces of a tiny file (thorough: every pair of split points)
		{
			f := gen(format, 70)
			step := 7
			if tier == "thorough" {
				step = 1
			}
			for a := 0; a <= len(f.data); a += step {
				for b := a; b <= len(f.data); b += step {
					emit(f, c15Spec{zc: (a+b)%2 == 0, chunks: [][]byte{f.data[:a], f.data[a:b], f.data[b:]}, de: (a+b)%3 == 0, tags: []string{"short-read-chunking"}})
				}
			}
		}
		// 5. gzip-wrapped mutated input (pcap only; oracle side only)
		if format == "pcap" {
			for i := 0; i < 25*mult; i++ {
				f := gen(format, 300)
				fl := f.fields[rng.Intn(len(f.fields))]
				vs := f.boundaryValues(fl)
				g := f.set(fl, vs[rng.Intn(len(vs))])
				if !c15Affordable(g, false) {
					continue
				}
				emit(g, c15Spec{zc: i%2 == 0, gz: true, chunks: c15RandSplit(rng, g.data, false), tags: []string{"gzip", "mut-" + fl.class}})
			}
		}
	}
	return out
}

// ---------------------------------------------------------------- running

func c15Parse(c Case) c15Spec {
	var s c15Spec
	for _, op := range c.Ops {
		name, arg, _ := strings.Cut(op, ":")
		switch name {
		case "fmt":
			s.format = arg
		case "zc":
			s.zc = arg == "1"
		case "gz":
			s.gz = arg == "1"
		case "de":
			s.de = arg == "1"
		case "n":
			s.nCalls, _ = strconv.Atoi(arg)
		case "tag":
			s.tags = append(s.tags, arg)
		case "c":
			b, _ := hex.DecodeString(arg)
			s.chunks = append(s.chunks, b)
		case "fail":
			s.fail = true
		case "ss":
			s.snaps = map[int]uint32{}
			for _, it := range strings.Split(arg, ",") {
				k, v, _ := strings.Cut(it, ".")
				ki, _ := strconv.Atoi(k)
				vi, _ := strconv.ParseUint(v, 10, 32)
				s.snaps[ki] = uint32(vi)
			}
		}
	}
	return s
}

func c15Gzip(data []byte) []byte {
	var buf bytes.Buffer
	w := gzip.NewWriter(&buf)
	w.Write(data)
	w.Close()
	return buf.Bytes()
}

// re-chunk b at the same relative positions as the original chunks (used for gzip input)
func c15Rechunk(b []byte, chunks [][]byte) [][]byte {
	var out [][]byte
	for i, c := range chunks {
		n := len(c)
		if n > len(b) || i == len(chunks)-1 {
			n = len(b)
		}
		out = append(out, b[:n])
		b = b[n:]
	}
	if len(b) > 0 {
		out = append(out, b)
	}
	return out
}

func (c15pcap) Run(c Case) Result {
	var res Result
	s := c15Parse(c)
	res.Tags = append(res.Tags, s.tags...)
	res.Tags = append(res.Tags, s.format)
	if s.zc {
		res.Tags = append(res.Tags, "zero-copy")
	}
	var concat []byte
	for _, ch := range s.chunks {
		concat = append(concat, ch...)
	}
	present := uint64(len(concat))
	looksGzip := len(concat) >= 2 && concat[0] == 0x1f && concat[1] == 0x8b && s.format == "pcap"
	// declared bound, read off the bytes by the harness itself
	declared := uint64(4096) // snoop: maxCaptureLen
	if s.format == "pcap" {
		declared = 0
		if len(concat) >= 24 {
			switch binary.LittleEndian.Uint32(concat[0:4]) {
			case 0xA1B2C3D4, 0xA1B23C4D:
				declared = uint64(binary.LittleEndian.Uint32(concat[16:20]))
			case 0xD4C3B2A1, 0x4D3CB2A1:
				declared = uint64(binary.BigEndian.Uint32(concat[16:20]))
			}
		}
	}
	var sched []map[int]uint32
	if len(s.snaps) > 0 && s.format == "pcap" {
		sched = []map[int]uint32{s.snaps}
		res.Tags = append(res.Tags, "setsnaplen-between-reads")
		for _, v := range s.snaps {
			if uint64(v) > declared {
				declared = uint64(v)
			}
		}
	}
	slack := uint64(64 << 10)
	if s.gz || looksGzip {
		slack = 1 << 20
	}
	feed := s.chunks
	if s.gz {
		feed = c15Rechunk(c15Gzip(concat), s.chunks)
	}
	main := runReader(s.format, s.zc, s.nCalls, &chunkReader{chunks: feed, fail: s.fail, dataErr: s.de}, true, sched...)
	switch {
	case s.gz:
		res.Obs = []string{"gzip"}
	case looksGzip:
		res.Obs = []string{"hdr=gzip"}
	default:
		res.Obs = main.obs()
	}
	// ---- oracle: the property, stated on the implementation
	if main.hung {
		res.Oracle = append(res.Oracle, "C15:hang\tno result within 20 s")
		return res
	}
	if main.panicMsg != "" {
		res.Oracle = append(res.Oracle, "C15:panic\t"+main.panicMsg)
	}
	if main.shapeBad != "" {
		res.Oracle = append(res.Oracle, "C15:shape\t"+main.shapeBad)
	}
	for i, a := range main.allocs {
		if a > present+declared+slack {
			res.Oracle = append(res.Oracle, fmt.Sprintf("C15:alloc\tcall=%d allocated %d bytes; bytes present %d, declared bound %d", i, a, present, declared))
			break
		}
	}
	// termination: enough calls were allowed to exhaust the bytes present, so the last result
	// must be an I/O-class error (each call consumes a record header or ends the stream)
	if main.hdr == "ok" && s.nCalls >= c15Calls(s.format, int(present)) && main.panicMsg == "" {
		if len(main.res) == 0 || !isIOClass(main.res[len(main.res)-1].cls) {
			res.Oracle = append(res.Oracle, fmt.Sprintf("C15:terminates\t%d calls on %d bytes without reaching the end of the stream", len(main.res), present))
		}
	}
	// chunking invariance: the same bytes as one chunk, error delivered separately
	canon := runReader(s.format, s.zc, s.nCalls, &chunkReader{chunks: [][]byte{concat}, fail: s.fail}, false, sched...)
	mo, co := main.obs(), canon.obs()
	if strings.Join(mo, "|") != strings.Join(co, "|") {
		cl := "C15:chunking"
		if s.gz {
			cl = "C15:gzip"
		}
		res.Oracle = append(res.Oracle, fmt.Sprintf("%s\tchunked %v / whole %v", cl, c15Short(mo), c15Short(co)))
	}
	// a read error surfaces as that error where the clean stream reports its end
	if s.fail {
		clean := runReader(s.format, s.zc, s.nCalls, bytes.NewReader(concat), false, sched...)
		want := clean.obs()
		for i, o := range want {
			if o == "eof" || o == "ueof" || o == "hdr=eof" || o == "hdr=ueof" {
				want[i] = strings.Replace(strings.Replace(o, "ueof", "ioerr", 1), "eof", "ioerr", 1)
				want = want[:i+1]
				break
			}
		}
		if strings.Join(co, "|") != strings.Join(want, "|") {
			res.Oracle = append(res.Oracle, fmt.Sprintf("C15:ioerr-surfaces\twith read error %v / expected %v", c15Short(co), c15Short(want)))
		}
	}
	return res
}

func c15Short(obs []string) string {
	var out []string
	for _, o := range obs {
		if len(o) > 60 {
			o = o[:60] + "..."
		}
		out = append(out, o)
	}
	if len(out) > 8 {
		out = append(out[:8], "...")
	}
	return strings.Join(out, " | ")
}
