package main

// Shared by the C14pcap and C15pcap sub-checks: adversarial io.Reader, a hand-written pcap /
// snoop file encoder (independent of pcapgo), observation formatting, guarded execution of the
// pcapgo readers (panic recovery, per-case time limit, allocation measurement).

import (
	"bytes"
	"encoding/binary"
	"encoding/hex"
	"errors"
	"fmt"
	"io"
	"runtime"
	"strconv"
	"strings"
	"time"

	"github.com/gopacket/gopacket"
	"github.com/gopacket/gopacket/pcapgo"
)

var errInjected = errors.New("gpverif: injected read error")

// chunkReader delivers the chunks one Read at a time (never more than one chunk, never more
// than len(p)); after the last chunk it returns io.EOF, or errInjected when fail is set, for
// ever.  With dataErr the final error is delivered together with the last bytes
// (iotest.DataErrReader style).  An empty chunk is a (0, nil) read.
type chunkReader struct {
	chunks  [][]byte
	fail    bool
	dataErr bool
	idx     int
	off     int
	reads   int
}

func (r *chunkReader) final() error {
	if r.fail {
		return errInjected
	}
	return io.EOF
}

func (r *chunkReader) Read(p []byte) (int, error) {
	r.reads++
	if r.idx >= len(r.chunks) {
		return 0, r.final()
	}
	if len(p) == 0 {
		return 0, nil
	}
	ch := r.chunks[r.idx]
	n := copy(p, ch[r.off:])
	r.off += n
	if r.off >= len(ch) {
		r.idx++
		r.off = 0
	}
	if r.dataErr && r.idx >= len(r.chunks) {
		return n, r.final()
	}
	return n, nil
}

// ---------------------------------------------------------------- packets and files

type pcPkt struct {
	sec, nsec   int64
	caplen, len int64
	data        []byte
}

type pcRes struct { // one reader call
	cls    string // ok eof ueof ioerr err panic
	sec    int64
	nsec   int64
	caplen int
	length int
	data   []byte
	detail string // panic text
}

func (r pcRes) String() string {
	if r.cls != "ok" {
		return r.cls
	}
	return fmt.Sprintf("ok;ts=%d.%d;cap=%d;len=%d;data=%s", r.sec, r.nsec, r.caplen, r.length, hex.EncodeToString(r.data))
}

func (r pcRes) equal(o pcRes) bool {
	if r.cls != o.cls {
		return false
	}
	if r.cls != "ok" {
		return true
	}
	return r.sec == o.sec && r.nsec == o.nsec && r.caplen == o.caplen && r.length == o.length && string(r.data) == string(o.data)
}

func errClass(err error) string {
	switch {
	case err == nil:
		return "ok"
	case err == io.EOF:
		return "eof"
	case err == io.ErrUnexpectedEOF:
		return "ueof"
	case err == errInjected:
		return "ioerr"
	}
	return "err"
}

func isIOClass(c string) bool { return c == "eof" || c == "ueof" || c == "ioerr" }

func put32(be bool, v uint32) []byte {
	b := make([]byte, 4)
	if be {
		binary.BigEndian.PutUint32(b, v)
	} else {
		binary.LittleEndian.PutUint32(b, v)
	}
	return b
}

func put16(be bool, v uint16) []byte {
	b := make([]byte, 2)
	if be {
		binary.BigEndian.PutUint16(b, v)
	} else {
		binary.LittleEndian.PutUint16(b, v)
	}
	return b
}

// floorDiv: mathematical floor division (the model works in Z)
func floorDiv(a, b int64) int64 {
	q := a / b
	if (a%b != 0) && ((a < 0) != (b < 0)) {
		q--
	}
	return q
}

// pcEncHeader / pcEncRecord: the classic pcap format written by hand (libpcap file format
// 2.4), in either byte order.  Values are reduced mod 2^32.
func pcEncHeader(be, nano bool, snap, lt uint64) []byte {
	magic := uint32(0xA1B2C3D4)
	if nano {
		magic = 0xA1B23C4D
	}
	var out []byte
	out = append(out, put32(be, magic)...)
	out = append(out, put16(be, 2)...)
	out = append(out, put16(be, 4)...)
	out = append(out, make([]byte, 8)...)
	out = append(out, put32(be, uint32(snap))...)
	out = append(out, put32(be, uint32(lt))...)
	return out
}

func pcEncRecord(be, nano bool, p pcPkt) []byte {
	sc := int64(1000)
	if nano {
		sc = 1
	}
	var out []byte
	out = append(out, put32(be, uint32(p.sec))...)
	out = append(out, put32(be, uint32(floorDiv(p.nsec, sc)))...)
	out = append(out, put32(be, uint32(p.caplen))...)
	out = append(out, put32(be, uint32(p.len))...)
	out = append(out, p.data...)
	return out
}

func parsePkt(arg string) pcPkt {
	a := strings.Split(arg, ",")
	var p pcPkt
	p.sec, _ = strconv.ParseInt(a[0], 10, 64)
	p.nsec, _ = strconv.ParseInt(a[1], 10, 64)
	p.caplen, _ = strconv.ParseInt(a[2], 10, 64)
	p.len, _ = strconv.ParseInt(a[3], 10, 64)
	if len(a) > 4 {
		p.data, _ = hex.DecodeString(a[4])
	}
	return p
}

func (p pcPkt) op() string {
	return fmt.Sprintf("p:%d,%d,%d,%d,%s", p.sec, p.nsec, p.caplen, p.len, hex.EncodeToString(p.data))
}

// ---------------------------------------------------------------- guarded reader runs

type pcapRun struct {
	hdr      string  // ok eof ueof ioerr err panic
	hdrObs   string  // full header observation
	res      []pcRes // one per read call
	panicMsg string
	hung     bool
	allocs   []uint64 // TotalAlloc delta of NewReader and of each read call
	shapeBad string
	laterBad string // a copying read whose data, kept as returned, differs after the later reads
}

type pktReader interface {
	ReadPacketData() ([]byte, gopacket.CaptureInfo, error)
	ZeroCopyReadPacketData() ([]byte, gopacket.CaptureInfo, error)
}

func memTotal() uint64 {
	var m runtime.MemStats
	runtime.ReadMemStats(&m)
	return m.TotalAlloc
}

// runReader opens the stream with the pcap or snoop reader and calls the (zero-copy) read
// function until an I/O-class error, a panic, or maxCalls calls.  measure: record allocation.
func runReader(format string, zc bool, maxCalls int, rd io.Reader, measure bool, sched ...map[int]uint32) pcapRun {
	if !measure { // benign input (C14): no time limit needed
		return runReaderInline(format, zc, maxCalls, rd, false, sched...)
	}
	done := make(chan pcapRun, 1)
	go func() { done <- runReaderInline(format, zc, maxCalls, rd, measure, sched...) }()
	if run, ok := recvBusyAware(done, 20*time.Second); ok {
		return run
	}
	return pcapRun{hdr: "hang", hdrObs: "hdr=hang", hung: true}
}

// sched (optional, classic pcap only): call index -> value given to Reader.SetSnaplen just before that call
func runReaderInline(format string, zc bool, maxCalls int, rd io.Reader, measure bool, sched ...map[int]uint32) (run pcapRun) {
	func() {
		defer func() {
			if r := recover(); r != nil {
				run.panicMsg = fmt.Sprint(r)
				if run.hdr == "" {
					run.hdr = "panic"
					run.hdrObs = "hdr=panic"
				} else {
					run.res = append(run.res, pcRes{cls: "panic", detail: run.panicMsg})
				}
			}
		}()
		var pr pktReader
		var before uint64
		if measure {
			before = memTotal()
		}
		switch format {
		case "pcap":
			r, err := pcapgo.NewReader(rd)
			if measure {
				run.allocs = append(run.allocs, memTotal()-before)
			}
			cls := errClass(err)
			if err == nil {
				ns := 0
				if r.Resolution() == gopacket.TimestampResolutionNanosecond {
					ns = 1
				}
				run.hdr = "ok"
				run.hdrObs = fmt.Sprintf("hdr=ok;ns=%d;snap=%d;lt=%d", ns, r.Snaplen(), uint64(r.LinkType()))
				pr = r
			} else {
				run.hdr = cls
				run.hdrObs = "hdr=" + cls
				return
			}
		case "snoop":
			r, err := pcapgo.NewSnoopReader(rd)
			if measure {
				run.allocs = append(run.allocs, memTotal()-before)
			}
			cls := errClass(err)
			if err == nil {
				lt := int64(-1)
				if l, e := r.LinkType(); e == nil && l != nil {
					lt = int64(*l)
				}
				run.hdr = "ok"
				run.hdrObs = fmt.Sprintf("hdr=ok;lt=%d", lt)
				pr = r
			} else {
				run.hdr = cls
				run.hdrObs = "hdr=" + cls
				return
			}
		default:
			panic("format " + format)
		}
		var snaps [][]byte
		var kept []int
		defer func() {
			for j, idx := range kept {
				if idx < len(run.res) && !bytes.Equal(run.res[idx].data, snaps[j]) {
					run.laterBad = fmt.Sprintf("call=%d data kept from the copying read changed after later reads", idx)
					break
				}
			}
		}()
		for i := 0; i < maxCalls; i++ {
			var data []byte
			var ci gopacket.CaptureInfo
			var err error
			if len(sched) > 0 {
				if v, ok := sched[0][i]; ok {
					if r, isPcap := pr.(*pcapgo.Reader); isPcap {
						r.SetSnaplen(v)
					}
				}
			}
			if measure {
				before = memTotal()
			}
			if zc {
				data, ci, err = pr.ZeroCopyReadPacketData()
			} else {
				data, ci, err = pr.ReadPacketData()
			}
			if measure {
				run.allocs = append(run.allocs, memTotal()-before)
			}
			res := pcRes{cls: errClass(err)}
			if err == nil {
				res.sec, res.nsec = ci.Timestamp.Unix(), int64(ci.Timestamp.Nanosecond())
				res.caplen, res.length = ci.CaptureLength, ci.Length
				if zc {
					res.data = append([]byte(nil), data...) // only valid until the next call
				} else {
					res.data = data // a copying read hands out a value: kept as returned, looked at again after the last read
					snaps = append(snaps, append([]byte(nil), data...))
					kept = append(kept, len(run.res))
				}
				if len(data) != ci.CaptureLength || ci.CaptureLength > ci.Length {
					run.shapeBad = fmt.Sprintf("call=%d;datalen=%d;caplen=%d;len=%d", i, len(data), ci.CaptureLength, ci.Length)
				}
			}
			run.res = append(run.res, res)
			if isIOClass(res.cls) {
				break
			}
		}
	}()
	return run
}

func (run pcapRun) obs() []string {
	out := []string{run.hdrObs}
	for _, r := range run.res {
		out = append(out, r.String())
	}
	return out
}
