package main

// Leap: layers/eap.go codec sub-check (C19, C05, C06, C07, C01 for EAP).
// Ops: dec dec2 ser rt plus new:<code>.<id>.<length>.<type>.<typedatahex|->,<fcd>,<payloadhex> and rtn:.

import (
	"fmt"
	"math/rand"
	"strings"

	"github.com/gopacket/gopacket"
	"github.com/gopacket/gopacket/layers"
)

type leap struct{}

func init() { register("Leap", leap{}) }

var leapDesc = &lmDesc{
	id: "Leap", name: "EAP", ser: true,
	fresh: func() gopacket.Layer { return &layers.EAP{} },
	decode: func(l gopacket.Layer, data []byte, fb gopacket.DecodeFeedback) error {
		return l.(*layers.EAP).DecodeFromBytes(data, fb)
	},
	fields: func(l gopacket.Layer) string {
		e := l.(*layers.EAP)
		return fmt.Sprintf("code=%d;id=%d;len=%d;ty=%d;td=%s", uint8(e.Code), e.Id, e.Length, uint8(e.Type), lnHex(e.TypeData))
	},
	next: lmNextConst(gopacket.LayerTypeZero, "zero", func(l gopacket.Layer) gopacket.LayerType { return l.(*layers.EAP).NextLayerType() }),
	fromSpec: func(spec string) gopacket.Layer {
		f := strings.Split(spec, ".")
		return &layers.EAP{Code: layers.EAPCode(lnAtoi(f[0])), Id: uint8(lnAtoi(f[1])), Length: uint16(lnAtoi(f[2])), Type: layers.EAPType(lnAtoi(f[3])), TypeData: lmHexOrDash(f[4])}
	},
	inDomain: func(l gopacket.Layer, _ []byte) bool { return len(l.(*layers.EAP).TypeData)+5 < 65536 },
	tags: func(l gopacket.Layer, cls string, data []byte) []string {
		e := l.(*layers.EAP)
		var t []string
		if cls == "ok" && int(e.Length) < len(data) {
			t = append(t, "octets-behind-length")
		}
		if cls == "ok" && e.Length == 4 {
			t = append(t, "bare-header")
		}
		if cls == "ok" && e.Length == 5 {
			t = append(t, "type-without-data")
		}
		if cls == "err" && len(data) >= 4 {
			t = append(t, "error-after-fields-set")
		}
		return t
	},
}

func (leap) Run(c Case) Result { return lmRun(leapDesc, c) }

func eapBuild(rng *rand.Rand, declared int, body []byte) []byte {
	h := []byte{byte(lnPick(rng, 1, 2, 3, 4, 0, 255)), byte(rng.Intn(256)), 0, 0}
	if declared < 0 {
		declared = 4 + len(body)
	}
	lmPut16(h[2:], declared)
	return append(h, body...)
}

func (leap) Gen(rng *rand.Rand, tier string) []Case {
	body := func() []byte {
		n := lnPick(rng, 0, 1, 2, 4, 9, 33)
		b := lnRandBytes(rng, n)
		if n > 0 {
			b[0] = byte(lnPick(rng, 1, 4, 13, 25, 0, 254, 255))
		}
		return b
	}
	return lmGen(leapDesc, lmGenCfg{
		valid: func(rng *rand.Rand) []byte {
			b := body()
			p := eapBuild(rng, -1, b)
			if rng.Intn(4) == 0 {
				p = append(p, lnRandBytes(rng, lnPick(rng, 1, 3, 14))...) // padding behind the packet
			}
			return p
		},
		hdrLen:  func(p []byte) int { if len(p) > 8 { return 8 }; return len(p) },
		residue: func(rng *rand.Rand) []byte { return eapBuild(rng, -1, []byte{1, 98, 111, 98}) },
		spec: func(rng *rand.Rand) string {
			td := lnPick2(rng, "-", "", "00", "626f62", lnHex(lnRandBytes(rng, 20)))
			return fmt.Sprintf("%d.%d.%d.%d.%s", lnPick(rng, 1, 2, 3, 4, 0, 255), rng.Intn(256), lnPick(rng, 0, 4, 5, 6, 100, 65535), lnPick(rng, 0, 1, 4, 13, 255), td)
		},
		seeds: lnEthSeeds(0x888e),
		extra: func(rng *rand.Rand, add func(ops ...string)) {
			// length field 0..9 against 4..9 octets present, with and without octets behind
			for n := 0; n <= 5; n++ {
				for decl := 0; decl <= 10; decl++ {
					p := eapBuild(rng, decl, lnRandBytes(rng, n))
					add("tag:length-extreme", "dec:"+lnHex(p))
					add("tag:length-extreme", "dec2:"+lnHex(eapBuild(rng, -1, []byte{1, 98, 111, 98}))+","+lnHex(p))
					add("tag:length-extreme", "rt:"+lnHex(p)+",")
					add("tag:length-extreme", "ser:"+lnHex(p)+","+lnFCD[rng.Intn(len(lnFCD))]+","+lnHex(lnRandBytes(rng, rng.Intn(3))))
				}
			}
			for t := 0; t < 256; t += 5 { // type octets, with and without data
				add("tag:type-octet", "rt:"+lnHex(eapBuild(rng, -1, []byte{byte(t)}))+",")
				add("tag:type-octet", "rt:"+lnHex(eapBuild(rng, -1, []byte{byte(t), 1, 2}))+",0909")
			}
		},
	}, rng, tier)
}
