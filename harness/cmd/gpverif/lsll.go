package main

// Lsll, Lsll2: layers/linux_sll.go and layers/linux_sll2.go decoder sub-checks (C19, C05, C01; no SerializeTo).  Ops: dec dec2.

import (
	"fmt"
	"math/rand"

	"github.com/gopacket/gopacket"
	"github.com/gopacket/gopacket/layers"
)

type lsll struct{}
type lsll2 struct{}

func init() {
	register("Lsll", lsll{})
	register("Lsll2", lsll2{})
}

func lmFlowCheck(f gopacket.Flow, addr []byte) {
	s, d := f.Endpoints()
	_ = f.String()
	want := addr
	if len(want) > gopacket.MaxEndpointSize {
		want = want[:gopacket.MaxEndpointSize]
	}
	if lnHex(s.Raw()) != lnHex(want) || len(d.Raw()) != 0 {
		panic("link flow endpoints differ from the address")
	}
}

var lsllDesc = &lmDesc{
	id: "Lsll", name: "LinuxSLL",
	fresh: func() gopacket.Layer { return &layers.LinuxSLL{} },
	decode: func(l gopacket.Layer, data []byte, fb gopacket.DecodeFeedback) error {
		return l.(*layers.LinuxSLL).DecodeFromBytes(data, fb)
	},
	fields: func(l gopacket.Layer) string {
		s := l.(*layers.LinuxSLL)
		return fmt.Sprintf("pt=%d;at=%d;al=%d;addr=%s;et=%d", uint16(s.PacketType), s.AddrType, s.AddrLen, lnHex(s.Addr), uint16(s.EthernetType))
	},
	next: func(l gopacket.Layer, _ *lmBuilder) string {
		s := l.(*layers.LinuxSLL)
		if s.NextLayerType() == s.EthernetType.LayerType() {
			return fmt.Sprint(uint16(s.EthernetType))
		}
		return fmt.Sprintf("other%d", s.NextLayerType())
	},
	extra: func(l gopacket.Layer) []func() {
		s := l.(*layers.LinuxSLL)
		return []func(){func() { lmFlowCheck(s.LinkFlow(), s.Addr); _ = s.PacketType.String() }}
	},
	tags: func(l gopacket.Layer, cls string, data []byte) []string {
		s := l.(*layers.LinuxSLL)
		var t []string
		if cls == "ok" && s.AddrLen > 8 {
			t = append(t, "address-beyond-field")
		}
		if cls == "ok" && s.AddrLen > 16 {
			t = append(t, "address-over-endpoint-size")
		}
		if cls == "err" && len(data) >= 16 {
			t = append(t, "error-after-fields-set")
		}
		return t
	},
}

var lsll2Desc = &lmDesc{
	id: "Lsll2", name: "LinuxSLL2",
	fresh: func() gopacket.Layer { return &layers.LinuxSLL2{} },
	decode: func(l gopacket.Layer, data []byte, fb gopacket.DecodeFeedback) error {
		return l.(*layers.LinuxSLL2).DecodeFromBytes(data, fb)
	},
	fields: func(l gopacket.Layer) string {
		s := l.(*layers.LinuxSLL2)
		return fmt.Sprintf("pr=%d;if=%d;hrd=%d;pt=%d;al=%d;addr=%s", uint16(s.ProtocolType), s.InterfaceIndex, uint16(s.ARPHardwareType), uint8(s.PacketType), s.AddrLength, lnHex(s.Addr))
	},
	next: func(l gopacket.Layer, _ *lmBuilder) string {
		s := l.(*layers.LinuxSLL2)
		t := s.NextLayerType()
		// how the result is rendered (not what it is) follows the two tables of NextLayerType: outside them the result must be
		// the layer type of the protocol field, whatever that is in the EthernetType table
		special := s.ARPHardwareType == 770 || s.ARPHardwareType == 803 || s.ARPHardwareType == 778 ||
			s.ProtocolType == 1 || s.ProtocolType == 3 || s.ProtocolType == 4 || s.ProtocolType == 12
		if !special {
			if t == s.ProtocolType.LayerType() {
				return fmt.Sprintf("e%d", uint16(s.ProtocolType))
			}
			return fmt.Sprintf("other%d", t)
		}
		switch t {
		case gopacket.LayerTypeZero:
			return "zero"
		case layers.LayerTypeRadioTap:
			return "radiotap"
		case layers.LayerTypeEthernet:
			return "ethernet"
		case layers.LayerTypeLLC:
			return "llc"
		}
		return fmt.Sprintf("other%d", t)
	},
	extra: func(l gopacket.Layer) []func() {
		s := l.(*layers.LinuxSLL2)
		return []func(){func() { lmFlowCheck(s.LinkFlow(), s.Addr); _, _ = s.PacketType.String(), s.ARPHardwareType.String() }}
	},
	tags: func(l gopacket.Layer, cls string, data []byte) []string {
		s := l.(*layers.LinuxSLL2)
		var t []string
		if cls == "ok" && s.AddrLength > 8 {
			t = append(t, "address-beyond-field")
		}
		if cls == "ok" && s.AddrLength > 16 {
			t = append(t, "address-over-endpoint-size")
		}
		if cls == "err" && len(data) >= 20 {
			t = append(t, "error-after-fields-set")
		}
		return t
	},
}

func (lsll) Run(c Case) Result  { return lmRun(lsllDesc, c) }
func (lsll2) Run(c Case) Result { return lmRun(lsll2Desc, c) }

func (lsll) Gen(rng *rand.Rand, tier string) []Case {
	build := func(rng *rand.Rand, al int, extra int) []byte {
		h := lnRandBytes(rng, 16)
		lmPut16(h[0:], lnPick(rng, 0, 1, 4, 65535))
		lmPut16(h[4:], al)
		lmPut16(h[14:], lnPick(rng, 0x0800, 0x86dd, 0x0806, 0, 65535))
		return append(h, lnRandBytes(rng, extra)...)
	}
	return lmGen(lsllDesc, lmGenCfg{
		valid:   func(rng *rand.Rand) []byte { return build(rng, lnPick(rng, 6, 6, 6, 0, 8, 1), lnPick(rng, 0, 1, 20, 33)) },
		hdrLen:  func([]byte) int { return 16 },
		residue: func(rng *rand.Rand) []byte { return build(rng, 8, 4) },
		seeds:   nil,
		extra: func(rng *rand.Rand, add func(ops ...string)) {
			for _, extra := range []int{0, 1, 10, 40} { // address length 0..8, 9, 10 (into EthernetType and beyond), 16, 17, exact end, one more, 65535
				for _, al := range []int{0, 1, 6, 8, 9, 10, 16, 17, 10 + extra - 1, 10 + extra, 10 + extra + 1, 255, 256, 65535} {
					p := build(rng, al, extra)
					add("tag:address-length-extreme", "dec:"+lnHex(p))
					add("tag:address-length-extreme", "dec2:"+lnHex(build(rng, 8, 4))+","+lnHex(p))
				}
			}
		},
	}, rng, tier)
}

func (lsll2) Gen(rng *rand.Rand, tier string) []Case {
	build := func(rng *rand.Rand, al int, extra int) []byte {
		h := lnRandBytes(rng, 20)
		lmPut16(h[0:], lnPick(rng, 0x0800, 0x86dd, 1, 3, 4, 12, 0, 65535))
		lmPut16(h[8:], lnPick(rng, 1, 1, 770, 778, 803, 772, 65535))
		h[11] = byte(al)
		return append(h, lnRandBytes(rng, extra)...)
	}
	return lmGen(lsll2Desc, lmGenCfg{
		valid:   func(rng *rand.Rand) []byte { return build(rng, lnPick(rng, 6, 6, 6, 0, 8, 1), lnPick(rng, 0, 1, 20, 33)) },
		hdrLen:  func([]byte) int { return 20 },
		residue: func(rng *rand.Rand) []byte { return build(rng, 8, 4) },
		extra: func(rng *rand.Rand, add func(ops ...string)) {
			for _, extra := range []int{0, 1, 10, 40} {
				for _, al := range []int{0, 1, 6, 8, 9, 16, 17, 8 + extra - 1, 8 + extra, 8 + extra + 1, 128, 255} {
					if al < 0 {
						continue
					}
					p := build(rng, al, extra)
					add("tag:address-length-extreme", "dec:"+lnHex(p))
					add("tag:address-length-extreme", "dec2:"+lnHex(build(rng, 8, 4))+","+lnHex(p))
				}
			}
			// NextLayerType: every listed hardware type x every listed protocol value
			for _, hrd := range []int{1, 770, 778, 803, 0, 65535} {
				for _, pr := range []int{1, 3, 4, 12, 0x0800, 0x86dd, 0x8100, 0, 2, 5, 65535} {
					p := build(rng, 6, 2)
					lmPut16(p[0:], pr)
					lmPut16(p[8:], hrd)
					add("tag:next-layer-table", "dec:"+lnHex(p))
				}
			}
		},
	}, rng, tier)
}
