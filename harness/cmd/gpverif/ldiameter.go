package main

// Ldiameter: layers/diameter.go + diameter_avp_decoders.go codec sub-check (C19, C05, C06, C07, C01 for Diameter).
// Ops: dec dec2 ser rt (lmisc_common.go) plus
//   G:<code>.<vendor>+...|-     the (code, vendor) keys of the case that the AVP type table maps to Grouped
//                               (for the model, whose table is abstract; ignored by the implementation side)
//   new:<ver>.<mlen>.<flags>.<cmd>.<app>.<hbh>.<e2e>.<avps>,<fcd>,<payloadhex>  and rtn: likewise, <avps> = "-" or AVPs
//   joined by "+", each <code>~<flagbits>~<length>~<vendor>~<datahex>
// Observed AVP: code~flagbits~length~vendor~datahex~sub with sub = n (nil) or [a|b|...].

import (
	"fmt"
	"math/rand"
	"strings"

	"github.com/gopacket/gopacket"
	"github.com/gopacket/gopacket/layers"
)

type ldiameter struct{}

func init() { register("Ldiameter", ldiameter{}) }

func dmFlagBits(a *layers.DiameterAVP) int {
	f := 0
	if a.Flags.Vendor {
		f |= 4
	}
	if a.Flags.Mandatory {
		f |= 2
	}
	if a.Flags.Protected {
		f |= 1
	}
	return f
}

func dmAVPStr(a *layers.DiameterAVP) string {
	sub := "n"
	if a.GroupedAVPs != nil {
		s := make([]string, len(a.GroupedAVPs))
		for i := range a.GroupedAVPs {
			s[i] = dmAVPStr(&a.GroupedAVPs[i])
		}
		sub = "[" + strings.Join(s, "|") + "]"
	}
	return fmt.Sprintf("%d~%d~%d~%d~%s~%s", a.Code, dmFlagBits(a), a.Length, a.VendorID, lnHex(a.Data), sub)
}

func dmRenderAVP(a *layers.DiameterAVP) {
	_ = a.String()
	_ = a.GetAVPTypeName()
	_ = a.GetVendorIDString()
	_ = a.GetString()
	_, _ = a.GetUnsigned32()
	_, _ = a.GetUnsigned64()
	_, _ = a.GetInteger32()
	_, _ = a.GetInteger64()
	_, _ = a.GetTime()
	_, _, _ = a.IsMandatory(), a.IsVendorSpecific(), a.IsProtected()
	for i := range a.GroupedAVPs {
		dmRenderAVP(&a.GroupedAVPs[i])
	}
}

var ldiameterDesc = &lmDesc{
	id: "Ldiameter", name: "Diameter", ser: true,
	fresh: func() gopacket.Layer { return &layers.Diameter{} },
	decode: func(l gopacket.Layer, data []byte, fb gopacket.DecodeFeedback) error {
		return l.(*layers.Diameter).DecodeFromBytes(data, fb)
	},
	fields: func(l gopacket.Layer) string {
		d := l.(*layers.Diameter)
		as := make([]string, len(d.AVPs))
		for i := range d.AVPs {
			as[i] = dmAVPStr(&d.AVPs[i])
		}
		return fmt.Sprintf("ver=%d;ml=%d;fl=%s%s%s%s;cmd=%d;app=%d;hbh=%d;e2e=%d;avps=%s", d.Version, d.MessageLength, lnB(d.CommandFlags.Request),
			lnB(d.CommandFlags.Proxiable), lnB(d.CommandFlags.Error), lnB(d.CommandFlags.Retransmitted), d.CommandCode, d.ApplicationID, d.HopByHopID, d.EndToEndID, strings.Join(as, "+"))
	},
	next: func(l gopacket.Layer, _ *lmBuilder) string {
		if t := l.(*layers.Diameter).NextLayerType(); t != gopacket.LayerTypePayload {
			return fmt.Sprintf("other%d", t)
		}
		return "payload"
	},
	fromSpec: func(spec string) gopacket.Layer {
		f := strings.Split(spec, ".")
		d := &layers.Diameter{Version: uint8(lnAtoi(f[0])), MessageLength: uint32(lnAtoi(f[1])), CommandCode: uint32(lnAtoi(f[3])),
			ApplicationID: uint32(lnAtoi(f[4])), HopByHopID: uint32(lnAtoi(f[5])), EndToEndID: uint32(lnAtoi(f[6]))}
		fl := lnAtoi(f[2])
		d.CommandFlags = layers.DiameterCommandFlags{Request: fl&8 != 0, Proxiable: fl&4 != 0, Error: fl&2 != 0, Retransmitted: fl&1 != 0}
		if f[7] != "-" {
			for _, as := range strings.Split(f[7], "+") {
				q := strings.Split(as, "~")
				fb := lnAtoi(q[1])
				d.AVPs = append(d.AVPs, layers.DiameterAVP{Code: uint32(lnAtoi(q[0])), Flags: layers.DiameterAVPFlags{Vendor: fb&4 != 0, Mandatory: fb&2 != 0, Protected: fb&1 != 0},
					Length: uint32(lnAtoi(q[2])), VendorID: uint32(lnAtoi(q[3])), Data: lnUnhex(q[4])})
			}
		}
		return d
	},
	// C06 hypothesis: version 1, 24-bit command code, AVPs whose Length is header + len(Data) and whose VendorID is 0 without the
	// V flag, message below 2^24 octets.  Grouped sub-AVPs are re-derived from Data by the decoder.
	inDomain: func(l gopacket.Layer, _ []byte) bool {
		d := l.(*layers.Diameter)
		if d.Version != 1 || d.CommandCode >= 1<<24 {
			return false
		}
		for i := range d.AVPs {
			a := &d.AVPs[i]
			hs := 8
			if a.Flags.Vendor {
				hs = 12
			} else if a.VendorID != 0 {
				return false
			}
			if int(a.Length) != hs+len(a.Data) {
				return false
			}
		}
		return true
	},
	// the decoder keeps no payload: whatever follows the message is dropped (Payload() is nil)
	rtPayload: func(l gopacket.Layer, payload []byte) []byte { return nil },
	// AVPs compared without their derived sub-AVPs when the written value had none
	extra: func(l gopacket.Layer) []func() {
		d := l.(*layers.Diameter)
		return []func(){func() {
			_ = d.Payload()
			_, _, _, _ = d.IsRequest(), d.IsProxiable(), d.IsError(), d.IsRetransmitted()
			for i := range d.AVPs {
				dmRenderAVP(&d.AVPs[i])
			}
		}}
	},
	tags: func(l gopacket.Layer, cls string, data []byte) []string {
		d := l.(*layers.Diameter)
		var t []string
		var walk func(as []layers.DiameterAVP, depth int)
		walk = func(as []layers.DiameterAVP, depth int) {
			for i := range as {
				if as[i].GroupedAVPs != nil {
					t = append(t, "grouped-avp")
					if depth > 0 {
						t = append(t, "nested-grouped-avp")
					}
				}
				if as[i].Length%4 != 0 {
					t = append(t, "padded-avp")
				}
				if as[i].Flags.Vendor {
					t = append(t, "vendor-avp")
				}
				walk(as[i].GroupedAVPs, depth+1)
			}
		}
		if cls == "ok" {
			walk(d.AVPs, 0)
		}
		if cls == "err" && len(data) >= 20 {
			t = append(t, "error-after-fields-set")
		}
		return t
	},
}

func init() {
	// round trip compares the AVPs as written: the sub-AVPs of a grouped AVP are derived from Data on decode
	ldiameterDesc.rtFields = func(l gopacket.Layer) string {
		d := l.(*layers.Diameter)
		as := make([]string, len(d.AVPs))
		for i := range d.AVPs {
			a := d.AVPs[i]
			a.GroupedAVPs = nil
			as[i] = dmAVPStr(&a)
		}
		return fmt.Sprintf("ver=%d;ml=%d;fl=%s%s%s%s;cmd=%d;app=%d;hbh=%d;e2e=%d;avps=%s", d.Version, d.MessageLength, lnB(d.CommandFlags.Request),
			lnB(d.CommandFlags.Proxiable), lnB(d.CommandFlags.Error), lnB(d.CommandFlags.Retransmitted), d.CommandCode, d.ApplicationID, d.HopByHopID, d.EndToEndID, strings.Join(as, "+"))
	}
}

func (ldiameter) Run(c Case) Result {
	r := lmRun(ldiameterDesc, c)
	for _, o := range r.Obs {
		if strings.Contains(o, ";tr=1;") && strings.HasPrefix(o, "cls=ok") {
			r.Tags = append(r.Tags, "avp-error-truncated")
		}
	}
	return r
}

// dmAVP builds one AVP: declared < 0 means header + len(data); pad adds the zero padding.
func dmAVP(code uint32, flags byte, vendor uint32, data []byte, declared int, pad bool) []byte {
	hs := 8
	if flags&0x80 != 0 {
		hs = 12
	}
	if declared < 0 {
		declared = hs + len(data)
	}
	b := make([]byte, 8, hs+len(data)+3)
	lmPut32(b, code)
	b[4] = flags
	b[5], b[6], b[7] = byte(declared>>16), byte(declared>>8), byte(declared)
	if hs == 12 {
		b = append(b, 0, 0, 0, 0)
		lmPut32(b[8:], vendor)
	}
	b = append(b, data...)
	if pad {
		for len(b)%4 != 0 {
			b = append(b, 0)
		}
	}
	return b
}

// dmMsg builds a message whose header length is consistent with the bytes (delta added to the declared length).
func dmMsg(rng *rand.Rand, ver byte, avps []byte, delta int) []byte {
	h := make([]byte, 20)
	h[0] = ver
	n := 20 + len(avps) + delta
	h[1], h[2], h[3] = byte(n>>16), byte(n>>8), byte(n)
	h[4] = byte(lnPick(rng, 0x80, 0x40, 0xc0, 0, 0xf0, 0xff, rng.Intn(256)))
	c := lnPick(rng, 257, 272, 280, 0, 0xffffff, rng.Intn(1<<24))
	h[5], h[6], h[7] = byte(c>>16), byte(c>>8), byte(c)
	lmPut32(h[8:], uint32(lnPick(rng, 0, 4, 16777251, rng.Int())))
	lmPut32(h[12:], rng.Uint32())
	lmPut32(h[16:], rng.Uint32())
	return append(h, avps...)
}

var dmGroupedCodes, dmPlainCodes []uint32

func dmInitCodes() {
	if dmGroupedCodes != nil {
		return
	}
	for c := uint32(1); c < 2000; c++ {
		if t, ok := layers.GetDiameterAVPType(c, 0); ok && t == layers.DiameterAVPTypeGrouped {
			dmGroupedCodes = append(dmGroupedCodes, c)
		} else if len(dmPlainCodes) < 40 {
			dmPlainCodes = append(dmPlainCodes, c)
		}
	}
}

// dmGroupedKeys: every (code, vendor) a decoder could look up in this byte string (each AVP's data is scanned as if it
// were grouped), reduced to those the table of the repository maps to Grouped.
func dmGroupedKeys(data []byte, out map[[2]uint32]bool, depth int) {
	for len(data) >= 8 && depth < 200 {
		code := uint32(data[0])<<24 | uint32(data[1])<<16 | uint32(data[2])<<8 | uint32(data[3])
		n := int(data[5])<<16 | int(data[6])<<8 | int(data[7])
		hs, vendor := 8, uint32(0)
		if data[4]&0x80 != 0 && len(data) >= 12 {
			hs, vendor = 12, uint32(data[8])<<24|uint32(data[9])<<16|uint32(data[10])<<8|uint32(data[11])
		}
		if t, ok := layers.GetDiameterAVPType(code, vendor); ok && t == layers.DiameterAVPTypeGrouped {
			out[[2]uint32{code, vendor}] = true
		}
		if n < hs || n > len(data) {
			if hs < len(data) {
				dmGroupedKeys(data[hs:], out, depth+1)
			}
			return
		}
		dmGroupedKeys(data[hs:n], out, depth+1)
		p := (n + 3) &^ 3
		if p > len(data) {
			return
		}
		data = data[p:]
	}
}

func dmG(datas ...[]byte) string {
	keys := map[[2]uint32]bool{}
	for _, d := range datas {
		if len(d) > 20 {
			dmGroupedKeys(d[20:], keys, 0)
		}
		dmGroupedKeys(d, keys, 0) // AVP data of field-built layers is passed without a header
	}
	if len(keys) == 0 {
		return "G:-"
	}
	var s []string
	for k := range keys {
		s = append(s, fmt.Sprintf("%d.%d", k[0], k[1]))
	}
	sortStrings(s)
	return "G:" + strings.Join(s, "+")
}

func sortStrings(s []string) {
	for i := 1; i < len(s); i++ {
		for j := i; j > 0 && s[j] < s[j-1]; j-- {
			s[j], s[j-1] = s[j-1], s[j]
		}
	}
}

func (ldiameter) Gen(rng *rand.Rand, tier string) []Case {
	dmInitCodes()
	var out []Case
	hx := lnHex
	addG := func(tag string, datas [][]byte, ops ...string) {
		all := []string{dmG(datas...)}
		if tag != "" {
			all = append(all, "tag:"+tag)
		}
		out = append(out, Case{Prop: "Ldiameter", Ops: append(all, ops...)})
	}
	scale := 1
	if tier == "thorough" {
		scale = 6
	}
	plain := func() uint32 { return dmPlainCodes[rng.Intn(len(dmPlainCodes))] }
	grouped := func() uint32 { return dmGroupedCodes[rng.Intn(len(dmGroupedCodes))] }
	flags := func() byte { return byte(lnPick(rng, 0x40, 0x00, 0x20, 0x60, 0x80, 0xc0, 0xff, 0x1f)) }
	randAVP := func(depth int) []byte {
		var mk func(depth int) []byte
		mk = func(depth int) []byte {
			fl := flags()
			if depth > 0 && rng.Intn(3) == 0 {
				var sub []byte
				for k := rng.Intn(3); k >= 0; k-- {
					sub = append(sub, mk(depth-1)...)
				}
				return dmAVP(grouped(), fl, uint32(lnPick(rng, 0, 10415, 9)), sub, -1, true)
			}
			return dmAVP(plain(), fl, uint32(lnPick(rng, 0, 10415, 193, rng.Int())), lnRandBytes(rng, lnPick(rng, 0, 1, 2, 3, 4, 5, 8, 13)), -1, true)
		}
		return mk(depth)
	}
	payloads := func() []byte { return lnRandBytes(rng, lnPick(rng, 0, 0, 1, 7)) }
	full := func(tag string, p []byte) {
		addG(tag, [][]byte{p}, "dec:"+hx(p))
		addG(tag, [][]byte{p}, "rt:"+hx(p)+","+hx(payloads()))
		addG(tag, [][]byte{p}, "ser:"+hx(p)+","+lnFCD[rng.Intn(len(lnFCD))]+","+hx(payloads()))
	}
	// (1) the last AVP of the message and of a grouped AVP with every length residue mod 4, padded and not,
	//     plain and vendor headers, the header's message length consistent with the bytes present
	for _, vend := range []byte{0, 0x80} {
		for dl := 0; dl <= 8; dl++ {
			for _, pad := range []bool{true, false} {
				for _, lead := range []int{0, 1} {
					var pre []byte
					if lead == 1 {
						pre = dmAVP(plain(), 0x40, 0, lnRandBytes(rng, 4), -1, true)
					}
					last := dmAVP(plain(), vend|0x40, 10415, lnRandBytes(rng, dl), -1, pad)
					msg := dmMsg(rng, 1, append(lnCopy(pre), last...), 0)
					full("last-avp-residue", msg)
					func() { first := dmMsg(rng, 1, randAVP(1), 0); addG("last-avp-residue", [][]byte{first, msg}, "dec2:"+hx(first)+","+hx(msg)) }()
					// the same AVP as the last member of a grouped AVP (group itself padded / unpadded at the message end)
					sub := append(lnCopy(pre), last...)
					for _, gpad := range []bool{true, false} {
						g := dmAVP(grouped(), 0x40, 0, sub, -1, gpad)
						gm := dmMsg(rng, 1, g, 0)
						full("grouped-last-residue", gm)
						// group followed by another AVP
						gm2 := dmMsg(rng, 1, append(dmAVP(grouped(), 0x40, 0, sub, -1, true), dmAVP(plain(), 0, 0, []byte{1, 2, 3, 4}, -1, true)...), 0)
						addG("grouped-last-residue", [][]byte{gm2}, "dec:"+hx(gm2))
					}
				}
			}
		}
	}
	// (2) AVP length field extremes: 0, 7, 8, 11, 12, exact, one less, one more, beyond the data, 2^24-1
	for _, vend := range []byte{0, 0x80} {
		for _, decl := range []int{0, 1, 7, 8, 9, 11, 12, 13, 15, 16, 17, 19, 20, 21, 24, 255, 65536, 1<<24 - 1} {
			a := dmAVP(plain(), vend, 9, lnRandBytes(rng, 8), decl, true)
			msg := dmMsg(rng, 1, a, 0)
			addG("avp-length-extreme", [][]byte{msg}, "dec:"+hx(msg))
			g := dmMsg(rng, 1, dmAVP(grouped(), 0x40, 0, a, -1, true), 0)
			addG("avp-length-extreme", [][]byte{g}, "dec:"+hx(g))
			addG("avp-length-extreme", [][]byte{g, msg}, "dec2:"+hx(g)+","+hx(msg))
			addG("avp-length-extreme", [][]byte{msg}, "ser:"+hx(msg)+","+lnFCD[rng.Intn(len(lnFCD))]+",")
		}
	}
	// (3) message length field against the bytes present; version; every truncation of a valid message
	for i := 0; i < 6*scale; i++ {
		body := append(randAVP(2), randAVP(1)...)
		for _, delta := range []int{-len(body) - 20, -len(body) - 1, -len(body), -8, -5, -4, -1, 0, 1, 4, 1 << 16} {
			msg := dmMsg(rng, 1, body, delta)
			addG("message-length-extreme", [][]byte{msg}, "dec:"+hx(msg))
			func() { first := dmMsg(rng, 1, randAVP(2), 0); addG("message-length-extreme", [][]byte{first, msg}, "dec2:"+hx(first)+","+hx(msg)) }()
		}
		for _, v := range []byte{0, 2, 255} {
			msg := dmMsg(rng, v, body, 0)
			addG("version-not-1", [][]byte{msg}, "dec:"+hx(msg))
			func() { first := dmMsg(rng, 1, randAVP(2), 0); addG("version-not-1", [][]byte{first, msg}, "dec2:"+hx(first)+","+hx(msg)) }()
			addG("version-not-1", [][]byte{msg}, "ser:"+hx(msg)+","+lnFCD[rng.Intn(len(lnFCD))]+",00")
		}
		msg := dmMsg(rng, 1, body, 0)
		for k := 0; k <= len(msg); k++ {
			if k > 30 && k < len(msg)-9 && k%5 != 0 {
				continue
			}
			// cut with the header still announcing the full length, and with the header adjusted to the cut
			addG("truncated-prefix-of-valid", [][]byte{msg[:k]}, "dec:"+hx(msg[:k]))
			if k >= 20 {
				adj := lnCopy(msg[:k])
				adj[1], adj[2], adj[3] = byte(k>>16), byte(k>>8), byte(k)
				addG("truncated-prefix-of-valid", [][]byte{adj}, "dec:"+hx(adj))
				addG("truncated-prefix-of-valid", [][]byte{adj}, "ser:"+hx(adj)+","+lnFCD[rng.Intn(len(lnFCD))]+",")
			}
		}
	}
	// (4) random valid messages, nested groups, trailing bytes after the message
	for i := 0; i < 60*scale; i++ {
		var body []byte
		for k := rng.Intn(5); k >= 0; k-- {
			body = append(body, randAVP(lnPick(rng, 0, 1, 2, 3))...)
		}
		msg := dmMsg(rng, 1, body, 0)
		if rng.Intn(4) == 0 {
			msg = append(msg, lnRandBytes(rng, lnPick(rng, 1, 4, 9))...) // bytes after MessageLength
		}
		full("", msg)
		func() { first := dmMsg(rng, 1, append(randAVP(2), randAVP(2)...), 0); addG("", [][]byte{first, msg}, "dec2:"+hx(first)+","+hx(msg)) }()
		for _, fcd := range lnFCD[:6] {
			addG("", [][]byte{msg}, "ser:"+hx(msg)+","+fcd+",")
		}
	}
	// (5) deep nesting
	deep := dmAVP(plain(), 0, 0, []byte{1, 2, 3, 4, 5}, -1, true)
	for d := 0; d < 40; d++ {
		deep = dmAVP(grouped(), 0x40, 0, deep, -1, true)
		if d%4 == 3 {
			msg := dmMsg(rng, 1, deep, 0)
			addG("deep-nesting", [][]byte{msg}, "dec:"+hx(msg))
			if d%8 == 7 {
				addG("deep-nesting", [][]byte{msg}, "rt:"+hx(msg)+",")
			}
		}
	}
	// (5b) AVP lengths that need the second and the third length octet
	for _, n := range []int{247, 248, 300, 66000} {
		if n > 60000 && tier != "thorough" {
			continue // one AVP above 2^16 octets costs the model about a minute: thorough tier only
		}
		msg := dmMsg(rng, 1, append(dmAVP(plain(), 0x40, 0, lnRandBytes(rng, n), -1, true), dmAVP(plain(), 0, 0, []byte{1}, -1, true)...), 0)
		addG("large-avp", [][]byte{msg}, "dec:"+hx(msg))
		addG("large-avp", [][]byte{msg}, "rt:"+hx(msg)+",")
	}
	// (6) field-built layers
	for i := 0; i < 120*scale; i++ {
		k := lnPick(rng, 0, 1, 2, 3)
		var as []string
		var datas [][]byte
		for j := 0; j < k; j++ {
			fb := lnPick(rng, 0, 2, 4, 6, 7)
			dl := lnPick(rng, 0, 1, 2, 3, 4, 5, 7, 8, 12)
			data := lnRandBytes(rng, dl)
			if rng.Intn(4) == 0 {
				data = append(randAVP(1), randAVP(0)...)
			}
			hs := 8
			if fb&4 != 0 {
				hs = 12
			}
			vend := 0
			if fb&4 != 0 || rng.Intn(5) == 0 {
				vend = lnPick(rng, 10415, 0, 1<<32-1)
			}
			code := plain()
			if rng.Intn(4) == 0 {
				code = grouped()
			}
			as = append(as, fmt.Sprintf("%d~%d~%d~%d~%s", code, fb, lnPick(rng, hs+len(data), hs+len(data), hs+len(data), 0, 1<<24-1), vend, hx(data)))
			datas = append(datas, dmAVP(code, byte(fb&4)<<5, uint32(vend), data, -1, true))
		}
		a := "-"
		if k > 0 {
			a = strings.Join(as, "+")
		}
		spec := fmt.Sprintf("%d.%d.%d.%d.%d.%d.%d.%s", lnPick(rng, 1, 1, 1, 0, 2, 255), lnPick(rng, 0, 20, 1<<24-1, 1<<32-1), rng.Intn(16), lnPick(rng, 257, 0, 1<<24-1, 1<<24, 1<<32-1),
			lnPick(rng, 0, 4, 1<<32-1), rng.Int63n(1<<32), rng.Int63n(1<<32), a)
		addG("field-extreme", datas, "new:"+spec+","+lnFCD[rng.Intn(len(lnFCD))]+","+hx(payloads()))
		addG("field-extreme", datas, "rtn:"+spec+","+hx(payloads()))
	}
	// (7) seeds and a malformed stream
	n := 0
	for _, s := range lnSeeds() {
		for _, off := range []int{0, 14 + 20 + 20, 14 + 20 + 32, 14 + 20 + 12} { // raw, after Ethernet/IPv4/TCP(20|32), SCTP data chunk is not unwrapped
			if len(s) > off+20 && s[off] == 1 && int(s[off+1])<<16|int(s[off+2])<<8|int(s[off+3]) == len(s)-off {
				if n++; n > 30*scale {
					break
				}
				p := s[off:]
				addG("seed", [][]byte{p}, "dec:"+hx(p))
				addG("seed", [][]byte{p}, "rt:"+hx(p)+",")
			}
		}
	}
	for i := 0; i < 80*scale; i++ {
		q := lnRandBytes(rng, lnPick(rng, 0, 1, 19, 20, 21, 28, 32, rng.Intn(80)))
		if len(q) > 3 && rng.Intn(2) == 0 {
			q[0] = 1
			q[1], q[2], q[3] = 0, 0, byte(len(q)-rng.Intn(3))
		}
		addG("malformed", [][]byte{q}, "dec:"+hx(q))
		func() { first := dmMsg(rng, 1, randAVP(2), 0); addG("malformed", [][]byte{first, q}, "dec2:"+hx(first)+","+hx(q)) }()
		addG("malformed", [][]byte{q}, "ser:"+hx(q)+","+lnFCD[rng.Intn(len(lnFCD))]+",")
	}
	return out
}
