package main

// Ldot11data: the fifteen 802.11 data sub-layers (Dot11Data ... Dot11DataQOSCFAckPollNoData) and the layer chain of data
// frames (DataLayer, Dot11WEP, QoS -> plain data layer -> LLC); see ldot11sub_common.go.

import "math/rand"

type ldot11data struct{}

func init() { register("Ldot11data", ldot11data{}) }

func (ldot11data) Run(c Case) Result { return sbRun("Ldot11data", sbDataKinds, c) }
func (ldot11data) Gen(rng *rand.Rand, tier string) []Case {
	return sbGen("Ldot11data", sbDataKinds, func(ty int) bool { return ty&3 == 2 }, rng, tier)
}
