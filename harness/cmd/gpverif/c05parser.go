package main

// C05parser: DecodingLayerParser == packet decoding, for every container.
//
// Two kinds of cases:
//   scripted  fam:<row>|<row>...  new:kind,first,ip,iu,o/o/..  add:o  pkt:<hex> ...
//             synthetic decoding layers (synLayer, the same table as Coq's syn_dec) registered in
//             the REAL containers and driven by the REAL DecodeLayers loop; compared step by step
//             with the extracted model, plus an implementation-side oracle (Go reference loop).
//   real      rset:mask,first,iu  rpkt:<hex> ...
//             real layers (Ethernet, Dot1Q, IPv4, IPv6, TCP, UDP, Payload, DNS), subset given by
//             mask, all four containers; oracle: leading run of gopacket.NewPacket(...).Layers().
//             No model output for these (the model is parametric in the layers).
import (
	"encoding/hex"
	"errors"
	"fmt"
	"go/ast"
	"go/parser"
	"go/token"
	"math/rand"
	"os"
	"path/filepath"
	"reflect"
	"sort"
	"strconv"
	"strings"

	"github.com/gopacket/gopacket"
	"github.com/gopacket/gopacket/layers"
)

type c05parser struct{}

func init() { register("C05parser", c05parser{}) }

// ---------------------------------------------------------------- synthetic layers

type c05Row struct {
	can    []gopacket.LayerType
	mode   int
	clen   int
	next   int64
	out    int
	trunc  bool
	sticky bool
}

type c05Class []gopacket.LayerType

func (c c05Class) Contains(t gopacket.LayerType) bool {
	for _, x := range c {
		if x == t {
			return true
		}
	}
	return false
}
func (c c05Class) LayerTypes() []gopacket.LayerType { return []gopacket.LayerType(c) }

var errC05Syn = errors.New("synthetic layer error")

type c05Syn struct {
	row      c05Row
	Contents []byte
	Payload  []byte
	Next     gopacket.LayerType
	Opt      int
	Count    int
}

func (s *c05Syn) CanDecode() gopacket.LayerClass    { return c05Class(s.row.can) }
func (s *c05Syn) NextLayerType() gopacket.LayerType { return s.Next }
func (s *c05Syn) LayerPayload() []byte              { return s.Payload }

func (s *c05Syn) DecodeFromBytes(data []byte, df gopacket.DecodeFeedback) error {
	n := len(data)
	s.Count++
	w := &s.row
	if w.mode == 0 {
		if n < w.clen {
			df.SetTruncated()
			return errC05Syn
		}
		s.Contents = data[:w.clen]
		s.Payload = data[w.clen:]
		s.Next = gopacket.LayerType(w.next)
		if n%2 == 1 {
			s.Opt = int(data[n-1])
		} else if !w.sticky {
			s.Opt = 0
		}
		if w.trunc {
			df.SetTruncated()
		}
		switch w.out {
		case 1:
			return errC05Syn
		case 2:
			panic("synthetic layer panic")
		}
		return nil
	}
	if n < 4 {
		df.SetTruncated()
		return errC05Syn
	}
	clen := int(data[0])
	if clen < 4 {
		return errC05Syn
	}
	if n < clen {
		df.SetTruncated()
		return errC05Syn
	}
	s.Contents = data[:clen]
	s.Payload = data[clen:]
	s.Next = gopacket.LayerType(w.next + int64(int8(data[1])))
	fl := data[2]
	if fl&8 != 0 {
		s.Opt = int(data[3])
	} else if !w.sticky {
		s.Opt = 0
	}
	if fl&4 != 0 {
		df.SetTruncated()
	}
	switch fl & 3 {
	case 1:
		return errC05Syn
	case 2:
		panic("synthetic layer panic")
	}
	return nil
}

// a user-written container: parallel slices searched from the end (last Put wins)
type c05Custom struct {
	typs []gopacket.LayerType
	decs []gopacket.DecodingLayer
}

func (c *c05Custom) Put(d gopacket.DecodingLayer) gopacket.DecodingLayerContainer {
	for _, t := range d.CanDecode().LayerTypes() {
		c.typs = append(c.typs, t)
		c.decs = append(c.decs, d)
	}
	return c
}
func (c *c05Custom) Decoder(t gopacket.LayerType) (gopacket.DecodingLayer, bool) {
	for i := len(c.typs) - 1; i >= 0; i-- {
		if c.typs[i] == t {
			return c.decs[i], true
		}
	}
	return nil, false
}
func (c *c05Custom) LayersDecoder(first gopacket.LayerType, df gopacket.DecodeFeedback) gopacket.DecodingLayerFunc {
	return gopacket.LayersDecoder(c, first, df)
}

func c05EmptyContainer(kind int) gopacket.DecodingLayerContainer {
	switch kind {
	case 0:
		return gopacket.DecodingLayerMap(nil)
	case 1:
		return gopacket.DecodingLayerSparse(nil)
	case 2:
		return gopacket.DecodingLayerArray(nil)
	}
	return &c05Custom{}
}

var c05KindTag = []string{"container-map", "container-sparse", "container-array", "container-custom", "container-map"}

// newParser builds a parser the way a user would: kind 4 = NewDecodingLayerParser(first, layers...)
// (default map container); otherwise NewDecodingLayerParser(first) + SetDecodingLayerContainer.
func c05NewParser(kind int, first gopacket.LayerType, ip, iu bool, ls []gopacket.DecodingLayer) (p *gopacket.DecodingLayerParser, panicked bool) {
	defer func() {
		if r := recover(); r != nil {
			p, panicked = nil, true
		}
	}()
	if kind == 4 {
		p = gopacket.NewDecodingLayerParser(first, ls...)
	} else {
		p = gopacket.NewDecodingLayerParser(first)
		c := c05EmptyContainer(kind)
		for _, l := range ls {
			c = c.Put(l)
		}
		p.SetDecodingLayerContainer(c)
	}
	p.IgnorePanic = ip
	p.IgnoreUnsupported = iu
	return p, false
}

func c05Add(p *gopacket.DecodingLayerParser, l gopacket.DecodingLayer) (panicked bool) {
	defer func() {
		if r := recover(); r != nil {
			panicked = true
		}
	}()
	p.AddDecodingLayer(l)
	return false
}

// error class of a DecodeLayers call
func c05Decode(p *gopacket.DecodingLayerParser, data []byte, decoded *[]gopacket.LayerType, layerErr error) (cls string) {
	defer func() {
		if r := recover(); r != nil {
			cls = "panic"
		}
	}()
	err := p.DecodeLayers(data, decoded)
	if err == nil {
		return "nil"
	}
	if u, ok := err.(gopacket.UnsupportedLayerType); ok {
		return "unsup:" + strconv.FormatInt(int64(u), 10)
	}
	if layerErr != nil && err == layerErr {
		return "layer"
	}
	if strings.HasPrefix(err.Error(), "panic: ") {
		return "recovered"
	}
	return "layer"
}

func c05Types(ts []gopacket.LayerType) string {
	s := make([]string, len(ts))
	for i, t := range ts {
		s[i] = strconv.FormatInt(int64(t), 10)
	}
	return strings.Join(s, ",")
}

func b2s(b bool) string {
	if b {
		return "1"
	}
	return "0"
}

// ---------------------------------------------------------------- scripted cases: parsing

func c05ParseRows(arg string) []c05Row {
	var rows []c05Row
	if arg == "" {
		return rows
	}
	for _, rs := range strings.Split(arg, "|") {
		f := strings.Split(rs, ",")
		if len(f) != 7 {
			panic("c05 row: " + rs)
		}
		var r c05Row
		r.mode, _ = strconv.Atoi(f[0])
		r.clen, _ = strconv.Atoi(f[1])
		r.next, _ = strconv.ParseInt(f[2], 10, 64)
		r.out, _ = strconv.Atoi(f[3])
		r.trunc = f[4] == "1"
		r.sticky = f[5] == "1"
		if f[6] != "-" && f[6] != "" {
			for _, c := range strings.Split(f[6], "/") {
				v, _ := strconv.ParseInt(c, 10, 64)
				r.can = append(r.can, gopacket.LayerType(v))
			}
		}
		rows = append(rows, r)
	}
	return rows
}

func c05RowString(r c05Row) string {
	cs := make([]string, len(r.can))
	for i, c := range r.can {
		cs[i] = strconv.FormatInt(int64(c), 10)
	}
	can := strings.Join(cs, "/")
	if can == "" {
		can = "-"
	}
	return fmt.Sprintf("%d,%d,%d,%d,%s,%s,%s", r.mode, r.clen, r.next, r.out, b2s(r.trunc), b2s(r.sticky), can)
}

func c05ParseIdx(s string) []int {
	var out []int
	if s == "-" || s == "" {
		return out
	}
	for _, x := range strings.Split(s, "/") {
		v, _ := strconv.Atoi(x)
		out = append(out, v)
	}
	return out
}

// one run of a scripted case on one container kind: observations per op
type c05SynRun struct {
	obs       []string
	newPanic  bool
	pktErr    []string // error class per pkt op ("" when no parser)
	pktDec    [][]gopacket.LayerType
	pktTrunc  []bool
	pktStates [][]c05Syn // copy of the objects after each pkt
}

func c05RunScripted(rows []c05Row, ops []string, kindOverride int) c05SynRun {
	var run c05SynRun
	objs := make([]*c05Syn, len(rows))
	mk := func() {
		for i := range rows {
			objs[i] = &c05Syn{row: rows[i]}
		}
	}
	mk()
	var p *gopacket.DecodingLayerParser
	decoded := []gopacket.LayerType{}
	for _, op := range ops {
		name, arg, _ := strings.Cut(op, ":")
		switch name {
		case "new":
			f := strings.Split(arg, ",")
			kind, _ := strconv.Atoi(f[0])
			if kindOverride >= 0 {
				kind = kindOverride
			}
			first, _ := strconv.ParseInt(f[1], 10, 64)
			mk() // fresh objects; the caller's decoded slice survives
			var ls []gopacket.DecodingLayer
			for _, i := range c05ParseIdx(f[4]) {
				if i >= 0 && i < len(objs) {
					ls = append(ls, objs[i])
				}
			}
			var pan bool
			p, pan = c05NewParser(kind, gopacket.LayerType(first), f[2] == "1", f[3] == "1", ls)
			if pan {
				run.newPanic = true
				run.obs = append(run.obs, "new=panic")
			} else {
				run.obs = append(run.obs, "new=ok")
			}
		case "add":
			i, _ := strconv.Atoi(arg)
			if p == nil {
				run.obs = append(run.obs, "new=panic")
				break
			}
			if i < 0 || i >= len(objs) {
				run.obs = append(run.obs, "new=ok")
				break
			}
			if c05Add(p, objs[i]) {
				p = nil
				run.newPanic = true
				run.obs = append(run.obs, "new=panic")
			} else {
				run.obs = append(run.obs, "new=ok")
			}
		case "pkt":
			if p == nil {
				run.obs = append(run.obs, "noparser")
				run.pktErr = append(run.pktErr, "")
				run.pktDec = append(run.pktDec, nil)
				run.pktTrunc = append(run.pktTrunc, false)
				run.pktStates = append(run.pktStates, nil)
				break
			}
			data, _ := hex.DecodeString(arg)
			cls := c05Decode(p, data, &decoded, errC05Syn)
			var sb strings.Builder
			states := make([]c05Syn, len(objs))
			for i, o := range objs {
				if i > 0 {
					sb.WriteByte('/')
				}
				fmt.Fprintf(&sb, "%d:%d:%d:%d:%d:%d", i, len(o.Contents), len(o.Payload), int64(o.Next), o.Opt, o.Count)
				states[i] = *o
			}
			run.obs = append(run.obs, fmt.Sprintf("dec=%s;err=%s;trunc=%s;objs=%s", c05Types(decoded), cls, b2s(p.Truncated), sb.String()))
			run.pktErr = append(run.pktErr, cls)
			run.pktDec = append(run.pktDec, append([]gopacket.LayerType(nil), decoded...))
			run.pktTrunc = append(run.pktTrunc, p.Truncated)
			run.pktStates = append(run.pktStates, states)
		}
	}
	return run
}

// ---------------------------------------------------------------- scripted cases: oracle
// Reference: eager packet decoding over the whole family with fresh objects (written here,
// independent of parser.go/layers_decoder.go and of the Coq model).

type c05Elem struct {
	typ   gopacket.LayerType
	obj   int
	st    c05Syn
	cls   string // ok err panic
	trunc bool
}

type c05Rec struct{ t bool }

func (r *c05Rec) SetTruncated() { r.t = true }

func c05SynDecodeFresh(row c05Row, data []byte) (st c05Syn, cls string, trunc bool) {
	o := &c05Syn{row: row}
	rec := &c05Rec{}
	func() {
		defer func() {
			if r := recover(); r != nil {
				cls = "panic"
			}
		}()
		if err := o.DecodeFromBytes(data, rec); err != nil {
			cls = "err"
		} else {
			cls = "ok"
		}
	}()
	return *o, cls, rec.t
}

// returns chain and end: "empty", "zero", "nodec:<t>", "failed"
func c05SynChain(rows []c05Row, reg map[gopacket.LayerType]int, first gopacket.LayerType, data []byte) ([]c05Elem, string) {
	var chain []c05Elem
	typ := first
	fuel := len(data) + 1
	for steps := 0; steps <= fuel; steps++ {
		o, ok := reg[typ]
		if !ok {
			return chain, "nodec:" + strconv.FormatInt(int64(typ), 10)
		}
		st, cls, tr := c05SynDecodeFresh(rows[o], data)
		chain = append(chain, c05Elem{typ, o, st, cls, tr})
		if cls != "ok" {
			return chain, "failed"
		}
		if st.Next == gopacket.LayerTypeZero {
			return chain, "zero"
		}
		if len(st.Payload) == 0 {
			return chain, "empty"
		}
		typ, data = st.Next, st.Payload
	}
	return chain, "fuel"
}

func c05LastPut(rows []c05Row, idx []int) map[gopacket.LayerType]int {
	m := map[gopacket.LayerType]int{}
	for _, i := range idx {
		if i < 0 || i >= len(rows) {
			continue
		}
		for _, t := range rows[i].can {
			m[t] = i
		}
	}
	return m
}

func c05OracleScripted(rows []c05Row, ops []string, main c05SynRun, kind int) (fails []string, tags []string) {
	// current configuration while walking the ops
	var sub []int
	var first gopacket.LayerType
	var ip, iu bool
	haveParser := false
	all := make([]int, len(rows))
	for i := range rows {
		all[i] = i
	}
	reg := c05LastPut(rows, all)
	pk := 0
	var prevStates []c05Syn
	add := func(clause, detail string) { fails = append(fails, clause+"\t"+detail) }
	for _, op := range ops {
		name, arg, _ := strings.Cut(op, ":")
		switch name {
		case "new":
			f := strings.Split(arg, ",")
			v, _ := strconv.ParseInt(f[1], 10, 64)
			first, ip, iu = gopacket.LayerType(v), f[2] == "1", f[3] == "1"
			sub = c05ParseIdx(f[4])
			haveParser = true
			prevStates = nil
		case "add":
			i, _ := strconv.Atoi(arg)
			sub = append(sub, i)
		case "pkt":
			k := pk
			pk++
			if k >= len(main.pktErr) || main.pktErr[k] == "" || !haveParser {
				continue
			}
			data, _ := hex.DecodeString(arg)
			lk := c05LastPut(rows, sub)
			// like with like: every type of the set is decoded by the same struct in packet decoding
			like := true
			for t, o := range lk {
				if reg[t] != o || t == gopacket.LayerTypeZero {
					like = false
				}
			}
			if !like {
				tags = append(tags, "overlapping-family")
				continue
			}
			chain, end := c05SynChain(rows, reg, first, data)
			// leading run
			n := 0
			stop := "end"
			var stopT gopacket.LayerType
			for n < len(chain) {
				e := chain[n]
				if _, in := lk[e.typ]; !in {
					stop, stopT = "unsup", e.typ
					break
				}
				if e.cls != "ok" {
					stop = e.cls
					break
				}
				n++
			}
			var want []gopacket.LayerType
			for _, e := range chain[:n] {
				want = append(want, e.typ)
			}
			touched := chain[:n]
			wantErr := "nil"
			switch stop {
			case "unsup":
				tags = append(tags, "stop-at-unsupported")
				if iu {
					tags = append(tags, "ignore-unsupported")
				} else if stopT != gopacket.LayerTypeZero {
					wantErr = "unsup:" + strconv.FormatInt(int64(stopT), 10)
				}
			case "err":
				tags = append(tags, "stop-at-error")
				wantErr = "layer"
				touched = chain[:n+1]
			case "panic":
				tags = append(tags, "stop-at-panic")
				wantErr = "recovered"
				if ip {
					wantErr = "panic"
				}
				touched = chain[:n+1]
			case "end":
				if strings.HasPrefix(end, "nodec:") {
					tags = append(tags, "stop-at-unsupported")
					if iu {
						tags = append(tags, "ignore-unsupported")
					} else if end != "nodec:0" {
						wantErr = "unsup:" + end[6:]
					}
				}
			}
			wantTr := false
			for _, e := range touched {
				wantTr = wantTr || e.trunc
			}
			if wantTr {
				tags = append(tags, "truncated")
			}
			if fmt.Sprint(want) != fmt.Sprint(main.pktDec[k]) {
				add("C05:prefix", fmt.Sprintf("pkt=%d kind=%d decoded=%v want=%v", k, kind, main.pktDec[k], want))
			}
			if wantErr != main.pktErr[k] {
				cl := "C05:error"
				if (main.pktErr[k] == "recovered" || main.pktErr[k] == "panic") && stop != "panic" {
					cl = "C05:panic"
				}
				add(cl, fmt.Sprintf("pkt=%d kind=%d err=%s want=%s", k, kind, main.pktErr[k], wantErr))
			}
			if wantTr != main.pktTrunc[k] {
				add("C05:truncated", fmt.Sprintf("pkt=%d kind=%d truncated=%v want=%v", k, kind, main.pktTrunc[k], wantTr))
			}
			// objects: the state of the last touched element of each object (sticky rows excepted)
			last := map[int]c05Syn{}
			for _, e := range touched {
				if e.cls == "ok" {
					last[e.obj] = e.st
				} else {
					delete(last, e.obj) // "a returned error leaves the layer in an unknown state" (parser.go:22)
				}
			}
			reused := false
			for o, w := range last {
				g := main.pktStates[k][o]
				if prevStates != nil && prevStates[o].Count > 0 {
					reused = true
				}
				if rows[o].sticky {
					continue
				}
				if hex.EncodeToString(g.Contents) != hex.EncodeToString(w.Contents) || hex.EncodeToString(g.Payload) != hex.EncodeToString(w.Payload) || g.Next != w.Next || g.Opt != w.Opt {
					add("C05:fields", fmt.Sprintf("pkt=%d kind=%d obj=%d", k, kind, o))
				}
			}
			if reused {
				tags = append(tags, "reused-objects")
			}
			prevStates = main.pktStates[k]
		}
	}
	return fails, tags
}

// ---------------------------------------------------------------- real layers

// the first 8 are the stack of the property (every subset is exercised); the rest is an extension
// group (ICMPv6 + NDP messages, ICMPv4, ARP) used mostly all-or-nothing
var c05RealTypes = []gopacket.LayerType{layers.LayerTypeEthernet, layers.LayerTypeDot1Q, layers.LayerTypeIPv4,
	layers.LayerTypeIPv6, layers.LayerTypeTCP, layers.LayerTypeUDP, gopacket.LayerTypePayload, layers.LayerTypeDNS,
	layers.LayerTypeICMPv6, layers.LayerTypeICMPv6Echo, layers.LayerTypeICMPv6RouterSolicitation,
	layers.LayerTypeICMPv6RouterAdvertisement, layers.LayerTypeICMPv6NeighborSolicitation,
	layers.LayerTypeICMPv6NeighborAdvertisement, layers.LayerTypeICMPv6Redirect, layers.LayerTypeICMPv4, layers.LayerTypeARP}

const c05Extras = ((1 << 17) - 1) &^ 255

func c05NewReal(i int) gopacket.DecodingLayer {
	switch i {
	case 0:
		return &layers.Ethernet{}
	case 1:
		return &layers.Dot1Q{}
	case 2:
		return &layers.IPv4{}
	case 3:
		return &layers.IPv6{}
	case 4:
		return &layers.TCP{}
	case 5:
		return &layers.UDP{}
	case 6:
		return &gopacket.Payload{}
	case 7:
		return &layers.DNS{}
	case 8:
		return &layers.ICMPv6{}
	case 9:
		return &layers.ICMPv6Echo{}
	case 10:
		return &layers.ICMPv6RouterSolicitation{}
	case 11:
		return &layers.ICMPv6RouterAdvertisement{}
	case 12:
		return &layers.ICMPv6NeighborSolicitation{}
	case 13:
		return &layers.ICMPv6NeighborAdvertisement{}
	case 14:
		return &layers.ICMPv6Redirect{}
	case 15:
		return &layers.ICMPv4{}
	case 16:
		return &layers.ARP{}
	}
	return nil
}

func c05RealIndex(t gopacket.LayerType) int {
	for i, x := range c05RealTypes {
		if x == t {
			return i
		}
	}
	return -1
}

// exported-field equality (nil and empty slices are the same observable); returns the path of
// the first difference or ""
func c05ExportedDiff(a, b reflect.Value, path string, depth int) string {
	if depth > 12 {
		return ""
	}
	if a.IsValid() != b.IsValid() {
		return path
	}
	if !a.IsValid() {
		return ""
	}
	if a.Type() != b.Type() {
		return path
	}
	switch a.Kind() {
	case reflect.Ptr, reflect.Interface:
		if a.IsNil() || b.IsNil() {
			if a.IsNil() != b.IsNil() {
				return path
			}
			return ""
		}
		return c05ExportedDiff(a.Elem(), b.Elem(), path, depth+1)
	case reflect.Struct:
		t := a.Type()
		for i := 0; i < t.NumField(); i++ {
			f := t.Field(i)
			if f.PkgPath != "" { // unexported
				continue
			}
			p := path + "." + f.Name
			if f.Anonymous {
				p = path
			}
			if d := c05ExportedDiff(a.Field(i), b.Field(i), p, depth+1); d != "" {
				return d
			}
		}
		return ""
	case reflect.Slice, reflect.Array:
		if a.Len() != b.Len() {
			return path
		}
		for i := 0; i < a.Len(); i++ {
			if d := c05ExportedDiff(a.Index(i), b.Index(i), path, depth+1); d != "" {
				return d
			}
		}
		return ""
	case reflect.Map:
		if a.Len() != b.Len() {
			return path
		}
		return ""
	case reflect.Bool:
		if a.Bool() != b.Bool() {
			return path
		}
	case reflect.Int, reflect.Int8, reflect.Int16, reflect.Int32, reflect.Int64:
		if a.Int() != b.Int() {
			return path
		}
	case reflect.Uint, reflect.Uint8, reflect.Uint16, reflect.Uint32, reflect.Uint64, reflect.Uintptr:
		if a.Uint() != b.Uint() {
			return path
		}
	case reflect.String:
		if a.String() != b.String() {
			return path
		}
	case reflect.Float32, reflect.Float64:
		if a.Float() != b.Float() {
			return path
		}
	}
	return ""
}

func c05LayerDiff(a, b interface{}) string {
	va, vb := reflect.ValueOf(a), reflect.ValueOf(b)
	name := va.Type().String()
	if i := strings.LastIndex(name, "."); i >= 0 {
		name = name[i+1:]
	}
	return c05ExportedDiff(va, vb, name, 0)
}

type c05RealRun struct {
	dec   []gopacket.LayerType
	err   string
	trunc bool
	objs  []gopacket.DecodingLayer // by real index (nil when not in the set)
}

type c05RealParser struct {
	p       *gopacket.DecodingLayerParser
	objs    []gopacket.DecodingLayer
	decoded []gopacket.LayerType
}

func c05MakeReal(mask, kind int, first gopacket.LayerType, iu bool) *c05RealParser {
	rp := &c05RealParser{objs: make([]gopacket.DecodingLayer, len(c05RealTypes))}
	var ls []gopacket.DecodingLayer
	for i := range c05RealTypes {
		if mask&(1<<uint(i)) != 0 {
			rp.objs[i] = c05NewReal(i)
			ls = append(ls, rp.objs[i])
		}
	}
	p, pan := c05NewParser(kind, first, false, iu, ls)
	if pan {
		return nil
	}
	rp.p = p
	return rp
}

func (rp *c05RealParser) decode(data []byte) c05RealRun {
	cls := c05Decode(rp.p, data, &rp.decoded, nil)
	return c05RealRun{append([]gopacket.LayerType(nil), rp.decoded...), cls, rp.p.Truncated, rp.objs}
}

func c05ErrKind(s string) string {
	if strings.HasPrefix(s, "unsup:") || s == "nil" || s == "panic" || s == "recovered" {
		return s
	}
	return "layer"
}

// standalone decode of one real layer type on data with a recording feedback
func c05Standalone(i int, data []byte) (l gopacket.DecodingLayer, cls string, trunc bool) {
	l = c05NewReal(i)
	rec := &c05Rec{}
	func() {
		defer func() {
			if r := recover(); r != nil {
				cls = "panic"
			}
		}()
		if err := l.DecodeFromBytes(data, rec); err != nil {
			cls = "err"
		} else {
			cls = "ok"
		}
	}()
	return l, cls, rec.t
}

// the reference for one packet: gopacket.NewPacket with the dispatch the parser uses
type c05Ref struct {
	ls     []gopacket.Layer // packet layers without the embedded hop-by-hop layer and without DecodeFailure
	data   [][]byte         // data[i]: the bytes layer i was decoded from; data[len(ls)]: what the next decoder got
	failed bool             // a DecodeFailure layer follows
	trunc  bool
	note   []string // observations about the reference itself
}

func c05Reference(first gopacket.LayerType, data []byte) (ref c05Ref) {
	defer func() {
		if r := recover(); r != nil {
			ref.note = append(ref.note, fmt.Sprintf("NewPacket panicked: %v", r))
		}
	}()
	pkt := gopacket.NewPacket(data, first, gopacket.DecodeOptions{DecodeStreamsAsDatagrams: true})
	cur := data
	for _, l := range pkt.Layers() {
		if _, ok := l.(*gopacket.DecodeFailure); ok {
			ref.failed = true
			continue
		}
		if hbh, ok := l.(*layers.IPv6HopByHop); ok && len(ref.ls) > 0 {
			if ip6, ok := ref.ls[len(ref.ls)-1].(*layers.IPv6); ok && ip6.HopByHop == hbh {
				// embedded in the IPv6 layer object; the parser reports IPv6 only.  NewPacket
				// continues on the hop-by-hop layer's payload (packet.go:510 uses p.last).
				cur = l.LayerPayload()
				continue
			}
		}
		ref.ls = append(ref.ls, l)
		ref.data = append(ref.data, cur)
		cur = l.LayerPayload()
	}
	ref.data = append(ref.data, cur)
	ref.trunc = pkt.Metadata().Truncated
	return ref
}

// c05OracleReal states C05_prefix on the implementation: what the parser over the subset `mask`
// must return, computed from the packet's layers and standalone decodes of single layers.
// poison is the type of the layer that failed inside the set (its object is not comparable).
func c05OracleReal(first gopacket.LayerType, mask int, iu bool, ref c05Ref, got c05RealRun, kind int) (fails []string, tags []string, poison gopacket.LayerType) {
	add := func(clause, detail string) {
		fails = append(fails, fmt.Sprintf("%s\t%s kind=%d mask=%d", clause, detail, kind, mask))
	}
	in := func(t gopacket.LayerType) bool {
		i := c05RealIndex(t)
		return i >= 0 && mask&(1<<uint(i)) != 0
	}
	unsup := func(t gopacket.LayerType) string {
		tags = append(tags, "stop-at-unsupported")
		if t == gopacket.LayerTypeZero {
			tags = append(tags, "next-type-zero")
			return "nil" // LayerTypeZero means "no next layer" (base.go:46)
		}
		if iu {
			tags = append(tags, "ignore-unsupported")
			return "nil"
		}
		return "unsup:" + strconv.FormatInt(int64(t), 10)
	}
	n := 0
	wantErr := ""
	wantTr := false
	whole := false // the parser walked everything the packet decoder walked
	lastOf := map[gopacket.LayerType]gopacket.Layer{}
	next := first
	for wantErr == "" {
		cur := ref.data[n]
		if n < len(ref.ls) {
			l := ref.ls[n]
			t := l.LayerType()
			if t != next {
				add("C05:dispatch", fmt.Sprintf("packet decoding went to %v where NextLayerType says %v", t, next))
				return
			}
			if !in(t) {
				wantErr = unsup(t)
				break
			}
			_, cls, tr := c05Standalone(c05RealIndex(t), cur)
			wantTr = wantTr || tr
			if cls != "ok" {
				wantErr = "layer"
				if cls == "panic" {
					wantErr = "recovered"
				}
				poison = t
				tags = append(tags, "stop-at-error")
				if n != len(ref.ls)-1 || !ref.failed {
					add("C05:dispatch", fmt.Sprintf("%v fails standalone but packet decoding continued", t))
					return
				}
				whole = true
				break
			}
			lastOf[t] = l
			dl, ok := l.(gopacket.DecodingLayer)
			if !ok {
				add("C05:dispatch", fmt.Sprintf("%v is not a DecodingLayer", t))
				return
			}
			next = dl.NextLayerType()
			n++
			continue
		}
		// the packet has no further layer
		if !ref.failed {
			wantErr = "nil"
			whole = true
			if len(cur) != 0 && next != gopacket.LayerTypeZero {
				add("C05:dispatch", fmt.Sprintf("packet decoding stopped with %d payload bytes and next type %v", len(cur), next))
				return
			}
			break
		}
		// DecodeFailure: the decoder for `next` failed without adding a layer, or there is none
		if in(next) {
			_, cls, tr := c05Standalone(c05RealIndex(next), cur)
			wantTr = wantTr || tr
			if cls == "ok" {
				add("C05:dispatch", fmt.Sprintf("packet decoding failed at %v but the layer decodes standalone", next))
				return
			}
			wantErr = "layer"
			if cls == "panic" {
				wantErr = "recovered"
			}
			poison = next
			whole = true
			tags = append(tags, "stop-at-error")
		} else {
			wantErr = unsup(next)
		}
	}
	var want []gopacket.LayerType
	for _, l := range ref.ls[:n] {
		want = append(want, l.LayerType())
	}
	if fmt.Sprint(want) != fmt.Sprint(got.dec) {
		add("C05:prefix", fmt.Sprintf("decoded=%v want=%v", got.dec, want))
		return
	}
	if c05ErrKind(got.err) != wantErr {
		cl := "C05:error"
		if got.err == "recovered" || got.err == "panic" {
			cl = "C05:panic"
		}
		add(cl, fmt.Sprintf("err=%s want=%s after %v", got.err, wantErr, want))
	}
	if got.trunc != wantTr {
		add("C05:truncated", fmt.Sprintf("truncated=%v want=%v after %v", got.trunc, wantTr, want))
	} else if whole && got.trunc != ref.trunc {
		add("C05:truncated", fmt.Sprintf("truncated=%v packet.Metadata().Truncated=%v", got.trunc, ref.trunc))
	}
	if wantTr {
		tags = append(tags, "truncated")
	}
	for t, l := range lastOf {
		if t == poison {
			continue
		}
		o := got.objs[c05RealIndex(t)]
		if d := c05LayerDiff(o, l); d != "" {
			add("C05:fields", fmt.Sprintf("%s differs from the packet's layer", d))
		}
	}
	return
}

func c05RunReal(ops []string) (res Result) {
	var mask int
	var first gopacket.LayerType
	var iu bool
	var parsers [4]*c05RealParser
	seen := map[string]bool{}
	addFail := func(s string) {
		if !seen[s] {
			seen[s] = true
			res.Oracle = append(res.Oracle, s)
		}
	}
	npk := 0
	for _, op := range ops {
		name, arg, _ := strings.Cut(op, ":")
		switch name {
		case "rset":
			f := strings.Split(arg, ",")
			mask, _ = strconv.Atoi(f[0])
			v, _ := strconv.ParseInt(f[1], 10, 64)
			first = gopacket.LayerType(v)
			iu = f[2] == "1"
			for k := 0; k < 4; k++ {
				parsers[k] = c05MakeReal(mask, k, first, iu)
				if parsers[k] == nil {
					addFail(fmt.Sprintf("C05:panic\tconstruction kind=%d mask=%d", k, mask))
				}
			}
			res.Obs = append(res.Obs, "new=ok")
			npk = 0
		case "rpkt":
			data, _ := hex.DecodeString(arg)
			ref := c05Reference(first, data)
			for _, nt := range ref.note {
				addFail("C05:reference\t" + nt)
			}
			var runs [4]c05RealRun
			for k := 0; k < 4; k++ {
				if parsers[k] == nil {
					continue
				}
				runs[k] = parsers[k].decode(data)
				res.Tags = append(res.Tags, c05KindTag[k])
			}
			if parsers[0] == nil {
				res.Obs = append(res.Obs, "noparser")
				continue
			}
			r0 := runs[0]
			res.Obs = append(res.Obs, fmt.Sprintf("dec=%s;err=%s;trunc=%s", c05Types(r0.dec), c05ErrKind(r0.err), b2s(r0.trunc)))
			// C05_prefix is stated on objects that hold no history: the case's own parser for the first
			// packet, a fresh parser for later ones (history dependence is the C05:stale clause below)
			sub := r0
			var fr c05RealRun
			if npk > 0 {
				fr = c05MakeReal(mask, 0, first, iu).decode(data)
				sub = fr
			}
			fails, tags, poison := c05OracleReal(first, mask, iu, ref, sub, 0)
			for _, f := range fails {
				addFail(f)
			}
			res.Tags = append(res.Tags, tags...)
			// the other containers must give the same result
			for k := 1; k < 4; k++ {
				if parsers[k] == nil {
					continue
				}
				rk := runs[k]
				if fmt.Sprint(rk.dec) != fmt.Sprint(r0.dec) || c05ErrKind(rk.err) != c05ErrKind(r0.err) || rk.trunc != r0.trunc {
					addFail(fmt.Sprintf("C05:containers\tkind=%d dec=%v err=%s trunc=%v vs map dec=%v err=%s trunc=%v", k, rk.dec, rk.err, rk.trunc, r0.dec, r0.err, r0.trunc))
					continue
				}
				for _, t := range rk.dec {
					i := c05RealIndex(t)
					if d := c05LayerDiff(rk.objs[i], r0.objs[i]); d != "" {
						addFail(fmt.Sprintf("C05:containers\tkind=%d %s differs from map container", k, d))
					}
				}
			}
			// reused objects vs fresh objects
			if npk > 0 {
				res.Tags = append(res.Tags, "reused-objects")
				if fmt.Sprint(fr.dec) != fmt.Sprint(r0.dec) || c05ErrKind(fr.err) != c05ErrKind(r0.err) || fr.trunc != r0.trunc {
					addFail(fmt.Sprintf("C05:stale\tparser pkt=%d dec=%v err=%s trunc=%v fresh dec=%v err=%s trunc=%v", npk, r0.dec, r0.err, r0.trunc, fr.dec, fr.err, fr.trunc))
				} else {
					for _, t := range r0.dec {
						if t == poison {
							continue
						}
						i := c05RealIndex(t)
						if d := c05LayerDiff(r0.objs[i], fr.objs[i]); d != "" {
							addFail(fmt.Sprintf("C05:stale\t%s pkt=%d", d, npk))
						}
					}
				}
			}
			npk++
		}
	}
	return res
}

// ---------------------------------------------------------------- Run

func (c05parser) Run(c Case) (res Result) {
	if len(c.Ops) == 0 {
		return
	}
	if strings.HasPrefix(c.Ops[0], "rset:") {
		return c05RunReal(c.Ops)
	}
	if !strings.HasPrefix(c.Ops[0], "fam:") {
		return
	}
	rows := c05ParseRows(strings.TrimPrefix(c.Ops[0], "fam:"))
	ops := c.Ops[1:]
	main := c05RunScripted(rows, ops, -1)
	res.Obs = append([]string{"fam=" + strconv.Itoa(len(rows))}, main.obs...)
	kind := -1
	negCan := false  // a CanDecode type the sparse container cannot hold (negative or huge)
	realNeg := false // ... a negative one: legal LayerType, Put panics with index out of range
	for _, op := range ops {
		if strings.HasPrefix(op, "new:") {
			f := strings.Split(op[4:], ",")
			kind, _ = strconv.Atoi(f[0])
			for _, i := range c05ParseIdx(f[4]) {
				if i >= 0 && i < len(rows) {
					for _, t := range rows[i].can {
						if t < 0 || t >= 1<<40 {
							negCan = true
						}
						if t < 0 {
							realNeg = true
						}
					}
				}
			}
		}
		if strings.HasPrefix(op, "add:") {
			i, _ := strconv.Atoi(op[4:])
			if i >= 0 && i < len(rows) {
				for _, t := range rows[i].can {
					if t < 0 || t >= 1<<40 {
						negCan = true
					}
					if t < 0 {
						realNeg = true
					}
				}
			}
		}
	}
	if kind >= 0 && kind < len(c05KindTag) {
		res.Tags = append(res.Tags, c05KindTag[kind])
	}
	fails, tags := c05OracleScripted(rows, ops, main, kind)
	res.Oracle = append(res.Oracle, fails...)
	res.Tags = append(res.Tags, tags...)
	if main.newPanic {
		if kind == 1 && realNeg {
			res.Oracle = append(res.Oracle, "C05:panic\tsparse-put negative type in CanDecode")
		} else if kind == 1 && negCan {
			// documented: "may be memory-consuming if used with big LayerType values" -- growth to 2^50 entries panics
			res.Tags = append(res.Tags, "sparse-huge-type")
		} else {
			res.Oracle = append(res.Oracle, fmt.Sprintf("C05:panic\tconstruction kind=%d", kind))
		}
	}
	// all containers agree (a sparse container cannot hold negative / huge types: reported above)
	for k := 0; k < 5; k++ {
		if k == kind || (negCan && (k == 1 || kind == 1)) {
			continue
		}
		other := c05RunScripted(rows, ops, k)
		if strings.Join(other.obs, "\n") != strings.Join(main.obs, "\n") {
			d := 0
			for d < len(other.obs) && d < len(main.obs) && other.obs[d] == main.obs[d] {
				d++
			}
			res.Oracle = append(res.Oracle, fmt.Sprintf("C05:containers\tkind=%d differs from kind=%d at op %d", k, kind, d))
		}
	}
	return res
}

// ---------------------------------------------------------------- generators

func c05Repo() string {
	if r := os.Getenv("VERIF_REPO"); r != "" {
		return r
	}
	return "/repo"
}

// packet literals ([]byte{...} composite literals of constants) in layers/*_test.go
func c05Literals() [][]byte {
	var out [][]byte
	files, _ := filepath.Glob(filepath.Join(c05Repo(), "layers", "*_test.go"))
	sort.Strings(files)
	fset := token.NewFileSet()
	for _, fn := range files {
		f, err := parser.ParseFile(fset, fn, nil, 0)
		if err != nil {
			continue
		}
		ast.Inspect(f, func(n ast.Node) bool {
			cl, ok := n.(*ast.CompositeLit)
			if !ok {
				return true
			}
			at, ok := cl.Type.(*ast.ArrayType)
			if !ok || at.Len != nil {
				return true
			}
			id, ok := at.Elt.(*ast.Ident)
			if !ok || id.Name != "byte" {
				return true
			}
			var b []byte
			for _, e := range cl.Elts {
				bl, ok := e.(*ast.BasicLit)
				if !ok {
					return true
				}
				var v int64
				if bl.Kind == token.INT {
					v, err = strconv.ParseInt(bl.Value, 0, 64)
				} else if bl.Kind == token.CHAR {
					s, e2 := strconv.Unquote(bl.Value)
					if e2 != nil || len(s) != 1 {
						return true
					}
					v = int64(s[0])
				} else {
					return true
				}
				if err != nil || v < 0 || v > 255 {
					return true
				}
				b = append(b, byte(v))
			}
			if len(b) >= 14 && len(b) <= 1600 {
				out = append(out, b)
			}
			return true
		})
	}
	return out
}

func c05be16(v int) []byte { return []byte{byte(v >> 8), byte(v)} }

type c05Stack struct {
	vlan     int // 0, 1, 2 tags
	v6       bool
	ipOpts   []byte // IPv4 options bytes (multiple of 4) or IPv6 hop-by-hop when v6 (multiple of 8, incl. 2-byte header)
	proto    int    // 6 tcp, 17 udp, other
	tcpOpts  []byte
	sport    int
	dport    int
	payload  []byte
	fragment bool
	trailer  []byte // bytes after the IP datagram (Ethernet padding)
}

// built by hand, not by the library
func c05Build(s c05Stack) []byte {
	var l4 []byte
	switch s.proto {
	case 6:
		h := make([]byte, 20)
		copy(h[0:], c05be16(s.sport))
		copy(h[2:], c05be16(s.dport))
		h[4], h[7], h[11] = 1, 2, 3
		h[12] = byte((5 + len(s.tcpOpts)/4) << 4)
		h[13] = 0x18
		h[14], h[15] = 0x20, 0
		l4 = append(append(h, s.tcpOpts...), s.payload...)
	case 17:
		h := make([]byte, 8)
		copy(h[0:], c05be16(s.sport))
		copy(h[2:], c05be16(s.dport))
		copy(h[4:], c05be16(8+len(s.payload)))
		l4 = append(h, s.payload...)
	default:
		l4 = s.payload
	}
	var l3 []byte
	etype := 0x0800
	if s.v6 {
		etype = 0x86dd
		h := make([]byte, 40)
		h[0] = 0x60
		ext := s.ipOpts
		copy(h[4:], c05be16(len(ext)+len(l4)))
		h[6] = byte(s.proto)
		if len(ext) > 0 {
			h[6] = 0
			ext = append([]byte(nil), ext...)
			ext[0] = byte(s.proto)
			ext[1] = byte(len(ext)/8 - 1)
		}
		h[7] = 64
		h[8+15], h[24+15] = 1, 2
		l3 = append(append(h, ext...), l4...)
	} else {
		h := make([]byte, 20)
		ihl := 5 + len(s.ipOpts)/4
		h[0] = byte(0x40 | ihl)
		copy(h[2:], c05be16(ihl*4+len(l4)))
		h[4], h[5] = 0x12, 0x34
		if s.fragment {
			h[6] = 0x20
		}
		h[8] = 64
		h[9] = byte(s.proto)
		copy(h[12:], []byte{10, 0, 0, 1})
		copy(h[16:], []byte{10, 0, 0, 2})
		l3 = append(append(h, s.ipOpts...), l4...)
	}
	eth := []byte{2, 0, 0, 0, 0, 1, 2, 0, 0, 0, 0, 2}
	for i := 0; i < s.vlan; i++ {
		eth = append(eth, 0x81, 0x00, 0x00, byte(10+i))
	}
	eth = append(eth, c05be16(etype)...)
	return append(append(eth, l3...), s.trailer...)
}

// an ICMPv6 message with n NDP options (built by hand)
func c05NDP(rng *rand.Rand, typ int, nopts int) []byte {
	b := []byte{byte(typ), 0, 0xab, 0xcd}
	body := map[int]int{128: 4, 129: 4, 133: 4, 134: 12, 135: 20, 136: 20, 137: 36}[typ]
	for i := 0; i < body; i++ {
		b = append(b, byte(rng.Intn(256)))
	}
	if typ == 128 || typ == 129 {
		return append(b, 1, 2, 3, 4, 5)
	}
	for i := 0; i < nopts; i++ {
		units := 1 + rng.Intn(2)
		o := make([]byte, units*8)
		o[0], o[1] = byte(1+rng.Intn(5)), byte(units)
		for j := 2; j < len(o); j++ {
			o[j] = byte(rng.Intn(256))
		}
		b = append(b, o...)
	}
	return b
}

var c05DNSQuery = []byte{0x12, 0x34, 0x01, 0x00, 0x00, 0x01, 0x00, 0x00, 0x00, 0x00, 0x00, 0x00,
	3, 'w', 'w', 'w', 7, 'e', 'x', 'a', 'm', 'p', 'l', 'e', 3, 'c', 'o', 'm', 0, 0x00, 0x01, 0x00, 0x01}

func c05RandStack(rng *rand.Rand) c05Stack {
	var s c05Stack
	s.vlan = []int{0, 0, 0, 1, 1, 2}[rng.Intn(6)]
	s.v6 = rng.Intn(3) == 0
	if s.v6 {
		if rng.Intn(3) == 0 {
			s.ipOpts = []byte{0, 0, 1, 4, 0, 0, 0, 0} // PadN
			if rng.Intn(2) == 0 {
				s.ipOpts = append(s.ipOpts, 1, 6, 0, 0, 0, 0, 0, 0)
			}
		}
	} else {
		switch rng.Intn(6) {
		case 0: // options then end-of-list then padding (leaves Padding behind)
			s.ipOpts = []byte{7, 3, 4, 0, 0xaa, 0xbb, 0xcc, 0xdd}[:4+4*rng.Intn(2)]
		case 1: // options that fill the header exactly, no end-of-list
			s.ipOpts = []byte{1, 1, 1, 1}
		case 2:
			s.ipOpts = []byte{0x94, 4, 0, 0}
		case 3:
			s.ipOpts = []byte{0, 0x11, 0x22, 0x33}
		}
		s.fragment = rng.Intn(12) == 0
	}
	s.proto = []int{6, 6, 6, 17, 17, 17, 1, 253}[rng.Intn(8)]
	s.sport = []int{1024 + rng.Intn(60000), 53, 80}[rng.Intn(3)]
	s.dport = []int{1024 + rng.Intn(60000), 53, 443, 4789}[rng.Intn(4)]
	if s.proto == 6 {
		switch rng.Intn(6) {
		case 0: // MSS, end of list, padding
			s.tcpOpts = []byte{2, 4, 5, 0xb4, 0, 0xee, 0xff, 0x11}
		case 1: // multipath DSS
			s.tcpOpts = []byte{30, 4, 0x20, 0x00}
		case 2:
			s.tcpOpts = []byte{1, 1, 1, 1}
		case 3: // timestamps
			s.tcpOpts = []byte{1, 1, 8, 10, 0, 0, 0, 1, 0, 0, 0, 2}
		case 4: // MP_CAPABLE syn
			s.tcpOpts = []byte{30, 12, 0x00, 0x81, 1, 2, 3, 4, 5, 6, 7, 8}
		}
	}
	if rng.Intn(6) == 0 {
		s.trailer = make([]byte, 1+rng.Intn(12))
		rng.Read(s.trailer)
	}
	if s.v6 && rng.Intn(3) == 0 {
		s.proto = 58
		s.payload = c05NDP(rng, []int{128, 133, 134, 135, 136, 137}[rng.Intn(6)], rng.Intn(4))
		return s
	}
	switch rng.Intn(5) {
	case 0:
		s.payload = nil
	case 1:
		s.payload = append([]byte(nil), c05DNSQuery...)
	default:
		s.payload = make([]byte, 1+rng.Intn(40))
		rng.Read(s.payload)
	}
	return s
}

func c05Mutate(rng *rand.Rand, b []byte) []byte {
	b = append([]byte(nil), b...)
	if len(b) == 0 {
		return b
	}
	n := 1 + rng.Intn(3)
	for i := 0; i < n; i++ {
		// most mutations in the header area
		pos := rng.Intn(len(b))
		if rng.Intn(3) != 0 && len(b) > 60 {
			pos = rng.Intn(60)
		}
		switch rng.Intn(5) {
		case 0:
			b[pos] = 0
		case 1:
			b[pos] = 0xff
		case 2:
			b[pos]++
		case 3:
			b[pos]--
		default:
			b[pos] = byte(rng.Intn(256))
		}
	}
	return b
}

func c05RealCase(mask int, first gopacket.LayerType, iu bool, pkts ...[]byte) Case {
	ops := []string{fmt.Sprintf("rset:%d,%d,%s", mask, int64(first), b2s(iu))}
	for _, p := range pkts {
		ops = append(ops, "rpkt:"+hex.EncodeToString(p))
	}
	return Case{Prop: "C05parser", Ops: ops}
}

func c05GenReal(rng *rand.Rand, tier string) []Case {
	var out []Case
	lits := c05Literals()
	eth := layers.LayerTypeEthernet
	full := (1 << uint(len(c05RealTypes))) - 1
	thorough := tier == "thorough"
	ext := func(m int) int { // extension group: all, none, or a random part
		switch rng.Intn(4) {
		case 0:
			return m
		case 1:
			return m | rng.Intn(1<<uint(len(c05RealTypes)))&c05Extras
		}
		return m | c05Extras
	}
	masksFor := func(n int) []int {
		if thorough || n >= 256 {
			m := make([]int, 256)
			for i := range m {
				m[i] = ext(i)
			}
			return m
		}
		m := []int{full, full &^ 64, 255, 0x55 | 1}
		for len(m) < n {
			m = append(m, ext(rng.Intn(256)))
		}
		return m
	}
	// 1. literals from the repository's tests: whole, with sampled subsets
	for i, l := range lits {
		n := 6
		if i%16 == 0 {
			n = 256
		}
		for _, m := range masksFor(n) {
			out = append(out, c05RealCase(m, eth, rng.Intn(4) == 0, l))
		}
	}
	// 2. built stacks: every subset
	nst := 24
	if thorough {
		nst = 200
	}
	var stacks [][]byte
	for i := 0; i < nst; i++ {
		stacks = append(stacks, c05Build(c05RandStack(rng)))
	}
	for i, s := range stacks {
		n := 16
		if i%4 == 0 {
			n = 256
		}
		for _, m := range masksFor(n) {
			out = append(out, c05RealCase(m, eth, rng.Intn(4) == 0, s))
		}
	}
	// 3. truncation at every length (full set and a few subsets)
	ntr := 10
	if thorough {
		ntr = 60
	}
	for i := 0; i < ntr; i++ {
		var b []byte
		if i%2 == 0 && len(lits) > 0 {
			b = lits[rng.Intn(len(lits))]
		} else {
			b = c05Build(c05RandStack(rng))
		}
		if len(b) > 200 {
			b = b[:200]
		}
		for n := 0; n <= len(b); n++ {
			m := full
			if n%3 == 1 {
				m = ext(rng.Intn(256) | 1)
			}
			out = append(out, c05RealCase(m, eth, false, b[:n]))
		}
	}
	// 4. mutations
	nmu := 400
	if thorough {
		nmu = 6000
	}
	for i := 0; i < nmu; i++ {
		var b []byte
		if i%2 == 0 && len(lits) > 0 {
			b = lits[rng.Intn(len(lits))]
		} else {
			b = c05Build(c05RandStack(rng))
		}
		m := full
		if i%3 == 0 {
			m = ext(rng.Intn(256))
		}
		out = append(out, c05RealCase(m, eth, rng.Intn(5) == 0, c05Mutate(rng, b)))
	}
	// 5. other first layers
	for i := 0; i < 40; i++ {
		s := c05RandStack(rng)
		s.vlan = 0
		b := c05Build(s)[14:]
		first := layers.LayerTypeIPv4
		if s.v6 {
			first = layers.LayerTypeIPv6
		}
		out = append(out, c05RealCase(ext(rng.Intn(256)), first, rng.Intn(3) == 0, b))
	}
	// 6. sequences of 2-3 packets into the same objects; first packets leave maximal residue
	nseq := 300
	if thorough {
		nseq = 4000
	}
	residue := func() []byte {
		if rng.Intn(3) == 0 {
			s := c05RandStack(rng)
			s.v6, s.ipOpts, s.proto, s.trailer = true, nil, 58, nil
			s.payload = c05NDP(rng, []int{133, 134, 135, 136, 137}[rng.Intn(5)], 2+rng.Intn(2))
			return c05Build(s)
		}
		s := c05RandStack(rng)
		s.v6 = false
		s.ipOpts = []byte{7, 3, 4, 0, 0xaa, 0xbb, 0xcc, 0xdd}
		s.proto = 6
		s.tcpOpts = []byte{30, 4, 0x20, 0x00, 2, 4, 5, 0xb4, 0, 0xee, 0xff, 0x11}
		return c05Build(s)
	}
	// IPv6 hop-by-hop header followed by TCP/UDP, with and without bytes after the datagram
	for i := 0; i < 12; i++ {
		s := c05RandStack(rng)
		s.v6 = true
		s.ipOpts = []byte{0, 0, 1, 4, 0, 0, 0, 0}
		if i%2 == 0 {
			s.ipOpts = append(s.ipOpts, 1, 6, 0, 0, 0, 0, 0, 0)
		}
		s.proto = []int{6, 17}[i%2]
		s.payload = []byte{1, 2, 3, 4, 5, 6, 7}[:1+rng.Intn(7)]
		s.trailer = nil
		if i%3 != 0 { // longer than the extension header: the two decoders see different bytes
			s.trailer = make([]byte, len(s.ipOpts)+1+rng.Intn(8))
			rng.Read(s.trailer)
		}
		out = append(out, c05RealCase(full, eth, false, c05Build(s)))
		out = append(out, c05RealCase(ext(rng.Intn(256)|1|8), eth, false, c05Build(s)))
	}
	// NDP pairs: same message type, more options first
	for i := 0; i < nseq/6; i++ {
		typ := []int{133, 134, 135, 136, 137}[rng.Intn(5)]
		mk := func(n int) []byte {
			s := c05RandStack(rng)
			s.v6, s.ipOpts, s.proto, s.trailer = true, nil, 58, nil
			s.payload = c05NDP(rng, typ, n)
			return c05Build(s)
		}
		m := full
		if i%5 == 0 {
			m = ext(rng.Intn(256)|1|8) | c05Extras
		}
		out = append(out, c05RealCase(m, eth, false, mk(1+rng.Intn(3)), mk(rng.Intn(3))))
	}
	for i := 0; i < nseq; i++ {
		var pk [][]byte
		k := 2 + rng.Intn(2)
		for j := 0; j < k; j++ {
			switch r := rng.Intn(10); {
			case j == 0 && r < 5:
				pk = append(pk, residue())
			case r < 7:
				pk = append(pk, c05Build(c05RandStack(rng)))
			case r < 9 && len(lits) > 0:
				pk = append(pk, lits[rng.Intn(len(lits))])
			default:
				pk = append(pk, c05Mutate(rng, c05Build(c05RandStack(rng))))
			}
		}
		m := full
		if i%4 == 0 {
			m = ext(rng.Intn(256) | 1)
		}
		out = append(out, c05RealCase(m, eth, rng.Intn(6) == 0, pk...))
	}
	return out
}

// scripted families
func c05GenScripted(rng *rand.Rand, tier string) []Case {
	var out []Case
	n := 2500
	if tier == "thorough" {
		n = 30000
	}
	typePool := []int64{1, 2, 3, 4, 5, 6, 7, 9, 12, 40, 1999, 2000, 2500}
	for i := 0; i < n; i++ {
		exotic := rng.Intn(10) == 0 // negative / zero / huge types, overlapping CanDecode
		nrows := 1 + rng.Intn(6)
		pool := append([]int64(nil), typePool...)
		if exotic {
			pool = append(pool, 0, -1, -7, 1<<50)
		}
		rng.Shuffle(len(pool), func(a, b int) { pool[a], pool[b] = pool[b], pool[a] })
		used := 0
		takeType := func() int64 {
			if exotic && rng.Intn(4) == 0 {
				return pool[rng.Intn(len(pool))]
			}
			t := pool[used%len(pool)]
			used++
			return t
		}
		rows := make([]c05Row, nrows)
		for r := range rows {
			w := &rows[r]
			nc := 1
			if rng.Intn(5) == 0 {
				nc = rng.Intn(4)
			}
			for c := 0; c < nc; c++ {
				w.can = append(w.can, gopacket.LayerType(takeType()))
			}
			w.mode = rng.Intn(2)
			w.clen = 1 + rng.Intn(6)
			w.sticky = rng.Intn(8) == 0
			if w.mode == 0 {
				w.trunc = rng.Intn(6) == 0
				switch rng.Intn(12) {
				case 0:
					w.out = 1
				case 1:
					w.out = 2
				}
			}
		}
		// next types mostly point at types of the family
		var allTypes []int64
		for _, w := range rows {
			for _, t := range w.can {
				allTypes = append(allTypes, int64(t))
			}
		}
		pickNext := func() int64 {
			switch r := rng.Intn(10); {
			case r < 7 && len(allTypes) > 0:
				return allTypes[rng.Intn(len(allTypes))]
			case r == 7:
				return 0
			case r == 8 && exotic:
				return []int64{-1, -3, 1 << 50, 5000}[rng.Intn(4)]
			default:
				return typePool[rng.Intn(len(typePool))]
			}
		}
		for r := range rows {
			if rows[r].mode == 0 {
				rows[r].next = pickNext()
			} else {
				rows[r].next = 0 // header byte is the type itself
				if rng.Intn(6) == 0 {
					rows[r].next = 1990
				}
			}
		}
		rs := make([]string, len(rows))
		for r := range rows {
			rs[r] = c05RowString(rows[r])
		}
		ops := []string{"fam:" + strings.Join(rs, "|")}
		// parser
		var sub []string
		for r := range rows {
			if rng.Intn(4) != 0 {
				sub = append(sub, strconv.Itoa(r))
			}
		}
		rng.Shuffle(len(sub), func(a, b int) { sub[a], sub[b] = sub[b], sub[a] })
		subs := strings.Join(sub, "/")
		if subs == "" {
			subs = "-"
		}
		first := int64(0)
		if len(allTypes) > 0 {
			first = allTypes[rng.Intn(len(allTypes))]
		}
		if rng.Intn(12) == 0 {
			first = pickNext()
		}
		kind := rng.Intn(5)
		ops = append(ops, fmt.Sprintf("new:%d,%d,%s,%s,%s", kind, first, b2s(rng.Intn(4) == 0), b2s(rng.Intn(3) == 0), subs))
		npk := 1 + rng.Intn(3)
		for k := 0; k < npk; k++ {
			if rng.Intn(10) == 0 {
				ops = append(ops, fmt.Sprintf("add:%d", rng.Intn(nrows)))
			}
			// a packet: a sequence of headers for header-driven rows: clen, next, flags, opt, filler
			var data []byte
			nh := 1 + rng.Intn(5)
			for h := 0; h < nh; h++ {
				cl := 4 + rng.Intn(4)
				var nt int64 = 0
				if len(allTypes) > 0 && rng.Intn(8) != 0 {
					nt = allTypes[rng.Intn(len(allTypes))]
				} else {
					nt = pickNext()
				}
				nb := byte(int8(nt))
				if nt > 127 || nt < -128 {
					nb = byte(rng.Intn(256))
				}
				fl := byte(0)
				if rng.Intn(3) == 0 {
					fl |= 8
				}
				if rng.Intn(8) == 0 {
					fl |= 4
				}
				switch rng.Intn(20) {
				case 0:
					fl |= 1
				case 1:
					fl |= 2
				case 2:
					fl |= 3
				}
				hd := []byte{byte(cl), nb, fl, byte(rng.Intn(256))}
				for len(hd) < cl {
					hd = append(hd, byte(rng.Intn(256)))
				}
				data = append(data, hd...)
			}
			switch rng.Intn(8) {
			case 0:
				data = data[:rng.Intn(len(data)+1)]
			case 1:
				data = c05Mutate(rng, data)
			case 2:
				data = nil
			}
			ops = append(ops, "pkt:"+hex.EncodeToString(data))
		}
		out = append(out, Case{Prop: "C05parser", Ops: ops})
	}
	return out
}

func (c05parser) Gen(rng *rand.Rand, tier string) []Case {
	out := c05GenScripted(rng, tier)
	out = append(out, c05GenReal(rng, tier)...)
	return out
}
