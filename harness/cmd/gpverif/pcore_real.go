package main

// Real protocol stacks for the C03 / C01core implementation-side oracles: the []byte packet
// literals of layers/*_test.go are read from the repository under test at run time with
// go/parser (not imported), used whole, truncated and mutated, and decoded lazily and
// eagerly by the real decoders.  These cases have no model side (the decoders are not
// scripted); they are labelled "impl-only" in the evidence.

import (
	"bytes"
	"encoding/hex"
	"fmt"
	"go/ast"
	"go/parser"
	"go/token"
	"math/rand"
	"os"
	"path/filepath"
	"reflect"
	"sort"
	"strconv"
	"strings"

	"github.com/gopacket/gopacket"
	"github.com/gopacket/gopacket/layers"
)

type pcLiteral struct {
	name    string
	file    string
	data    []byte
	decoder string // name of the first decoder as written in the test (LinkTypeEthernet, LayerTypeIPv4, ...)
}

func pcRepo() string {
	if r := os.Getenv("VERIF_REPO"); r != "" {
		return r
	}
	return "/repo"
}

func pcEvalBytes(cl *ast.CompositeLit) ([]byte, bool) {
	at, ok := cl.Type.(*ast.ArrayType)
	if !ok {
		return nil, false
	}
	id, ok := at.Elt.(*ast.Ident)
	if !ok || (id.Name != "byte" && id.Name != "uint8") {
		return nil, false
	}
	out := make([]byte, 0, len(cl.Elts))
	for _, e := range cl.Elts {
		bl, ok := e.(*ast.BasicLit)
		if !ok {
			return nil, false
		}
		switch bl.Kind {
		case token.INT:
			v, err := strconv.ParseUint(bl.Value, 0, 8)
			if err != nil {
				return nil, false
			}
			out = append(out, byte(v))
		case token.CHAR:
			s, err := strconv.Unquote(bl.Value)
			if err != nil || len(s) != 1 {
				return nil, false
			}
			out = append(out, s[0])
		default:
			return nil, false
		}
	}
	return out, true
}

func pcExprName(e ast.Expr) string {
	switch x := e.(type) {
	case *ast.Ident:
		return x.Name
	case *ast.SelectorExpr:
		return pcExprName(x.X) + "." + x.Sel.Name
	}
	return ""
}

var pcLiteralCache []pcLiteral

// pcLoadLiterals parses layers/*_test.go of the repository under test.
func pcLoadLiterals() []pcLiteral {
	if pcLiteralCache != nil {
		return pcLiteralCache
	}
	files, _ := filepath.Glob(filepath.Join(pcRepo(), "layers", "*_test.go"))
	sort.Strings(files)
	fset := token.NewFileSet()
	var lits []pcLiteral
	usedWith := map[string]string{}
	for _, fn := range files {
		f, err := parser.ParseFile(fset, fn, nil, 0)
		if err != nil {
			continue
		}
		base := filepath.Base(fn)
		record := func(name string, e ast.Expr) {
			if cl, ok := e.(*ast.CompositeLit); ok {
				if b, ok := pcEvalBytes(cl); ok && len(b) >= 8 {
					lits = append(lits, pcLiteral{name: name, file: base, data: b})
				}
			}
		}
		ast.Inspect(f, func(n ast.Node) bool {
			switch x := n.(type) {
			case *ast.ValueSpec:
				for i, v := range x.Values {
					if i < len(x.Names) {
						record(x.Names[i].Name, v)
					}
				}
			case *ast.AssignStmt:
				for i, v := range x.Rhs {
					if i < len(x.Lhs) {
						record(pcExprName(x.Lhs[i]), v)
					}
				}
			case *ast.CallExpr:
				if pcExprName(x.Fun) == "gopacket.NewPacket" && len(x.Args) >= 2 {
					a, d := pcExprName(x.Args[0]), pcExprName(x.Args[1])
					if a != "" && d != "" {
						if _, dup := usedWith[base+":"+a]; !dup {
							usedWith[base+":"+a] = d
						}
						if _, dup := usedWith[a]; !dup {
							usedWith[a] = d
						}
					}
				}
			}
			return true
		})
	}
	for i := range lits {
		if d, ok := usedWith[lits[i].file+":"+lits[i].name]; ok {
			lits[i].decoder = d
		} else if d, ok := usedWith[lits[i].name]; ok {
			lits[i].decoder = d
		} else {
			lits[i].decoder = "LinkTypeEthernet"
		}
	}
	pcLiteralCache = lits
	return lits
}

var pcDecoderByName map[string]gopacket.Decoder

func pcResolveDecoder(name string) gopacket.Decoder {
	if pcDecoderByName == nil {
		pcDecoderByName = map[string]gopacket.Decoder{}
		for i := 0; i < 256; i++ {
			if n := layers.LinkTypeMetadata[i].Name; n != "" && layers.LinkTypeMetadata[i].DecodeWith != nil {
				pcDecoderByName["LinkType"+n] = layers.LinkType(i)
			}
		}
		for i := 0; i < 2000; i++ {
			lt := gopacket.LayerType(i)
			if s := lt.String(); s != strconv.Itoa(i) {
				if _, dup := pcDecoderByName["LayerType"+s]; !dup {
					pcDecoderByName["LayerType"+s] = lt
				}
			}
		}
	}
	if d, ok := pcDecoderByName[name]; ok {
		return d
	}
	if strings.HasPrefix(name, "LayerType") {
		if d, ok := gopacket.DecodersByLayerName[strings.TrimPrefix(name, "LayerType")]; ok && d != nil {
			return d
		}
	}
	return layers.LinkTypeEthernet
}

// layer types (numbers) of the eagerly decoded packet; used to aim Layer()/LayerClass() calls
func pcRealTypes(data []byte, dec gopacket.Decoder) []int {
	var out []int
	func() {
		defer func() { recover() }()
		p := gopacket.NewPacket(data, dec, gopacket.DecodeOptions{DecodeStreamsAsDatagrams: true})
		for _, l := range p.Layers() {
			out = append(out, int(l.LayerType()))
		}
	}()
	return out
}

func (g pcGen) genRealProgram(types []int, maxLen int, renderers bool) []string {
	rng := g.rng
	f := pcFamily{types: types}
	n := 1 + rng.Intn(maxLen)
	var out []string
	for len(out) < n {
		a := g.genAccessor(f)
		if !renderers && (a == "st" || a == "du") {
			continue
		}
		out = append(out, a)
	}
	return out
}

func pcMutate(rng *rand.Rand, b []byte) []byte {
	out := append([]byte{}, b...)
	switch rng.Intn(4) {
	case 0: // a length-like byte forced to an extreme
		if len(out) > 0 {
			i := rng.Intn(pcMin(len(out), 80))
			out[i] = []byte{0, 1, 0x7f, 0x80, 0xfe, 0xff}[rng.Intn(6)]
		}
	case 1: // off by one
		if len(out) > 0 {
			i := rng.Intn(pcMin(len(out), 80))
			out[i] += byte(1 + 254*rng.Intn(2))
		}
	case 2: // extension
		ext := make([]byte, 1+rng.Intn(12))
		rng.Read(ext)
		out = append(out, ext...)
	case 3: // two random bytes
		for k := 0; k < 2 && len(out) > 0; k++ {
			out[rng.Intn(len(out))] = byte(rng.Intn(256))
		}
	}
	return out
}

// genReal produces implementation-only cases from the test literals of the repository.
func (g pcGen) genReal(prop string, tier string, renderers bool) []Case {
	rng := g.rng
	lits := pcLoadLiterals()
	var out []Case
	mk := func(l pcLiteral, data []byte, types []int) {
		o := pcOptCombos[rng.Intn(16)]
		ops := []string{"real:" + l.decoder, pcOptString(o), "d:" + hex.EncodeToString(data)}
		ops = append(ops, g.genRealProgram(types, 8, renderers)...)
		out = append(out, Case{Prop: prop, Ops: ops})
	}
	for _, l := range lits {
		dec := pcResolveDecoder(l.decoder)
		types := pcRealTypes(l.data, dec)
		mk(l, l.data, types)
		if tier == "thorough" {
			for n := 1; n < len(l.data); n++ {
				mk(l, l.data[:n], types)
			}
			for k := 0; k < 40; k++ {
				mk(l, pcMutate(rng, l.data), types)
			}
		} else {
			for k := 0; k < 5; k++ {
				mk(l, l.data[:1+rng.Intn(len(l.data)-1)], types)
			}
			for k := 0; k < 3; k++ {
				mk(l, pcMutate(rng, l.data), types)
			}
		}
	}
	return out
}

// ---------------------------------------------------------------- running a real case
type pcRealCall struct {
	kind   string // nil | layer | layers | text | panic
	layers []gopacket.Layer
	text   string
}

func pcRealAccess(pkt gopacket.Packet, op string) (res pcRealCall) {
	defer func() {
		if r := recover(); r != nil {
			res = pcRealCall{kind: "panic"}
		}
	}()
	name, arg, _ := strings.Cut(op, ":")
	one := func(l gopacket.Layer) pcRealCall {
		if l == nil || (reflect.ValueOf(l).Kind() == reflect.Ptr && reflect.ValueOf(l).IsNil()) {
			return pcRealCall{kind: "nil"}
		}
		return pcRealCall{kind: "layer", layers: []gopacket.Layer{l}}
	}
	switch name {
	case "L":
		t, _ := strconv.Atoi(arg)
		return one(pkt.Layer(gopacket.LayerType(t)))
	case "C":
		var lts []gopacket.LayerType
		for _, f := range strings.Split(arg, ",") {
			if f != "" {
				t, _ := strconv.Atoi(f)
				lts = append(lts, gopacket.LayerType(t))
			}
		}
		return one(pkt.LayerClass(gopacket.NewLayerClassMap(lts)))
	case "lk":
		if l := pkt.LinkLayer(); l != nil {
			return one(l)
		}
		return one(nil)
	case "nw":
		if l := pkt.NetworkLayer(); l != nil {
			return one(l)
		}
		return one(nil)
	case "tr":
		if l := pkt.TransportLayer(); l != nil {
			return one(l)
		}
		return one(nil)
	case "ap":
		if l := pkt.ApplicationLayer(); l != nil {
			return one(l)
		}
		return one(nil)
	case "er":
		if l := pkt.ErrorLayer(); l != nil {
			return one(l)
		}
		return one(nil)
	case "ls":
		return pcRealCall{kind: "layers", layers: pkt.Layers()}
	case "st":
		return pcRealCall{kind: "text", text: pkt.String()}
	case "du":
		return pcRealCall{kind: "text", text: pcStripStack(pkt.Dump())}
	}
	return pcRealCall{kind: "bad-op"}
}

func pcSafeDump(l gopacket.Layer) (s string) {
	defer func() {
		if r := recover(); r != nil {
			s = "<renderer panic>"
		}
	}()
	return pcStripStack(gopacket.LayerDump(l))
}

// pcSameLayer compares two layers decoded independently from equal bytes.
func pcSameLayer(a, b gopacket.Layer) (bool, string) {
	if a.LayerType() != b.LayerType() {
		return false, fmt.Sprintf("type %v vs %v", a.LayerType(), b.LayerType())
	}
	if !bytes.Equal(a.LayerContents(), b.LayerContents()) {
		return false, "contents differ"
	}
	if !bytes.Equal(a.LayerPayload(), b.LayerPayload()) {
		return false, "payload differs"
	}
	fa, oka := a.(*gopacket.DecodeFailure)
	fb, okb := b.(*gopacket.DecodeFailure)
	if oka != okb {
		return false, "DecodeFailure vs ordinary layer"
	}
	if oka {
		// error class only: neither the stack nor the error text is compared
		_, _ = fa, fb
		return true, ""
	}
	if reflect.DeepEqual(a, b) {
		return true, ""
	}
	if da, db := pcSafeDump(a), pcSafeDump(b); da == db {
		return true, "deepequal-fallback"
	}
	return false, "fields differ"
}

func pcSameCall(a, b pcRealCall) (bool, string) {
	if a.kind != b.kind {
		return false, a.kind + " vs " + b.kind
	}
	if a.kind == "text" && a.text != b.text {
		return false, "rendered text differs"
	}
	if len(a.layers) != len(b.layers) {
		return false, fmt.Sprintf("%d vs %d layers", len(a.layers), len(b.layers))
	}
	for i := range a.layers {
		if ok, why := pcSameLayer(a.layers[i], b.layers[i]); !ok {
			return false, fmt.Sprintf("layer %d: %s", i, why)
		}
	}
	return true, ""
}

type pcRealExec struct {
	pkt      gopacket.Packet
	newPanic bool
	calls    []pcRealCall
	final    pcRealCall
	trunc    bool
}

func pcRealExecute(pc pcCase, dec gopacket.Decoder, o gopacket.DecodeOptions) *pcRealExec {
	ex := &pcRealExec{}
	input := make([]byte, len(pc.data)) // cap == len: a slice past the end panics instead of reading spare capacity
	copy(input, pc.data)
	func() {
		defer func() {
			if r := recover(); r != nil {
				ex.newPanic = true
			}
		}()
		ex.pkt = gopacket.NewPacket(input, dec, o)
	}()
	if ex.newPanic {
		return ex
	}
	for _, op := range pc.prog {
		ex.calls = append(ex.calls, pcRealAccess(ex.pkt, op))
	}
	ex.final = pcRealAccess(ex.pkt, "ls")
	ex.trunc = ex.pkt.Metadata().Truncated
	return ex
}

func (ex *pcRealExec) dispose() { pcDisposeScrubbed(ex.pkt) }

func (ex *pcRealExec) pos(c pcRealCall) int {
	if c.kind != "layer" {
		return -2
	}
	for i, l := range ex.final.layers {
		if l == c.layers[0] {
			return i
		}
	}
	return -1
}

// pcRunReal: oracle-only execution of a real-stack case.
func pcRunReal(prop string, pc pcCase) Result {
	var res Result
	res.Tags = append(res.Tags, "real-stack")
	dec := pcResolveDecoder(pc.real)
	oe, ol := pc.opts, pc.opts
	oe.Lazy, ol.Lazy = false, true
	oe.SkipDecodeRecovery, ol.SkipDecodeRecovery = false, false
	ee := pcRealExecute(pc, dec, oe)
	le := pcRealExecute(pc, dec, ol)
	defer ee.dispose()
	defer le.dispose()
	if ee.newPanic || le.newPanic {
		res.Oracle = append(res.Oracle, "C01:total\tNewPacket panicked with recovery on first="+pc.real)
		return res
	}
	if len(ee.final.layers) >= 3 {
		res.Tags = append(res.Tags, "nested")
	}
	if prop == "C03" && len(pc.data) > 0 {
		for i := range pc.prog {
			ok, why := pcSameCall(ee.calls[i], le.calls[i])
			if !ok {
				res.Oracle = append(res.Oracle, fmt.Sprintf("C03:lazy-vs-eager\tcall %d (%s): %s first=%s", i, pc.prog[i], why, pc.real))
				break
			}
			if why != "" {
				res.Tags = append(res.Tags, why)
			}
			if ee.pos(ee.calls[i]) != le.pos(le.calls[i]) {
				res.Oracle = append(res.Oracle, fmt.Sprintf("C03:lazy-vs-eager\tcall %d (%s): layer #%d of the eager packet, #%d of the lazy one", i, pc.prog[i], ee.pos(ee.calls[i]), le.pos(le.calls[i])))
				break
			}
			if le.pos(le.calls[i]) >= 0 {
				res.Tags = append(res.Tags, "accessor-returns-layer")
			}
			if ee.calls[i].kind == "layer" && strings.HasPrefix(pc.prog[i], "C:") && strings.Contains(pc.prog[i], ",") {
				res.Tags = append(res.Tags, "class-lookup")
			}
		}
		if len(res.Oracle) == 0 {
			if ok, why := pcSameCall(ee.final, le.final); !ok {
				res.Oracle = append(res.Oracle, "C03:lazy-vs-eager\tafter Layers(): "+why+" first="+pc.real)
			} else if ee.trunc != le.trunc {
				res.Oracle = append(res.Oracle, fmt.Sprintf("C03:lazy-vs-eager\tafter Layers(): truncated eager=%v lazy=%v", ee.trunc, le.trunc))
			}
		}
		if ee.pkt.ErrorLayer() != nil {
			res.Tags = append(res.Tags, "accessor-after-error")
		}
	}
	if prop == "C01core" {
		for _, ex := range []*pcRealExec{ee, le} {
			which := "eager"
			if ex == le {
				which = "lazy"
			}
			for i, c := range ex.calls {
				if c.kind == "panic" {
					res.Oracle = append(res.Oracle, fmt.Sprintf("C01:total\t%s accessor %s panicked with recovery on", which, pc.prog[i]))
				}
			}
			res.Oracle = append(res.Oracle, pcRealDiscipline(ex, which)...)
		}
		if ee.pkt.ErrorLayer() != nil {
			res.Tags = append(res.Tags, "decode-failed")
			if len(ee.final.layers) >= 2 {
				res.Tags = append(res.Tags, "error-after-add")
			}
		}
	}
	return res
}

// error-layer discipline on a real packet (no instrumentation: "some decoder failed" is read
// off the presence of a DecodeFailure layer)
func pcRealDiscipline(ex *pcRealExec, which string) []string {
	var fails []string
	if ex.final.kind == "panic" {
		return []string{"C01:total\t" + which + " Layers() panicked with recovery on"}
	}
	ls := ex.final.layers
	var er gopacket.Layer
	if l := ex.pkt.ErrorLayer(); l != nil {
		er = l
	}
	ert := "nil"
	if er != nil {
		ert = fmt.Sprintf("%T", er)
		if i := strings.LastIndex(ert, "."); i >= 0 {
			ert = ert[i+1:]
		}
	}
	if er != nil {
		if !pcIsFail(er) {
			fails = append(fails, fmt.Sprintf("C01:error-discipline\t%s: error layer is not a DecodeFailure type=%s", which, ert))
		}
		if len(ls) == 0 || ls[len(ls)-1] != er {
			fails = append(fails, fmt.Sprintf("C01:error-discipline\t%s: error layer is not last type=%s", which, ert))
		}
	}
	for i, l := range ls {
		if pcIsFail(l) && l != er {
			fails = append(fails, fmt.Sprintf("C01:error-discipline\t%s: layer %d is a DecodeFailure but not the error layer, error layer type=%s", which, i, ert))
			break
		}
		if pcIsFail(l) && i != len(ls)-1 {
			fails = append(fails, fmt.Sprintf("C01:error-discipline\t%s: DecodeFailure layer %d is not last, error layer type=%s", which, i, ert))
			break
		}
	}
	return fails
}
