package main

// Ltcp: layers/tcp.go sub-check (C19 C05 C06 C07 C01 for the TCP layer, incl. MPTCP options).
//
// Ops (no spaces inside an op):
//   tbl:<payloadLT>,<port>=<lt>,...   TCPPort.LayerType() of the ports of this case (read by the model only)
//   dec:<hex>[,<extrahex>]            DecodeFromBytes on a fresh &layers.TCP{}; extra = bytes of the backing
//                                     array beyond len(data) (cap(data) = len+len(extra))
//   dec2:<hexA>,<hexB>                decode A then B into the same object; observation after B
//   bld:sp,dp,seq,ack,off,fl,win,sum,urg,<padhex>,<k.len.datahex/...>   layer built from public fields
//   ser:<hex|@>,<f><c><d>,<payloadhex>,<ph>   decode hex (or take the bld layer), SerializeTo over payload;
//                                     f=FixLengths c=ComputeChecksums d=0 fresh,1 dirty(0xAA),2 pre-sized;
//                                     ph = - | 4<src dst hex> | 6<src dst hex>  (network layer for the checksum)
//   rt:<hex>,<payloadhex>,<ph>        decode, serialize fix+csum, decode again, VerifyChecksum

import (
	"encoding/hex"
	"fmt"
	"go/ast"
	"go/parser"
	"go/token"
	"math/rand"
	"net"
	"os"
	"path/filepath"
	"reflect"
	"sort"
	"strconv"
	"strings"

	"github.com/gopacket/gopacket"
	"github.com/gopacket/gopacket/layers"
)

type ltcp struct{}

func init() { register("Ltcp", ltcp{}) }

// ---------------------------------------------------------------- running the implementation

type ltcpFB struct{ tr bool }

func (f *ltcpFB) SetTruncated() { f.tr = true }

func ltcpDecode(t *layers.TCP, data, extra []byte) (cls string, tr bool) {
	arr := make([]byte, len(data)+len(extra))
	copy(arr, data)
	copy(arr[len(data):], extra)
	d := arr[:len(data)]
	fb := &ltcpFB{}
	defer func() {
		if r := recover(); r != nil {
			cls = "panic"
		}
	}()
	err := t.DecodeFromBytes(d, fb)
	if err != nil {
		return "err", fb.tr
	}
	return "ok", fb.tr
}

func ltcpB(b bool) string {
	if b {
		return "1"
	}
	return "0"
}

func ltcpBit(b bool, m int) int {
	if b {
		return m
	}
	return 0
}

func ltcpUnexpBool(p interface{}, name string) bool {
	return reflect.ValueOf(p).Elem().FieldByName(name).Bool()
}

func ltcpInfo(o *layers.TCPOption) string {
	var parts []string
	if p := o.OptionMPTCPMpCapable; p != nil {
		fl := ltcpBit(p.A, 128) | ltcpBit(p.B, 64) | ltcpBit(p.C, 32) | ltcpBit(p.D, 16) | ltcpBit(p.E, 8) | ltcpBit(p.F, 4) | ltcpBit(p.G, 2) | ltcpBit(p.H, 1)
		parts = append(parts, fmt.Sprintf("cap:%d:%d:%x:%x:%d:%d", p.Version, fl, p.SendKey, p.ReceivKey, p.DataLength, p.Checksum))
	}
	if p := o.OptionMPTCPMpJoin; p != nil {
		parts = append(parts, fmt.Sprintf("join:%s:%d:%d:%d:%x", ltcpB(p.Backup), p.AddrID, p.ReceivToken, p.SendRandNum, p.SendHMAC))
	}
	if p := o.OptionMPTCPDss; p != nil {
		fl := ltcpBit(p.F, 16) | ltcpBit(ltcpUnexpBool(p, "m"), 8) | ltcpBit(p.M, 4) | ltcpBit(ltcpUnexpBool(p, "a"), 2) | ltcpBit(p.A, 1)
		parts = append(parts, fmt.Sprintf("dss:%d:%x:%x:%d:%d:%d", fl, p.DataAck, p.DSN, p.SSN, p.DataLength, p.Checksum))
	}
	if p := o.OptionMPTCPAddAddr; p != nil {
		parts = append(parts, fmt.Sprintf("add:%d:%s:%d:%x:%d:%x", p.IPVer, ltcpB(p.E), p.AddrID, []byte(p.Address), p.Port, p.SendHMAC))
	}
	if p := o.OptionMTCPRemAddr; p != nil {
		parts = append(parts, fmt.Sprintf("rem:%x", p.AddrIDs))
	}
	if p := o.OptionMPTCPMpPrio; p != nil {
		parts = append(parts, fmt.Sprintf("prio:%s:%d", ltcpB(p.Backup), p.AddrID))
	}
	if p := o.OptionMTCPMPFail; p != nil {
		parts = append(parts, "fail:"+strconv.FormatUint(p.DSN, 16))
	}
	if p := o.OptionMTCPMPFastClose; p != nil {
		parts = append(parts, fmt.Sprintf("fclose:%x", p.ReceivKey))
	}
	if p := o.OptionMPTCPMPTcpRst; p != nil {
		fl := ltcpBit(p.U, 8) | ltcpBit(p.V, 4) | ltcpBit(p.W, 2) | ltcpBit(p.T, 1)
		parts = append(parts, fmt.Sprintf("rst:%d:%d", fl, p.Reason))
	}
	if len(parts) == 0 {
		return "-"
	}
	return strings.Join(parts, "+")
}

func ltcpFlags(t *layers.TCP) int {
	return ltcpBit(t.FIN, 1) | ltcpBit(t.SYN, 2) | ltcpBit(t.RST, 4) | ltcpBit(t.PSH, 8) | ltcpBit(t.ACK, 16) |
		ltcpBit(t.URG, 32) | ltcpBit(t.ECE, 64) | ltcpBit(t.CWR, 128) | ltcpBit(t.NS, 256)
}

// the fields a round trip must preserve
func ltcpCore(t *layers.TCP) string {
	var os []string
	for i := range t.Options {
		o := &t.Options[i]
		os = append(os, fmt.Sprintf("%d/%d/%x/%d/%s", uint8(o.OptionType), o.OptionLength, o.OptionData, uint8(o.OptionMultipath), ltcpInfo(o)))
	}
	return fmt.Sprintf("sp=%d;dp=%d;seq=%d;ack=%d;off=%d;fl=%d;win=%d;sum=%d;urg=%d;mp=%s;opts=%s;pad=%x",
		uint16(t.SrcPort), uint16(t.DstPort), t.Seq, t.Ack, t.DataOffset, ltcpFlags(t), t.Window, t.Checksum, t.Urgent,
		ltcpB(t.Multipath), strings.Join(os, ","), t.Padding)
}

func ltcpFields(t *layers.TCP) string {
	sport, dport := "", ""
	func() {
		defer func() { recover() }()
		s, d := t.TransportFlow().Endpoints()
		sport, dport = hex.EncodeToString(s.Raw()), hex.EncodeToString(d.Raw())
	}()
	return fmt.Sprintf("%s;c=%x;p=%x;sport=%s;dport=%s", ltcpCore(t), t.Contents, t.Payload, sport, dport)
}

func ltcpTry(f func()) (res string) {
	defer func() {
		if r := recover(); r != nil {
			res = "panic"
		}
	}()
	f()
	return "ok"
}

func ltcpRender(t *layers.TCP) (string, bool) {
	ls := ltcpTry(func() { _ = gopacket.LayerString(t) })
	ld := ltcpTry(func() { _ = gopacket.LayerDump(t) })
	lg := ltcpTry(func() { _ = gopacket.LayerGoString(t) })
	os := ltcpTry(func() {
		for _, o := range t.Options {
			_ = o.String()
		}
	})
	fl := ltcpTry(func() { _ = t.TransportFlow().String(); _ = t.TransportFlow().FastHash() })
	s := fmt.Sprintf("render=ls:%s,ld:%s,lg:%s,os:%s,fl:%s", ls, ld, lg, os, fl)
	return s, strings.Contains(s, "panic")
}

func ltcpSetNet(t *layers.TCP, ph string) {
	if ph == "-" || ph == "" {
		return
	}
	raw, _ := hex.DecodeString(ph[1:])
	n := len(raw) / 2
	if ph[0] == '4' {
		t.SetNetworkLayerForChecksum(&layers.IPv4{SrcIP: net.IP(raw[:n]), DstIP: net.IP(raw[n:])})
	} else {
		t.SetNetworkLayerForChecksum(&layers.IPv6{SrcIP: net.IP(raw[:n]), DstIP: net.IP(raw[n:])})
	}
}

func ltcpBuf(d byte) gopacket.SerializeBuffer {
	switch d {
	case '1':
		buf := gopacket.NewSerializeBuffer()
		b, _ := buf.PrependBytes(4096)
		for i := range b {
			b[i] = 0xAA
		}
		b, _ = buf.AppendBytes(4096)
		for i := range b {
			b[i] = 0xAA
		}
		buf.Clear()
		return buf
	case '2':
		return gopacket.NewSerializeBufferExpectedSize(64, 2000)
	}
	return gopacket.NewSerializeBuffer()
}

// SerializeTo over payload; the network layer must already be attached
func ltcpSer(t *layers.TCP, payload []byte, fix, cs bool, d byte) (cls string, out []byte) {
	defer func() {
		if r := recover(); r != nil {
			cls, out = "panic", nil
		}
	}()
	buf := ltcpBuf(d)
	opts := gopacket.SerializeOptions{FixLengths: fix, ComputeChecksums: cs}
	if err := gopacket.Payload(payload).SerializeTo(buf, opts); err != nil {
		return "err", nil
	}
	if err := t.SerializeTo(buf, opts); err != nil {
		return "err", nil
	}
	return "ok", append([]byte(nil), buf.Bytes()...)
}

func ltcpBuild(arg string) *layers.TCP {
	a := strings.Split(arg, ",")
	n := func(i int) uint64 { v, _ := strconv.ParseUint(a[i], 10, 64); return v }
	fl := int(n(5))
	t := &layers.TCP{SrcPort: layers.TCPPort(n(0)), DstPort: layers.TCPPort(n(1)), Seq: uint32(n(2)), Ack: uint32(n(3)),
		DataOffset: uint8(n(4)), Window: uint16(n(6)), Checksum: uint16(n(7)), Urgent: uint16(n(8)),
		FIN: fl&1 != 0, SYN: fl&2 != 0, RST: fl&4 != 0, PSH: fl&8 != 0, ACK: fl&16 != 0, URG: fl&32 != 0, ECE: fl&64 != 0, CWR: fl&128 != 0, NS: fl&256 != 0}
	if a[9] != "" {
		t.Padding, _ = hex.DecodeString(a[9])
	}
	if a[10] != "" {
		for _, o := range strings.Split(a[10], "/") {
			p := strings.Split(o, ".")
			k, _ := strconv.Atoi(p[0])
			l, _ := strconv.Atoi(p[1])
			var d []byte
			if p[2] != "" {
				d, _ = hex.DecodeString(p[2])
			}
			t.Options = append(t.Options, layers.TCPOption{OptionType: layers.TCPOptionKind(k), OptionLength: uint8(l), OptionData: d})
		}
	}
	return t
}

func ltcpHex(s string) []byte { b, _ := hex.DecodeString(s); return b }

func (ltcp) Run(c Case) Result {
	var res Result
	tags := map[string]bool{}
	for _, k := range []string{"tp", "ol", "mpl", "mpp"} {
		if strings.Contains(c.ID, "-"+k+"-") {
			tags[map[string]string{"tp": "truncated-prefix-of-valid", "ol": "option-length-extreme", "mpl": "option-length-extreme", "mpp": "truncated-prefix-of-valid"}[k]] = true
		}
	}
	hasTbl := false
	var cur *layers.TCP
	var curArg string
	orc := func(clause, detail string) { res.Oracle = append(res.Oracle, clause+"\t"+detail) }
	next := func(t *layers.TCP) string {
		if !hasTbl {
			return "next=-"
		}
		return fmt.Sprintf("next=%d", int(t.NextLayerType()))
	}
	showDec := func(t *layers.TCP, cls string, tr bool) string {
		if cls == "panic" {
			orc("C19:panic", "DecodeFromBytes panicked")
			return "cls=panic"
		}
		r, rp := ltcpRender(t)
		if rp {
			orc("C01:render-panic", r)
		}
		if cls == "err" && len(t.Options) > 0 {
			tags["error-after-add"] = true
		}
		return fmt.Sprintf("cls=%s;tr=%s;%s;%s;%s", cls, ltcpB(tr), ltcpFields(t), next(t), r)
	}
	for _, op := range c.Ops {
		name, arg, _ := strings.Cut(op, ":")
		args := strings.Split(arg, ",")
		switch name {
		case "tbl":
			hasTbl = true
		case "dec":
			var extra []byte
			if len(args) > 1 {
				extra = ltcpHex(args[1])
			}
			t := &layers.TCP{}
			cls, tr := ltcpDecode(t, ltcpHex(args[0]), extra)
			res.Obs = append(res.Obs, showDec(t, cls, tr))
		case "dec2":
			a, b := ltcpHex(args[0]), ltcpHex(args[1])
			t := &layers.TCP{}
			cls1, _ := ltcpDecode(t, a, nil)
			if cls1 == "panic" {
				orc("C19:panic", "DecodeFromBytes panicked on first packet")
				res.Obs = append(res.Obs, "cls1=panic")
				break
			}
			if len(t.Options) > 0 || t.Multipath {
				tags["residue-options"] = true
			}
			if len(t.Padding) > 0 {
				tags["residue-padding"] = true
			}
			cls, tr := ltcpDecode(t, b, nil)
			res.Obs = append(res.Obs, showDec(t, cls, tr))
			f := &layers.TCP{}
			clsF, trF := ltcpDecode(f, b, nil)
			if clsF != cls || trF != tr {
				orc("C05:stale", fmt.Sprintf("outcome reused=%s/%v fresh=%s/%v", cls, tr, clsF, trF))
			} else if clsF == "ok" && ltcpFields(f) != ltcpFields(t) {
				orc("C05:stale", "reused: "+ltcpCore(t)+" fresh: "+ltcpCore(f))
			}
		case "bld":
			cur, curArg = ltcpBuild(arg), arg
			r, rp := ltcpRender(cur)
			if rp {
				orc("C01:render-panic", r)
			}
			res.Obs = append(res.Obs, ltcpFields(cur)+";"+r)
		case "ser":
			mk := func() (*layers.TCP, string) {
				if args[0] == "@" {
					if cur == nil {
						return nil, "panic"
					}
					return ltcpBuild(curArg), "ok"
				}
				t := &layers.TCP{}
				cls, _ := ltcpDecode(t, ltcpHex(args[0]), nil)
				return t, cls
			}
			t, dcls := mk()
			if dcls == "panic" {
				orc("C19:panic", "DecodeFromBytes panicked")
				res.Obs = append(res.Obs, "dcls=panic")
				break
			}
			fix, cs, d := args[1][0] == '1', args[1][1] == '1', args[1][2]
			payload := ltcpHex(args[2])
			ltcpSetNet(t, args[3])
			cls, out := ltcpSer(t, payload, fix, cs, d)
			res.Obs = append(res.Obs, fmt.Sprintf("dcls=%s;cls=%s;out=%x;off=%d;pad=%x;sum=%d", dcls, cls, out, t.DataOffset, t.Padding, t.Checksum))
			if cls == "panic" {
				orc("C07:panic", "SerializeTo panicked")
			}
			if d == '1' {
				tags["dirty-buffer"] = true
			}
			if !fix {
				tags["no-fixlengths"] = true
			}
			if fix && len(t.Padding) > 0 {
				tags["pad-residue"] = true
			}
			if len(payload)%2 == 1 {
				tags["odd-payload"] = true
			}
			if dcls == "err" {
				tags["error-after-add"] = true
			}
			// oracle: the three buffer histories and a repetition give the same bytes
			for _, d2 := range []byte{'0', '1', '2'} {
				t2, _ := mk()
				ltcpSetNet(t2, args[3])
				cls2, out2 := ltcpSer(t2, payload, fix, cs, d2)
				if cls2 != cls || string(out2) != string(out) {
					orc("C07:junk-dependence", fmt.Sprintf("buffer %c gives %s %x, buffer %c gives %s %x", d, cls, out, d2, cls2, out2))
					break
				}
			}
			if cls == "ok" {
				cls3, out3 := ltcpSer(t, payload, fix, cs, d)
				if cls3 != cls || string(out3) != string(out) {
					orc("C07:repeat", fmt.Sprintf("first %x second %s %x", out, cls3, out3))
				}
			}
		case "rt":
			t := &layers.TCP{}
			dcls, _ := ltcpDecode(t, ltcpHex(args[0]), nil)
			if dcls != "ok" {
				if dcls == "panic" {
					orc("C19:panic", "DecodeFromBytes panicked")
				}
				res.Obs = append(res.Obs, "dcls="+dcls)
				break
			}
			kind := "fields"
			for _, o := range t.Options {
				if o.OptionType == layers.TCPOptionKindMultipathTCP {
					kind = "mptcp-option"
				}
			}
			if len(t.Options) >= 2 {
				tags["ge2-options"] = true
			}
			payload := ltcpHex(args[1])
			if len(payload)%2 == 1 {
				tags["odd-payload"] = true
			}
			ltcpSetNet(t, args[2])
			scls, out := ltcpSer(t, payload, true, true, '0')
			if len(t.Padding) > 0 {
				tags["pad-residue"] = true
			}
			if scls != "ok" {
				if scls == "panic" {
					orc("C07:panic", "SerializeTo panicked")
				} else if args[2] != "-" {
					orc("C06:roundtrip", kind+" serialize error")
				}
				res.Obs = append(res.Obs, "dcls=ok;scls="+scls)
				break
			}
			t2 := &layers.TCP{}
			cls2, tr2 := ltcpDecode(t2, out, nil)
			if cls2 == "panic" {
				orc("C19:panic", "DecodeFromBytes panicked on serialized bytes")
				orc("C06:roundtrip", kind+" second decode panicked")
				res.Obs = append(res.Obs, "dcls=ok;scls=ok;cls=panic")
				break
			}
			valid := "valid=-"
			if args[2] != "-" {
				ltcpSetNet(t2, args[2])
				err, v := t2.VerifyChecksum()
				if err != nil {
					valid = "valid=err"
				} else {
					valid = fmt.Sprintf("valid=%s;correct=%d", ltcpB(v.Valid), v.Correct)
				}
				if err != nil || !v.Valid {
					orc("C08:verify", "VerifyChecksum rejects the checksum SerializeTo wrote: "+valid)
				}
			}
			res.Obs = append(res.Obs, fmt.Sprintf("dcls=ok;scls=ok;cls=%s;tr=%s;%s;%s", cls2, ltcpB(tr2), ltcpFields(t2), valid))
			if cls2 != "ok" || tr2 {
				orc("C06:roundtrip", fmt.Sprintf("%s second decode %s truncated=%v", kind, cls2, tr2))
			} else if ltcpCore(t2) != ltcpCore(t) {
				orc("C06:roundtrip", kind+" written: "+ltcpCore(t)+" read: "+ltcpCore(t2))
			} else if string(t2.Payload) != string(payload) {
				orc("C06:roundtrip", kind+" payload differs")
			} else {
				cls3, out3 := ltcpSer(t2, t2.Payload, true, true, '0')
				if cls3 != "ok" || string(out3) != string(out) {
					orc("C06:fixpoint", fmt.Sprintf("%s first %x again %s %x", kind, out, cls3, out3))
				}
			}
		}
	}
	for k := range tags {
		res.Tags = append(res.Tags, k)
	}
	return res
}

// ---------------------------------------------------------------- generators

func ltcpHdr(sp, dp uint16, seq, ack uint32, off int, fl int, win, sum, urg uint16, opts []byte) []byte {
	h := make([]byte, 20, 20+len(opts))
	h[0], h[1] = byte(sp>>8), byte(sp)
	h[2], h[3] = byte(dp>>8), byte(dp)
	h[4], h[5], h[6], h[7] = byte(seq>>24), byte(seq>>16), byte(seq>>8), byte(seq)
	h[8], h[9], h[10], h[11] = byte(ack>>24), byte(ack>>16), byte(ack>>8), byte(ack)
	h[12] = byte(off<<4) | byte(fl>>8&1)
	h[13] = byte(fl)
	h[14], h[15] = byte(win>>8), byte(win)
	h[16], h[17] = byte(sum>>8), byte(sum)
	h[18], h[19] = byte(urg>>8), byte(urg)
	return append(h, opts...)
}

var ltcpPorts = []uint16{0, 53, 80, 443, 502, 1234, 5060, 65535}

// header with random fields whose data offset matches the option area (which must be 4-aligned)
func ltcpRandHdr(rng *rand.Rand, opts []byte) []byte {
	return ltcpHdr(ltcpPorts[rng.Intn(len(ltcpPorts))], ltcpPorts[rng.Intn(len(ltcpPorts))], rng.Uint32(), rng.Uint32(),
		5+len(opts)/4, rng.Intn(512), uint16(rng.Intn(65536)), uint16(rng.Intn(65536)), uint16(rng.Intn(65536)), opts)
}

func ltcpFill(n int, start byte) []byte {
	b := make([]byte, n)
	for i := range b {
		b[i] = start + byte(i)
	}
	return b
}

// one random generic option
func ltcpRandOpt(rng *rand.Rand) []byte {
	switch rng.Intn(8) {
	case 0:
		return []byte{1}
	case 1:
		return []byte{2, 4, byte(rng.Intn(256)), byte(rng.Intn(256))}
	case 2:
		return []byte{3, 3, byte(rng.Intn(15))}
	case 3:
		return []byte{4, 2}
	case 4:
		n := 1 + rng.Intn(2)
		return append([]byte{5, byte(2 + 8*n)}, ltcpFill(8*n, byte(rng.Intn(200)))...)
	case 5:
		return append([]byte{8, 10}, ltcpFill(8, byte(rng.Intn(200)))...)
	case 6:
		n := rng.Intn(7)
		return append([]byte{byte(200 + rng.Intn(55)), byte(2 + n)}, ltcpFill(n, 0x70)...)
	default:
		return []byte{1}
	}
}

// pad an option list to a multiple of 4 (style 0: NOPs, 1: EOL + junk, 2: zeros), at most 40 bytes
func ltcpPadOpts(rng *rand.Rand, o []byte, style int) []byte {
	for len(o) > 40 {
		o = o[:40]
	}
	if style == 1 {
		o = append(o, 0)
		for len(o)%4 != 0 {
			o = append(o, byte(1+rng.Intn(255)))
		}
		if len(o) <= 36 && rng.Intn(3) == 0 {
			o = append(o, 9, 8, 7, 6)
		}
	}
	for len(o)%4 != 0 {
		if style == 0 {
			o = append(o, 1)
		} else {
			o = append(o, 0)
		}
	}
	if len(o) > 40 {
		o = o[:40]
	}
	return o
}

func ltcpRandOpts(rng *rand.Rand, n int) []byte {
	var o []byte
	for i := 0; i < n; i++ {
		x := ltcpRandOpt(rng)
		if len(o)+len(x) > 40 {
			break
		}
		o = append(o, x...)
	}
	return ltcpPadOpts(rng, o, rng.Intn(3))
}

type ltcpNamed struct {
	name string
	b    []byte
}

func ltcpDssLen(fl int, csum bool) int {
	n := 4
	if fl&1 != 0 {
		n += 4
		if fl&2 != 0 {
			n += 4
		}
	}
	if fl&4 != 0 {
		n += 10
		if fl&8 != 0 {
			n += 4
		}
		if csum {
			n += 2
		}
	}
	return n
}

// every well-formed MPTCP option the parser accepts: all subtypes, all valid lengths, flag combinations
func ltcpValidMPTCP() []ltcpNamed {
	var out []ltcpNamed
	mk := func(name string, L int, b2, b3 byte) {
		o := []byte{30, byte(L), b2}
		if L > 3 {
			o = append(o, b3)
			o = append(o, ltcpFill(L-4, 0x11)...)
		}
		out = append(out, ltcpNamed{name, o})
	}
	for _, L := range []int{4, 12, 20, 22, 24} {
		mk("cap", L, 0x01, 0x81)
	}
	for _, L := range []int{12, 16, 24} {
		mk("join", L, 0x11, 0x07)
	}
	for fl := 0; fl < 32; fl++ {
		mk("dss", ltcpDssLen(fl, false), 0x20, byte(fl))
		if fl&4 != 0 {
			mk("dsscs", ltcpDssLen(fl, true), 0x20, byte(fl))
		}
	}
	for _, L := range []int{8, 10, 20, 22} {
		mk("add0", L, 0x34, 0x09)
		mk("add0b", L, 0x36, 0x09)
		mk("add1e", L, 0x31, 0x09)
		mk("add1h", L+8, 0x30, 0x09)
	}
	for _, L := range []int{4, 5, 8, 11} {
		mk("rem", L, 0x40, 0x01)
	}
	mk("prio", 3, 0x51, 0)
	mk("prio", 4, 0x50, 0x05)
	mk("fail", 12, 0x60, 0)
	mk("fclose", 12, 0x70, 0)
	mk("rst", 4, 0x8f, 0x03)
	for _, L := range []int{3, 4, 8} {
		mk("unk", L, 0x90, 0x03)
		mk("unk", L, 0xf0, 0x03)
	}
	return out
}

// place an (incomplete) option at the end of a 4-aligned option area: NOPs in front
func ltcpAtEnd(opt []byte) []byte {
	var area []byte
	for (len(area)+len(opt))%4 != 0 {
		area = append(area, 1)
	}
	return append(area, opt...)
}


func ltcpPHs() []string {
	return []string{"-", "4" + "0a000001" + "0a000002", "6" + "20010db8000000000000000000000001" + "20010db8000000000000000000000002",
		"4" + "ffffffff" + "ffffffff"}
}

// prepend the dispatch-table op for the ports that occur in the case
func ltcpWithTbl(ops ...string) []string {
	ports := map[uint16]bool{}
	for _, op := range ops {
		name, arg, _ := strings.Cut(op, ":")
		args := strings.Split(arg, ",")
		var hs []string
		switch name {
		case "dec", "rt":
			hs = args[:1]
		case "dec2":
			hs = args[:2]
		}
		for _, h := range hs {
			b := ltcpHex(h)
			if len(b) >= 4 {
				ports[uint16(b[0])<<8|uint16(b[1])] = true
				ports[uint16(b[2])<<8|uint16(b[3])] = true
			}
		}
	}
	var ps []int
	for p := range ports {
		ps = append(ps, int(p))
	}
	sort.Ints(ps)
	s := fmt.Sprintf("tbl:%d", int(gopacket.LayerTypePayload))
	for _, p := range ps {
		s += fmt.Sprintf(",%d=%d", p, int(layers.TCPPort(p).LayerType()))
	}
	return append([]string{s}, ops...)
}

// TCP segments found in the []byte literals of layers/*_test.go of the repository under test
func ltcpSeeds() [][]byte {
	repo := os.Getenv("VERIF_REPO")
	if repo == "" {
		repo = "/repo"
	}
	files, _ := filepath.Glob(filepath.Join(repo, "layers", "*_test.go"))
	sort.Strings(files)
	var out [][]byte
	seen := map[string]bool{}
	for _, f := range files {
		fset := token.NewFileSet()
		af, err := parser.ParseFile(fset, f, nil, 0)
		if err != nil {
			continue
		}
		ast.Inspect(af, func(n ast.Node) bool {
			cl, ok := n.(*ast.CompositeLit)
			if !ok {
				return true
			}
			at, ok := cl.Type.(*ast.ArrayType)
			if !ok || at.Len != nil {
				return true
			}
			if id, ok := at.Elt.(*ast.Ident); !ok || id.Name != "byte" {
				return true
			}
			if len(cl.Elts) < 40 {
				return true
			}
			b := make([]byte, 0, len(cl.Elts))
			for _, e := range cl.Elts {
				bl, ok := e.(*ast.BasicLit)
				if !ok {
					return true
				}
				v, err := strconv.ParseUint(bl.Value, 0, 8)
				if err != nil {
					return true
				}
				b = append(b, byte(v))
			}
			for _, first := range []gopacket.Decoder{layers.LinkTypeEthernet, layers.LinkTypeLinuxSLL2} {
				var seg []byte
				func() {
					defer func() { recover() }()
					p := gopacket.NewPacket(b, first, gopacket.Default)
					if l := p.Layer(layers.LayerTypeTCP); l != nil {
						t := l.(*layers.TCP)
						if len(t.Contents) >= 20 {
							pl := t.Payload
							if len(pl) > 16 {
								pl = pl[:16]
							}
							seg = append(append([]byte(nil), t.Contents...), pl...)
						}
					}
				}()
				if seg != nil && !seen[string(seg)] {
					seen[string(seg)] = true
					out = append(out, seg)
				}
			}
			return true
		})
	}
	return out
}

func (ltcp) Gen(rng *rand.Rand, tier string) []Case {
	var out []Case
	thorough := tier == "thorough"
	n := 0
	add := func(kind string, ops ...string) {
		n++
		out = append(out, Case{ID: fmt.Sprintf("Ltcp-%s-%d", kind, n), Prop: "Ltcp", Ops: ltcpWithTbl(ops...)})
	}
	hx := hex.EncodeToString
	payload := []byte("PAYLOADpayloadPAYLOADpayloadXYZ")
	extra := ltcpFill(40, 0xc0)

	// (a) valid headers built field by field, 0..5 options; every truncation length 0..header+options(+1)
	nv := 40
	if thorough {
		nv = 400
	}
	var valid [][]byte
	for i := 0; i < nv; i++ {
		h := ltcpRandHdr(rng, ltcpRandOpts(rng, rng.Intn(6)))
		valid = append(valid, h)
		full := append(append([]byte(nil), h...), payload[:rng.Intn(len(payload))]...)
		add("valid", "dec:"+hx(full))
		for k := 0; k <= len(h)+1 && k <= len(full); k++ {
			add("tp", "dec:"+hx(full[:k]))
		}
	}
	// (b) data offset 0..15 against lengths around the implied header size
	for off := 0; off < 16; off++ {
		for _, l := range []int{20, 4*off - 1, 4 * off, 4*off + 1, 60, 64} {
			if l < 20 {
				continue
			}
			body := ltcpFill(l-20, 1)
			for i := range body {
				body[i] = 1 // NOPs
			}
			add("off", "dec:"+hx(ltcpHdr(1234, 80, 1, 2, off, 0x12, 100, 0, 0, body)))
		}
	}
	// (c) generic options: every length byte extreme against the bytes remaining
	for _, kind := range []byte{2, 3, 4, 5, 8, 15, 29, 31, 254, 255} {
		for _, rem := range []int{1, 2, 3, 4, 8, 40} {
			for _, L := range []int{0, 1, 2, 3, rem - 1, rem, rem + 1, 41, 255} {
				if L < 0 || L > 255 {
					continue
				}
				o := make([]byte, rem)
				o[0] = kind
				if rem > 1 {
					o[1] = byte(L)
				}
				for i := 2; i < rem; i++ {
					o[i] = 1
				}
				area := ltcpAtEnd(o)
				add("ol", "dec:"+hx(ltcpHdr(1234, 80, 1, 2, 5+len(area)/4, 0x10, 100, 0, 0, area)))
			}
		}
	}
	// (d) every prefix length of every well-formed MPTCP option (all subtypes), as the last option
	//     bytes of the header: without payload, with payload behind it, with spare capacity behind it
	mps := ltcpValidMPTCP()
	for _, m := range mps {
		for k := 0; k <= len(m.b); k++ {
			area := ltcpAtEnd(m.b[:k])
			h := ltcpHdr(1234, 80, 1, 2, 5+len(area)/4, 0x10, 100, 0, 0, area)
			add("mpp", "dec:"+hx(h))
			if k < len(m.b) || thorough {
				add("mpp", "dec:"+hx(append(append([]byte(nil), h...), payload...)))
				add("mpp", "dec:"+hx(h)+","+hx(extra))
			}
		}
		// complete option followed by further options
		area := ltcpPadOpts(rng, append(append([]byte(nil), m.b...), 2, 4, 5, 0xb4), rng.Intn(3))
		add("mpv", "dec:"+hx(ltcpHdr(443, 1234, 7, 8, 5+len(area)/4, 0x18, 1, 2, 3, area)))
	}
	// (e) every subtype x every length byte 0..(max valid + 1) and 255, option area longer / exactly as long
	b2lows := []byte{0, 1, 4}
	for st := 0; st < 16; st++ {
		for L := 0; L <= 32; L++ {
			LL := L
			if L == 32 {
				LL = 255
			}
			for _, lo := range b2lows {
				if !thorough && lo == 4 && st != 3 {
					continue
				}
				o := append([]byte{30, byte(LL), byte(st<<4) | lo, 0x05}, ltcpFill(32, 0x21)...)
				add("mpl", "dec:"+hx(ltcpHdr(1234, 80, 1, 2, 5+len(o)/4, 0x10, 100, 0, 0, o)))
				// area just long enough for the declared length (rounded up with what follows cut off)
				m := LL
				if m < 3 {
					m = 3
				}
				if m <= 40 {
					area := ltcpAtEnd(o[:m])
					add("mpl", "dec:"+hx(ltcpHdr(1234, 80, 1, 2, 5+len(area)/4, 0x10, 100, 0, 0, area)))
				}
			}
		}
	}
	// DSS: every flag combination x every length byte
	for fl := 0; fl < 32; fl++ {
		for L := 0; L <= 30; L++ {
			if !thorough && fl%3 == 1 && L%2 == 1 {
				continue
			}
			o := append([]byte{30, byte(L), 0x20, byte(fl)}, ltcpFill(28, 0x31)...)
			add("mpl", "dec:"+hx(ltcpHdr(1234, 80, 1, 2, 5+len(o)/4, 0x10, 100, 0, 0, o)))
		}
	}
	// (f) reuse: first packets chosen to leave maximal residue
	resid := [][]byte{
		ltcpHdr(443, 53, 9, 9, 15, 0x1ff, 9, 9, 9, ltcpPadOpts(rng, append([]byte{2, 4, 5, 0xb4, 4, 2, 8, 10, 1, 2, 3, 4, 5, 6, 7, 8, 3, 3, 7}, 0, 0xde, 0xad, 0xbe, 0xef, 0xaa), 2)),
		ltcpHdr(443, 53, 9, 9, 6, 0x1ff, 9, 9, 9, []byte{30, 4, 0x01, 0x81}),
		ltcpHdr(443, 53, 9, 9, 7, 0x02, 9, 9, 9, []byte{30, 3, 0x51, 0, 0xaa, 0xbb, 0xcc, 0xdd}),
		ltcpHdr(443, 53, 9, 9, 6, 0x02, 9, 9, 9, []byte{30, 5, 0x01, 0x81}), // MP_CAPABLE bad length: error residue
		ltcpHdr(443, 53, 9, 9, 8, 0x02, 9, 9, 9, append([]byte{30, 12, 0x60, 0}, ltcpFill(8, 1)...)),
		ltcpHdr(443, 53, 9, 9, 7, 0x02, 9, 9, 9, []byte{1, 1, 1, 1, 1, 1, 1, 1}),
		ltcpHdr(443, 53, 9, 9, 6, 0x02, 9, 9, 9, []byte{2, 9, 1, 1}), // option length exceeds: error residue
	}
	seconds := [][]byte{
		ltcpHdr(80, 1234, 1, 2, 5, 0x10, 3, 4, 5, nil),
		append(ltcpHdr(80, 1234, 1, 2, 5, 0x10, 3, 4, 5, nil), payload...),
		ltcpHdr(80, 1234, 1, 2, 6, 0x10, 3, 4, 5, []byte{1, 1, 1, 1}),
		ltcpHdr(80, 1234, 1, 2, 6, 0x10, 3, 4, 5, []byte{2, 4, 1, 2}),
		ltcpHdr(80, 1234, 1, 2, 6, 0x10, 3, 4, 5, []byte{1, 0, 7, 7}),
		ltcpHdr(80, 1234, 1, 2, 6, 0x10, 3, 4, 5, []byte{30, 4, 0x80, 1}),
		ltcpHdr(80, 1234, 1, 2, 4, 0x10, 3, 4, 5, nil),
		ltcpHdr(80, 1234, 1, 2, 9, 0x10, 3, 4, 5, nil),
		ltcpHdr(80, 1234, 1, 2, 5, 0x10, 3, 4, 5, nil)[:19],
		ltcpHdr(80, 1234, 1, 2, 6, 0x10, 3, 4, 5, []byte{2, 0, 1, 2}),
		{},
	}
	for _, a := range resid {
		for _, b := range seconds {
			add("reuse", "dec2:"+hx(a)+","+hx(b))
		}
	}
	for i := 0; i < len(valid); i++ {
		add("reuse", "dec2:"+hx(valid[i])+","+hx(valid[(i+1)%len(valid)]))
		m := mps[rng.Intn(len(mps))]
		area := ltcpAtEnd(m.b)
		add("reuse", "dec2:"+hx(ltcpHdr(1234, 80, 1, 2, 5+len(area)/4, 0x10, 100, 0, 0, area))+","+hx(valid[i]))
	}
	// (g) serialization of decoded layers (valid ones, MPTCP ones, error residues)
	var sers [][]byte
	sers = append(sers, resid...)
	sers = append(sers, seconds[:8]...)
	for i := 0; i < len(valid) && i < 12; i++ {
		sers = append(sers, valid[i])
	}
	phs := ltcpPHs()
	pls := [][]byte{nil, []byte("x"), []byte("even"), payload}
	for i, s := range sers {
		for _, f := range []string{"0", "1"} {
			for _, cs := range []string{"0", "1"} {
				for _, d := range []string{"0", "1", "2"} {
					ph := phs[(i+len(out))%len(phs)]
					if cs == "1" && d == "0" {
						ph = phs[1+i%3]
					}
					add("ser", "ser:"+hx(s)+","+f+cs+d+","+hx(pls[rng.Intn(len(pls))])+","+ph)
				}
			}
		}
	}
	// (h) layers built from public fields: long option data, EOL in the middle, wrong lengths, any padding/offset
	blds := []string{
		"1,2,3,4,5,0,6,7,8,,",
		"65535,65535,4294967295,4294967295,255,511,65535,65535,65535,aabbcc,2.4.05b4/1.1./0.1./8.10.0102030405060708",
		"1,2,3,4,0,2,6,7,8,,1.1.",
		"1,2,3,4,5,2,6,7,8,,2.4.05",
		"1,2,3,4,5,2,6,7,8,ff,2.7.05b4/3.3.07",
		"1,2,3,4,5,2,6,7,8,,0.1./2.4.05b4",
		"1,2,3,4,5,2,6,7,8,,30.4.",
		"1,2,3,4,5,2,6,7,8,,1.9.aabb/0.0.cc",
		"1,2,3,4,5,2,6,7,8,0102030405,",
		"1,2,3,4,5,2,6,7,8,," + "254.0." + strings.Repeat("ab", 254),
		"1,2,3,4,5,2,6,7,8,," + "254.0." + strings.Repeat("ab", 255) + "/253.0." + strings.Repeat("cd", 300),
		"1,2,3,4,5,2,6,7,8,," + "5.34." + strings.Repeat("11", 32) + "/8.10.0102030405060708",
	}
	for i := 0; i < 10; i++ {
		var os []string
		for j := rng.Intn(6); j > 0; j-- {
			k := []int{0, 1, 2, 3, 8, 30, 254}[rng.Intn(7)]
			d := ltcpFill(rng.Intn(7), 0x40)
			os = append(os, fmt.Sprintf("%d.%d.%x", k, rng.Intn(12), d))
		}
		blds = append(blds, fmt.Sprintf("%d,%d,%d,%d,%d,%d,%d,%d,%d,%x,%s", rng.Intn(65536), rng.Intn(65536), rng.Uint32(), rng.Uint32(),
			rng.Intn(256), rng.Intn(512), rng.Intn(65536), rng.Intn(65536), rng.Intn(65536), ltcpFill(rng.Intn(6), 0x50), strings.Join(os, "/")))
	}
	for i, b := range blds {
		for _, fcd := range []string{"000", "010", "100", "110", "111", "112", "001", "101"} {
			add("bld", "bld:"+b, "ser:@,"+fcd+","+hx(pls[(i+len(fcd))%len(pls)])+","+phs[1+i%3])
		}
		add("bld", "bld:"+b, "ser:@,110,,-")
	}
	// (i) round trips: generic option lists with 0..5 options and every residue mod 4; MPTCP options too
	nr := 150
	if thorough {
		nr = 1500
	}
	for i := 0; i < nr; i++ {
		var o []byte
		for j := rng.Intn(6); j > 0; j-- {
			x := ltcpRandOpt(rng)
			if len(o)+len(x) <= 36 {
				o = append(o, x...)
			}
		}
		o = ltcpPadOpts(rng, o, rng.Intn(3))
		pl := payload[:rng.Intn(len(payload))]
		if i%25 == 0 {
			pl = ltcpFill(1400+rng.Intn(3), 3)
		}
		h := ltcpRandHdr(rng, o)
		add("rt", "rt:"+hx(append(h, pl...))+","+hx(pl)+","+phs[1+i%3])
	}
	for i, m := range mps {
		if !thorough && i%4 != 0 {
			continue
		}
		area := ltcpPadOpts(rng, append([]byte(nil), m.b...), 0)
		add("rtmp", "rt:"+hx(ltcpHdr(1234, 80, 1, 2, 5+len(area)/4, 0x10, 100, 0, 0, area))+",aabbcc,"+phs[1])
	}
	// (j) TCP segments taken from the repository's test packets: whole, every truncation, length bytes forced
	seeds := ltcpSeeds()
	for i, s := range seeds {
		if !thorough && i >= 60 {
			break
		}
		add("seed", "dec:"+hx(s))
		hl := int(s[12]>>4) * 4
		if hl > len(s) {
			hl = len(s)
		}
		add("seedrt", "rt:"+hx(s)+","+hx(s[hl:])+","+phs[1+i%3])
		add("seedser", "ser:"+hx(s)+",111,"+hx(s[hl:])+","+phs[1+i%3])
		if i < 12 || thorough {
			for k := 0; k <= hl; k++ {
				add("tp", "dec:"+hx(s[:k]))
			}
			for j := 20; j < hl; j++ { // every option-area byte forced to 0, 1, 30, 255
				for _, v := range []byte{0, 1, 30, 255} {
					m := append([]byte(nil), s...)
					m[j] = v
					add("ol", "dec:"+hx(m))
				}
			}
			for _, off := range []byte{0, 4, 5, 6, 15} {
				m := append([]byte(nil), s...)
				m[12] = m[12]&0x0f | off<<4
				add("off", "dec:"+hx(m))
			}
		}
	}
	// (k) malformed stream
	nm := 300
	if thorough {
		nm = 5000
	}
	for i := 0; i < nm; i++ {
		l := rng.Intn(70)
		b := make([]byte, l)
		rng.Read(b)
		if l > 12 && rng.Intn(3) > 0 {
			b[12] = byte(5+rng.Intn(6))<<4 | b[12]&1
		}
		for j := 20; j < l; j++ {
			switch rng.Intn(6) {
			case 0:
				b[j] = 30
			case 1:
				b[j] = byte(rng.Intn(9))
			case 2:
				b[j] = byte(rng.Intn(16)) << 4
			}
		}
		if rng.Intn(4) == 0 {
			add("mal", "dec:"+hx(b)+","+hx(extra[:rng.Intn(len(extra))]))
		} else {
			add("mal", "dec:"+hx(b))
		}
		if i%5 == 0 {
			add("mal", "ser:"+hx(b)+",11"+strconv.Itoa(rng.Intn(3))+",0102,"+phs[1])
		}
	}
	return out
}
