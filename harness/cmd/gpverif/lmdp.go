package main

// Lmdp: layers/mdp.go codec sub-check (C19, C05, C07, C01 for MDP; C06 is a known finding: SerializeTo writes nothing).
// Ops: dec dec2 ser rt (lmisc_common.go) plus G:<kind>,<hex of the text>,<result> facts for the model only: the results of
// strconv.ParseFloat (kind f: float64 bits in hex), net.ParseIP (kind i: hex of the 16 octets, or - for nil) and
// strconv.ParseBool (kind b: 0|1) on every text the decoder could hand them (library functions: abstract in the model).

import (
	"fmt"
	"math"
	"math/rand"
	"net"
	"strconv"
	"strings"

	"github.com/gopacket/gopacket"
	"github.com/gopacket/gopacket/layers"
)

type lmdp struct{}

func init() { register("Lmdp", lmdp{}) }

var lmdpDesc = &lmDesc{
	id: "Lmdp", name: "MDP", ser: true,
	fresh: func() gopacket.Layer { return &layers.MDP{} },
	decode: func(l gopacket.Layer, data []byte, fb gopacket.DecodeFeedback) error {
		return l.(*layers.MDP).DecodeFromBytes(data, fb)
	},
	fields: func(l gopacket.Layer) string {
		m := l.(*layers.MDP)
		ip := "-"
		if m.IPAddress != nil {
			ip = lnHex(m.IPAddress)
		}
		return fmt.Sprintf("pre=%s;di=%s;ni=%s;lon=%x;lat=%x;t6=%s;t7=%s;ip=%s;b13=%s;type=%d;len=%d", lnHex(m.PreambleData), lnHex([]byte(m.DeviceInfo)),
			lnHex([]byte(m.NetworkInfo)), math.Float64bits(m.Longitude), math.Float64bits(m.Latitude), lnHex([]byte(m.Type6UUID)), lnHex([]byte(m.Type7UUID)), ip,
			lnB(m.Type13Bool), uint16(m.Type), m.Length)
	},
	next: func(l gopacket.Layer, _ *lmBuilder) string {
		m := l.(*layers.MDP)
		if m.NextLayerType() != m.Type.LayerType() {
			return "mismatch"
		}
		return fmt.Sprintf("t%d", uint16(m.Type))
	},
	extra: func(l gopacket.Layer) []func() {
		m := l.(*layers.MDP)
		return []func(){func() { _ = m.IPAddress.String(); _ = m.Type.String(); _ = m.CanDecode() }}
	},
	tags: func(l gopacket.Layer, cls string, data []byte) []string {
		m := l.(*layers.MDP)
		var t []string
		if cls == "ok" && (m.DeviceInfo != "" || m.NetworkInfo != "") {
			t = append(t, "string-tlvs")
		}
		if cls == "ok" && (m.Longitude != 0 || m.Latitude != 0) {
			t = append(t, "float-tlvs")
		}
		if cls == "ok" && m.IPAddress != nil {
			t = append(t, "ip-tlv")
		}
		if cls == "ok" && m.Type13Bool {
			t = append(t, "bool-tlv")
		}
		if cls == "err" && len(data) >= 28 {
			t = append(t, "error-after-fields-set")
		}
		return t
	},
}

var lmdpDecf = lsDecfCfg{d: lmdpDesc, lt: layers.LayerTypeMDP, next: func(l gopacket.Layer, b *lmBuilder) string {
	m := l.(*layers.MDP)
	if b.next == gopacket.Decoder(m.Type.LayerType()) {
		return fmt.Sprintf("t%d", uint16(m.Type))
	}
	return fmt.Sprintf("other%v", b.next)
}}

func (lmdp) Run(c Case) Result {
	if lsHasDecf(c) {
		return lsRunDecf(lmdpDecf, c)
	}
	return lmRun(lmdpDesc, c)
}

// mdpFacts: G facts for every (offset, length octet) position of a packet whose type octet selects a parsed text
func mdpFacts(seen map[string]bool, data []byte) (out []string) {
	for i := 28; i+2 <= len(data); i++ {
		end := i + 2 + int(data[i+1])
		if end > len(data) {
			continue
		}
		s := string(data[i+2 : end])
		var f string
		switch data[i] {
		case 4, 5:
			v, _ := strconv.ParseFloat(s, 64)
			f = fmt.Sprintf("G:f,%s,%x", lnHex([]byte(s)), math.Float64bits(v))
		case 11:
			ip := net.ParseIP(s)
			r := "-"
			if ip != nil {
				r = lnHex(ip)
			}
			f = fmt.Sprintf("G:i,%s,%s", lnHex([]byte(s)), r)
		case 13:
			v, _ := strconv.ParseBool(s)
			f = fmt.Sprintf("G:b,%s,%s", lnHex([]byte(s)), lnB(v))
		default:
			continue
		}
		if !seen[f] {
			seen[f] = true
			out = append(out, f)
		}
	}
	return
}

type mdpTLV struct {
	t   int
	lf  int // length octet, -1 = right
	val []byte
}

func mdpBuild(rng *rand.Rand, tlvs []mdpTLV, end bool, trail int) []byte {
	p := lnRandBytes(rng, 28)
	for _, x := range tlvs {
		lf := x.lf
		if lf < 0 {
			lf = len(x.val)
		}
		p = append(p, byte(x.t), byte(lf))
		p = append(p, x.val...)
	}
	if end {
		p = append(p, 255)
	}
	return append(p, lnRandBytes(rng, trail)...)
}

var mdpTexts = map[int][]string{
	2:  {"MR18", "", "Meraki MR42 Cloud Managed AP", "x"},
	3:  {"net-1", "", "corp"},
	4:  {"-122.4194", "0", "1e400", "nan", "-inf", "abc", "", "0x1p-2", "1_000.5", "4.9e-324", ".5", "+7"},
	5:  {"37.7749", "-0", "1e-400", "Inf", "37,7", "", "3.4028235e38", "00012"},
	6:  {"00112233-4455-6677-8899-aabbccddeeff", ""},
	7:  {"ffffffff-ffff-ffff-ffff-ffffffffffff", "z"},
	11: {"192.168.1.10", "::1", "fe80::1%eth0", "256.1.1.1", "", "1.2.3", "2001:db8::ff00:42:8329", "::ffff:10.0.0.1", "010.1.1.1"},
	13: {"true", "false", "1", "0", "T", "TRUE", "yes", "", "t", "F"},
}

func (lmdp) Gen(rng *rand.Rand, tier string) []Case {
	types := []int{2, 3, 4, 5, 6, 7, 11, 13, 0, 1, 8, 9, 10, 12, 14, 254}
	text := func(t int) []byte {
		if c, ok := mdpTexts[t]; ok && rng.Intn(8) != 0 {
			return []byte(c[rng.Intn(len(c))])
		}
		return lnRandBytes(rng, lnPick(rng, 0, 1, 3, 8))
	}
	tlvs := func(k int) []mdpTLV {
		var out []mdpTLV
		for ; k > 0; k-- {
			t := types[rng.Intn(len(types))]
			out = append(out, mdpTLV{t, -1, text(t)})
		}
		return out
	}
	full := func() []mdpTLV {
		var out []mdpTLV
		for _, t := range []int{2, 3, 4, 5, 6, 7, 11, 13} {
			out = append(out, mdpTLV{t, -1, []byte(mdpTexts[t][0])})
		}
		return out
	}
	valid := func(rng *rand.Rand) []byte {
		return mdpBuild(rng, tlvs(lnPick(rng, 0, 1, 2, 3, 5, 8)), rng.Intn(3) != 0, lnPick(rng, 0, 0, 0, 3))
	}
	residue := func(rng *rand.Rand) []byte { return mdpBuild(rng, full(), true, 0) }
	g := lmGenCfg{
		valid:   valid,
		hdrLen:  func(p []byte) int { return len(p) },
		residue: residue,
		seeds:   append(lnEthSeeds(0x0712), lsSnapSeeds(0x0712)...),
		n:       40,
		extra: func(rng *rand.Rand, add func(ops ...string)) {
			// every type octet 0..255 with a 3-octet value, alone and after a device-info item
			for t := 0; t < 256; t++ {
				p := mdpBuild(rng, []mdpTLV{{t, -1, []byte("1.5")}}, true, 0)
				add("tag:type-every-value", "dec:"+lnHex(p))
				add("tag:type-every-value", "dec2:"+lnHex(residue(rng))+","+lnHex(p))
			}
			// length octet 0, 1, right, off by one, 255 for every known type, as the last item and followed by another
			for _, t := range []int{2, 3, 4, 5, 6, 7, 11, 13, 9} {
				for _, present := range []int{0, 1, 4} {
					for _, lf := range []int{0, 1, present - 1, present, present + 1, present + 2, 254, 255} {
						if lf < 0 {
							continue
						}
						v := []byte("1.25")[:present]
						p := mdpBuild(rng, []mdpTLV{{2, -1, []byte("AP")}, {t, lf, v}}, false, 0)
						add("tag:tlv-length-extreme", "dec:"+lnHex(p))
						add("tag:tlv-length-extreme", "dec2:"+lnHex(residue(rng))+","+lnHex(p))
						add("tag:tlv-length-extreme", "ser:"+lnHex(p)+",111,45")
						q := mdpBuild(rng, []mdpTLV{{t, lf, v}, {3, -1, []byte("n")}}, true, 0)
						add("tag:tlv-length-extreme", "dec:"+lnHex(q))
					}
				}
			}
			// a type octet as the very last octet (item header cut), 28..30 octets
			for _, t := range []int{2, 4, 11, 13, 0, 255} {
				p := append(mdpBuild(rng, tlvs(lnPick(rng, 0, 1)), false, 0), byte(t))
				add("tag:tlv-header-cut", "dec:"+lnHex(p))
				add("tag:tlv-header-cut", "dec2:"+lnHex(residue(rng))+","+lnHex(p))
			}
			for k := 26; k <= 31; k++ {
				add("tag:length-extreme", "dec:"+lnHex(lnRandBytes(rng, k)))
			}
			// every text of the table for its type (parsers at their corner cases)
			for t, c := range mdpTexts {
				for _, s := range c {
					p := mdpBuild(rng, []mdpTLV{{t, -1, []byte(s)}}, true, 0)
					add("tag:text-corner-case", "dec:"+lnHex(p))
					add("tag:text-corner-case", "dec2:"+lnHex(residue(rng))+","+lnHex(p))
				}
			}
			// stale state: all items then none / a failing packet then an empty one
			for i := 0; i < 10; i++ {
				add("tag:residue-all-fields", "dec2:"+lnHex(residue(rng))+","+lnHex(mdpBuild(rng, nil, true, 0)))
				bad := mdpBuild(rng, append(full(), mdpTLV{3, 200, []byte("x")}), false, 0)
				add("tag:residue-after-error-fields", "dec2:"+lnHex(bad)+","+lnHex(mdpBuild(rng, tlvs(1), true, 0)))
			}
			// the registered decoder decodeMDP on valid, cut and malformed frames
			for i := 0; i < 40; i++ {
				q := valid(rng)
				add("decf:" + lnHex(q))
				add("tag:truncated-prefix-of-valid", "decf:"+lnHex(q[:rng.Intn(len(q)+1)]))
			}
			// end marker: items after it are ignored
			p := mdpBuild(rng, []mdpTLV{{2, -1, []byte("a")}}, true, 0)
			p = append(p, 3, 1, 'b', 4, 200)
			add("tag:after-end-marker", "dec:"+lnHex(p))
		},
	}
	cases := lmGen(lmdpDesc, g, rng, tier)
	// SerializeTo writes nothing (known finding Lmdp-C06-serialize-writes-nothing, witness in corpus/Lmdp): no round-trip cases beyond
	// the witnesses; every case gets the parser facts for its packets
	var out []Case
	for _, c := range cases {
		isRt := false
		seen := map[string]bool{}
		var facts []string
		for _, op := range c.Ops {
			name, a := lnOp(op)
			switch name {
			case "rt", "rtn":
				isRt = true
			case "dec", "ser", "decf":
				facts = append(facts, mdpFacts(seen, lnUnhex(a[0]))...)
			case "dec2":
				facts = append(facts, mdpFacts(seen, lnUnhex(a[0]))...)
				facts = append(facts, mdpFacts(seen, lnUnhex(a[1]))...)
			}
		}
		if isRt {
			continue
		}
		c.Ops = append(facts, c.Ops...)
		out = append(out, c)
	}
	return out
}

var _ = strings.Join
