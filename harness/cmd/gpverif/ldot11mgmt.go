package main

// Ldot11mgmt: 802.11 management frame bodies with fixed parts and Dot11InformationElement (layers/dot11.go):
// codec sub-check (C19, C05, C06, C07, C01).  The first op selects the layer: L:ie or L:<kind> with kind in
// assocreq assocresp reassocreq proberesp beacon disassoc auth deauth; then dec dec2 ser rt new rtn (lmisc_common.go)
//   ie spec:   <id>.<len>.<ouihex|->.<infohex|->.<ext>
//   body spec: the fields' octets as on the wire (little-endian), hex joined by "." ("-" = empty)
// and  walk:<hex>  (bodies followed by elements): the whole body decoded as a packet starting at the body's layer type;
// obs: class, truncated, the body's fields, every Dot11InformationElement layer in order.

import (
	"encoding/binary"
	"fmt"
	"math/rand"
	"net"
	"strings"

	"github.com/gopacket/gopacket"
	"github.com/gopacket/gopacket/layers"
)

type ldot11mgmt struct{}

func init() { register("Ldot11mgmt", ldot11mgmt{}) }

var ldot11ieDesc = &lmDesc{
	id: "Ldot11mgmt", name: "Dot11InformationElement", ser: true,
	fresh: func() gopacket.Layer { return &layers.Dot11InformationElement{} },
	decode: func(l gopacket.Layer, data []byte, fb gopacket.DecodeFeedback) error {
		return l.(*layers.Dot11InformationElement).DecodeFromBytes(data, fb)
	},
	fields: func(l gopacket.Layer) string {
		e := l.(*layers.Dot11InformationElement)
		return fmt.Sprintf("id=%d;len=%d;oui=%s;info=%s;ext=%d", e.ID, e.Length, lnHex(e.OUI), lnHex(e.Info), e.ExtensionID)
	},
	next: func(l gopacket.Layer, _ *lmBuilder) string { return fmt.Sprint(l.(*layers.Dot11InformationElement).NextLayerType()) },
	fromSpec: func(spec string) gopacket.Layer {
		f := strings.Split(spec, ".")
		b := func(s string) []byte {
			if s == "-" {
				return nil
			}
			return lnUnhex(s)
		}
		return &layers.Dot11InformationElement{ID: layers.Dot11InformationElementID(lnAtoi(f[0])), Length: uint8(lnAtoi(f[1])), OUI: b(f[2]), Info: b(f[3]),
			ExtensionID: layers.Dot11InformationElementExtId(lnAtoi(f[4]))}
	},
	// C06 hypothesis: vendor elements have a 4 octet OUI, others none; the extension ID only on ID 255; at most 255 octets
	inDomain: func(l gopacket.Layer, _ []byte) bool {
		e := l.(*layers.Dot11InformationElement)
		n := len(e.Info)
		switch e.ID {
		case 221:
			return len(e.OUI) == 4 && n+4 <= 255 && e.ExtensionID == 0
		case 255:
			return len(e.OUI) == 0 && n+1 <= 255
		}
		return len(e.OUI) == 0 && n <= 255 && e.ExtensionID == 0
	},
	// Length is recomputed by SerializeTo on its value receiver: compare the other fields, the re-read Length is checked by the model
	rtFields: func(l gopacket.Layer) string {
		e := l.(*layers.Dot11InformationElement)
		return fmt.Sprintf("id=%d;oui=%s;info=%s;ext=%d", e.ID, lnHex(e.OUI), lnHex(e.Info), e.ExtensionID)
	},
	tags: func(l gopacket.Layer, cls string, data []byte) []string {
		e := l.(*layers.Dot11InformationElement)
		var t []string
		if cls == "ok" && e.ID == 221 {
			t = append(t, "vendor-element")
		}
		if cls == "ok" && e.ID == 255 {
			t = append(t, "extension-element")
		}
		if cls == "err" && len(data) >= 2 {
			t = append(t, "error-after-fields-set")
		}
		return t
	},
}

type mgKind struct {
	name   string
	widths []int
	setsp  bool
	lt     gopacket.LayerType
	fresh  func() gopacket.Layer
}

var mgKinds = []mgKind{
	{"assocreq", []int{2, 2}, true, layers.LayerTypeDot11MgmtAssociationReq, func() gopacket.Layer { return &layers.Dot11MgmtAssociationReq{} }},
	{"assocresp", []int{2, 2, 2}, true, layers.LayerTypeDot11MgmtAssociationResp, func() gopacket.Layer { return &layers.Dot11MgmtAssociationResp{} }},
	{"reassocreq", []int{2, 2, 6}, true, layers.LayerTypeDot11MgmtReassociationReq, func() gopacket.Layer { return &layers.Dot11MgmtReassociationReq{} }},
	{"proberesp", []int{8, 2, 2}, true, layers.LayerTypeDot11MgmtProbeResp, func() gopacket.Layer { return &layers.Dot11MgmtProbeResp{} }},
	{"beacon", []int{8, 2, 2}, true, layers.LayerTypeDot11MgmtBeacon, func() gopacket.Layer { return &layers.Dot11MgmtBeacon{} }},
	{"disassoc", []int{2}, false, layers.LayerTypeDot11MgmtDisassociation, func() gopacket.Layer { return &layers.Dot11MgmtDisassociation{} }},
	{"auth", []int{2, 2, 2}, true, layers.LayerTypeDot11MgmtAuthentication, func() gopacket.Layer { return &layers.Dot11MgmtAuthentication{} }},
	{"deauth", []int{2}, false, layers.LayerTypeDot11MgmtDeauthentication, func() gopacket.Layer { return &layers.Dot11MgmtDeauthentication{} }},
}

func mgLE(v uint64, n int) []byte {
	b := make([]byte, 8)
	binary.LittleEndian.PutUint64(b, v)
	return b[:n]
}

// the fixed fields of a body as their octets on the wire
func mgFieldBytes(l gopacket.Layer) [][]byte {
	switch m := l.(type) {
	case *layers.Dot11MgmtAssociationReq:
		return [][]byte{mgLE(uint64(m.CapabilityInfo), 2), mgLE(uint64(m.ListenInterval), 2)}
	case *layers.Dot11MgmtAssociationResp:
		return [][]byte{mgLE(uint64(m.CapabilityInfo), 2), mgLE(uint64(m.Status), 2), mgLE(uint64(m.AID), 2)}
	case *layers.Dot11MgmtReassociationReq:
		return [][]byte{mgLE(uint64(m.CapabilityInfo), 2), mgLE(uint64(m.ListenInterval), 2), []byte(m.CurrentApAddress)}
	case *layers.Dot11MgmtProbeResp:
		return [][]byte{mgLE(m.Timestamp, 8), mgLE(uint64(m.Interval), 2), mgLE(uint64(m.Flags), 2)}
	case *layers.Dot11MgmtBeacon:
		return [][]byte{mgLE(m.Timestamp, 8), mgLE(uint64(m.Interval), 2), mgLE(uint64(m.Flags), 2)}
	case *layers.Dot11MgmtDisassociation:
		return [][]byte{mgLE(uint64(m.Reason), 2)}
	case *layers.Dot11MgmtAuthentication:
		return [][]byte{mgLE(uint64(m.Algorithm), 2), mgLE(uint64(m.Sequence), 2), mgLE(uint64(m.Status), 2)}
	case *layers.Dot11MgmtDeauthentication:
		return [][]byte{mgLE(uint64(m.Reason), 2)}
	}
	panic("mgFieldBytes")
}

func mgU(b []byte) uint64 {
	var v uint64
	for i := len(b) - 1; i >= 0; i-- {
		v = v<<8 | uint64(b[i])
	}
	return v
}

func mgFromFields(kind string, f [][]byte) gopacket.Layer {
	switch kind {
	case "assocreq":
		return &layers.Dot11MgmtAssociationReq{CapabilityInfo: uint16(mgU(f[0])), ListenInterval: uint16(mgU(f[1]))}
	case "assocresp":
		return &layers.Dot11MgmtAssociationResp{CapabilityInfo: uint16(mgU(f[0])), Status: layers.Dot11Status(mgU(f[1])), AID: uint16(mgU(f[2]))}
	case "reassocreq":
		var a net.HardwareAddr
		if len(f[2]) > 0 {
			a = net.HardwareAddr(f[2])
		}
		return &layers.Dot11MgmtReassociationReq{CapabilityInfo: uint16(mgU(f[0])), ListenInterval: uint16(mgU(f[1])), CurrentApAddress: a}
	case "proberesp":
		return &layers.Dot11MgmtProbeResp{Timestamp: mgU(f[0]), Interval: uint16(mgU(f[1])), Flags: uint16(mgU(f[2]))}
	case "beacon":
		return &layers.Dot11MgmtBeacon{Timestamp: mgU(f[0]), Interval: uint16(mgU(f[1])), Flags: uint16(mgU(f[2]))}
	case "disassoc":
		return &layers.Dot11MgmtDisassociation{Reason: layers.Dot11Reason(mgU(f[0]))}
	case "auth":
		return &layers.Dot11MgmtAuthentication{Algorithm: layers.Dot11Algorithm(mgU(f[0])), Sequence: uint16(mgU(f[1])), Status: layers.Dot11Status(mgU(f[2]))}
	case "deauth":
		return &layers.Dot11MgmtDeauthentication{Reason: layers.Dot11Reason(mgU(f[0]))}
	}
	panic("mgFromFields " + kind)
}

func mgFieldsStr(l gopacket.Layer) string {
	f := mgFieldBytes(l)
	s := make([]string, len(f))
	for i := range f {
		s[i] = lnHex(f[i])
	}
	return "f=" + strings.Join(s, ".")
}

var mgDescs = map[string]*lmDesc{}

func mgDesc(k mgKind) *lmDesc {
	if d, ok := mgDescs[k.name]; ok {
		return d
	}
	d := &lmDesc{
		id: "Ldot11mgmt", name: "Dot11Mgmt-" + k.name, ser: true,
		fresh: k.fresh,
		decode: func(l gopacket.Layer, data []byte, fb gopacket.DecodeFeedback) error {
			return l.(gopacket.DecodingLayer).DecodeFromBytes(data, fb)
		},
		fields: mgFieldsStr,
		next:   func(l gopacket.Layer, _ *lmBuilder) string { return fmt.Sprint(l.(gopacket.DecodingLayer).NextLayerType()) },
		fromSpec: func(spec string) gopacket.Layer {
			var f [][]byte
			for _, h := range strings.Split(spec, ".") {
				if h == "-" {
					f = append(f, nil)
				} else {
					f = append(f, lnUnhex(h))
				}
			}
			return mgFromFields(k.name, f)
		},
		// C06: the address of a reassociation request has 6 octets
		inDomain: func(l gopacket.Layer, _ []byte) bool {
			if r, ok := l.(*layers.Dot11MgmtReassociationReq); ok {
				return len(r.CurrentApAddress) == 6
			}
			return true
		},
	}
	if !k.setsp { // Disassociation and Deauthentication do not set Payload
		d.rtPayload = func(gopacket.Layer, []byte) []byte { return nil }
	}
	mgDescs[k.name] = d
	return d
}

func mgWalk(k mgKind, data []byte) (obs string, oracle []string) {
	cls := "ok"
	var pkt gopacket.Packet
	func() {
		defer func() {
			if recover() != nil {
				cls = "panic"
			}
		}()
		pkt = gopacket.NewPacket(lnCopy(data), k.lt, gopacket.DecodeOptions{SkipDecodeRecovery: true})
	}()
	if cls == "panic" {
		return "cls=panic", []string{"C19:panic\tdecoding a " + k.name + " body with its elements panicked"}
	}
	if pkt.ErrorLayer() != nil {
		cls = "err"
	}
	body := "f="
	var ies []string
	for i, l := range pkt.Layers() {
		if i == 0 && l.LayerType() == k.lt {
			body = mgFieldsStr(l)
		}
		if e, ok := l.(*layers.Dot11InformationElement); ok {
			ies = append(ies, fmt.Sprintf("%d~%d~%s~%s~%d", e.ID, e.Length, lnHex(e.OUI), lnHex(e.Info), e.ExtensionID))
			if lnClassStr(func() string { return e.String() }) == "panic" {
				oracle = append(oracle, "C01:render-panic\tDot11InformationElement.String panicked")
			}
		}
	}
	if lnClassStr(func() string { return pkt.String() + pkt.Dump() }) == "panic" {
		oracle = append(oracle, "C01:render-panic\tpacket String/Dump panicked")
	}
	if cls != "ok" && len(pkt.Layers()) == 1 { // the body itself was rejected: nothing of it is a layer, the model reports its zero fields
		body = mgFieldsStr(k.fresh())
	}
	is := "-"
	if len(ies) > 0 {
		is = strings.Join(ies, "+")
	}
	return fmt.Sprintf("cls=%s;tr=%s;%s;ies=%s", cls, lnB(pkt.Metadata().Truncated), body, is), oracle
}

func (ldot11mgmt) Run(c Case) (res Result) {
	if len(c.Ops) == 0 || !strings.HasPrefix(c.Ops[0], "L:") {
		panic("Ldot11mgmt: first op must be L:<layer>")
	}
	kind := c.Ops[0][2:]
	rest := Case{Prop: c.Prop, Ops: c.Ops[1:]}
	if kind == "ie" {
		return lmRun(ldot11ieDesc, rest)
	}
	for _, k := range mgKinds {
		if k.name != kind {
			continue
		}
		var plain []string
		for _, op := range rest.Ops {
			if strings.HasPrefix(op, "walk:") {
				o, orc := mgWalk(k, lnUnhex(op[5:]))
				res.Obs = append(res.Obs, o)
				res.Oracle = append(res.Oracle, orc...)
				res.Tags = append(res.Tags, "element-walk")
				if strings.HasPrefix(o, "cls=err") && strings.Contains(o, "ies=-") == false {
					res.Tags = append(res.Tags, "error-after-add")
				}
			} else {
				plain = append(plain, op)
			}
		}
		if len(res.Obs) > 0 {
			for _, op := range plain {
				if strings.HasPrefix(op, "tag:") {
					res.Tags = append(res.Tags, op[4:])
				}
			}
			return res
		}
		return lmRun(mgDesc(k), rest)
	}
	panic("Ldot11mgmt: unknown layer " + kind)
}

// ieBuild: one element with the given ID whose Length field says `decl` and which carries `have` octets
func ieBuild(rng *rand.Rand, id, decl, have int) []byte {
	return append([]byte{byte(id), byte(decl)}, lnRandBytes(rng, have)...)
}

func ieList(rng *rand.Rand, n int) []byte {
	var out []byte
	for i := 0; i < n; i++ {
		k := lnPick(rng, 0, 1, 3, 4, 5, 8, 32)
		out = append(out, ieBuild(rng, lnPick(rng, 0, 1, 3, 48, 221, 221, 255, 255, rng.Intn(256)), k, k)...)
	}
	return out
}

func (ldot11mgmt) Gen(rng *rand.Rand, tier string) []Case {
	var out []Case
	pre := func(kind string, cs []Case) {
		for _, c := range cs {
			out = append(out, Case{Prop: "Ldot11mgmt", Ops: append([]string{"L:" + kind}, c.Ops...)})
		}
	}
	hx := lnHex
	// ---- information elements
	ieg := lmGenCfg{
		valid: func(rng *rand.Rand) []byte {
			k := lnPick(rng, 0, 1, 3, 4, 5, 8, 32, 255)
			e := ieBuild(rng, lnPick(rng, 0, 1, 3, 48, 221, 221, 255, 255, rng.Intn(256)), k, k)
			return append(e, ieList(rng, lnPick(rng, 0, 0, 1, 2))...)
		},
		hdrLen: func(p []byte) int {
			if len(p) < 2 {
				return len(p)
			}
			return 2 + int(p[1])
		},
		residue: func(rng *rand.Rand) []byte { // a vendor or an extension element: OUI / ExtensionID set
			if rng.Intn(2) == 0 {
				return ieBuild(rng, 221, 9, 9)
			}
			return append(ieBuild(rng, 255, 5, 5), 1, 2)
		},
		n: 60,
		spec: func(rng *rand.Rand) string {
			id := lnPick(rng, 0, 1, 221, 221, 255, 255, rng.Intn(256))
			ol := 0
			if id == 221 {
				ol = 4
			}
			ol = lnPick(rng, ol, ol, ol, ol, 0, 3, 4, 5)
			il := lnPick(rng, 0, 1, 4, 32, 250, 251, 252, 254, 255, 256, 300)
			h := func(n int) string {
				if n == 0 {
					return "-"
				}
				return hx(lnRandBytes(rng, n))
			}
			ext := 0
			if id == 255 || rng.Intn(6) == 0 {
				ext = rng.Intn(256)
			}
			return fmt.Sprintf("%d.%d.%s.%s.%d", id, lnPick(rng, 0, il%256, 255), h(ol), h(il), ext)
		},
		extra: func(rng *rand.Rand, add func(ops ...string)) {
			// length field 0,1,3,4,5,254,255 against one octet less / exact / one more present, for ordinary, vendor and extension IDs;
			// consistent-length cuts: the element ends exactly at every internal boundary (after ID, length, OUI, extension ID)
			for _, id := range []int{0, 7, 221, 255} {
				for _, decl := range []int{0, 1, 2, 3, 4, 5, 6, 254, 255} {
					for _, d := range []int{-1, 0, 1, 7} {
						if decl+d < 0 {
							continue
						}
						p := ieBuild(rng, id, decl, decl+d)
						add("tag:option-length-extreme", "dec:"+hx(p))
						add("tag:option-length-extreme", "dec2:"+hx(ieBuild(rng, lnPick(rng, 221, 255), 8, 8))+","+hx(p))
						add("tag:option-length-extreme", "tag:error-residue", "ser:"+hx(p)+","+lnFCD[rng.Intn(len(lnFCD))]+",0102")
						if d >= 0 {
							add("tag:option-length-extreme", "rt:"+hx(p)+","+hx(lnRandBytes(rng, lnPick(rng, 0, 1, 5))))
						}
					}
				}
			}
			// decode a vendor / extension element, then an ordinary one into the same object, and serialize it
			for i := 0; i < 20; i++ {
				add("tag:residue-options", "dec2:"+hx(ieBuild(rng, lnPick(rng, 221, 255), 9, 9))+","+hx(ieBuild(rng, lnPick(rng, 0, 1, 48), 4, 4)))
			}
		},
	}
	for _, s := range lnSeeds() { // beacon bodies of the test-file literals: elements after radiotap + 24 octet header + 12 octet body
		if len(s) > 80 && s[0] == 0 && s[1] == 0 && s[3] == 0 {
			if n := int(binary.LittleEndian.Uint16(s[2:])); n >= 8 && n+40 < len(s) && s[n] == 0x80 {
				ieg.seeds = append(ieg.seeds, s[n+36:])
			}
		}
	}
	pre("ie", lmGen(ldot11ieDesc, ieg, rng, tier))
	// ---- bodies
	for _, k := range mgKinds {
		k := k
		total := 0
		for _, w := range k.widths {
			total += w
		}
		g := lmGenCfg{
			valid:  func(rng *rand.Rand) []byte { return append(lnRandBytes(rng, total), ieList(rng, lnPick(rng, 0, 1, 3))...) },
			hdrLen: func(p []byte) int { return total },
			n:      10,
			spec: func(rng *rand.Rand) string {
				s := make([]string, len(k.widths))
				for i, w := range k.widths {
					if w == 6 {
						w = lnPick(rng, 6, 6, 6, 0, 1, 5, 7, 8)
					}
					if w == 0 {
						s[i] = "-"
					} else {
						s[i] = hx(lnRandBytes(rng, w))
					}
				}
				return strings.Join(s, ".")
			},
			extra: func(rng *rand.Rand, add func(ops ...string)) {
				if !k.setsp {
					return
				}
				// the element walk: bodies followed by 0..5 elements; the list cut at every length (plain truncation) and
				// with the last element's length rewritten so that it ends exactly at every boundary (consistent-length cut)
				for i := 0; i < 12; i++ {
					body := lnRandBytes(rng, total)
					ies := ieList(rng, lnPick(rng, 0, 1, 2, 3, 5))
					p := append(lnCopy(body), ies...)
					add("walk:" + hx(p))
					if i < 4 {
						for cut := 0; cut <= len(p); cut++ {
							if cut > total+40 && cut%7 != 0 {
								continue
							}
							add("tag:truncated-prefix-of-valid", "walk:"+hx(p[:cut]))
						}
					}
				}
				for _, id := range []int{0, 221, 255} {
					for decl := 0; decl <= 6; decl++ {
						for have := 0; have <= 6; have++ {
							p := append(lnRandBytes(rng, total), ieBuild(rng, 1, 2, 2)...)
							p = append(p, ieBuild(rng, id, decl, have)...)
							add("tag:consistent-length-cut", "walk:"+hx(p))
							add("tag:consistent-length-cut", "walk:"+hx(append(p, ieBuild(rng, 3, 1, 1)...)))
						}
					}
				}
				// many empty elements (the walk's fuel bound)
				add("tag:max-options", "walk:"+hx(append(lnRandBytes(rng, total), make([]byte, 400)...)))
			},
		}
		pre(k.name, lmGen(mgDesc(k), g, rng, tier))
	}
	return out
}
