package main

// Lvxlan: layers/vxlan.go codec sub-check (C19, C05, C06, C07, C01 for VXLAN).
// Ops: dec dec2 ser rt (lmisc_common.go) plus new:<I>.<vni>.<G>.<D>.<A>.<policy>,<fcd>,<payloadhex> and rtn: likewise

import (
	"fmt"
	"math/rand"
	"strings"

	"github.com/gopacket/gopacket"
	"github.com/gopacket/gopacket/layers"
)

type lvxlan struct{}

func init() { register("Lvxlan", lvxlan{}) }

var lvxlanDesc = &lmDesc{
	id: "Lvxlan", name: "VXLAN", ser: true,
	fresh: func() gopacket.Layer { return &layers.VXLAN{} },
	decode: func(l gopacket.Layer, data []byte, fb gopacket.DecodeFeedback) error {
		return l.(*layers.VXLAN).DecodeFromBytes(data, fb)
	},
	fields: func(l gopacket.Layer) string {
		v := l.(*layers.VXLAN)
		return fmt.Sprintf("i=%s;vni=%d;g=%s;d=%s;a=%s;pol=%d", lnB(v.ValidIDFlag), v.VNI, lnB(v.GBPExtension), lnB(v.GBPDontLearn), lnB(v.GBPApplied), v.GBPGroupPolicyID)
	},
	next: func(l gopacket.Layer, _ *lmBuilder) string {
		if t := l.(*layers.VXLAN).NextLayerType(); t != layers.LayerTypeEthernet {
			return fmt.Sprintf("other%d", t)
		}
		return "ethernet"
	},
	fromSpec: func(spec string) gopacket.Layer {
		f := strings.Split(spec, ".")
		return &layers.VXLAN{ValidIDFlag: f[0] == "1", VNI: uint32(lnAtoi(f[1])), GBPExtension: f[2] == "1", GBPDontLearn: f[3] == "1",
			GBPApplied: f[4] == "1", GBPGroupPolicyID: uint16(lnAtoi(f[5]))}
	},
	inDomain: func(l gopacket.Layer, _ []byte) bool { return l.(*layers.VXLAN).VNI < 1<<24 },
	tags: func(l gopacket.Layer, cls string, data []byte) []string {
		v := l.(*layers.VXLAN)
		var t []string
		if cls == "ok" && (data[0]&0x77 != 0 || data[1]&0x3f != 0 || data[7] != 0) {
			t = append(t, "reserved-bits-set")
		}
		if cls == "ok" && v.GBPExtension {
			t = append(t, "gbp")
		}
		return t
	},
}

func (lvxlan) Run(c Case) Result { return lmRun(lvxlanDesc, c) }

func (lvxlan) Gen(rng *rand.Rand, tier string) []Case {
	valid := func(rng *rand.Rand) []byte {
		h := make([]byte, 8)
		h[0] = byte(lnPick(rng, 0x08, 0x88, 0x00, 0x80, 0xff, rng.Intn(256)))
		h[1] = byte(lnPick(rng, 0, 0x40, 0x80, 0xc0, 0xff, rng.Intn(256)))
		lmPut16(h[2:], lnPick(rng, 0, 1, 65535, rng.Intn(65536)))
		lmPut32(h[4:], uint32(lnPick(rng, 0, 1, 0xffffff, rng.Intn(1<<24)))<<8|uint32(lnPick(rng, 0, 0, 0xff, rng.Intn(256))))
		return append(h, lnRandBytes(rng, lnPick(rng, 0, 1, 14, 33))...)
	}
	g := lmGenCfg{
		valid:  valid,
		hdrLen: func(p []byte) int { return 8 },
		residue: func(rng *rand.Rand) []byte { return append([]byte{0xff, 0xff, 0xff, 0xff, 0xff, 0xff, 0xff, 0xff}, lnRandBytes(rng, 5)...) },
		spec: func(rng *rand.Rand) string {
			return fmt.Sprintf("%d.%d.%d.%d.%d.%d", rng.Intn(2), lnPick(rng, 0, 1, 0xffffff, 0x1000000, 0x1000001, 0xffffffff, rng.Intn(1<<24)), rng.Intn(2), rng.Intn(2), rng.Intn(2), lnPick(rng, 0, 1, 65535, rng.Intn(65536)))
		},
		seeds: append(lmUDPSeeds(4789), lmUDPSeeds(8472)...),
		extra: func(rng *rand.Rand, add func(ops ...string)) {
			// every value of the two flag bytes
			for b := 0; b < 256; b++ {
				add("tag:flags-every-value", "dec:"+lnHex([]byte{byte(b), 0, 0, 0, 0, 0, 1, 0, 0x55}))
				add("tag:flags-every-value", "dec:"+lnHex([]byte{0x08, byte(b), 0, 0, 0, 0, 1, 0}))
				if b%4 == 0 {
					add("tag:flags-every-value", "rt:"+lnHex([]byte{byte(b), byte(b), 0, 7, 1, 2, 3, 0xee})+",0102")
				}
			}
		},
	}
	return lmGen(lvxlanDesc, g, rng, tier)
}
