package main

// Generic driver shared by the small layer sub-checks of agent lmisc (Larp, Lllc, Lvxlan, Lmpls,
// Lpppoe, Lppp, Lloopback, Leapol, Lipsec, Lvrrp, Lgeneve).  A layer is described by an lmDesc;
// lmRun implements the ops of lib/layer_brief.txt on the REAL code plus the implementation-side
// oracle (C19:panic, C01:render-panic, C05:stale, C07:panic/junk-dependence/repeat,
// C06:roundtrip/fixpoint).  Observation line (decode ops):
//   cls=ok|err|panic;tr=0|1;<fields>;c=<hex Contents>;p=<hex Payload>;next=<id>;render=ok|panic
// serialize ops:  cls=..;out=<hex>;<fields after FixLengths>

import (
	"bytes"
	"fmt"
	"math/rand"
	"strings"

	"github.com/gopacket/gopacket"
)

// lmBuilder is a recording gopacket.PacketBuilder for layers that only have a decoder function
// (no DecodeFromBytes): it keeps what the decoder added and does not continue decoding.
type lmBuilder struct {
	tr      bool
	layers  []gopacket.Layer
	link    gopacket.LinkLayer
	next    gopacket.Decoder
	nextSet bool
	opts    gopacket.DecodeOptions
}

func (b *lmBuilder) SetTruncated()                                   { b.tr = true }
func (b *lmBuilder) AddLayer(l gopacket.Layer)                       { b.layers = append(b.layers, l) }
func (b *lmBuilder) SetLinkLayer(l gopacket.LinkLayer)               { b.link = l }
func (b *lmBuilder) SetNetworkLayer(gopacket.NetworkLayer)           {}
func (b *lmBuilder) SetTransportLayer(gopacket.TransportLayer)       {}
func (b *lmBuilder) SetApplicationLayer(gopacket.ApplicationLayer)   {}
func (b *lmBuilder) SetErrorLayer(gopacket.ErrorLayer)               {}
func (b *lmBuilder) NextDecoder(next gopacket.Decoder) error         { b.next, b.nextSet = next, true; return nil }
func (b *lmBuilder) DumpPacketData()                                 {}
func (b *lmBuilder) DecodeOptions() *gopacket.DecodeOptions          { return &b.opts }

type lmDesc struct {
	id   string // check id
	name string // Go type name
	// fresh zero object
	fresh func() gopacket.Layer
	// DecodeFromBytes into l; nil for decoder-function-only layers (then decodeFn is set)
	decode func(l gopacket.Layer, data []byte, fb gopacket.DecodeFeedback) error
	// decoder-function-only layers: run the registered decoder on a recording builder; the
	// layer it added (nil if none) and the builder come back
	decodeFn func(data []byte, b *lmBuilder) error
	fields   func(l gopacket.Layer) string
	next     func(l gopacket.Layer, b *lmBuilder) string
	fromSpec func(spec string) gopacket.Layer
	ser      bool
	// C06 hypothesis on a layer value (bit-field ranges, consistent lengths).  nil = always.
	inDomain func(l gopacket.Layer, payload []byte) bool
	// fields compared between the written and the re-read layer (default: fields)
	rtFields func(l gopacket.Layer) string
	// payload expected after the round trip (default: the payload given)
	rtPayload func(l gopacket.Layer, payload []byte) []byte
	extra     func(l gopacket.Layer) []func()
	tags      func(l gopacket.Layer, cls string, data []byte) []string
}

type lmDec struct {
	l   gopacket.Layer
	cls string
	tr  bool
	b   *lmBuilder
}

func lmBase(l gopacket.Layer) (c, p []byte) {
	defer func() { recover() }()
	return l.LayerContents(), l.LayerPayload()
}

func (d *lmDesc) dec(l gopacket.Layer, data []byte) lmDec {
	data = lnCopy(data)
	if d.decode != nil {
		fb := &lnFeedback{}
		cls := lnClass(func() error { return d.decode(l, data, fb) })
		return lmDec{l, cls, fb.tr, nil}
	}
	b := &lmBuilder{}
	cls := lnClass(func() error { return d.decodeFn(data, b) })
	var got gopacket.Layer
	if len(b.layers) > 0 {
		got = b.layers[0]
	} else {
		got = d.fresh()
	}
	return lmDec{got, cls, b.tr, b}
}

func (d *lmDesc) obs(r lmDec) string {
	c, p := lmBase(r.l)
	var extra []func()
	if d.extra != nil {
		extra = d.extra(r.l)
	}
	nx := lnClassStr(func() string { return d.next(r.l, r.b) })
	return fmt.Sprintf("cls=%s;tr=%s;%s;c=%s;p=%s;next=%s;render=%s", r.cls, lnB(r.tr), d.fields(r.l), lnHex(c), lnHex(p), nx, lnRender(r.l, extra...))
}

func lnClassStr(f func() string) (s string) {
	defer func() {
		if recover() != nil {
			s = "panic"
		}
	}()
	return f()
}

func lmRun(d *lmDesc, c Case) (res Result) {
	for _, op := range c.Ops {
		name, a := lnOp(op)
		switch name {
		case "tag":
			res.Tags = append(res.Tags, a[0])
		case "G": // table facts for the model only (abstract lookup tables of the layer)
		case "dec":
			data := lnUnhex(a[0])
			r := d.dec(d.fresh(), data)
			obs := d.obs(r)
			res.Obs = append(res.Obs, obs)
			if r.cls == "panic" {
				res.Oracle = append(res.Oracle, "C19:panic\t"+d.name+" decoder panicked")
			}
			if strings.HasSuffix(obs, "render=panic") || strings.Contains(obs, "next=panic") {
				res.Oracle = append(res.Oracle, "C01:render-panic\trenderer/accessor panicked after decode class "+r.cls)
			}
			if d.tags != nil {
				res.Tags = append(res.Tags, d.tags(r.l, r.cls, data)...)
			}
			if r.cls == "err" {
				res.Tags = append(res.Tags, "decode-error")
			}
		case "dec2":
			if d.decode == nil {
				panic(d.id + ": dec2 on a decoder-function layer")
			}
			l := d.fresh()
			r1 := d.dec(l, lnUnhex(a[0]))
			if r1.cls == "err" {
				res.Tags = append(res.Tags, "residue-after-error")
			}
			r := d.dec(l, lnUnhex(a[1]))
			obs := d.obs(r)
			res.Obs = append(res.Obs, obs)
			fr := d.dec(d.fresh(), lnUnhex(a[1]))
			fobs := d.obs(fr)
			if r.cls == "panic" {
				res.Oracle = append(res.Oracle, "C19:panic\t"+d.name+" decoder panicked on a reused object")
			} else if r.cls != fr.cls || r.tr != fr.tr || (r.cls == "ok" && obs != fobs) {
				res.Oracle = append(res.Oracle, fmt.Sprintf("C05:stale\treused: %s fresh: %s", obs, fobs))
			}
			if strings.HasSuffix(obs, "render=panic") {
				res.Oracle = append(res.Oracle, "C01:render-panic\trenderer panicked after decode class "+r.cls+" on a reused object")
			}
		case "ser", "new":
			if !d.ser {
				panic(d.id + ": no SerializeTo")
			}
			var mk func() gopacket.Layer
			if name == "ser" {
				data := lnUnhex(a[0])
				mk = func() gopacket.Layer { return d.dec(d.fresh(), data).l }
			} else {
				mk = func() gopacket.Layer { return d.fromSpec(a[0]) }
			}
			fix, csum, dk := lnParseFCD(a[1])
			payload := lnUnhex(a[2])
			l := mk()
			cls, out := lnSerialize(l.(gopacket.SerializableLayer), dk, payload, fix, csum)
			res.Obs = append(res.Obs, fmt.Sprintf("cls=%s;out=%s;%s", cls, lnHex(out), d.fields(l)))
			if dk == 1 {
				res.Tags = append(res.Tags, "dirty-buffer")
			}
			if !fix {
				res.Tags = append(res.Tags, "no-fixlengths")
			}
			if len(payload)%2 == 1 {
				res.Tags = append(res.Tags, "odd-payload")
			}
			if cls == "err" {
				res.Tags = append(res.Tags, "serialize-error")
			}
			res.Oracle = append(res.Oracle, lnJunkOracle(func() gopacket.SerializableLayer { return mk().(gopacket.SerializableLayer) }, payload, fix, csum)...)
		case "rt", "rtn":
			if !d.ser {
				panic(d.id + ": no SerializeTo")
			}
			payload := lnUnhex(a[1])
			var l gopacket.Layer
			if name == "rt" {
				r := d.dec(d.fresh(), lnUnhex(a[0]))
				if r.cls != "ok" {
					res.Obs = append(res.Obs, "first="+r.cls)
					break
				}
				l = r.l
			} else {
				l = d.fromSpec(a[0])
			}
			rtf := d.fields
			if d.rtFields != nil {
				rtf = d.rtFields
			}
			dom := d.inDomain == nil || d.inDomain(l, payload)
			scls, out := lnSerialize(l.(gopacket.SerializableLayer), 0, payload, true, true)
			if scls != "ok" {
				res.Obs = append(res.Obs, "ser="+scls)
				if scls == "panic" {
					res.Oracle = append(res.Oracle, "C07:panic\tSerializeTo panicked")
				} else if dom && name == "rt" {
					res.Oracle = append(res.Oracle, "C06:roundtrip\tSerializeTo rejects a decoded layer")
				}
				break
			}
			f1 := rtf(l) // after FixLengths
			res.Tags = append(res.Tags, "roundtrip")
			r2 := d.dec(d.fresh(), out)
			res.Obs = append(res.Obs, d.obs(r2))
			if !dom {
				res.Tags = append(res.Tags, "out-of-domain")
				break
			}
			want := payload
			if d.rtPayload != nil {
				want = d.rtPayload(l, payload)
			}
			switch {
			case r2.cls != "ok":
				res.Oracle = append(res.Oracle, "C06:roundtrip\tsecond decode: "+r2.cls)
			case r2.tr:
				res.Oracle = append(res.Oracle, "C06:roundtrip\tsecond decode sets truncated")
			default:
				if f2 := rtf(r2.l); f1 != f2 {
					res.Oracle = append(res.Oracle, fmt.Sprintf("C06:roundtrip\tfields differ: written %s read %s", f1, f2))
				}
				_, p2 := lmBase(r2.l)
				if !bytes.Equal(p2, want) {
					res.Oracle = append(res.Oracle, "C06:roundtrip\tpayload differs")
				}
				c3, out3 := lnSerialize(r2.l.(gopacket.SerializableLayer), 1, payload, true, true)
				if c3 != "ok" || !bytes.Equal(out3, out) {
					res.Oracle = append(res.Oracle, "C06:fixpoint\tre-serialized bytes differ")
				}
			}
		default:
			panic(d.id + ": unknown op " + op)
		}
	}
	return
}

// lmGen: the generator skeleton shared by the fixed-shape layers.
//   valid()     a mostly-valid packet built field by field by the harness (header ++ payload)
//   hdrLen(p)   length of the header part of p (truncations 0..hdrLen+1 are all generated)
//   specs()     a field-built layer spec for new:/rtn: ("" = none)
//   seeds       packet literals (from layers/*_test.go) that start with this layer
type lmGenCfg struct {
	valid   func(rng *rand.Rand) []byte
	hdrLen  func(p []byte) int
	spec    func(rng *rand.Rand) string
	seeds   [][]byte
	extra   func(rng *rand.Rand, add func(ops ...string))
	n       int // base count of random valid packets (default 60)
	noDec2  bool
	residue func(rng *rand.Rand) []byte // first packet of dec2 pairs, chosen to leave maximal residue (default valid)
}

func lmGen(d *lmDesc, g lmGenCfg, rng *rand.Rand, tier string) []Case {
	var out []Case
	add := func(ops ...string) { out = append(out, Case{Prop: d.id, Ops: ops}) }
	scale := 1
	if tier == "thorough" {
		scale = 8
	}
	n := g.n
	if n == 0 {
		n = 60
	}
	hx := lnHex
	payloads := func() []byte { return lnRandBytes(rng, lnPick(rng, 0, 1, 2, 3, 7, 8, 33, 64)) }
	residue := g.residue
	if residue == nil {
		residue = g.valid
	}
	dec2 := d.decode != nil && !g.noDec2
	for i := 0; i < n*scale; i++ {
		p := g.valid(rng)
		add("dec:" + hx(p))
		if dec2 {
			add("dec2:" + hx(residue(rng)) + "," + hx(p))
		}
		if d.ser {
			add("rt:" + hx(p) + "," + hx(payloads()))
			pl := payloads()
			for _, fcd := range lnFCD[:6] {
				add("ser:" + hx(p) + "," + fcd + "," + hx(pl))
			}
			add("ser:" + hx(p) + "," + lnFCD[6+rng.Intn(6)] + "," + hx(payloads()))
		}
		h := g.hdrLen(p)
		if i < 12*scale {
			for k := 0; k <= h+1 && k <= len(p); k++ {
				if k > 40 && k < h-1 && k%37 != 0 { // long variable headers: every length up to 40, a sparse set, and h-1..h+1
					continue
				}
				add("tag:truncated-prefix-of-valid", "dec:"+hx(p[:k]))
				if dec2 {
					add("tag:truncated-prefix-of-valid", "dec2:"+hx(residue(rng))+","+hx(p[:k]))
				}
				if d.ser {
					add("tag:truncated-prefix-of-valid", "tag:error-residue", "ser:"+hx(p[:k])+","+lnFCD[rng.Intn(len(lnFCD))]+","+hx(payloads()))
				}
			}
		}
	}
	if g.spec != nil && d.ser {
		for i := 0; i < 150*scale; i++ {
			s := g.spec(rng)
			add("tag:field-extreme", "new:"+s+","+lnFCD[rng.Intn(len(lnFCD))]+","+hx(payloads()))
			add("tag:field-extreme", "rtn:"+s+","+hx(payloads()))
		}
	}
	ns := 0
	for _, s := range g.seeds {
		if ns++; tier != "thorough" && ns > 30 {
			break
		}
		if len(s) > 400 {
			s = s[:400]
		}
		add("tag:seed", "dec:"+hx(s))
		if d.ser {
			h := g.hdrLen(s)
			if h > len(s) {
				h = len(s)
			}
			add("tag:seed", "rt:"+hx(s)+","+hx(s[h:]))
			add("tag:seed", "ser:"+hx(s)+","+lnFCD[rng.Intn(len(lnFCD))]+","+hx(payloads()))
		}
		if dec2 {
			add("tag:seed", "dec2:"+hx(s)+","+hx(g.valid(rng)))
		}
	}
	for i := 0; i < 80*scale; i++ {
		q := lnRandBytes(rng, lnPick(rng, 0, 1, 2, 3, 4, 5, 7, 8, 9, 12, rng.Intn(40)))
		add("tag:malformed", "dec:"+hx(q))
		if dec2 {
			add("tag:malformed", "dec2:"+hx(residue(rng))+","+hx(q))
			add("tag:malformed", "dec2:"+hx(q)+","+hx(g.valid(rng)))
		}
		if d.ser {
			add("tag:malformed", "ser:"+hx(q)+","+lnFCD[rng.Intn(len(lnFCD))]+","+hx(payloads()))
		}
	}
	if g.extra != nil {
		g.extra(rng, add)
	}
	return out
}

// lmSeedsUnder: the payloads of test-file Ethernet frames with the given EtherType, optionally
// after skipping `skip` bytes (e.g. an IPv4 header is skipped by lmIPSeeds instead).
func lmIPSeeds(proto byte) [][]byte {
	var out [][]byte
	for _, s := range lnEthSeeds(0x0800) {
		if len(s) > 20 && s[0]>>4 == 4 && s[9] == proto {
			ihl := int(s[0]&0xf) * 4
			if ihl >= 20 && ihl < len(s) {
				out = append(out, s[ihl:])
			}
		}
	}
	return out
}

// lmUDPSeeds: UDP payloads (IPv4) to the given destination port among the test-file packets.
func lmUDPSeeds(port int) [][]byte {
	var out [][]byte
	for _, u := range lmIPSeeds(17) {
		if len(u) > 8 && int(u[2])<<8|int(u[3]) == port {
			out = append(out, u[8:])
		}
	}
	return out
}

func lmPut16(b []byte, v int) { b[0], b[1] = byte(v>>8), byte(v) }
func lmPut32(b []byte, v uint32) {
	b[0], b[1], b[2], b[3] = byte(v>>24), byte(v>>16), byte(v>>8), byte(v)
}
