package main

// Lgtp2: layers/gtp2.go decoder sub-check (C19, C05, C01 for GTPv2; no SerializeTo).  Ops: dec dec2 (lmisc_common.go), decf (lsmall_common.go: the registered decoder decodeGTPv2).

import (
	"fmt"
	"math/rand"
	"strings"

	"github.com/gopacket/gopacket"
	"github.com/gopacket/gopacket/layers"
)

type lgtp2 struct{}

func init() { register("Lgtp2", lgtp2{}) }

var lgtp2Desc = &lmDesc{
	id: "Lgtp2", name: "GTPv2",
	fresh: func() gopacket.Layer { return &layers.GTPv2{} },
	decode: func(l gopacket.Layer, data []byte, fb gopacket.DecodeFeedback) error {
		return l.(*layers.GTPv2).DecodeFromBytes(data, fb)
	},
	fields: func(l gopacket.Layer) string {
		g := l.(*layers.GTPv2)
		es := make([]string, len(g.IEs))
		for i, e := range g.IEs {
			es[i] = fmt.Sprintf("%d~%s", e.Type, lnHex(e.Content))
		}
		return fmt.Sprintf("v=%d;pf=%s;tf=%s;prio=%d;mt=%d;ml=%d;teid=%d;seq=%d;spare=%d;ies=%s", g.Version, lnB(g.PiggybackingFlag), lnB(g.TEIDflag),
			g.MessagePriority, g.MessageType, g.MessageLength, g.TEID, g.SequenceNumber, g.Spare, strings.Join(es, "+"))
	},
	next: lmNextConst(gopacket.LayerTypePayload, "payload", func(l gopacket.Layer) gopacket.LayerType { return l.(*layers.GTPv2).NextLayerType() }),
	tags: func(l gopacket.Layer, cls string, data []byte) []string {
		g := l.(*layers.GTPv2)
		var t []string
		if cls == "ok" && len(g.IEs) > 0 {
			t = append(t, "information-elements")
		}
		if cls == "ok" && g.TEIDflag {
			t = append(t, "teid-present")
		}
		if cls == "ok" && g.PiggybackingFlag {
			t = append(t, "piggyback-flag")
		}
		if cls == "ok" && len(data) > 4+int(g.MessageLength) {
			t = append(t, "bytes-beyond-message-length")
		}
		if cls == "err" && len(data) >= 4 {
			t = append(t, "error-after-fields-set")
		}
		if cls == "err" && len(g.IEs) > 0 {
			t = append(t, "error-after-add")
		}
		return t
	},
}

var lgtp2Decf = lsDecfCfg{d: lgtp2Desc, lt: layers.LayerTypeGTPv2, next: func(l gopacket.Layer, b *lmBuilder) string {
	if b.next == gopacket.Decoder(gopacket.LayerTypePayload) {
		return "t0"
	}
	return fmt.Sprintf("other%v", b.next)
}}

func (lgtp2) Run(c Case) Result {
	if lsHasDecf(c) {
		return lsRunDecf(lgtp2Decf, c)
	}
	return lmRun(lgtp2Desc, c)
}

// g2Build: first octet, IEs as (type, length field (-1 = right), content octets present), trailing octets, message length = consistent + delta
func g2Build(rng *rand.Rand, b0 byte, ies [][3]int, trail int, delta int) []byte {
	h := []byte{b0, byte(lnPick(rng, 32, 33, 1, 2, 255, 0)), 0, 0}
	var body []byte
	if b0&8 != 0 {
		body = append(body, lnRandBytes(rng, 4)...)
	}
	body = append(body, lnRandBytes(rng, 4)...) // sequence number, spare
	for _, e := range ies {
		lf := e[1]
		if lf < 0 {
			lf = e[2]
		}
		body = append(body, byte(e[0]), byte(lf>>8), byte(lf), byte(rng.Intn(16)))
		body = append(body, lnRandBytes(rng, e[2])...)
	}
	body = append(body, lnRandBytes(rng, trail)...)
	lmPut16(h[2:], len(body)+delta)
	return append(h, body...)
}

func (lgtp2) Gen(rng *rand.Rand, tier string) []Case {
	ies := func(k int) [][3]int {
		var out [][3]int
		for ; k > 0; k-- {
			out = append(out, [3]int{lnPick(rng, 1, 73, 82, 87, 93, 255, 0), -1, lnPick(rng, 0, 1, 4, 8, 9, 40)})
		}
		return out
	}
	valid := func(rng *rand.Rand) []byte {
		b0 := byte(lnPick(rng, 0x48, 0x48, 0x40, 0x58, 0x50, 0x4c, 0x20, 0xff, 0x00))
		return g2Build(rng, b0, ies(lnPick(rng, 0, 1, 1, 2, 3, 5)), 0, lnPick(rng, 0, 0, 0, 0, -1, 1, -4))
	}
	g := lmGenCfg{
		valid:   valid,
		hdrLen:  func(p []byte) int { if len(p) > 30 { return 30 }; return len(p) },
		residue: func(rng *rand.Rand) []byte { return g2Build(rng, 0x58, [][3]int{{1, -1, 8}, {82, -1, 1}, {93, -1, 0}}, 0, 0) },
		seeds:   lsUDPPayloads(2123),
		extra: func(rng *rand.Rand, add func(ops ...string)) {
			res := func() string { return lnHex(g2Build(rng, 0x58, [][3]int{{1, -1, 8}, {82, -1, 1}}, 0, 0)) }
			for b := 0; b < 256; b++ { // every first octet: 8 octets after the 4-octet header, then one IE
				p := g2Build(rng, byte(b), [][3]int{{73, -1, 3}}, 0, 0)
				add("tag:flags-every-value", "dec:"+lnHex(p))
				add("tag:flags-every-value", "dec2:"+res()+","+lnHex(p))
			}
			// IE length field 0, 1, right, off by one, max; with 0..2 IEs before it
			for _, before := range []int{0, 1, 2} {
				for _, present := range []int{0, 1, 4, 7} {
					for _, lf := range []int{0, 1, present - 1, present, present + 1, present + 4, 255, 256, 65535} {
						if lf < 0 {
							continue
						}
						p := g2Build(rng, byte(lnPick(rng, 0x48, 0x40)), append(ies(before), [3]int{87, lf, present}), 0, 0)
						add("tag:ie-length-extreme", "dec:"+lnHex(p))
						add("tag:ie-length-extreme", "dec2:"+res()+","+lnHex(p))
					}
				}
			}
			// 1..3 octets after the last IE (a cut IE header), with consistent message length
			for _, tr := range []int{1, 2, 3, 4, 5} {
				for _, b0 := range []byte{0x48, 0x40} {
					p := g2Build(rng, b0, ies(lnPick(rng, 0, 1, 2)), tr, 0)
					add("tag:ie-header-cut", "dec:"+lnHex(p))
					add("tag:ie-header-cut", "dec2:"+res()+","+lnHex(p))
				}
			}
			// message length field 0, 1, short/long by 1, 4, 8, 1000, max
			for _, b0 := range []byte{0x48, 0x40, 0x58} {
				for _, d := range []int{-1000, -8, -4, -1, 1, 2, 4, 8, 1000, 65535} {
					p := g2Build(rng, b0, ies(lnPick(rng, 0, 1)), 0, 0)
					v := len(p) - 4 + d
					if d == -1000 {
						v = 0
					}
					if d == 65535 || v > 65535 {
						v = 65535
					}
					if v < 0 {
						v = 1
					}
					lmPut16(p[2:], v)
					add("tag:length-extreme", "dec:"+lnHex(p))
					add("tag:length-extreme", "dec2:"+res()+","+lnHex(p))
				}
			}
			// consistent-length cuts: the packet cut at k with the message length rewritten to k-4
			for _, b0 := range []byte{0x48, 0x40} {
				p := g2Build(rng, b0, [][3]int{{1, -1, 8}, {82, -1, 1}}, 0, 0)
				for k := 4; k <= len(p); k++ {
					q := lnCopy(p[:k])
					lmPut16(q[2:], k-4)
					add("tag:consistent-length-cut", "dec:"+lnHex(q))
					add("tag:consistent-length-cut", "dec2:"+res()+","+lnHex(q))
				}
			}
			// stale state: T flag set then clear; IEs then none
			for i := 0; i < 20; i++ {
				a := g2Build(rng, 0x48, ies(lnPick(rng, 1, 2, 3)), 0, 0)
				b := g2Build(rng, 0x40, ies(lnPick(rng, 0, 0, 1)), 0, 0)
				add("tag:residue-teid", "dec2:"+lnHex(a)+","+lnHex(b))
				add("tag:residue-ies", "dec2:"+lnHex(a)+","+lnHex(g2Build(rng, 0x48, nil, 0, 0)))
				add("tag:residue-after-error-ies", "dec2:"+lnHex(g2Build(rng, 0x48, append(ies(2), [3]int{87, 9, 3}), 0, 0))+","+lnHex(b))
			}
			// large packets: 65535 and more octets (the 16-bit offset wrap of the unrepaired code)
			if tier == "thorough" { // few large IEs: the model walks the packet once per IE
				add("tag:large", "dec:"+lnHex(g2Build(rng, 0x48, [][3]int{{1, -1, 16000}, {2, -1, 16000}, {3, -1, 16000}, {4, -1, 17507}}, 0, 0)))
				add("tag:large", "dec:"+lnHex(g2Build(rng, 0x40, [][3]int{{1, -1, 30000}, {2, -1, 35520}}, 0, 0)))
			}
			// the registered decoder decodeGTPv2 on valid, truncated and malformed input
			for i := 0; i < 40; i++ {
				add("decf:" + lnHex(valid(rng)))
				add("tag:malformed", "decf:"+lnHex(lnRandBytes(rng, lnPick(rng, 0, 3, 4, 7, 8, 11, 12, 30))))
			}
			pd := g2Build(rng, 0x48, [][3]int{{1, -1, 8}, {82, -1, 1}}, 0, 0)
			for k := 0; k <= len(pd); k++ {
				add("tag:truncated-prefix-of-valid", "decf:"+lnHex(pd[:k]))
			}
			big := g2Build(rng, 0x48, [][3]int{{1, -1, 1500}, {2, -1, 900}}, 0, 0)
			add("tag:large", "dec:"+lnHex(big))
		},
	}
	return lmGen(lgtp2Desc, g, rng, tier)
}
