package main

// Lraw: decodeIPv4or6 (layers/enums.go), the decoder registered for LinkTypeRaw — C19.
// Op decf:<hex>,<cls4>~<tr4>~<n4>,<cls6>~<tr6>~<n6>: the LinkTypeRaw decoder on a recording PacketBuilder; the two trailing
// arguments are facts for the model only: class, truncated flag and number of layers added by the IPv4 and IPv6 decoders
// alone on the same bytes (they are Lip4 / Lip6; parameters of the model), taken by the generator from the real decoders.
// obs: cls=..;tr=..;n=<layers added>;first=<type of the first layer added|none>

import (
	"fmt"
	"math/rand"

	"github.com/gopacket/gopacket"
	"github.com/gopacket/gopacket/layers"
)

type lraw struct{}

func init() { register("Lraw", lraw{}) }

func rawRun(dec gopacket.Decoder, data []byte) (cls string, b *lmBuilder) {
	b = &lmBuilder{}
	data = lnCopy(data)
	cls = lnClass(func() error { return dec.Decode(data, b) })
	return
}

func (lraw) Run(c Case) (res Result) {
	for _, op := range c.Ops {
		name, a := lnOp(op)
		switch name {
		case "tag":
			res.Tags = append(res.Tags, a[0])
		case "decf":
			data := lnUnhex(a[0])
			cls, b := rawRun(layers.LinkTypeRaw, data)
			first := "none"
			if len(b.layers) > 0 {
				first = b.layers[0].LayerType().String()
			}
			res.Obs = append(res.Obs, fmt.Sprintf("cls=%s;tr=%s;n=%d;first=%s", cls, lnB(b.tr), len(b.layers), first))
			if cls == "panic" {
				// is it decodeIPv4or6 itself, or the IP decoder it handed the packet to?
				c4, _ := rawRun(layers.LayerTypeIPv4, data)
				c6, _ := rawRun(layers.LayerTypeIPv6, data)
				if len(data) == 0 || (data[0]>>4 == 4 && c4 != "panic") || (data[0]>>4 == 6 && c6 != "panic") || (data[0]>>4 != 4 && data[0]>>4 != 6) {
					res.Oracle = append(res.Oracle, "C19:panic\tdecodeIPv4or6 (LinkTypeRaw decoder) panicked")
				}
			}
			if cls == "err" {
				res.Tags = append(res.Tags, "decode-error")
			}
			if len(data) > 0 {
				res.Tags = append(res.Tags, fmt.Sprintf("version-%d", data[0]>>4))
			}
		default:
			panic("Lraw: unknown op " + op)
		}
	}
	return
}

func rawCase(tag string, data []byte) Case {
	f := func(dec gopacket.Decoder) string {
		cls, b := rawRun(dec, data)
		first := "none"
		if len(b.layers) > 0 {
			first = b.layers[0].LayerType().String()
		}
		return fmt.Sprintf("%s~%s~%d~%s", cls, lnB(b.tr), len(b.layers), first)
	}
	ops := []string{"decf:" + lnHex(data) + "," + f(layers.LayerTypeIPv4) + "," + f(layers.LayerTypeIPv6)}
	if tag != "" {
		ops = append([]string{"tag:" + tag}, ops...)
	}
	return Case{Prop: "Lraw", Ops: ops}
}

func (lraw) Gen(rng *rand.Rand, tier string) []Case {
	var out []Case
	out = append(out, rawCase("empty", nil))
	scale := 1
	if tier == "thorough" {
		scale = 8
	}
	for b := 0; b < 256; b++ { // every first octet, alone and with 19, 39, 60 more octets
		for _, n := range []int{0, 19, 39, 60} {
			out = append(out, rawCase("first-octet-every-value", append([]byte{byte(b)}, lnRandBytes(rng, n)...)))
		}
	}
	// well-formed IPv4 / IPv6 headers and their truncations
	v4 := []byte{0x45, 0, 0, 28, 0, 1, 0, 0, 64, 17, 0, 0, 10, 0, 0, 1, 10, 0, 0, 2, 0, 7, 0, 7, 0, 8, 0, 0}
	v6 := append([]byte{0x60, 0, 0, 0, 0, 8, 17, 64}, append(lnRandBytes(rng, 32), 0, 7, 0, 7, 0, 8, 0, 0)...)
	for _, p := range [][]byte{v4, v6} {
		for k := 0; k <= len(p); k++ {
			out = append(out, rawCase("truncated-prefix-of-valid", p[:k]))
		}
	}
	for _, s := range lnEthSeeds(0x0800) {
		if len(out) > 1400 {
			break
		}
		if len(s) > 300 {
			s = s[:300]
		}
		out = append(out, rawCase("seed", s))
	}
	for _, s := range lnEthSeeds(0x86dd) {
		if len(s) > 300 {
			s = s[:300]
		}
		out = append(out, rawCase("seed", s))
	}
	for i := 0; i < 200*scale; i++ {
		out = append(out, rawCase("malformed", lnRandBytes(rng, lnPick(rng, 1, 2, 8, 20, 21, 40, 41, 64))))
	}
	return out
}
