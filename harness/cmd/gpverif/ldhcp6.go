package main

// Ldhcp6: layers/dhcpv6.go + the option codec of layers/dhcpv6_options.go.  Ops: dec dec2 ser new rt rtn.
// spec: mt.hop.link.peer.xid.opts   (hex or "-"; opts = code~len~hex/... or "-")

import (
	"fmt"
	"math/rand"
	"net"
	"strings"

	"github.com/gopacket/gopacket"
	"github.com/gopacket/gopacket/layers"
)

type ldhcp6 struct{}

func init() { register("Ldhcp6", ldhcp6{}) }

func ldhcp6Opts(os layers.DHCPv6Options) string {
	var sb strings.Builder
	for i, o := range os {
		if i > 0 {
			sb.WriteByte('|')
		}
		fmt.Fprintf(&sb, "%d.%d.%s", uint16(o.Code), o.Length, lnHex(o.Data))
	}
	return sb.String()
}

var ldhcp6Desc = &lmDesc{
	id: "Ldhcp6", name: "DHCPv6", ser: true,
	fresh: func() gopacket.Layer { return &layers.DHCPv6{} },
	decode: func(l gopacket.Layer, data []byte, fb gopacket.DecodeFeedback) error {
		// capacity = length: reading behind the data is a panic, as in the model (slices checked against len)
		return l.(*layers.DHCPv6).DecodeFromBytes(data[:len(data):len(data)], fb)
	},
	fields: func(l gopacket.Layer) string {
		d := l.(*layers.DHCPv6)
		return fmt.Sprintf("mt=%d;hop=%d;link=%s;peer=%s;xid=%s;no=%d;opts=%s", uint8(d.MsgType), d.HopCount, lnHex(d.LinkAddr), lnHex(d.PeerAddr), lnHex(d.TransactionID), len(d.Options), ldhcp6Opts(d.Options))
	},
	next: lmNextConst(gopacket.LayerTypePayload, "payload", func(l gopacket.Layer) gopacket.LayerType { return l.(*layers.DHCPv6).NextLayerType() }),
	fromSpec: func(spec string) gopacket.Layer {
		f := strings.Split(spec, ".")
		d := &layers.DHCPv6{MsgType: layers.DHCPv6MsgType(lnAtoi(f[0])), HopCount: uint8(lnAtoi(f[1])), LinkAddr: net.IP(lmHexOrDash(f[2])), PeerAddr: net.IP(lmHexOrDash(f[3])), TransactionID: lmHexOrDash(f[4])}
		if f[5] != "-" {
			for _, o := range strings.Split(f[5], "/") {
				g := strings.Split(o, "~")
				d.Options = append(d.Options, layers.DHCPv6Option{Code: layers.DHCPv6Opt(lnAtoi(g[0])), Length: uint16(lnAtoi(g[1])), Data: lmHexOrDash(g[2])})
			}
		}
		return d
	},
	inDomain: func(l gopacket.Layer, payload []byte) bool {
		d := l.(*layers.DHCPv6)
		if len(payload) != 0 { // every octet behind the header is options
			return false
		}
		for _, o := range d.Options {
			if len(o.Data) > 65535 {
				return false
			}
		}
		if d.MsgType == layers.DHCPv6MsgTypeRelayForward || d.MsgType == layers.DHCPv6MsgTypeRelayReply {
			return len(d.LinkAddr) == 16 && len(d.PeerAddr) == 16 && len(d.TransactionID) == 0
		}
		return len(d.TransactionID) == 3 && d.HopCount == 0 && len(d.LinkAddr) == 0 && len(d.PeerAddr) == 0
	},
	rtPayload: func(l gopacket.Layer, payload []byte) []byte { return nil },
	extra: func(l gopacket.Layer) []func() {
		d := l.(*layers.DHCPv6)
		return []func(){func() {
			_, _, _ = d.Len(), d.Options.String(), d.MsgType.String()
			for _, o := range d.Options {
				_, _ = o.String(), o.Code.String()
			}
		}}
	},
	tags: func(l gopacket.Layer, cls string, data []byte) []string {
		d := l.(*layers.DHCPv6)
		var t []string
		relay := d.MsgType == 12 || d.MsgType == 13
		if cls == "ok" && relay {
			t = append(t, "relay-message")
		}
		if cls == "ok" && len(d.Options) > 0 {
			if o := d.Options[len(d.Options)-1]; o.Code == 6 && o.Length%2 == 1 {
				t = append(t, "odd-requested-options-at-end")
			}
		}
		if cls == "err" && len(data) >= 4 && len(d.Options) > 0 {
			t = append(t, "error-after-options-appended")
		}
		if cls == "err" && len(data) >= 4 {
			t = append(t, "error-after-fields-set")
		}
		return t
	},
}

func (ldhcp6) Run(c Case) Result { return lmRun(ldhcp6Desc, c) }

func (ldhcp6) Gen(rng *rand.Rand, tier string) []Case {
	codes := []int{1, 2, 3, 6, 6, 8, 14, 25, 39, 0, 65535}
	opt := func(code, ln int, data []byte) []byte {
		return append([]byte{byte(code >> 8), byte(code), byte(ln >> 8), byte(ln)}, data...)
	}
	hdr := func(rng *rand.Rand) []byte {
		if rng.Intn(3) == 0 {
			h := lnRandBytes(rng, 34)
			h[0] = byte(lnPick(rng, 12, 13))
			return h
		}
		h := lnRandBytes(rng, 4)
		h[0] = byte(lnPick(rng, 1, 2, 3, 7, 11, 0, 14, 255))
		return h
	}
	valid := func(rng *rand.Rand) []byte {
		p := hdr(rng)
		for k := lnPick(rng, 0, 1, 2, 3, 6); k > 0; k-- {
			n := lnPick(rng, 0, 1, 2, 3, 4, 7, 16, 40)
			p = append(p, opt(lnPick(rng, codes...), n, lnRandBytes(rng, n))...)
		}
		return p
	}
	hd := func(b []byte) string {
		if len(b) == 0 {
			return "-"
		}
		return lnHex(b)
	}
	spec := func(rng *rand.Rand) string {
		var os []string
		for k := lnPick(rng, 0, 1, 2, 3); k > 0; k-- {
			n := lnPick(rng, 0, 1, 2, 5, 16)
			ln := n
			if rng.Intn(3) == 0 { // the Length field differs from the data
				ln = lnPick(rng, 0, 1, n-1, n+1, n+7, 300)
				if ln < 0 {
					ln = 0
				}
			}
			os = append(os, fmt.Sprintf("%d~%d~%s", lnPick(rng, codes...), ln, hd(lnRandBytes(rng, n))))
		}
		o := "-"
		if len(os) > 0 {
			o = strings.Join(os, "/")
		}
		if rng.Intn(3) == 0 {
			return fmt.Sprintf("%d.%d.%s.%s.%s.%s", lnPick(rng, 12, 13), lnPick(rng, 0, 1, 255), hd(lnRandBytes(rng, lnPick(rng, 16, 16, 16, 4, 0, 5, 17))), hd(lnRandBytes(rng, lnPick(rng, 16, 16, 16, 4, 0))),
				hd(lnRandBytes(rng, lnPick(rng, 0, 0, 3))), o)
		}
		return fmt.Sprintf("%d.%d.%s.%s.%s.%s", lnPick(rng, 1, 2, 7, 0, 255), lnPick(rng, 0, 0, 0, 9), hd(lnRandBytes(rng, lnPick(rng, 0, 0, 0, 16))), "-", hd(lnRandBytes(rng, lnPick(rng, 3, 3, 3, 0, 2, 4))), o)
	}
	return lmGen(ldhcp6Desc, lmGenCfg{
		valid: valid, hdrLen: func(p []byte) int { return len(p) }, spec: spec, seeds: append(lmUDPSeeds(547), lmUDPSeeds(546)...),
		extra: func(rng *rand.Rand, add func(ops ...string)) {
			two := func(tag string, p []byte) {
				add("tag:"+tag, "dec:"+lnHex(p))
				add("tag:"+tag, "dec2:"+lnHex(valid(rng))+","+lnHex(p))
			}
			for i := 0; i < 60; i++ { // round trips without a payload (anything behind the message is options)
				p := valid(rng)
				add("tag:roundtrip-no-payload", "rt:"+lnHex(p)+",")
				add("tag:roundtrip-no-payload", "ser:"+lnHex(p)+","+lnFCD[rng.Intn(len(lnFCD))]+",")
			}
			for i := 0; i < 60; i++ {
				add("tag:roundtrip-no-payload", "rtn:"+spec(rng)+",")
			}
			for _, rest := range []int{0, 1, 3, 4, 5, 20} { // option length field against what is left, as the last option
				for _, ln := range []int{0, 1, rest - 1, rest, rest + 1, rest + 2, 255, 256, 65531, 65532, 65535} {
					if ln < 0 {
						continue
					}
					two("option-length-extreme", append(append(hdr(rng), opt(1, 2, []byte{1, 2})...), opt(lnPick(rng, codes...), ln, lnRandBytes(rng, rest))...))
				}
			}
			for k := 0; k <= 5; k++ { // 0..5 octets of an option header at the end
				two("option-header-cut", append(hdr(rng), opt(3, 0, nil)[:min(k, 4)]...))
			}
			for _, n := range []int{0, 1, 2, 3, 4, 5, 9} { // requested-options option of every small length, last and followed by another
				two("requested-options", append(hdr(rng), opt(6, n, lnRandBytes(rng, n))...))
				two("requested-options", append(append(hdr(rng), opt(6, n, lnRandBytes(rng, n))...), opt(8, 2, []byte{0, 0})...))
			}
			for _, mt := range []int{11, 12, 13, 14} { // relay header boundary
				for _, n := range []int{4, 33, 34, 35, 38} {
					p := lnRandBytes(rng, n)
					p[0] = byte(mt)
					two("relay-boundary", p)
				}
			}
			// 64 KiB and more: the option end 4+Length does not fit 16 bits
			for _, ln := range []int{65531, 65532, 65535} {
				two("option-end-over-16-bits", append([]byte{1, 0, 0, 0}, opt(1, ln, make([]byte, ln))...))
				add("tag:option-end-over-16-bits", "dec:"+lnHex(append(append([]byte{1, 0, 0, 0}, opt(1, ln, make([]byte, ln))...), opt(2, 1, []byte{7})...)))
			}
		},
	}, rng, tier)
}
