package main

// Lcdpinfo: the CiscoDiscoveryInfo layer of layers/cdp.go — the typed interpretation of the CDP TLVs (C19, C01; decoder
// function only: C05/C06/C07 n/a).  Ops: dec.  The decoder is run on a copy of the input whose capacity equals its length
// (a slice past a TLV value that stays inside the packet buffer is then still visible when the TLV is the last one).

import (
	"fmt"
	"math/rand"
	"net"
	"strings"

	"github.com/gopacket/gopacket"
	"github.com/gopacket/gopacket/layers"
)

type lcdpinfo struct{}

func init() { register("Lcdpinfo", lcdpinfo{}) }

func lciB(b bool, v int) int {
	if b {
		return v
	}
	return 0
}

var lcdpinfoDesc = &lmDesc{
	id: "Lcdpinfo", name: "CiscoDiscoveryInfo",
	fresh: func() gopacket.Layer { return &layers.CiscoDiscoveryInfo{} },
	decodeFn: func(data []byte, b *lmBuilder) error {
		d := make([]byte, len(data))
		copy(d, data)
		return layers.LayerTypeCiscoDiscoveryInfo.Decode(d, b)
	},
	fields: func(l gopacket.Layer) string {
		c := l.(*layers.CiscoDiscoveryInfo)
		e := &c.EnergyWise
		h := &c.CDPHello
		strs := [][]byte{[]byte(c.DeviceID), []byte(c.PortID), []byte(c.Version), []byte(c.Platform), []byte(c.VTPDomain), []byte(c.SysName), []byte(c.SysOID),
			[]byte(c.Location.Location), h.OUI, h.ClusterMaster, h.Unknown1, h.ClusterCommander, h.SwitchMAC,
			e.EncryptedData, []byte(e.ModelNumber), []byte(e.HardwareID), []byte(e.SerialNum), e.Unknown3, []byte(e.Role), []byte(e.Domain), []byte(e.Name),
			e.ReplyUnknown1, e.ReplyPort, e.ReplyAddress, e.ReplyUnknown2, e.ReplyUnknown3}
		cp := &c.Capabilities
		caps := lciB(cp.L3Router, 1) | lciB(cp.TBBridge, 2) | lciB(cp.SPBridge, 4) | lciB(cp.L2Switch, 8) | lciB(cp.IsHost, 16) | lciB(cp.IGMPFilter, 32) |
			lciB(cp.L1Repeater, 64) | lciB(cp.IsPhone, 128) | lciB(cp.RemotelyManaged, 256)
		sp := &c.SparePairPoe
		poe := lciB(sp.PSEFourWire, 1) | lciB(sp.PDArchShared, 2) | lciB(sp.PDRequestOn, 4) | lciB(sp.PSEOn, 8)
		nums := []uint64{uint64(h.ProtocolID), uint64(h.Version), uint64(h.SubVersion), uint64(h.Status), uint64(h.Unknown2), uint64(h.Unknown3), uint64(h.ManagementVLAN),
			uint64(caps), uint64(c.NativeVLAN), uint64(lciB(c.FullDuplex, 1)), uint64(c.VLANReply.ID), uint64(c.VLANReply.VLAN), uint64(c.VLANQuery.ID), uint64(c.VLANQuery.VLAN),
			uint64(c.PowerConsumption), uint64(c.MTU), uint64(c.ExtendedTrust), uint64(c.UntrustedCOS), uint64(c.Location.Type),
			uint64(c.PowerRequest.ID), uint64(c.PowerRequest.MgmtID), uint64(c.PowerAvailable.ID), uint64(c.PowerAvailable.MgmtID), uint64(poe),
			uint64(e.Unknown1), uint64(e.SequenceNumber), uint64(e.Unknown2)}
		var ss, ns, as, ms, ps, rq, av, us []string
		for _, s := range strs {
			ss = append(ss, lnHex(s))
		}
		for _, n := range nums {
			ns = append(ns, fmt.Sprint(n))
		}
		for _, a := range c.Addresses {
			as = append(as, lnHex(a))
		}
		for _, a := range c.MgmtAddresses {
			ms = append(ms, lnHex(a))
		}
		for _, p := range c.IPPrefixes {
			ones, _ := p.Mask.Size()
			ps = append(ps, fmt.Sprintf("%s/%d", lnHex(p.IP), ones))
		}
		for _, v := range c.PowerRequest.Values {
			rq = append(rq, fmt.Sprint(v))
		}
		for _, v := range c.PowerAvailable.Values {
			av = append(av, fmt.Sprint(v))
		}
		for _, v := range c.Unknown {
			us = append(us, fmt.Sprintf("%d.%d.%s", uint16(v.Type), v.Length, lnHex(v.Value)))
		}
		return fmt.Sprintf("s=%s;n=%s;addrs=%s;mgmt=%s;pfx=%s;preq=%s;pav=%s;unk=%s", strings.Join(ss, "."), strings.Join(ns, "."), strings.Join(as, "|"),
			strings.Join(ms, "|"), strings.Join(ps, "|"), strings.Join(rq, "."), strings.Join(av, "."), strings.Join(us, "|"))
	},
	next: func(l gopacket.Layer, b *lmBuilder) string {
		if b == nil || !b.nextSet {
			return "none"
		}
		return fmt.Sprintf("other%T", b.next)
	},
	extra: func(l gopacket.Layer) []func() {
		c := l.(*layers.CiscoDiscoveryInfo)
		return []func(){func() {
			for _, v := range c.Unknown {
				_ = v.Type.String()
			}
			for _, a := range append(append([]net.IP(nil), c.Addresses...), c.MgmtAddresses...) {
				_ = a.String()
			}
			for _, p := range c.IPPrefixes {
				_ = p.String()
			}
			_ = c.ClusterMaster.String() + c.Unknown1.String() + c.ClusterCommander.String() + c.SwitchMAC.String()
		}}
	},
	tags: func(l gopacket.Layer, cls string, data []byte) []string {
		c := l.(*layers.CiscoDiscoveryInfo)
		var t []string
		if cls == "err" && len(c.Contents) > 0 {
			t = append(t, "error-after-add")
		}
		if cls == "err" && (c.DeviceID != "" || len(c.Unknown) > 0 || c.EnergyWise.EncryptedData != nil || len(c.IPPrefixes) > 0) {
			t = append(t, "residue-after-error")
		}
		if len(c.Addresses) > 1 || len(c.MgmtAddresses) > 1 {
			t = append(t, "several-addresses")
		}
		if len(c.PowerRequest.Values)+len(c.PowerAvailable.Values) > 0 {
			t = append(t, "power-values")
		}
		if c.EnergyWise.Role != "" || c.EnergyWise.ReplyPort != nil {
			t = append(t, "energywise-inner")
		}
		return t
	},
}

func (lcdpinfo) Run(c Case) Result { return lmRun(lcdpinfoDesc, c) }

func lciTLV(ty int, v []byte) []byte {
	ln := len(v) + 4
	return append([]byte{byte(ty >> 8), byte(ty), byte(ln >> 8), byte(ln)}, v...)
}
func lciU32(v uint32) []byte { return []byte{byte(v >> 24), byte(v >> 16), byte(v >> 8), byte(v)} }

// one address entry: protocol type/length/protocol, address length, address
func lciAddr(rng *rand.Rand, kind int) []byte {
	switch kind {
	case 0: // NLPID IPv4
		return append([]byte{1, 1, 0xcc, 0, 4}, lnRandBytes(rng, 4)...)
	case 1: // 802.2 IPv6
		return append([]byte{2, 8, 0xaa, 0xaa, 3, 0, 0, 0, 8, 0, 0, 16}, lnRandBytes(rng, 16)...)
	case 2: // 802.2 3-octet protocol, odd address
		n := rng.Intn(7)
		return append([]byte{2, 3, 0xaa, 0xaa, 3, 0, byte(n)}, lnRandBytes(rng, n)...)
	default: // NLPID CLNP, unhandled
		n := rng.Intn(12)
		return append([]byte{1, 1, 0x81, 0, byte(n)}, lnRandBytes(rng, n)...)
	}
}
func lciAddrs(rng *rand.Rand, n int) []byte {
	v := lciU32(uint32(n))
	for i := 0; i < n; i++ {
		v = append(v, lciAddr(rng, rng.Intn(4))...)
	}
	return v
}
func lciEWInner(ty uint32, v []byte) []byte { return append(append(lciU32(ty), lciU32(uint32(len(v)))...), v...) }
func lciEW(rng *rand.Rand, inner [][]byte) []byte {
	v := lnRandBytes(rng, 68)
	var d []byte
	for _, x := range inner {
		d = append(d, x...)
	}
	v = append(v, byte(len(d)>>8), byte(len(d)), byte(len(inner)>>8), byte(len(inner)))
	return append(v, d...)
}
func lciEWRand(rng *rand.Rand) []byte {
	var inner [][]byte
	for k := lnPick(rng, 0, 1, 2, 3, 4); k > 0; k-- {
		inner = append(inner, lciEWInner(uint32(lnPick(rng, 7, 8, 9, 0x17, 0x17, 1)), lnRandBytes(rng, lnPick(rng, 0, 1, 5, 17, 18, 19, 30))))
	}
	return lciEW(rng, inner)
}

// a valid value for the TLV type
func lciValue(rng *rand.Rand, ty int) []byte {
	switch ty {
	case 2, 0x16:
		return lciAddrs(rng, lnPick(rng, 1, 1, 2, 3, 5))
	case 4, 0x11:
		return lnRandBytes(rng, lnPick(rng, 4, 4, 5, 8))
	case 7:
		n := lnPick(rng, 1, 2, 3)
		v := []byte{}
		for i := 0; i < n; i++ {
			v = append(v, append(lnRandBytes(rng, 4), byte(rng.Intn(33)))...)
		}
		return v
	case 8:
		return lnRandBytes(rng, lnPick(rng, 32, 32, 33, 40))
	case 0xa, 0x10:
		return lnRandBytes(rng, lnPick(rng, 2, 2, 3))
	case 0xb, 0x12, 0x13, 0x1f:
		return lnRandBytes(rng, lnPick(rng, 1, 1, 2))
	case 0xe, 0xf:
		return lnRandBytes(rng, lnPick(rng, 3, 3, 4))
	case 0x17:
		return lnRandBytes(rng, lnPick(rng, 2, 3, 10))
	case 0x19, 0x1a:
		return lnRandBytes(rng, 4+4*lnPick(rng, 0, 1, 2, 3))
	case 0x1d:
		return lciEWRand(rng)
	}
	return lnRandBytes(rng, lnPick(rng, 0, 1, 2, 5, 17))
}

var lciTypes = []int{1, 2, 3, 4, 5, 6, 7, 8, 9, 0xa, 0xb, 0xe, 0xf, 0x10, 0x11, 0x12, 0x13, 0x14, 0x15, 0x16, 0x17, 0x18, 0x19, 0x1a, 0x1b, 0x1d, 0x1f, 0, 0xc, 0x1c, 0x1e, 0x20, 0xffff}

func (lcdpinfo) Gen(rng *rand.Rand, tier string) []Case {
	valid := func(rng *rand.Rand) []byte {
		var p []byte
		for k := lnPick(rng, 0, 1, 2, 3, 5, 8); k > 0; k-- {
			ty := lciTypes[rng.Intn(len(lciTypes))]
			p = append(p, lciTLV(ty, lciValue(rng, ty))...)
		}
		return p
	}
	var seeds [][]byte
	for _, s := range lsSnapSeeds(0x2000) {
		if len(s) > 4 {
			seeds = append(seeds, s[4:])
		}
	}
	return lmGen(lcdpinfoDesc, lmGenCfg{valid: valid, hdrLen: func(p []byte) int { return len(p) }, seeds: seeds,
		extra: func(rng *rand.Rand, add func(ops ...string)) {
			tail := lciTLV(1, []byte{65, 66, 67})
			// consistent-length cuts: every typed TLV ends exactly at every internal boundary of its value (outer length
			// rewritten), as the last TLV of the packet and followed by another TLV
			for _, ty := range lciTypes {
				for rep := 0; rep < 2; rep++ {
					v := lciValue(rng, ty)
					if ty == 0x19 || ty == 0x1a {
						v = lnRandBytes(rng, 14)
					}
					for k := 0; k <= len(v); k++ {
						if k > 80 && k%7 != 0 && k < len(v)-2 {
							continue
						}
						add("tag:consistent-cut", "dec:"+lnHex(lciTLV(ty, v[:k])))
						add("tag:consistent-cut", "dec:"+lnHex(append(append(lciTLV(3, []byte{80}), lciTLV(ty, v[:k])...), tail...)))
					}
				}
			}
			// every type octet pair around the known ones, value lengths 0..4
			for ty := 0; ty < 40; ty++ {
				for n := 0; n <= 4; n++ {
					add("tag:type-every-value", "dec:"+lnHex(append(lciTLV(ty, lnRandBytes(rng, n)), tail...)))
				}
			}
			// IP prefix: every prefix length octet, lengths around multiples of 5
			for m := 0; m < 256; m++ {
				add("tag:prefix-length-extreme", "dec:"+lnHex(append(lciTLV(7, append(lnRandBytes(rng, 4), 24)), lciTLV(7, append(lnRandBytes(rng, 4), byte(m)))...)))
			}
			for n := 0; n <= 16; n++ {
				add("tag:prefix-length-extreme", "dec:"+lnHex(lciTLV(7, lnRandBytes(rng, n))))
			}
			// addresses: the count field, protocol type/length, address length forced
			for _, ty := range []int{2, 0x16} {
				for _, na := range []uint32{0, 1, 2, 3, 4, 5, 0x7fffffff, 0x80000000, 0xffffffff, 0x20000000, 0x1fffffff} {
					v := lciAddrs(rng, 3)
					copy(v, lciU32(na))
					add("tag:count-extreme", "dec:"+lnHex(lciTLV(ty, v)))
					add("tag:count-extreme", "dec:"+lnHex(append(lciTLV(ty, v), tail...)))
				}
				for pt := 0; pt < 4; pt++ {
					for pl := 0; pl <= 10; pl++ {
						v := append(lciU32(1), byte(pt), byte(pl))
						v = append(v, lnRandBytes(rng, pl)...)
						v = append(v, 0, 4, 1, 2, 3, 4)
						add("tag:option-length-extreme", "dec:"+lnHex(lciTLV(ty, v)))
						add("tag:option-length-extreme", "dec:"+lnHex(lciTLV(ty, v[:len(v)-rng.Intn(7)])))
					}
				}
				for _, rest := range []int{0, 1, 4, 16, 20} {
					for _, al := range []int{0, 1, 3, 4, 5, 15, 16, 17, rest - 1, rest, rest + 1, 255, 256, 65535} {
						if al < 0 {
							continue
						}
						for _, proto := range [][]byte{{1, 1, 0xcc}, {2, 8, 0xaa, 0xaa, 3, 0, 0, 0, 8, 0}} {
							v := append(lciU32(uint32(lnPick(rng, 1, 2))), proto...)
							v = append(v, byte(al>>8), byte(al))
							v = append(v, lnRandBytes(rng, rest)...)
							add("tag:option-length-extreme", "dec:"+lnHex(lciTLV(ty, v)))
							add("tag:option-length-extreme", "dec:"+lnHex(append(lciTLV(ty, v), lciTLV(ty, lciAddrs(rng, 1))...)))
						}
					}
				}
				// second address entry cut everywhere while the count says 2
				v := append(lciU32(2), lciAddr(rng, 0)...)
				second := lciAddr(rng, 1)
				for k := 0; k <= len(second); k++ {
					add("tag:consistent-cut", "dec:"+lnHex(lciTLV(ty, append(lnCopy(v), second[:k]...))))
				}
			}
			// power: lengths 4..13, last and not last
			for _, ty := range []int{0x19, 0x1a} {
				for n := 0; n <= 13; n++ {
					add("tag:value-length-extreme", "dec:"+lnHex(lciTLV(ty, lnRandBytes(rng, n))))
					add("tag:value-length-extreme", "dec:"+lnHex(append(lciTLV(ty, lnRandBytes(rng, n)), tail...)))
					add("tag:value-length-extreme", "dec:"+lnHex(append(lciTLV(ty, lnRandBytes(rng, n)), lciTLV(ty, lnRandBytes(rng, 8))...)))
				}
			}
			// EnergyWise: outer TLV length / count fields and the inner lengths forced
			for _, tl := range []int{0, 1, -1, -2, -3, 65535} { // relative to the real inner length: 0 exact, 1 one more, -1 one less, -2 zero, -3 one
				for _, tn := range []int{0, 1, 2, 3, 4, 65535} {
					inner := [][]byte{lciEWInner(7, lnRandBytes(rng, 5)), lciEWInner(0x17, lnRandBytes(rng, lnPick(rng, 17, 18, 19))), lciEWInner(9, lnRandBytes(rng, 9))}
					v := lciEW(rng, inner)
					real := len(v) - 72
					l := real
					switch tl {
					case 1:
						l = real + 1
					case -1:
						l = real - 1
					case -2:
						l = 0
					case -3:
						l = 1
					case 65535:
						l = 65535
					}
					v[68], v[69], v[70], v[71] = byte(l>>8), byte(l), byte(tn>>8), byte(tn)
					add("tag:count-extreme", "dec:"+lnHex(lciTLV(0x1d, v)))
				}
			}
			for _, ty := range []uint32{7, 8, 9, 0x17, 0} {
				for _, rest := range []int{0, 1, 8, 9, 17, 18, 19, 30} {
					for _, il := range []int64{0, 1, int64(rest) - 1, int64(rest), int64(rest) + 1, 0x7fffffff, 0x80000000, 0xffffffff} {
						if il < 0 {
							continue
						}
						v := lnRandBytes(rng, 68)
						d := append(append(lciU32(ty), lciU32(uint32(il))...), lnRandBytes(rng, rest)...)
						v = append(v, byte(len(d)>>8), byte(len(d)), 0, 2)
						v = append(v, d...)
						add("tag:option-length-extreme", "dec:"+lnHex(lciTLV(0x1d, v)))
						add("tag:option-length-extreme", "dec:"+lnHex(append(lciTLV(0x1d, v), tail...)))
					}
				}
			}
			// outer TLV length field forced against what is left (the walk of the parent layer, repeated here)
			for _, rest := range []int{0, 1, 4, 20} {
				for _, ln := range []int{0, 1, 3, 4, 5, rest + 3, rest + 4, rest + 5, 255, 256, 65535} {
					p := append(lciTLV(1, []byte{65}), byte(0), byte(lnPick(rng, 1, 2, 8, 0x19)), byte(ln>>8), byte(ln))
					add("tag:value-length-extreme", "dec:"+lnHex(append(p, lnRandBytes(rng, rest)...)))
				}
			}
			// every TLV type in one packet, then an error at the end (maximal residue on the error path)
			var all []byte
			for _, ty := range lciTypes {
				all = append(all, lciTLV(ty, lciValue(rng, ty))...)
			}
			add("tag:residue-options", "dec:"+lnHex(all))
			add("tag:residue-options", "dec:"+lnHex(append(lnCopy(all), lciTLV(4, []byte{1})...)))
			add("tag:residue-options", "dec:"+lnHex(append(lnCopy(all), lciTLV(7, []byte{1, 2, 3, 4, 99})...)))
			add("tag:residue-options", "dec:"+lnHex(append(lnCopy(all), 0, 1, 0)))
			big := lciTLV(0x19, lnRandBytes(rng, 8004))
			add("tag:value-length-extreme", "dec:"+lnHex(big))
			add("tag:value-length-extreme", "dec:"+lnHex(lciTLV(1, lnRandBytes(rng, 65531))))
		}}, rng, tier)
}
