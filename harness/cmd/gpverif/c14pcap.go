package main

// C14pcap: classic pcap writer -> reader round trip, and every truncation offset of the
// produced file gives a true prefix of the packets.
//
// ops:  w:ns,snap,lt           file produced by pcapgo.Writer (little endian)
//       h:be,ns,snap,lt        file built by the harness' own encoder (either byte order)
//       p:sec,nsec,caplen,len,hexdata    one packet (WritePacket call / record)
//       zc:0|1                 ReadPacketData / ZeroCopyReadPacketData
//       cuts:all | cuts:k,k,.. truncation offsets to read the file at
// observations: step 0 file=<hex>;werr=<class per WritePacket>, step 1 header of the whole
// file, then one line per read call on the whole file, then one line per cut:
//       cut=k;hdr=<class>[;n=<packets returned>;end=<class of the first non-ok>;pfx=<1 iff the
//       returned packets equal the first n of the whole-file read>]

import (
	"bytes"
	"encoding/hex"
	"fmt"
	"math/rand"
	"strconv"
	"strings"
	"time"

	"github.com/gopacket/gopacket"
	"github.com/gopacket/gopacket/layers"
	"github.com/gopacket/gopacket/pcapgo"
)

type c14pcap struct{}

// set by c14pcap_libpcap.go when the harness is built with cgo (libpcap available)
var c14LibpcapRead func(file []byte, maxPkts int) ([]pcRes, error)

func init() { register("C14pcap", c14pcap{}) }

var c14DataLens = []int{0, 0, 1, 2, 3, 4, 5, 15, 16, 17, 31, 60, 64, 100, 256, 1500}
var c14Secs = []int64{0, 1, 2147483647, 2147483648, 4294967295, 1411042394}
var c14Nsecs = []int64{0, 1, 999, 1000, 1001, 999999, 1000000, 999999999, 123456789}
var c14LTs = []uint64{0, 1, 101, 105, 113, 127, 228, 255, 256, 65535}

func c14RandData(rng *rand.Rand, n int) []byte {
	b := make([]byte, n)
	switch rng.Intn(4) {
	case 0: // looks like a record header: self-similar data
		for i := range b {
			b[i] = byte(i % 7)
		}
	case 1:
		for i := range b {
			b[i] = 0xff
		}
	default:
		rng.Read(b)
	}
	return b
}

func c14RandPkt(rng *rand.Rand, maxData int) pcPkt {
	n := c14DataLens[rng.Intn(len(c14DataLens))]
	if rng.Intn(8) == 0 {
		n = rng.Intn(maxData + 1)
	}
	if n > maxData {
		n = maxData
	}
	p := pcPkt{data: c14RandData(rng, n), caplen: int64(n)}
	switch rng.Intn(5) {
	case 0:
		p.len = p.caplen + int64(rng.Intn(1500))
	case 1:
		p.len = 4294967295
	case 2:
		p.len = p.caplen + 1
	default:
		p.len = p.caplen
	}
	if rng.Intn(2) == 0 {
		p.sec = c14Secs[rng.Intn(len(c14Secs))]
	} else {
		p.sec = rng.Int63n(4294967296)
	}
	if rng.Intn(2) == 0 {
		p.nsec = c14Nsecs[rng.Intn(len(c14Nsecs))]
	} else {
		p.nsec = rng.Int63n(1000000000)
	}
	return p
}

// c14GenFile returns the ops describing a file (without zc/cuts) and its length
func c14GenFile(rng *rand.Rand, maxBytes int, outOfHyp bool, maxSnap uint64) ([]string, int, []int) {
	hand := rng.Intn(2) == 0
	be := hand && rng.Intn(2) == 0
	nano := rng.Intn(2) == 0
	var pkts []pcPkt
	total := 24
	bounds := []int{24}
	npk := rng.Intn(8)
	if rng.Intn(6) == 0 {
		npk = 0
	}
	for i := 0; i < npk || (maxBytes > 8192 && total < maxBytes/2); i++ {
		p := c14RandPkt(rng, 1500)
		if total+16+len(p.data) > maxBytes {
			p.data = p.data[:0]
			p.caplen = 0
			if p.len < 0 {
				p.len = 0
			}
			if total+16 > maxBytes {
				break
			}
		}
		pkts = append(pkts, p)
		total += 16 + len(p.data)
		bounds = append(bounds, total)
	}
	maxcap := int64(0)
	for _, p := range pkts {
		if p.caplen > maxcap {
			maxcap = p.caplen
		}
	}
	var snap uint64
	switch rng.Intn(5) {
	case 0:
		snap = uint64(maxcap) // tight
	case 1:
		snap = 65535
	case 2:
		snap = 262144
	case 3:
		snap = 4294967295
	default:
		snap = uint64(maxcap) + uint64(rng.Intn(100))
	}
	if snap > maxSnap { // zero-copy reads allocate snaplen bytes: keep the run cheap
		snap = maxSnap
	}
	lt := c14LTs[rng.Intn(len(c14LTs))]
	if outOfHyp && len(pkts) > 0 {
		i := rng.Intn(len(pkts))
		switch rng.Intn(6) {
		case 0:
			pkts[i].caplen++ // caplen != len(data)
			if pkts[i].len < pkts[i].caplen {
				pkts[i].len = pkts[i].caplen
			}
		case 1:
			if pkts[i].caplen > 0 {
				pkts[i].len = pkts[i].caplen - 1 // len < caplen
			} else {
				pkts[i].caplen, pkts[i].len = 1, 0
			}
		case 2:
			if maxcap > 0 {
				snap = uint64(maxcap - 1) // caplen > snaplen
			}
		case 3:
			pkts[i].sec = -1 - rng.Int63n(1000)
		case 4:
			pkts[i].sec = 4294967296 + rng.Int63n(1000)
		case 5:
			pkts[i].len = 4294967296 + pkts[i].caplen // wraps in the 32-bit field
		}
		if hand && rng.Intn(3) == 0 {
			lt = 65536 + uint64(rng.Intn(1000))
		}
		if hand && rng.Intn(3) == 0 { // fractional field beyond one second
			pkts[i].nsec = 1000000000 + rng.Int63n(4000000000000)
		}
	}
	var ops []string
	b2i := func(b bool) int {
		if b {
			return 1
		}
		return 0
	}
	if hand {
		ops = append(ops, fmt.Sprintf("h:%d,%d,%d,%d", b2i(be), b2i(nano), snap, lt))
	} else {
		ops = append(ops, fmt.Sprintf("w:%d,%d,%d", b2i(nano), snap, lt))
	}
	for _, p := range pkts {
		ops = append(ops, p.op())
	}
	return ops, total, bounds
}

func (c14pcap) Gen(rng *rand.Rand, tier string) []Case {
	var out []Case
	nSmall, nBig := 100, 30
	if tier == "thorough" {
		nSmall, nBig = 1500, 400
	}
	for i := 0; i < nSmall; i++ {
		maxBytes := 4096
		if i%3 == 0 {
			maxBytes = 200 + rng.Intn(600)
		}
		maxSnap := uint64(4294967295)
		if i%2 == 1 {
			maxSnap = 262144
		}
		ops, _, _ := c14GenFile(rng, maxBytes, i%8 == 7, maxSnap)
		ops = append(ops, fmt.Sprintf("zc:%d", i%2), "cuts:all")
		out = append(out, Case{Prop: "C14pcap", Ops: ops})
	}
	for i := 0; i < nBig; i++ {
		maxSnap := uint64(4294967295)
		if i%2 == 1 {
			maxSnap = 1 << 22
		}
		ops, total, bounds := c14GenFile(rng, 16384+rng.Intn(50000), i%10 == 9, maxSnap)
		var cuts []string
		seen := map[int]bool{}
		add := func(k int) {
			if k >= 0 && k <= total && !seen[k] {
				seen[k] = true
				cuts = append(cuts, strconv.Itoa(k))
			}
		}
		for k := 0; k <= 26; k++ {
			add(k)
		}
		for j := 0; j < 12 && len(bounds) > 0; j++ {
			b := bounds[rng.Intn(len(bounds))]
			for _, d := range []int{-1, 0, 1, 15, 16, 17} {
				add(b + d)
			}
		}
		for j := 0; j < 40; j++ {
			add(rng.Intn(total + 1))
		}
		add(total)
		ops = append(ops, fmt.Sprintf("zc:%d", i%2), "cuts:"+strings.Join(cuts, ","))
		out = append(out, Case{Prop: "C14pcap", Ops: ops})
	}
	return out
}

type c14Parsed struct {
	writer       bool
	be, nano, zc bool
	snap, lt     uint64
	pkts         []pcPkt
	cutsAll      bool
	cuts         []int
}

func c14Parse(c Case) c14Parsed {
	var p c14Parsed
	for _, op := range c.Ops {
		name, arg, _ := strings.Cut(op, ":")
		a := strings.Split(arg, ",")
		switch name {
		case "w":
			p.writer = true
			p.nano = a[0] == "1"
			p.snap, _ = strconv.ParseUint(a[1], 10, 64)
			p.lt, _ = strconv.ParseUint(a[2], 10, 64)
		case "h":
			p.be = a[0] == "1"
			p.nano = a[1] == "1"
			p.snap, _ = strconv.ParseUint(a[2], 10, 64)
			p.lt, _ = strconv.ParseUint(a[3], 10, 64)
		case "p":
			p.pkts = append(p.pkts, parsePkt(arg))
		case "zc":
			p.zc = arg == "1"
		case "cuts":
			if arg == "all" {
				p.cutsAll = true
			} else if arg != "" {
				for _, s := range a {
					k, _ := strconv.Atoi(s)
					p.cuts = append(p.cuts, k)
				}
			}
		}
	}
	return p
}

func (c14pcap) Run(c Case) Result {
	var res Result
	p := c14Parse(c)
	tags := map[string]bool{}
	// ---- produce the file
	var file []byte
	var werr []string
	accepted := make([]bool, len(p.pkts))
	if p.writer {
		var buf bytes.Buffer
		var w *pcapgo.Writer
		if p.nano {
			w = pcapgo.NewWriterNanos(&buf)
		} else {
			w = pcapgo.NewWriter(&buf)
		}
		if err := w.WriteFileHeader(uint32(p.snap), layers.LinkType(p.lt)); err != nil {
			res.Oracle = append(res.Oracle, "C14:roundtrip\tWriteFileHeader failed: "+err.Error())
		}
		for i, pk := range p.pkts {
			ci := gopacket.CaptureInfo{Timestamp: time.Unix(pk.sec, pk.nsec), CaptureLength: int(pk.caplen), Length: int(pk.len)}
			cls := "0"
			func() {
				defer func() {
					if r := recover(); r != nil {
						cls = "-1"
						res.Oracle = append(res.Oracle, fmt.Sprintf("C14:roundtrip\tWritePacket panicked: %v", r))
					}
				}()
				if err := w.WritePacket(ci, pk.data); err != nil {
					cls = "4"
				}
			}()
			accepted[i] = cls == "0"
			werr = append(werr, cls)
		}
		file = buf.Bytes()
	} else {
		file = pcEncHeader(p.be, p.nano, p.snap, p.lt)
		for i, pk := range p.pkts {
			file = append(file, pcEncRecord(p.be, p.nano, pk)...)
			accepted[i] = true
		}
	}
	res.Obs = append(res.Obs, "file="+hex.EncodeToString(file)+";werr="+strings.Join(werr, ","))
	if p.nano {
		tags["nano"] = true
	}
	if p.be {
		tags["big-endian"] = true
	}
	if p.zc {
		tags["zero-copy"] = true
	}
	// ---- whole file
	fuel := len(file)/16 + 2
	full := runReader("pcap", p.zc, fuel, bytes.NewReader(file), false)
	res.Obs = append(res.Obs, full.obs()...)
	if full.panicMsg != "" {
		res.Oracle = append(res.Oracle, "C14:roundtrip\tpanic: "+full.panicMsg)
	}
	if full.laterBad != "" {
		res.Oracle = append(res.Oracle, "C14:later-read-alters-earlier\t"+full.laterBad)
	}
	// ---- the property's hypotheses (what WritePacket enforces + caplen<=snaplen + representable values)
	inHyp := p.snap < 1<<32 && p.lt < 65536
	var want []pcRes
	bounds := []int{24} // offsets in the file at which a record ends
	sc := int64(1000)
	if p.nano {
		sc = 1
	}
	for i, pk := range p.pkts {
		if !(pk.caplen == int64(len(pk.data)) && pk.caplen <= pk.len && pk.len < 1<<32 && uint64(pk.caplen) <= p.snap &&
			pk.sec >= 0 && pk.sec < 1<<32 && pk.nsec >= 0 && pk.nsec < 1000000000) || !accepted[i] {
			inHyp = false
			break
		}
		want = append(want, pcRes{cls: "ok", sec: pk.sec, nsec: pk.nsec / sc * sc, caplen: int(pk.caplen), length: int(pk.len), data: pk.data})
		bounds = append(bounds, bounds[len(bounds)-1]+16+len(pk.data))
	}
	if !inHyp {
		tags["out-of-hyp"] = true
	}
	nsWant := 0
	if p.nano {
		nsWant = 1
	}
	if inHyp {
		// round trip
		wantHdr := fmt.Sprintf("hdr=ok;ns=%d;snap=%d;lt=%d", nsWant, p.snap, p.lt)
		if full.hdrObs != wantHdr {
			res.Oracle = append(res.Oracle, fmt.Sprintf("C14:roundtrip\theader read back as %s, written %s", full.hdrObs, wantHdr))
		} else if len(full.res) != len(want)+1 {
			res.Oracle = append(res.Oracle, fmt.Sprintf("C14:roundtrip\t%d packets written, %d read calls before the end", len(want), len(full.res)))
		} else {
			for i := range want {
				if !full.res[i].equal(want[i]) {
					res.Oracle = append(res.Oracle, fmt.Sprintf("C14:roundtrip\tpacket %d written %s read %s", i, want[i], full.res[i]))
					break
				}
			}
			if full.res[len(want)].cls != "eof" {
				res.Oracle = append(res.Oracle, "C14:roundtrip\tafter the last packet: "+full.res[len(want)].cls+" (want eof)")
			}
		}
		if len(bounds) > 0 && bounds[len(bounds)-1] != len(file) {
			res.Oracle = append(res.Oracle, fmt.Sprintf("C14:roundtrip\tfile length %d, records end at %d", len(file), bounds[len(bounds)-1]))
		}
	}
	// ---- support oracle (testing only): libpcap reads the same packets from the whole file
	if inHyp && c14LibpcapRead != nil && p.snap >= 1 && p.snap <= 262144 && len(want) > 0 {
		early := true // libpcap 1.10 reads tv_sec as a signed 32-bit value: seconds are compared mod 2^32
		if early {
			got, err := c14LibpcapRead(file, len(want)+1)
			tags["libpcap"] = true
			if err != nil {
				res.Oracle = append(res.Oracle, "C14:libpcap\t"+err.Error())
			} else if len(got) != len(want)+1 {
				res.Oracle = append(res.Oracle, fmt.Sprintf("C14:libpcap\tlibpcap returned %d results for %d packets", len(got), len(want)))
			} else {
				for i := range want {
					g := got[i]
					g.sec = int64(uint32(g.sec))
					if !g.equal(want[i]) {
						res.Oracle = append(res.Oracle, fmt.Sprintf("C14:libpcap\tpacket %d written %s, libpcap reads %s %s", i, want[i], got[i], got[i].detail))
						break
					}
				}
				if got[len(want)].cls != "eof" {
					res.Oracle = append(res.Oracle, "C14:libpcap\tafter the last packet libpcap reports "+got[len(want)].cls+" "+got[len(want)].detail)
				}
			}
		}
	}
	// ---- cuts
	cuts := p.cuts
	if p.cutsAll {
		cuts = nil
		for k := 0; k <= len(file); k++ {
			cuts = append(cuts, k)
		}
	}
	prefixReported := false
	for _, k := range cuts {
		if k < 0 || k > len(file) {
			continue
		}
		run := runReader("pcap", p.zc, fuel, bytes.NewReader(file[:k]), false)
		line := fmt.Sprintf("cut=%d;%s", k, run.hdr2())
		n := 0
		end := "nofuel"
		if run.hdr == "ok" {
			for n < len(run.res) && run.res[n].cls == "ok" {
				n++
			}
			if n < len(run.res) {
				end = run.res[n].cls
			}
			pfx := 1
			for i := 0; i < n; i++ {
				if i >= len(full.res) || !full.res[i].equal(run.res[i]) {
					pfx = 0
				}
			}
			line += fmt.Sprintf(";n=%d;end=%s;pfx=%d", n, end, pfx)
		}
		res.Obs = append(res.Obs, line)
		// tags
		if k < 24 {
			tags["cut-in-file-header"] = true
		} else if inHyp {
			at := false
			inHdr := false
			for i, b := range bounds {
				if k == b {
					at = true
				}
				if i+1 < len(bounds) && k > b && k < b+16 {
					inHdr = true
				}
			}
			switch {
			case at:
				tags["cut-at-boundary"] = true
			case inHdr:
				tags["cut-in-header"] = true
			default:
				tags["cut-in-data"] = true
			}
		}
		// true-prefix oracle
		if inHyp && !prefixReported {
			bad := ""
			if k < 24 {
				if run.hdr == "ok" || run.hdr == "panic" {
					bad = "file header cut short but NewReader gave " + run.hdr
				}
			} else if run.hdr != "ok" {
				bad = "NewReader failed: " + run.hdr
			} else {
				wantN := 0
				for wantN+1 < len(bounds) && bounds[wantN+1] <= k {
					wantN++
				}
				wantEnd := "ueof"
				if bounds[wantN] == k {
					wantEnd = "eof"
				}
				if n != wantN || end != wantEnd {
					bad = fmt.Sprintf("returned %d packets then %s, want %d then %s", n, end, wantN, wantEnd)
				} else {
					for i := 0; i < n; i++ {
						if !run.res[i].equal(want[i]) {
							bad = fmt.Sprintf("packet %d altered: %s", i, run.res[i])
							break
						}
					}
				}
			}
			if bad != "" {
				res.Oracle = append(res.Oracle, fmt.Sprintf("C14:prefix\tk=%d of %d: %s", k, len(file), bad))
				prefixReported = true
			}
		}
	}
	for t := range tags {
		res.Tags = append(res.Tags, t)
	}
	return res
}

func (run pcapRun) hdr2() string { return "hdr=" + run.hdr }
