package main

// Llcm, Lasf, Lrmcp: layers/lcm.go (decoder only), layers/asf.go and layers/rmcp.go (codecs) sub-checks.
// Ops: dec dec2 (all), ser new rt rtn (Lasf, Lrmcp).

import (
	"fmt"
	"math/rand"
	"strings"

	"github.com/gopacket/gopacket"
	"github.com/gopacket/gopacket/layers"
)

type llcm struct{}
type lasf struct{}
type lrmcp struct{}

// the one LCM fingerprint with a registered layer type in this binary (NextLayerType id 1)
const llcmTestFingerprint = layers.LCMFingerprint(0x0102030405060708)

var llcmTestType gopacket.LayerType

func init() {
	register("Llcm", llcm{})
	register("Lasf", lasf{})
	register("Lrmcp", lrmcp{})
	llcmTestType = layers.RegisterLCMLayerType(1977, "LCMVerifTest", llcmTestFingerprint, gopacket.DecodePayload)
}

var llcmDesc = &lmDesc{
	id: "Llcm", name: "LCM",
	fresh: func() gopacket.Layer { return &layers.LCM{} },
	decode: func(l gopacket.Layer, data []byte, fb gopacket.DecodeFeedback) error {
		return l.(*layers.LCM).DecodeFromBytes(data, fb)
	},
	fields: func(l gopacket.Layer) string {
		m := l.(*layers.LCM)
		return fmt.Sprintf("magic=%d;seq=%d;ps=%d;fo=%d;fn=%d;tf=%d;name=%s;frag=%s;fp=%016x", m.Magic, m.SequenceNumber, m.PayloadSize, m.FragmentOffset, m.FragmentNumber, m.TotalFragments,
			lnHex([]byte(m.ChannelName)), lnB(m.Fragmented), uint64(m.Fingerprint()))
	},
	next: func(l gopacket.Layer, _ *lmBuilder) string {
		switch t := l.(*layers.LCM).NextLayerType(); t {
		case gopacket.LayerTypePayload:
			return "0"
		case llcmTestType:
			return "1"
		case gopacket.LayerTypeFragment:
			return "2"
		default:
			return fmt.Sprintf("other%d", t)
		}
	},
	extra: func(l gopacket.Layer) []func() {
		m := l.(*layers.LCM)
		return []func(){func() { _, _ = m.Payload(), m.CanDecode() }}
	},
	tags: func(l gopacket.Layer, cls string, data []byte) []string {
		m := l.(*layers.LCM)
		var t []string
		if cls == "ok" && m.Fragmented && m.FragmentNumber != 0 {
			t = append(t, "later-fragment")
		}
		if cls == "ok" && len(m.LayerPayload()) < 8 {
			t = append(t, "no-fingerprint")
		}
		if cls == "ok" && (!m.Fragmented || m.FragmentNumber == 0) && len(m.LayerContents()) == len(data) && len(data) > 0 && data[len(data)-1] != 0 {
			t = append(t, "name-not-terminated")
		}
		if cls == "err" && len(data) >= 8 {
			t = append(t, "error-after-fields-set")
		}
		return t
	},
}

var lasfDesc = &lmDesc{
	id: "Lasf", name: "ASF", ser: true,
	fresh: func() gopacket.Layer { return &layers.ASF{} },
	decode: func(l gopacket.Layer, data []byte, fb gopacket.DecodeFeedback) error {
		return l.(*layers.ASF).DecodeFromBytes(data, fb)
	},
	fields: func(l gopacket.Layer) string {
		a := l.(*layers.ASF)
		return fmt.Sprintf("ent=%d;ty=%d;tag=%d;len=%d", a.Enterprise, a.Type, a.Tag, a.Length)
	},
	next: func(l gopacket.Layer, _ *lmBuilder) string {
		switch t := l.(*layers.ASF).NextLayerType(); t {
		case gopacket.LayerTypePayload:
			return "0"
		case layers.LayerTypeASFPresencePong:
			return "1"
		default:
			return fmt.Sprintf("other%d", t)
		}
	},
	fromSpec: func(spec string) gopacket.Layer {
		f := strings.Split(spec, ".")
		return &layers.ASF{ASFDataIdentifier: layers.ASFDataIdentifier{Enterprise: uint32(lnAtoi(f[0])), Type: uint8(lnAtoi(f[1]))}, Tag: uint8(lnAtoi(f[2])), Length: uint8(lnAtoi(f[3]))}
	},
}

var lrmcpDesc = &lmDesc{
	id: "Lrmcp", name: "RMCP", ser: true,
	fresh: func() gopacket.Layer { return &layers.RMCP{} },
	decode: func(l gopacket.Layer, data []byte, fb gopacket.DecodeFeedback) error {
		return l.(*layers.RMCP).DecodeFromBytes(data, fb)
	},
	fields: func(l gopacket.Layer) string {
		r := l.(*layers.RMCP)
		return fmt.Sprintf("v=%d;seq=%d;ack=%s;cl=%d", r.Version, r.Sequence, lnB(r.Ack), uint8(r.Class))
	},
	next: func(l gopacket.Layer, _ *lmBuilder) string {
		switch t := l.(*layers.RMCP).NextLayerType(); t {
		case gopacket.LayerTypePayload:
			return "0"
		case layers.LayerTypeASF:
			return "1"
		default:
			return fmt.Sprintf("other%d", t)
		}
	},
	fromSpec: func(spec string) gopacket.Layer {
		f := strings.Split(spec, ".")
		return &layers.RMCP{Version: uint8(lnAtoi(f[0])), Sequence: uint8(lnAtoi(f[1])), Ack: f[2] == "1", Class: layers.RMCPClass(lnAtoi(f[3]))}
	},
	inDomain: func(l gopacket.Layer, _ []byte) bool { return l.(*layers.RMCP).Class < 16 },
	extra: func(l gopacket.Layer) []func() {
		r := l.(*layers.RMCP)
		return []func(){func() { _, _ = r.Class.String(), r.Payload() }}
	},
}

func (llcm) Run(c Case) Result  { return lmRun(llcmDesc, c) }
func (lasf) Run(c Case) Result  { return lmRun(lasfDesc, c) }
func (lrmcp) Run(c Case) Result { return lmRun(lrmcpDesc, c) }

func (llcm) Gen(rng *rand.Rand, tier string) []Case {
	name := func(rng *rand.Rand) []byte { // channel name, terminated
		k := lnPick(rng, 0, 1, 5, 5, 20, 63)
		b := make([]byte, k+1)
		for i := 0; i < k; i++ {
			b[i] = byte(1 + rng.Intn(255))
		}
		return b
	}
	fp := func(rng *rand.Rand) []byte {
		if rng.Intn(3) == 0 {
			return []byte{1, 2, 3, 4, 5, 6, 7, 8}
		}
		return lnRandBytes(rng, 8)
	}
	short := func(rng *rand.Rand, nm, rest []byte) []byte {
		h := append([]byte{0x4c, 0x43, 0x30, 0x32}, lnRandBytes(rng, 4)...)
		return append(append(h, nm...), rest...)
	}
	frag := func(rng *rand.Rand, fn int, nm, rest []byte) []byte {
		h := append([]byte{0x4c, 0x43, 0x30, 0x33}, lnRandBytes(rng, 12)...)
		h = append(h, byte(fn>>8), byte(fn))
		h = append(h, lnRandBytes(rng, 2)...)
		return append(append(h, nm...), rest...)
	}
	valid := func(rng *rand.Rand) []byte {
		rest := append(fp(rng), lnRandBytes(rng, lnPick(rng, 0, 1, 20))...)
		switch rng.Intn(4) {
		case 0:
			return frag(rng, 0, name(rng), rest)
		case 1:
			return frag(rng, lnPick(rng, 1, 2, 255, 256, 65535), nil, rest)
		}
		return short(rng, name(rng), rest)
	}
	return lmGen(llcmDesc, lmGenCfg{
		valid: valid,
		hdrLen: func(p []byte) int {
			if len(p) > 3 && p[3] == 0x33 {
				return 30
			}
			return 18
		},
		extra: func(rng *rand.Rand, add func(ops ...string)) {
			two := func(tag string, p []byte) {
				add("tag:"+tag, "dec:"+lnHex(p))
				for i := 0; i < 3; i++ { // into objects that held each kind of packet before
					add("tag:"+tag, "dec2:"+lnHex(valid(rng))+","+lnHex(p))
				}
			}
			for _, m := range []int{0x4c433031, 0x4c433032, 0x4c433033, 0x4c433034, 0, 0xffffffff, 0x4c433132} {
				p := valid(rng)
				lmPut32(p[0:], uint32(m))
				two("magic", p)
			}
			for k := 0; k <= 9; k++ { // 0..9 octets behind the name: the fingerprint is there from 8 on
				two("fingerprint-boundary", short(rng, name(rng), fp(rng)[:min(k, 8)]))
				two("fingerprint-boundary", frag(rng, 0, name(rng), lnRandBytes(rng, k)))
				two("fingerprint-boundary", frag(rng, 3, nil, lnRandBytes(rng, k)))
			}
			for _, nm := range [][]byte{{}, {0}, {65}, {65, 0}, {0, 65, 0}, {65, 66, 67}, {0, 0}} { // name at the end of the data, terminated or not
				two("name-at-end", short(rng, nm, nil))
				two("name-at-end", frag(rng, 0, nm, nil))
				two("name-at-end", short(rng, nm, fp(rng)))
			}
			long := make([]byte, 300)
			for i := range long {
				long[i] = 'a'
			}
			two("name-at-end", short(rng, long, nil))
			two("name-at-end", short(rng, append(long, 0), fp(rng)))
		},
	}, rng, tier)
}

func (lasf) Gen(rng *rand.Rand, tier string) []Case {
	valid := func(rng *rand.Rand) []byte {
		p := lmHdrGen(8)(rng)
		if rng.Intn(3) == 0 {
			lmPut32(p[0:], 4542)
			p[4] = byte(lnPick(rng, 0x40, 0x40, 0x80, 0x41))
		}
		return p
	}
	return lmGen(lasfDesc, lmGenCfg{valid: valid, hdrLen: func([]byte) int { return 8 },
		spec: func(rng *rand.Rand) string {
			return fmt.Sprintf("%d.%d.%d.%d", lnPick(rng, 0, 4542, 4542, 0xffffffff, 4543), lnPick(rng, 0, 0x40, 0x80, 255), lnPick(rng, 0, 1, 255), lnPick(rng, 0, 1, 16, 255))
		},
		extra: func(rng *rand.Rand, add func(ops ...string)) {
			lmEveryOctet(lasfDesc, 8, []int{4, 6, 7}, true)(rng, add)
			for _, n := range []int{0, 1, 255, 256, 257, 511, 600} { // FixLengths: the payload length is cut to an octet
				add("tag:payload-length-over-octet", "new:4542.128.1.9,100,"+lnHex(lnRandBytes(rng, n)))
				add("tag:payload-length-over-octet", "rtn:4542.128.1.9,"+lnHex(lnRandBytes(rng, n)))
			}
		}}, rng, tier)
}

func (lrmcp) Gen(rng *rand.Rand, tier string) []Case {
	return lmGen(lrmcpDesc, lmGenCfg{valid: lmHdrGen(4), hdrLen: func([]byte) int { return 4 },
		spec: func(rng *rand.Rand) string {
			return fmt.Sprintf("%d.%d.%d.%d", lnPick(rng, 0, 6, 255), lnPick(rng, 0, 1, 255), rng.Intn(2), lnPick(rng, 0, 6, 7, 8, 15, 15, 16, 134, 255))
		},
		extra: lmEveryOctet(lrmcpDesc, 4, []int{0, 1, 3}, true)}, rng, tier)
}
