package main

// Ludp: layers/udp.go codec sub-check (C19, C05, C06, C07, C01 for UDP).
// Ops:  kp:<csv>            ports whose UDPPort.LayerType() is not Payload (dumped from the implementation; no observation)
//       dec:<hex>  dec2:<hexA>,<hexB>
//       ser:<hex>,<fcd>,<payloadhex>,<ph>    rt:<hex>,<payloadhex>,<ph>   new:<sport>.<dport>.<len>.<csum>,<fcd>,<payloadhex>,<ph>
//       big:<n>,<seed>,<ph>   round trip over a payload of n pseudo-random bytes (LCG from seed), summarised
//       bigser:<n>,<seed>,<fcd>,<ph>   serialization of a field-built layer over such a payload, summarised
// ph = n | 4:<srchex>:<dsthex> | 6:<srchex>:<dsthex>   network layer given to SetNetworkLayerForChecksum

import (
	"bytes"
	"fmt"
	"math/rand"
	"net"
	"strings"

	"github.com/gopacket/gopacket"
	"github.com/gopacket/gopacket/layers"
)

type ludp struct{}

func init() { register("Ludp", ludp{}) }

func udpKnownPorts() []int {
	var k []int
	for p := 0; p < 65536; p++ {
		if layers.UDPPort(p).LayerType() != gopacket.LayerTypePayload {
			k = append(k, p)
		}
	}
	return k
}

func udpNext(u *layers.UDP) (s string) {
	defer func() {
		if recover() != nil {
			s = "panic"
		}
	}()
	lt := u.NextLayerType()
	d, sp := u.DstPort.LayerType(), u.SrcPort.LayerType()
	switch {
	case d != gopacket.LayerTypePayload && lt == d:
		return "d"
	case d == gopacket.LayerTypePayload && lt == sp:
		return "s"
	case lt == sp:
		return "s!"
	}
	return fmt.Sprintf("other%d", lt)
}

func udpFields(u *layers.UDP) string {
	return fmt.Sprintf("sp=%d;dp=%d;len=%d;ck=%d", uint16(u.SrcPort), uint16(u.DstPort), u.Length, u.Checksum)
}

func udpObs(cls string, tr bool, u *layers.UDP) string {
	render := lnRender(u, func() { _ = u.TransportFlow() })
	fl := u.TransportFlow()
	return fmt.Sprintf("cls=%s;tr=%s;%s;c=%s;p=%s;flow=%s>%s;next=%s;render=%s", cls, lnB(tr), udpFields(u),
		lnHex(u.Contents), lnHex(u.Payload), lnHex(fl.Src().Raw()), lnHex(fl.Dst().Raw()), udpNext(u), render)
}

func udpDecode(u *layers.UDP, data []byte) (string, bool) {
	fb := &lnFeedback{}
	cls := lnClass(func() error { return u.DecodeFromBytes(lnCopy(data), fb) })
	return cls, fb.tr
}

func udpAttach(u *layers.UDP, ph string) {
	f := strings.Split(ph, ":")
	switch f[0] {
	case "4":
		ip := &layers.IPv4{}
		if f[1] != "" {
			ip.SrcIP = net.IP(lnUnhex(f[1]))
		}
		if f[2] != "" {
			ip.DstIP = net.IP(lnUnhex(f[2]))
		}
		u.SetNetworkLayerForChecksum(ip)
	case "6":
		ip := &layers.IPv6{}
		if f[1] != "" {
			ip.SrcIP = net.IP(lnUnhex(f[1]))
		}
		if f[2] != "" {
			ip.DstIP = net.IP(lnUnhex(f[2]))
		}
		u.SetNetworkLayerForChecksum(ip)
	}
}

// udpRefValid: one's complement sum over pseudo-header and segment must be 0xffff (RFC 768/1071).
func udpRefValid(ph string, seg []byte) (bool, bool) {
	f := strings.Split(ph, ":")
	if f[0] == "n" {
		return false, false
	}
	src, dst := lnUnhex(f[1]), lnUnhex(f[2])
	var sum uint64
	add := func(b []byte) {
		for i := 0; i+1 < len(b); i += 2 {
			sum += uint64(b[i])<<8 | uint64(b[i+1])
		}
		if len(b)%2 == 1 {
			sum += uint64(b[len(b)-1]) << 8
		}
	}
	if f[0] == "4" {
		if s4 := net.IP(src).To4(); s4 != nil {
			src = s4
		}
		if d4 := net.IP(dst).To4(); d4 != nil {
			dst = d4
		}
		if len(src) != 4 || len(dst) != 4 {
			return false, false
		}
	} else if len(src) != 16 || len(dst) != 16 {
		return false, false
	}
	add(src)
	add(dst)
	sum += 17
	sum += uint64(len(seg))&0xffff + uint64(len(seg))>>16
	add(seg)
	for sum > 0xffff {
		sum = sum>>16 + sum&0xffff
	}
	return true, sum == 0xffff
}

func udpLCG(n, seed int) []byte {
	b := make([]byte, n)
	x := uint32(seed)
	for i := range b {
		x = x*1103515245 + 12345
		b[i] = byte(x >> 16)
	}
	return b
}

func (ludp) Run(c Case) (res Result) {
	for _, op := range c.Ops {
		name, a := lnOp(op)
		switch name {
		case "tag":
			res.Tags = append(res.Tags, a[0])
		case "kp":
		case "dec":
			u := &layers.UDP{}
			cls, tr := udpDecode(u, lnUnhex(a[0]))
			obs := udpObs(cls, tr, u)
			res.Obs = append(res.Obs, obs)
			if cls == "panic" {
				res.Oracle = append(res.Oracle, "C19:panic\tUDP.DecodeFromBytes panicked")
			}
			if strings.HasSuffix(obs, "render=panic") {
				res.Oracle = append(res.Oracle, "C01:render-panic\trenderer or TransportFlow panicked after decode class "+cls)
			}
			if cls == "err" && len(u.Contents) > 0 {
				res.Tags = append(res.Tags, "error-after-add")
			}
			if u.Length == 0 && cls == "ok" {
				res.Tags = append(res.Tags, "jumbo-length-0")
			}
		case "dec2":
			u := &layers.UDP{}
			udpDecode(u, lnUnhex(a[0]))
			if len(u.Payload) > 0 {
				res.Tags = append(res.Tags, "residue-payload")
			}
			cls, tr := udpDecode(u, lnUnhex(a[1]))
			obs := udpObs(cls, tr, u)
			res.Obs = append(res.Obs, obs)
			fr := &layers.UDP{}
			fcls, ftr := udpDecode(fr, lnUnhex(a[1]))
			fobs := udpObs(fcls, ftr, fr)
			if cls == "panic" {
				res.Oracle = append(res.Oracle, "C19:panic\tUDP.DecodeFromBytes panicked on a reused object")
			} else if cls != fcls || tr != ftr || (cls == "ok" && obs != fobs) {
				res.Oracle = append(res.Oracle, fmt.Sprintf("C05:stale\treused: %s fresh: %s", obs, fobs))
			}
		case "ser", "new":
			var mk func() *layers.UDP
			if name == "ser" {
				data := lnUnhex(a[0])
				mk = func() *layers.UDP { u := &layers.UDP{}; udpDecode(u, data); udpAttach(u, a[3]); return u }
			} else {
				f := strings.Split(a[0], ".")
				mk = func() *layers.UDP {
					u := &layers.UDP{SrcPort: layers.UDPPort(lnAtoi(f[0])), DstPort: layers.UDPPort(lnAtoi(f[1])), Length: uint16(lnAtoi(f[2])), Checksum: uint16(lnAtoi(f[3]))}
					udpAttach(u, a[3])
					return u
				}
			}
			fix, csum, d := lnParseFCD(a[1])
			payload := lnUnhex(a[2])
			u := mk()
			cls, out := lnSerialize(u, d, payload, fix, csum)
			res.Obs = append(res.Obs, fmt.Sprintf("cls=%s;out=%s;%s", cls, lnHex(out), udpFields(u)))
			if d == 1 {
				res.Tags = append(res.Tags, "dirty-buffer")
			}
			if !fix {
				res.Tags = append(res.Tags, "no-fixlengths")
			}
			if len(payload)%2 == 1 {
				res.Tags = append(res.Tags, "odd-payload")
			}
			if csum && cls == "ok" {
				if u.Checksum == 0xffff {
					res.Tags = append(res.Tags, "csum-ffff")
				}
				if ok, valid := udpRefValid(a[3], out); ok && !valid {
					res.Oracle = append(res.Oracle, "C08:emitted\temitted UDP checksum fails the reference one's complement check")
				}
				if u.Checksum == 0 {
					res.Oracle = append(res.Oracle, "C08:emitted\temitted UDP checksum is 0")
				}
			}
			res.Oracle = append(res.Oracle, lnJunkOracle(func() gopacket.SerializableLayer { return mk() }, payload, fix, csum)...)
		case "bigser":
			// new:-like serialization of ports 0x1234/53 over n LCG bytes; Length preset to uint16(n+8) for FixLengths off
			n, seed := lnAtoi(a[0]), lnAtoi(a[1])
			fix, csum, d := lnParseFCD(a[2])
			payload := udpLCG(n, seed)
			mk := func() *layers.UDP {
				u := &layers.UDP{SrcPort: 0x1234, DstPort: 53, Length: uint16(n + 8)}
				udpAttach(u, a[3])
				return u
			}
			u := mk()
			cls, out := lnSerialize(u, d, payload, fix, csum)
			hdr := ""
			if len(out) >= 8 {
				hdr = lnHex(out[:8])
			}
			res.Obs = append(res.Obs, fmt.Sprintf("cls=%s;hdr=%s;outlen=%d;%s", cls, hdr, len(out), udpFields(u)))
			res.Tags = append(res.Tags, "big-payload")
			if !fix {
				res.Tags = append(res.Tags, "no-fixlengths")
			}
			if cls == "ok" && !bytes.Equal(out[8:], payload) {
				res.Oracle = append(res.Oracle, "C07:payload-touched\tSerializeTo changed the payload bytes")
			}
			inRange := n+8 <= 65535 || strings.HasPrefix(a[3], "6:")
			if cls == "ok" && csum && inRange {
				if ok, valid := udpRefValid(a[3], out); ok && !valid {
					res.Oracle = append(res.Oracle, "C08:emitted\temitted UDP checksum fails the reference one's complement check")
				}
			}
			if cls == "ok" && fix && inRange {
				// C06 on the wire: the Length field is the datagram length, or 0 for a jumbogram over IPv6
				want := n + 8
				if want > 65535 {
					want = 0
				}
				if int(u.Length) != want || int(out[4])<<8|int(out[5]) != want {
					res.Oracle = append(res.Oracle, fmt.Sprintf("C06:roundtrip\tLength field %d written for a payload of %d bytes, want %d", u.Length, n, want))
				}
			}
			res.Oracle = append(res.Oracle, lnJunkOracle(func() gopacket.SerializableLayer { return mk() }, payload, fix, csum)...)
		case "rt", "big":
			var payload, data []byte
			var ph string
			if name == "rt" {
				data, payload, ph = lnUnhex(a[0]), lnUnhex(a[1]), a[2]
			} else {
				payload, ph = udpLCG(lnAtoi(a[0]), lnAtoi(a[1])), a[2]
				data = []byte{0x12, 0x34, 0x00, 0x35, 0, 8, 0, 0}
				res.Tags = append(res.Tags, "big-payload")
			}
			u := &layers.UDP{}
			cls, _ := udpDecode(u, data)
			if cls != "ok" {
				res.Obs = append(res.Obs, "first="+cls)
				break
			}
			udpAttach(u, ph)
			scls, out := lnSerialize(u, 0, payload, true, true)
			if scls != "ok" {
				res.Obs = append(res.Obs, "ser="+scls)
				if scls == "panic" {
					res.Oracle = append(res.Oracle, "C07:panic\tSerializeTo of a decoded layer panicked")
				}
				break
			}
			if len(payload)%2 == 1 {
				res.Tags = append(res.Tags, "odd-payload")
			}
			u2 := &layers.UDP{}
			cls2, tr2 := udpDecode(u2, out)
			if name == "rt" {
				res.Obs = append(res.Obs, udpObs(cls2, tr2, u2))
			} else {
				res.Obs = append(res.Obs, fmt.Sprintf("cls=%s;tr=%s;%s;plen=%d", cls2, lnB(tr2), udpFields(u2), len(u2.Payload)))
			}
			inRange := len(payload)+8 <= 65535 || strings.HasPrefix(ph, "6:")
			if !inRange {
				break
			}
			switch {
			case cls2 != "ok":
				res.Oracle = append(res.Oracle, "C06:roundtrip\tsecond decode: "+cls2)
			case tr2:
				res.Oracle = append(res.Oracle, "C06:roundtrip\tsecond decode sets truncated")
			default:
				if f1, f2 := udpFields(u), udpFields(u2); f1 != f2 {
					res.Oracle = append(res.Oracle, fmt.Sprintf("C06:roundtrip\tfields differ: written %s read %s", f1, f2))
				}
				if !bytes.Equal(u2.Payload, payload) {
					res.Oracle = append(res.Oracle, "C06:roundtrip\tpayload differs")
				}
				udpAttach(u2, ph)
				c3, out3 := lnSerialize(u2, 1, payload, true, true)
				if c3 != "ok" || !bytes.Equal(out3, out) {
					res.Oracle = append(res.Oracle, "C06:fixpoint\tre-serialized bytes differ")
				}
				if ok, valid := udpRefValid(ph, out); ok && !valid {
					res.Oracle = append(res.Oracle, "C08:emitted\temitted UDP checksum fails the reference one's complement check")
				}
			}
		default:
			panic("Ludp: unknown op " + op)
		}
	}
	return
}

func udpPH(rng *rand.Rand, extreme bool) string {
	r := rng.Intn(10)
	switch {
	case r < 5:
		return "4:" + lnHex(lnRandBytes(rng, 4)) + ":" + lnHex(lnRandBytes(rng, 4))
	case r < 8:
		return "6:" + lnHex(lnRandBytes(rng, 16)) + ":" + lnHex(lnRandBytes(rng, 16))
	case r == 8 && extreme:
		switch rng.Intn(4) {
		case 0:
			return "4:00000000000000000000ffff" + lnHex(lnRandBytes(rng, 4)) + ":" + lnHex(lnRandBytes(rng, 4))
		case 1:
			return "4:" + lnHex(lnRandBytes(rng, 16)) + ":" + lnHex(lnRandBytes(rng, 4))
		case 2:
			return "6:" + lnHex(lnRandBytes(rng, 4)) + ":" + lnHex(lnRandBytes(rng, 16))
		}
		return "4::"
	case r == 8:
		return "4:" + lnHex(lnRandBytes(rng, 4)) + ":" + lnHex(lnRandBytes(rng, 4))
	}
	return "n"
}

func (ludp) Gen(rng *rand.Rand, tier string) []Case {
	var out []Case
	kp := udpKnownPorts()
	var ks []string
	for _, p := range kp {
		ks = append(ks, fmt.Sprint(p))
	}
	kpop := "kp:" + strings.Join(ks, ",")
	add := func(ops ...string) { out = append(out, Case{Prop: "Ludp", Ops: append([]string{kpop}, ops...)}) }
	scale := 1
	if tier == "thorough" {
		scale = 8
	}
	hx := lnHex
	port := func() int {
		switch rng.Intn(4) {
		case 0:
			return kp[rng.Intn(len(kp))]
		case 1:
			return lnPick(rng, 0, 1, 52, 54, 65535)
		}
		return rng.Intn(65536)
	}
	payloads := func() []byte { return lnRandBytes(rng, lnPick(rng, 0, 1, 2, 3, 7, 8, 33, 64, rng.Intn(30))) }
	dgram := func(pl []byte) []byte {
		sp, dp := port(), port()
		L := 8 + len(pl)
		h := []byte{byte(sp >> 8), byte(sp), byte(dp >> 8), byte(dp), byte(L >> 8), byte(L), byte(rng.Intn(256)), byte(rng.Intn(256))}
		return append(h, pl...)
	}
	for i := 0; i < 80*scale; i++ {
		p := dgram(payloads())
		add("dec:" + hx(p))
		ph := udpPH(rng, false)
		add("rt:" + hx(p) + "," + hx(payloads()) + "," + ph)
		pl := payloads()
		for _, fcd := range lnFCD[:6] {
			add("ser:" + hx(p) + "," + fcd + "," + hx(pl) + "," + ph)
		}
		add("ser:" + hx(p) + "," + lnFCD[6+rng.Intn(6)] + "," + hx(payloads()) + "," + udpPH(rng, true))
	}
	// truncations and the length field around every bound
	for i := 0; i < 20*scale; i++ {
		p := dgram(payloads())
		for k := 0; k <= 9 && k <= len(p); k++ {
			add("tag:truncated-prefix-of-valid", "dec:"+hx(p[:k]))
		}
		for _, L := range []int{0, 1, 7, 8, 9, len(p) - 1, len(p), len(p) + 1, 65535} {
			q := lnCopy(p)
			q[4], q[5] = byte(L>>8), byte(L)
			add("tag:length-extreme", "dec:"+hx(q))
			p2 := dgram(payloads())
			add("tag:length-extreme", "dec2:"+hx(q)+","+hx(p2))
			add("tag:length-extreme", "dec2:"+hx(p2)+","+hx(q))
			if rng.Intn(3) == 0 {
				add("ser:" + hx(q) + "," + lnFCD[rng.Intn(len(lnFCD))] + "," + hx(payloads()) + "," + udpPH(rng, true))
			}
		}
	}
	// field-built layers, all option/buffer combinations, every kind of attached network layer
	for i := 0; i < 200*scale; i++ {
		spec := fmt.Sprintf("%d.%d.%d.%d", port(), port(), lnPick(rng, 0, 7, 8, rng.Intn(65536)), lnPick(rng, 0, 65535, rng.Intn(65536)))
		add("new:" + spec + "," + lnFCD[rng.Intn(len(lnFCD))] + "," + hx(payloads()) + "," + udpPH(rng, true))
	}
	// seeds: UDP segments inside the IPv4 packet literals of layers/*_test.go
	n := 0
	for _, s := range lnEthSeeds(0x0800) {
		if len(s) < 28 || s[9] != 17 || s[0]&15 != 5 {
			continue
		}
		if n++; tier != "thorough" && n > 25 {
			break
		}
		seg := s[20:]
		if len(seg) > 300 {
			seg = seg[:300]
		}
		ph := "4:" + hx(s[12:16]) + ":" + hx(s[16:20])
		add("dec:" + hx(seg))
		add("rt:" + hx(seg) + "," + hx(seg[8:]) + "," + ph)
		add("ser:" + hx(seg) + "," + lnFCD[rng.Intn(len(lnFCD))] + "," + hx(seg[8:]) + "," + ph)
		for k := 0; k < 10 && k < len(seg); k += 1 + rng.Intn(2) {
			add("tag:truncated-prefix-of-valid", "dec:"+hx(seg[:k]))
		}
	}
	// malformed stream
	for i := 0; i < 100*scale; i++ {
		q := lnRandBytes(rng, lnPick(rng, 0, 1, 7, 8, 9, 12, rng.Intn(40)))
		add("dec:" + hx(q))
		if i%3 == 0 {
			add("dec2:" + hx(q) + "," + hx(dgram(payloads())))
			add("ser:" + hx(q) + "," + lnFCD[rng.Intn(len(lnFCD))] + "," + hx(payloads()) + "," + udpPH(rng, true))
		}
	}
	// payloads solved so that the one's complement sum is 0xffff (checksum computes to 0, emitted as
	// 0xffff by the RFC 768 rule) or 0xfffe / 0x0001 (checksum 0x0001 / 0xfffe)
	for i := 0; i < 8*scale; i++ {
		for _, want := range []uint32{0xffff, 0xfffe, 0x0001} {
			sp, dp := port(), port()
			src, dst := lnRandBytes(rng, 4), lnRandBytes(rng, 4)
			pl := lnRandBytes(rng, 2+2*rng.Intn(8))
			pl[len(pl)-2], pl[len(pl)-1] = 0, 0
			L := 8 + len(pl)
			seg := append([]byte{byte(sp >> 8), byte(sp), byte(dp >> 8), byte(dp), byte(L >> 8), byte(L), 0, 0}, pl...)
			var S uint32
			for _, b := range [][]byte{src, dst, seg} {
				for k := 0; k+1 < len(b); k += 2 {
					S += uint32(b[k])<<8 | uint32(b[k+1])
				}
			}
			S += 17 + uint32(L)
			for S > 0xffff {
				S = S>>16 + S&0xffff
			}
			x := (want + 0xffff - S) % 0xffff
			pl[len(pl)-2], pl[len(pl)-1] = byte(x>>8), byte(x)
			add("tag:csum-solved", fmt.Sprintf("new:%d.%d.0.0,11%d,%s,4:%s:%s", sp, dp, rng.Intn(3), hx(pl), hx(src), hx(dst)))
		}
	}
	// payload sizes around the uint16 length boundary (jumbo rule over IPv6, wrap over IPv4)
	sizes := []int{1472}
	if tier == "thorough" {
		sizes = append(sizes, 65000, 70000, 131072, 131073)
	}
	ph6 := "6:" + hx(lnRandBytes(rng, 16)) + ":" + hx(lnRandBytes(rng, 16))
	for _, n := range sizes {
		for _, ph := range []string{"4:0a000001:0a000002", ph6} {
			add(fmt.Sprintf("big:%d,%d,%s", n, rng.Intn(1<<30), ph))
		}
	}
	// EVERY payload length 65520..65540 (Length field 65528..65535, the jumbogram rule from 65528 on,
	// the uint16 wrap over IPv4), round trip and serialization with FixLengths on and off
	for n := 65520; n <= 65540; n++ {
		for _, ph := range []string{"4:0a000001:0a000002", ph6} {
			seed := rng.Intn(1 << 30)
			add("tag:length-boundary", fmt.Sprintf("big:%d,%d,%s", n, seed, ph))
			add("tag:length-boundary", fmt.Sprintf("bigser:%d,%d,10%d,%s", n, seed, rng.Intn(3), ph))
			add("tag:length-boundary", fmt.Sprintf("bigser:%d,%d,00%d,%s", n, seed, rng.Intn(3), ph))
			if n%4 == 0 || tier == "thorough" {
				add("tag:length-boundary", fmt.Sprintf("bigser:%d,%d,01%d,%s", n, seed, rng.Intn(3), ph))
				add("tag:length-boundary", fmt.Sprintf("bigser:%d,%d,11%d,%s", n, seed, rng.Intn(3), ph))
			}
		}
	}
	return out
}
