package main

// Lradiotap: layers/radiotap.go codec sub-check (C19, C05, C06, C07, C01 for RadioTap).
// Ops: dec dec2 ser rt (lmisc_common.go) plus
//   new:<ver>.<len>.<present>.<rv>.<vv>,<fcd>,<payloadhex>  and rtn: likewise, where <present> is "-" or 8-digit hex
//   words joined by "_", <rv> is "-" or namespaces joined by "_", each the hex of the 68 octets of its fields in
//   table order (little-endian, as on the wire), <vv> is "-" or vendor namespaces joined by "+", each
//   <ouihex>~<sub>~<skip>~<contentshex>.

import (
	"encoding/binary"
	"fmt"
	"hash/crc32"
	"math/rand"
	"regexp"
	"strings"

	"github.com/gopacket/gopacket"
	"github.com/gopacket/gopacket/layers"
)

type lradiotap struct{}

func init() { register("Lradiotap", lradiotap{}) }

// field table of decodeRadioTapNamespace: Present bit, alignment, octets occupied, octets stored
var rtTable = [][4]int{{0, 8, 8, 8}, {1, 1, 1, 1}, {2, 1, 1, 1}, {3, 2, 4, 4}, {4, 1, 2, 2}, {5, 1, 1, 1}, {6, 1, 1, 1}, {7, 2, 2, 2}, {8, 2, 2, 2}, {9, 2, 2, 2},
	{10, 1, 1, 1}, {11, 1, 1, 1}, {12, 1, 1, 1}, {13, 1, 1, 1}, {14, 2, 2, 2}, {15, 2, 2, 2}, {16, 1, 1, 1}, {17, 1, 1, 1},
	{19, 1, 3, 3}, {20, 4, 8, 7}, {21, 2, 12, 12}, {22, 8, 12, 0}, {23, 2, 12, 12}}

const rtNsLen = 68

func rtNsBytes(v *layers.RadioTapNamespace) []byte {
	le := binary.LittleEndian
	b := make([]byte, 0, rtNsLen)
	b = le.AppendUint64(b, v.TSFT)
	b = append(b, byte(v.Flags), byte(v.Rate))
	b = le.AppendUint16(b, uint16(v.ChannelFrequency))
	b = le.AppendUint16(b, uint16(v.ChannelFlags))
	b = le.AppendUint16(b, v.FHSS)
	b = append(b, byte(v.DBMAntennaSignal), byte(v.DBMAntennaNoise))
	b = le.AppendUint16(b, v.LockQuality)
	b = le.AppendUint16(b, v.TxAttenuation)
	b = le.AppendUint16(b, v.DBTxAttenuation)
	b = append(b, byte(v.DBMTxPower), v.Antenna, v.DBAntennaSignal, v.DBAntennaNoise)
	b = le.AppendUint16(b, uint16(v.RxFlags))
	b = le.AppendUint16(b, uint16(v.TxFlags))
	b = append(b, v.RtsRetries, v.DataRetries)
	b = append(b, byte(v.MCS.Known), byte(v.MCS.Flags), v.MCS.MCS)
	b = le.AppendUint32(b, v.AMPDUStatus.Reference)
	b = le.AppendUint16(b, uint16(v.AMPDUStatus.Flags))
	b = append(b, v.AMPDUStatus.CRC)
	b = le.AppendUint16(b, uint16(v.VHT.Known))
	b = append(b, byte(v.VHT.Flags), v.VHT.Bandwidth, byte(v.VHT.MCSNSS[0]), byte(v.VHT.MCSNSS[1]), byte(v.VHT.MCSNSS[2]), byte(v.VHT.MCSNSS[3]), v.VHT.Coding, v.VHT.GroupId)
	b = le.AppendUint16(b, v.VHT.PartialAID)
	for _, x := range []uint16{uint16(v.HE.Data1), uint16(v.HE.Data2), uint16(v.HE.Data3), uint16(v.HE.Data4), uint16(v.HE.Data5), uint16(v.HE.Data6)} {
		b = le.AppendUint16(b, x)
	}
	return b
}

func rtNsFrom(b []byte) layers.RadioTapNamespace {
	le := binary.LittleEndian
	var v layers.RadioTapNamespace
	v.TSFT = le.Uint64(b[0:])
	v.Flags, v.Rate = layers.RadioTapFlags(b[8]), layers.RadioTapRate(b[9])
	v.ChannelFrequency = layers.RadioTapChannelFrequency(le.Uint16(b[10:]))
	v.ChannelFlags = layers.RadioTapChannelFlags(le.Uint16(b[12:]))
	v.FHSS = le.Uint16(b[14:])
	v.DBMAntennaSignal, v.DBMAntennaNoise = int8(b[16]), int8(b[17])
	v.LockQuality, v.TxAttenuation, v.DBTxAttenuation = le.Uint16(b[18:]), le.Uint16(b[20:]), le.Uint16(b[22:])
	v.DBMTxPower, v.Antenna, v.DBAntennaSignal, v.DBAntennaNoise = int8(b[24]), b[25], b[26], b[27]
	v.RxFlags, v.TxFlags = layers.RadioTapRxFlags(le.Uint16(b[28:])), layers.RadioTapTxFlags(le.Uint16(b[30:]))
	v.RtsRetries, v.DataRetries = b[32], b[33]
	v.MCS = layers.RadioTapMCS{Known: layers.RadioTapMCSKnown(b[34]), Flags: layers.RadioTapMCSFlags(b[35]), MCS: b[36]}
	v.AMPDUStatus = layers.RadioTapAMPDUStatus{Reference: le.Uint32(b[37:]), Flags: layers.RadioTapAMPDUStatusFlags(le.Uint16(b[41:])), CRC: b[43]}
	v.VHT = layers.RadioTapVHT{Known: layers.RadioTapVHTKnown(le.Uint16(b[44:])), Flags: layers.RadioTapVHTFlags(b[46]), Bandwidth: b[47],
		MCSNSS: [4]layers.RadioTapVHTMCSNSS{layers.RadioTapVHTMCSNSS(b[48]), layers.RadioTapVHTMCSNSS(b[49]), layers.RadioTapVHTMCSNSS(b[50]), layers.RadioTapVHTMCSNSS(b[51])},
		Coding: b[52], GroupId: b[53], PartialAID: le.Uint16(b[54:])}
	v.HE = layers.RadiotapHE{Data1: layers.RadiotapHEData1(le.Uint16(b[56:])), Data2: layers.RadiotapHEData2(le.Uint16(b[58:])), Data3: layers.RadiotapHEData3(le.Uint16(b[60:])),
		Data4: layers.RadiotapHEData4(le.Uint16(b[62:])), Data5: layers.RadiotapHEData5(le.Uint16(b[64:])), Data6: layers.RadiotapHEData6(le.Uint16(b[66:]))}
	return v
}

func rtJoin(n int, sep string, f func(i int) string) string {
	if n == 0 {
		return "-"
	}
	s := make([]string, n)
	for i := range s {
		s[i] = f(i)
	}
	return strings.Join(s, sep)
}

func rtFieldsStr(l gopacket.Layer) string {
	r := l.(*layers.RadioTap)
	return fmt.Sprintf("ver=%d;len=%d;present=%s;rv=%s;vv=%s", r.Version, r.Length,
		rtJoin(len(r.Present), "_", func(i int) string { return fmt.Sprintf("%08x", uint32(r.Present[i])) }),
		rtJoin(len(r.RadioTapValues), "_", func(i int) string { return lnHex(rtNsBytes(&r.RadioTapValues[i])) }),
		rtJoin(len(r.VendorValues), "+", func(i int) string {
			v := r.VendorValues[i]
			return fmt.Sprintf("%s~%d~%d~%s", lnHex(v.OUI), v.SubNamespace, v.SkipLength, lnHex(v.Contents))
		}))
}

var rtLenRe = regexp.MustCompile(`len=\d+;`)

func rtSplit(s, sep string) []string {
	if s == "-" {
		return nil
	}
	return strings.Split(s, sep)
}

func rtFromSpec(spec string) gopacket.Layer {
	f := strings.Split(spec, ".")
	r := &layers.RadioTap{Version: uint8(lnAtoi(f[0])), Length: uint16(lnAtoi(f[1]))}
	for _, w := range rtSplit(f[2], "_") {
		var x uint32
		fmt.Sscanf(w, "%x", &x)
		r.Present = append(r.Present, layers.RadioTapPresent(x))
	}
	for _, n := range rtSplit(f[3], "_") {
		r.RadioTapValues = append(r.RadioTapValues, rtNsFrom(lnUnhex(n)))
	}
	for _, v := range rtSplit(f[4], "+") {
		q := strings.Split(v, "~")
		r.VendorValues = append(r.VendorValues, layers.VendorNamespace{OUI: lnUnhex(q[0]), SubNamespace: uint8(lnAtoi(q[1])), SkipLength: uint16(lnAtoi(q[2])), Contents: lnUnhex(q[3])})
	}
	return r
}

// C06 hypothesis (rt_wf of Props/Lradiotap.v), written independently of the library: the extension
// bits chain the words, the walk over the words consumes exactly the values present, fields whose bit
// is clear are zero, vendor namespaces have a 3 octet OUI and SkipLength = len(Contents)
func rtInDomain(l gopacket.Layer, _ []byte) bool {
	r := l.(*layers.RadioTap)
	if len(r.Present) == 0 {
		return false
	}
	size := 4 + 132*len(r.Present)
	ri, vi := 0, 0
	rtn, vn := true, false
	for i, p := range r.Present {
		if (i < len(r.Present)-1) != (uint32(p)>>31 == 1) {
			return false
		}
		switch {
		case rtn:
			if ri >= len(r.RadioTapValues) {
				return false
			}
			b := rtNsBytes(&r.RadioTapValues[ri])
			pos := 0
			for _, f := range rtTable {
				for k := 0; k < f[3]; k++ {
					if uint32(p)>>uint(f[0])&1 == 0 && b[pos+k] != 0 {
						return false
					}
				}
				pos += f[3]
			}
			ri++
		case vn:
			if vi >= len(r.VendorValues) {
				return false
			}
			v := r.VendorValues[vi]
			if len(v.OUI) != 3 || int(v.SkipLength) != len(v.Contents) {
				return false
			}
			vi++
		default:
			return false
		}
		rtn, vn = uint32(p)>>29&1 == 1, uint32(p)>>30&1 == 1
	}
	for _, v := range r.VendorValues {
		size += 12 + len(v.Contents) + int(v.SkipLength)
	}
	return ri == len(r.RadioTapValues) && vi == len(r.VendorValues) && size <= 0xffff
}

// the payload the decoder hands on: driver padding removed, FCS appended when the flags announce none
func rtPayload(l gopacket.Layer, payload []byte) []byte {
	r := l.(*layers.RadioTap)
	var fl byte
	if len(r.RadioTapValues) > 0 {
		fl = byte(r.RadioTapValues[0].Flags)
	}
	p := lnCopy(payload)
	if fl&0x20 != 0 && len(p) >= 2 && p[0]&0xC == 0x8 {
		h := 24
		if p[0]&0x8C == 0x88 {
			h += 2
		}
		if p[1]&3 == 3 {
			h += 2
		}
		if h%4 == 2 && len(p) >= h+2 {
			p = append(lnCopy(p[:h]), p[h+2:]...)
		}
	}
	if fl&0x10 == 0 {
		p = binary.LittleEndian.AppendUint32(p, crc32.ChecksumIEEE(p))
	}
	return p
}

var lradiotapDesc = &lmDesc{
	id: "Lradiotap", name: "RadioTap", ser: true,
	fresh: func() gopacket.Layer { return &layers.RadioTap{} },
	decode: func(l gopacket.Layer, data []byte, fb gopacket.DecodeFeedback) error {
		return l.(*layers.RadioTap).DecodeFromBytes(data, fb)
	},
	fields: rtFieldsStr,
	next: func(l gopacket.Layer, _ *lmBuilder) string {
		if l.(*layers.RadioTap).NextLayerType() == layers.LayerTypeDot11 {
			return "dot11"
		}
		return "other"
	},
	fromSpec:  rtFromSpec,
	inDomain:  rtInDomain,
	rtFields:  func(l gopacket.Layer) string { return rtLenRe.ReplaceAllString(rtFieldsStr(l), "") },
	rtPayload: rtPayload,
	tags: func(l gopacket.Layer, cls string, data []byte) []string {
		r := l.(*layers.RadioTap)
		var t []string
		if len(r.Present) > 1 {
			t = append(t, "present-extended")
		}
		if len(r.VendorValues) > 0 {
			t = append(t, "vendor-namespace")
		}
		if len(r.RadioTapValues) > 1 {
			t = append(t, "second-radiotap-namespace")
		}
		if cls == "err" && len(data) >= 8 {
			t = append(t, "error-after-fields-set")
			if len(r.RadioTapValues)+len(r.VendorValues) > 0 {
				t = append(t, "error-after-add")
			}
		}
		if cls == "ok" && len(r.RadioTapValues) > 0 {
			fl := r.RadioTapValues[0].Flags
			if !fl.FCS() {
				t = append(t, "fcs-appended")
			}
			if fl.Datapad() && len(r.Payload) >= 2 && r.Payload[0]&0xC == 8 {
				t = append(t, "datapad")
			}
			if int(r.Length) < 8 {
				t = append(t, "length-below-header")
			}
		}
		if len(data) > 0xffff {
			t = append(t, "beyond-64k")
		}
		return t
	},
}

func (lradiotap) Run(c Case) Result { return lmRun(lradiotapDesc, c) }

// rtBuild lays out a header for the chain of present words the way the decoder walks it; vskip gives the
// SkipLength of the vendor namespaces in order.  Length = whole header.  bounds = every internal field boundary.
func rtBuild(rng *rand.Rand, words []uint32, vskip []int) (hdr []byte, bounds []int) {
	hdr = make([]byte, 4, 64)
	for _, w := range words {
		hdr = binary.LittleEndian.AppendUint32(hdr, w)
		bounds = append(bounds, len(hdr))
	}
	alignTo := func(a int) {
		for len(hdr)%a != 0 {
			hdr = append(hdr, 0)
		}
	}
	rtn, vn := true, false
	vi := 0
	for _, w := range words {
		switch {
		case rtn:
			for _, f := range rtTable {
				if w>>uint(f[0])&1 == 1 {
					alignTo(f[1])
					fb := lnRandBytes(rng, f[2])
					if f[0] == 1 {
						fb[0] = byte(lnPick(rng, 0x10, 0x10, 0x00, 0x30, 0x20, int(fb[0])))
					}
					hdr = append(hdr, fb...)
					bounds = append(bounds, len(hdr))
				}
			}
		case vn:
			alignTo(2)
			sk := 0
			if vi < len(vskip) {
				sk = vskip[vi]
			}
			vi++
			hdr = append(hdr, byte(rng.Intn(256)), byte(rng.Intn(256)), byte(rng.Intn(256)), 0, byte(rng.Intn(256)), 0, byte(sk), byte(sk>>8))
			bounds = append(bounds, len(hdr)-5, len(hdr)-2, len(hdr))
			hdr = append(hdr, lnRandBytes(rng, sk)...)
			bounds = append(bounds, len(hdr))
		}
		if w>>31 == 0 || (!rtn && !vn) {
			break
		}
		rtn, vn = w>>29&1 == 1, w>>30&1 == 1
	}
	binary.LittleEndian.PutUint16(hdr[2:], uint16(len(hdr)))
	return
}

func rtSetLen(hdr []byte, n int) []byte {
	h := lnCopy(hdr)
	binary.LittleEndian.PutUint16(h[2:], uint16(n))
	return h
}

// a payload that looks like an 802.11 frame (data / QoS data / 4 addresses) or not
func rtFrame(rng *rand.Rand) []byte {
	p := lnRandBytes(rng, lnPick(rng, 0, 1, 2, 10, 24, 26, 27, 28, 30, 34, 40))
	if len(p) >= 2 && rng.Intn(3) > 0 {
		p[0] = byte(lnPick(rng, 0x08, 0x88, 0x48, 0x80))
		p[1] = byte(lnPick(rng, 0, 1, 3, 0x43))
	}
	return p
}

var rtKnownBits = []int{0, 1, 2, 3, 4, 5, 6, 7, 8, 9, 10, 11, 12, 13, 14, 15, 16, 17, 19, 20, 21, 22, 23}

func rtWords(rng *rand.Rand) []uint32 {
	n := lnPick(rng, 1, 1, 1, 2, 2, 3, 4)
	ws := make([]uint32, n)
	for i := range ws {
		var w uint32
		switch rng.Intn(4) {
		case 0:
			w = rng.Uint32()
		default:
			for k := lnPick(rng, 0, 1, 3, 6, 12); k > 0; k-- {
				w |= 1 << uint(rtKnownBits[rng.Intn(len(rtKnownBits))])
			}
			if rng.Intn(3) == 0 {
				w |= 2 // Flags
			}
		}
		w &^= 0xE0000000
		if i < n-1 {
			w |= 1 << 31
			w |= uint32(lnPick(rng, 1, 1, 2, 2, 0, 3)) << 29
		}
		ws[i] = w
	}
	return ws
}

func (lradiotap) Gen(rng *rand.Rand, tier string) []Case {
	hx := lnHex
	valid := func(rng *rand.Rand) []byte {
		ws := rtWords(rng)
		h, _ := rtBuild(rng, ws, []int{lnPick(rng, 0, 1, 5, 16), lnPick(rng, 0, 3), 2, 0})
		switch rng.Intn(10) {
		case 0:
			h = rtSetLen(h, lnPick(rng, 0, 7, 8, len(h)-1, len(h)+1, len(h)+5, 65535))
		case 1:
			h[4+4*len(ws)-1] |= 0x80 // extension bit on the last word: the chain runs into the fields
		}
		return append(h, rtFrame(rng)...)
	}
	g := lmGenCfg{
		valid: valid,
		hdrLen: func(p []byte) int {
			if len(p) < 4 {
				return len(p)
			}
			return int(binary.LittleEndian.Uint16(p[2:]))
		},
		residue: func(rng *rand.Rand) []byte {
			h, _ := rtBuild(rng, []uint32{0xC000082F, 0xA0000001, 0x00000002}, []int{5})
			h[16] |= 0x20 // first namespace: Datapad, no FCS
			h[16] &^= 0x10
			return append(h, rtFrame(rng)...)
		},
		n: 40,
		spec: func(rng *rand.Rand) string {
			ws := rtWords(rng)
			if rng.Intn(6) == 0 {
				ws = nil
			}
			nrv, nvv := 0, 0
			rtn, vn := true, false
			var rvWords []uint32
			for _, w := range ws {
				if rtn {
					nrv++
					rvWords = append(rvWords, w)
				} else if vn {
					nvv++
				}
				rtn, vn = w>>29&1 == 1, w>>30&1 == 1
			}
			nrv += lnPick(rng, 0, 0, 0, 0, -1, 1)
			nvv += lnPick(rng, 0, 0, 0, 0, -1, 1)
			var rv, vv []string
			for i := 0; i < nrv; i++ {
				b := lnRandBytes(rng, rtNsLen)
				if i < len(rvWords) && rng.Intn(4) > 0 { // zero the fields whose bit is clear (in the C06 domain when the walk is regular)
					pos := 0
					for _, f := range rtTable {
						if rvWords[i]>>uint(f[0])&1 == 0 {
							for k := 0; k < f[3]; k++ {
								b[pos+k] = 0
							}
						}
						pos += f[3]
					}
				}
				rv = append(rv, hx(b))
			}
			for i := 0; i < nvv; i++ {
				cl := lnPick(rng, 0, 1, 4, 7, 300)
				vv = append(vv, fmt.Sprintf("%s~%d~%d~%s", hx(lnRandBytes(rng, lnPick(rng, 3, 3, 3, 3, 2, 0, 4))), rng.Intn(256), lnPick(rng, cl, cl, cl, 0, cl+1, 1000, 65535), hx(lnRandBytes(rng, cl))))
			}
			pw := make([]string, len(ws))
			for i, w := range ws {
				pw[i] = fmt.Sprintf("%08x", w)
			}
			j := func(s []string, sep string) string {
				if len(s) == 0 {
					return "-"
				}
				return strings.Join(s, sep)
			}
			return fmt.Sprintf("%d.%d.%s.%s.%s", lnPick(rng, 0, 0, 1, 255), lnPick(rng, 0, 8, 24, 65535), j(pw, "_"), j(rv, "_"), j(vv, "+"))
		},
		extra: func(rng *rand.Rand, add func(ops ...string)) {
			scale := 1
			if tier == "thorough" {
				scale = 6
			}
			pay := []byte{0x88, 0x03, 1, 2, 3, 4, 5, 6, 7, 8, 9, 10, 11, 12, 13, 14, 15, 16, 17, 18, 19, 20, 21, 22, 23, 24, 25, 26, 27, 28, 29, 30, 31, 32}
			// consistent-length cuts: for a chain of words, the header length set to each value from 8 to the needed
			// size, the data being (a) the header cut there and nothing else, (b) the header cut there followed by a frame
			// (fields beyond the declared length are then looked up in the frame), (c) the whole header with the short length
			cuts := func(tag string, ws []uint32, vskip []int, sparse bool) {
				h, bounds := rtBuild(rng, ws, vskip)
				isB := map[int]bool{}
				for _, b := range bounds {
					isB[b], isB[b-1], isB[b+1] = true, true, true
				}
				for L := 8; L <= len(h)+1; L++ {
					if sparse && !isB[L] && L < len(h)-1 && L > 12 {
						continue
					}
					if L <= len(h) {
						add("tag:"+tag, "tag:consistent-length-cut", "dec:"+hx(rtSetLen(h[:L], L)))
						add("tag:"+tag, "tag:consistent-length-cut", "dec:"+hx(append(rtSetLen(h[:L], L), pay...)))
						add("tag:"+tag, "tag:length-forced", "dec:"+hx(append(rtSetLen(h, L), pay...)))
						if L%5 == 0 {
							add("tag:"+tag, "tag:error-residue", "ser:"+hx(rtSetLen(h[:L], L))+","+lnFCD[rng.Intn(len(lnFCD))]+",0102")
							add("tag:"+tag, "dec2:"+hx(append(lnCopy(h), pay...))+","+hx(rtSetLen(h[:L], L)))
						}
					} else {
						add("tag:"+tag, "tag:length-forced", "dec:"+hx(append(rtSetLen(h, L), pay...)))
						add("tag:"+tag, "tag:length-forced", "dec:"+hx(rtSetLen(h, L)))
					}
				}
				add("tag:"+tag, "rt:"+hx(append(lnCopy(h), pay...))+","+hx(pay))
			}
			// every single Present bit alone (bit 31 alone extends to a second, empty word)
			for b := 0; b < 32; b++ {
				ws := []uint32{1 << uint(b)}
				if b == 31 {
					ws = append(ws, 0)
				}
				cuts("single-present-bit", ws, nil, false)
				// the same bit in a second radiotap namespace and behind a vendor namespace (other alignment)
				if b < 29 {
					cuts("single-present-bit", []uint32{0xA0000002, 1 << uint(b)}, nil, true)
					cuts("single-present-bit", []uint32{0xC0000006, 0xA0000000, 1 << uint(b)}, []int{lnPick(rng, 1, 3, 5)}, true)
				}
			}
			// all combinations of a random subset of the field bits
			for s := 0; s < 2*scale; s++ {
				perm := rng.Perm(len(rtKnownBits))[:5]
				for m := 0; m < 32; m++ {
					var w uint32
					for k, pi := range perm {
						if m>>uint(k)&1 == 1 {
							w |= 1 << uint(rtKnownBits[pi])
						}
					}
					cuts("present-combination", []uint32{w}, nil, m%4 != 3)
				}
			}
			// all fields at once, chains of namespaces, vendor skip lengths around the end of the data
			cuts("all-fields", []uint32{0x00FBFFFF}, nil, false)
			cuts("namespace-chain", []uint32{0xC0000003, 0xA0000000, 0xC0F80001, 0x20000000}, []int{6, 0}, false)
			for _, sk := range []int{0, 1, 2, 255, 256, 65535} {
				h, _ := rtBuild(rng, []uint32{0xC0000000, 0}, []int{0})
				for _, have := range []int{0, 1, sk - 1, sk, sk + 1} {
					if have < 0 || have > 70000 {
						continue
					}
					p := lnCopy(h)
					binary.LittleEndian.PutUint16(p[len(p)-2:], uint16(sk))
					p = append(p, make([]byte, have)...)
					add("tag:vendor-skip-extreme", "dec:"+hx(p))
				}
			}
			// long chains of present words (every word extends), with and without room for the last one
			for _, n := range []int{2, 3, 16, 100} {
				p := make([]byte, 4+4*n)
				for i := 0; i < n; i++ {
					binary.LittleEndian.PutUint32(p[4+4*i:], 0x80000000)
				}
				add("tag:present-chain-runs-out", "dec:"+hx(p))
				add("tag:present-chain-runs-out", "dec:"+hx(append(lnCopy(p), 1, 2, 3)))
				q := append(lnCopy(p), 0, 0, 0, 0)
				add("tag:present-extended", "dec:"+hx(q))
				add("tag:present-extended", "rt:"+hx(q)+",0801")
				add("tag:present-extended", "ser:"+hx(p)+",110,01")
			}
			// data beyond 64K: the offsets are 16 bit (witness of the repaired slice panic first)
			big := func(tail int, sk2 int) []byte {
				d := make([]byte, 65536+tail)
				le := binary.LittleEndian
				le.PutUint16(d[2:], 8)
				le.PutUint32(d[4:], 0xC0000000)
				le.PutUint32(d[8:], 0xC0000000)
				le.PutUint32(d[12:], 0xC0000000)
				le.PutUint32(d[16:], 0)
				le.PutUint16(d[26:], 65524-28)
				le.PutUint16(d[65530:], uint16(sk2))
				return d
			}
			add("tag:beyond-64k", "dec:"+hx(big(64, 2)))
			add("tag:beyond-64k", "dec:"+hx(big(0, 0)))
			add("tag:beyond-64k", "dec:"+hx(big(6, 1)))
			{
				// TSFT of a second radiotap namespace at offset 65528 (vendor namespace skipping there)
				d := make([]byte, 65536+16)
				le := binary.LittleEndian
				le.PutUint16(d[2:], 65535)
				le.PutUint32(d[4:], 0xC0000000)
				le.PutUint32(d[8:], 0xA0000000)
				le.PutUint32(d[12:], 1)
				le.PutUint16(d[22:], 65528-24)
				add("tag:beyond-64k", "dec:"+hx(d))
				add("tag:beyond-64k", "dec:"+hx(d[:65535]))
				add("tag:beyond-64k", "dec:"+hx(d[:65536]))
			}
		},
	}
	for _, s := range lnSeeds() {
		if len(s) > 16 && s[0] == 0 && s[1] == 0 && int(binary.LittleEndian.Uint16(s[2:])) >= 8 && int(binary.LittleEndian.Uint16(s[2:])) < len(s) && s[3] == 0 {
			g.seeds = append(g.seeds, s)
		}
	}
	return lmGen(lradiotapDesc, g, rng, tier)
}
