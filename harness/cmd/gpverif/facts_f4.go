package main

import (
	"fmt"
	"go/ast"
	"go/parser"
	"go/token"
	"path/filepath"
	"sort"
	"strings"
)

// Source fact F4 (DESIGN.md 4.3): package-level variables of the root package and of layers/
// that are written outside package initialisation.  `gpverif facts4` prints one line per
// (package, function, variable); the check compares the set with lib/facts/F4.expected:
// a NEW line means decoding may now depend on / change global state (C02's hypothesis).
func init() { commands["facts4"] = factsF4 }

func factsF4(args []string) {
	for _, l := range factsF4Lines(repoDir()) {
		fmt.Println(l)
	}
}

func factsF4Lines(repo string) []string {
	var out []string
	for _, dir := range []string{".", "layers"} {
		fset := token.NewFileSet()
		files, _ := filepath.Glob(filepath.Join(repo, dir, "*.go"))
		sort.Strings(files)
		var parsed []*ast.File
		pkgVars := map[string]bool{}
		topSpecs := map[*ast.ValueSpec]bool{}
		for _, f := range files {
			if strings.HasSuffix(f, "_test.go") {
				continue
			}
			af, err := parser.ParseFile(fset, f, nil, 0)
			if err != nil {
				out = append(out, "PARSE-ERROR "+f)
				continue
			}
			parsed = append(parsed, af)
			for _, d := range af.Decls {
				if gd, ok := d.(*ast.GenDecl); ok && gd.Tok == token.VAR {
					for _, sp := range gd.Specs {
						vs := sp.(*ast.ValueSpec)
						topSpecs[vs] = true
						for _, n := range vs.Names {
							pkgVars[n.Name] = true
						}
					}
				}
			}
		}
		isGlobal := func(id *ast.Ident) bool {
			if !pkgVars[id.Name] {
				return false
			}
			if id.Obj == nil {
				return true // resolved in another file of the package
			}
			vs, ok := id.Obj.Decl.(*ast.ValueSpec)
			return ok && topSpecs[vs]
		}
		var root func(e ast.Expr) *ast.Ident
		root = func(e ast.Expr) *ast.Ident {
			switch x := e.(type) {
			case *ast.Ident:
				return x
			case *ast.IndexExpr:
				return root(x.X)
			case *ast.SelectorExpr:
				return root(x.X)
			case *ast.StarExpr:
				return root(x.X)
			case *ast.ParenExpr:
				return root(x.X)
			case *ast.SliceExpr:
				return root(x.X)
			}
			return nil
		}
		seen := map[string]bool{}
		for _, af := range parsed {
			for _, d := range af.Decls {
				fd, ok := d.(*ast.FuncDecl)
				if !ok || fd.Body == nil || (fd.Name.Name == "init" && fd.Recv == nil) {
					continue
				}
				fname := fd.Name.Name
				if fd.Recv != nil && len(fd.Recv.List) > 0 {
					t := fd.Recv.List[0].Type
					if st, ok := t.(*ast.StarExpr); ok {
						t = st.X
					}
					if id, ok := t.(*ast.Ident); ok {
						fname = id.Name + "." + fname
					}
				}
				note := func(e ast.Expr) {
					if id := root(e); id != nil && id.Name != "_" && isGlobal(id) {
						k := fmt.Sprintf("%s %s %s", dir, fname, id.Name)
						if !seen[k] {
							seen[k] = true
							out = append(out, k)
						}
					}
				}
				ast.Inspect(fd.Body, func(n ast.Node) bool {
					switch x := n.(type) {
					case *ast.AssignStmt:
						if x.Tok != token.DEFINE {
							for _, l := range x.Lhs {
								note(l)
							}
						}
					case *ast.IncDecStmt:
						note(x.X)
					case *ast.RangeStmt:
						if x.Tok == token.ASSIGN {
							if x.Key != nil {
								note(x.Key)
							}
							if x.Value != nil {
								note(x.Value)
							}
						}
					case *ast.CallExpr:
						// copy(global[..], …), delete(global, k), sync.Pool Put/Get on a global are writes too
						if id, ok := x.Fun.(*ast.Ident); ok && (id.Name == "copy" || id.Name == "delete" || id.Name == "clear") && len(x.Args) > 0 {
							note(x.Args[0])
						}
						if se, ok := x.Fun.(*ast.SelectorExpr); ok && (se.Sel.Name == "Put" || se.Sel.Name == "Store" || se.Sel.Name == "Add" || se.Sel.Name == "Swap" || se.Sel.Name == "CompareAndSwap" || se.Sel.Name == "Lock") {
							note(se.X)
						}
					}
					return true
				})
			}
		}
	}
	sort.Strings(out)
	return out
}
