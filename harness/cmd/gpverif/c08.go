package main

// C08: checksums.  Ops (one observation line each):
//   fold:<acc hex>                         FoldChecksum
//   cc:<acc hex>,<data hex>                ComputeChecksum (+ fold of the result)
//   ccr:<acc hex>,<byte>,<n>,<tail hex>    ComputeChecksum over n copies of a byte followed by tail
//   emit:<L>,<P>,<src>,<dst>,<bytes>       serialize with FixLengths+ComputeChecksums; <bytes> = layer header
//                                          + payload exactly as expected on the wire, checksum field zero
//   buf:reuse | buf:dirty,<byte hex>,<n>   the following emit ops of the case share ONE SerializeBuffer (as callers of
//                                          SerializeLayers do); dirty: first filled with <byte> by PrependBytes(n)+AppendBytes(n), then Clear
//   oemit:... / over:...                   as emit / ver, but the network-layer object and the transport-layer objects
//                                          live for the whole case: fields and addresses are overwritten in place and
//                                          SetNetworkLayerForChecksum is called only when an object is created
//   conc:<workers>,<ms>,<seed>             <workers> goroutines each verify (3 of 4) or serialize (1 of 4) their own packet
//                                          in a loop for at least <ms> ms; every result is compared with the reference
//   ver:<L>,<P>,<src>,<dst>,<bytes>        decode <bytes> as layer L, attach the network layer, VerifyChecksum
//   flip:...,<bytes>,<bit>                 the same after flipping one bit (byte bit/8, mask 1<<(bit%8))
//   flips:...,<bytes>,<b1>/<b2>/...        several single-bit flips of the same packet
//   flipall:...,<bytes>                    every single-bit flip
// L in ip4 tcp udp icmp4 icmp6 gre; P in n 4 6 (pseudo-header kind; src/dst hex, empty for n).

import (
	"bytes"
	"encoding/binary"
	"encoding/hex"
	"fmt"
	"math/rand"
	"reflect"
	"strconv"
	"strings"
	"sync"
	"sync/atomic"
	"time"

	"github.com/gopacket/gopacket"
	"github.com/gopacket/gopacket/layers"
)

type c08 struct{}

func init() { register("C08", c08{}) }

// ---------------------------------------------------------------- independent reference (wide integer, mod 65535)

func c08wordsum(bs []byte) uint64 {
	var s uint64
	for i := 0; i+1 < len(bs); i += 2 {
		s += uint64(bs[i])<<8 | uint64(bs[i+1])
	}
	if len(bs)%2 == 1 {
		s += uint64(bs[len(bs)-1]) << 8
	}
	return s
}

func c08oc(n uint64) uint64 {
	if n == 0 {
		return 0
	}
	return (n-1)%65535 + 1
}

func c08rfc(sum uint64) uint16 { return uint16(65535 - c08oc(sum)) }

func c08proto(l string) byte {
	switch l {
	case "tcp":
		return 6
	case "udp":
		return 17
	case "icmp6":
		return 58
	}
	return 0
}

func c08usesPseudo(l string) bool { return l == "tcp" || l == "udp" || l == "icmp6" }

// pseudo-header written out as bytes, then summed like any other data
func c08pseudoSum(l, pk string, src, dst []byte, n int) uint64 {
	if !c08usesPseudo(l) {
		return 0
	}
	var ph []byte
	switch pk {
	case "4":
		ph = append(ph, src...)
		ph = append(ph, dst...)
		ph = append(ph, 0, c08proto(l))
		// a 16-bit length cannot hold n > 65535; gopacket adds both halves, as for IPv6
		ph = append(ph, byte(n>>24), byte(n>>16), byte(n>>8), byte(n))
	case "6":
		ph = append(ph, src...)
		ph = append(ph, dst...)
		ph = append(ph, byte(n>>24), byte(n>>16), byte(n>>8), byte(n))
		ph = append(ph, 0, 0, 0, c08proto(l))
	}
	return c08wordsum(ph)
}

// offset of the checksum field in the layer's bytes, -1 when there is none
func c08fieldOff(l string, bs []byte) int {
	switch l {
	case "ip4":
		return 10
	case "tcp":
		return 16
	case "udp":
		return 6
	case "icmp4", "icmp6":
		return 2
	case "gre":
		if len(bs) > 0 && bs[0]&0xc0 != 0 {
			return 4
		}
		return -1
	}
	return -1
}

// wide sum over pseudo-header and region with the checksum field taken as zero
func c08wideSum(l, pk string, src, dst, region []byte) uint64 {
	z := append([]byte(nil), region...)
	if off := c08fieldOff(l, z); off >= 0 && off+1 < len(z) {
		z[off], z[off+1] = 0, 0
	}
	return c08pseudoSum(l, pk, src, dst, len(region)) + c08wordsum(z)
}

// the checksum a correct emitter stores
func c08expected(l string, wide uint64) uint16 {
	r := c08rfc(wide)
	if l == "udp" && r == 0 {
		r = 0xffff
	}
	return r
}

// ---------------------------------------------------------------- generators

func c08randBytes(rng *rand.Rand, n int) []byte {
	b := make([]byte, n)
	switch rng.Intn(8) {
	case 0: // all ones: large sums
		for i := range b {
			b[i] = 0xff
		}
	case 1: // sparse
		for i := range b {
			if rng.Intn(16) == 0 {
				b[i] = byte(rng.Intn(256))
			}
		}
	default:
		rng.Read(b)
	}
	return b
}

// bytes that can never become TCP option kind 30 (MPTCP, outside the model) by one bit flip
func c08safeOptByte(rng *rand.Rand) byte {
	for {
		v := byte(rng.Intn(256))
		switch v {
		case 30, 31, 28, 26, 22, 14, 62, 94, 158:
			continue
		}
		return v
	}
}

func c08tcpOptions(rng *rand.Rand) []byte {
	var o []byte
	n := rng.Intn(4)
	for i := 0; i < n; i++ {
		switch rng.Intn(4) {
		case 0:
			o = append(o, 1)
		case 1:
			o = append(o, 2, 4, c08safeOptByte(rng), c08safeOptByte(rng))
		case 2:
			o = append(o, 3, 3, c08safeOptByte(rng))
		case 3:
			l := 2 + rng.Intn(9)
			o = append(o, 8, byte(l))
			for j := 2; j < l; j++ {
				o = append(o, c08safeOptByte(rng))
			}
		}
	}
	for len(o)%4 != 0 {
		o = append(o, 1)
	}
	if len(o) > 40 {
		o = o[:0]
	}
	if len(o) >= 4 && rng.Intn(4) == 0 { // end-of-list options as the last word
		o[len(o)-1] = 0
	}
	return o
}

func c08ip4Options(rng *rand.Rand) []byte {
	var o []byte
	n := rng.Intn(3)
	for i := 0; i < n; i++ {
		switch rng.Intn(3) {
		case 0:
			o = append(o, 1)
		case 1:
			l := 3 + rng.Intn(6)
			o = append(o, byte(0x80|rng.Intn(30)+2), byte(l))
			for j := 2; j < l; j++ {
				o = append(o, byte(rng.Intn(256)))
			}
		case 2:
			o = append(o, 7, 7, 4, byte(rng.Intn(256)), byte(rng.Intn(256)), byte(rng.Intn(256)), byte(rng.Intn(256)))
		}
	}
	for len(o)%4 != 0 {
		o = append(o, 1)
	}
	return o
}

// header + payload for layer l, checksum field zero, lengths as FixLengths computes them
func c08build(rng *rand.Rand, l, pk string, plen int) []byte {
	payload := c08randBytes(rng, plen)
	var h []byte
	switch l {
	case "udp":
		h = make([]byte, 8)
		rng.Read(h[:4])
		n := plen + 8
		if pk == "6" && n > 65535 {
			n = 0
		}
		binary.BigEndian.PutUint16(h[4:], uint16(n))
	case "tcp":
		opts := c08tcpOptions(rng)
		h = make([]byte, 20+len(opts))
		rng.Read(h[:12])
		h[12] = byte((20+len(opts))/4)<<4 | byte(rng.Intn(2))
		h[13] = byte(rng.Intn(256))
		rng.Read(h[14:16])
		rng.Read(h[18:20])
		copy(h[20:], opts)
	case "icmp4":
		h = make([]byte, 8)
		rng.Read(h)
		if rng.Intn(2) == 0 {
			h[0], h[1] = 8, 0
		}
		h[2], h[3] = 0, 0
	case "icmp6":
		h = make([]byte, 4)
		h[0], h[1] = byte(rng.Intn(256)), byte(rng.Intn(256))
		if rng.Intn(2) == 0 {
			h[0], h[1] = 128, 0
		}
	case "gre":
		b0 := byte(0x80)
		switch rng.Intn(16) {
		case 0:
			b0 = 0 // no checksum
		case 1:
			b0 = 0xc0 // checksum + routing (empty SRE list)
		case 2:
			b0 = 0x40 // routing only
		}
		if rng.Intn(2) == 0 {
			b0 |= 0x20
		}
		if rng.Intn(2) == 0 {
			b0 |= 0x10
		}
		if rng.Intn(4) == 0 {
			b0 |= 0x08
		}
		b0 |= byte(rng.Intn(8))
		b1 := byte(rng.Intn(32))<<3&0x78 | byte(rng.Intn(8))
		if rng.Intn(3) == 0 {
			b1 |= 0x80 // ack
		}
		if c08greForce != 0 { // targeted flag combinations
			b0 = c08greForce&0xf8 | b0&0x07
			b1 = b1&0x7f | c08greForceAck
		}
		h = []byte{b0, b1, 0x88, 0xb5}
		if rng.Intn(3) == 0 {
			h[2], h[3] = byte(rng.Intn(256)), byte(rng.Intn(256))
		}
		nz := func() []byte { // non-zero field values: a field written too late or not at all changes the sum
			return []byte{byte(1 + rng.Intn(255)), byte(1 + rng.Intn(255)), byte(1 + rng.Intn(255)), byte(1 + rng.Intn(255))}
		}
		if b0&0xc0 != 0 {
			h = append(h, 0, 0, byte(1+rng.Intn(255)), byte(1+rng.Intn(255)))
		}
		if b0&0x20 != 0 {
			h = append(h, nz()...)
		}
		if b0&0x10 != 0 {
			h = append(h, nz()...)
		}
		if b0&0x40 != 0 {
			h = append(h, 0, 0, 0, 0)
		}
		if b1&0x80 != 0 {
			h = append(h, nz()...)
		}
	case "ip4":
		opts := c08ip4Options(rng)
		h = make([]byte, 20+len(opts))
		rng.Read(h)
		h[0] = 0x40 | byte((20+len(opts))/4)
		if rng.Intn(8) == 0 {
			h[0] = byte(rng.Intn(16))<<4 | byte((20+len(opts))/4)
		}
		if plen > 65535-len(h) {
			plen = 65535 - len(h)
			payload = payload[:plen]
		}
		binary.BigEndian.PutUint16(h[2:], uint16(len(h)+plen))
		h[9] = 253
		h[10], h[11] = 0, 0
		copy(h[20:], opts)
	}
	out := append(h, payload...)
	if l == "tcp" {
		// a flipped data-offset bit moves up to 40 payload bytes into the option area: keep option
		// kind 30 (MPTCP, outside the model; its decoder has known index-out-of-range defects, C19)
		// unreachable there as well
		for j := len(h); j < len(out) && j < 60; j++ {
			out[j] = c08safeOptByte(rng)
		}
	}
	return out
}

// a 16-bit hole at pos (any parity) is solved so that the RFC 1071 checksum of the whole is target
func c08solve(l, pk string, src, dst, bs []byte, pos int, target uint16) bool {
	if pos < 0 || pos+1 >= len(bs) {
		return false
	}
	bs[pos], bs[pos+1] = 0, 0
	a := c08wideSum(l, pk, src, dst, bs)
	want := uint64(65535 - uint64(target)) // required oc value
	if want == 0 {
		return a == 0
	}
	// find w in [0,65535] with oc(a + w) = want
	w := (want%65535 + 65535 - a%65535) % 65535
	if a+w == 0 {
		w = 65535
	}
	if pos%2 == 0 {
		bs[pos], bs[pos+1] = byte(w>>8), byte(w)
	} else {
		bs[pos], bs[pos+1] = byte(w), byte(w>>8)
	}
	return c08rfc(c08wideSum(l, pk, src, dst, bs)) == target
}

// where the solved word goes: the last two payload bytes, else a free header field
func c08solvePos(l string, bs []byte, hdrLen int) int {
	if l == "ip4" {
		return 4 // the payload is not covered by the header checksum
	}
	if l == "tcp" && len(bs)-2 < 60 {
		return 14 // keep solved (arbitrary) bytes out of the potential option area
	}
	if len(bs)-hdrLen >= 2 {
		return len(bs) - 2
	}
	switch l {
	case "udp":
		return 0
	case "tcp":
		return 14
	case "icmp4":
		return 6
	case "gre":
		return 2
	case "ip4":
		return 4
	}
	return -1
}

func c08hdrLen(l string, bs []byte) int {
	switch l {
	case "udp", "icmp4":
		return 8
	case "icmp6":
		return 4
	case "tcp":
		return int(bs[12]>>4) * 4
	case "ip4":
		return int(bs[0]&15) * 4
	case "gre":
		n := 4
		if bs[0]&0xc0 != 0 {
			n += 4
		}
		if bs[0]&0x20 != 0 {
			n += 4
		}
		if bs[0]&0x10 != 0 {
			n += 4
		}
		if bs[0]&0x40 != 0 {
			n += 4
		}
		if bs[1]&0x80 != 0 {
			n += 4
		}
		return n
	}
	return 0
}

func c08addr(rng *rand.Rand, pk string) ([]byte, []byte) {
	n := 0
	switch pk {
	case "4":
		n = 4
	case "6":
		n = 16
	}
	s, d := make([]byte, n), make([]byte, n)
	switch rng.Intn(6) {
	case 0:
		for i := range s {
			s[i], d[i] = 0xff, 0xff
		}
	case 1: // zeros
	default:
		rng.Read(s)
		rng.Read(d)
	}
	return s, d
}

func c08op(name, l, pk string, src, dst, bs []byte, extra string) string {
	s := fmt.Sprintf("%s:%s,%s,%s,%s,%s", name, l, pk, hex.EncodeToString(src), hex.EncodeToString(dst), hex.EncodeToString(bs))
	if extra != "" {
		s += "," + extra
	}
	return s
}

// when non-zero, c08build("gre") uses these flag bits (byte 0 high five bits, ack bit of byte 1)
var c08greForce, c08greForceAck byte

var c08layers = []string{"udp", "tcp", "icmp4", "icmp6", "ip4", "gre"}

func c08pseudos(l string) []string {
	if c08usesPseudo(l) {
		return []string{"4", "6"}
	}
	return []string{"n"}
}

// one packet scenario: emit, verify the (reference-)emitted packet, corruptions, stored-value variants
func c08packetCase(rng *rand.Rand, l, pk string, plen int, target int, flipAllMax int) Case {
	src, dst := c08addr(rng, pk)
	bs := c08build(rng, l, pk, plen)
	hl := c08hdrLen(l, bs)
	off := c08fieldOff(l, bs)
	var ops []string
	if target >= 0 && off >= 0 {
		cov := bs
		if l == "ip4" {
			cov = bs[:hl] // only the header is covered
		}
		ok := c08solve(l, pk, src, dst, cov, c08solvePos(l, bs, hl), uint16(target))
		feasible := target != 0xffff // a sum of zero is impossible: version nibble, flag or protocol word is non-zero
		if l == "icmp6" && len(bs)-hl < 2 {
			feasible = false // no free 16-bit word
		}
		if feasible && !ok {
			ops = append(ops, "selfcheck-solve-failed:"+l+pk) // generator defect: reported as a disagreement
		}
	}
	ops = append(ops, c08op("emit", l, pk, src, dst, bs, ""))
	full := append([]byte(nil), bs...)
	var ck uint16
	if off >= 0 {
		ck = c08expected(l, c08wideSum(l, pk, src, dst, bs))
		if l == "ip4" {
			ck = c08expected(l, c08wideSum(l, pk, src, dst, bs[:hl]))
		}
		if l == "gre" && bs[0]&0x80 == 0 {
			ck = 0 // routing only: field stays zero
		}
		binary.BigEndian.PutUint16(full[off:], ck)
	}
	wire := full
	if l == "ip4" { // the emit op carries the header; verification sees header + payload
		ops[len(ops)-1] = c08op("emit", l, pk, src, dst, bs[:hl], "")
	}
	ops = append(ops, c08op("ver", l, pk, src, dst, wire, ""))
	nbits := 8 * len(wire)
	if len(wire) <= flipAllMax {
		ops = append(ops, c08op("flipall", l, pk, src, dst, wire, ""))
	} else {
		var bits []string
		add := func(b int) {
			if b >= 0 && b < nbits {
				bits = append(bits, strconv.Itoa(b))
			}
		}
		nr := 6
		if len(wire) > 9000 {
			nr = 2
		}
		for i := 0; i < nr; i++ {
			add(rng.Intn(nbits))
		}
		if off >= 0 {
			add(8*off + rng.Intn(16)) // in the checksum field
		}
		add(nbits - 1 - rng.Intn(8)) // last byte
		add(rng.Intn(8 * hl))        // header
		if l == "udp" {
			add(8*4 + rng.Intn(16)) // length field
		}
		if l == "ip4" {
			add(rng.Intn(8)) // version / IHL
			add(16 + rng.Intn(16))
		}
		ops = append(ops, c08op("flips", l, pk, src, dst, wire, strings.Join(bits, "/")))
	}
	// stored-value variants: the other representation of zero, zero ("no checksum" for UDP), off by one
	if off >= 0 && len(wire) <= 2000 {
		seen := map[uint16]bool{ck: true}
		for _, v := range []uint16{0, 0xffff, ck + 1, ck ^ 0xffff} {
			if seen[v] {
				continue
			}
			seen[v] = true
			alt := append([]byte(nil), wire...)
			binary.BigEndian.PutUint16(alt[off:], v)
			ops = append(ops, c08op("ver", l, pk, src, dst, alt, ""))
		}
	}
	// without a network layer the L4 checksums cannot be computed: an error, not a panic
	if c08usesPseudo(l) && len(wire) <= 200 && rng.Intn(4) == 0 {
		ops = append(ops, c08op("emit", l, "n", nil, nil, bs, ""), c08op("ver", l, "n", nil, nil, wire, ""))
	}
	return Case{Prop: "C08", Ops: ops}
}

func c08len(rng *rand.Rand, class int) int {
	switch class {
	case 0:
		return rng.Intn(4)
	case 1:
		return 4 + rng.Intn(40)
	case 2:
		return 44 + rng.Intn(1500)
	case 3:
		return 1500 + rng.Intn(8000)
	default:
		return 9500 + rng.Intn(60501)
	}
}

func (c08) Gen(rng *rand.Rand, tier string) []Case {
	var out []Case
	// helpers: boundary accumulators and byte strings
	accs := []uint32{0, 1, 0xfffe, 0xffff, 0x10000, 0x10001, 0x1fffe, 0x1ffff, 0xfffe0001, 0xffff0000, 0xffff0001, 0xfffffffe, 0xffffffff, 0x7fffffff, 0x80000000, 0xfffeffff, 0xffffffff - 0xffff}
	var ops []string
	for _, a := range accs {
		ops = append(ops, fmt.Sprintf("fold:%x", a))
	}
	out = append(out, Case{Prop: "C08", Ops: ops})
	nh := 60
	if tier == "thorough" {
		nh = 600
	}
	for i := 0; i < nh; i++ {
		var ops []string
		for j := 0; j < 8; j++ {
			ops = append(ops, fmt.Sprintf("fold:%x", rng.Uint32()))
			a := uint32(0)
			switch rng.Intn(4) {
			case 0:
				a = accs[rng.Intn(len(accs))]
			case 1:
				a = rng.Uint32() >> uint(rng.Intn(32))
			}
			n := rng.Intn(40)
			if rng.Intn(8) == 0 {
				n = rng.Intn(3000)
			}
			ops = append(ops, fmt.Sprintf("cc:%x,%s", a, hex.EncodeToString(c08randBytes(rng, n))))
		}
		out = append(out, Case{Prop: "C08", Ops: ops})
	}
	// around the largest length for which a uint32 accumulator cannot wrap
	out = append(out, Case{Prop: "C08", Ops: []string{"ccr:0,255,131070,", "ccr:0,255,131074,", "ccr:0,255,131073,", "ccr:0,255,65535,01"}})
	// packets: every layer x pseudo-header x checksum class x parity x size class
	targets := []int{0x0000, 0xffff, 0x0001, 0xfffe, -1}
	reps := 1
	if tier == "thorough" {
		reps = 6
	}
	for r := 0; r < reps; r++ {
		for _, l := range c08layers {
			for _, pk := range c08pseudos(l) {
				for _, tg := range targets {
					for parity := 0; parity < 2; parity++ {
						for class := 0; class < 4; class++ {
							if class == 3 && (r+parity+tg)%2 != 0 {
								continue
							}
							plen := c08len(rng, class)
							if plen%2 != parity {
								plen++
							}
							out = append(out, c08packetCase(rng, l, pk, plen, tg, 56))
						}
					}
				}
			}
		}
	}
	// several packets serialized into ONE buffer (SerializeLayers -> Clear -> next packet), and into a buffer whose
	// memory was filled with 0xaa / 0xff before: the checksum field and every header field land on leftovers
	emitOnly := func(l, pk string, plen, tg int) string {
		src, dst := c08addr(rng, pk)
		bs := c08build(rng, l, pk, plen)
		hl := c08hdrLen(l, bs)
		if tg >= 0 && c08fieldOff(l, bs) >= 0 {
			cov := bs
			if l == "ip4" {
				cov = bs[:hl]
			}
			c08solve(l, pk, src, dst, cov, c08solvePos(l, bs, hl), uint16(tg))
		}
		if l == "ip4" {
			bs = bs[:hl]
		}
		return c08op("emit", l, pk, src, dst, bs, "")
	}
	bufOps := []string{"buf:reuse", "buf:dirty,aa,4096", "buf:dirty,ff,4096", "buf:dirty,01,2048"}
	nseq := 2
	if tier == "thorough" {
		nseq = 12
	}
	for r := 0; r < nseq; r++ {
		for li, l := range c08layers {
			for _, pk := range c08pseudos(l) {
				for bi, bo := range bufOps {
					ops := []string{bo}
					// first packet: any layer (so that leftovers differ in layout), then the layer under test twice
					l0 := c08layers[(li+bi+r)%len(c08layers)]
					pk0 := c08pseudos(l0)[r%len(c08pseudos(l0))]
					ops = append(ops, emitOnly(l0, pk0, 20+rng.Intn(200), -1))
					ops = append(ops, emitOnly(l, pk, rng.Intn(120), targets[(bi+r)%len(targets)]))
					ops = append(ops, emitOnly(l, pk, rng.Intn(1200), targets[(bi+r+2)%len(targets)]))
					out = append(out, Case{Prop: "C08", Ops: ops})
				}
			}
		}
	}
	// the same network-layer and transport-layer OBJECTS used for several packets: addresses, ports and payload are
	// overwritten in place, SetNetworkLayerForChecksum is not called again (as with DecodingLayerParser / a sender loop)
	pktOp := func(name, l, pk string, plen, tg int, stored bool) string {
		src, dst := c08addr(rng, pk)
		if len(src) > 0 { // never all-equal addresses: a stale address sum must show
			rng.Read(src)
			rng.Read(dst)
		}
		bs := c08build(rng, l, pk, plen)
		hl := c08hdrLen(l, bs)
		cov := bs
		if l == "ip4" {
			cov = bs[:hl]
		}
		if tg >= 0 && c08fieldOff(l, bs) >= 0 {
			c08solve(l, pk, src, dst, cov, c08solvePos(l, bs, hl), uint16(tg))
		}
		if stored { // for verification: the reference checksum in place
			if off := c08fieldOff(l, bs); off >= 0 && !(l == "gre" && bs[0]&0x80 == 0) {
				binary.BigEndian.PutUint16(bs[off:], c08expected(l, c08wideSum(l, pk, src, dst, cov)))
			}
		} else if l == "ip4" {
			bs = bs[:hl]
		}
		return c08op(name, l, pk, src, dst, bs, "")
	}
	nobj := 5
	if tier == "thorough" {
		nobj = 30
	}
	for r := 0; r < nobj; r++ {
		for _, l := range c08layers {
			for _, pk := range c08pseudos(l) {
				tg := targets[r%len(targets)]
				ops := []string{
					pktOp("oemit", l, pk, rng.Intn(100), -1, false),
					pktOp("oemit", l, pk, rng.Intn(100), tg, false),
					pktOp("over", l, pk, rng.Intn(100), -1, true),
					pktOp("over", l, pk, rng.Intn(100), tg, true),
					pktOp("oemit", l, pk, rng.Intn(1200), -1, false),
					pktOp("over", l, pk, rng.Intn(1200), -1, true),
				}
				if r%2 == 1 { // also through one reused buffer
					ops = append([]string{"buf:reuse"}, ops...)
				}
				if c08usesPseudo(l) { // the other address family in between: its own objects
					other := "4"
					if pk == "4" {
						other = "6"
					}
					ops = append(ops, pktOp("oemit", l, other, rng.Intn(60), -1, false), pktOp("oemit", l, pk, rng.Intn(60), -1, false), pktOp("over", l, pk, rng.Intn(60), -1, true))
				}
				out = append(out, Case{Prop: "C08", Ops: ops})
			}
		}
	}
	// concurrency: goroutines verifying / serializing their own packets; only results are judged
	if tier == "thorough" {
		out = append(out, Case{Prop: "C08", Ops: []string{fmt.Sprintf("conc:64,4000,%d", rng.Int63n(1<<30))}}, Case{Prop: "C08", Ops: []string{fmt.Sprintf("conc:16,2000,%d", rng.Int63n(1<<30))}})
	} else {
		out = append(out, Case{Prop: "C08", Ops: []string{fmt.Sprintf("conc:48,700,%d", rng.Int63n(1<<30))}})
	}
	// GRE flag combinations with non-zero field values, fresh and dirty buffers:
	// checksum+ack, checksum+routing, checksum+routing+ack, key+seq, checksum+key+seq+ack, all
	for _, fc := range [][2]byte{{0x80, 0x80}, {0xc0, 0}, {0xc0, 0x80}, {0x30, 0}, {0xb0, 0x80}, {0xf8, 0x80}, {0x88, 0}, {0x40, 0x80}} {
		c08greForce, c08greForceAck = fc[0], fc[1]
		for _, bo := range []string{"", "buf:dirty,ff,4096", "buf:reuse"} {
			var ops []string
			if bo != "" {
				ops = append(ops, bo, emitOnly("udp", "4", 64+rng.Intn(64), -1))
			}
			ops = append(ops, emitOnly("gre", "n", rng.Intn(60), -1), emitOnly("gre", "n", rng.Intn(60), 0))
			out = append(out, Case{Prop: "C08", Ops: ops})
		}
		out = append(out, c08packetCase(rng, "gre", "n", rng.Intn(30), -1, 56))
	}
	c08greForce, c08greForceAck = 0, 0
	// ICMPv4 with an all-zero sum: the only way a non-UDP emitter writes 0xffff
	for _, n := range []int{0, 1, 6, 7} {
		bs := make([]byte, 8+n)
		full := append([]byte(nil), bs...)
		full[2], full[3] = 0xff, 0xff
		out = append(out, Case{Prop: "C08", Ops: []string{c08op("emit", "icmp4", "n", nil, nil, bs, ""), c08op("ver", "icmp4", "n", nil, nil, full, ""), c08op("flipall", "icmp4", "n", nil, nil, full, "")}})
	}
	// large packets, incl. > 65535 (IPv6 jumbograms; uint16 length wrap over IPv4)
	nl := 18
	if tier == "thorough" {
		nl = 300
	}
	for i := 0; i < nl; i++ {
		l := c08layers[i%len(c08layers)]
		pks := c08pseudos(l)
		pk := pks[(i/len(c08layers))%len(pks)]
		plen := c08len(rng, 4)
		if i%5 == 0 {
			plen = 65500 + rng.Intn(80)
		}
		out = append(out, c08packetCase(rng, l, pk, plen, targets[i%len(targets)], 0))
	}
	// malformed / hostile byte strings straight into the verifiers
	nm := 150
	if tier == "thorough" {
		nm = 2000
	}
	for i := 0; i < nm; i++ {
		l := c08layers[rng.Intn(len(c08layers))]
		pks := c08pseudos(l)
		pk := pks[rng.Intn(len(pks))]
		src, dst := c08addr(rng, pk)
		var bs []byte
		if rng.Intn(2) == 0 {
			bs = c08build(rng, l, pk, rng.Intn(40))
			if len(bs) > 0 {
				bs = bs[:rng.Intn(len(bs)+1)] // truncated
			}
		} else {
			bs = make([]byte, rng.Intn(48))
			for j := range bs {
				bs[j] = c08safeOptByte(rng)
			}
		}
		if l == "tcp" {
			for j := 20; j < len(bs) && j < 60; j++ { // keep MPTCP (kind 30) out of the option area
				if bs[j] == 30 {
					bs[j] = 1
				}
			}
		}
		out = append(out, Case{Prop: "C08", Ops: []string{c08op("ver", l, pk, src, dst, bs, "")}})
	}
	return out
}

// ---------------------------------------------------------------- running the implementation

func c08netLayer(pk string, src, dst []byte, proto byte) gopacket.NetworkLayer {
	switch pk {
	case "4":
		return &layers.IPv4{Version: 4, IHL: 5, TTL: 64, Protocol: layers.IPProtocol(proto), SrcIP: append([]byte(nil), src...), DstIP: append([]byte(nil), dst...)}
	case "6":
		return &layers.IPv6{Version: 6, HopLimit: 64, NextHeader: layers.IPProtocol(proto), SrcIP: append([]byte(nil), src...), DstIP: append([]byte(nil), dst...)}
	}
	return nil
}

type c08csumLayer interface {
	gopacket.Layer
	DecodeFromBytes([]byte, gopacket.DecodeFeedback) error
	VerifyChecksum() (error, gopacket.ChecksumVerificationResult)
}

func c08newLayer(l string) c08csumLayer {
	switch l {
	case "ip4":
		return &layers.IPv4{}
	case "tcp":
		return &layers.TCP{}
	case "udp":
		return &layers.UDP{}
	case "icmp4":
		return &layers.ICMPv4{}
	case "icmp6":
		return &layers.ICMPv6{}
	case "gre":
		return &layers.GRE{}
	}
	return nil
}

func c08layerType(l string) gopacket.LayerType {
	switch l {
	case "ip4":
		return layers.LayerTypeIPv4
	case "tcp":
		return layers.LayerTypeTCP
	case "udp":
		return layers.LayerTypeUDP
	case "icmp4":
		return layers.LayerTypeICMPv4
	case "icmp6":
		return layers.LayerTypeICMPv6
	case "gre":
		return layers.LayerTypeGRE
	}
	return gopacket.LayerTypeZero
}

func c08ipProto(l string) byte {
	switch l {
	case "icmp4":
		return 1
	case "gre":
		return 47
	}
	return c08proto(l)
}

// the bytes the layer's checksum covers, as the decoded layer presents them
func c08region(l string, ly gopacket.Layer) []byte {
	if l == "ip4" {
		return append([]byte(nil), ly.LayerContents()...)
	}
	return append(append([]byte(nil), ly.LayerContents()...), ly.LayerPayload()...)
}

type c08setNet interface {
	SetNetworkLayerForChecksum(gopacket.NetworkLayer) error
}

// result of one verification on the implementation
type c08vr struct {
	cls    string // ok err panic
	res    gopacket.ChecksumVerificationResult
	region []byte // Contents ++ Payload of the decoded layer (what the checksum covers)
}

func (v c08vr) obs() string {
	if v.cls != "ok" {
		return "cls=" + v.cls
	}
	b := 0
	if v.res.Valid {
		b = 1
	}
	return fmt.Sprintf("cls=ok;valid=%d;correct=%d;actual=%d", b, v.res.Correct, v.res.Actual)
}

func (v c08vr) short() string {
	switch v.cls {
	case "ok":
		b := 0
		if v.res.Valid {
			b = 1
		}
		return fmt.Sprintf("%d,%d,%d", b, v.res.Correct, v.res.Actual)
	case "err":
		return "e"
	}
	return "p"
}

// layer objects that live across the ops of a case (oemit / over)
type c08objs struct {
	net map[string]gopacket.NetworkLayer      // by pseudo-header kind
	ser map[string]gopacket.SerializableLayer // by layer+kind: object serialized again and again
	dec map[string]c08csumLayer               // by layer+kind: object decoded into again and again
}

func newC08objs() *c08objs {
	return &c08objs{net: map[string]gopacket.NetworkLayer{}, ser: map[string]gopacket.SerializableLayer{}, dec: map[string]c08csumLayer{}}
}

// the case's network-layer object of that kind, with the addresses overwritten in place
func (o *c08objs) netLayer(pk string, src, dst []byte, proto byte) gopacket.NetworkLayer {
	nl, ok := o.net[pk]
	if !ok {
		nl = c08netLayer(pk, src, dst, proto)
		o.net[pk] = nl
		return nl
	}
	switch v := nl.(type) {
	case *layers.IPv4:
		v.SrcIP, v.DstIP, v.Protocol = append([]byte(nil), src...), append([]byte(nil), dst...), layers.IPProtocol(proto)
	case *layers.IPv6:
		v.SrcIP, v.DstIP, v.NextHeader = append([]byte(nil), src...), append([]byte(nil), dst...), layers.IPProtocol(proto)
		v.HopByHop = nil
	}
	return nl
}

// copy the exported fields of src into dst (same concrete type), leaving unexported state of dst alone
func c08assignExported(dst, src interface{}) {
	dv, sv := reflect.ValueOf(dst).Elem(), reflect.ValueOf(src).Elem()
	for i := 0; i < dv.NumField(); i++ {
		if f := dv.Field(i); f.CanSet() {
			f.Set(sv.Field(i))
		}
	}
}

// direct path: the layer's own DecodeFromBytes on a private copy, network layer attached, VerifyChecksum
func c08verifyDirect(l, pk string, src, dst, data []byte) (v c08vr) {
	return c08verifyDirectObj(l, pk, src, dst, data, nil)
}

// with po != nil the decoded-into object and the network-layer object are the case's long-lived ones
func c08verifyDirectObj(l, pk string, src, dst, data []byte, po *c08objs) (v c08vr) {
	defer func() {
		if r := recover(); r != nil {
			v = c08vr{cls: "panic"}
		}
	}()
	buf := append([]byte(nil), data...)
	ly := c08newLayer(l)
	fresh := true
	if po != nil {
		if old, ok := po.dec[l+pk]; ok {
			ly, fresh = old, false
		} else {
			po.dec[l+pk] = ly
		}
	}
	if err := ly.DecodeFromBytes(buf, gopacket.NilDecodeFeedback); err != nil {
		return c08vr{cls: "err"}
	}
	region := c08region(l, ly)
	if sn, ok := ly.(c08setNet); ok && pk != "n" {
		var nl gopacket.NetworkLayer
		if po != nil {
			nl = po.netLayer(pk, src, dst, c08proto(l)) // addresses overwritten in the attached object
		} else {
			nl = c08netLayer(pk, src, dst, c08proto(l))
		}
		if fresh {
			if err := sn.SetNetworkLayerForChecksum(nl); err != nil {
				return c08vr{cls: "err"}
			}
		}
	}
	err, res := ly.VerifyChecksum()
	if err != nil {
		return c08vr{cls: "err", region: region}
	}
	return c08vr{cls: "ok", res: res, region: region}
}

// packet path: the bytes wrapped in an IP header written here, decoded by gopacket.NewPacket,
// SetNetworkLayerForChecksum(packet.NetworkLayer()), then VerifyChecksum and Packet.VerifyChecksums.
// applicable=false when the bytes cannot be carried that way.
func c08verifyPacket(l, pk string, src, dst, data []byte) (v c08vr, all string, applicable bool) {
	defer func() {
		if r := recover(); r != nil {
			v = c08vr{cls: "panic"}
		}
	}()
	var pkt []byte
	first := layers.LayerTypeIPv4
	wrap := pk
	if l == "ip4" {
		pkt = append([]byte(nil), data...)
	} else {
		if wrap == "n" {
			if c08usesPseudo(l) {
				return c08vr{}, "", false
			}
			wrap = "4"
			src, dst = []byte{192, 0, 2, 1}, []byte{192, 0, 2, 2}
		}
		switch wrap {
		case "4":
			if 20+len(data) > 65535 {
				return c08vr{}, "", false
			}
			h := make([]byte, 20)
			h[0] = 0x45
			binary.BigEndian.PutUint16(h[2:], uint16(20+len(data)))
			h[8] = 64
			h[9] = c08ipProto(l)
			copy(h[12:], src)
			copy(h[16:], dst)
			binary.BigEndian.PutUint16(h[10:], c08rfc(c08wordsum(h)))
			pkt = append(h, data...)
		case "6":
			if len(data) > 65535 || len(data) == 0 {
				return c08vr{}, "", false
			}
			h := make([]byte, 40)
			h[0] = 0x60
			binary.BigEndian.PutUint16(h[4:], uint16(len(data)))
			h[6] = c08ipProto(l)
			h[7] = 64
			copy(h[8:], src)
			copy(h[24:], dst)
			pkt = append(h, data...)
			first = layers.LayerTypeIPv6
		}
	}
	p := gopacket.NewPacket(pkt, first, gopacket.Default)
	ly := p.Layer(c08layerType(l))
	if ly == nil {
		return c08vr{cls: "err"}, "", true
	}
	cl := ly.(c08csumLayer)
	region := c08region(l, cl)
	if _, ok := ly.(c08setNet); ok {
		// before the network layer is attached the L4 checksum cannot be verified: an error, no panic, no verdict
		if e0, mm := p.VerifyChecksums(); e0 == nil {
			all += fmt.Sprintf(";unattached-no-error(%d mismatches)", len(mm))
		}
	}
	if sn, ok := ly.(c08setNet); ok {
		if p.NetworkLayer() == nil {
			return c08vr{cls: "err"}, all, true
		}
		if err := sn.SetNetworkLayerForChecksum(p.NetworkLayer()); err != nil {
			return c08vr{cls: "err"}, all, true
		}
	}
	err, res := cl.VerifyChecksum()
	if err != nil {
		return c08vr{cls: "err", region: region}, all, true
	}
	v = c08vr{cls: "ok", res: res, region: region}
	// Packet.VerifyChecksums: our layer is reported iff it is invalid (inner layers may add errors: skipped)
	idx := -1
	for i, x := range p.Layers() {
		if x == ly {
			idx = i
		}
	}
	if e2, mm := p.VerifyChecksums(); e2 == nil {
		found := false
		for _, m := range mm {
			if m.LayerIndex == idx {
				found = true
				if m.Valid != res.Valid || m.Correct != res.Correct || m.Actual != res.Actual {
					all += ";mismatch-entry-differs"
				}
			}
		}
		if found == res.Valid {
			all += ";verifychecksums-disagrees"
		}
	}
	return v, all, true
}

// oracle for one verification: Correct is the reference over the covered region, Actual the stored
// field, Valid exactly when they are equal (UDP: or nothing stored; GRE: or no checksum flag)
func c08checkVerify(l, pk string, src, dst, data []byte, v c08vr, what string, tags map[string]bool) []string {
	var fails []string
	if v.cls == "panic" {
		return []string{fmt.Sprintf("C08:no-panic\t%s panicked", what)}
	}
	if v.cls != "ok" {
		return nil
	}
	region := v.region
	off := c08fieldOff(l, region)
	wide := c08wideSum(l, pk, src, dst, region)
	want := c08expected(l, wide)
	stored := uint16(0)
	if off >= 0 {
		stored = binary.BigEndian.Uint16(region[off:])
	}
	wantValid := stored == want
	if l == "udp" && stored == 0 {
		wantValid = true
		tags["udp-zero-rule"] = true
	}
	if l == "gre" && region[0]&0x80 == 0 {
		wantValid = true
	}
	wrap := ""
	if wide >= 1<<32 {
		wrap = "acc-wrap "
		tags["acc-wrap"] = true
	}
	if len(region)%2 == 1 {
		tags["odd-length"] = true
	}
	if wide > 0xffff {
		tags["carry-out-of-16"] = true
	}
	if want == 0 {
		tags["csum-0000"] = true
	}
	if want == 0xffff {
		tags["csum-ffff"] = true
		if l == "udp" {
			tags["udp-zero-rule"] = true
		}
	}
	if len(region) != len(data) {
		tags["region-trimmed"] = true
	}
	if uint16(v.res.Correct) != want || v.res.Correct > 0xffff {
		fails = append(fails, fmt.Sprintf("C08:verify-correct\t%s%s %s/%s len=%d: Correct=%#04x reference=%#04x stored=%#04x", wrap, what, l, pk, len(region), v.res.Correct, want, stored))
	}
	if v.res.Actual != uint32(stored) {
		fails = append(fails, fmt.Sprintf("C08:verify-actual\t%s %s/%s: Actual=%#04x stored=%#04x", what, l, pk, v.res.Actual, stored))
	}
	if v.res.Valid != wantValid {
		fails = append(fails, fmt.Sprintf("C08:verify-valid\t%s%s %s/%s len=%d: Valid=%v but stored=%#04x reference=%#04x", wrap, what, l, pk, len(region), v.res.Valid, stored, want))
	}
	return fails
}

func c08flip(data []byte, bit int) []byte {
	f := append([]byte(nil), data...)
	if bit/8 < len(f) {
		f[bit/8] ^= 1 << uint(bit%8)
	}
	return f
}

// oracle for a corruption: if the original carries the reference checksum and the flipped packet
// still decodes to a region of the same extent, the flip must be reported (Valid=false)
func c08checkFlip(l, pk string, src, dst, data []byte, orig c08vr, bit int, fv c08vr, tags map[string]bool) []string {
	if orig.cls != "ok" || fv.cls != "ok" {
		return nil
	}
	off := c08fieldOff(l, orig.region)
	if off < 0 || bit/8 >= len(orig.region) || len(fv.region) != len(orig.region) {
		return nil
	}
	if l == "gre" && orig.region[0]&0x80 == 0 {
		return nil
	}
	stored := binary.BigEndian.Uint16(orig.region[off:])
	if stored != c08expected(l, c08wideSum(l, pk, src, dst, orig.region)) {
		return nil // original not correctly checksummed
	}
	if bit/8 == off || bit/8 == off+1 {
		tags["flip-in-checksum-field"] = true
	}
	if l == "udp" && binary.BigEndian.Uint16(fv.region[off:]) == 0 {
		tags["udp-zero-rule"] = true
		return nil // stored value now means "no checksum"
	}
	if l == "gre" && bit == 7 {
		return nil // checksum-present flag cleared
	}
	if fv.res.Valid {
		return []string{fmt.Sprintf("C08:bitflip-detected\t%s/%s len=%d bit %d flipped, still Valid (Correct=%#04x Actual=%#04x)", l, pk, len(data), bit, fv.res.Correct, fv.res.Actual)}
	}
	return nil
}

func c08parsePkt(args []string) (l, pk string, src, dst, bs []byte) {
	l, pk = args[0], args[1]
	src, _ = hex.DecodeString(args[2])
	dst, _ = hex.DecodeString(args[3])
	bs, _ = hex.DecodeString(args[4])
	return
}

// build the gopacket layer + payload that should serialize to bs (checksum field aside)
func c08layerFromBytes(l string, bs []byte) (gopacket.SerializableLayer, []byte) {
	switch l {
	case "udp":
		return &layers.UDP{SrcPort: layers.UDPPort(binary.BigEndian.Uint16(bs[0:])), DstPort: layers.UDPPort(binary.BigEndian.Uint16(bs[2:]))}, bs[8:]
	case "tcp":
		hl := int(bs[12]>>4) * 4
		t := &layers.TCP{SrcPort: layers.TCPPort(binary.BigEndian.Uint16(bs[0:])), DstPort: layers.TCPPort(binary.BigEndian.Uint16(bs[2:])),
			Seq: binary.BigEndian.Uint32(bs[4:]), Ack: binary.BigEndian.Uint32(bs[8:]), NS: bs[12]&1 != 0,
			FIN: bs[13]&1 != 0, SYN: bs[13]&2 != 0, RST: bs[13]&4 != 0, PSH: bs[13]&8 != 0, ACK: bs[13]&16 != 0, URG: bs[13]&32 != 0, ECE: bs[13]&64 != 0, CWR: bs[13]&128 != 0,
			Window: binary.BigEndian.Uint16(bs[14:]), Urgent: binary.BigEndian.Uint16(bs[18:])}
		o := bs[20:hl]
		for len(o) > 0 {
			if o[0] <= 1 {
				t.Options = append(t.Options, layers.TCPOption{OptionType: layers.TCPOptionKind(o[0]), OptionLength: 1})
				o = o[1:]
				continue
			}
			n := int(o[1])
			t.Options = append(t.Options, layers.TCPOption{OptionType: layers.TCPOptionKind(o[0]), OptionLength: o[1], OptionData: append([]byte(nil), o[2:n]...)})
			o = o[n:]
		}
		return t, bs[hl:]
	case "icmp4":
		return &layers.ICMPv4{TypeCode: layers.CreateICMPv4TypeCode(bs[0], bs[1]), Id: binary.BigEndian.Uint16(bs[4:]), Seq: binary.BigEndian.Uint16(bs[6:])}, bs[8:]
	case "icmp6":
		return &layers.ICMPv6{TypeCode: layers.CreateICMPv6TypeCode(bs[0], bs[1])}, bs[4:]
	case "gre":
		g := &layers.GRE{ChecksumPresent: bs[0]&0x80 != 0, RoutingPresent: bs[0]&0x40 != 0, KeyPresent: bs[0]&0x20 != 0, SeqPresent: bs[0]&0x10 != 0,
			StrictSourceRoute: bs[0]&0x08 != 0, RecursionControl: bs[0] & 7, AckPresent: bs[1]&0x80 != 0, Flags: bs[1] >> 3 & 0xf, Version: bs[1] & 7,
			Protocol: layers.EthernetType(binary.BigEndian.Uint16(bs[2:]))}
		o := 4
		if g.ChecksumPresent || g.RoutingPresent {
			g.Offset = binary.BigEndian.Uint16(bs[o+2:])
			o += 4
		}
		if g.KeyPresent {
			g.Key = binary.BigEndian.Uint32(bs[o:])
			o += 4
		}
		if g.SeqPresent {
			g.Seq = binary.BigEndian.Uint32(bs[o:])
			o += 4
		}
		if g.RoutingPresent {
			o += 4
		}
		if g.AckPresent {
			g.Ack = binary.BigEndian.Uint32(bs[o:])
			o += 4
		}
		return g, bs[o:]
	case "ip4":
		hl := int(bs[0]&15) * 4
		ip := &layers.IPv4{Version: bs[0] >> 4, IHL: bs[0] & 15, TOS: bs[1], Length: binary.BigEndian.Uint16(bs[2:]), Id: binary.BigEndian.Uint16(bs[4:]),
			Flags: layers.IPv4Flag(bs[6] >> 5), FragOffset: binary.BigEndian.Uint16(bs[6:]) & 0x1fff, TTL: bs[8], Protocol: layers.IPProtocol(bs[9]),
			SrcIP: append([]byte(nil), bs[12:16]...), DstIP: append([]byte(nil), bs[16:20]...)}
		o := bs[20:hl]
		for len(o) > 0 {
			if o[0] <= 1 {
				ip.Options = append(ip.Options, layers.IPv4Option{OptionType: o[0], OptionLength: 1})
				o = o[1:]
				continue
			}
			n := int(o[1])
			ip.Options = append(ip.Options, layers.IPv4Option{OptionType: o[0], OptionLength: o[1], OptionData: append([]byte(nil), o[2:n]...)})
			o = o[n:]
		}
		return ip, make([]byte, int(ip.Length)-hl)
	}
	return nil, nil
}

func (c08) runEmit(args []string, res *Result, tags map[string]bool, shared gopacket.SerializeBuffer, po *c08objs) string {
	l, pk, src, dst, bs := c08parsePkt(args)
	cls, csum, same := "ok", "none", 1
	var out, lbytes []byte
	func() {
		defer func() {
			if r := recover(); r != nil {
				cls = "panic"
			}
		}()
		ly, payload := c08layerFromBytes(l, bs)
		fresh := true
		if po != nil {
			tags["reused-layer-objects"] = true
			if old, ok := po.ser[l+pk]; ok {
				c08assignExported(old, ly) // same object, new field values
				ly, fresh = old, false
			} else {
				po.ser[l+pk] = ly
			}
		}
		var stack []gopacket.SerializableLayer
		if c08usesPseudo(l) && pk != "n" {
			var nl gopacket.NetworkLayer
			if po != nil {
				nl = po.netLayer(pk, src, dst, c08proto(l))
			} else {
				nl = c08netLayer(pk, src, dst, c08proto(l))
			}
			if fresh {
				ly.(c08setNet).SetNetworkLayerForChecksum(nl)
			}
			stack = append(stack, nl.(gopacket.SerializableLayer))
		}
		stack = append(stack, ly, gopacket.Payload(payload))
		buf := shared
		if buf == nil {
			buf = gopacket.NewSerializeBuffer()
		} else {
			tags["reused-buffer"] = true
		}
		if err := gopacket.SerializeLayers(buf, gopacket.SerializeOptions{FixLengths: true, ComputeChecksums: true}, stack...); err != nil {
			cls = "err"
			return
		}
		out = append([]byte(nil), buf.Bytes()...)
		if l == "ip4" {
			lbytes = out[:len(bs)]
		} else {
			lbytes = out[len(out)-len(bs):]
		}
	}()
	if cls != "ok" {
		if cls == "panic" {
			res.Oracle = append(res.Oracle, "C08:no-panic\temit "+l+" panicked")
		}
		return "cls=" + cls
	}
	off := c08fieldOff(l, bs)
	z := append([]byte(nil), lbytes...)
	if off >= 0 {
		em := binary.BigEndian.Uint16(lbytes[off:])
		z[off], z[off+1] = 0, 0
		if l == "gre" && bs[0]&0x80 == 0 {
			if em != 0 {
				same = 0
			}
		} else {
			csum = strconv.Itoa(int(em))
			wide := c08wideSum(l, pk, src, dst, z)
			want := c08expected(l, wide)
			wrap := ""
			if wide >= 1<<32 {
				wrap = "acc-wrap "
				tags["acc-wrap"] = true
			}
			if len(z)%2 == 1 {
				tags["odd-length"] = true
			}
			if wide > 0xffff {
				tags["carry-out-of-16"] = true
			}
			if want == 0 {
				tags["csum-0000"] = true
			}
			if want == 0xffff {
				tags["csum-ffff"] = true
				if l == "udp" {
					tags["udp-zero-rule"] = true
				}
			}
			if want == 1 {
				tags["csum-0001"] = true
			}
			if want == 0xfffe {
				tags["csum-fffe"] = true
			}
			tags["emit-"+l+"-"+pk] = true
			switch want {
			case 0, 1, 0xfffe, 0xffff:
				tags[fmt.Sprintf("class-%s-%s-%04x", l, pk, want)] = true
			}
			if em != want {
				res.Oracle = append(res.Oracle, fmt.Sprintf("C08:emit-reference\t%s%s/%s len=%d: emitted %#04x reference %#04x", wrap, l, pk, len(z), em, want))
			}
			// verification of exactly what was emitted
			v := c08verifyDirect(l, pk, src, dst, lbytes)
			if v.cls == "ok" && len(v.region) == len(lbytes) {
				if !v.res.Valid || v.res.Correct != uint32(em) || v.res.Actual != uint32(em) {
					res.Oracle = append(res.Oracle, fmt.Sprintf("C08:verify-accepts\t%s%s/%s len=%d: emitted %#04x verified Valid=%v Correct=%#04x Actual=%#04x", wrap, l, pk, len(z), em, v.res.Valid, v.res.Correct, v.res.Actual))
				}
			} else if v.cls == "panic" {
				res.Oracle = append(res.Oracle, "C08:no-panic\tverify of emitted "+l+" panicked")
			}
			// the serialized packet as a whole, decoded again (where lengths fit the IP header fields)
			if c08usesPseudo(l) && len(out) <= 65535 && len(lbytes) > 0 {
				first := layers.LayerTypeIPv4
				if pk == "6" {
					first = layers.LayerTypeIPv6
				}
				func() {
					defer func() {
						if r := recover(); r != nil {
							res.Oracle = append(res.Oracle, "C08:no-panic\tre-decode of emitted "+l+" panicked")
						}
					}()
					p := gopacket.NewPacket(append([]byte(nil), out...), first, gopacket.Default)
					if x := p.Layer(c08layerType(l)); x != nil && p.NetworkLayer() != nil {
						x.(c08setNet).SetNetworkLayerForChecksum(p.NetworkLayer())
						e2, r2 := x.(c08csumLayer).VerifyChecksum()
						reg := len(x.LayerContents()) + len(x.LayerPayload())
						if e2 == nil && reg == len(lbytes) && (!r2.Valid || r2.Correct != uint32(em)) {
							res.Oracle = append(res.Oracle, fmt.Sprintf("C08:verify-accepts\t%spacket path %s/%s len=%d: emitted %#04x verified Valid=%v Correct=%#04x", wrap, l, pk, len(z), em, r2.Valid, r2.Correct))
						}
					}
				}()
			}
		}
	}
	if !bytes.Equal(z, bs) {
		same = 0
		res.Oracle = append(res.Oracle, fmt.Sprintf("harness:layout\t%s/%s serialized bytes differ from the expected layout", l, pk))
	}
	return fmt.Sprintf("cls=ok;csum=%s;same=%d", csum, same)
}

func (c08) runVerify(l, pk string, src, dst, data []byte, what string, res *Result, tags map[string]bool) c08vr {
	v := c08verifyDirect(l, pk, src, dst, data)
	res.Oracle = append(res.Oracle, c08checkVerify(l, pk, src, dst, data, v, what, tags)...)
	if v.cls == "ok" {
		pv, all, ok := c08verifyPacket(l, pk, src, dst, data)
		if ok {
			tags["packet-path"] = true
			if pv.cls == "panic" {
				res.Oracle = append(res.Oracle, "C08:no-panic\tpacket path "+what+" panicked")
			} else if pv.cls != "ok" || pv.res != v.res {
				res.Oracle = append(res.Oracle, fmt.Sprintf("C08:packet-path\t%s %s/%s len=%d: direct %s, via NewPacket %s", what, l, pk, len(data), v.obs(), pv.obs()))
			} else if strings.Contains(all, "disagrees") || strings.Contains(all, "differs") || strings.Contains(all, "unattached") {
				res.Oracle = append(res.Oracle, fmt.Sprintf("C08:packet-verifychecksums\t%s %s/%s len=%d: %s", what, l, pk, len(data), all))
			}
		}
	}
	return v
}

func (h c08) Run(c Case) Result {
	var res Result
	tags := map[string]bool{}
	var shared gopacket.SerializeBuffer // non-nil after a buf: op
	var objs *c08objs                   // long-lived layer objects of oemit / over
	for _, op := range c.Ops {
		name, arg, _ := strings.Cut(op, ":")
		args := strings.Split(arg, ",")
		switch name {
		case "fold":
			a, _ := strconv.ParseUint(args[0], 16, 32)
			v := gopacket.FoldChecksum(uint32(a))
			res.Obs = append(res.Obs, fmt.Sprintf("fold=%d", v))
			if v != c08rfc(a) {
				res.Oracle = append(res.Oracle, fmt.Sprintf("C08:helpers-rfc1071\tFoldChecksum(%#x)=%#04x reference %#04x", a, v, c08rfc(a)))
			}
			if a > 0xffff {
				tags["carry-out-of-16"] = true
			}
		case "cc", "ccr":
			a, _ := strconv.ParseUint(args[0], 16, 32)
			var data []byte
			if name == "cc" {
				data, _ = hex.DecodeString(args[1])
			} else {
				b, _ := strconv.Atoi(args[1])
				n, _ := strconv.Atoi(args[2])
				tl, _ := hex.DecodeString(args[3])
				data = append(bytes.Repeat([]byte{byte(b)}, n), tl...)
			}
			cs := gopacket.ComputeChecksum(data, uint32(a))
			f := gopacket.FoldChecksum(cs)
			res.Obs = append(res.Obs, fmt.Sprintf("cc=%x;fold=%d", cs, f))
			wide := a + c08wordsum(data)
			wrap := ""
			if wide >= 1<<32 {
				wrap = "acc-wrap "
				tags["acc-wrap"] = true
			}
			if len(data)%2 == 1 {
				tags["odd-length"] = true
			}
			if wide > 0xffff {
				tags["carry-out-of-16"] = true
			}
			if c08rfc(wide) == 0 {
				tags["csum-0000"] = true
			}
			if c08rfc(wide) == 0xffff {
				tags["csum-ffff"] = true
			}
			if f != c08rfc(wide) {
				res.Oracle = append(res.Oracle, fmt.Sprintf("C08:helpers-rfc1071\t%sFoldChecksum(ComputeChecksum(%d bytes, %#x))=%#04x reference %#04x", wrap, len(data), a, f, c08rfc(wide)))
			}
		case "buf":
			shared = gopacket.NewSerializeBuffer()
			if args[0] == "dirty" && len(args) == 3 {
				fb, _ := strconv.ParseUint(args[1], 16, 8)
				n, _ := strconv.Atoi(args[2])
				if pre, err := shared.PrependBytes(n); err == nil {
					for i := range pre {
						pre[i] = byte(fb)
					}
				}
				if app, err := shared.AppendBytes(n); err == nil {
					for i := range app {
						app[i] = byte(fb)
					}
				}
				shared.Clear()
				tags["dirty-buffer"] = true
			}
			res.Obs = append(res.Obs, "buf=1")
		case "emit":
			res.Obs = append(res.Obs, h.runEmit(args, &res, tags, shared, nil))
		case "oemit":
			if objs == nil {
				objs = newC08objs()
			}
			res.Obs = append(res.Obs, h.runEmit(args, &res, tags, shared, objs))
		case "over":
			if objs == nil {
				objs = newC08objs()
			}
			l, pk, src, dst, bs := c08parsePkt(args)
			tags["reused-layer-objects"] = true
			v := c08verifyDirectObj(l, pk, src, dst, bs, objs)
			res.Oracle = append(res.Oracle, c08checkVerify(l, pk, src, dst, bs, v, "ver(reused objects)", tags)...)
			res.Obs = append(res.Obs, v.obs())
		case "conc":
			w, _ := strconv.Atoi(args[0])
			ms, _ := strconv.Atoi(args[1])
			sd, _ := strconv.ParseInt(args[2], 10, 64)
			fails := c08concurrent(w, ms, sd)
			tags["concurrent"] = true
			if len(fails) == 0 {
				res.Obs = append(res.Obs, "conc=ok")
			} else {
				res.Obs = append(res.Obs, "conc=fail")
				res.Oracle = append(res.Oracle, fails...)
			}
		case "ver":
			l, pk, src, dst, bs := c08parsePkt(args)
			v := h.runVerify(l, pk, src, dst, bs, "ver", &res, tags)
			res.Obs = append(res.Obs, v.obs())
		case "flip", "flips", "flipall":
			l, pk, src, dst, bs := c08parsePkt(args)
			orig := c08verifyDirect(l, pk, src, dst, bs)
			var bits []int
			switch name {
			case "flip":
				b, _ := strconv.Atoi(args[5])
				bits = []int{b}
			case "flips":
				for _, s := range strings.Split(args[5], "/") {
					b, _ := strconv.Atoi(s)
					bits = append(bits, b)
				}
			default:
				for b := 0; b < 8*len(bs); b++ {
					bits = append(bits, b)
				}
			}
			var shorts []string
			var last c08vr
			for _, b := range bits {
				fb := c08flip(bs, b)
				var fv c08vr
				if name == "flipall" && len(bits) > 64 && b%5 != 0 {
					// the packet path is exercised on a fifth of the exhaustive flips (cost)
					fv = c08verifyDirect(l, pk, src, dst, fb)
					res.Oracle = append(res.Oracle, c08checkVerify(l, pk, src, dst, fb, fv, fmt.Sprintf("flip %d", b), tags)...)
				} else {
					fv = h.runVerify(l, pk, src, dst, fb, fmt.Sprintf("flip %d", b), &res, tags)
				}
				res.Oracle = append(res.Oracle, c08checkFlip(l, pk, src, dst, bs, orig, b, fv, tags)...)
				shorts = append(shorts, fv.short())
				last = fv
			}
			switch name {
			case "flip":
				res.Obs = append(res.Obs, last.obs())
			case "flips":
				res.Obs = append(res.Obs, "r="+strings.Join(shorts, "|"))
			default:
				res.Obs = append(res.Obs, fmt.Sprintf("n=%d;r=%s", len(shorts), strings.Join(shorts, "|")))
			}
		default:
			res.Obs = append(res.Obs, "unknown-op")
		}
	}
	for t := range tags {
		res.Tags = append(res.Tags, t)
	}
	return res
}

// c08concurrent: every goroutine owns one packet.  Verifiers decode their packet once (after checking that the
// library serialized it with the reference checksum) and call VerifyChecksum in a loop; serializers serialize
// their packet in a loop into their own buffer and layer objects.  Nothing is shared between goroutines but the
// library.  Only results are judged (no timing assumption): every verification must say Valid with the
// reference as Correct, every serialization must carry the reference checksum.
func c08concurrent(workers, ms int, seed int64) []string {
	type job struct {
		l, pk    string
		src, dst []byte
		bs       []byte // zeroed field
		want     uint16
		dec      c08csumLayer
		ser      gopacket.SerializableLayer
		stack    []gopacket.SerializableLayer
	}
	rng := rand.New(rand.NewSource(seed))
	kinds := [][2]string{{"tcp", "4"}, {"udp", "6"}, {"icmp4", "n"}, {"icmp6", "6"}, {"gre", "n"}, {"tcp", "6"}, {"udp", "4"}, {"ip4", "n"}, {"icmp6", "4"}}
	var fails []string
	var mu sync.Mutex
	report := func(s string) {
		mu.Lock()
		if len(fails) < 5 {
			fails = append(fails, s)
		}
		mu.Unlock()
	}
	opts := gopacket.SerializeOptions{FixLengths: true, ComputeChecksums: true}
	jobs := make([]*job, workers)
	for w := range jobs {
		k := kinds[w%len(kinds)]
		j := &job{l: k[0], pk: k[1]}
		j.src, j.dst = c08addr(rng, j.pk)
		plen := 6000 + rng.Intn(20000) + w
		if j.l == "ip4" {
			plen = rng.Intn(200)
		}
		c08greForce, c08greForceAck = 0x80, 0
		j.bs = c08build(rng, j.l, j.pk, plen)
		c08greForce, c08greForceAck = 0, 0
		if j.l == "ip4" {
			j.bs = j.bs[:c08hdrLen("ip4", j.bs)]
		}
		j.want = c08expected(j.l, c08wideSum(j.l, j.pk, j.src, j.dst, j.bs))
		ly, payload := c08layerFromBytes(j.l, j.bs)
		if c08usesPseudo(j.l) {
			nl := c08netLayer(j.pk, j.src, j.dst, c08proto(j.l))
			ly.(c08setNet).SetNetworkLayerForChecksum(nl)
			j.stack = append(j.stack, nl.(gopacket.SerializableLayer))
		}
		j.ser = ly
		j.stack = append(j.stack, ly, gopacket.Payload(payload))
		// the packet the verifier works on is the one the library serialized
		buf := gopacket.NewSerializeBuffer()
		if err := gopacket.SerializeLayers(buf, opts, j.stack...); err != nil {
			return []string{fmt.Sprintf("C08:emit-reference\tconcurrent setup: %s/%s does not serialize: %v", j.l, j.pk, err)}
		}
		out := buf.Bytes()
		lb := append([]byte(nil), out[len(out)-len(j.bs):]...)
		if j.l == "ip4" {
			lb = append([]byte(nil), out...)
		}
		off := c08fieldOff(j.l, j.bs)
		if got := binary.BigEndian.Uint16(lb[off:]); got != j.want {
			return []string{fmt.Sprintf("C08:emit-reference\tconcurrent setup (sequential): %s/%s len=%d emitted %#04x reference %#04x", j.l, j.pk, len(j.bs), got, j.want)}
		}
		j.dec = c08newLayer(j.l)
		if err := j.dec.DecodeFromBytes(lb, gopacket.NilDecodeFeedback); err != nil {
			return []string{fmt.Sprintf("C08:verify-accepts\tconcurrent setup: %s/%s does not decode: %v", j.l, j.pk, err)}
		}
		if sn, ok := j.dec.(c08setNet); ok {
			sn.SetNetworkLayerForChecksum(c08netLayer(j.pk, j.src, j.dst, c08proto(j.l)))
		}
		jobs[w] = j
	}
	var stop int32
	var calls int64
	var wg sync.WaitGroup
	deadline := time.Now().Add(time.Duration(ms) * time.Millisecond)
	for w, j := range jobs {
		wg.Add(1)
		go func(w int, j *job) {
			defer wg.Done()
			defer func() {
				if r := recover(); r != nil {
					atomic.StoreInt32(&stop, 1)
					report(fmt.Sprintf("C08:no-panic\tconcurrent worker %d (%s/%s) panicked: %v", w, j.l, j.pk, r))
				}
			}()
			var buf gopacket.SerializeBuffer
			if w%4 == 3 {
				buf = gopacket.NewSerializeBuffer()
			}
			off := c08fieldOff(j.l, j.bs)
			for n := 0; atomic.LoadInt32(&stop) == 0 && (n < 20 || time.Now().Before(deadline)); n++ {
				atomic.AddInt64(&calls, 1)
				if buf != nil { // serializer
					if err := gopacket.SerializeLayers(buf, opts, j.stack...); err != nil {
						atomic.StoreInt32(&stop, 1)
						report(fmt.Sprintf("C08:emit-reference\tconcurrent worker %d: %s/%s serialization failed: %v", w, j.l, j.pk, err))
						return
					}
					out := buf.Bytes()
					lb := out[len(out)-len(j.bs):]
					if j.l == "ip4" {
						lb = out[:len(j.bs)]
					}
					if got := binary.BigEndian.Uint16(lb[off:]); got != j.want {
						atomic.StoreInt32(&stop, 1)
						report(fmt.Sprintf("C08:emit-reference\tconcurrent worker %d of %d: %s/%s len=%d emitted %#04x reference %#04x (its own buffer and layer objects)", w, len(jobs), j.l, j.pk, len(j.bs), got, j.want))
						return
					}
					continue
				}
				err, r := j.dec.VerifyChecksum()
				if err != nil || !r.Valid || r.Correct != uint32(j.want) || r.Actual != uint32(j.want) {
					atomic.StoreInt32(&stop, 1)
					report(fmt.Sprintf("C08:verify-accepts\tconcurrent worker %d of %d: untouched library-serialized %s/%s len=%d: err=%v Valid=%v Correct=%#04x Actual=%#04x reference %#04x", w, len(jobs), j.l, j.pk, len(j.bs), err, r.Valid, r.Correct, r.Actual, j.want))
					return
				}
			}
		}(w, j)
	}
	wg.Wait()
	return fails
}
